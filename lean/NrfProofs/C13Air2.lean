/-
C13, the air log: the last router of an acknowledged frame (`router_ack_any` of NrfProofs/C13HopsLast.lean)
with the log of transmissions `World.air`.  The proof is that of `router_ack_any`, with the air log followed
through the intermediate states: the router's `update()` appends exactly two records, both by the router's
own radio, single attempts reported sent — the data frame `pk` handed to the destination, then the
NETWORK_ACK `pkA` handed back.  The reads, the radio set-up, the pause, the destination's `update()` run at
the scheduling point and the context switches append nothing.
-/
import NrfProofs.C13Air1

namespace Nrf.Net.Air
open Nrf Nrf.Spec Nrf.Proofs Nrf.Props.C04 Nrf.Net.Hops

/-- the radio set-up of `_write_to_pipe` (`tx_setup` of NrfProofs/C13Live.lean): nothing goes on the air -/
private theorem tx_setup_air' (hc : L3Contracts) (hair : AirContracts) (f : Nat) (s : NetState) (L : LinkCfg) (Pa : List Bytes)
    (rx ce : Bool) (aa tn tp : Nat) (A pk : Bytes)
    (hcur : s.cur < s.nodes.length) (hWf : s.drv.Wf)
    (hN : NodeRadio L Pa rx ce aa s.node.rf s.drv.radio)
    (haddr : pipeAddress s.node.cfg tn tp = .ok A) (hAlen : A.length = 5)
    (hmsg : s.node.frameBuf.message.length ≤ MAX_FRAG_SIZE)
    (hpk : s.node.frameBuf.pack = .ok pk) (hnl : tn ≠ s.node.a.addr) :
    ∃ D3 : DrvState, DrvFrame s.drv D3 ∧ NodeRadio L Pa false false 0x3F D3.d D3.radio ∧
      D3.radio.rxFifo = s.drv.radio.rxFifo ∧ D3.radio.txAddr = A ∧ D3.radio.rxAddr0 = A ∧
      (nexec (nodeWriteToPipe (f + 1) tn tp false) s =
        match nexec (rfSend f pk) (s.afterRf D3) with
        | (.ok true, s') => (.ok true, s')
        | (.ok false, s') => nexec (txStandbyFor f s.node.txTimeout) s'
        | (.error e, s') => (.error e, s')) ∧
      D3.w.air = s.drv.w.air := by
  obtain ⟨D1, e1, F1, N1, x1, _, _⟩ := hc.setAA s.drv L Pa rx ce aa 0x3F hWf hN (Or.inr rfl)
  obtain ⟨D2, e2, F2, N2, x2⟩ := hc.listenOff D1 L Pa rx ce 0x3F (F1.wf hWf) N1
  obtain ⟨D3, e3, F3, N3, x3, a3, t3⟩ := hc.openTx D2 L Pa false A ((F1.trans F2).wf hWf) N2 hAlen
  have w1 := hair.setAA s.drv L Pa rx ce aa 0x3F hWf hN (Or.inr rfl)
  rw [e1] at w1
  have w2 := hair.listenOff D1 L Pa rx ce 0x3F (F1.wf hWf) N1
  rw [e2] at w2
  have w3 := hair.openTx D2 L Pa false A ((F1.trans F2).wf hWf) N2 hAlen
  rw [e3] at w3
  refine ⟨D3, (F1.trans F2).trans F3, N3, by rw [x3, x2, x1], t3, a3, ?_, by rw [w3, w2, w1]⟩
  rw [nodeWriteToPipe.eq_2, nexec_bind, nexec_getNode]
  have hno : ¬ (tn = s.node.a.addr ∧ (!false) = true) := fun h => hnl h.1
  simp only [if_neg hno, Bool.false_eq_true, if_false]
  have e63 : (62 + 1 : Int) = ((63 : Nat) : Int) := by decide
  rw [e63, nexec_bind, nexec_liftRf_ok _ s _ D1 e1]
  simp only []
  rw [nexec_bind, nexec_liftRf_ok _ _ _ D2 (by rw [afterRf_drv s D1 hcur]; exact e2), afterRf_afterRf]
  simp only []
  have hpa : nexec (pipeAddr tn tp) (s.afterRf D2) = (.ok A, s.afterRf D2) := by
    unfold Nrf.Net.pipeAddr
    rw [nexec_bind, nexec_getNode]
    simp only []
    rw [afterRf_node s D2 hcur]
    simp only []
    rw [haddr, nexec_liftPy_ok]
  rw [nexec_bind, hpa]
  simp only []
  rw [nexec_bind, nexec_liftRf_ok _ _ _ D3 (by rw [afterRf_drv s D2 hcur]; exact e3), afterRf_afterRf]
  simp only []
  rw [nexec_bind, nexec_getNode]
  simp only []
  rw [afterRf_node s D3 hcur]
  simp only [hmsg, if_true]
  rw [nexec_bind]
  have : (Frame.pack s.node.frameBuf) = .ok pk := hpk
  rw [this, nexec_liftPy_ok]
  simp only []
  rw [nexec_bind]
  rcases nexec (rfSend f pk) (s.afterRf D3) with ⟨r, s'⟩
  cases r with
  | error e => rfl
  | ok b => cases b <;> rfl

/-- **The last router of an acknowledged frame, with the air log** (`router_ack_any`): the router's
    `update()` puts exactly two transmissions on the air, both its own, single attempts, acknowledged:
    the data frame `pk` to the destination, then the NETWORK_ACK `pkA` on its way back. -/
theorem router_ack_any_air (hc : L3Contracts) (hair : AirContracts) (cfg : AddrCfg) (hcfg : CfgOk cfg) (L : LinkCfg) (tree : Nat → List Nat)
    (fr : Frame) (pk pkA : Bytes) (t : Nat) (o y d xa : List Nat) (T : AckTransitS fr pk t o d)
    (hpkA : (ackOf fr).pack = .ok pkA)
    (hndef : ∀ i, val (tree i) ≠ NETWORK_DEFAULT_ADDR)
    (s : NetState) (r a jd g : Nat) (hok : NetOk cfg L tree s) (hcur : s.cur = r)
    (hr : r < s.nodes.length) (ha : a < s.nodes.length) (hjd : jd < s.nodes.length)
    (htr : tree r = y) (hta : tree a = xa) (htd : tree jd = d)
    (hback : nextHopSpec y o = xa) (hy2 : nextHopSpec y d = d) (hoy : o ≠ y) (hyd : y ≠ d) (hxad : xa ≠ d)
    (hjda : jd ∉ s.active) (hract : r ∈ s.active) (haact : a ∈ s.active)
    (p : Nat) (hp : p ≤ 5) (hfifo : (s.radioAt r).rxFifo = [{ pipe := p, data := pk }])
    (hempty : ∀ k, k < s.nodes.length → k ≠ r → (s.radioAt k).rxFifo = [])
    (hlast_d : NotDup (s.radioAt jd) pk)
    (hdup_a : ∀ l, (s.radioAt a).lastRx = some l → l.data ≠ pkA)
    (hacc : Accepts (s.nodeAt jd).queue fr) (hsys : SysOk t (s.nodeAt jd).retSysMsg)
    (hg : s.nodes.length + 2 ≤ g) :
    ∃ s', nexec (nodeUpdate (g + 11 + jd)) s = (.ok 0, s') ∧
      NetOk cfg L tree s' ∧ s'.cur = r ∧ s'.active = s.active ∧ Same s s' ∧
      (s'.radioAt a).rxFifo = [{ pipe := hopPipe y o, data := pkA }] ∧
      (∀ k, k < s.nodes.length → k ≠ a → (s'.radioAt k).rxFifo = []) ∧
      (∀ k, k < s.nodes.length →
        (s'.nodeAt k).queue.frames = (s.nodeAt k).queue.frames ++ (if k = jd then [fr] else [])) ∧
      (∀ k, k < s.nodes.length → k ∈ s.active → k ≠ r → k ≠ a → s'.radioAt k = s.radioAt k) ∧
      ∃ r1 r2 : AirRec, s'.w.air = s.w.air ++ [r1, r2] ∧ OneBy (s.ridAt r) pk r1 ∧ OneBy (s.ridAt r) pkA r2 := by
  have hxy : o ≠ y := hoy
  have hxan : IsNode xa := by have := (hok.node a ha).1; rw [hta] at this; exact this
  have hxay : xa ≠ y := by rw [← hback]; exact nextHop_ne_self (fun e => hoy e.symm)
  have hra : r ≠ a := fun e => hxay (by rw [← hta, ← htr, e])
  have hrjd : r ≠ jd := fun e => hyd (by rw [← htr, ← htd, e])
  have hajd : a ≠ jd := fun e => hxad (by rw [← hta, ← htd, e])
  obtain ⟨hn1, hn2, hn3, hn4, hn5, hn6⟩ := hok.node r hr
  rw [htr] at hn1 hn2
  obtain ⟨P, hP, hN⟩ := hok.radio r hr
  rw [htr] at hP
  obtain ⟨Pd, hPd, hNd⟩ := hok.radio jd hjd
  rw [htd] at hPd
  obtain ⟨Pa, hPa, hNa⟩ := hok.radio a ha
  rw [hta] at hPa
  have hq : Quiet s := fun k hk hkc _ => hempty k hk (by rw [hcur] at hkc; exact hkc)
  have hnode : s.node = s.nodeAt r := by rw [← hcur]; rfl
  have hdrv_rad : s.drv.radio = s.radioAt r := by rw [← hcur]; rfl
  have hridr : s.ridAt r = s.drv.d.rid := by rw [← hcur]; rfl
  have hWf : s.drv.Wf := by unfold DrvState.Wf; show s.node.rf.rid < s.w.radios.length; rw [hnode]; exact hn6
  have hT1 : fr.header.ty = t := by simp [Header.ty, T.ty]
  -- 1. the read
  obtain ⟨D1, e1, F1, N1, x1, a1⟩ := rfRead_head_air hc hair (g + 8 + jd) s L P true true 0x3E (by rw [hcur]; exact hr)
    hok.closed (by omega) hq hWf (by rw [hnode, hdrv_rad]; exact hN) (by rw [hnode]; exact hn4)
    (by
      intro e he
      rw [hdrv_rad, hfifo] at he
      simp only [List.mem_singleton] at he
      subst he
      have := pack_length T.pack
      have := T.len
      unfold MAX_FRAG_SIZE at *
      exact ⟨hp, by simp only []; omega, by simp only []; omega⟩)
  rw [hdrv_rad, hfifo] at e1 x1
  simp only [List.head?_cons, Option.map_some, List.tail_cons] at e1 x1
  generalize hs1 : s.afterRf D1 = s1 at e1
  have hs1c : s1.cur = r := by rw [← hs1]; exact hcur
  have hs1l : s1.nodes.length = s.nodes.length := by rw [← hs1]; simp
  have hs1n : s1.node = { s.nodeAt r with rf := D1.d } := by
    rw [← hs1, afterRf_node s D1 (by rw [hcur]; exact hr), hnode]
  have hs1at : ∀ k, k ≠ r → s1.nodeAt k = s.nodeAt k := by
    intro k hk; rw [← hs1, nodeAt_afterRf_ne s D1 k (by rw [hcur]; exact hk)]
  have hs1w : s1.w = D1.w := by rw [← hs1]; rfl
  -- 2. dispatch: forward
  have hun : s1.node.frameBuf.unpack pk = (fr, true) := by
    have := unpack_of_pack fr s1.node.frameBuf t T.ty pk T.pack
    rw [T.wire] at this; exact this
  have hs2n0 : (s1.withFrame fr).node = { s.nodeAt r with rf := D1.d, frameBuf := fr } := by
    rw [withFrame_node _ _ (by rw [hs1c, hs1l]; exact hr), hs1n]
  have hto : val d ≠ s1.node.a.addr := by
    rw [hs1n]
    show val d ≠ (s.nodeAt r).a.addr
    rw [hn2]
    exact fun e => hyd (val_inj hn1.1 T.hd.1 e.symm)
  have step1 : nexec (netUpdate (g + 10 + jd) 0) s =
      match nexec (nodeWrite (g + 8 + jd) (val d) TX_ROUTED) (s1.withFrame fr) with
      | (.ok _, s3) => nexec (netUpdate (g + 9 + jd) 0) s3
      | (.error e, s3) => (.error e, s3) := by
    rw [show g + 10 + jd = (g + 9 + jd) + 1 from by omega, netUpdate_step,
      show g + 9 + jd = (g + 8 + jd) + 1 from by omega, e1]
    simp only [hun, T.dst, T.src, isValid_val T.hd, isValid_val T.hx, Bool.not_true, Bool.or_self,
      Bool.false_eq_true, if_false]
    simp only [if_neg hto]
    rw [handleOther_forward (g + 8 + jd) _ _
      (by rw [hs2n0]; right; show fr.header.toNode ≠ _; rw [T.dst]; exact val_ne_multicast T.hd)
      (by rw [hs2n0]; show (s.nodeAt r).a.addr ≠ _; rw [hn2]; have := hndef r; rw [htr] at this; exact this),
      hs2n0]
    simp only [T.dst]
    rcases nexec (nodeWrite (g + 8 + jd) (val d) TX_ROUTED) (s1.withFrame fr) with ⟨rr, s3⟩
    cases rr <;> rfl
  -- 3. the state being forwarded from
  generalize hs2 : s1.withFrame fr = s2 at step1 hs2n0
  have hs2n : s2.node = { s.nodeAt r with rf := D1.d, frameBuf := fr } := hs2n0
  have hs2cur : s2.cur = r := by rw [← hs2]; exact hs1c
  have hs2l : s2.nodes.length = s.nodes.length := by rw [← hs2]; simp; exact hs1l
  have hs2w : s2.w = D1.w := by rw [← hs2]; exact hs1w
  have hs2a : s2.active = s.active := by rw [← hs2, ← hs1]; rfl
  have hs2cl : s2.closed = true := by rw [← hs2, ← hs1]; exact hok.closed
  have hs2at : ∀ k, k ≠ r → s2.nodeAt k = s.nodeAt k := by
    intro k hk; rw [← hs2, nodeAt_withFrame_ne _ _ _ (by rw [hs1c]; exact hk), hs1at k hk]
  have hs2rid : ∀ k, s2.ridAt k = s.ridAt k := by
    intro k
    by_cases hk : k = r
    · subst hk
      have : s2.nodeAt k = s2.node := by rw [← hs2cur]; rfl
      unfold NetState.ridAt
      rw [this, hs2n]
      show D1.d.rid = _
      rw [F1.rid]; exact hridr.symm
    · unfold NetState.ridAt; rw [hs2at k hk]
  have hs2rad : ∀ k, k < s.nodes.length → k ≠ r → s2.radioAt k = s.radioAt k := by
    intro k hk hkr
    unfold NetState.radioAt
    rw [hs2rid, hs2w, F1.others _ (by rw [← hridr]; exact (hok.inj k r hk hr hkr).2)]
    rfl
  have hs2drv : s2.drv = D1 := by
    unfold NetState.drv; rw [hs2n, hs2w]
  -- the first hop: to the destination, after the 2 ms pause
  obtain ⟨hp1, hp5⟩ : 1 ≤ hopPipe y d ∧ hopPipe y d ≤ 5 := by
    have := C04_listens cfg hcfg y d hn1 T.hd hyd TX_ROUTED (Or.inr rfl)
    exact ⟨this.1, this.2.1⟩
  obtain ⟨A, hA1, hA2, hA3⟩ := listen_addrs cfg hcfg d T.hd Pd hPd (hopPipe y d) hp1 hp5
  have hl2p : logi2phys s2.node.a (val d) TX_ROUTED = (val d, hopPipe y d, false) := by
    rw [hs2n]; show logi2phys (s.nodeAt r).a _ _ = _
    rw [hn2, l2p_tree hn1 T.hd (Or.inr rfl), hy2]
  obtain ⟨D, e3, r3, l3, f3, N3, x3, lr3, ⟨pid, hrb⟩, hoth3, r1, har1, hone1⟩ := hop_single_air hc hair (g + 6 + jd) (s2.slept 2000000) L P Pd jd
    (hopPipe y d) (val d) (hopPipe y d) A pk
    (by simp; rw [hs2cur, hs2l]; exact hr) hs2cl (by simp; rw [hs2l]; omega)
    (by
      intro k hk hkc hka
      simp at hk hkc
      rw [hs2cur] at hkc; rw [hs2l] at hk
      rw [slept_radioAt, hs2rad k hk hkc]; exact hempty k hk hkc)
    (by
      unfold DrvState.Wf
      show s2.drv.d.rid < s2.drv.w.radios.length
      rw [hs2drv]; exact F1.wf hWf)
    (by rw [slept_node, slept_drv_radio, hs2n, hs2drv]; exact N1)
    (by simp; rw [hs2l]; exact hjd) (by simp; rw [hs2cur]; exact fun e => hrjd e.symm)
    (by simp; rw [hs2a]; exact hjda)
    (by
      intro k hk hkc
      simp at hk hkc
      rw [slept_ridAt, slept_ridAt, hs2rid, hs2rid]
      simp; rw [hs2cur]
      rw [hs2l] at hk; rw [hs2cur] at hkc
      exact (hok.inj k r hk hr hkc).2)
    (by rw [slept_nodeAt, slept_radioAt, hs2at jd (fun e => hrjd e.symm), hs2rad jd hjd (fun e => hrjd e.symm)]; exact hNd)
    (by rw [slept_node, hs2n]; show pipeAddress (s.nodeAt r).cfg _ _ = _; rw [hn3]; exact hA1)
    hA2 hp1 hp5 hA3 (by rw [slept_radioAt, hs2rad jd hjd (fun e => hrjd e.symm)]; exact hlast_d)
    (by
      intro ρ pid hri hrj
      rw [slept_ridAt] at hri hrj
      simp at hri
      rw [hs2rid, hs2cur] at hri; rw [hs2rid] at hrj
      rw [slept_radio, hs2w, F1.others ρ (by rw [← hridr]; exact hri)]
      exact hok.hothers (i := r) hcfg hjd (by rw [htd]; exact hPd) hp1 hp5 hA2 pk ρ pid hri hrj)
    (by rw [slept_faults, hs2w, F1.faults]; exact hok.faults)
    (by rw [slept_node, hs2n]; exact T.len) (by rw [slept_node, hs2n]; exact T.pack)
    (by
      rw [slept_node, hs2n]; show _ ≠ (s.nodeAt r).a.addr; rw [hn2]
      exact fun e => hyd (val_inj hn1.1 T.hd.1 e.symm))
  have hrb' : D.w.radio (s.ridAt jd) = (s.radioAt jd).withRx [{ pipe := hopPipe y d, data := pk }]
      { pid := pid, addr := A, data := pk } := by
    rw [slept_ridAt, slept_radioAt, hs2rid jd, hs2rad jd hjd (fun e => hrjd e.symm), hempty jd hjd (fun e => hrjd e.symm)] at hrb
    rw [hrb]; rfl
  have hoth3' : ∀ ρ, ρ ≠ s.ridAt r → ρ ≠ s.ridAt jd → D.w.radio ρ = s.w.radio ρ := by
    intro ρ hri hrj
    rw [hoth3 ρ (by rw [slept_ridAt]; simp; rw [hs2rid, hs2cur]; exact hri) (by rw [slept_ridAt, hs2rid]; exact hrj),
      slept_radio, hs2w, F1.others ρ (by rw [← hridr]; exact hri)]
    rfl
  have hDair : D.w.air = s.w.air ++ [r1] := by
    rw [har1]; show s2.w.air ++ _ = _; rw [hs2w, a1]
  have hone1' : OneBy (s.ridAt r) pk r1 := by
    have hrid1 : (s2.slept 2000000).ridAt (s2.slept 2000000).cur = s.ridAt r := by
      rw [slept_ridAt, hs2rid]; show s.ridAt s2.cur = _; rw [hs2cur]
    rw [hrid1] at hone1; exact hone1
  have hDrid : D.d.rid = s.ridAt r := by
    rw [r3, slept_node, hs2n]; show D1.d.rid = _; rw [F1.rid]; exact hridr.symm
  have hDfifo : D.radio.rxFifo = [] := by rw [x3, slept_drv_radio, hs2drv]; exact x1
  have hDW : D.Wf := by
    unfold DrvState.Wf
    rw [hDrid, l3, slept_rlen, hs2w, F1.len]; exact hn6
  -- 4. `_write` goes on: emit
  rw [show g + 8 + jd = (g + 7 + jd) + 1 from by omega,
    nodeWrite_step_raw (g + 7 + jd) (val d) TX_ROUTED s2 t (by rw [hs2n]; exact T.ty), hl2p,
    writePrelude_routed_ack s2 t (val d) (by rw [hl2p]) T.ack,
    show g + 7 + jd = (g + 6 + jd) + 1 from by omega, e3] at step1
  simp only [] at step1
  generalize hs3 : (s2.slept 2000000).afterRf D = s3 at step1
  have hs3c : s3.cur = r := by rw [← hs3]; exact hs2cur
  have hs3a : s3.active = s.active := by rw [← hs3]; exact hs2a
  have hs3l : s3.nodes.length = s.nodes.length := by rw [← hs3]; simp; exact hs2l
  have hs3w : s3.w = D.w := by rw [← hs3]; rfl
  have hs3cl : s3.closed = true := by rw [← hs3]; exact hs2cl
  have hs3n : s3.node = { s.nodeAt r with rf := D.d, frameBuf := fr } := by
    rw [← hs3, afterRf_node _ _ (by simp; rw [hs2cur, hs2l]; exact hr), slept_node, hs2n]
  have hs3at : ∀ k, k ≠ r → s3.nodeAt k = s.nodeAt k := by
    intro k hk; rw [← hs3, nodeAt_afterRf_ne _ _ _ (by simp; rw [hs2cur]; exact hk), slept_nodeAt, hs2at k hk]
  have hemit : (if True ∧ True ∧ s3.node.frameBuf.header.fromNode ≠ s3.node.a.addr then AckAction.emit
      else if val d ≠ val d ∧ (TX_ROUTED = TX_NORMAL ∨ TX_ROUTED = TX_LOGICAL) then AckAction.await
      else AckAction.none) = AckAction.emit := by
    rw [if_pos]
    refine ⟨trivial, trivial, ?_⟩
    rw [hs3n]; show fr.header.fromNode ≠ (s.nodeAt r).a.addr
    rw [T.src, hn2]
    exact fun e => hxy (val_inj T.hx.1 hn1.1 e)
  simp only [if_true, if_pos T.ack, true_and] at step1
  have hfrom : s3.node.frameBuf.header.fromNode ≠ s3.node.a.addr := by
    rw [hs3n]; show fr.header.fromNode ≠ (s.nodeAt r).a.addr
    rw [T.src, hn2]
    exact fun e => hxy (val_inj T.hx.1 hn1.1 e)
  rw [if_pos hfrom] at step1
  -- the acknowledgement and its hop back
  have hyx : y ≠ o := fun e => hxy e.symm
  obtain ⟨hq1, hq5⟩ : 1 ≤ hopPipe y o ∧ hopPipe y o ≤ 5 := by
    have := C04_listens cfg hcfg y o hn1 T.hx hyx TX_ROUTED (Or.inr rfl)
    exact ⟨this.1, this.2.1⟩
  obtain ⟨A', hA'1, hA'2, hA'3⟩ := listen_addrs cfg hcfg xa hxan Pa hPa (hopPipe y o) hq1 hq5
  have hA'len : A'.length = 5 := by
    obtain ⟨_, _, _, _, _, _, _, _, _, _, _, _, _, _, _, _, _, _, _, _, _, hPl, _⟩ := hNa
    exact hPl A' (List.mem_of_getElem? hA'2)
  have hl2p2 : logi2phys s3.node.a s3.node.frameBuf.header.fromNode TX_ROUTED = (val xa, hopPipe y o, false) := by
    rw [hs3n]; show logi2phys (s.nodeAt r).a fr.header.fromNode _ = _
    rw [hn2, T.src, l2p_tree hn1 T.hx (Or.inr rfl), hback]
  -- the state with the acknowledgement in `frame_buf`
  generalize hs4 : (s3.setNode fun n => { n with frameBuf := { n.frameBuf with header :=
      { (n.frameBuf.header.setTy NETWORK_ACK) with toNode := n.frameBuf.header.fromNode } } }) = s4
  have hs4c : s4.cur = r := by rw [← hs4]; exact hs3c
  have hs4a : s4.active = s.active := by rw [← hs4]; exact hs3a
  have hs4l : s4.nodes.length = s.nodes.length := by rw [← hs4]; simp; exact hs3l
  have hs4w : s4.w = D.w := by rw [← hs4]; exact hs3w
  have hs4cl : s4.closed = true := by rw [← hs4]; exact hs3cl
  have hs4n : s4.node = { s.nodeAt r with rf := D.d, frameBuf := ackOf fr } := by
    rw [← hs4, node_setNode _ _ (by rw [hs3c, hs3l]; exact hr), hs3n]
    rfl
  have hs4at : ∀ k, k ≠ r → s4.nodeAt k = s.nodeAt k := by
    intro k hk
    rw [← hs4, nodeAt_setNode, if_neg (fun h => hk (h.1.trans hs3c)), hs3at k hk]
  have hs4drv : s4.drv = D := by unfold NetState.drv; rw [hs4n, hs4w]
  obtain ⟨Dt, Ft, Nt, xt, tt, at', eqt, hDtair0⟩ := tx_setup_air' hc hair (g + 6 + jd) s4 L P false true 0x3F (val xa) (hopPipe y o) A' pkA
    (by rw [hs4c, hs4l]; exact hr) (by rw [hs4drv]; exact hDW) (by rw [hs4n, hs4drv]; exact N3)
    (by rw [hs4n]; show pipeAddress (s.nodeAt r).cfg _ _ = _; rw [hn3]; exact hA'1) hA'len
    (by rw [hs4n]; exact T.len) (by rw [hs4n]; exact hpkA)
    (by rw [hs4n]; show _ ≠ (s.nodeAt r).a.addr; rw [hn2]; exact fun e => hxay (val_inj hxan.1 hn1.1 e))
  rw [hs4drv] at Ft xt hDtair0
  have hDtair : Dt.w.air = s.w.air ++ [r1] := by rw [hDtair0, hDair]
  -- 5. the scheduling point of the second transmission: the destination takes its frame
  generalize hs5 : s4.afterRf Dt = s5 at eqt
  have hs5c : s5.cur = r := by rw [← hs5]; exact hs4c
  have hs5a : s5.active = s.active := by rw [← hs5]; exact hs4a
  have hs5l : s5.nodes.length = s.nodes.length := by rw [← hs5]; simp; exact hs4l
  have hs5w : s5.w = Dt.w := by rw [← hs5]; rfl
  have hs5cl : s5.closed = true := by rw [← hs5]; exact hs4cl
  have hs5n : s5.node = { s.nodeAt r with rf := Dt.d, frameBuf := ackOf fr } := by
    rw [← hs5, afterRf_node _ _ (by rw [hs4c, hs4l]; exact hr), hs4n]
  have hs5at : ∀ k, k ≠ r → s5.nodeAt k = s.nodeAt k := by
    intro k hk; rw [← hs5, nodeAt_afterRf_ne _ _ _ (by rw [hs4c]; exact hk), hs4at k hk]
  have hs5ati : s5.nodeAt r = s5.node := by rw [← hs5c]; rfl
  have hDtrid : Dt.d.rid = s.ridAt r := by rw [Ft.rid]; exact hDrid
  have hs5rid : ∀ k, s5.ridAt k = s.ridAt k := by
    intro k
    by_cases hk : k = r
    · subst hk; unfold NetState.ridAt; rw [hs5ati, hs5n]; exact hDtrid
    · unfold NetState.ridAt; rw [hs5at k hk]
  have hDtoth : ∀ ρ, ρ ≠ s.ridAt r → Dt.w.radio ρ = D.w.radio ρ := by
    intro ρ hρ; exact Ft.others ρ (by rw [hDrid]; exact hρ)
  have hs5radr : s5.radioAt r = Dt.radio := by
    unfold NetState.radioAt; rw [hs5rid, hs5w, ← hDtrid]; rfl
  have hs5radjd : s5.radioAt jd = (s.radioAt jd).withRx [{ pipe := hopPipe y d, data := pk }]
      { pid := pid, addr := A, data := pk } := by
    unfold NetState.radioAt
    rw [hs5rid, hs5w, hDtoth _ (hok.inj jd r hjd hr (fun e => hrjd e.symm)).2, hrb']
    rfl
  have hs5rad : ∀ k, k < s.nodes.length → k ≠ r → k ≠ jd → s5.radioAt k = s.radioAt k := by
    intro k hk hkr hkj
    unfold NetState.radioAt
    rw [hs5rid, hs5w, hDtoth _ (hok.inj k r hk hr hkr).2, hoth3' _ (hok.inj k r hk hr hkr).2 (hok.inj k jd hk hjd hkj).2]
  -- the destination's turn
  generalize hsj : s5.switchTo jd = sj
  have hsjc : sj.cur = jd := by rw [← hsj]; rfl
  have hsja : sj.active = jd :: s.active := by rw [← hsj]; show jd :: s5.active = _; rw [hs5a]
  have hsjl : sj.nodes.length = s.nodes.length := by rw [← hsj, (Same.switchTo s5 jd).len, hs5l]
  have hsjrad : ∀ k, sj.radioAt k = s5.radioAt k := by intro k; rw [← hsj]; exact radioAt_switchTo s5 jd k
  have hsjrf : ∀ k, (sj.nodeAt k).rf = (s5.nodeAt k).rf := by intro k; rw [← hsj]; exact rf_switchTo s5 jd k
  have hsjq : ∀ k, (sj.nodeAt k).queue = (s5.nodeAt k).queue := by intro k; rw [← hsj]; exact queue_switchTo s5 jd k
  have hsjstat := fun k => (Same.switchTo s5 jd).stat k
  rw [hsj] at hsjstat
  have hsjnode : sj.node = sj.nodeAt jd := by rw [← hsjc]; rfl
  have hjdr : jd ≠ r := fun e => hrjd e.symm
  obtain ⟨hd1, hd2, hd3, hd4, hd5, hd6⟩ := hok.node jd hjd
  rw [htd] at hd2
  have hsjdrad : sj.drv.radio = sj.radioAt jd := by rw [← hsjc]; rfl
  obtain ⟨Dj1, Dj2, ej, Fj1, Fj2, Nj2, xj2, aj⟩ := dest_update_sys_air hc hair g sj L Pd (hopPipe y d) pk fr t d
    (by rw [hsjc, hsjl]; exact hjd) (by rw [← hsj]; exact hs5cl) (by rw [hsjl]; exact hg)
    (by
      intro k hk hkc hka
      rw [hsjl] at hk; rw [hsjc] at hkc; rw [hsja] at hka
      simp only [List.mem_cons, not_or] at hka
      have hkr : k ≠ r := fun e => hka.2 (e ▸ hract)
      rw [hsjrad, hs5rad k hk hkr hkc]
      exact hempty k hk hkr)
    (by
      unfold DrvState.Wf
      show sj.node.rf.rid < sj.w.radios.length
      rw [hsjnode, hsjrf, hs5at jd hjdr]
      have : sj.w.radios.length = s.w.radios.length := by
        rw [← hsj]; show s5.w.radios.length = _
        rw [hs5w, Ft.len, l3, slept_rlen, hs2w, F1.len]; rfl
      rw [this]; exact hd6)
    (by
      rw [hsjdrad, hsjnode, hsjrf, hs5at jd hjdr, hsjrad, hs5radjd]
      exact hNd.withRx _ _ _ hp5)
    (by rw [hsjnode, (hsjstat jd).2.2.1, hs5at jd hjdr]; exact hd4)
    (by rw [hsjnode, (hsjstat jd).2.2.2.1, hs5at jd hjdr]; exact hd5)
    (by rw [hsjnode, (hsjstat jd).1, hs5at jd hjdr]; exact hd2)
    (by rw [hsjdrad, hsjrad, hs5radjd]; rfl) hp5 T.wire T.ty T.pack T.len T.dst T.hd
    (by rw [T.src]; exact isValid_val T.hx)
    (by rw [hsjnode, ← hsj, retSys_switchTo, hs5at jd hjdr]; exact hsys)
    (by rw [hsjnode, hsjq, hs5at jd hjdr]; exact hacc)
  have hDj2air : Dj2.w.air = s.w.air ++ [r1] := by
    rw [aj, ← hsj]; show s5.w.air = _; rw [hs5w, hDtair]
  obtain ⟨dc, da, dcl, dw, dl, dne, drf, dq, drid⟩ := delivered_facts sj fr Dj1 Dj2 (by rw [hsjc, hsjl]; exact hjd) Fj1 Fj2
  rw [hsjc] at dne drf dq
  generalize hsj' : sj.delivered fr Dj1 Dj2 = sj' at ej dc da dcl dw dl dne drf dq drid
  have Fj : DrvFrame sj.drv Dj2 := Fj1.trans Fj2
  have hsjdrid : sj.drv.d.rid = s.ridAt jd := by
    show sj.node.rf.rid = _; rw [hsjnode, hsjrf, hs5at jd hjdr]; rfl
  have hsjw : ∀ ρ, sj.w.radio ρ = Dt.w.radio ρ := by
    intro ρ; rw [← hsj]; show s5.w.radio ρ = _; rw [hs5w]
  -- 6. back in the router
  generalize hs6 : sj'.switchBack r jd = s6
  have hs6c : s6.cur = r := by rw [← hs6]; rfl
  have hs6a : s6.active = s.active := by
    rw [← hs6]; show sj'.active.erase jd = _; rw [da, hsja, List.erase_cons_head]
  have hs6l : s6.nodes.length = s.nodes.length := by
    rw [← hs6, (Same.switchBack sj' r jd).len, dl, hsjl]
  have hs6cl : s6.closed = true := by rw [← hs6]; show sj'.closed = true; rw [dcl, ← hsj]; exact hs5cl
  have hs6wr : ∀ ρ, s6.w.radio ρ = Dj2.w.radio ρ := by
    intro ρ; rw [← hs6]; show sj'.w.radio ρ = _; rw [dw]
  have hs6air : s6.w.air = s.w.air ++ [r1] := by
    rw [← hs6]; show sj'.w.air = _; rw [dw, hDj2air]
  have hs6rf : ∀ k, (s6.nodeAt k).rf = (sj'.nodeAt k).rf := by
    intro k; rw [← hs6]; exact (nodeAt_switchBack sj' r jd k).1
  have hs6q : ∀ k, (s6.nodeAt k).queue = (sj'.nodeAt k).queue := by
    intro k; rw [← hs6]; exact (nodeAt_switchBack sj' r jd k).2
  have hs6rid : ∀ k, s6.ridAt k = s.ridAt k := by
    intro k
    unfold NetState.ridAt
    rw [hs6rf]
    show sj'.ridAt k = _
    rw [drid, ← hsj, ((Same.switchTo s5 jd).stat k).2.2.2.2, hs5rid]
    rfl
  have hs6rfr : (s6.nodeAt r).rf = Dt.d := by
    rw [hs6rf, dne r hrjd, hsjrf, hs5ati, hs5n]
  have hs6radjd : s6.radioAt jd = Dj2.radio := by
    unfold NetState.radioAt
    rw [hs6rid, hs6wr, ← hsjdrid, ← Fj.rid]; rfl
  have hs6rad : ∀ k, k < s.nodes.length → k ≠ jd → s6.radioAt k = s5.radioAt k := by
    intro k hk hkj
    unfold NetState.radioAt
    rw [hs6rid, hs6wr, Fj.others _ (by rw [hsjdrid]; exact (hok.inj k jd hk hjd hkj).2), hs5rid]
    show sj.w.radio _ = _
    rw [hsjw, hs5w]
  have hro : nexec (runOthers (g + 4 + 1 + jd) 0) s5 = (.ok (), s6) := by
    have := runOthers_one (g + 4) s5 sj' jd (.ok t) (by rw [hs5l]; exact hjd)
      ⟨by rw [hs5c]; exact hjdr, by rw [hs5a]; simpa using hjda,
       by
        show (!(s5.radioAt jd).rxFifo.isEmpty) = true
        rw [hs5radjd]; rfl,
       by
        show (s5.radioAt jd).rxMode = true
        rw [hs5radjd]
        exact (hNd.withRx _ _ _ hp5).rxMode⟩
      (by
        intro k hk hrun
        obtain ⟨h1, _, h3, _⟩ := hrun
        rw [hs5c] at h1
        have hkl : k < s.nodes.length := by omega
        have h3' : (!(s5.radioAt k).rxFifo.isEmpty) = true := h3
        rw [hs5rad k hkl h1 (by omega), hempty k hkl h1] at h3'
        simp at h3')
      (by rw [hsj]; exact ej) (by rw [dl, hsjl, hs5l]) (by rw [hs5l]; omega)
      (by
        intro k hk hkl hrun
        obtain ⟨h1, _, h3, _⟩ := hrun
        rw [hs5c, hs6] at h1 h3
        rw [hs6c] at h1
        have h3' : (!(s6.radioAt k).rxFifo.isEmpty) = true := h3
        rw [hs5l] at hkl
        rw [hs6rad k hkl (by omega), hs5rad k hkl h1 (by omega), hempty k hkl h1] at h3'
        simp at h3')
    rw [hs5c, hs6] at this
    exact this
  -- 7. the acknowledgement goes out
  have hs6n : s6.node = s6.nodeAt r := by rw [← hs6c]; rfl
  have hs6drvd : s6.drv.d = Dt.d := by show s6.node.rf = _; rw [hs6n]; exact hs6rfr
  have hρchain : ∀ ρ, ρ ≠ s.ridAt jd → s6.w.radio ρ = Dt.w.radio ρ := by
    intro ρ hρ
    rw [hs6wr, Fj.others ρ (by rw [hsjdrid]; exact hρ)]
    show sj.w.radio ρ = _
    exact hsjw ρ
  have hridrjd : s.ridAt r ≠ s.ridAt jd := (hok.inj r jd hr hjd hrjd).2
  have hridra : s.ridAt r ≠ s.ridAt a := (hok.inj r a hr ha hra).2
  have hridajd : s.ridAt a ≠ s.ridAt jd := (hok.inj a jd ha hjd hajd).2
  have hs6drvrad : s6.drv.radio = Dt.radio := by
    show s6.w.radio s6.drv.d.rid = _
    rw [hs6drvd, hDtrid, hρchain _ hridrjd, ← hDtrid]; rfl
  have hs6rada : s6.w.radio (s.ridAt a) = s.radioAt a := by
    rw [hρchain _ hridajd, hDtoth _ (fun e => hridra e.symm), hoth3' _ (fun e => hridra e.symm) hridajd]; rfl
  have hs6faults : s6.w.faults = [] := by
    rw [← hs6]; show sj'.w.faults = []
    rw [dw, Fj.faults, ← hsj]; show s5.w.faults = []
    rw [hs5w, Ft.faults]; exact f3
  have hs6rlen : s6.w.radios.length = s.w.radios.length := by
    rw [← hs6]; show sj'.w.radios.length = _
    rw [dw, Fj.len, ← hsj]; show s5.w.radios.length = _
    rw [hs5w, Ft.len, l3, slept_rlen, hs2w, F1.len]; rfl
  have hpkAl : pkA.length = 8 + fr.message.length := pack_length (fr := ackOf fr) hpkA
  have hkA : s6.drv.packet pkA = unicastPacket L A' pkA Dt.radio.nextPid := by
    unfold DrvState.packet
    rw [hs6drvrad]
    exact Nt.packet A' pkA tt hA'len
  have hrecvA := Radio.receive_idle hNa (hopPipe y o) A' pkA Dt.radio.nextPid hq1 hq5 hA'2 hA'3
    (by rw [hempty a ha (fun e => hra e.symm)]; decide) (fun e => hdup_a _ e rfl)
  obtain ⟨D4, e4, r4, l4, f4, o4, N4, x4, lr4, _, _⟩ := hc.send s6.drv L P false pkA (s.ridAt a)
    (by unfold DrvState.Wf; rw [hs6drvd, hDtrid]; show _ < s6.w.radios.length; rw [hs6rlen]; exact hn6)
    (by rw [hs6drvd, hs6drvrad]; exact Nt) (by rw [hs6drvrad, tt, at'])
    (by omega) (by have := T.len; unfold MAX_FRAG_SIZE at this; omega) hs6faults
    (by rw [hs6drvd, hDtrid]; exact fun e => hridra e.symm)
    (by
      show ((s6.w.radio (s.ridAt a)).receive _).2 = _
      rw [hs6rada, hkA, hrecvA])
  obtain ⟨r2, har2, hr2s, hr2p, hr2a, hr2o⟩ := hair.send s6.drv L P false pkA (s.ridAt a)
    (by unfold DrvState.Wf; rw [hs6drvd, hDtrid]; show _ < s6.w.radios.length; rw [hs6rlen]; exact hn6)
    (by rw [hs6drvd, hs6drvrad]; exact Nt) (by rw [hs6drvrad, tt, at'])
    (by omega) (by have := T.len; unfold MAX_FRAG_SIZE at this; omega) hs6faults
    (by rw [hs6drvd, hDtrid]; exact fun e => hridra e.symm)
    (by
      show ((s6.w.radio (s.ridAt a)).receive _).2 = _
      rw [hs6rada, hkA, hrecvA])
  rw [e4] at har2
  have hD4air : D4.w.air = s.w.air ++ [r1] ++ [r2] := by
    rw [har2]; show s6.w.air ++ _ = _; rw [hs6air]
  have hone2 : OneBy (s.ridAt r) pkA r2 := by
    refine ⟨?_, ?_, hr2a, hr2o⟩
    · rw [hr2s, hs6drvd]; exact hDtrid
    · rw [hr2p, hkA]; rfl
  have hD4rid : D4.d.rid = s.ridAt r := by rw [r4, hs6drvd]; exact hDtrid
  have hD4a : D4.w.radio (s.ridAt a) = (s.radioAt a).withRx [{ pipe := hopPipe y o, data := pkA }]
      { pid := Dt.radio.nextPid, addr := A', data := pkA } := by
    rw [o4 _ (by rw [hs6drvd, hDtrid]; exact fun e => hridra e.symm)]
    show ((s6.w.radio (s.ridAt a)).receive _).1 = _
    rw [hs6rada, hkA, hrecvA, hempty a ha (fun e => hra e.symm)]
    rfl
  have hD4oth : ∀ ρ, ρ ≠ s.ridAt r → ρ ≠ s.ridAt a → D4.w.radio ρ = s6.w.radio ρ := by
    intro ρ hρr hρa
    rw [o4 ρ (by rw [hs6drvd, hDtrid]; exact hρr)]
    show ((s6.w.radio ρ).receive _).1 = _
    rw [hkA]
    suffices h : (s6.w.radio ρ).listensTo (unicastPacket L A' pkA Dt.radio.nextPid) = none by
      rw [Radio.receive_ignore _ _ h]
    by_cases hρj : ρ = s.ridAt jd
    · subst hρj
      have : s6.w.radio (s.ridAt jd) = Dj2.radio := by
        have := hs6radjd
        unfold NetState.radioAt at this
        rw [hs6rid] at this; exact this
      rw [this]
      exact listensTo_none_of_no_match Nj2 A' pkA _
        (fun q hq => hok.addr_unique hcfg ha hjd (fun e => hajd e.symm) (by rw [hta]; exact hPa)
          (by rw [htd]; exact hPd) hq1 hq5 hq hA'2)
    · rw [hρchain ρ hρj, hDtoth ρ hρr, hoth3' ρ hρr hρj]
      exact hok.hothers (i := r) hcfg ha (by rw [hta]; exact hPa) hq1 hq5 hA'2 pkA ρ _ hρr hρa
  have hntp : nexec (nodeWriteToPipe (g + 6 + jd + 1) (val xa) (hopPipe y o) false) s4 = (.ok true, s6.afterRf D4) := by
    rw [eqt, show g + 6 + jd = (g + 5 + jd) + 1 from by omega, rfSend_closed _ _ _ hs5cl,
      show g + 5 + jd = g + 4 + 1 + jd from by omega, hro]
    simp only []
    rw [nexec_liftRf_ok _ s6 _ D4 e4]
    rfl
  -- 8. listening again
  have hs6cur : s6.cur < s6.nodes.length := by rw [hs6c, hs6l]; exact hr
  have hD4W : D4.Wf := by unfold DrvState.Wf; rw [hD4rid, l4]; show _ < s6.w.radios.length; rw [hs6rlen]; exact hn6
  obtain ⟨D5, e5a, e5b, F5, N5, x5, a5⟩ := restore_air hc hair s6 D4 L P true hs6cur hD4W N4
  have hemitval : nexec (ackCont (g + 6 + jd + 1) AckAction.emit true false) s3 = (.ok true, s6.afterRf D5) := by
    unfold ackCont
    simp only [nexec_bind, nexec_getNode, nexec_setHdr]
    rw [hl2p2]
    simp only []
    rw [hs4, hntp]
    simp only []
    rw [e5a]
    simp only [Bool.not_false, if_true, nexec_bind]
    rw [e5b]
    rfl
  rw [hemitval] at step1
  simp only [] at step1
  generalize hs8 : s6.afterRf D5 = s8 at step1
  have hs8c : s8.cur = r := by rw [← hs8]; exact hs6c
  have hs8a : s8.active = s.active := by rw [← hs8]; exact hs6a
  have hs8l : s8.nodes.length = s.nodes.length := by rw [← hs8]; simp; exact hs6l
  have hs8cl : s8.closed = true := by rw [← hs8]; exact hs6cl
  have hs8n : s8.node = { s6.nodeAt r with rf := D5.d } := by
    rw [← hs8, afterRf_node _ _ hs6cur, hs6n]
  have hs8at : ∀ k, k ≠ r → s8.nodeAt k = s6.nodeAt k := by
    intro k hk; rw [← hs8, nodeAt_afterRf_ne _ _ _ (by rw [hs6c]; exact hk)]
  have hs8drv : s8.drv = D5 := by rw [← hs8]; exact afterRf_drv s6 D5 hs6cur
  have hD5rid : D5.d.rid = s.ridAt r := by rw [F5.rid]; exact hD4rid
  have hD5oth : ∀ ρ, ρ ≠ s.ridAt r → D5.w.radio ρ = D4.w.radio ρ := by
    intro ρ hρ; exact F5.others ρ (by rw [hD4rid]; exact hρ)
  have hs8w : ∀ ρ, s8.w.radio ρ = D5.w.radio ρ := by intro ρ; rw [← hs8]; rfl
  have hs8rid : ∀ k, s8.ridAt k = s.ridAt k := by
    intro k
    by_cases hk : k = r
    · subst hk
      have : s8.nodeAt k = s8.node := by rw [← hs8c]; rfl
      unfold NetState.ridAt; rw [this, hs8n]; exact hD5rid
    · unfold NetState.ridAt; rw [hs8at k hk]; exact hs6rid k
  have hs8radr : s8.radioAt r = D5.radio := by
    unfold NetState.radioAt; rw [hs8rid, hs8w, ← hD5rid]; rfl
  have hs8rada : s8.radioAt a = (s.radioAt a).withRx [{ pipe := hopPipe y o, data := pkA }]
      { pid := Dt.radio.nextPid, addr := A', data := pkA } := by
    unfold NetState.radioAt; rw [hs8rid, hs8w, hD5oth _ (fun e => hridra e.symm), hD4a]
    rfl
  have hs8radjd : s8.radioAt jd = Dj2.radio := by
    have h6 := hs6radjd
    unfold NetState.radioAt at h6 ⊢
    rw [hs6rid] at h6
    rw [hs8rid, hs8w, hD5oth _ (fun e => hridrjd e.symm), hD4oth _ (fun e => hridrjd e.symm) (fun e => hridajd e.symm), h6]
  have hs8rad : ∀ k, k < s.nodes.length → k ≠ r → k ≠ a → k ≠ jd → s8.radioAt k = s.radioAt k := by
    intro k hk hkr hka hkj
    have h6 := hs6rad k hk hkj
    have h5 := hs5rad k hk hkr hkj
    unfold NetState.radioAt at h6 h5 ⊢
    rw [hs6rid] at h6; rw [hs5rid] at h5
    rw [hs8rid, hs8w, hD5oth _ (hok.inj k r hk hr hkr).2,
      hD4oth _ (hok.inj k r hk hr hkr).2 (hok.inj k a hk ha hka).2, h6, hs5rid, h5]
  have hD5fifo : D5.radio.rxFifo = [] := by
    rw [x5, x4, hs6drvrad, xt]; exact hDfifo
  -- 9. nothing more to read
  obtain ⟨D6, e6, F6, N6, x6, a6⟩ := rfRead_head_air hc hair (g + 7 + jd) s8 L P true true 0x3E (by rw [hs8c, hs8l]; exact hr)
    hs8cl (by rw [hs8l]; omega)
    (by
      intro k hk hkc hka
      rw [hs8l] at hk; rw [hs8c] at hkc; rw [hs8a] at hka
      have hk_a : k ≠ a := fun e => hka (e ▸ haact)
      by_cases hkj : k = jd
      · subst hkj; rw [hs8radjd]; exact xj2
      · rw [hs8rad k hk hkc hk_a hkj]; exact hempty k hk hkc)
    (by rw [hs8drv]; exact F5.wf hD4W) (by rw [hs8n, hs8drv]; exact N5)
    (by
      rw [hs8n]; show (s6.nodeAt r).arrivals = []
      have h1 := ((Same.switchBack sj' r jd).stat r).2.2.1
      rw [hs6] at h1
      rw [h1, dne r hrjd, (hsjstat r).2.2.1]
      rw [hs5ati, hs5n]; exact hn4)
    (by rw [hs8drv, hD5fifo]; simp)
  rw [hs8drv, hD5fifo] at e6 x6
  have hD6air : D6.w.air = s.w.air ++ [r1, r2] := by
    rw [a6, ← hs8]; show D5.w.air = _; rw [a5, hD4air]; simp
  simp only [List.head?_nil, Option.map_none, List.tail_nil] at e6 x6
  rw [show g + 9 + jd = (g + 8 + jd) + 1 from by omega, netUpdate_step,
    show g + 8 + jd = (g + 7 + jd) + 1 from by omega, e6] at step1
  simp only [] at step1
  -- 10. the result
  generalize hs9 : s8.afterRf D6 = s9 at step1
  have hs8cur : s8.cur < s8.nodes.length := by rw [hs8c, hs8l]; exact hr
  have hs9c : s9.cur = r := by rw [← hs9]; exact hs8c
  have hs9n : s9.node = { s8.node with rf := D6.d } := by rw [← hs9, afterRf_node _ _ hs8cur]
  have hs9atr : s9.nodeAt r = s9.node := by rw [← hs9c]; rfl
  have hs9at : ∀ k, k ≠ r → s9.nodeAt k = s6.nodeAt k := by
    intro k hk; rw [← hs9, nodeAt_afterRf_ne _ _ _ (by rw [hs8c]; exact hk), hs8at k hk]
  have hD6rid : D6.d.rid = s.ridAt r := by rw [F6.rid, hs8drv]; exact hD5rid
  -- the same network
  have hsame3 : Same s s3 := by
    rw [← hs3, ← hs2, ← hs1]
    refine (Same.ofFrame s D1 (by rw [hcur]; exact hr) F1).trans ((Same.withFrame _ fr).trans ?_)
    rw [hs1, hs2]
    refine (Same.slept s2 2000000).trans (Same.afterRf _ D (by simp; rw [hs2cur, hs2l]; exact hr) r3 l3 ?_)
    intro ρ hρ
    have h1 : ρ ≠ s.ridAt r := by
      have := hρ r (by simp; rw [hs2l]; exact hr)
      rw [slept_ridAt, hs2rid] at this; exact this.symm
    have h2 : ρ ≠ s.ridAt jd := by
      have := hρ jd (by simp; rw [hs2l]; exact hjd)
      rw [slept_ridAt, hs2rid] at this; exact this.symm
    rw [hoth3 ρ (by rw [slept_ridAt]; simp; rw [hs2rid, hs2cur]; exact h1) (by rw [slept_ridAt, hs2rid]; exact h2)]
  have h34 : Same s3 s4 := by
    rw [← hs4]; exact Same.setNode s3 _ fun _ => ⟨rfl, rfl, rfl, rfl, rfl⟩
  have h45 : Same s4 s5 := by
    rw [← hs5]; exact Same.ofFrame s4 Dt (by rw [hs4c, hs4l]; exact hr) (by rw [hs4drv]; exact Ft)
  have hsame5 : Same s s5 := (hsame3.trans h34).trans h45
  have hsame6 : Same s s6 := by
    refine hsame5.trans ?_
    rw [← hs6, ← hsj', ← hsj]
    refine (Same.switchTo s5 jd).trans ?_
    rw [hsj]
    exact (Same.delivered sj fr Dj1 Dj2 (by rw [hsjc, hsjl]; exact hjd) Fj1 Fj2).trans (Same.switchBack _ r jd)
  have hsame8 : Same s s8 := by
    refine hsame6.trans ?_
    rw [← hs8]
    refine Same.afterRf s6 D5 hs6cur (by rw [hD5rid, hs6n, hs6rfr]; exact hDtrid.symm)
      (by rw [F5.len, l4]; rfl) ?_
    intro ρ hρ
    have h1 : ρ ≠ s.ridAt r := by have := hρ r (by rw [hs6l]; exact hr); rw [hs6rid] at this; exact this.symm
    have h2 : ρ ≠ s.ridAt a := by have := hρ a (by rw [hs6l]; exact ha); rw [hs6rid] at this; exact this.symm
    rw [hD5oth ρ h1, hD4oth ρ h1 h2]
  have hsame9 : Same s s9 := by
    refine hsame8.trans ?_
    rw [← hs9]
    exact Same.ofFrame s8 D6 hs8cur F6
  have hs9rid : ∀ k, s9.ridAt k = s.ridAt k := fun k => (hsame9.stat k).2.2.2.2
  have hs9w : ∀ ρ, s9.w.radio ρ = D6.w.radio ρ := by intro ρ; rw [← hs9]; rfl
  have hs9radr : s9.radioAt r = D6.radio := by
    unfold NetState.radioAt; rw [hs9rid, hs9w, ← hD6rid]; rfl
  have hs9rad : ∀ k, k < s.nodes.length → k ≠ r → s9.radioAt k = s8.radioAt k := by
    intro k hk hkr
    unfold NetState.radioAt
    rw [hs9rid, hs9w, F6.others _ (by rw [hs8drv, hD5rid]; exact (hok.inj k r hk hr hkr).2), hs8rid, hs8drv]
    exact (hs8w _).symm
  refine ⟨s9, ?_, ?_, hs9c, by rw [← hs9]; exact hs8a, hsame9, ?_, ?_, ?_, ?_,
    r1, r2, by rw [← hs9]; show D6.w.air = _; exact hD6air, hone1', hone2⟩
  · rw [show g + 11 + jd = (g + 10 + jd) + 1 from by omega]
    refine nodeUpdate_plain (g + 10 + jd) s s9 0 step1 ?_
    have := (hsame9.stat r).2.2.2.1
    rw [hs9atr] at this
    rw [this]; exact hn5
  · refine hok.of_same hsame9 (by rw [← hs9]; show D6.w.faults = []; rw [F6.faults, hs8drv, F5.faults]; exact f4) ?_
    intro k hk P' hP' hN'
    by_cases hkr : k = r
    · subst hkr
      rw [htr] at hP'
      have : P' = P := Except.ok.inj (hP'.symm.trans hP)
      subst this
      rw [hs9atr, hs9n, hs9radr]; exact N6
    · rw [hs9at k hkr, hs9rad k hk hkr, hs6rf]
      by_cases hkj : k = jd
      · subst hkj
        rw [htd] at hP'
        have : P' = Pd := Except.ok.inj (hP'.symm.trans hPd)
        subst this
        rw [drf, hs8radjd]; exact Nj2
      · rw [dne k hkj, hsjrf, hs5at k hkr]
        by_cases hka : k = a
        · subst hka; rw [hs8rada]; exact hN'.withRx _ _ _ hq5
        · rw [hs8rad k hk hkr hka hkj]; exact hN'
  · rw [hs9rad a ha (fun e => hra e.symm), hs8rada]; rfl
  · intro k hk hka
    by_cases hkr : k = r
    · subst hkr; rw [hs9radr]; exact x6
    · rw [hs9rad k hk hkr]
      by_cases hkj : k = jd
      · subst hkj; rw [hs8radjd]; exact xj2
      · rw [hs8rad k hk hkr hka hkj]; exact hempty k hk hkr
  · intro k hk
    have hq9 : (s9.nodeAt k).queue = (sj'.nodeAt k).queue := by
      by_cases hkr : k = r
      · subst hkr
        rw [hs9atr, hs9n]
        show s8.node.queue = _
        rw [hs8n]
        show (s6.nodeAt k).queue = _
        exact hs6q k
      · rw [hs9at k hkr, hs6q]
    rw [hq9]
    by_cases hkj : k = jd
    · subst hkj
      rw [dq, if_pos rfl, hsjnode, hsjq, hs5at k hjdr]
    · rw [dne k hkj, hsjq, if_neg hkj]
      by_cases hkr : k = r
      · subst hkr; rw [hs5ati, hs5n]; simp
      · rw [hs5at k hkr]; simp
  · intro k hk hkact hkr hka
    have hkj : k ≠ jd := fun e => hjda (e ▸ hkact)
    rw [hs9rad k hk hkr, hs8rad k hk hkr hka hkj]


end Nrf.Net.Air
