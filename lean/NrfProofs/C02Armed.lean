/-
C02 helper lemmas, part 2: the outcome of firing an armed transmitter, in closed form.
-/
import NrfProofs.C02Fire

namespace Nrf
open Rf24 Spec.Link

/-- ground truth of one cycle from world `w` for packet `k` of radio `s` with `n = 1 + ARC`
    attempts: TX_DS iff no acknowledgement is awaited, or somebody acknowledges audibly and one of
    the next `n` outcomes is `delivered` -/
def cycleOkSpec (awaits : Bool) (acked : Bool) (fs : List Outcome) (n : Nat) : Bool :=
  !awaits || (acked && hasDeliveredB fs n)

/-- attempts made by such a cycle -/
def cycleAttemptsSpec (awaits : Bool) (acked : Bool) (fs : List Outcome) (n : Nat) : Nat :=
  if awaits then (if acked then attemptsUsed fs n else n) else 1

theorem cycleAttemptsSpec_le (awaits acked : Bool) (fs : List Outcome) (n : Nat) (hn : 1 ≤ n) :
    cycleAttemptsSpec awaits acked fs n ≤ n := by
  unfold cycleAttemptsSpec
  split
  · split
    · exact World.attemptsUsed_le _ _
    · exact Nat.le_refl _
  · exact hn

/-- a failed cycle used its whole budget -/
theorem cycleAttemptsSpec_failed (awaits acked : Bool) (fs : List Outcome) (n : Nat)
    (h : cycleOkSpec awaits acked fs n = false) : cycleAttemptsSpec awaits acked fs n = n := by
  unfold cycleOkSpec at h
  unfold cycleAttemptsSpec
  cases awaits with
  | false => simp at h
  | true =>
    simp only [Bool.not_true, Bool.false_or, Bool.and_eq_false_iff] at h
    simp only [↓reduceIte]
    cases acked with
    | false => rfl
    | true =>
      simp only [↓reduceIte]
      rcases h with h | h
      · cases h
      · exact World.attemptsUsed_of_not _ _ h

/-- the transmitter is armed: exactly `e` queued, all flags clear, registers those of `R`, and
    `e` goes on the air as packet `k` -/
structure Armed (R : Radio) (e : TxEntry) (k : Packet) (s : DrvState) : Prop where
  wf : s.Wf
  regs : s.rad.regs = R.regs
  fifo : s.rad.txFifo = [e]
  flags : s.rad.flags = 0
  pipes : s.rad.RxPipes
  pkt : s.rad.packetFor e = k
  sendable : Radio.headSendable [e] = true
  /-- for a retransmission, the PID counter stands one past the PID of the packet -/
  npid : ∀ q, e.pid = some q → s.rad.nextPid = (k.pid + 1) % 4

theorem cycleAttemptsSpec_pos (aw A : Bool) (F : List Outcome) (arc : Nat) : 1 ≤ cycleAttemptsSpec aw A F (arc + 1) := by
  unfold cycleAttemptsSpec
  split
  · split
    · cases F with
      | nil => simp [attemptsUsed]
      | cons o t => cases o <;> simp [attemptsUsed] <;> omega
    · omega
  · omega

theorem afterCycle_nextPid (r : Radio) (e : TxEntry) (rest : List TxEntry) (res : Nat × Option (Option Bytes)) :
    (r.afterCycle e rest res).nextPid = (r.takePid e).nextPid := by
  unfold Radio.afterCycle
  split
  · rfl
  · split <;> rfl

/-- after a fire the PID counter stands one past the PID of the packet -/
theorem fired_npid (R : Radio) (e : TxEntry) (k : Packet) (s : DrvState) (h : Armed R e k s) :
    (s.fired e).rad.nextPid = (k.pid + 1) % 4 := by
  rw [fired_rad s e h.wf, afterCycle_nextPid]
  have hk : k.pid = s.rad.pidFor e := by rw [← h.pkt]; rfl
  unfold Radio.takePid
  cases hp : e.pid with
  | none =>
    simp only [Option.isNone_none, ↓reduceIte]
    rw [hk]; unfold Radio.pidFor; rw [hp]; rfl
  | some q =>
    simp only [Option.isNone_some, Bool.false_eq_true, ↓reduceIte]
    exact h.npid q hp

/-- closed form of the attempts of a fire -/
theorem fireRes_spec (s : DrvState) (e : TxEntry) (hw : s.Wf) :
    (s.fireRes e).2 =
      (if s.w.acked s.d.rid (s.rad.packetFor e) && hasDeliveredB s.w.faults (World.arcOf s.rad + 1)
       then (s.w.deliver s.d.rid (s.rad.packetFor e)).2 else none) ∧
    (s.fireRes e).1 =
      (if s.w.acked s.d.rid (s.rad.packetFor e) then attemptsUsed s.w.faults (World.arcOf s.rad + 1)
       else World.arcOf s.rad + 1) := by
  unfold DrvState.fireRes
  have hs : s.d.rid < (s.w.setCEQ s.d.rid true).radios.length := by rw [World.setCEQ_length]; exact hw
  obtain ⟨h1, h2⟩ := World.cycleRes_spec (s.w.setCEQ s.d.rid true) s.d.rid e hs
  have hr : (s.w.setCEQ s.d.rid true).radio s.d.rid = { s.rad with ce := true } := World.setCEQ_radio_self _ _ _ hw
  rw [hr] at h1 h2
  have hk : Radio.packetFor { s.rad with ce := true } e = s.rad.packetFor e := rfl
  have ha : World.arcOf { s.rad with ce := true } = World.arcOf s.rad := rfl
  rw [hk, ha, World.acked_setCEQ _ _ _ _ hw] at h1 h2
  rw [World.deliver_snd_setCEQ] at h1
  exact ⟨h1, h2⟩

theorem acked_isSome (w : World) (s : Nat) (k : Packet) (h : w.acked s k = true) : (w.deliver s k).2.isSome = true := by
  unfold World.acked at h
  simp only [Bool.and_eq_true] at h
  exact h.2

theorem acked_congr' (w w' : World) (s : Nat) (k : Packet)
    (hc : World.canHear (w'.radio s) = World.canHear (w.radio s))
    (ha : w'.ackMap s k = w.ackMap s k) : w'.acked s k = w.acked s k := by
  unfold World.acked; rw [hc, World.deliver_snd_ackMap, World.deliver_snd_ackMap, ha]

/-- everything a fire does, except to the transmitter's FIFOs and flags -/
theorem fire_common (R : Radio) (e : TxEntry) (k : Packet) (s : DrvState) (h : Armed R e k s) :
    (s.fired e).Wf ∧
    (s.fired e).d = { s.d with status := (s.fired e).rad.status } ∧
    (s.fired e).rad.regs = R.regs ∧
    (s.fired e).rad.ce = true ∧
    (s.fired e).w.faults = s.w.faults.drop
      (cycleAttemptsSpec (R.awaitsAck e) (s.w.acked s.d.rid k) s.w.faults (World.arcOf R + 1)) ∧
    (s.fired e).w.air = s.w.air ++ [⟨s.d.rid, k,
      cycleAttemptsSpec (R.awaitsAck e) (s.w.acked s.d.rid k) s.w.faults (World.arcOf R + 1),
      cycleOkSpec (R.awaitsAck e) (s.w.acked s.d.rid k) s.w.faults (World.arcOf R + 1)⟩] ∧
    (s.fired e).w.ackMap s.d.rid k = s.w.ackMap s.d.rid k ∧
    (s.fired e).w.acked s.d.rid k = s.w.acked s.d.rid k ∧
    (s.fired e).w.eff s.d.rid ≤ s.w.eff s.d.rid +
      cycleAttemptsSpec (R.awaitsAck e) (s.w.acked s.d.rid k) s.w.faults (World.arcOf R + 1) * (T_TX_NS + World.ardNs R)
      + SPI_COST_NS ∧
    (s.fired e).w.radios.length = s.w.radios.length ∧
    (∀ j, j ≠ s.d.rid → j < s.w.radios.length → (s.fired e).w.radio j =
      recvN k (deliveries s.w.faults
        (cycleAttemptsSpec (R.awaitsAck e) (s.w.acked s.d.rid k) s.w.faults (World.arcOf R + 1))) (s.w.radio j)) := by
  have hw := h.wf
  have hs : s.d.rid < (s.w.setCEQ s.d.rid true).radios.length := by rw [World.setCEQ_length]; exact hw
  have hr1 : (s.w.setCEQ s.d.rid true).radio s.d.rid = { s.rad with ce := true } := World.setCEQ_radio_self _ _ _ hw
  have hregs1 : Radio.regs { s.rad with ce := true } = R.regs := h.regs
  have hrad := fired_rad s e hw
  have hregs : (s.fired e).rad.regs = R.regs := by rw [hrad, Radio.afterCycle_regs]; exact hregs1
  obtain ⟨hf, ha, hb, hc, hm⟩ := World.cycle_world (s.w.setCEQ s.d.rid true) s.d.rid e []
  obtain ⟨hres2, hres1⟩ := fireRes_spec s e hw
  rw [h.pkt] at hres1 hres2
  have harc : World.arcOf s.rad = World.arcOf R := Radio.arcOf_regs _ _ h.regs
  rw [harc] at hres1 hres2
  have haw : Radio.awaitsAck { s.rad with ce := true } e = R.awaitsAck e := Radio.awaitsAck_regs _ _ _ _ hregs1 rfl
  have hpk : Radio.packetFor { s.rad with ce := true } e = k := h.pkt
  -- attempts and outcome in closed form
  have hatt : (s.w.setCEQ s.d.rid true).cycleAttempts s.d.rid e =
      cycleAttemptsSpec (R.awaitsAck e) (s.w.acked s.d.rid k) s.w.faults (World.arcOf R + 1) := by
    unfold World.cycleAttempts cycleAttemptsSpec
    rw [hr1, haw]
    have : (s.w.setCEQ s.d.rid true).cycleRes s.d.rid e = s.fireRes e := rfl
    rw [this, hres1]
  have hok : (s.w.setCEQ s.d.rid true).cycleOk s.d.rid e =
      cycleOkSpec (R.awaitsAck e) (s.w.acked s.d.rid k) s.w.faults (World.arcOf R + 1) := by
    unfold World.cycleOk cycleOkSpec
    rw [hr1, haw]
    have : (s.w.setCEQ s.d.rid true).cycleRes s.d.rid e = s.fireRes e := rfl
    rw [this, hres2]
    cases hA : s.w.acked s.d.rid k with
    | false => simp
    | true =>
      cases hD : hasDeliveredB s.w.faults (World.arcOf R + 1) with
      | false => simp
      | true => simp [acked_isSome _ _ _ hA]
  rw [hr1, hpk] at ha hm
  rw [hatt] at hf ha
  rw [hok] at ha
  have hackmap : (s.fired e).w.ackMap s.d.rid k = s.w.ackMap s.d.rid k := by
    unfold DrvState.fired
    simp only
    rw [World.ackMap_spiQ, hm, World.ackMap_setCEQ]
  refine ⟨fired_wf s e hw, fired_fresh s e hw, hregs, ?_, ?_, ?_, hackmap, ?_, ?_, ?_, ?_⟩
  · rw [hrad, Radio.afterCycle_ce]
  · unfold DrvState.fired; simp only [World.spiQ_faults]; rw [hf]; rfl
  · unfold DrvState.fired; simp only [World.spiQ_air]; rw [ha]; rfl
  · apply acked_congr'
    · show World.canHear (s.fired e).rad = World.canHear s.rad
      rw [Radio.canHear_regs _ _ hregs, Radio.canHear_regs _ _ h.regs]
    · exact hackmap
  · unfold DrvState.fired
    simp only
    rw [World.spiQ_eff]
    have h1 := World.cycle_eff (s.w.setCEQ s.d.rid true) s.d.rid e []
    rw [World.setCEQ_eff] at h1
    have h2 := World.cycleDur_le (s.w.setCEQ s.d.rid true) s.d.rid e hs
    rw [hatt, hr1] at h2
    have h3 : World.ardNs { s.rad with ce := true } = World.ardNs R := Radio.ardNs_regs _ _ hregs1
    rw [h3] at h2
    omega
  · unfold DrvState.fired
    simp only [World.spiQ_length, World.cycle_length, World.setCEQ_length]
  · intro j hjs hj
    have hex := World.cycle_others_exact (s.w.setCEQ s.d.rid true) s.d.rid e [] j (by simpa using hj) hjs
    rw [hatt, hr1, hpk, World.setCEQ_radio_ne _ _ _ _ hjs] at hex
    unfold DrvState.fired
    simp only
    rw [World.spiQ_radio_ne _ _ _ _ hjs, hex]
    rfl

/-- the transmitter after a fire that needs no acknowledgement: TX_DS, payload popped -/
theorem fire_noack (R : Radio) (e : TxEntry) (k : Packet) (s : DrvState) (h : Armed R e k s)
    (haw : R.awaitsAck e = false) :
    (s.fired e).rad = (Radio.takePid { s.rad with ce := true } e).txDoneNoAck [] := by
  have hregs1 : Radio.regs { s.rad with ce := true } = R.regs := h.regs
  have haw' : Radio.awaitsAck { s.rad with ce := true } e = false := by
    rw [Radio.awaitsAck_regs _ _ _ _ hregs1 rfl]; exact haw
  rw [fired_rad s e h.wf]
  unfold Radio.afterCycle
  rw [haw']
  rfl

/-- … after an acknowledged fire: TX_DS, payload popped, the ACK payload (if any, and if it can
    be taken) in the RX FIFO with RX_DR -/
theorem fire_acked (R : Radio) (e : TxEntry) (k : Packet) (s : DrvState) (h : Armed R e k s)
    (haw : R.awaitsAck e = true)
    (hok : cycleOkSpec true (s.w.acked s.d.rid k) s.w.faults (World.arcOf R + 1) = true) :
    ∃ a, (s.w.deliver s.d.rid k).2 = some a ∧
      (s.fired e).rad = (Radio.takePid { s.rad with ce := true } e).txDoneAcked []
        (cycleAttemptsSpec true (s.w.acked s.d.rid k) s.w.faults (World.arcOf R + 1)) a := by
  have hregs1 : Radio.regs { s.rad with ce := true } = R.regs := h.regs
  have haw' : Radio.awaitsAck { s.rad with ce := true } e = true := by
    rw [Radio.awaitsAck_regs _ _ _ _ hregs1 rfl]; exact haw
  obtain ⟨hres2, hres1⟩ := fireRes_spec s e h.wf
  rw [h.pkt, Radio.arcOf_regs _ _ h.regs] at hres1 hres2
  unfold cycleOkSpec at hok
  simp only [Bool.not_true, Bool.false_or, Bool.and_eq_true] at hok
  obtain ⟨hA, hD⟩ := hok
  have hsome := acked_isSome _ _ _ hA
  obtain ⟨a, ha⟩ := Option.isSome_iff_exists.1 hsome
  refine ⟨a, ha, ?_⟩
  rw [fired_rad s e h.wf]
  unfold Radio.afterCycle
  rw [haw']
  simp only [Bool.not_true, Bool.false_eq_true, ↓reduceIte]
  rw [hres2, hres1, hA, hD, ha]
  simp only [Bool.and_self, ↓reduceIte]
  unfold cycleAttemptsSpec
  simp only [↓reduceIte]

/-- … after a fire whose attempts all went unacknowledged: MAX_RT, the payload stays queued with
    its PID -/
theorem fire_failed (R : Radio) (e : TxEntry) (k : Packet) (s : DrvState) (h : Armed R e k s)
    (hok : cycleOkSpec (R.awaitsAck e) (s.w.acked s.d.rid k) s.w.faults (World.arcOf R + 1) = false) :
    (s.fired e).rad = (Radio.takePid { s.rad with ce := true } e).txFailed e (s.rad.pidFor e) [] := by
  have hregs1 : Radio.regs { s.rad with ce := true } = R.regs := h.regs
  have haw : R.awaitsAck e = true := by
    unfold cycleOkSpec at hok
    cases hh : R.awaitsAck e with
    | false => rw [hh] at hok; simp at hok
    | true => rfl
  have haw' : Radio.awaitsAck { s.rad with ce := true } e = true := by
    rw [Radio.awaitsAck_regs _ _ _ _ hregs1 rfl]; exact haw
  obtain ⟨hres2, _⟩ := fireRes_spec s e h.wf
  rw [h.pkt, Radio.arcOf_regs _ _ h.regs] at hres2
  rw [haw] at hok
  unfold cycleOkSpec at hok
  simp only [Bool.not_true, Bool.false_or] at hok
  rw [fired_rad s e h.wf]
  unfold Radio.afterCycle
  rw [haw']
  simp only [Bool.not_true, Bool.false_eq_true, ↓reduceIte]
  rw [hres2, hok]
  simp only [Bool.false_eq_true, ↓reduceIte]
  rfl

end Nrf
