/-
C05 helper lemmas, part 5: a whole tree network in the closed system.

`NetOk cfg L tree s`: every node object `i` of `s` is the tree node `tree i` (pairwise different, own
radio each), configured with `cfg`, listening on its six tree addresses with the network's air
parameters, without scripted arrivals; no other radio listens to anything; the fault script is empty.
-/
import NrfProofs.C05Closed

namespace Nrf.Net
open Nrf Nrf.Spec Nrf.Proofs Nrf.Props.C04

structure NetOk (cfg : AddrCfg) (L : LinkCfg) (tree : Nat → List Nat) (s : NetState) : Prop where
  closed : s.closed = true
  faults : s.w.faults = []
  node : ∀ i, i < s.nodes.length → IsNode (tree i) ∧ (s.nodeAt i).a = nodeSpec (tree i) ∧
    (s.nodeAt i).cfg = cfg ∧ (s.nodeAt i).arrivals = [] ∧ (s.nodeAt i).kind ≠ .meshMaster ∧
    s.ridAt i < s.w.radios.length
  inj : ∀ i j, i < s.nodes.length → j < s.nodes.length → i ≠ j → tree i ≠ tree j ∧ s.ridAt i ≠ s.ridAt j
  radio : ∀ i, i < s.nodes.length → ∃ P, beginPipes cfg (val (tree i)) = .ok P ∧
    NodeRadio L P true true 0x3E (s.nodeAt i).rf (s.radioAt i)
  spare : ∀ r k, (∀ i, i < s.nodes.length → s.ridAt i ≠ r) → (s.w.radio r).listensTo k = none

/-- a listening node radio none of whose six addresses is `A` ignores packets to `A` -/
theorem listensTo_none_of_no_match {L : LinkCfg} {P : List Bytes} {d : Rf24} {r : Radio}
    (h : NodeRadio L P true true 0x3E d r) (A buf : Bytes) (pid : Nat)
    (hno : ∀ q, q ≤ 5 → P[q]? ≠ some A) : r.listensTo (unicastPacket L A buf pid) = none := by
  obtain ⟨h1, h2, h3, h4, h5, h6⟩ := h.air (Or.inl rfl)
  obtain ⟨_, _, _, _, _, _, _, _, _, _, _, _, _, _, _, _, _, _, _, _, hP6, hPl, hrx0, hP15, _⟩ := h
  have haddr : ∀ q, q ≤ 5 → some (r.rxAddr q) = P[q]? := by
    intro q hq
    by_cases h0 : q = 0
    · subst h0
      have := hrx0 rfl
      unfold Radio.rxAddr; simpa using this
    · exact hP15 q (by
        have : q = 1 ∨ q = 2 ∨ q = 3 ∨ q = 4 ∨ q = 5 := by omega
        rcases this with rfl | rfl | rfl | rfl | rfl <;> decide)
  have hmp : r.matchPipe A = none := by
    unfold Radio.matchPipe
    rw [List.find?_eq_none]
    intro q hq
    have hq5 : q ≤ 5 := by
      simp only [List.mem_cons, List.not_mem_nil, or_false] at hq
      omega
    have hm := haddr q hq5
    have hlen : (r.rxAddr q).length = 5 := hPl _ (List.mem_of_getElem? hm.symm)
    have : (r.rxAddr q).take r.aw = r.rxAddr q := by rw [h5, List.take_of_length_le (by omega)]
    rw [this]
    intro hc
    simp only [Bool.and_eq_true, beq_iff_eq] at hc
    exact hno q hq5 (by rw [← hm, hc.2])
  unfold Radio.listensTo
  have hk : (unicastPacket L A buf pid).addr = A := rfl
  rw [hk, hmp]
  split <;> rfl

namespace NetOk
variable {cfg : AddrCfg} {L : LinkCfg} {tree : Nat → List Nat} {s : NetState}

/-- addresses identify (node, pipe): the address of pipe `p` ∈ 1..5 of node `j` is on no pipe of
    any other node of the network -/
theorem addr_unique (hcfg : CfgOk cfg) (h : NetOk cfg L tree s) {j k : Nat} (hj : j < s.nodes.length)
    (hk : k < s.nodes.length) (hjk : k ≠ j) {Pj Pk : List Bytes}
    (hPj : beginPipes cfg (val (tree j)) = .ok Pj) (hPk : beginPipes cfg (val (tree k)) = .ok Pk)
    {p q : Nat} {A : Bytes} (hp1 : 1 ≤ p) (hp5 : p ≤ 5) (hq5 : q ≤ 5) (hA : Pj[p]? = some A) :
    Pk[q]? ≠ some A := by
  intro hc
  have hnj := (h.node j hj).1
  have hnk := (h.node k hk).1
  obtain ⟨lj, hlj, _, _, hgetj, _⟩ := C04_hw cfg hcfg (tree j) hnj
  obtain ⟨lk, hlk, _, _, hgetk, _⟩ := C04_hw cfg hcfg (tree k) hnk
  rw [hPj] at hlj; rw [hPk] at hlk
  have e1 : Pj = lj := Except.ok.inj hlj
  have e2 : Pk = lk := Except.ok.inj hlk
  subst e1 e2
  have toOk : ∀ {x : PyM Bytes} {A : Bytes}, x.toOption = some A → x = .ok A := by
    intro x A hx
    cases x with
    | error e => cases hx
    | ok a => simp [Except.toOption] at hx; rw [hx]
  have h1 := toOk ((hgetj p hp5).trans hA)
  have h2 := toOk ((hgetk q hq5).trans hc)
  have := C04_unique cfg hcfg (tree j) (tree k) hnj hnk p q hp1 hp5 hq5 (h1.trans h2.symm)
  exact (h.inj k j hk hj hjk).1 this.1.symm

/-- nobody but the sender and the addressed node listens to a unicast packet for pipe `p` ∈ 1..5 of
    node `j` -/
theorem hothers (hcfg : CfgOk cfg) (h : NetOk cfg L tree s) {i j : Nat} (hj : j < s.nodes.length)
    {Pj : List Bytes} (hPj : beginPipes cfg (val (tree j)) = .ok Pj) {p : Nat} {A : Bytes}
    (hp1 : 1 ≤ p) (hp5 : p ≤ 5) (hA : Pj[p]? = some A) (buf : Bytes) :
    ∀ r pid, r ≠ s.ridAt i → r ≠ s.ridAt j → (s.w.radio r).listensTo (unicastPacket L A buf pid) = none := by
  intro r pid hri hrj
  by_cases hex : ∃ k, k < s.nodes.length ∧ s.ridAt k = r
  · obtain ⟨k, hk, rfl⟩ := hex
    have hkj : k ≠ j := fun e => hrj (e ▸ rfl)
    obtain ⟨Pk, hPk, hNk⟩ := h.radio k hk
    exact listensTo_none_of_no_match hNk A buf pid
      (fun q hq => h.addr_unique hcfg hj hk hkj hPj hPk hp1 hp5 hq hA)
  · exact h.spare r _ (fun k hk e => hex ⟨k, hk, e⟩)

end NetOk

end Nrf.Net
