/-
C05, round 2: kernel evaluation (`decide +kernel`) of CONCRETE runs of the model — a fragmented message over
TWO hops in the chain `0o0 — 0o1 — 0o11` (`Example.three`), the boundary lengths of every fragment count.
Each line of a table is ONE run of ONE network with ONE message; see NrfProofs/C05FragRoute.lean for the checks.
-/
import NrfProofs.C05FragRoute
import NrfProofs.C05Example3

namespace Nrf.Net.Inst
open Nrf Nrf.Net Nrf.Spec Nrf.Proofs

/-- the lengths at which the number of fragments changes, and the two ends: 2 fragments (25, 48), 3 (49, 72),
    4 (73, 96), 5 (97, 120), 6 (121, 144) -/
def lens : List Nat := [25, 48, 49, 72, 73, 96, 97, 120, 121, 144]

theorem three_lens_lo : ∀ n ∈ [25, 48, 49, 72, 73],
    routeRunB Example.three (val []) 5 (List.range n) (callerFrame [1, 1] [] 6 5 (List.range n)) 1 0 (val [1, 1])
      (planAir (List.range n) 5 ⟨val [1, 1], val [], 6, .int 5, 0⟩ [2, 1]) = true := by
  decide +kernel

theorem three_lens_hi : ∀ n ∈ [96, 97, 120, 121, 144],
    routeRunB Example.three (val []) 5 (List.range n) (callerFrame [1, 1] [] 6 5 (List.range n)) 1 0 (val [1, 1])
      (planAir (List.range n) 5 ⟨val [1, 1], val [], 6, .int 5, 0⟩ [2, 1]) = true := by
  decide +kernel

theorem three_lens : ∀ n ∈ lens,
    routeRunB Example.three (val []) 5 (List.range n) (callerFrame [1, 1] [] 6 5 (List.range n)) 1 0 (val [1, 1])
      (planAir (List.range n) 5 ⟨val [1, 1], val [], 6, .int 5, 0⟩ [2, 1]) = true := by
  intro n hn
  have : n ∈ [25, 48, 49, 72, 73] ∨ n ∈ [96, 97, 120, 121, 144] := by
    simp only [lens, List.mem_cons, List.not_mem_nil, or_false] at hn ⊢
    omega
  rcases this with h | h
  · exact three_lens_lo n h
  · exact three_lens_hi n h

end Nrf.Net.Inst
