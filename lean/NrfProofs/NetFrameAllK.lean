/-
The frame theorem for the whole mutual block of `NrfModel/Net/Node.lean` (see `NetFrameK.lean`).
-/
import NrfProofs.NetFrameK

namespace Nrf.NetK
open Nrf Nrf.Net

/-- an invariant kept by every function of the mutual block at fuel `f` -/
structure AllPres (I : NetState → Prop) (f : Nat) : Prop where
  rfSend : ∀ buf, NPres I (rfSend f buf)
  rfResend : NPres I (rfResend f)
  txStandby : ∀ d, NPres I (txStandby f d)
  txStandbyFor : ∀ ms, NPres I (txStandbyFor f ms)
  fragRetry : ∀ r b, NPres I (fragRetry f r b)
  nodeFragLoop : ∀ t m l, NPres I (nodeFragLoop f t m l)
  nodeWriteToPipe : ∀ a p mc, NPres I (nodeWriteToPipe f a p mc)
  rfRead : NPres I (rfRead f)
  runOthers : ∀ i, NPres I (runOthers f i)
  netUpdate : ∀ r, NPres I (netUpdate f r)
  handleThis : ∀ t, NPres I (handleThis f t)
  handleOther : ∀ t, NPres I (handleOther f t)
  ackWait : ∀ d, NPres I (ackWait f d)
  nodeWrite : ∀ a t, NPres I (nodeWrite f a t)
  nodeUpdate : NPres I (nodeUpdate f)
  masterRelease : ∀ a, NPres I (masterRelease f a)
  masterDhcp : NPres I (masterDhcp f)

/-- the standard leaves: node-layer primitives under `hst : NetStable K I` with `hk : ∀ a b, K a b` -/
syntax "npres_any" term:max term:max "[" term,* "]" : tactic
macro_rules
  | `(tactic| npres_any $hst $hk [$ts,*]) => `(tactic| npres [
      NetStable.modNode $hst _ (fun _ => $hk _ _), NetStable.setHdr $hst _ (fun _ => $hk _ _),
      NetStable.sleep $hst _, NetStable.takeId $hst, NetStable.deliverDue $hst,
      NetStable.liftRf $hst _ (fun _ hJ => setListen_pres hJ _),
      NetStable.liftRf $hst _ (fun _ hJ => setAutoAckAttr_pres hJ _),
      NetStable.liftRf $hst _ (fun _ hJ => setAutoRetries_pres hJ _ _),
      NetStable.liftRf $hst _ (fun _ hJ => openRxPipe_pres hJ _ _),
      NetStable.liftRf $hst _ (fun _ hJ => openTxPipe_pres hJ _),
      NetStable.liftRf $hst _ (fun _ hJ => send_pres hJ _ _ _ _ _),
      NetStable.liftRf $hst _ (fun _ hJ => resend_pres hJ _),
      NetStable.liftRf $hst _ (fun _ hJ => read_pres hJ _),
      NetStable.liftRf $hst _ (fun _ hJ => available_pres hJ),
      $ts,*])

section anyK
variable {K : Node → Node → Prop} {I : NetState → Prop} (hst : NetStable K I) (hk : ∀ a b, K a b)
include hst hk

theorem enqueueFrameBuf_pres : NPres I enqueueFrameBuf := by
  unfold enqueueFrameBuf
  npres_any hst hk []

theorem beginRadio_pres (a : Nat) : NPres I (beginRadio a) := by
  unfold beginRadio
  npres_any hst hk [NPres.forIn_list _ _ (by intro _ _; npres_any hst hk []) _]

theorem begin_pres (a : Nat) : NPres I (begin a) := by
  unfold begin
  npres_any hst hk [beginRadio_pres hst hk _]

end anyK

/-- the world relation of the frame theorem also is what the restored clock satisfies -/
structure Restorable (W : World → World → Prop) : Prop where
  restore : ∀ w w' : World, w'.clock = w.clock → w'.radios.length = w.radios.length → W w w'

theorem clockLe_restorable : Restorable clockLe := ⟨fun _ _ h1 h2 => ⟨by omega, h2⟩⟩

/-- the context switch of `runOthers` to node `i` -/
def switchTo (s : NetState) (i : Nat) : NetState :=
  { s with nodes := s.nodes.modify s.cur (fun n => { n with clock := s.w.clock }),
           cur := i, active := i :: s.active,
           w := { s.w with clock := (s.nodes.getD i default).clock } }

/-- ... and back to node `me` -/
def switchBack (se : NetState) (me i : Nat) : NetState :=
  { se with nodes := se.nodes.modify i (fun n => { n with clock := se.w.clock }),
            cur := me, active := se.active.erase i,
            w := { se.w with clock := (se.nodes.getD me default).clock } }

theorem runOthers_succ (f i : Nat) : runOthers (f + 1) i = (do
    let s ← get
    if i ≥ s.nodes.length then return
    let r := s.w.radio (s.nodes.getD i default).rf.rid
    if i ≠ s.cur ∧ !s.active.contains i ∧ !r.rxFifo.isEmpty ∧ r.rxMode then
      set (switchTo s i)
      let _ ← try nodeUpdate f catch _ => pure 0
      let s2 ← get
      set (switchBack s2 s.cur i)
    runOthers f (i + 1)) := by
  rw [runOthers.eq_2]
  rfl

/-- **letting one other node run.**  If `update()` of any node respects the frame (fuel `f`), and
    the rest of the scan does, then so does the scan step of `runOthers` at fuel `f + 1`: the node
    that is switched to is not on the call stack, so the running node is only touched in its saved
    clock, which is what the clock is restored from. -/
theorem runOthers_step {K W} (hK : NodeRel K) (hW : WorldRel W) (hR : Restorable W) (f i : Nat)
    (hU : ∀ s0', Good s0' → NPres (Frame anyNode clockLe s0') (nodeUpdate f))
    {s0 : NetState} (g : Good s0) (hrec : NPres (Frame K W s0) (runOthers f (i + 1))) :
    NPres (Frame K W s0) (runOthers (f + 1) i) := by
  constructor
  intro s hs
  have gs := hs.good g
  rw [runOthers_succ]
  simp only [nexec_bind, nexec_get, ge_iff_le]
  by_cases hlen : s.nodes.length ≤ i
  · simp only [hlen, ↓reduceIte, nexec_pure]; exact hs
  · simp only [hlen, ↓reduceIte]
    split
    · rename_i hcond
      obtain ⟨hne, hact, _, _⟩ := hcond
      have hact' : i ∉ s.active := by simpa using hact
      simp only [nexec_bind, nexec_set, nexec_get]
      -- the switch
      generalize hsw : switchTo s i = ssw
      have gsw : Good ssw := by
        rw [← hsw]
        exact ⟨by simp [switchTo], by simp [switchTo]; omega⟩
      have hinner : NPres (Frame anyNode clockLe ssw) (tryCatch (nodeUpdate f) (fun _ => Pure.pure 0)) :=
        NPres.tryCatch (hU ssw gsw) (fun _ => NPres.pure _)
      have hfr := hinner.run ssw (Frame.refl anyNode_rel clockLe_rel ssw)
      rcases hrun : nexec (tryCatch (nodeUpdate f) (fun _ => Pure.pure 0)) ssw with ⟨r, se⟩
      rw [hrun] at hfr
      simp only at hfr
      have hback : Frame K W s0 (switchBack se s.cur i) := by
        have hcur_ne : s.cur ≠ i := fun e => hne e.symm
        have hme_sw : ssw.nodes.getD s.cur default = { curNode s with clock := s.w.clock } := by
          rw [← hsw]
          show (s.nodes.modify s.cur _).getD s.cur default = _
          rw [getD_modify_self _ _ _ gs.exists_]
          rfl
        have hme_se : se.nodes.getD s.cur default = { curNode s with clock := s.w.clock } := by
          rw [← hme_sw]
          apply hfr.others
          · rw [← hsw]; exact List.mem_cons_of_mem _ gs.onStack
          · rw [← hsw]; exact hcur_ne
        refine ⟨hs.cur, ?_, ?_, ?_, ?_, ?_, ?_⟩
        · show se.active.erase i = s0.active
          rw [hfr.active, ← hsw]
          show (i :: s.active).erase i = s0.active
          rw [List.erase_cons_head]
          exact hs.active
        · show (se.nodes.modify i _).length = s0.nodes.length
          rw [List.length_modify, hfr.len, ← hsw]
          show (s.nodes.modify s.cur _).length = s0.nodes.length
          rw [List.length_modify]
          exact hs.len
        · show se.closed = s0.closed
          rw [hfr.closed, ← hsw]; exact hs.closed
        · intro j hj hjne
          show (se.nodes.modify i _).getD j default = _
          have hjs : j ∈ s.active := by rw [hs.active]; exact hj
          have hji : j ≠ i := fun e => hact' (e ▸ hjs)
          rw [getD_modify_ne _ _ _ _ hji, hfr.others j (by rw [← hsw]; exact List.mem_cons_of_mem _ hjs)
            (by rw [← hsw]; exact hji), ← hsw]
          show (s.nodes.modify s.cur _).getD j default = _
          rw [getD_modify_ne _ _ _ _ (by rw [hs.cur]; exact hjne)]
          exact hs.others j hj hjne
        · show K (curNode s0) ((se.nodes.modify i _).getD s.cur default)
          rw [getD_modify_ne _ _ _ _ hcur_ne, hme_se]
          exact hK.trans _ _ _ hs.me (hK.clock _ _)
        · show W s0.w { se.w with clock := (se.nodes.getD s.cur default).clock }
          refine hW.trans _ _ _ hs.world (hR.restore _ _ ?_ ?_)
          · show (se.nodes.getD s.cur default).clock = s.w.clock
            rw [hme_se]
          · show se.w.radios.length = s.w.radios.length
            rw [hfr.world.2, ← hsw]
            rfl
      cases r with
      | error e =>
        exfalso
        rw [nexec_tryCatch] at hrun
        rcases h2 : nexec (nodeUpdate f) ssw with ⟨r2, s2⟩
        rw [h2] at hrun
        cases r2 with
        | ok a => cases hrun
        | error e2 => cases hrun
      | ok v => exact hrec.run _ hback
    · exact hrec.run s hs

/-- with no fuel every function of the block raises at once -/
theorem allPres_zero (I : NetState → Prop) : AllPres I 0 := by
  refine ⟨?_, ?_, ?_, ?_, ?_, ?_, ?_, ?_, ?_, ?_, ?_, ?_, ?_, ?_, ?_, ?_, ?_⟩
  · intro _; rw [rfSend.eq_1]; exact NPres.throw _
  · rw [rfResend.eq_1]; exact NPres.throw _
  · intro _; rw [txStandby.eq_1]; exact NPres.throw _
  · intro _; rw [txStandbyFor.eq_1]; exact NPres.throw _
  · intro _ _; rw [fragRetry.eq_1]; exact NPres.throw _
  · intro _ _ _; rw [nodeFragLoop.eq_1]; exact NPres.throw _
  · intro _ _ _; rw [nodeWriteToPipe.eq_1]; exact NPres.throw _
  · rw [rfRead.eq_1]; exact NPres.throw _
  · intro _; rw [runOthers.eq_1]; exact NPres.throw _
  · intro _; rw [netUpdate.eq_1]; exact NPres.throw _
  · intro _; rw [handleThis.eq_1]; exact NPres.throw _
  · intro _; rw [handleOther.eq_1]; exact NPres.throw _
  · intro _; rw [ackWait.eq_1]; exact NPres.throw _
  · intro _ _; rw [nodeWrite.eq_1]; exact NPres.throw _
  · rw [nodeUpdate.eq_1]; exact NPres.throw _
  · intro _; rw [masterRelease.eq_1]; exact NPres.throw _
  · rw [masterDhcp.eq_1]; exact NPres.throw _

/-- the step of the simultaneous induction for every function but `runOthers`: with arbitrary
    changes of the running node allowed, each body only uses node-layer primitives and calls at
    the smaller fuel -/
theorem allPres_succ {K : Node → Node → Prop} {I : NetState → Prop} (hst : NetStable K I)
    (hk : ∀ a b, K a b) (f : Nat) (ih : AllPres I f) (hro : ∀ i, NPres I (runOthers (f + 1) i)) :
    AllPres I (f + 1) := by
  refine ⟨?_, ?_, ?_, ?_, ?_, ?_, ?_, ?_, hro, ?_, ?_, ?_, ?_, ?_, ?_, ?_, ?_⟩
  · intro _; rw [rfSend.eq_2]; npres_any hst hk [ih.runOthers _]
  · rw [rfResend.eq_2]; npres_any hst hk [ih.runOthers _]
  · intro _; rw [txStandby.eq_2]; npres_any hst hk [ih.rfResend, ih.txStandby _]
  · intro _; rw [txStandbyFor.eq_2]; npres_any hst hk [ih.txStandby _]
  · intro _ _; rw [fragRetry.eq_2]; npres_any hst hk [ih.txStandbyFor _, ih.fragRetry _ _]
  · intro _ _ _; rw [nodeFragLoop.eq_2]
    npres_any hst hk [ih.rfSend _, ih.fragRetry _ _, ih.nodeFragLoop _ _ _]
  · intro _ _ _; rw [nodeWriteToPipe.eq_2]
    npres_any hst hk [enqueueFrameBuf_pres hst hk, ih.rfSend _, ih.txStandbyFor _, ih.nodeFragLoop _ _ _]
  · rw [rfRead.eq_2]; npres_any hst hk [ih.runOthers _]
  · intro _; rw [netUpdate.eq_2]
    npres_any hst hk [ih.rfRead, ih.netUpdate _, ih.handleThis _, ih.handleOther _]
  · intro _; rw [handleThis.eq_2]
    npres_any hst hk [enqueueFrameBuf_pres hst hk, ih.nodeWrite _ _]
  · intro _; rw [handleOther.eq_2]
    npres_any hst hk [enqueueFrameBuf_pres hst hk, ih.nodeWrite _ _]
  · intro _; rw [ackWait.eq_2]; npres_any hst hk [ih.netUpdate _, ih.ackWait _]
  · intro _ _; rw [nodeWrite.eq_2]
    npres_any hst hk [ih.nodeWriteToPipe _ _ _, ih.ackWait _]
  · rw [nodeUpdate.eq_2]
    npres_any hst hk [ih.netUpdate _, ih.nodeWrite _ _, ih.masterRelease _, ih.masterDhcp]
  · intro _; rw [masterRelease.eq_2]
    npres_any hst hk [ih.nodeWrite _ _, begin_pres hst hk _]
  · rw [masterDhcp.eq_2]
    npres_any hst hk [ih.nodeWrite _ _]

/-- **The frame theorem.**  For every fuel, every function of the node layer, every state in which
    the call runs as an existing node that is on the call stack: whatever the call does and however
    it ends, the running node and the call stack are the same afterwards, no *other* node on the
    call stack has changed in any way, the clock has not run backwards and the number of radios
    and nodes is unchanged. -/
theorem frameAll : ∀ f s0, Good s0 → AllPres (Frame anyNode clockLe s0) f := by
  intro f
  induction f with
  | zero => intro _ _; exact allPres_zero _
  | succ f ih =>
    intro s0 g
    have hst := frame_stable anyNode_rel clockLe_rel g
    refine allPres_succ hst (fun _ _ => trivial) f (ih s0 g) ?_
    intro i
    exact runOthers_step anyNode_rel clockLe_rel clockLe_restorable f i
      (fun s0' g' => (ih s0' g').nodeUpdate) g ((ih s0 g).runOthers _)

end Nrf.NetK
