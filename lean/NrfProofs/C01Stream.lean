/-
C01 helper lemmas, part 4 (streaming), air level: a powered-up PTX with CE high, MAX_RT clear and
SEVERAL fresh payloads queued runs one transmit cycle per payload (`tryTransmit`), in FIFO order; on
undisturbed air, with a compatible receiver that has room for all of them and working
acknowledgements, every payload arrives once, in order, and the TX FIFO ends up empty.
-/
import NrfProofs.C01List

namespace Nrf
open Rf24 Spec.Link

namespace Radio

theorem packetFor_eq_regs (r : Radio) (e : TxEntry) :
    r.packetFor e = { r.regs.packetFor e with pid := r.pidFor e } := rfl

theorem listensTo_pid (r : Radio) (k : Packet) (q : Nat) : r.listensTo { k with pid := q } = r.listensTo k := rfl

/-- whether a receiver takes the packet of entry `e` depends on the transmitter's registers only -/
theorem listensTo_packetFor_regs (c r R : Radio) (e : TxEntry) (h : r.regs = R.regs) :
    c.listensTo (r.packetFor e) = c.listensTo (R.packetFor e) := by
  have e1 : c.listensTo (r.packetFor e) = c.listensTo (r.regs.packetFor e) := rfl
  have e2 : c.listensTo (R.packetFor e) = c.listensTo (R.regs.packetFor e) := rfl
  rw [e1, e2, h]

theorem or20_and10 (f g : Nat) (hf : f &&& 0x10 = 0) (hg : g &&& 0x10 = 0) : (f ||| 0x20 ||| g) &&& 0x10 = 0 := by
  rw [Nat.and_or_distrib_right, Nat.and_or_distrib_right, hf, hg]; rfl

theorem or20_and20 (f g : Nat) : (f ||| 0x20 ||| g) &&& 0x20 ≠ 0 := by
  rw [Nat.and_or_distrib_right, Nat.and_or_distrib_right]
  intro h
  have := (Nat.or_eq_zero_iff.1 (Nat.or_eq_zero_iff.1 h).1).2
  simp at this

theorem or20_and10' (f : Nat) (hf : f &&& 0x10 = 0) : (f ||| 0x20) &&& 0x10 = 0 := by
  rw [Nat.and_or_distrib_right, hf]; rfl

theorem or20_and20' (f : Nat) : (f ||| 0x20) &&& 0x20 ≠ 0 := by
  rw [Nat.and_or_distrib_right]
  intro h
  have := (Nat.or_eq_zero_iff.1 h).2
  simp at this

theorem txDoneAcked_flags (r : Radio) (rest : List TxEntry) (made : Nat) (a : Option Bytes) :
    ∃ g, (r.txDoneAcked rest made a).flags = r.flags ||| 0x20 ||| g ∧ g &&& 0x10 = 0 := by
  unfold Radio.txDoneAcked
  refine ⟨_, rfl, ?_⟩
  split <;> (split <;> rfl)

theorem afterCycle_rxPipes (r : Radio) (e : TxEntry) (rest : List TxEntry) (res : Nat × Option (Option Bytes))
    (h : r.RxPipes) : (r.afterCycle e rest res).RxPipes := by
  unfold Radio.afterCycle
  split
  · exact h
  · split
    · unfold Radio.txDoneAcked Radio.RxPipes
      simp only
      intro x hx
      repeat' split at hx
      all_goals first
        | exact h x hx
        | (rcases List.mem_append.1 hx with hx | hx
           · exact h x hx
           · simp only [List.mem_cons, List.not_mem_nil, or_false] at hx
             subst hx
             exact Nat.zero_le _)
    · exact h

end Radio

namespace World

/-- the receivers after a cycle on undisturbed air, whatever else is queued behind the head entry
    (`cycle_receiver_nofaults` with an arbitrary `rest`) -/
theorem cycle_receiver_nofaults' (w : World) (s : Nat) (e : TxEntry) (rest : List TxEntry) (j : Nat)
    (hs : s < w.radios.length) (hj : j < w.radios.length) (hjs : j ≠ s) (hf : w.faults = []) :
    (w.cycle s e rest).radio j = ((w.radio j).receive ((w.radio s).packetFor e)).1 := by
  rw [cycle_others_exact w s e rest j hj hjs, hf, deliveries_nil]
  have hpos := cycleAttempts_pos w s e hs
  obtain ⟨a, ha⟩ : ∃ a, w.cycleAttempts s e = a + 1 := ⟨w.cycleAttempts s e - 1, by omega⟩
  rw [ha]
  cases he : ((w.radio s).packetFor e).esb with
  | true => exact recvN_esb _ he a _
  | false =>
    have haw : (w.radio s).awaitsAck e = false := by
      unfold Radio.awaitsAck
      have : (w.radio s).esb = false := he
      rw [this]; rfl
    have : w.cycleAttempts s e = 1 := by unfold cycleAttempts; rw [haw]; rfl
    have ha0 : a = 0 := by omega
    subst ha0
    rfl

/-- a property of radios preserved by the reception of any packet holds for every radio other than
    the transmitter after `tryTransmit` -/
theorem tryTransmit_others (P : Radio → Prop) (hP : ∀ r k, P r → P (r.receive k).1) (s : Nat) :
    ∀ (f : Nat) (w : World), (∀ q, q < w.radios.length → q ≠ s → P (w.radio q)) →
      (tryTransmit s f w).radios.length = w.radios.length ∧
      ∀ q, q < w.radios.length → q ≠ s → P ((tryTransmit s f w).radio q) := by
  intro f
  induction f with
  | zero => intro w h; exact ⟨rfl, h⟩
  | succ f ih =>
    intro w h
    by_cases hr : (w.radio s).txReady = true
    · cases hf : (w.radio s).txFifo with
      | nil =>
        rw [tryTransmit_idle s _ w (Radio.idle_of_empty _ hf)]; exact ⟨rfl, h⟩
      | cons e rest =>
        rw [tryTransmit_ready s f w e rest hf hr]
        have h1 := cycle_others P w s e rest (fun r hr' => hP r _ hr') h
        obtain ⟨i1, i2⟩ := ih (w.cycle s e rest) (by rw [cycle_length]; exact h1)
        rw [cycle_length] at i1 i2
        exact ⟨i1, i2⟩
    · have : (w.radio s).Idle := by simpa [Radio.Idle] using hr
      rw [tryTransmit_idle s _ w this]; exact ⟨rfl, h⟩

end World

/-- the state of the air between two cycles of a stream: transmitter `s` (registers `R`) in TX mode
    with `es` queued and MAX_RT clear; receiver `j` configured like `C` with room for all of `es`;
    undisturbed air; the receiver's last accepted packet does not carry the PID the next payload
    gets -/
structure StreamInv (R C : Radio) (s j : Nat) (w : World) (es : List TxEntry) : Prop where
  hs : s < w.radios.length
  hj : j < w.radios.length
  faults : w.faults = []
  regs : (w.radio s).regs = R.regs
  ce : (w.radio s).ce = true
  noMaxRt : (w.radio s).flags &&& 0x10 = 0
  fifo : (w.radio s).txFifo = es
  cfg : (w.radio j).cfgOf = C.cfgOf
  room : (w.radio j).rxFifo.length + es.length ≤ 3
  nodup : R.esb = true → ∀ l, (w.radio j).lastRx = some l → l.pid ≠ (w.radio s).nextPid
  pipesS : (w.radio s).RxPipes

/-- **one cycle of a stream**: the head payload is delivered to the tail of the receiver's RX FIFO,
    popped from the TX FIFO, TX_DS latched, MAX_RT still clear; the invariant holds for the rest -/
theorem stream_step (R C : Radio) (s j p : Nat) (hjs : j ≠ s) (hp : R.Ptx) (hack : AcksWork R C p)
    (e : TxEntry) (rest : List TxEntry) (w : World) (h : StreamInv R C s j w (e :: rest))
    (hpid : e.pid = none) (hsend : Radio.headSendable [e] = true) (hl : C.listensTo (R.packetFor e) = some p) :
    (w.radio s).txReady = true ∧
    StreamInv R C s j (w.cycle s e rest) rest ∧
    ((w.cycle s e rest).radio j).rxFifo = (w.radio j).rxFifo ++ [⟨p, e.data⟩] ∧
    ((w.cycle s e rest).radio s).flags &&& 0x20 ≠ 0 := by
  have hptx : (w.radio s).Ptx := Radio.ptx_regs _ _ h.regs hp
  have hready : (w.radio s).txReady = true := by
    unfold Radio.txReady Radio.txMode
    rw [hptx.1, hptx.2, h.ce, h.noMaxRt, h.fifo]
    have hh : Radio.headSendable (e :: rest) = Radio.headSendable [e] := rfl
    rw [hh, hsend]
    rfl
  -- the packet on the air
  have hkpid : ((w.radio s).packetFor e).pid = (w.radio s).nextPid := by
    show (w.radio s).pidFor e = _
    unfold Radio.pidFor; rw [hpid]; rfl
  have hesbS : (w.radio s).esb = R.esb := by
    have : (w.radio s).esb = (w.radio s).regs.esb := rfl
    rw [this, h.regs]; rfl
  have henAAS : (w.radio s).enAA = R.enAA := by
    have : (w.radio s).enAA = (w.radio s).regs.enAA := rfl
    rw [this, h.regs]; rfl
  have hkesb : ((w.radio s).packetFor e).esb = R.esb := hesbS
  have hl' : (w.radio j).listensTo ((w.radio s).packetFor e) = some p := by
    rw [Radio.listensTo_cfg _ _ _ h.cfg, Radio.listensTo_packetFor_regs _ _ _ _ h.regs]
    exact hl
  have hnd : (w.radio j).isDup ((w.radio s).packetFor e) = false := by
    unfold Radio.isDup
    cases hesb : R.esb with
    | false => rw [hkesb, hesb]; rfl
    | true =>
      cases hlr : (w.radio j).lastRx with
      | none => simp
      | some l =>
        have := h.nodup hesb l hlr
        have hne : (some l == some (⟨((w.radio s).packetFor e).pid, ((w.radio s).packetFor e).addr,
            ((w.radio s).packetFor e).data⟩ : LastRx)) = false := by
          rw [beq_eq_false_iff_ne]
          intro heq
          cases heq
          exact this hkpid
        rw [hne, Bool.and_false]
  have hroom : (w.radio j).rxFifo.length < 3 := by
    have := h.room
    simp only [List.length_cons] at this
    omega
  have hrecv := World.cycle_receiver_nofaults' w s e rest j h.hs h.hj hjs h.faults
  obtain ⟨r1, _, r3⟩ := receive_new_rx _ _ p hl' hnd hroom
  -- the transmitter after the cycle: TX_DS, never MAX_RT
  have hself := World.cycle_self w s e rest h.hs
  have hafter : ((w.radio s).afterCycle e rest (w.cycleRes s e)).txFifo = rest ∧
      ((w.radio s).afterCycle e rest (w.cycleRes s e)).flags &&& 0x10 = 0 ∧
      ((w.radio s).afterCycle e rest (w.cycleRes s e)).flags &&& 0x20 ≠ 0 := by
    unfold Radio.afterCycle
    cases haw : (w.radio s).awaitsAck e with
    | false =>
      simp only [Bool.not_false, ↓reduceIte]
      exact ⟨rfl, Radio.or20_and10' _ h.noMaxRt, Radio.or20_and20' _⟩
    | true =>
      simp only [Bool.not_true, Bool.false_eq_true, ↓reduceIte]
      have haw' : ((w.radio s).esb && Radio.bit (w.radio s).enAA 0 && !(w.radio s).noAckFor e) = true := haw
      simp only [Bool.and_eq_true, Bool.not_eq_true'] at haw'
      obtain ⟨⟨h1, h2⟩, h3⟩ := haw'
      obtain ⟨hhear, haa⟩ := hack (by rw [← hesbS, ← henAAS, h1, h2]; rfl)
      have haaj : Radio.bit (w.radio j).enAA p = true := by
        have e1 : (w.radio j).enAA = (w.radio j).cfgOf.enAA := rfl
        have e2 : C.enAA = C.cfgOf.enAA := rfl
        rw [e1, h.cfg, ← e2]; exact haa
      have hacked : w.acked s ((w.radio s).packetFor e) = true := by
        unfold World.acked
        rw [Radio.canHear_regs _ _ h.regs, hhear, Bool.true_and]
        exact (World.deliver_ack_isSome _ _ _).2 ⟨j, h.hj, hjs, receive_acks' _ _ p hl' h1 haaj h3 hroom⟩
      obtain ⟨hres, _⟩ := World.cycleRes_spec w s e h.hs
      have hD : hasDeliveredB w.faults (World.arcOf (w.radio s) + 1) = true := by rw [h.faults]; rfl
      rw [hacked, hD] at hres
      simp only [Bool.and_self, ↓reduceIte] at hres
      obtain ⟨a, ha⟩ := Option.isSome_iff_exists.1 (acked_isSome _ _ _ hacked)
      rw [ha] at hres
      rw [hres]
      simp only
      obtain ⟨g, hg, hg10⟩ := Radio.txDoneAcked_flags ((w.radio s).takePid e) rest (w.cycleRes s e).1 a
      refine ⟨rfl, ?_, ?_⟩
      · rw [hg]; exact Radio.or20_and10 _ _ h.noMaxRt hg10
      · rw [hg]; exact Radio.or20_and20 _ _
  obtain ⟨a1, a2, a3⟩ := hafter
  have hnp : ((w.cycle s e rest).radio s).nextPid = ((w.radio s).nextPid + 1) % 4 := by
    rw [hself, afterCycle_nextPid]
    unfold Radio.takePid; rw [hpid]; rfl
  refine ⟨hready, ⟨?_, ?_, ?_, ?_, ?_, ?_, ?_, ?_, ?_, ?_, ?_⟩, ?_, ?_⟩
  · rw [World.cycle_length]; exact h.hs
  · rw [World.cycle_length]; exact h.hj
  · rw [(World.cycle_world w s e rest).1, h.faults]; exact List.drop_nil
  · rw [hself, Radio.afterCycle_regs]; exact h.regs
  · rw [hself, Radio.afterCycle_ce]; exact h.ce
  · rw [hself]; exact a2
  · rw [hself]; exact a1
  · rw [hrecv, Radio.receive_cfgOf]; exact h.cfg
  · rw [hrecv, r1]
    have := h.room
    simp only [List.length_cons, List.length_append, List.length_nil] at this ⊢
    omega
  · intro hesb l hl2
    rw [hrecv, r3, hkesb, hesb] at hl2
    simp only [↓reduceIte, Option.some.injEq] at hl2
    subst hl2
    rw [hnp]
    show ((w.radio s).packetFor e).pid ≠ _
    rw [hkpid]
    omega
  · rw [hself]; exact Radio.afterCycle_rxPipes _ _ _ _ h.pipesS
  · rw [hrecv, r1]; rfl
  · rw [hself]; exact a3

/-- **a whole stream**: `tryTransmit` with enough fuel sends every queued payload, in order -/
theorem stream_cycles (R C : Radio) (s j p : Nat) (hjs : j ≠ s) (hp : R.Ptx) (hack : AcksWork R C p) :
    ∀ (es : List TxEntry) (f : Nat) (w : World), es.length ≤ f → StreamInv R C s j w es →
      (∀ e ∈ es, e.pid = none ∧ Radio.headSendable [e] = true ∧ C.listensTo (R.packetFor e) = some p) →
      StreamInv R C s j (World.tryTransmit s f w) [] ∧
      ((World.tryTransmit s f w).radio j).rxFifo = (w.radio j).rxFifo ++ es.map (fun e => ⟨p, e.data⟩) ∧
      (es ≠ [] → ((World.tryTransmit s f w).radio s).flags &&& 0x20 ≠ 0) := by
  intro es
  induction es with
  | nil =>
    intro f w _ h _
    rw [World.tryTransmit_idle s f w (Radio.idle_of_empty _ h.fifo)]
    exact ⟨h, by simp, fun hc => absurd rfl hc⟩
  | cons e rest ih =>
    intro f w hf h hes
    obtain ⟨f', rfl⟩ : ∃ f', f = f' + 1 := ⟨f - 1, by simp only [List.length_cons] at hf; omega⟩
    obtain ⟨he1, he2, he3⟩ := hes e List.mem_cons_self
    obtain ⟨hready, hinv, hrx, hfl⟩ := stream_step R C s j p hjs hp hack e rest w h he1 he2 he3
    rw [World.tryTransmit_ready s f' w e rest h.fifo hready]
    obtain ⟨i1, i2, i3⟩ := ih f' (w.cycle s e rest) (by simp only [List.length_cons] at hf; omega) hinv
      (fun e' he' => hes e' (List.mem_cons_of_mem _ he'))
    refine ⟨i1, ?_, fun _ => ?_⟩
    · rw [i2, hrx, List.map_cons, List.append_assoc]; rfl
    · cases rest with
      | nil =>
        rw [World.tryTransmit_idle s f' _ (Radio.idle_of_empty _ hinv.fifo)]
        exact hfl
      | cons e2 rest2 => exact i3 (by intro hc; cases hc)

end Nrf
