/-
C17, end-to-end join, part 5: a concrete master + unassigned joiner (values taken from running the
model: `net 2 1 new m master 0 0 ; new x mesh 1 7`) for the non-vacuity examples of the closed-system
join legs, and the link from the candidate loop of the node layer to C16's allocator.
-/
import NrfProofs.C17JoinReq
import NrfProofs.C05Example
import NrfProofs.MeshJoinK

namespace Nrf.Net.Join
open Nrf Nrf.Net Nrf.Spec Nrf.Proofs Nrf.Net.Example

/-- the joiner's radio object: `_begin(0o4444)` -/
def rfX : Rf24 :=
  { rid := 1, status := 14, pipes0 := [204, 62, 204, 204, 204], pipes1 := [60, 62, 62, 62, 62],
    pipesN := [51, 206, 62, 227], config := 15, openPipes := 63, features := 5, retrySetup := 85, rfSetup := 7,
    dynPl := 63, aa := 62, channel := 76, addrLen := 5, pipe0ReadAddr := some [204, 62, 204, 204, 204],
    txAddress := [231, 231, 231, 231, 231], isPlus := true }

def radioX : Radio :=
  { config := 15, enAA := 62, enRxAddr := 63, setupRetr := 85, rfCh := 76, rfSetup := 7,
    rxAddr0 := [204, 62, 204, 204, 204], rxAddr1 := [60, 62, 62, 62, 62], rxAddrN := [51, 206, 62, 227],
    rxPw := [32, 32, 32, 32, 32, 32], dynpd := 63, feature := 5, ce := true }

def PX : List Bytes :=
  [[204, 62, 204, 204, 204], [60, 62, 62, 62, 62], [51, 62, 62, 62, 62], [206, 62, 62, 62, 62],
   [62, 62, 62, 62, 62], [227, 62, 62, 62, 62]]

/-- master (node 0, radio 0, empty table) and joiner ID 7 (node 1, radio 1, unassigned), the joiner
    inside `_request_address` with the request for contact 0 in `frame_buf` -/
def joinEx : NetState :=
  { nodes := [{ kind := .meshMaster, rf := rf0, retSysMsg := true,
                a := { addr := 0, netLvl := 0, mask := 0, maskInv := 65535, parent := 0, parentPipe := 0 } },
              { kind := .meshNode, rf := rfX, retSysMsg := true, nodeId := 7,
                a := { addr := 2340, netLvl := 4, mask := 4095, maskInv := 61440, parent := 292, parentPipe := 4 },
                frameBuf := reqFrame 3 7 0 }],
    cur := 1, active := [1], nextId := 4, closed := true,
    w := { radios := [radio0, radioX], busyUntil := [0, 0] } }

theorem joinEx_radio0 : NodeRadio L P0 true true 0x3E (joinEx.nodeAt 0).rf (joinEx.radioAt 0) := by decide
theorem joinEx_radio1 : NodeRadio L PX true true 0x3E (joinEx.nodeAt 1).rf (joinEx.radioAt 1) := by decide

theorem pa0 : pipeAddress {} 0 0 = .ok [195, 204, 204, 204, 204] :=
  (pipeAddress_listen (cfg := {}) (sfxFn_spec rfl) (ds := []) (by decide) (p := 0) (by decide)).trans
    (congrArg Except.ok (by decide))

theorem pa4444 : pipeAddress {} NETWORK_DEFAULT_ADDR 0 = .ok [204, 62, 204, 204, 204] :=
  (pipeAddress_listen (cfg := {}) (sfxFn_spec rfl) (ds := [4, 4, 4, 4]) (by decide) (p := 0) (by decide)).trans
    (congrArg Except.ok (by decide))

/-- the candidate loop of the node layer's `_dhcp` for a direct request is C16's allocator -/
theorem dhcp_direct (t : Mesh.Table) (i a : Nat) (w1 : Bool)
    (h : dhcpFind t i 0 0 (Mesh.MESH_MAX_CHILDREN + 1) = some a) :
    (Mesh.dhcp t NETWORK_DEFAULT_ADDR i w1).1 = Mesh.setAddress t i a := by
  unfold Mesh.dhcp
  simp only [ne_eq, not_true_eq_false, if_false, if_true]
  rw [Nrf.Proofs.MeshK.dhcpFind_table, h]

/-- the response passes the joiner's acceptance test for the contact 0 -/
theorem respFrame_accept (fid i a : Nat) (ha : a < 65536) :
    (respFrame fid i a).header.reserved = i ∧ (respFrame fid i a).header.ty = MESH_ADDR_RESPONSE ∧
    unpackH (pySlice (respFrame fid i a).message 0 2) = .ok a := by
  refine ⟨rfl, rfl, ?_⟩
  have : pySlice (respFrame fid i a).message 0 2 = [a % 256, a / 256] := by
    simp [respFrame, pySlice]
  rw [this]
  unfold unpackH
  simp only
  congr 1
  omega

/-! ### evaluation helpers for the concrete instances of NrfProps/C17.lean -/

/-- an outcome is `.ok ()` / `.ok v` (Boolean tests the kernel / the evaluator can run) -/
def isOkUnit : Except PyErr Unit → Bool
  | .ok () => true
  | _ => false

def isOkInt (v : Int) : Except PyErr Int → Bool
  | .ok w => decide (w = v)
  | _ => false

theorem isOkUnit_eq {r : Except PyErr Unit} (h : isOkUnit r = true) : r = .ok () := by
  cases r with
  | ok u => rfl
  | error e => cases h

theorem isOkInt_eq {v : Int} {r : Except PyErr Int} (h : isOkInt v r = true) : r = .ok v := by
  cases r with
  | ok w => exact congrArg Except.ok (of_decide_eq_true h)
  | error e => cases h

end Nrf.Net.Join
