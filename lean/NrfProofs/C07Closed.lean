/-
C07, closed system — **other nodes running do not touch the configuration of the caller's radio**.

On top of agent K's generic preservation machinery (`NrfProofs/NetFrameK.lean`, `NetFrameAllK.lean`:
`NPres`, `AllPres`, the tactics `npres`/`dpres`, the per-method `DPres` lemmas): the invariant
`Prot me j c0 ρ` — "the call is not running as node `me`, `me` is on the call stack, node `k` drives
radio `ρ k`, no node but `me` drives radio `j`, and the configuration part of radio `j` is `c0`" —
is kept by every function of the mutual block of `Net/Node.lean`, for every fuel and outcome
(`protAll`).  K's frame relation cannot say this (its world relation has to allow SPI traffic on
every radio); here the radio of the running node is tracked (`rf.rid` is never assigned).
-/
import NrfProofs.NetFrameAllK
import NrfProofs.Frame

namespace Nrf.NetK
open Nrf Nrf.Net Nrf.Rf24

/-! ### the environment never changes the configuration part of a radio other than the addressed one -/

theorem spi_cfgOf_other (w : World) (s : Nat) (out : Bytes) (j : Nat) (hj : j ≠ s) :
    ((w.spi s out).1.radio j).cfgOf = (w.radio j).cfgOf := by
  unfold World.spi
  dsimp only
  rw [(World.tryTransmit_cfgEq s 4 _).2 j]
  show (({ ((w.jump s).setRadio s ((w.jump s).radio s |>.xfer out).1) with clock := _, spiCount := _ } : World).radio j).cfgOf = _
  have : ∀ (w' : World) (c n : Nat), ({ w' with clock := c, spiCount := n } : World).radio j = w'.radio j := fun _ _ _ => rfl
  rw [this, World.radio_setRadio]
  simp only [hj, false_and, ↓reduceIte]
  rfl

theorem setCE_cfgOf_other (w : World) (s : Nat) (v : Bool) (j : Nat) (hj : j ≠ s) :
    ((w.setCE s v).radio j).cfgOf = (w.radio j).cfgOf := by
  unfold World.setCE
  dsimp only
  rw [(World.tryTransmit_cfgEq s 4 _).2 j, World.radio_setRadio]
  simp only [hj, false_and, ↓reduceIte]
  rfl

theorem foldl_inject_cfgOf (rid j : Nat) : ∀ (l : List (Nat × Nat × Bytes)) (w : World),
    ((l.foldl (fun w a => w.inject rid a.2.1 a.2.2) w).radio j).cfgOf = (w.radio j).cfgOf := by
  intro l
  induction l with
  | nil => intro w; rfl
  | cons a l ih =>
    intro w
    rw [List.foldl_cons, ih]
    exact (World.inject_cfgEq w rid a.2.1 a.2.2).2 j

/-! ### the invariant -/

/-- the call runs as a node other than `me`; `me` waits on the call stack; node `k` drives radio
    `ρ k`; only `me` drives radio `j`, whose configuration part is `c0` -/
structure Prot (me j : Nat) (c0 : Radio) (ρ : Nat → Nat) (N : Nat) (s : NetState) : Prop where
  cur : s.cur ≠ me
  has : s.cur < s.nodes.length
  len : s.nodes.length = N
  act : me ∈ s.active
  rids : ∀ k, (s.nodes.getD k default).rf.rid = ρ k
  other : ∀ k, k ≠ me → k < N → ρ k ≠ j
  cfg : (s.w.radio j).cfgOf = c0

section
variable {me j : Nat} {c0 : Radio} {ρ : Nat → Nat} {N : Nat}

theorem Prot.ridCur {s : NetState} (h : Prot me j c0 ρ N s) : (curNode s).rf.rid ≠ j := by
  show (s.nodes.getD s.cur default).rf.rid ≠ j
  rw [h.rids]
  exact h.other _ h.cur (by rw [← h.len]; exact h.has)

/-- a change of the running node's record that keeps its radio, and of the world that keeps the
    configuration part of radio `j` -/
theorem Prot.step {s : NetState} (h : Prot me j c0 ρ N s) (f : Node → Node)
    (hf : (f (curNode s)).rf.rid = (curNode s).rf.rid) (w' : World)
    (hw : (w'.radio j).cfgOf = (s.w.radio j).cfgOf) (nid : Nat) :
    Prot me j c0 ρ N { s with nodes := s.nodes.modify s.cur f, w := w', nextId := nid } := by
  refine ⟨h.cur, ?_, ?_, h.act, ?_, h.other, ?_⟩
  · show s.cur < (s.nodes.modify s.cur f).length
    rw [List.length_modify]; exact h.has
  · show (s.nodes.modify s.cur f).length = N
    rw [List.length_modify]; exact h.len
  · intro k
    show ((s.nodes.modify s.cur f).getD k default).rf.rid = ρ k
    by_cases hk : k = s.cur
    · subst hk
      rw [getD_modify_self _ _ _ h.has]
      show (f (curNode s)).rf.rid = _
      rw [hf]
      exact h.rids _
    · rw [getD_modify_ne _ _ _ _ hk]
      exact h.rids k
  · show (w'.radio j).cfgOf = c0
    rw [hw]; exact h.cfg

/-- what a driver call of the running node (radio `r ≠ j`) cannot break -/
theorem prot_drvStable (r : Nat) (hr : r ≠ j) :
    DrvStable (fun t : DrvState => t.d.rid = r ∧ (t.w.radio j).cfgOf = c0) := by
  have hj : ∀ t : DrvState, t.d.rid = r → j ≠ t.d.rid := fun t e h => hr (by rw [← e, ← h])
  refine ⟨?_, ?_, ?_, ?_⟩
  · intro out
    constructor
    intro s hs
    rw [exec_xfer]
    exact ⟨hs.1, by rw [spi_cfgOf_other _ _ _ _ (hj s hs.1)]; exact hs.2⟩
  · intro v
    constructor
    intro s hs
    rw [exec_setCE]
    exact ⟨hs.1, by rw [setCE_cfgOf_other _ _ _ _ (hj s hs.1)]; exact hs.2⟩
  · intro n
    constructor
    intro s hs
    rw [exec_sleepNs]
    exact ⟨hs.1, by rw [(World.sleep_cfgEq s.w n).2 j]; exact hs.2⟩
  · intro f hf
    constructor
    intro s hs
    rw [exec_modD]
    exact ⟨by rw [← hs.1]; exact hf _, hs.2⟩

/-- the primitives of the node layer keep `Prot` -/
structure NetStableR (I : NetState → Prop) : Prop where
  modNode : ∀ f : Node → Node, (∀ n, (f n).rf.rid = n.rf.rid) → NPres I (Net.modNode f)
  liftRf : ∀ {α} (m : DrvM α), (∀ J, DrvStable J → DPres J m) → NPres I (Net.liftRf m)
  sleep : ∀ n, NPres I (Net.sleepNs n)
  takeId : NPres I Net.takeId
  deliverDue : NPres I Net.deliverDue

theorem prot_stable : NetStableR (Prot me j c0 ρ N) := by
  refine ⟨?_, ?_, ?_, ?_, ?_⟩
  · intro f hf
    constructor
    intro s hs
    rw [nexec_modNode]
    exact hs.step f (hf _) s.w rfl s.nextId
  · intro α m hm
    constructor
    intro s hs
    rw [nexec_liftRf]
    have hd := (hm _ (prot_drvStable (c0 := c0) (curNode s).rf.rid hs.ridCur)).run (drvOf s) ⟨rfl, hs.cfg⟩
    exact hs.step (fun n => { n with rf := (exec m (drvOf s)).2.d }) hd.1 (exec m (drvOf s)).2.w
      (by rw [hd.2, hs.cfg]) s.nextId
  · intro n
    constructor
    intro s hs
    rw [nexec_sleepNs]
    have := hs.step id rfl (s.w.sleep n) ((World.sleep_cfgEq s.w n).2 j) s.nextId
    simpa using this
  · constructor
    intro s hs
    rw [nexec_takeId]
    have := hs.step id rfl s.w rfl ((s.nextId + 1) &&& 0xFFFF)
    simpa using this
  · constructor
    intro s hs
    unfold Net.deliverDue
    simp only [nexec_bind, nexec_get, nexec_set]
    exact hs.step _ rfl _ (foldl_inject_cfgOf _ _ _ _) s.nextId

theorem NetStableR.setHdr {I} (h : NetStableR I) (f : Header → Header) : NPres I (Net.setHdr f) :=
  h.modNode _ (fun _ => rfl)

end

/-- the standard leaves under `hst : NetStableR I`: every record update of the node layer keeps `rf` -/
syntax "npres_rid" term:max "[" term,* "]" : tactic
macro_rules
  | `(tactic| npres_rid $hst [$ts,*]) => `(tactic| npres [
      NetStableR.modNode $hst _ (fun _ => rfl), NetStableR.setHdr $hst _,
      NetStableR.sleep $hst _, NetStableR.takeId $hst, NetStableR.deliverDue $hst,
      NetStableR.liftRf $hst _ (fun _ hJ => setListen_pres hJ _),
      NetStableR.liftRf $hst _ (fun _ hJ => setAutoAckAttr_pres hJ _),
      NetStableR.liftRf $hst _ (fun _ hJ => setAutoRetries_pres hJ _ _),
      NetStableR.liftRf $hst _ (fun _ hJ => openRxPipe_pres hJ _ _),
      NetStableR.liftRf $hst _ (fun _ hJ => openTxPipe_pres hJ _),
      NetStableR.liftRf $hst _ (fun _ hJ => send_pres hJ _ _ _ _ _),
      NetStableR.liftRf $hst _ (fun _ hJ => resend_pres hJ _),
      NetStableR.liftRf $hst _ (fun _ hJ => read_pres hJ _),
      NetStableR.liftRf $hst _ (fun _ hJ => available_pres hJ),
      $ts,*])

section ridI
variable {I : NetState → Prop} (hst : NetStableR I)
include hst

theorem enqueueFrameBuf_presR : NPres I enqueueFrameBuf := by
  unfold enqueueFrameBuf
  npres_rid hst []

theorem beginRadio_presR (a : Nat) : NPres I (beginRadio a) := by
  unfold beginRadio
  npres_rid hst [NPres.forIn_list _ _ (by intro _ _; npres_rid hst []) _]

theorem begin_presR (a : Nat) : NPres I (begin a) := by
  unfold begin
  npres_rid hst [beginRadio_presR hst _]

/-- the step of the simultaneous induction for every function but `runOthers` -/
theorem allPres_succR (f : Nat) (ih : AllPres I f) (hro : ∀ i, NPres I (runOthers (f + 1) i)) :
    AllPres I (f + 1) := by
  refine ⟨?_, ?_, ?_, ?_, ?_, ?_, ?_, ?_, hro, ?_, ?_, ?_, ?_, ?_, ?_, ?_, ?_⟩
  · intro _; rw [rfSend.eq_2]; npres_rid hst [ih.runOthers _]
  · rw [rfResend.eq_2]; npres_rid hst [ih.runOthers _]
  · intro _; rw [txStandby.eq_2]; npres_rid hst [ih.rfResend, ih.txStandby _]
  · intro _; rw [txStandbyFor.eq_2]; npres_rid hst [ih.txStandby _]
  · intro _ _; rw [fragRetry.eq_2]; npres_rid hst [ih.txStandbyFor _, ih.fragRetry _ _]
  · intro _ _ _; rw [nodeFragLoop.eq_2]
    npres_rid hst [ih.rfSend _, ih.fragRetry _ _, ih.nodeFragLoop _ _ _]
  · intro _ _ _; rw [nodeWriteToPipe.eq_2]
    npres_rid hst [enqueueFrameBuf_presR hst, ih.rfSend _, ih.txStandbyFor _, ih.nodeFragLoop _ _ _]
  · rw [rfRead.eq_2]; npres_rid hst [ih.runOthers _]
  · intro _; rw [netUpdate.eq_2]
    npres_rid hst [ih.rfRead, ih.netUpdate _, ih.handleThis _, ih.handleOther _]
  · intro _; rw [handleThis.eq_2]
    npres_rid hst [enqueueFrameBuf_presR hst, ih.nodeWrite _ _]
  · intro _; rw [handleOther.eq_2]
    npres_rid hst [enqueueFrameBuf_presR hst, ih.nodeWrite _ _]
  · intro _; rw [ackWait.eq_2]; npres_rid hst [ih.netUpdate _, ih.ackWait _]
  · intro _ _; rw [nodeWrite.eq_2]
    npres_rid hst [ih.nodeWriteToPipe _ _ _, ih.ackWait _]
  · rw [nodeUpdate.eq_2]
    npres_rid hst [ih.netUpdate _, ih.nodeWrite _ _, ih.masterRelease _, ih.masterDhcp]
  · intro _; rw [masterRelease.eq_2]
    npres_rid hst [ih.nodeWrite _ _, begin_presR hst _]
  · rw [masterDhcp.eq_2]
    npres_rid hst [ih.nodeWrite _ _]

end ridI

/-! ### `runOthers`, and all functions together -/

section
variable {me j : Nat} {c0 : Radio} {ρ : Nat → Nat} {N : Nat}

theorem prot_switchTo {s : NetState} (hs : Prot me j c0 ρ N s) (i : Nat) (hi : i < s.nodes.length)
    (hact : i ∉ s.active) : Prot me j c0 ρ N (switchTo s i) := by
  refine ⟨?_, ?_, ?_, ?_, ?_, hs.other, hs.cfg⟩
  · show i ≠ me
    intro e; exact hact (e ▸ hs.act)
  · show i < (s.nodes.modify s.cur _).length
    rw [List.length_modify]; exact hi
  · show (s.nodes.modify s.cur _).length = N
    rw [List.length_modify]; exact hs.len
  · show me ∈ i :: s.active
    exact List.mem_cons_of_mem _ hs.act
  · intro k
    show ((s.nodes.modify s.cur _).getD k default).rf.rid = ρ k
    by_cases hk : k = s.cur
    · subst hk
      rw [getD_modify_self _ _ _ hs.has]
      exact hs.rids _
    · rw [getD_modify_ne _ _ _ _ hk]
      exact hs.rids k

theorem prot_switchBack {s se : NetState} (hs : Prot me j c0 ρ N s) (hse : Prot me j c0 ρ N se) (i : Nat)
    (hi : i < N) (hne : me ≠ i) : Prot me j c0 ρ N (switchBack se s.cur i) := by
  refine ⟨hs.cur, ?_, ?_, ?_, ?_, hs.other, hse.cfg⟩
  · show s.cur < (se.nodes.modify i _).length
    rw [List.length_modify, hse.len, ← hs.len]; exact hs.has
  · show (se.nodes.modify i _).length = N
    rw [List.length_modify]; exact hse.len
  · show me ∈ se.active.erase i
    exact (List.mem_erase_of_ne hne).2 hse.act
  · intro k
    show ((se.nodes.modify i _).getD k default).rf.rid = ρ k
    by_cases hk : k = i
    · subst hk
      rw [getD_modify_self _ _ _ (by rw [hse.len]; exact hi)]
      exact hse.rids _
    · rw [getD_modify_ne _ _ _ _ hk]
      exact hse.rids k

theorem tryCatch_ok (m : NetM Nat) (s : NetState) :
    ∃ v se, nexec (tryCatch m (fun _ => Pure.pure 0)) s = (.ok v, se) ∧ se = (nexec m s).2 := by
  rw [nexec_tryCatch]
  rcases h2 : nexec m s with ⟨r2, s2⟩
  cases r2 with
  | ok a => exact ⟨a, s2, rfl, rfl⟩
  | error e => exact ⟨0, s2, rfl, rfl⟩

theorem runOthers_prot (f i : Nat) (hU : NPres (Prot me j c0 ρ N) (nodeUpdate f))
    (hrec : NPres (Prot me j c0 ρ N) (runOthers f (i + 1))) :
    NPres (Prot me j c0 ρ N) (runOthers (f + 1) i) := by
  constructor
  intro s hs
  rw [runOthers_succ]
  simp only [nexec_bind, nexec_get, ge_iff_le]
  by_cases hlen : s.nodes.length ≤ i
  · simp only [hlen, ↓reduceIte, nexec_pure]; exact hs
  · simp only [hlen, ↓reduceIte]
    split
    · rename_i hcond
      obtain ⟨hne, hact, _, _⟩ := hcond
      have hact' : i ∉ s.active := by simpa using hact
      simp only [nexec_bind, nexec_set, nexec_get]
      have hsw := prot_switchTo hs i (by omega) hact'
      obtain ⟨v, se, hrun, hse⟩ := tryCatch_ok (nodeUpdate f) (switchTo s i)
      have hpe : Prot me j c0 ρ N se := by rw [hse]; exact hU.run _ hsw
      rw [hrun]
      simp only
      exact hrec.run _ (prot_switchBack hs hpe i (by rw [← hs.len]; omega) (fun e => hact' (e ▸ hs.act)))
    · exact hrec.run s hs

/-- **every function of the block, every fuel, every outcome keeps `Prot`** -/
theorem protAll : ∀ f, AllPres (Prot me j c0 ρ N) f := by
  intro f
  induction f with
  | zero => exact allPres_zero _
  | succ f ih =>
    exact allPres_succR prot_stable f ih (fun i => runOthers_prot f i ih.nodeUpdate (ih.runOthers _))

end

/-! ### what `runOthers` leaves of the caller -/

/-- distinct nodes drive distinct radios -/
def Distinct (s : NetState) : Prop :=
  ∀ a b, a < s.nodes.length → b < s.nodes.length → a ≠ b →
    (s.nodes.getD a default).rf.rid ≠ (s.nodes.getD b default).rf.rid

/-- the caller after other nodes ran: same node, same call stack, its record changed in the saved
    clock at most, every node on its radio, the configuration part of the caller's radio intact -/
structure Kept (s s' : NetState) : Prop where
  cur : s'.cur = s.cur
  len : s'.nodes.length = s.nodes.length
  closed : s'.closed = s.closed
  active : s'.active = s.active
  rids : ∀ k, (s'.nodes.getD k default).rf.rid = (s.nodes.getD k default).rf.rid
  node : ∃ c, curNode s' = { curNode s with clock := c }
  cfg : (s'.w.radio (curNode s).rf.rid).cfgOf = (s.w.radio (curNode s).rf.rid).cfgOf
  radios : s'.w.radios.length = s.w.radios.length

theorem Kept.refl (s : NetState) : Kept s s :=
  ⟨rfl, rfl, rfl, rfl, fun _ => rfl, ⟨(curNode s).clock, rfl⟩, rfl, rfl⟩

theorem Kept.trans {a b c : NetState} (h1 : Kept a b) (h2 : Kept b c) : Kept a c := by
  obtain ⟨c1, e1⟩ := h1.node
  obtain ⟨c2, e2⟩ := h2.node
  have hrf : (curNode b).rf = (curNode a).rf := by rw [e1]
  refine ⟨h2.cur.trans h1.cur, h2.len.trans h1.len, h2.closed.trans h1.closed, h2.active.trans h1.active,
    fun k => (h2.rids k).trans (h1.rids k), ⟨c2, by rw [e2, e1]⟩, ?_, h2.radios.trans h1.radios⟩
  have := h2.cfg
  rw [hrf] at this
  exact this.trans h1.cfg

theorem Kept.good {s s' : NetState} (h : Kept s s') (g : Good s) : Good s' :=
  ⟨by rw [h.cur, h.active]; exact g.onStack, by rw [h.cur, h.len]; exact g.exists_⟩

theorem Kept.distinct {s s' : NetState} (h : Kept s s') (d : Distinct s) : Distinct s' := by
  intro a b ha hb hab
  rw [h.rids, h.rids]
  exact d a b (by rw [← h.len]; exact ha) (by rw [← h.len]; exact hb) hab

/-- **the closed system's poll points**: whatever the other nodes do while the caller lets them run
    (every fuel, every scan position, every outcome), the caller is `Kept` -/
theorem runOthers_keeps : ∀ f i s, Good s → Distinct s → Kept s (nexec (runOthers f i) s).2 := by
  intro f
  induction f with
  | zero => intro i s _ _; rw [runOthers.eq_1]; exact Kept.refl s
  | succ f ih =>
    intro i s g d
    rw [runOthers_succ]
    simp only [nexec_bind, nexec_get, ge_iff_le]
    by_cases hlen : s.nodes.length ≤ i
    · simp only [hlen, ↓reduceIte, nexec_pure]; exact Kept.refl s
    · simp only [hlen, ↓reduceIte]
      split
      · rename_i hcond
        obtain ⟨hne, hact, _, _⟩ := hcond
        have hact' : i ∉ s.active := by simpa using hact
        have hcur_ne : s.cur ≠ i := fun e => hne e.symm
        simp only [nexec_bind, nexec_set, nexec_get]
        obtain ⟨v, se, hrun, hse⟩ := tryCatch_ok (nodeUpdate f) (switchTo s i)
        -- the record of the caller while it waits
        have hme_sw : (switchTo s i).nodes.getD s.cur default = { curNode s with clock := s.w.clock } := by
          show (s.nodes.modify s.cur _).getD s.cur default = _
          rw [getD_modify_self _ _ _ g.exists_]
          rfl
        have gsw : Good (switchTo s i) := ⟨by simp [switchTo], by simp [switchTo]; omega⟩
        -- K's frame theorem: the records of the nodes on the stack
        have hfr : Frame anyNode clockLe (switchTo s i) se := by
          rw [hse]
          exact ((frameAll f _ gsw).nodeUpdate).run _ (Frame.refl anyNode_rel clockLe_rel _)
        -- the configuration of the caller's radio
        have hp0 : Prot s.cur (curNode s).rf.rid (s.w.radio (curNode s).rf.rid).cfgOf
            (fun k => (s.nodes.getD k default).rf.rid) s.nodes.length (switchTo s i) := by
          refine ⟨hne, ?_, ?_, ?_, ?_, ?_, rfl⟩
          · show i < (s.nodes.modify s.cur _).length
            rw [List.length_modify]; omega
          · show (s.nodes.modify s.cur _).length = _
            rw [List.length_modify]
          · show s.cur ∈ i :: s.active
            exact List.mem_cons_of_mem _ g.onStack
          · intro k
            show ((s.nodes.modify s.cur _).getD k default).rf.rid = _
            by_cases hk : k = s.cur
            · subst hk
              rw [getD_modify_self _ _ _ g.exists_]
            · rw [getD_modify_ne _ _ _ _ hk]
          · intro k hk hkN
            exact d k s.cur hkN g.exists_ hk
        have hpe : Prot s.cur (curNode s).rf.rid (s.w.radio (curNode s).rf.rid).cfgOf
            (fun k => (s.nodes.getD k default).rf.rid) s.nodes.length se := by
          rw [hse]; exact ((protAll f).nodeUpdate).run _ hp0
        have hme_se : se.nodes.getD s.cur default = { curNode s with clock := s.w.clock } := by
          rw [← hme_sw]
          exact hfr.others s.cur (List.mem_cons_of_mem _ g.onStack) hcur_ne
        have hk2 : Kept s (switchBack se s.cur i) := by
          refine ⟨rfl, ?_, ?_, ?_, ?_, ?_, ?_, ?_⟩
          · show (se.nodes.modify i _).length = s.nodes.length
            rw [List.length_modify]; exact hpe.len
          · show se.closed = s.closed
            rw [hfr.closed]; rfl
          · show se.active.erase i = s.active
            rw [hfr.active]
            show (i :: s.active).erase i = s.active
            rw [List.erase_cons_head]
          · intro k
            show ((se.nodes.modify i _).getD k default).rf.rid = _
            by_cases hk : k = i
            · subst hk
              rw [getD_modify_self _ _ _ (by rw [hpe.len]; omega)]
              exact hpe.rids _
            · rw [getD_modify_ne _ _ _ _ hk]
              exact hpe.rids k
          · refine ⟨s.w.clock, ?_⟩
            show (se.nodes.modify i _).getD s.cur default = _
            rw [getD_modify_ne _ _ _ _ hcur_ne, hme_se]
          · exact hpe.cfg
          · show se.w.radios.length = s.w.radios.length
            rw [hfr.world.2]; rfl
        rw [hrun]
        simp only
        exact hk2.trans (ih (i + 1) _ (hk2.good g) (hk2.distinct d))
      · exact ih (i + 1) s g d

end Nrf.NetK
