/-
C15 — the mesh master's part of `update()` (`RF24Mesh.update`, `_dhcp`, master `release_address`)
on top of `totAll`: the lease table stays bounded, the lookup reply and the address response can be
packed, the frame the retry of `_dhcp` restores is the response.
-/
import NrfProofs.C15Total
import NrfProofs.C07Api

namespace Nrf.Net
open Nrf Rf24 Nrf.Spec Nrf.Proofs Nrf.Mesh

/-! ### the lease table -/

def TabOk (t : Mesh.Table) : Prop := ∀ p ∈ t, p.1 < 32768 ∧ p.2 < 32768

theorem tabOk_dictSet {t : Mesh.Table} (h : TabOk t) {k v : Nat} (hk : k < 32768) (hv : v < 32768) :
    TabOk (dictSet t k v) := by
  induction t with
  | nil => intro p hp; simp [dictSet] at hp; subst hp; exact ⟨hk, hv⟩
  | cons x rest ih =>
    obtain ⟨k', v'⟩ := x
    unfold dictSet
    split
    · intro p hp
      rcases List.mem_cons.mp hp with e | e
      · subst e; exact ⟨hk, hv⟩
      · exact h p (List.mem_cons_of_mem _ e)
    · intro p hp
      rcases List.mem_cons.mp hp with e | e
      · subst e; exact h _ (List.mem_cons_self ..)
      · exact ih (fun q hq => h q (List.mem_cons_of_mem _ hq)) p e

theorem tabOk_dictDel {t : Mesh.Table} (h : TabOk t) (k : Nat) : TabOk (dictDel t k) := by
  induction t with
  | nil => exact h
  | cons x rest ih =>
    obtain ⟨k', v'⟩ := x
    unfold dictDel
    split
    · exact fun q hq => h q (List.mem_cons_of_mem _ hq)
    · intro p hp
      rcases List.mem_cons.mp hp with e | e
      · subst e; exact h _ (List.mem_cons_self ..)
      · exact ih (fun q hq => h q (List.mem_cons_of_mem _ hq)) p e

theorem tabOk_setAddressGo {full : Mesh.Table} (h : TabOk full) {k v : Nat} (hk : k < 32768) (hv : v < 32768)
    (b : Bool) (t : Mesh.Table) : TabOk (setAddressGo full k v b t) := by
  induction t with
  | nil => exact tabOk_dictSet h hk hv
  | cons x rest ih =>
    obtain ⟨k', v'⟩ := x
    unfold setAddressGo
    split
    · split
      · rename_i e; rw [e]; exact tabOk_dictSet h hk hv
      · exact ih
    · split
      · exact tabOk_dictSet (tabOk_dictDel h _) hk hv
      · exact ih

theorem tabOk_setAddress {t : Mesh.Table} (h : TabOk t) {k v : Nat} (hk : k < 32768) (hv : v < 32768) :
    TabOk (setAddress t k v) := tabOk_setAddressGo h hk hv _ _

theorem tabOk_releaseScan {full : Mesh.Table} (h : TabOk full) (a : Nat) (t : Mesh.Table) :
    TabOk (releaseScan full a t).1 := by
  induction t with
  | nil => exact h
  | cons x rest ih =>
    obtain ⟨k', v'⟩ := x
    unfold releaseScan
    split
    · exact tabOk_dictDel h _
    · exact ih

theorem getAddress_bound {t : Mesh.Table} (h : TabOk t) (n lt : Nat) :
    -32768 ≤ getAddress n lt t ∧ getAddress n lt t < 32768 := by
  induction t with
  | nil => unfold getAddress; omega
  | cons x rest ih =>
    obtain ⟨k', v'⟩ := x
    have hx := h (k', v') (List.mem_cons_self ..)
    have := ih (fun q hq => h q (List.mem_cons_of_mem _ hq))
    unfold getAddress
    split
    · have := hx.1; omega
    · split
      · have := hx.2; omega
      · exact this

theorem packSH_ok {x : Int} (h : -32768 ≤ x ∧ x < 32768) : ∃ b, packSH x = .ok b ∧ b.length = 2 := by
  unfold packSH
  rw [if_pos h]
  exact ⟨_, rfl, rfl⟩

theorem lookupAddress_bound {m : Mesh.Master} (h : TabOk m.table) (n : Nat) :
    -32768 ≤ lookupAddress m n ∧ lookupAddress m n < 32768 := by
  unfold lookupAddress
  split
  · omega
  · split
    · omega
    · exact getAddress_bound h _ _

theorem lookupNodeId_bound {m : Mesh.Master} (h : TabOk m.table) (n : Nat) :
    -32768 ≤ lookupNodeId m n ∧ lookupNodeId m n < 32768 := by
  unfold lookupNodeId
  split
  · omega
  · split
    · omega
    · exact getAddress_bound h _ _

/-- the lookup reply of `update()` can be built (the guard on the length of the request is the
    code's own) -/
theorem lookupReply_ok {m : Mesh.Master} (h : TabOk m.table) (msgT : Nat) (msg : Bytes)
    (hl : lookupLongEnough msgT msg = true) :
    ∃ b, lookupReply m msgT msg = .ok b ∧ b.length = 2 := by
  unfold lookupLongEnough at hl
  unfold lookupReply
  split
  · rename_i e
    rw [if_pos e] at hl
    match msg, hl with
    | x :: rest, _ =>
      obtain ⟨b, hb, hlen⟩ := packSH_ok (lookupAddress_bound h x)
      exact ⟨b, by show (packSH (lookupAddress m x)) = _; exact hb, hlen⟩
  · rename_i e
    rw [if_neg e] at hl
    match msg, hl with
    | x :: y :: rest, _ =>
      obtain ⟨b, hb, hlen⟩ := packSH_ok (lookupNodeId_bound h (x + 256 * y))
      exact ⟨b, by show (packSH (lookupNodeId m (x + 256 * y))) = _; exact hb, hlen⟩

/-! ### `_dhcp`: the address found -/

theorem shiftLoop_le (n : Nat) : ∀ t k, t < 8 ^ n → shiftLoop t k ≤ k + 3 * n := by
  induction n with
  | zero =>
    intro t k ht
    have : t = 0 := by simpa using ht
    subst this
    unfold shiftLoop; simp
  | succ n ih =>
    intro t k ht
    unfold shiftLoop
    split
    · omega
    · have : t >>> 3 < 8 ^ n := by
        rw [Nat.shiftRight_eq_div_pow]
        have : 8 ^ (n + 1) = 8 ^ n * 8 := Nat.pow_succ ..
        omega
      have := ih (t >>> 3) (k + 3) this
      omega

theorem dhcpFind_lt (t : Mesh.Table) (r via sh : Nat) (hv : via < 4096) (hs : sh ≤ 12) :
    ∀ n, n ≤ 7 → ∀ a, dhcpFind t r via sh n = some a → a < 32768 := by
  intro n
  induction n with
  | zero => intro _ a h; cases h
  | succ i ih =>
    intro hi a h
    unfold dhcpFind at h
    have hb : via ||| ((i + 1) <<< sh) < 2 ^ 15 := by
      apply Nat.or_lt_two_pow (by omega)
      rw [Nat.shiftLeft_eq]
      have : 2 ^ sh ≤ 2 ^ 12 := Nat.pow_le_pow_right (by decide) hs
      calc (i + 1) * 2 ^ sh ≤ 7 * 2 ^ 12 := Nat.mul_le_mul (by omega) this
        _ < 2 ^ 15 := by decide
    simp only at h
    split at h
    · exact ih (by omega) a h
    · split at h
      · exact ih (by omega) a h
      · cases h; exact hb

theorem packHNat_ok {x : Nat} (h : x < 65536) : ∃ b, packHNat x = .ok b ∧ b.length = 2 := by
  unfold packHNat; rw [if_pos h]; exact ⟨_, rfl, rfl⟩

/-! ### the frame `_dhcp` restores before its retry -/

theorem le16_le16b (x : Nat) (h : x < 65536) : le16 (x % 256) (x / 256) = x := by
  unfold le16
  omega

theorem restore_frame (fr g : Frame) (t : Nat) (ht : fr.header.msgType = .int t)
    (hf : fr.header.fromNode < 4096) (hto : fr.header.toNode < 4096) (hm : fr.message.length ≤ 24) (b : Bytes)
    (hb : fr.pack = .ok b) :
    (g.unpack b).1.message = fr.message ∧ (g.unpack b).1.header.fromNode = fr.header.fromNode ∧
    (g.unpack b).1.header.toNode = fr.header.toNode ∧ (g.unpack b).1.header.msgType = .int (t &&& 0xFF) ∧
    (g.unpack b).1.header.reserved < 256 := by
  unfold Frame.pack Header.pack at hb
  rw [ht] at hb
  have e : b = le16b (fr.header.fromNode &&& 0xFFF) ++ le16b (fr.header.toNode &&& 0xFFF) ++
      le16b (fr.header.frameId &&& 0xFFFF) ++ [t &&& 0xFF, fr.header.reserved &&& 0xFF] ++ fr.message :=
    (Except.ok.inj hb).symm
  rw [e]
  have a1 : fr.header.fromNode &&& 0xFFF = fr.header.fromNode := by
    rw [and4095]; exact Nat.mod_eq_of_lt hf
  have a2 : fr.header.toNode &&& 0xFFF = fr.header.toNode := by
    rw [and4095]; exact Nat.mod_eq_of_lt hto
  rw [a1, a2]
  unfold le16b Frame.unpack Header.unpack
  refine ⟨rfl, le16_le16b _ (by omega), le16_le16b _ (by omega), rfl, ?_⟩
  show fr.header.reserved &&& 0xFF < 256
  exact Nat.lt_of_le_of_lt Nat.and_le_right (by decide)

/-! ### `_begin` keeps the invariant -/

theorem wp_and {α} {E : PyErr → NetState → Prop} {m : NetM α} {Q1 Q2 : α → NetState → Prop} {s : NetState}
    (h1 : wp E m Q1 s) (h2 : wp anyErr m Q2 s) : wp E m (fun a s' => Q1 a s' ∧ Q2 a s') s := by
  unfold wp at *
  rcases hx : nexec m s with ⟨r, s'⟩
  rw [hx] at h1 h2
  cases r
  · exact h1
  · exact ⟨h1, h2⟩

/-- nothing of the current node but its `RF24` object changed -/
def RfOnly (s s' : NetState) : Prop := s'.node = { s.node with rf := s'.node.rf }

theorem RfOnly.trans {a b c : NetState} (h1 : RfOnly a b) (h2 : RfOnly b c) : RfOnly a c := by
  unfold RfOnly at *
  calc c.node = { b.node with rf := c.node.rf } := h2
    _ = { ({ a.node with rf := b.node.rf } : Node) with rf := c.node.rf } := by rw [← h1]
    _ = { a.node with rf := c.node.rf } := rfl

theorem n_prog_any {α} {m : DrvM α} (hs : SafeProg m) {Lm tt rt : Nat} {s : NetState} (hti : TI Lm tt rt s)
    {Q : α → NetState → Prop}
    (hQ : ∀ a s', TI Lm tt rt s' → NP s s' → RfOnly s s' → Q a s') : wp anyErr (liftRf m) Q s := by
  apply n_prog hs hti
  rw [wp_any_iff]
  intro a s' _
  exact hQ a s'

theorem ti_beginRadio {Lm tt rt : Nat} {s : NetState} (hti : TI Lm tt rt s) (nAddr : Nat) :
    wp anyErr (beginRadio nAddr) (fun _ s' => TI Lm tt rt s' ∧ NP s s' ∧ RfOnly s s') s := by
  unfold beginRadio
  simp only [wp_bind, wp_pure, pipeAddr, wp_getNode, forIn, List.forIn'_cons, List.forIn'_nil]
  apply n_prog_any (safe_setListen _) hti; intro _ s1 t1 np1 r1
  apply n_prog_any (safe_setAutoAck _) t1; intro _ s2 t2 np2 r2
  apply n_prog_any (safe_setAutoRetries _ _) t2; intro _ s3 t3 np3 r3
  apply wp_liftPy_any; intro x0 _
  apply n_prog_any (safe_openRxPipe 0 (by decide) _) t3; intro _ s4 t4 np4 r4
  apply wp_liftPy_any; intro x1 _
  apply n_prog_any (safe_openRxPipe 1 (by decide) _) t4; intro _ s5 t5 np5 r5
  apply wp_liftPy_any; intro x2 _
  apply n_prog_any (safe_openRxPipe 2 (by decide) _) t5; intro _ s6 t6 np6 r6
  apply wp_liftPy_any; intro x3 _
  apply n_prog_any (safe_openRxPipe 3 (by decide) _) t6; intro _ s7 t7 np7 r7
  apply wp_liftPy_any; intro x4 _
  apply n_prog_any (safe_openRxPipe 4 (by decide) _) t7; intro _ s8 t8 np8 r8
  apply wp_liftPy_any; intro x5 _
  apply n_prog_any (safe_openRxPipe 5 (by decide) _) t8; intro _ s9 t9 np9 r9
  apply n_prog_any (safe_setListen _) t9; intro _ s10 t10 np10 r10
  exact ⟨t10, ((((((((np1.trans np2).trans np3).trans np4).trans np5).trans np6).trans np7).trans np8).trans np9).trans np10,
    ((((((((r1.trans r2).trans r3).trans r4).trans r5).trans r6).trans r7).trans r8).trans r9).trans r10⟩

/-- `self._addr = …` of `_begin` to another node of the tree -/
theorem TI.setA {Lm tt rt : Nat} {s : NetState} (h : TI Lm tt rt s) (a' : NodeAddr) (ht : TreeAt a') :
    TI Lm tt rt (s.setNode fun n => { n with a := a' }) ∧ NP s (s.setNode fun n => { n with a := a' }) := by
  have hn := NetState.node_setNode s (fun n => { n with a := a' }) h.cur
  have hd : (s.setNode fun n => { n with a := a' }).drv = s.drv := NetState.drv_setNode _ h.cur rfl
  have hrx : (s.setNode fun n => { n with a := a' }).rxq = s.rxq := by
    unfold NetState.rxq; rw [hn]; rfl
  refine ⟨?_, ⟨Nat.le_refl _, ?_, fun hh => by rw [hn]; exact hh, by rw [hn]⟩⟩
  · exact
      { open_ := h.open_
        cur := by simpa using h.cur
        good := by rw [hn]; exact h.good
        tree := by rw [hn]; exact ht
        tt := by rw [hn]; exact h.tt
        rt := by rw [hn]; exact h.rt
        dyn := by rw [hn]; exact h.dyn
        feat := by rw [hn]; exact h.feat
        txs := by rw [hd]; exact h.txs
        msg := by rw [hn]; exact h.msg
        rx := by rw [hrx]; exact h.rx
        arr := by rw [hn]; exact h.arr
        tab := by rw [hn]; exact h.tab }
  · unfold NetState.M; rw [hrx, hn]; exact Nat.le_refl _

/-- `self._do_dhcp = …` -/
theorem TI.setDd {Lm tt rt : Nat} {s : NetState} (h : TI Lm tt rt s) (b : Bool) :
    TI Lm tt rt (s.setNode fun n => { n with doDhcp := b }) ∧ (s.setNode fun n => { n with doDhcp := b }).M = s.M := by
  have hn := NetState.node_setNode s (fun n => { n with doDhcp := b }) h.cur
  have hd : (s.setNode fun n => { n with doDhcp := b }).drv = s.drv := NetState.drv_setNode _ h.cur rfl
  have hrx : (s.setNode fun n => { n with doDhcp := b }).rxq = s.rxq := by
    unfold NetState.rxq; rw [hn]; rfl
  refine ⟨?_, ?_⟩
  · exact
      { open_ := h.open_
        cur := by simpa using h.cur
        good := by rw [hn]; exact h.good
        tree := by rw [hn]; exact h.tree
        tt := by rw [hn]; exact h.tt
        rt := by rw [hn]; exact h.rt
        dyn := by rw [hn]; exact h.dyn
        feat := by rw [hn]; exact h.feat
        txs := by rw [hd]; exact h.txs
        msg := by rw [hn]; exact h.msg
        rx := by rw [hrx]; exact h.rx
        arr := by rw [hn]; exact h.arr
        tab := by rw [hn]; exact h.tab }
  · unfold NetState.M; rw [hrx, hn]

theorem ti_begin {Lm tt rt : Nat} {s : NetState} (hti : TI Lm tt rt s) {ds : List Nat} (hn : IsNode ds) :
    wp anyErr (begin (val ds))
      (fun _ s' => TI Lm tt rt s' ∧ NP s s' ∧ s'.node.frameBuf = s.node.frameBuf ∧ s'.node.nodeId = s.node.nodeId) s := by
  unfold begin
  rw [wp_bind]
  refine (ti_beginRadio hti (val ds)).post (fun _ s1 p1 => ?_)
  obtain ⟨t1, np1, r1⟩ := p1
  rw [begin_node hn]
  simp only [wp_modNode]
  obtain ⟨t2, np2⟩ := t1.setA _ (treeAt_begin hn)
  refine ⟨t2, np1.trans np2, ?_, ?_⟩
  · rw [NetState.node_setNode _ _ t1.cur]
    show s1.node.frameBuf = _
    rw [r1]
  · rw [NetState.node_setNode _ _ t1.cur]
    show s1.node.nodeId = _
    rw [r1]

/-! ### the master's calls -/

section
variable (C : C15Contracts) {p0 a1 : Bytes} {aN : List Nat} {Lm tt rt : Nat} (hLm : 24 ≤ Lm)

omit C hLm in
theorem lt_st_modNode {v : Nat} {s0 s : NetState} (h : LT p0 a1 aN Lm tt rt v s0 s) (g : Node → Node)
    (hf : (g s.node).cfg = s.node.cfg ∧ (g s.node).a = s.node.a ∧ (g s.node).kind = s.node.kind ∧
      (g s.node).rf = s.node.rf)
    (hf2 : (g s.node).txTimeout = s.node.txTimeout ∧ (g s.node).routeTimeout = s.node.routeTimeout ∧
      (g s.node).arrivals = s.node.arrivals)
    (hm : (g s.node).frameBuf.message.length ≤ Lm)
    (ht : ∀ p ∈ (g s.node).dhcp, p.1 < 32768 ∧ p.2 < 32768)
    (hdd : s.node.doDhcp = false → (g s.node).doDhcp = false := by exact id)
    (hnid : (g s.node).nodeId = s.node.nodeId := by exact rfl)
    {E : PyErr → NetState → Prop} {Q : Unit → NetState → Prop}
    (hQ : ∀ s', LT p0 a1 aN Lm tt rt v s0 s' → NP s s' → s'.node = g s.node → Q () s') :
    wp E (modNode g) Q s := by
  rw [wp_modNode]
  obtain ⟨m1, np1, n1⟩ := lt_setNode h g hf hf2 hm ht hdd hnid
  exact hQ _ m1 np1 n1

include C hLm in
theorem t_masterDhcp (f : Nat) (s0 s : NetState) (h : LT p0 a1 aN Lm tt rt 0x3E s0 s)
    (hok : s.node.doDhcp = true → HdrOk s.node) (hf : bNW Lm tt rt s.M + 3 ≤ f + 1) :
    wp noErr (masterDhcp (f + 1))
      (fun _ s' => LT p0 a1 aN Lm tt rt 0x3E s0 s' ∧ NP s s' ∧ s'.node.doDhcp = false) s := by
  have ih := totAll C hLm (p0 := p0) (a1 := a1) (aN := aN) (tt := tt) (rt := rt) f
  rw [masterDhcp]
  simp only [wp_bind, wp_getNode]
  split
  · rename_i hd
    exact ⟨h, NP.refl s, by simpa using hd⟩
  rename_i hd
  have hd' : s.node.doDhcp = true := by simpa using hd
  have hok := hok hd'
  have hfrom : s.node.frameBuf.header.fromNode < 4096 := isValid_lt hok.2.1
  rw [wp_bind]
  apply lt_st_modNode h _ ⟨rfl, rfl, rfl, rfl⟩ ⟨rfl, rfl, rfl⟩ h.2.msg h.2.tab (fun _ => rfl); intro s1 l1 np1 n1
  have d1 : s1.node.doDhcp = false := by rw [n1]
  split
  · exact ⟨l1, np1, d1⟩
  rename_i newAddr hfind
  have hnew : newAddr < 32768 := by
    refine dhcpFind_lt _ _ _ _ ?_ ?_ _ ?_ _ hfind
    · split <;> omega
    · split
      · have := shiftLoop_le 4 s.node.frameBuf.header.fromNode 0 hfrom
        omega
      · omega
    · unfold MESH_MAX_CHILDREN; split <;> omega
  simp only [wp_bind]
  have hres : s.node.frameBuf.header.reserved < 256 := hok.2.2.2.1
  have hres1 : s1.node.frameBuf.header.reserved = s.node.frameBuf.header.reserved := by rw [n1]
  apply lt_st_modNode l1 _ ⟨rfl, rfl, rfl, rfl⟩ ⟨rfl, rfl, rfl⟩ l1.2.msg
    (by exact tabOk_setAddress l1.2.tab (Nat.lt_trans hres (by decide)) hnew); intro s2 l2 np2 n2
  apply lt_st_setHdr l2; intro s3 l3 np3 n3
  obtain ⟨msg, hmsg, hlen⟩ := packHNat_ok (x := newAddr) (by omega)
  rw [hmsg, wp_liftPy_ok]
  apply lt_st_modNode l3 _ ⟨rfl, rfl, rfl, rfl⟩ ⟨rfl, rfl, rfl⟩ (by show msg.length ≤ Lm; omega) l3.2.tab
  intro s4 l4 np4 n4
  have N14 : NP s1 s4 := (np2.trans np3).trans np4
  have NP4 : NP s s4 := np1.trans N14
  have hM4 := NP4.m
  have hfb4 : s4.node.frameBuf =
      { header := { fromNode := s.node.frameBuf.header.fromNode, toNode := s.node.frameBuf.header.fromNode,
                    frameId := s.node.frameBuf.header.frameId, msgType := .int MESH_ADDR_RESPONSE,
                    reserved := s.node.frameBuf.header.reserved },
        message := msg } := by rw [n4, n3, n2, n1]; rfl
  have hok4 : HdrOk s4.node := by
    unfold HdrOk; rw [hfb4]
    exact ⟨⟨_, rfl⟩, hok.2.1, hok.2.1, hres, by show msg.length ≤ 24; omega⟩
  have hto4 : s4.node.frameBuf.header.toNode = s.node.frameBuf.header.fromNode := by rw [hfb4]
  have hty4 : s4.node.frameBuf.header.msgType = .int MESH_ADDR_RESPONSE := by rw [hfb4]
  have hcfg4 : s4.node.cfg = s.node.cfg := by rw [n4, n3, n2, n1]
  split
  · -- through the relaying node
    simp only [wp_bind, wp_getNode]
    obtain ⟨b, hb, _⟩ := pack_ok s4.node.frameBuf _ hty4
    rw [hb, wp_liftPy_ok, hto4]
    have hwd : ∀ c, WdOk c s.node.frameBuf.header.fromNode TX_NORMAL := fun c =>
      ⟨fun _ => hok.2.1, fun hh => absurd hh (by decide)⟩
    refine (ih.nodeWrite 0x3E _ _ s0 s4 (lt_midF l4) hok4 (hwd _) (by unfold bNW bNW0 at *; omega)
      (fun _ => by unfold bNW bAW bNU at *; omega)).post (fun r s5 p5 => ?_)
    obtain ⟨l5, np5, _⟩ := p5
    have hM5 := np5.m
    split
    · have rf := restore_frame s4.node.frameBuf s5.node.frameBuf _ hty4 (by rw [hfb4]; exact hfrom)
        (by rw [hfb4]; exact hfrom) (by rw [hfb4]; show msg.length ≤ 24; omega) b hb
      simp only [wp_bind, wp_pure]
      apply lt_st_modNode l5 _ ⟨rfl, rfl, rfl, rfl⟩ ⟨rfl, rfl, rfl⟩
        (by show (s5.node.frameBuf.unpack b).1.message.length ≤ Lm; rw [rf.1, hfb4]; show msg.length ≤ Lm; omega)
        l5.2.tab
      intro s6 l6 np6 n6
      have hM6 := np6.m
      have hok6 : HdrOk s6.node := by
        unfold HdrOk; rw [n6]
        refine ⟨⟨_, rf.2.2.2.1⟩, ?_, ?_, rf.2.2.2.2, ?_⟩
        · show isValid (s5.node.frameBuf.unpack b).1.header.fromNode = true
          rw [rf.2.1, hfb4]; exact hok.2.1
        · show isValid (s5.node.frameBuf.unpack b).1.header.toNode = true
          rw [rf.2.2.1, hfb4]; exact hok.2.1
        · show (s5.node.frameBuf.unpack b).1.message.length ≤ 24
          rw [rf.1, hfb4]; show msg.length ≤ 24; omega
      refine (ih.nodeWrite 0x3E _ _ s0 s6 (lt_midF l6) hok6 (hwd _) (by unfold bNW bNW0 at *; omega)
        (fun _ => by unfold bNW bAW bNU at *; omega)).post (fun r s7 p7 => ?_)
      exact ⟨p7.1, ((NP4.trans np5).trans np6).trans p7.2.1, (((N14.trans np5).trans np6).trans p7.2.1).dd d1⟩
    · exact ⟨l5, NP4.trans np5, (N14.trans np5).dd d1⟩
  · -- straight to the unassigned node
    rename_i hne
    have hdef : s.node.frameBuf.header.fromNode = NETWORK_DEFAULT_ADDR := Decidable.not_not.mp hne
    simp only [wp_bind, wp_getNode]
    rw [hto4, hdef]
    have hwd : WdOk s4.node.cfg NETWORK_DEFAULT_ADDR TX_PHYSICAL :=
      ⟨fun hh => absurd hh (by decide), fun _ => by
        have : NETWORK_DEFAULT_ADDR = val [4, 4, 4, 4] := by decide
        rw [this]; exact pa_tree l4.2.good (by decide) (by decide)⟩
    refine (ih.nodeWrite 0x3E _ _ s0 s4 (lt_midF l4) hok4 hwd (by unfold bNW bNW0 at *; omega)
      (fun hn => absurd (noWait_of_st (by decide)) hn)).post (fun r s5 p5 => ?_)
    exact ⟨p5.1, NP4.trans p5.2.1, (N14.trans p5.2.1).dd d1⟩

/-- the invariant of `update()`: the node listens on its addresses (`C07`), and `TI` -/
def UpdInv (Lm tt rt : Nat) (s : NetState) : Prop :=
  ∃ p0 a1 aN, AddrOf s.node.cfg s.node.a p0 a1 aN ∧ LT p0 a1 aN Lm tt rt 0x3E s s

omit C hLm in
theorem updInv_of_lt {s0 s s' : NetState} (ha : AddrOf s.node.cfg s.node.a p0 a1 aN) (hs : NFr s0 s)
    (h' : LT p0 a1 aN Lm tt rt 0x3E s0 s') : UpdInv Lm tt rt s' := by
  refine ⟨p0, a1, aN, ?_, ⟨h'.1.1, NFr.refl s'⟩, h'.2⟩
  rw [h'.1.2.cfg, h'.1.2.a, ← hs.cfg, ← hs.a]
  exact ha

include C hLm in
theorem t_masterRelease (f : Nat) (s0 s : NetState) (address : Nat) (h : LT p0 a1 aN Lm tt rt 0x3E s0 s)
    (ha : AddrOf s.node.cfg s.node.a p0 a1 aN) (hok : HdrOk s.node) (hf : bNW0 Lm tt + 1 ≤ f + 1) :
    wp noErr (masterRelease (f + 1) address)
      (fun _ s' => UpdInv Lm tt rt s' ∧ NP s s' ∧ HdrOk s'.node ∧ s'.node.kind = s.node.kind) s := by
  have ih := totAll C hLm (p0 := p0) (a1 := a1) (aN := aN) (tt := tt) (rt := rt) f
  have hk : ∀ s', LT p0 a1 aN Lm tt rt 0x3E s0 s' → s'.node.kind = s.node.kind := fun s' h' => by
    rw [h'.1.2.kind, h.1.2.kind]
  rw [masterRelease]
  split
  · simp only [wp_bind, wp_getNode]
    split
    · simp only [wp_bind]
      apply lt_st_setHdr h; intro s1 l1 np1 n1
      apply lt_st_modNode l1 _ ⟨rfl, rfl, rfl, rfl⟩ ⟨rfl, rfl, rfl⟩ (Nat.zero_le _) l1.2.tab; intro s2 l2 np2 n2
      have hfb2 : s2.node.frameBuf =
          { header := { fromNode := s.node.a.addr, toNode := 0, frameId := s.node.frameBuf.header.frameId,
                        msgType := .int MESH_ADDR_RELEASE, reserved := s.node.frameBuf.header.reserved },
            message := [] } := by rw [n2, n1]; rfl
      have hok2 : HdrOk s2.node := by
        unfold HdrOk; rw [hfb2]
        exact ⟨⟨_, rfl⟩, treeAt_valid h.2.tree, isValid_zero, hok.2.2.2.1, Nat.zero_le _⟩
      have hnw : NoWait TX_NORMAL s2.node.frameBuf.header.ty := by
        rw [hfb2]
        show NoWait TX_NORMAL MESH_ADDR_RELEASE
        exact noWait_of_ty (by decide)
      have hwd : WdOk s2.node.cfg 0 TX_NORMAL := ⟨fun _ => isValid_zero, fun hh => absurd hh (by decide)⟩
      refine (ih.nodeWrite 0x3E _ _ s0 s2 (lt_midF l2) hok2 hwd (by omega) (fun hn => absurd hnw hn)).post
        (fun r s3 p3 => ?_)
      obtain ⟨l3, np3, hk3⟩ := p3
      have hok3 := hk3 hnw
      split
      · -- the master abandons address 0
        have hdef : NETWORK_DEFAULT_ADDR = val [4, 4, 4, 4] := by decide
        rw [hdef]
        have hn4 : IsNode [4, 4, 4, 4] := by decide
        refine (wp_and (n_begin (Q := fun _ s' => NodeListens s' ∧ NFr0 s3 s') l3.1.1.1 l3.1.1.2.1
          l3.1.1.2.2.toMid.toBase l3.2.good hn4 (fun s' nl fr _ => ⟨nl, fr⟩)) (ti_begin l3.2 hn4)).post
          (fun _ s4 p4 => ?_)
        obtain ⟨⟨⟨q0, q1, qN, ha4, ls4⟩, fr4⟩, t4, np4, hfb4, _⟩ := p4
        refine ⟨⟨q0, q1, qN, ha4, ⟨ls4, NFr.refl s4⟩, t4⟩, ((np1.trans np2).trans np3).trans np4, ?_, ?_⟩
        · unfold HdrOk; rw [hfb4]; exact hok3
        · rw [fr4.kind]; exact hk s3 l3
      · exact ⟨updInv_of_lt ha h.1.2 l3, (np1.trans np2).trans np3, hok3, hk s3 l3⟩
    · exact ⟨updInv_of_lt ha h.1.2 h, NP.refl s, hok, rfl⟩
  · apply lt_st_modNode h _ ⟨rfl, rfl, rfl, rfl⟩ ⟨rfl, rfl, rfl⟩ h.2.msg
      (by exact tabOk_releaseScan h.2.tab _ _)
    intro s1 l1 np1 n1
    exact ⟨updInv_of_lt ha h.1.2 l1, np1, by unfold HdrOk; rw [n1]; exact hok, hk s1 l1⟩

include C hLm in
theorem t_masterTail (f msgT : Nat) (n : Node) (s0 s : NetState) (h : LT p0 a1 aN Lm tt rt 0x3E s0 s)
    (ha : AddrOf s.node.cfg s.node.a p0 a1 aN) (hs : NFr s0 s)
    (hnid : s.node.nodeId = n.nodeId) (hfb : s.node.frameBuf = n.frameBuf)
    (hok : msgT ≠ 0 → HdrOk s.node) (hdd : s.node.doDhcp = true → msgT = MESH_ADDR_REQUEST)
    (hf : bNW Lm tt rt s.M + 3 ≤ f + 1) :
    wp noErr (masterTail (f + 1) msgT n)
      (fun _ s' => UpdInv Lm tt rt s' ∧ s'.M ≤ s.M ∧ s.w.clock ≤ s'.w.clock ∧ s'.node.kind = s.node.kind ∧
        s'.node.nodeId = s.node.nodeId ∧ (n.nodeId = 0 → s'.node.doDhcp = false)) s := by
  have ih := totAll C hLm (p0 := p0) (a1 := a1) (aN := aN) (tt := tt) (rt := rt) (f + 1)
  have hk : ∀ s', LT p0 a1 aN Lm tt rt 0x3E s0 s' → s'.node.kind = s.node.kind := fun s' h' => by
    rw [h'.1.2.kind, h.1.2.kind]
  unfold masterTail
  split
  · simp only [wp_bind]
    split
    · -- a lookup
      rename_i hlk
      have hm0 : msgT ≠ 0 := by
        rcases hlk.1 with e | e <;> rw [e] <;> decide
      have hnr : msgT ≠ MESH_ADDR_REQUEST := by
        rcases hlk.1 with e | e <;> rw [e] <;> decide
      have hd : s.node.doDhcp = false := by
        cases hx : s.node.doDhcp with
        | false => rfl
        | true => exact absurd (hdd hx) hnr
      have hok := hok hm0
      simp only [wp_bind]
      apply lt_st_setHdr h; intro s1 l1 np1 n1
      simp only [wp_getNode]
      have hmsg1 : s1.node.frameBuf.message = n.frameBuf.message := by rw [n1, ← hfb]
      obtain ⟨msg, hmsg, hlen⟩ := lookupReply_ok (m := { table := s1.node.dhcp, abandoned := decide (s1.node.a.addr = NETWORK_DEFAULT_ADDR) })
        l1.2.tab msgT s1.node.frameBuf.message (by rw [hmsg1]; exact hlk.2)
      unfold masterLookupReply
      rw [hmsg, wp_liftPy_ok]
      apply lt_st_modNode l1 _ ⟨rfl, rfl, rfl, rfl⟩ ⟨rfl, rfl, rfl⟩ (by show msg.length ≤ Lm; omega) l1.2.tab
      intro s2 l2 np2 n2
      have hfb2 : s2.node.frameBuf =
          { header := { s.node.frameBuf.header with toNode := s.node.frameBuf.header.fromNode }, message := msg } := by
        rw [n2, n1]
      have hok2 : HdrOk s2.node := by
        unfold HdrOk; rw [hfb2]
        exact ⟨hok.1, hok.2.1, hok.2.1, hok.2.2.2.1, by show msg.length ≤ 24; omega⟩
      have hto2 : s2.node.frameBuf.header.toNode = s.node.frameBuf.header.fromNode := by rw [hfb2]
      rw [hto2]
      have hM2 := (np1.trans np2).m
      refine (ih.nodeWrite 0x3E _ _ s0 s2 (lt_midF l2) hok2 ⟨fun _ => hok.2.1, fun hh => absurd hh (by decide)⟩
        (by unfold bNW bNW0 at *; omega) (fun _ => by unfold bNW bAW bNU at *; omega)).post (fun r s3 p3 => ?_)
      obtain ⟨l3, np3, _⟩ := p3
      have NP3 : NP s s3 := (np1.trans np2).trans np3
      have hd3 : s3.node.doDhcp = false := NP3.dd hd
      have hM3 := NP3.m
      refine (t_masterDhcp C hLm f s0 s3 l3 (fun hh => by rw [hd3] at hh; cases hh)
        (by unfold bNW bAW bNU at *; omega)).post (fun _ s4 p4 => ?_)
      have NP4 := NP3.trans p4.2.1
      exact ⟨updInv_of_lt ha hs p4.1, NP4.m, NP4.clock, hk s4 p4.1, NP4.nid, fun _ => p4.2.2⟩
    · split
      · -- a release
        rename_i _ hrel
        have hm0 : msgT ≠ 0 := by rw [hrel]; decide
        have hnr : msgT ≠ MESH_ADDR_REQUEST := by rw [hrel]; decide
        have hd : s.node.doDhcp = false := by
          cases hx : s.node.doDhcp with
          | false => rfl
          | true => exact absurd (hdd hx) hnr
        simp only [wp_bind, wp_getNode]
        refine (t_masterRelease C hLm f s0 s _ h ha (hok hm0) (by unfold bNW bNW0 at *; omega)).post (fun _ s3 p3 => ?_)
        obtain ⟨⟨q0, q1, qN, ha3, l3⟩, np3, hok3, hk3⟩ := p3
        have hM3 := np3.m
        refine (t_masterDhcp C hLm f s3 s3 l3 (fun _ => hok3)
          (by unfold bNW bAW bNU at *; omega)).post (fun _ s4 p4 => ?_)
        have NP4 := np3.trans p4.2.1
        refine ⟨updInv_of_lt ha3 (NFr.refl s3) p4.1, NP4.m, NP4.clock, ?_, NP4.nid, fun _ => p4.2.2⟩
        rw [p4.1.1.2.kind, hk3]
      · -- anything else
        rename_i hnl hnrel
        have hok' : s.node.doDhcp = true → HdrOk s.node := fun hx => hok (by rw [hdd hx]; decide)
        rw [wp_bind]
        refine (t_masterDhcp C hLm f s0 s h hok' hf).post (fun _ s4 p4 => ?_)
        rw [wp_pure]
        exact ⟨updInv_of_lt ha hs p4.1, p4.2.1.m, p4.2.1.clock, hk s4 p4.1, p4.2.1.nid, fun _ => p4.2.2⟩
  · rename_i hnz
    exact ⟨updInv_of_lt ha hs h, Nat.le_refl _, Nat.le_refl _, rfl, rfl, fun h0 => absurd h0 hnz⟩

include C hLm in
theorem t_nodeUpdate2 (f : Nat) (s : NetState) (hu : UpdInv Lm tt rt s)
    (hdd : s.node.kind = .meshMaster → s.node.nodeId = 0 → s.node.doDhcp = false)
    (hf : bUP Lm tt rt s.M ≤ f + 2) :
    wp noErr (nodeUpdate (f + 2))
      (fun _ s' => UpdInv Lm tt rt s' ∧ s'.M ≤ s.M ∧ s.w.clock ≤ s'.w.clock ∧ s'.node.kind = s.node.kind ∧
        s'.node.nodeId = s.node.nodeId ∧
        (s'.node.kind = .meshMaster → s'.node.nodeId = 0 → s'.node.doDhcp = false)) s := by
  obtain ⟨p0, a1, aN, ha, h⟩ := hu
  have ih := totAll C hLm (p0 := p0) (a1 := a1) (aN := aN) (tt := tt) (rt := rt) (f + 1)
  rw [nodeUpdate_eq]
  simp only [wp_bind]
  refine (ih.netUpdate 0 s s h (fun hh => absurd rfl hh) (by unfold bUP bNW bAW at hf; omega)).post
    (fun msgT s1 p1 => ?_)
  obtain ⟨l1, np1, _, hk1⟩ := p1
  have hM1 := np1.m
  have ha1 : AddrOf s1.node.cfg s1.node.a p0 a1 aN := by rw [l1.1.2.cfg, l1.1.2.a]; exact ha
  simp only [wp_getNode]
  split
  · rename_i hkind
    exact ⟨updInv_of_lt ha (NFr.refl s) l1, np1.m, np1.clock, l1.1.2.kind, np1.nid,
      fun hk => absurd hk hkind⟩
  rename_i hkind
  have hkm : s.node.kind = .meshMaster := by rw [← l1.1.2.kind]; exact Decidable.not_not.mp hkind
  have fin : ∀ s2 : NetState, s2.M ≤ s1.M → s1.w.clock ≤ s2.w.clock → s2.node.kind = s1.node.kind →
      s2.node.nodeId = s1.node.nodeId → ∀ s', (UpdInv Lm tt rt s' ∧ s'.M ≤ s2.M ∧ s2.w.clock ≤ s'.w.clock ∧
        s'.node.kind = s2.node.kind ∧ s'.node.nodeId = s2.node.nodeId ∧ (s1.node.nodeId = 0 → s'.node.doDhcp = false)) →
      (UpdInv Lm tt rt s' ∧ s'.M ≤ s.M ∧ s.w.clock ≤ s'.w.clock ∧ s'.node.kind = s.node.kind ∧
        s'.node.nodeId = s.node.nodeId ∧
        (s'.node.kind = .meshMaster → s'.node.nodeId = 0 → s'.node.doDhcp = false)) := by
    intro s2 m2 c2 k2 i2 s' p'
    obtain ⟨u, m, c, k, i, d⟩ := p'
    refine ⟨u, Nat.le_trans m (Nat.le_trans m2 np1.m), Nat.le_trans np1.clock (Nat.le_trans c2 c),
      by rw [k, k2, l1.1.2.kind], by rw [i, i2, np1.nid], fun _ hz => d ?_⟩
    rw [← i2, ← i]; exact hz
  split
  · -- `_do_dhcp = True`
    rename_i hreq
    rw [wp_bind, wp_modNode]
    obtain ⟨t2, hM2⟩ := l1.2.setDd true
    have hn2 := NetState.node_setNode s1 (fun n => { n with doDhcp := true }) l1.2.cur
    have l2 : LT p0 a1 aN Lm tt rt 0x3E s (s1.setNode fun n => { n with doDhcp := true }) :=
      ⟨(stable_lstF 0x3E s).setNode s1 _ l1.1 ⟨rfl, rfl, rfl, rfl⟩, t2⟩
    refine (t_masterTail C hLm f msgT s1.node s _ l2 (by rw [hn2]; exact ha1) l2.1.2 (by rw [hn2]) (by rw [hn2])
      (fun hm => by unfold HdrOk; rw [hn2]; exact hk1 hm) (fun _ => hreq.1)
      (by rw [hM2]; unfold bUP bNW bAW bNU at *; omega)).post (fun _ s' p' => ?_)
    exact fin _ (Nat.le_of_eq hM2) (Nat.le_refl _) (by rw [hn2]) (by rw [hn2]) s' p'
  · rename_i hreq
    have hd1 : s1.node.nodeId = 0 → s1.node.doDhcp = false := fun hz =>
      np1.dd (hdd hkm (by rw [← np1.nid]; exact hz))
    by_cases hz : s1.node.nodeId = 0
    · refine (t_masterTail C hLm f msgT s1.node s s1 l1 ha1 l1.1.2 rfl rfl hk1
        (fun hx => by rw [hd1 hz] at hx; cases hx)
        (by unfold bUP bNW bAW bNU at *; omega)).post (fun _ s' p' => ?_)
      exact fin s1 (Nat.le_refl _) (Nat.le_refl _) rfl rfl s' p'
    · unfold masterTail
      rw [if_neg hz, wp_pure]
      refine ⟨updInv_of_lt ha (NFr.refl s) l1, np1.m, np1.clock, l1.1.2.kind, np1.nid, fun _ hz' => absurd hz' hz⟩

include C hLm in
/-- `update()` of any node class returns, with the invariant restored, if the fuel covers the
    explicit bound `bUP` in the number of frames that can still be read -/
theorem t_nodeUpdate (f : Nat) (s : NetState) (hu : UpdInv Lm tt rt s)
    (hdd : s.node.kind = .meshMaster → s.node.nodeId = 0 → s.node.doDhcp = false)
    (hf : bUP Lm tt rt s.M ≤ f) :
    wp noErr (nodeUpdate f)
      (fun _ s' => UpdInv Lm tt rt s' ∧ s'.M ≤ s.M ∧ s.w.clock ≤ s'.w.clock ∧ s'.node.kind = s.node.kind ∧
        s'.node.nodeId = s.node.nodeId ∧
        (s'.node.kind = .meshMaster → s'.node.nodeId = 0 → s'.node.doDhcp = false)) s := by
  have h6 : 6 ≤ bUP Lm tt rt s.M := by unfold bUP; omega
  obtain ⟨g, rfl⟩ : ∃ g, f = g + 2 := ⟨f - 2, by omega⟩
  exact t_nodeUpdate2 C hLm g s hu hdd hf

end

end Nrf.Net
