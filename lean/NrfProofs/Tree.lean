/-
The value of octal digit lists (`val`) against list operations, and the bridge from tree nodes to
the arithmetic hypotheses of `NrfProofs/AddrNum.lean`.
-/
import NrfProofs.AddrNum

namespace Nrf.Proofs
open Nrf.Net Nrf.Spec

/-- all digits are octal digits -/
def Lt8 (ds : List Nat) : Prop := ∀ x ∈ ds, x < 8

theorem digitsOk_lt8 {ds : List Nat} (h : DigitsOk ds) : Lt8 ds :=
  fun x hx => by have := h x hx; omega

theorem lt8_cons {d : Nat} {ds : List Nat} : Lt8 (d :: ds) ↔ d < 8 ∧ Lt8 ds := by
  simp [Lt8]

theorem lt8_take {ds : List Nat} (h : Lt8 ds) (k : Nat) : Lt8 (ds.take k) :=
  fun x hx => h x (List.mem_of_mem_take hx)

theorem digitsOk_take {ds : List Nat} (h : DigitsOk ds) (k : Nat) : DigitsOk (ds.take k) :=
  fun x hx => h x (List.mem_of_mem_take hx)

theorem digitsOk_dropLast {ds : List Nat} (h : DigitsOk ds) : DigitsOk ds.dropLast := by
  rw [List.dropLast_eq_take]; exact digitsOk_take h _

theorem isNode_take {ds : List Nat} (h : IsNode ds) (k : Nat) : IsNode (ds.take k) :=
  ⟨digitsOk_take h.1 k, by have := h.2; simp [List.length_take]; omega⟩

theorem isNode_dropLast {ds : List Nat} (h : IsNode ds) : IsNode ds.dropLast := by
  rw [List.dropLast_eq_take]; exact isNode_take h _

theorem val_lt {ds : List Nat} (h : Lt8 ds) : val ds < 8 ^ ds.length := by
  induction ds with
  | nil => simp [val]
  | cons d ds ih =>
    rw [lt8_cons] at h
    have := ih h.2
    simp only [val_cons, List.length_cons, Nat.pow_succ]
    omega

theorem val_take {ds : List Nat} (h : Lt8 ds) (k : Nat) : val (ds.take k) = val ds % 8 ^ k := by
  induction ds generalizing k with
  | nil => simp [val]
  | cons d ds ih =>
    rw [lt8_cons] at h
    cases k with
    | zero => simp [val, Nat.mod_one]
    | succ k =>
      simp only [List.take_succ_cons, val_cons, ih h.2 k]
      rw [Nat.pow_succ, Nat.mul_comm (8 ^ k) 8, Nat.mod_mul]
      have h1 : (d + 8 * val ds) % 8 = d := by omega
      have h2 : (d + 8 * val ds) / 8 = val ds := by omega
      rw [h1, h2]

theorem val_drop {ds : List Nat} (h : Lt8 ds) (k : Nat) : val (ds.drop k) = val ds / 8 ^ k := by
  induction ds generalizing k with
  | nil => simp [val]
  | cons d ds ih =>
    rw [lt8_cons] at h
    cases k with
    | zero => simp
    | succ k =>
      simp only [List.drop_succ_cons, val_cons, ih h.2 k]
      rw [Nat.pow_succ, Nat.mul_comm (8 ^ k) 8, ← Nat.div_div_eq_div_mul]
      have h2 : (d + 8 * val ds) / 8 = val ds := by omega
      rw [h2]

/-- a non-empty list whose last digit is not 0 has a value of full length -/
theorem val_ge {ds : List Nat} (h : DigitsOk ds) (hne : ds ≠ []) : 8 ^ (ds.length - 1) ≤ val ds := by
  induction ds with
  | nil => exact absurd rfl hne
  | cons d ds ih =>
    rw [digitsOk_cons] at h
    by_cases hds : ds = []
    · subst hds; simp [val]; omega
    · have := ih h.2 hds
      have hl : ds.length - 1 + 1 = ds.length := by
        have : 0 < ds.length := List.length_pos_iff.mpr hds
        omega
      simp only [val_cons, List.length_cons, Nat.add_sub_cancel]
      rw [← hl, Nat.pow_succ]
      omega

theorem val_inj {a b : List Nat} (ha : DigitsOk a) (hb : DigitsOk b) (h : val a = val b) : a = b := by
  induction a generalizing b with
  | nil =>
    cases b with
    | nil => rfl
    | cons d ds => rw [digitsOk_cons] at hb; simp [val] at h; omega
  | cons x xs ih =>
    rw [digitsOk_cons] at ha
    cases b with
    | nil => simp [val] at h; omega
    | cons d ds =>
      rw [digitsOk_cons] at hb
      simp only [val_cons] at h
      have h1 : x = d := by omega
      have h2 : val xs = val ds := by omega
      rw [h1, ih ha.2 hb.2 h2]

/-- the arithmetic hypotheses of `begin_num` hold for every tree node -/
theorem levelOf_val {ds : List Nat} (h : IsNode ds) : LevelOf (val ds) ds.length := by
  refine ⟨h.2, ?_, ?_⟩
  · intro h0
    have : ds = [] := List.length_eq_zero_iff.mp h0
    subst this; rfl
  · intro hpos
    have hne : ds ≠ [] := List.length_pos_iff.mp hpos
    exact ⟨val_ge h.1 hne, val_lt (digitsOk_lt8 h.1)⟩

theorem val_dropLast {ds : List Nat} (h : Lt8 ds) :
    val ds.dropLast = val ds % 8 ^ (ds.length - 1) := by
  rw [List.dropLast_eq_take, val_take h]

theorem getLast?_eq_div {ds : List Nat} (h : Lt8 ds) (hne : ds ≠ []) :
    ds.getLast? = some (val ds / 8 ^ (ds.length - 1)) := by
  induction ds with
  | nil => exact absurd rfl hne
  | cons d ds ih =>
    rw [lt8_cons] at h
    by_cases hds : ds = []
    · subst hds; simp [val]
    · have := ih h.2 hds
      have hl : ds.length - 1 + 1 = ds.length := by
        have : 0 < ds.length := List.length_pos_iff.mpr hds
        omega
      rw [List.getLast?_cons_of_ne_nil hds, this]
      simp only [val_cons, List.length_cons, Nat.add_sub_cancel]
      congr 1
      rw [← hl, Nat.pow_succ, Nat.mul_comm (8 ^ (ds.length - 1)) 8, ← Nat.div_div_eq_div_mul]
      have h2 : (d + 8 * val ds) / 8 = val ds := by omega
      rw [h2, Nat.add_sub_cancel]

/-- "`s` is an ancestor of `d`" in arithmetic -/
theorem prefix_iff_mod {s d : List Nat} (hs : DigitsOk s) (hd : DigitsOk d) :
    s <+: d ↔ val d % 8 ^ s.length = val s := by
  rw [← val_take (digitsOk_lt8 hd)]
  constructor
  · intro h
    rw [List.prefix_iff_eq_take] at h
    rw [← h]
  · intro h
    have := val_inj (digitsOk_take hd _) hs h
    rw [← this]
    exact List.take_prefix _ _

theorem val_digitsOf (n : Nat) : val (digitsOf n) = n := by
  induction n using Nat.strongRecOn with
  | _ n ih =>
    unfold digitsOf
    split
    · simp [val, *]
    · rw [val_cons, ih (n / 8) (by omega)]; omega

end Nrf.Proofs
