/-
"Quiet" SPI steps: while a radio is not in TX mode (CE low, RX role or powered down) an SPI
transaction or a CE edge is nothing but the command applied to that one chip — no transmit cycle
runs, no other radio is touched.  These lemmas are about `World`, so they serve both drivers.
-/
import NrfProofs.LiteCfg

namespace Nrf

namespace Radio

theorem writeReg_ce_l (r : Radio) (reg : Nat) (d : Bytes) : (r.writeReg reg d).ce = r.ce := by
  unfold writeReg
  split <;> first | rfl | (split <;> rfl)

theorem writeReg_config_ne_l (r : Radio) (reg : Nat) (d : Bytes) (h : reg ≠ 0) :
    (r.writeReg reg d).config = r.config := by
  unfold writeReg
  split <;> first | rfl | omega | (split <;> rfl)

theorem readPayload_ce_l (r : Radio) (n : Nat) : (r.readPayload n).1.ce = r.ce ∧ (r.readPayload n).1.config = r.config := by
  unfold readPayload; split <;> exact ⟨rfl, rfl⟩

theorem writePayload_ce_l (r : Radio) (k : TxKind) (d : Bytes) :
    (r.writePayload k d).ce = r.ce ∧ (r.writePayload k d).config = r.config := by
  unfold writePayload; split <;> exact ⟨rfl, rfl⟩

theorem runCmd_ce_l (r : Radio) (c : Cmd) (d : Bytes) : (r.runCmd c d).1.ce = r.ce := by
  unfold runCmd
  cases c with
  | wRegister reg => dsimp only; split; · rfl
                     exact writeReg_ce_l r _ d
  | rRxPayload => exact (readPayload_ce_l r _).1
  | wTxPayload => exact (writePayload_ce_l r _ _).1
  | wTxPayloadNoAck => exact (writePayload_ce_l r _ _).1
  | wAckPayload p => exact (writePayload_ce_l r _ _).1
  | _ => rfl

/-- no SPI command moves the CE pin -/
theorem xfer_ce_l (r : Radio) (out : Bytes) : (r.xfer out).1.ce = r.ce := by
  unfold xfer
  cases out with
  | nil => rfl
  | cons c d => exact runCmd_ce_l r _ d

theorem runCmd_config_l (r : Radio) (c : Cmd) (d : Bytes) (h : c ≠ .wRegister 0) : (r.runCmd c d).1.config = r.config := by
  unfold runCmd
  cases c with
  | wRegister reg => dsimp only; split; · rfl
                     exact writeReg_config_ne_l r _ d (by intro e; subst e; exact h rfl)
  | rRxPayload => exact (readPayload_ce_l r _).2
  | wTxPayload => exact (writePayload_ce_l r _ _).2
  | wTxPayloadNoAck => exact (writePayload_ce_l r _ _).2
  | wAckPayload p => exact (writePayload_ce_l r _ _).2
  | _ => rfl

theorem decodeCmd_ne_wcfg_l (c : Nat) (h : c ≠ 0x20) : decodeCmd c ≠ .wRegister 0 := by
  unfold decodeCmd
  repeat' split
  all_goals first
    | (intro e; have := Cmd.wRegister.inj e; omega)
    | (intro e; cases e)

/-- only W_REGISTER CONFIG changes CONFIG -/
theorem xfer_config_l (r : Radio) (c : Nat) (d : Bytes) (h : c ≠ 0x20) : (r.xfer (c :: d)).1.config = r.config :=
  runCmd_config_l r _ d (decodeCmd_ne_wcfg_l c h)

theorem txMode_congr_l {r r' : Radio} (hc : r'.config = r.config) (he : r'.ce = r.ce) : r'.txMode = r.txMode := by
  unfold txMode pwrUp primRx; rw [hc, he]

theorem xfer_txMode_l (r : Radio) (c : Nat) (d : Bytes) (h : c ≠ 0x20) : (r.xfer (c :: d)).1.txMode = r.txMode :=
  txMode_congr_l (xfer_config_l r c d h) (xfer_ce_l r _)

theorem txMode_of_ce_low_l {r : Radio} (h : r.ce = false) : r.txMode = false := by
  unfold txMode; rw [h]; simp

theorem xfer_txMode_ce_low_l (r : Radio) (out : Bytes) (h : r.ce = false) : (r.xfer out).1.txMode = false :=
  txMode_of_ce_low_l (by rw [xfer_ce_l]; exact h)

end Radio

namespace World

/-- a radio that is not in TX mode transmits nothing -/
theorem tryTransmit_idle_l (s f : Nat) (w : World) (h : (w.radio s).txMode = false) : tryTransmit s f w = w := by
  cases f with
  | zero => rfl
  | succ f => unfold tryTransmit; simp [h]

/-- the bytes an SPI transaction returns are those of the command on the chip as it is -/
theorem spi_snd_l (w : World) (s : Nat) (out : Bytes) : (w.spi s out).2 = ((w.radio s).xfer out).2 := rfl

theorem jump_radio_l (w : World) (s j : Nat) : (w.jump s).radio j = w.radio j := rfl

/-- a quiet SPI transaction: the command applied to the one chip -/
theorem spi_radio_quiet_l (w : World) (s : Nat) (out : Bytes) (hs : s < w.radios.length)
    (hq : ((w.radio s).xfer out).1.txMode = false) :
    (w.spi s out).1.radio s = ((w.radio s).xfer out).1 := by
  unfold spi
  dsimp only
  have hr : ∀ (w' : World) (c n : Nat), ({ w' with clock := c, spiCount := n } : World).radio s = w'.radio s :=
    fun _ _ _ => rfl
  have hl : s < (w.jump s).radios.length := hs
  rw [tryTransmit_idle_l]
  · rw [hr, radio_setRadio]; simp [hl]; rfl
  · rw [hr, radio_setRadio]; simp only [hl, and_self, ↓reduceIte]; exact hq

theorem spi_radio_other_quiet_l (w : World) (s j : Nat) (out : Bytes) (hs : s < w.radios.length) (hj : j ≠ s)
    (hq : ((w.radio s).xfer out).1.txMode = false) :
    (w.spi s out).1.radio j = w.radio j := by
  unfold spi
  dsimp only
  have hr : ∀ (w' : World) (c n : Nat) (i : Nat), ({ w' with clock := c, spiCount := n } : World).radio i = w'.radio i :=
    fun _ _ _ _ => rfl
  have hl : s < (w.jump s).radios.length := hs
  rw [tryTransmit_idle_l]
  · rw [hr, radio_setRadio]; simp [hj]; rfl
  · rw [hr, radio_setRadio]; simp only [hl, and_self, ↓reduceIte]; exact hq

/-- a quiet CE edge -/
theorem setCE_radio_quiet_l (w : World) (s : Nat) (v : Bool) (hs : s < w.radios.length)
    (hq : ({ (w.radio s) with ce := v } : Radio).txMode = false) :
    (w.setCE s v).radio s = { (w.radio s) with ce := v } := by
  unfold setCE
  dsimp only
  have hl : s < (w.jump s).radios.length := hs
  rw [tryTransmit_idle_l]
  · rw [radio_setRadio]; simp only [hl, and_self, ↓reduceIte]; rfl
  · rw [radio_setRadio]; simp only [hl, and_self, ↓reduceIte]; exact hq

end World

/-! ### the lite driver's own radio -/

/-- the radio the lite object drives -/
def LiteState.radio (s : LiteState) : Radio := s.w.radio s.d.rid

namespace LiteState

theorem cfg_eq (s : LiteState) : s.cfg = s.radio.cfgOf := rfl

@[simp] theorem sleepStep_radio (s : LiteState) (n : Nat) : (s.sleepStep n).radio = s.radio := rfl

theorem spiStep_status (s : LiteState) (out : Bytes) :
    (s.spiStep out).d.status = (s.radio.xfer out).2.headD s.d.status := rfl

theorem readVal_eq (s : LiteState) (reg : Nat) : s.readVal reg = (s.radio.xfer [reg, 0]).2.getD 1 0 := rfl

theorem spiStep_radio_l (s : LiteState) (out : Bytes) (hw : s.Wf) (hq : (s.radio.xfer out).1.txMode = false) :
    (s.spiStep out).radio = (s.radio.xfer out).1 :=
  World.spi_radio_quiet_l s.w s.d.rid out hw hq

theorem ceStep_radio (s : LiteState) (v : Bool) (hw : s.Wf)
    (hq : ({ s.radio with ce := v } : Radio).txMode = false) :
    (s.ceStep v).radio = { s.radio with ce := v } :=
  World.setCE_radio_quiet_l s.w s.d.rid v hw hq

/-- lowering CE is always quiet -/
theorem ceStep_low_radio (s : LiteState) (hw : s.Wf) : (s.ceStep false).radio = { s.radio with ce := false } :=
  ceStep_radio s false hw (Radio.txMode_of_ce_low_l rfl)

end LiteState

/-! ### what single commands do to a chip -/

namespace Radio

theorem xfer_read_l (r : Radio) (reg : Nat) (hr : reg < 0x20) :
    r.xfer [reg, 0] = (r, [r.status, (r.readReg reg).headD 0]) := by
  unfold xfer
  simp only [decodeCmd_r reg hr, runCmd, List.length_cons, List.length_nil, clockOut, zeros]
  cases h : r.readReg reg <;> simp

theorem xfer_write_l (r : Radio) (reg v : Nat) (hr : reg < 0x20) :
    r.xfer [0x20 ||| reg, v] = (r.writeReg reg [v], [r.status, 0]) := by
  unfold xfer
  simp only [decodeCmd_w reg hr, runCmd, List.length_cons, List.length_nil, zeros]
  rfl

theorem xfer_flushTx_l (r : Radio) : r.xfer [0xE1] = ({ r with txFifo := [] }, [r.status]) := by
  unfold xfer; simp [decodeCmd, runCmd, zeros]

theorem xfer_flushRx_l (r : Radio) : r.xfer [0xE2] = ({ r with rxFifo := [] }, [r.status]) := by
  unfold xfer; simp [decodeCmd, runCmd, zeros]

theorem xfer_nop_l (r : Radio) : r.xfer [0xFF] = (r, [r.status]) := by
  unfold xfer; simp [decodeCmd, runCmd, zeros]

/-- STATUS bit 0 is TX_FULL -/
theorem status_and_one_l (r : Radio) : r.status &&& 1 = if r.txFull then 1 else 0 := by
  unfold status
  rw [Nat.and_one_is_mod, Nat.or_mod_two_pow (n := 1), Nat.or_mod_two_pow (n := 1), Nat.and_mod_two_pow (n := 1)]
  have h2 : (r.rxPNo <<< 1) % 2 ^ 1 = 0 := by rw [Nat.shiftLeft_eq]; omega
  rw [h2]
  split <;> simp

end Radio

end Nrf
