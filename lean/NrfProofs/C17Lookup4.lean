/-
C17, lookups end to end, part 4: `lookup_address(id)`, `lookup_node_id(addr)`, `check_connection()` of a
connected node in the closed two-node system, and the concrete network `lookEx` on which every
hypothesis is instantiated.
-/
import NrfProofs.C17Lookup3
import NrfProofs.C05Example

namespace Nrf.Net.Join
open Nrf Nrf.Net Nrf.Spec Nrf.Proofs

/-- the asker is a connected node that is not the master: facts about the running node -/
theorem Conn.node {L : LinkCfg} {Pm Px : List Bytes} {m x px ax : Nat} {Am Ax : Bytes} {s : NetState}
    (C : Conn L Pm Px m x px ax Am Ax s) : s.node = s.nodeAt x := by rw [node_eq_nodeAt, C.cur]

/-- **`lookup_address(id)` of the connected node, `0 < id < 256`, end to end**: the master's mapping
    (`-2` when the table has no entry for `id`); invariant re-established, master's table unchanged. -/
theorem lookup_address_closed (s : NetState) (L : LinkCfg) (Pm Px : List Bytes) (m x px ax : Nat) (Am Ax : Bytes)
    (id : Nat) (C : Conn L Pm Px m x px ax Am Ax s) (hid0 : id ≠ 0) (hid : id < 256)
    (hdupm : ∀ pid d, (s.radioAt m).lastRx = some { pid := pid, addr := Am, data := d } →
      (lookFrame s.nextId ax MESH_ADDR_LOOKUP [id]).pack ≠ .ok d)
    (hdupx : ∀ pid d, (s.radioAt x).lastRx = some { pid := pid, addr := Ax, data := d } →
      (lookReply s.nextId ax MESH_ADDR_LOOKUP
        (MeshProtocol.replyBytes (MeshProtocol.tableAddress (s.nodeAt m).dhcp id))).pack ≠ .ok d) :
    ∃ s2 : NetState,
      nexec (meshLookupAddress (id : Int)) s = (.ok (MeshProtocol.tableAddress (s.nodeAt m).dhcp id), s2) ∧
      Conn L Pm Px m x px ax Am Ax s2 ∧
      (s2.nodeAt m).body = { (s.nodeAt m).body with frameBuf := (lookReply s.nextId ax MESH_ADDR_LOOKUP
        (MeshProtocol.replyBytes (MeshProtocol.tableAddress (s.nodeAt m).dhcp id))) } ∧
      (s2.nodeAt x).body = { (s.nodeAt x).body with frameBuf := (lookReply s.nextId ax MESH_ADDR_LOOKUP
        (MeshProtocol.replyBytes (MeshProtocol.tableAddress (s.nodeAt m).dhcp id))) } ∧
      s2.nextId = (s.nextId + 1) &&& 0xFFFF ∧
      (∃ pid1 pid2 pk pk', (lookFrame s.nextId ax MESH_ADDR_LOOKUP [id]).pack = .ok pk ∧
        (lookReply s.nextId ax MESH_ADDR_LOOKUP
          (MeshProtocol.replyBytes (MeshProtocol.tableAddress (s.nodeAt m).dhcp id))).pack = .ok pk' ∧
        (s2.radioAt m).lastRx = some { pid := pid1, addr := Am, data := pk } ∧
        (s2.radioAt x).lastRx = some { pid := pid2, addr := Ax, data := pk' }) := by
  have hv := lookVal_addr (s.nodeAt m) s.nextId ax id C.maddr hid0
  have hb : Nrf.Proofs.MeshK.lookupBody (id : Int) MESH_ADDR_LOOKUP = .ok [id] := by
    rw [Nrf.Proofs.MeshK.lookupBody_id (id : Int) ⟨Int.natCast_nonneg _, by omega⟩, Int.toNat_natCast]
  obtain ⟨s2, e, C2, bm, bx, nx, lr⟩ := lookup2_closed s L Pm Px m x px ax Am Ax (id : Int) MESH_ADDR_LOOKUP [id] C hb
    (Or.inl rfl) rfl (by simp [MAX_FRAG_SIZE]) hdupm (by rw [hv]; exact hdupx)
  rw [hv] at e bm bx lr
  refine ⟨s2, ?_, C2, bm, bx, nx, lr⟩
  unfold meshLookupAddress
  have h0 : ¬ ((id : Int) = 0) := by omega
  have h1 : ¬ (s.node.a.addr = NETWORK_DEFAULT_ADDR) := by rw [C.node, C.xaddr]; exact C.axd
  have h2 : ¬ (s.node.kind = .meshMaster ∧ s.node.nodeId = 0) := by rw [C.node]; exact fun h => C.xid h.2
  simp only [nexec_bind, nexec_getNode, if_neg h0, if_neg h1, if_neg h2]
  exact e

/-- **`lookup_node_id(a)` of the connected node, `0 < a < 65536`, end to end**: the master's mapping
    (`-2` when no ID holds `a`); invariant re-established, master's table unchanged. -/
theorem lookup_node_id_closed (s : NetState) (L : LinkCfg) (Pm Px : List Bytes) (m x px ax : Nat) (Am Ax : Bytes)
    (a : Nat) (C : Conn L Pm Px m x px ax Am Ax s) (ha0 : a ≠ 0) (ha : a < 65536)
    (hdupm : ∀ pid d, (s.radioAt m).lastRx = some { pid := pid, addr := Am, data := d } →
      (lookFrame s.nextId ax MESH_ID_LOOKUP [a % 256, a / 256]).pack ≠ .ok d)
    (hdupx : ∀ pid d, (s.radioAt x).lastRx = some { pid := pid, addr := Ax, data := d } →
      (lookReply s.nextId ax MESH_ID_LOOKUP
        (MeshProtocol.replyBytes (MeshProtocol.tableNodeId (s.nodeAt m).dhcp a))).pack ≠ .ok d) :
    ∃ s2 : NetState,
      nexec (meshLookupNodeId (some (a : Int))) s = (.ok (MeshProtocol.tableNodeId (s.nodeAt m).dhcp a), s2) ∧
      Conn L Pm Px m x px ax Am Ax s2 ∧
      (s2.nodeAt m).body = { (s.nodeAt m).body with frameBuf := (lookReply s.nextId ax MESH_ID_LOOKUP
        (MeshProtocol.replyBytes (MeshProtocol.tableNodeId (s.nodeAt m).dhcp a))) } ∧
      (s2.nodeAt x).body = { (s.nodeAt x).body with frameBuf := (lookReply s.nextId ax MESH_ID_LOOKUP
        (MeshProtocol.replyBytes (MeshProtocol.tableNodeId (s.nodeAt m).dhcp a))) } ∧
      s2.nextId = (s.nextId + 1) &&& 0xFFFF := by
  have hv := lookVal_id (s.nodeAt m) s.nextId ax a C.maddr ha0
  have hb : Nrf.Proofs.MeshK.lookupBody (a : Int) MESH_ID_LOOKUP = .ok [a % 256, a / 256] := by
    rw [Nrf.Proofs.MeshK.lookupBody_addr (a : Int) ⟨Int.natCast_nonneg _, by omega⟩, Int.toNat_natCast]
  obtain ⟨s2, e, C2, bm, bx, nx, _⟩ := lookup2_closed s L Pm Px m x px ax Am Ax (a : Int) MESH_ID_LOOKUP
    [a % 256, a / 256] C hb (Or.inr rfl) rfl (by simp [MAX_FRAG_SIZE]) hdupm (by rw [hv]; exact hdupx)
  rw [hv] at e bm bx
  refine ⟨s2, ?_, C2, bm, bx, nx⟩
  unfold meshLookupNodeId
  have h0 : ¬ ((a : Int) = 0) := by omega
  have h1 : ¬ (s.node.a.addr = NETWORK_DEFAULT_ADDR) := by rw [C.node, C.xaddr]; exact C.axd
  have h2 : ¬ (s.node.kind = .meshMaster ∧ s.node.a.addr = 0) := by
    rw [C.node, C.xaddr]; exact fun h => C.ax0 h.2
  simp only [nexec_bind, nexec_getNode, if_neg h0, if_neg h1, if_neg h2]
  exact e

/-- **`check_connection(attempts ≥ 1, ping_master=True)` of the connected node `x` (ID `i`), decided by the
    master's table at the first attempt**: `True` when the master's table maps `i` to the address `x`
    holds; `False` when the table has no lease for `i` (the lookup answers −2). -/
theorem check_connection_closed (s : NetState) (L : LinkCfg) (Pm Px : List Bytes) (m x px ax : Nat) (Am Ax : Bytes)
    (i k : Nat) (C : Conn L Pm Px m x px ax Am Ax s) (hi : (s.nodeAt x).nodeId = i) (hi8 : i < 256)
    (hdupm : ∀ pid d, (s.radioAt m).lastRx = some { pid := pid, addr := Am, data := d } →
      (lookFrame s.nextId ax MESH_ADDR_LOOKUP [i]).pack ≠ .ok d)
    (hdupx : ∀ pid d, (s.radioAt x).lastRx = some { pid := pid, addr := Ax, data := d } →
      (lookReply s.nextId ax MESH_ADDR_LOOKUP
        (MeshProtocol.replyBytes (MeshProtocol.tableAddress (s.nodeAt m).dhcp i))).pack ≠ .ok d) :
    (MeshProtocol.tableAddress (s.nodeAt m).dhcp i = (ax : Int) →
      ∃ s2, nexec (meshCheckConnection (k + 1) true) s = (.ok true, s2) ∧ Conn L Pm Px m x px ax Am Ax s2 ∧
        (s2.nodeAt m).dhcp = (s.nodeAt m).dhcp) ∧
    (MeshProtocol.tableAddress (s.nodeAt m).dhcp i = MeshProtocol.NOT_ASSIGNED →
      ∃ s2, nexec (meshCheckConnection (k + 1) true) s = (.ok false, s2) ∧ Conn L Pm Px m x px ax Am Ax s2 ∧
        (s2.nodeAt m).dhcp = (s.nodeAt m).dhcp) := by
  have hi0 : i ≠ 0 := by rw [← hi]; exact C.xid
  obtain ⟨s2, e, C2, bm, _⟩ := lookup_address_closed s L Pm Px m x px ax Am Ax i C hi0 hi8 hdupm hdupx
  have hd : (s2.nodeAt m).dhcp = (s.nodeAt m).dhcp := by
    have : (s2.nodeAt m).dhcp = (s2.nodeAt m).body.dhcp := rfl
    rw [this, bm]; rfl
  have h0 : ¬ (s.node.nodeId = 0) := by rw [C.node]; exact C.xid
  have h1 : ¬ (s.node.a.addr = NETWORK_DEFAULT_ADDR) := by rw [C.node, C.xaddr]; exact C.axd
  have hid : s.node.nodeId = i := by rw [C.node]; exact hi
  have hstep : nexec (meshCheckConnection (k + 1) true) s =
      (if MeshProtocol.tableAddress (s.nodeAt m).dhcp i = -2 then (.ok false, s2)
       else if MeshProtocol.tableAddress (s.nodeAt m).dhcp i = (ax : Int) then (.ok true, s2)
       else nexec (meshCheckConnection.go true k) s2) := by
    unfold meshCheckConnection
    simp only [nexec_bind, nexec_getNode, nexec_ite, if_neg h0, if_neg h1, nexec_pure]
    rw [meshCheckConnection.go.eq_2]
    simp only [nexec_bind, nexec_getNode, if_true, hid, e, nexec_ite, nexec_pure]
    rw [C.node, C.xaddr]
  refine ⟨fun h => ⟨s2, ?_, C2, hd⟩, fun h => ⟨s2, ?_, C2, hd⟩⟩
  · rw [hstep, h]
    have : ¬ ((ax : Int) = -2) := by omega
    rw [if_neg this, if_pos rfl]
  · rw [hstep, h]
    exact if_pos rfl

/-! ### a concrete connected network -/

open Nrf.Net.Example Nrf.Props.C04

/-- master (node 0, radio 0, table `[7 ↦ 0o1, 9 ↦ 0o4]`) and the mesh node with ID 7 connected at
    address 0o1 (node 1, radio 1), the latter about to make an API call — both as `_begin` leaves them
    (the radios of NrfProofs/C05Example.lean) -/
def lookEx : NetState :=
  { nodes := [{ kind := .meshMaster, rf := rf0, retSysMsg := true, a := nodeSpec [], dhcp := [(7, 1), (9, 4)] },
              { kind := .meshNode, rf := rf1, retSysMsg := true, nodeId := 7, a := nodeSpec [1] }],
    cur := 1, active := [1], nextId := 4, closed := true,
    w := { radios := [radio0, radio1], busyUntil := [0, 0] } }

/-- the same network after the master lost the lease of ID 7 (e.g. it was restarted) -/
def lookExLost : NetState :=
  { lookEx with nodes := [{ kind := .meshMaster, rf := rf0, retSysMsg := true, a := nodeSpec [], dhcp := [(9, 4)] },
                          { kind := .meshNode, rf := rf1, retSysMsg := true, nodeId := 7, a := nodeSpec [1] }] }

/-- the same network with the master's table mapping ID 7 to another address (the node re-joined
    elsewhere and this object is stale, or the table was edited) -/
def lookExMoved : NetState :=
  { lookEx with nodes := [{ kind := .meshMaster, rf := rf0, retSysMsg := true, a := nodeSpec [], dhcp := [(7, 2), (9, 4)] },
                          { kind := .meshNode, rf := rf1, retSysMsg := true, nodeId := 7, a := nodeSpec [1] }] }

theorem pa0_1 : pipeAddress {} 0 1 = .ok [60, 204, 204, 204, 204] :=
  (pipeAddress_listen (cfg := {}) (sfxFn_spec rfl) (ds := []) (by decide) (p := 1) (by decide)).trans
    (congrArg Except.ok (by decide))

theorem pa1_5 : pipeAddress {} 1 5 = .ok [227, 60, 204, 204, 204] :=
  (pipeAddress_listen (cfg := {}) (sfxFn_spec rfl) (ds := [1]) (by decide) (p := 5) (by decide)).trans
    (congrArg Except.ok (by decide))

theorem small_of_lt {t : Mesh.Table} (h : t.all (fun e => decide (e.1 < 32768 ∧ e.2 < 32768)) = true) :
    Nrf.Proofs.MeshK.TableSmall t := by
  intro e he
  have := List.all_eq_true.mp h e he
  simpa using this

local macro "conn_script" : tactic => `(tactic| exact
    { len := rfl, hm := by decide, hx := by decide, hmx := by decide, cur := rfl, act := rfl, closed := rfl,
      faults := rfl, nextId := by decide, ridm := by decide, ridx := by decide, ridne := by decide,
      others := by
        intro i h0 h1
        have h0' : i ≠ 0 := h0
        have h1' : i ≠ 1 := h1
        show (([radio0, radio1] : List Radio).getD i default).rxMode = false
        have : ([radio0, radio1] : List Radio).length ≤ i := by
          show 2 ≤ i
          omega
        rw [List.getD_eq_getElem?_getD, List.getElem?_eq_none this]
        rfl,
      Nm := two_radio0, Nx := two_radio1, fm := rfl, fx := rfl, arrm := rfl, arrx := rfl,
      pAm := rfl, px1 := by decide, px5 := by decide, ltm := by decide, pAx := rfl, ltx := by decide,
      xaddr := by decide, xid := by decide, xret := rfl, xcfg := pa0_1, xl2p := by decide,
      kind := rfl, mid := rfl, maddr := by decide, mret := rfl, mdo := rfl, small := small_of_lt (by decide),
      ml2p := by decide, mcfg := pa1_5, ax12 := by decide,
      axv := by
        have : (1 : Nat) = val [1] := by decide
        rw [this]; exact isValid_val (by decide),
      ax0 := by decide, axd := by decide })

theorem lookEx_conn : Conn L P0 P1 0 1 1 1 [60, 204, 204, 204, 204] [227, 60, 204, 204, 204] lookEx := by
  conn_script

theorem lookExLost_conn : Conn L P0 P1 0 1 1 1 [60, 204, 204, 204, 204] [227, 60, 204, 204, 204] lookExLost := by
  conn_script

theorem lookExMoved_conn : Conn L P0 P1 0 1 1 1 [60, 204, 204, 204, 204] [227, 60, 204, 204, 204] lookExMoved := by
  conn_script

end Nrf.Net.Join
