/-
C05 / C13 helper lemmas, part 4: the closed system (`runOthers`), one hop.

The network is *quiet* when no node outside the call stack has received data waiting; then the
scheduling points (`runOthers`) do nothing, and — under the driver contracts `L3Contracts` — one
`_write_to_pipe` of a single frame to a listening neighbour puts exactly that frame into the
neighbour's RX FIFO and reports success.
-/
import NrfProofs.C05Local
import NrfProofs.C05Link
import NrfProofs.C13Ack
import NrfProofs.Wire

namespace Nrf.Net
open Nrf Nrf.Spec Nrf.Proofs

/-- node object number `i` -/
def NetState.nodeAt (s : NetState) (i : Nat) : Node := s.nodes.getD i default
/-- index of the radio node `i` drives -/
def NetState.ridAt (s : NetState) (i : Nat) : Nat := (s.nodeAt i).rf.rid
/-- the radio of node `i` -/
def NetState.radioAt (s : NetState) (i : Nat) : Radio := s.w.radio (s.ridAt i)

theorem node_eq_nodeAt (s : NetState) : s.node = s.nodeAt s.cur := rfl

theorem nodeAt_setNode (s : NetState) (f : Node → Node) (i : Nat) :
    (s.setNode f).nodeAt i = if i = s.cur ∧ s.cur < s.nodes.length then f (s.nodeAt i) else s.nodeAt i := by
  unfold NetState.nodeAt NetState.setNode
  simp only [List.getD_eq_getElem?_getD, List.getElem?_modify]
  by_cases hi : s.cur = i
  · subst hi
    by_cases hl : s.cur < s.nodes.length
    · simp [hl, List.getElem?_eq_getElem hl]
    · simp [hl, List.getElem?_eq_none (Nat.le_of_not_lt hl)]
  · have : ¬ i = s.cur := fun e => hi e.symm
    simp only [hi, this, false_and, if_false]
    cases s.nodes[i]? <;> rfl

theorem nodeAt_afterRf (s : NetState) (D : DrvState) (i : Nat) :
    (s.afterRf D).nodeAt i =
      if i = s.cur ∧ s.cur < s.nodes.length then { s.nodeAt i with rf := D.d } else s.nodeAt i :=
  nodeAt_setNode s _ i

theorem nodeAt_afterRf_ne (s : NetState) (D : DrvState) (i : Nat) (h : i ≠ s.cur) :
    (s.afterRf D).nodeAt i = s.nodeAt i := by
  rw [nodeAt_afterRf]; simp [h]

theorem afterRf_afterRf (s : NetState) (D D' : DrvState) : (s.afterRf D).afterRf D' = s.afterRf D' := by
  unfold NetState.afterRf
  simp only [List.modify_modify_eq]
  rfl

theorem afterRf_drv (s : NetState) (D : DrvState) (h : s.cur < s.nodes.length) : (s.afterRf D).drv = D := by
  unfold NetState.drv
  rw [afterRf_node s D h]
  rfl

/-- an `RF24` call of the running node, outcome given -/
theorem nexec_liftRf_ok {α : Type} (m : DrvM α) (s : NetState) (a : α) (D : DrvState)
    (h : exec m s.drv = (.ok a, D)) : nexec (liftRf m) s = (.ok a, s.afterRf D) := by
  rw [nexec_liftRf, h]

/-! ### scheduling points in a quiet network -/

/-- no node outside the call stack has received data waiting -/
def Quiet (s : NetState) : Prop :=
  ∀ i, i < s.nodes.length → i ≠ s.cur → i ∉ s.active → (s.radioAt i).rxFifo = []

theorem runOthers_quiet (s : NetState) (hq : Quiet s) : ∀ (n f i : Nat), s.nodes.length - i = n → n < f →
    nexec (runOthers f i) s = (.ok (), s) := by
  intro n
  induction n with
  | zero =>
    intro f i hn hf
    obtain ⟨f, rfl⟩ : ∃ g, f = g + 1 := ⟨f - 1, by omega⟩
    rw [runOthers_step, if_pos (by omega)]
  | succ n ih =>
    intro f i hn hf
    obtain ⟨f, rfl⟩ : ∃ g, f = g + 1 := ⟨f - 1, by omega⟩
    rw [runOthers_step, if_neg (by omega)]
    have hnr : ¬ s.runnable i := by
      rintro ⟨h1, h2, h3, _⟩
      have h2' : i ∉ s.active := by simpa using h2
      have := hq i (by omega) h1 h2'
      unfold NetState.radioAt NetState.ridAt NetState.nodeAt at this
      rw [this] at h3
      simp at h3
    rw [if_neg hnr]
    exact ih f (i + 1) (by omega) (by omega)

/-- `self._rf24.send(…)` / `read()` of the node layer in a quiet closed network: no other node runs -/
theorem runOthers_quiet0 (s : NetState) (hq : Quiet s) (f : Nat) (hf : s.nodes.length < f) :
    nexec (runOthers f 0) s = (.ok (), s) :=
  runOthers_quiet s hq _ f 0 rfl (by omega)

/-- no scripted arrivals: `deliverDue` does nothing -/
theorem deliverDue_nil (s : NetState) (h : s.node.arrivals = []) : nexec deliverDue s = (.ok (), s) := by
  unfold deliverDue
  simp only [nexec_bind, nexec_get, nexec_set]
  have h' : (s.nodes.getD s.cur default).arrivals = [] := h
  simp only [h', List.takeWhile_nil, List.dropWhile_nil, List.foldl_nil]
  congr 1
  show ({ s with w := s.w, nodes := s.nodes.modify s.cur _ } : NetState) = s
  have : s.nodes.modify s.cur (fun n => { n with arrivals := [] }) = s.nodes := by
    apply List.ext_getElem?
    intro j
    rw [List.getElem?_modify]
    by_cases hj : s.cur = j
    · subst hj
      cases hn : s.nodes[s.cur]? with
      | none => rfl
      | some n =>
        have : n.arrivals = [] := by
          have := h'
          rw [List.getD_eq_getElem?_getD, hn] at this
          exact this
        simp only [Option.map_some, if_true, Option.some.injEq]
        cases n
        simp_all
    · simp [hj]
  rw [this]

/-! ### one hop -/

/-- the packed frame is 8 header bytes plus the message -/
theorem pack_length {fr : Frame} {pk : Bytes} (h : fr.pack = .ok pk) : pk.length = 8 + fr.message.length := by
  unfold Frame.pack Header.pack at h
  cases hm : fr.header.msgType with
  | int n => rw [hm] at h; simp [bind, Except.bind, pure, Except.pure, le16b] at h; rw [← h]; simp; omega
  | str cs =>
    rw [hm] at h
    cases cs with
    | nil => simp [bind, Except.bind, throw, throwThe, MonadExceptOf.throw] at h
    | cons c cs => simp [bind, Except.bind, pure, Except.pure, le16b] at h; rw [← h]; simp; omega

/-- **Non-duplicate condition** (replaces the former freshness hypothesis `lastRx = none`): the packet the
    radio accepted last — if it ever accepted one — does not carry the bytes `pk`.  The chip's duplicate
    test (`Radio.receive`, NrfModel/Radio.lean) drops a packet whose PID, address **and** data all equal those of
    the last accepted packet; different data is therefore enough, whatever the PID sequence of the senders.
    Frames of different messages differ in their header (origin, id — `next_id` counts up per origin —
    type) or payload; a radio that has never received anything satisfies it trivially (`NotDup.of_none`). -/
abbrev NotDup (r : Radio) (pk : Bytes) : Prop := ∀ l, r.lastRx = some l → l.data ≠ pk

theorem NotDup.of_none {r : Radio} {pk : Bytes} (h : r.lastRx = none) : NotDup r pk := by
  intro l hl; rw [h] at hl; cases hl

/-- the non-duplicate condition in terms of the frame whose packed bytes travel: the packet the radio
    accepted last does not carry the packed frame `fr` (8 header bytes — origin, destination, id, type,
    reserved — and the payload) -/
abbrev NotDupFrame (r : Radio) (fr : Frame) : Prop := ∀ l, r.lastRx = some l → fr.pack ≠ .ok l.data

theorem NotDupFrame.of_none {r : Radio} {fr : Frame} (h : r.lastRx = none) : NotDupFrame r fr := by
  intro l hl; rw [h] at hl; cases hl

theorem NotDupFrame.notDup {r : Radio} {fr : Frame} {pk : Bytes} (h : NotDupFrame r fr)
    (hpk : fr.pack = .ok pk) : NotDup r pk := by
  intro l hl e
  exact h l hl (by rw [e]; exact hpk)

/-- **One hop, single frame, closed quiet network, loss-free.**  The running node (listening, on the
    call stack) hands the frame in `frame_buf` (message ≤ 24 bytes) to node `b` — another node, not on
    the call stack, listening with room, whose pipe `p` ∈ 1..5 (and no lower pipe) has the address
    `_pipe_address(tn, tp)`; no third radio listens to that address.  Then `_write_to_pipe` returns
    `True`; the only changes are: the running node's radio object and radio are in the transmit
    role (`D`), node `b`'s radio has stored the packed frame on pipe `p` (once), and the fault script
    is still empty. -/
theorem hop_single (hc : L3Contracts) (f : Nat) (s : NetState) (L : LinkCfg) (Pa Pb : List Bytes)
    (b p tn tp : Nat) (A pk : Bytes)
    (hcur : s.cur < s.nodes.length) (hclosed : s.closed = true)
    (hfuel : s.nodes.length + 2 ≤ f) (hquiet : Quiet s) (hWf : s.drv.Wf)
    (hNa : NodeRadio L Pa true true 0x3E s.node.rf s.drv.radio)
    (hb : b < s.nodes.length) (hbc : b ≠ s.cur) (hba : b ∉ s.active)
    (hrid : ∀ i, i < s.nodes.length → i ≠ s.cur → s.ridAt i ≠ s.ridAt s.cur)
    (hNb : NodeRadio L Pb true true 0x3E (s.nodeAt b).rf (s.radioAt b))
    (haddr : pipeAddress s.node.cfg tn tp = .ok A) (hA : Pb[p]? = some A) (hp1 : 1 ≤ p) (hp5 : p ≤ 5)
    (hlt : ∀ q, q < p → Pb[q]? ≠ some A) (hdup : NotDup (s.radioAt b) pk)
    (hothers : ∀ i pid, i ≠ s.ridAt s.cur → i ≠ s.ridAt b →
      (s.w.radio i).listensTo (unicastPacket L A pk pid) = none)
    (hfaults : s.w.faults = []) (hmsg : s.node.frameBuf.message.length ≤ MAX_FRAG_SIZE)
    (hpk : s.node.frameBuf.pack = .ok pk) (hnl : tn ≠ s.node.a.addr) :
    ∃ D : DrvState, nexec (nodeWriteToPipe (f + 1) tn tp false) s = (.ok true, s.afterRf D) ∧
      D.d.rid = s.node.rf.rid ∧ D.w.radios.length = s.w.radios.length ∧ D.w.faults = [] ∧
      NodeRadio L Pa false true 0x3F D.d D.radio ∧ D.radio.rxFifo = s.drv.radio.rxFifo ∧
      D.radio.lastRx = s.drv.radio.lastRx ∧
      (∃ pid, D.w.radio (s.ridAt b) =
        { (s.radioAt b) with rxFifo := (s.radioAt b).rxFifo ++ [{ pipe := p, data := pk }],
                              flags := (s.radioAt b).flags ||| 0x40, rpd := true,
                              lastRx := some { pid := pid, addr := A, data := pk }, lastAck := none }) ∧
      (∀ i, i ≠ s.ridAt s.cur → i ≠ s.ridAt b → D.w.radio i = s.w.radio i) := by
  have hridc : s.ridAt s.cur = s.drv.d.rid := rfl
  have hjb : s.ridAt b ≠ s.drv.d.rid := hrid b hb hbc
  -- 1. auto-ack on pipe 0
  obtain ⟨D1, e1, F1, N1, x1, _, _⟩ := hc.setAA s.drv L Pa true true 0x3E 0x3F hWf hNa (Or.inr rfl)
  -- 2. stop listening
  obtain ⟨D2, e2, F2, N2, x2⟩ := hc.listenOff D1 L Pa true true 0x3F (F1.wf hWf) N1
  -- 3. transmit address
  have hAlen : A.length = 5 := by
    obtain ⟨_, _, _, _, _, _, _, _, _, _, _, _, _, _, _, _, _, _, _, _, _, hPl, _⟩ := hNb
    exact hPl A (List.mem_of_getElem? hA)
  obtain ⟨D3, e3, F3, N3, x3, a3, t3⟩ := hc.openTx D2 L Pa false A ((F1.trans F2).wf hWf) N2 hAlen
  have F03 : DrvFrame s.drv D3 := (F1.trans F2).trans F3
  have hW3 : D3.Wf := F03.wf hWf
  -- the packet and its reception at `b`
  have hk : D3.packet pk = unicastPacket L A pk D3.radio.nextPid := N3.packet A pk t3 hAlen
  have hrb : D3.w.radio (s.ridAt b) = s.radioAt b := F03.others _ hjb
  have hpkl : pk.length = 8 + s.node.frameBuf.message.length := pack_length hpk
  have hrecv := Radio.receive_idle hNb p A pk D3.radio.nextPid hp1 hp5 hA hlt
    (by
      have := hquiet b hb hbc hba
      rw [this]; decide)
    (fun e => hdup _ e rfl)
  -- 4. send
  obtain ⟨D4, e4, r4, l4, f4, o4, N4, x4, lr4, _, _⟩ := hc.send D3 L Pa false pk (s.ridAt b) hW3 N3
    (by rw [t3, a3]) (by omega) (by unfold MAX_FRAG_SIZE at hmsg; omega)
    (by rw [F03.faults]; exact hfaults) (by rw [F03.rid]; exact hjb)
    (by rw [hrb, hk, hrecv])
  refine ⟨D4, ?_, ?_, ?_, f4, N4, ?_, ?_, ⟨D3.radio.nextPid, ?_⟩, ?_⟩
  · -- the computation
    rw [nodeWriteToPipe.eq_2, nexec_bind, nexec_getNode]
    have hno : ¬ (tn = s.node.a.addr ∧ (!false) = true) := fun h => hnl h.1
    simp only [if_neg hno, Bool.false_eq_true, if_false]
    have s1c : (s.afterRf D1).cur < (s.afterRf D1).nodes.length := by simpa using hcur
    have s2c : (s.afterRf D2).cur < (s.afterRf D2).nodes.length := by simpa using hcur
    have s3c : (s.afterRf D3).cur < (s.afterRf D3).nodes.length := by simpa using hcur
    have e63 : (62 + 1 : Int) = ((63 : Nat) : Int) := by decide
    rw [e63, nexec_bind, nexec_liftRf_ok _ s _ D1 e1]
    simp only []
    rw [nexec_bind, nexec_liftRf_ok _ _ _ D2 (by rw [afterRf_drv s D1 hcur]; exact e2), afterRf_afterRf]
    simp only []
    have hpa : nexec (pipeAddr tn tp) (s.afterRf D2) = (.ok A, s.afterRf D2) := by
      unfold Nrf.Net.pipeAddr
      rw [nexec_bind, nexec_getNode]
      simp only []
      rw [afterRf_node s D2 hcur]
      simp only []
      rw [haddr, nexec_liftPy_ok]
    rw [nexec_bind, hpa]
    simp only []
    rw [nexec_bind, nexec_liftRf_ok _ _ _ D3 (by rw [afterRf_drv s D2 hcur]; exact e3), afterRf_afterRf]
    simp only []
    rw [nexec_bind, nexec_getNode]
    simp only []
    rw [afterRf_node s D3 hcur]
    simp only [hmsg, if_true]
    have hpk' : ({ header := s.node.frameBuf.header, message := s.node.frameBuf.message } : Frame).pack = .ok pk := hpk
    rw [nexec_bind]
    have : (Frame.pack s.node.frameBuf) = .ok pk := hpk
    rw [this, nexec_liftPy_ok]
    simp only []
    -- `rfSend`
    obtain ⟨f', rfl⟩ : ∃ g, f = g + 1 := ⟨f - 1, by omega⟩
    have hq3 : Quiet (s.afterRf D3) := by
      intro i hi hic hia
      have hi' : i < s.nodes.length := by simpa using hi
      have hic' : i ≠ s.cur := hic
      unfold NetState.radioAt NetState.ridAt
      rw [nodeAt_afterRf_ne s D3 i hic', afterRf_w]
      have := F03.others (s.nodeAt i).rf.rid (hrid i hi' hic')
      rw [this]
      exact hquiet i hi' hic' hia
    have hsend : nexec (rfSend (f' + 1) pk) (s.afterRf D3) = (.ok true, s.afterRf D4) := by
      rw [rfSend.eq_2, nexec_bind, nexec_get]
      simp only [afterRf_closed, hclosed, if_true]
      rw [nexec_bind, runOthers_quiet0 _ hq3 f' (by simp; omega)]
      simp only []
      rw [nexec_bind, nexec_liftRf_ok _ _ _ D4 (by rw [afterRf_drv s D3 hcur]; exact e4), afterRf_afterRf]
      rfl
    rw [nexec_bind, hsend]
    rfl
  · rw [r4, F03.rid]; rfl
  · rw [l4, F03.len]; rfl
  · rw [x4, x3, x2, x1]
  · rw [lr4, F03.lastRx]
  · rw [o4 _ (by rw [F03.rid]; exact hjb), hrb, hk, hrecv]
  · intro i hic hib
    have hi3 : i ≠ D3.d.rid := by rw [F03.rid]; exact hic
    rw [o4 i hi3, F03.others i hic, hk]
    show ((s.w.radio i).receive _).1 = _
    rw [Radio.receive_ignore _ _ (hothers i _ hic hib)]

/-- after a transmission: listening again on the node's own addresses, auto-ack as for reception -/
theorem restore (hc : L3Contracts) (s : NetState) (D : DrvState) (L : LinkCfg) (P : List Bytes) (ce : Bool)
    (hcur : s.cur < s.nodes.length) (hWf : D.Wf) (hN : NodeRadio L P false ce 0x3F D.d D.radio) :
    ∃ D' : DrvState, nexec (liftRf (Rf24.setListen true)) (s.afterRf D) = (.ok (), s.afterRf
        (exec (Rf24.setListen true) D).2) ∧
      nexec (liftRf (Rf24.setAutoAckAttr (.i 0x3E))) (s.afterRf (exec (Rf24.setListen true) D).2)
        = (.ok (), s.afterRf D') ∧
      DrvFrame D D' ∧ NodeRadio L P true true 0x3E D'.d D'.radio ∧ D'.radio.rxFifo = D.radio.rxFifo := by
  obtain ⟨D1, e1, F1, N1, x1⟩ := hc.listenOn D L P ce 0x3F hWf hN
  obtain ⟨D2, e2, F2, N2, x2, _, _⟩ := hc.setAA D1 L P true true 0x3F 0x3E (F1.wf hWf) N1 (Or.inl rfl)
  refine ⟨D2, ?_, ?_, F1.trans F2, N2, by rw [x2, x1]⟩
  · rw [nexec_liftRf, afterRf_drv s D hcur, afterRf_afterRf, e1]
  · have e62 : (0x3E : Int) = ((0x3E : Nat) : Int) := by decide
    rw [e1, e62, nexec_liftRf_ok _ _ _ D2 (by rw [afterRf_drv s D1 hcur]; exact e2), afterRf_afterRf]

/-- unpacking the packed image of a frame with an integer type gives its wire copy, whatever the
    receiving frame object held before -/
theorem unpack_of_pack (fr f0 : Frame) (t : Nat) (ht : fr.header.msgType = .int t) (pk : Bytes)
    (h : fr.pack = .ok pk) : f0.unpack pk = (wireCopy fr, true) := by
  unfold Frame.pack at h
  cases hh : fr.header.pack with
  | error e => rw [hh] at h; simp [bind, Except.bind] at h
  | ok hb =>
    rw [hh] at h
    simp only [bind, Except.bind, pure, Except.pure, Except.ok.injEq] at h
    subst h
    unfold Frame.unpack
    rw [unpack_pack fr.header f0.header t (by rw [ht]; rfl) hb hh fr.message]
    simp only [if_true]
    have hl : hb.length = 8 := by
      rw [pack_eq fr.header t (by rw [ht]; rfl)] at hh
      injection hh with hh; rw [← hh]; rfl
    rw [List.drop_left' hl]
    unfold wireCopy maskedHeader
    simp only [Header.ty, ht, and_fff, and_ffff, and_ff]

/-- `self._rf24.read()` of the node layer in a quiet closed network without scripted arrivals: the
    head of the running node's RX FIFO (or `None`), which is removed; nothing else changes -/
theorem rfRead_head (hc : L3Contracts) (f : Nat) (s : NetState) (L : LinkCfg) (P : List Bytes)
    (rx ce : Bool) (aa : Nat) (hcur : s.cur < s.nodes.length) (hclosed : s.closed = true)
    (hfuel : s.nodes.length < f) (hq : Quiet s) (hWf : s.drv.Wf)
    (hN : NodeRadio L P rx ce aa s.node.rf s.drv.radio) (harr : s.node.arrivals = [])
    (hfifo : ∀ e ∈ s.drv.radio.rxFifo, e.pipe ≤ 5 ∧ 1 ≤ e.data.length ∧ e.data.length ≤ 32) :
    ∃ D : DrvState, nexec (rfRead (f + 1)) s = (.ok (s.drv.radio.rxFifo.head?.map (·.data)), s.afterRf D) ∧
      DrvFrame s.drv D ∧ NodeRadio L P rx ce aa D.d D.radio ∧ D.radio.rxFifo = s.drv.radio.rxFifo.tail := by
  obtain ⟨D, e, F, N, x⟩ := hc.read s.drv L P rx ce aa hWf hN hfifo
  refine ⟨D, ?_, F, N, x⟩
  rw [rfRead.eq_2, nexec_bind, deliverDue_nil s harr]
  simp only []
  rw [nexec_bind, nexec_get]
  simp only [hclosed, if_true]
  rw [nexec_bind, runOthers_quiet0 s hq f hfuel]
  simp only []
  exact nexec_liftRf_ok _ s _ D e

theorem Quiet.of_eq {s s' : NetState} (hq : Quiet s) (hl : s'.nodes.length = s.nodes.length)
    (hc : s'.cur = s.cur) (ha : s'.active = s.active)
    (hr : ∀ i, i < s.nodes.length → i ≠ s.cur → i ∉ s.active → (s'.radioAt i).rxFifo = (s.radioAt i).rxFifo) :
    Quiet s' := by
  intro i hi hic hia
  rw [hl] at hi; rw [hc] at hic; rw [ha] at hia
  rw [hr i hi hic hia]; exact hq i hi hic hia

/-- the running node's radio object and world after a change of other attributes of its object -/
theorem drv_setNode (s : NetState) (g : Node → Node) (hc : s.cur < s.nodes.length)
    (hg : (g s.node).rf = s.node.rf) : (s.setNode g).drv = s.drv := by
  unfold NetState.drv
  rw [node_setNode s g hc, hg]
  rfl

theorem radioAt_setNode (s : NetState) (g : Node → Node) (hg : ∀ n, (g n).rf = n.rf) (i : Nat) :
    (s.setNode g).radioAt i = s.radioAt i := by
  unfold NetState.radioAt NetState.ridAt
  rw [nodeAt_setNode]
  split <;> simp [hg]

/-- the node object after `fb` (the frame in `frame_buf`) was appended to its queue -/
def Node.pushFrame (n : Node) (fb : Frame) : Node :=
  { n with queue := { n.queue with frames := n.queue.frames ++ [fb] }, frameBuf := fb }

/-- one header id consumed -/
def NetState.bumpId (s : NetState) : NetState := { s with nextId := (s.nextId + 1) &&& 0xFFFF }

/-- the state after the frame in `frame_buf` was appended to the queue (one header id consumed) -/
def NetState.enqueued (s : NetState) (fb : Frame) : NetState := (s.setNode fun n => n.pushFrame fb).bumpId

/-- `queue.enqueue(self.frame_buf)` for a user frame (already in wire form), queue with room and
    without a frame of the same origin, id and type: stored, `True` -/
theorem enqueueFrameBuf_ok (s : NetState) (fb : Frame) (hfb : s.node.frameBuf = fb) (hwire : wireCopy fb = fb)
    (hplain : fb.header.ty ≠ MSG_FRAG_FIRST ∧ fb.header.ty ≠ MSG_FRAG_MORE ∧ fb.header.ty ≠ MSG_FRAG_LAST)
    (hroom : (s.node.queue.frames.length : Int) < s.node.queue.maxSize)
    (hnew : ∀ g ∈ s.node.queue.frames, ¬ (g.header.fromNode = fb.header.fromNode ∧
      g.header.frameId = fb.header.frameId ∧ g.header.ty = fb.header.ty)) :
    nexec enqueueFrameBuf s = (.ok true, s.enqueued fb) := by
  rw [enqueueFrameBuf_eq, hfb, enqueue_plain _ _ hplain, enqueueBase_ok _ _ hroom hnew, hwire]
  have hcond : (true = true ∧ (fb.header.ty ≠ MSG_FRAG_FIRST ∧ fb.header.ty ≠ MSG_FRAG_MORE ∨
      (!s.node.queue.frag) = true)) := ⟨rfl, Or.inl ⟨hplain.1, hplain.2.1⟩⟩
  simp only [hcond, if_true]
  have key : ∀ g1 : Node → Node, g1 s.node = s.node.pushFrame fb →
      (s.setNode g1).bumpId = s.enqueued fb := by
    intro g1 h1
    unfold NetState.enqueued
    rw [setNode_congr s g1 (fun n => n.pushFrame fb) h1]
  congr 1
  exact key _ rfl

/-- a user frame (already in wire form) for this node, queue with room and without a frame of the
    same origin, id and type: enqueued once; `_net_update` is told to carry on -/
theorem handleThis_user_ok (f ty : Nat) (s : NetState) (fb : Frame) (hcur : s.cur < s.nodes.length)
    (hfb : s.node.frameBuf = fb) (hwire : wireCopy fb = fb) (hty : fb.header.ty = ty)
    (husr : ty ≤ MAX_USR_DEF_MSG_TYPE)
    (hroom : (s.node.queue.frames.length : Int) < s.node.queue.maxSize)
    (hnew : ∀ g ∈ s.node.queue.frames, ¬ (g.header.fromNode = fb.header.fromNode ∧
      g.header.frameId = fb.header.frameId ∧ g.header.ty = fb.header.ty)) :
    nexec (handleThis (f + 1) ty) s = (.ok (true, ty), s.enqueued fb) := by
  have hne : ty ≠ NETWORK_PING ∧ ty ≠ MESH_ADDR_RESPONSE ∧ ty ≠ MESH_ADDR_REQUEST := by
    unfold MAX_USR_DEF_MSG_TYPE at husr
    unfold NETWORK_PING MESH_ADDR_RESPONSE MESH_ADDR_REQUEST
    omega
  have hplain : fb.header.ty ≠ MSG_FRAG_FIRST ∧ fb.header.ty ≠ MSG_FRAG_MORE ∧ fb.header.ty ≠ MSG_FRAG_LAST := by
    rw [hty]
    unfold MAX_USR_DEF_MSG_TYPE at husr
    unfold MSG_FRAG_FIRST MSG_FRAG_MORE MSG_FRAG_LAST
    omega
  rw [handleThis_enqueue f _ _ hne.1 hne.2.1 hne.2.2 (Or.inl husr),
    enqueueFrameBuf_ok s fb hfb hwire hplain hroom hnew]
  have hn : (s.enqueued fb).node.frameBuf.header.ty = ty := by
    show (NetState.setNode _ _).node.frameBuf.header.ty = ty
    rw [node_setNode _ _ hcur]; exact hty
  have hnot131 : ¬ (s.enqueued fb).node.frameBuf.header.ty = NETWORK_EXT_DATA := by
    rw [hn]
    unfold MAX_USR_DEF_MSG_TYPE at husr
    unfold NETWORK_EXT_DATA
    omega
  simp only [if_neg hnot131]

@[simp] theorem enqueued_cur (s : NetState) (fb : Frame) : (s.enqueued fb).cur = s.cur := rfl
@[simp] theorem enqueued_active (s : NetState) (fb : Frame) : (s.enqueued fb).active = s.active := rfl
@[simp] theorem enqueued_w (s : NetState) (fb : Frame) : (s.enqueued fb).w = s.w := rfl
@[simp] theorem enqueued_closed (s : NetState) (fb : Frame) : (s.enqueued fb).closed = s.closed := rfl
@[simp] theorem enqueued_len (s : NetState) (fb : Frame) : (s.enqueued fb).nodes.length = s.nodes.length := by
  simp [NetState.enqueued, NetState.bumpId]
@[simp] theorem withFrame_cur (s : NetState) (fb : Frame) : (s.withFrame fb).cur = s.cur := rfl
@[simp] theorem withFrame_active (s : NetState) (fb : Frame) : (s.withFrame fb).active = s.active := rfl
@[simp] theorem withFrame_w (s : NetState) (fb : Frame) : (s.withFrame fb).w = s.w := rfl
@[simp] theorem withFrame_closed (s : NetState) (fb : Frame) : (s.withFrame fb).closed = s.closed := rfl
@[simp] theorem withFrame_len (s : NetState) (fb : Frame) : (s.withFrame fb).nodes.length = s.nodes.length := by
  simp [NetState.withFrame]

theorem enqueued_node (s : NetState) (fb : Frame) (hcur : s.cur < s.nodes.length) :
    (s.enqueued fb).node = s.node.pushFrame fb := by
  show (NetState.setNode _ _).node = _
  rw [node_setNode _ _ hcur]

theorem withFrame_node (s : NetState) (fb : Frame) (hcur : s.cur < s.nodes.length) :
    (s.withFrame fb).node = { s.node with frameBuf := fb } := node_setNode _ _ hcur

theorem nodeAt_enqueued_ne (s : NetState) (fb : Frame) (i : Nat) (h : i ≠ s.cur) :
    (s.enqueued fb).nodeAt i = s.nodeAt i := by
  show (NetState.setNode _ _).nodeAt i = _
  rw [nodeAt_setNode, if_neg (fun hh => h hh.1)]

theorem nodeAt_withFrame_ne (s : NetState) (fb : Frame) (i : Nat) (h : i ≠ s.cur) :
    (s.withFrame fb).nodeAt i = s.nodeAt i := by
  unfold NetState.withFrame
  rw [nodeAt_setNode, if_neg (fun hh => h hh.1)]

/-- **A single user frame waiting at its destination is delivered by one `_net_update()`**: quiet closed
    network, the running node listening with exactly the packed frame `pk` of `fr` in its RX FIFO,
    `fr` addressed to it, of a user type, its queue having room and no frame with the same origin,
    id and type.  The call returns the type; the queue has gained the wire copy of `fr`; the RX FIFO
    is empty; one header id was consumed; nothing else of the network changed. -/
theorem netUpdate_deliver (hc : L3Contracts) (f : Nat) (s : NetState) (L : LinkCfg) (P : List Bytes)
    (p : Nat) (pk : Bytes) (fr : Frame) (t : Nat)
    (hcur : s.cur < s.nodes.length) (hclosed : s.closed = true) (hfuel : s.nodes.length + 2 ≤ f)
    (hq : Quiet s) (hWf : s.drv.Wf) (hN : NodeRadio L P true true 0x3E s.node.rf s.drv.radio)
    (harr : s.node.arrivals = []) (hfifo : s.drv.radio.rxFifo = [{ pipe := p, data := pk }]) (hp : p ≤ 5)
    (hfr : fr.header.msgType = .int t) (hpk : fr.pack = .ok pk) (hmsg : fr.message.length ≤ MAX_FRAG_SIZE)
    (hto : (wireCopy fr).header.toNode = s.node.a.addr)
    (hvt : isValid (wireCopy fr).header.toNode = true) (hvf : isValid (wireCopy fr).header.fromNode = true)
    (hty : t &&& 0xFF ≤ MAX_USR_DEF_MSG_TYPE)
    (hroom : (s.node.queue.frames.length : Int) < s.node.queue.maxSize)
    (hnew : ∀ g ∈ s.node.queue.frames, ¬ (g.header.fromNode = (wireCopy fr).header.fromNode ∧
      g.header.frameId = (wireCopy fr).header.frameId ∧ g.header.ty = (wireCopy fr).header.ty)) :
    ∃ D1 D2 : DrvState, nexec (netUpdate (f + 3) 0) s =
        (.ok (t &&& 0xFF), ((((s.afterRf D1).withFrame (wireCopy fr)).enqueued (wireCopy fr)).afterRf D2)) ∧
      DrvFrame s.drv D1 ∧ DrvFrame D1 D2 ∧ NodeRadio L P true true 0x3E D2.d D2.radio ∧ D2.radio.rxFifo = [] := by
  have hpkl : pk.length = 8 + fr.message.length := pack_length hpk
  -- first read: the frame
  obtain ⟨D1, e1, F1, N1, x1⟩ := rfRead_head hc (f + 1) s L P true true 0x3E hcur hclosed (by omega) hq hWf hN harr
    (by
      intro e he
      rw [hfifo] at he
      simp only [List.mem_singleton] at he
      subst he
      unfold MAX_FRAG_SIZE at hmsg
      exact ⟨hp, by simp only []; omega, by simp only []; omega⟩)
  rw [hfifo] at e1 x1
  simp only [List.head?_cons, Option.map_some, List.tail_cons] at e1 x1
  have hn1 : (s.afterRf D1).node = { s.node with rf := D1.d } := afterRf_node s D1 hcur
  have hun : (s.afterRf D1).node.frameBuf.unpack pk = (wireCopy fr, true) := unpack_of_pack fr _ t hfr pk hpk
  have hwty : (wireCopy fr).header.ty = t &&& 0xFF := by simp [wireCopy, Header.ty, hfr]
  have hidem : wireCopy (wireCopy fr) = wireCopy fr := by
    unfold wireCopy
    simp only [Header.ty, Nat.and_assoc, Nat.and_self]
  rw [show f + 3 = (f + 2) + 1 from rfl, netUpdate_step, e1]
  simp only [hun, hvt, hvf, Bool.not_true, Bool.or_self, Bool.false_eq_true, if_false]
  have hto' : (wireCopy fr).header.toNode = (s.afterRf D1).node.a.addr := by rw [hn1]; exact hto
  simp only [if_pos hto']
  -- dispatch: enqueue
  have hc1 : (s.afterRf D1).cur < (s.afterRf D1).nodes.length := by simpa using hcur
  have hc2 : ((s.afterRf D1).withFrame (wireCopy fr)).cur < ((s.afterRf D1).withFrame (wireCopy fr)).nodes.length := by
    simpa using hcur
  have hn2 : ((s.afterRf D1).withFrame (wireCopy fr)).node = { s.node with rf := D1.d, frameBuf := wireCopy fr } := by
    rw [withFrame_node _ _ hc1, hn1]
  rw [hwty, show f + 2 = (f + 1) + 1 from rfl,
    handleThis_user_ok (f + 1) (t &&& 0xFF) _ (wireCopy fr) hc2 (by rw [hn2]) hidem hwty hty
      (by rw [hn2]; exact hroom) (by rw [hn2]; exact hnew)]
  simp only [if_true]
  -- second read: nothing
  generalize hs3 : (((s.afterRf D1).withFrame (wireCopy fr)).enqueued (wireCopy fr)) = s3
  have hs3c : s3.cur = s.cur := by rw [← hs3]; rfl
  have hs3a : s3.active = s.active := by rw [← hs3]; rfl
  have hs3l : s3.nodes.length = s.nodes.length := by rw [← hs3]; simp
  have hs3w : s3.w = D1.w := by rw [← hs3]; rfl
  have hs3cl : s3.closed = true := by rw [← hs3]; exact hclosed
  have hs3n : s3.node = Node.pushFrame { s.node with rf := D1.d, frameBuf := wireCopy fr } (wireCopy fr) := by
    rw [← hs3, enqueued_node _ _ hc2, hn2]
  have hs3d : s3.drv = D1 := by
    unfold NetState.drv; rw [hs3n, hs3w]; rfl
  have hs3q : Quiet s3 := by
    apply hq.of_eq hs3l hs3c hs3a
    intro i hi hic hia
    unfold NetState.radioAt NetState.ridAt
    have : s3.nodeAt i = s.nodeAt i := by
      rw [← hs3, nodeAt_enqueued_ne _ _ i (by simpa using hic), nodeAt_withFrame_ne _ _ i (by simpa using hic),
        nodeAt_afterRf_ne s D1 i hic]
    rw [this, hs3w]
    by_cases h : (s.nodeAt i).rf.rid = s.drv.d.rid
    · have h0 := hq i hi hic hia
      unfold NetState.radioAt NetState.ridAt at h0
      rw [h0, h, ← F1.rid]
      exact x1
    · rw [F1.others _ h]; rfl
  obtain ⟨D2, e2, F2, N2, x2⟩ := rfRead_head hc f s3 L P true true 0x3E (by rw [hs3c, hs3l]; exact hcur) hs3cl
    (by rw [hs3l]; omega) hs3q (by rw [hs3d]; exact F1.wf hWf) (by rw [hs3n, hs3d]; exact N1)
    (by rw [hs3n]; exact harr) (by rw [hs3d, x1]; simp)
  rw [hs3d, x1] at e2 x2
  simp only [List.head?_nil, Option.map_none, List.tail_nil] at e2 x2
  rw [netUpdate_step, e2]
  simp only []
  refine ⟨D1, D2, ?_, F1, hs3d ▸ F2, N2, x2⟩
  rw [hs3]

/-- **`_write(to, TX_NORMAL)` to a direct neighbour**, single frame, closed quiet network, loss-free:
    one hop (`hop_single`), no NETWORK_ACK business whatever the type, listening restored, `True`. -/
theorem nodeWrite_direct (hc : L3Contracts) (f : Nat) (s : NetState) (L : LinkCfg) (Pa Pb : List Bytes)
    (b p wd tp t : Nat) (A pk : Bytes)
    (hcur : s.cur < s.nodes.length) (hclosed : s.closed = true)
    (hfuel : s.nodes.length + 2 ≤ f) (hquiet : Quiet s) (hWf : s.drv.Wf)
    (hNa : NodeRadio L Pa true true 0x3E s.node.rf s.drv.radio)
    (hb : b < s.nodes.length) (hbc : b ≠ s.cur) (hba : b ∉ s.active)
    (hrid : ∀ i, i < s.nodes.length → i ≠ s.cur → s.ridAt i ≠ s.ridAt s.cur)
    (hNb : NodeRadio L Pb true true 0x3E (s.nodeAt b).rf (s.radioAt b))
    (haddr : pipeAddress s.node.cfg wd tp = .ok A) (hA : Pb[p]? = some A) (hp1 : 1 ≤ p) (hp5 : p ≤ 5)
    (hlt : ∀ q, q < p → Pb[q]? ≠ some A) (hdup : NotDup (s.radioAt b) pk)
    (hothers : ∀ i pid, i ≠ s.ridAt s.cur → i ≠ s.ridAt b →
      (s.w.radio i).listensTo (unicastPacket L A pk pid) = none)
    (hfaults : s.w.faults = []) (hmsg : s.node.frameBuf.message.length ≤ MAX_FRAG_SIZE)
    (hpk : s.node.frameBuf.pack = .ok pk) (hnl : wd ≠ s.node.a.addr)
    (ht : s.node.frameBuf.header.msgType = .int t)
    (hl2p : logi2phys s.node.a wd TX_NORMAL = (wd, tp, false)) :
    ∃ D : DrvState, nexec (nodeWrite (f + 2) wd TX_NORMAL) s = (.ok true, s.afterRf D) ∧
      D.d.rid = s.node.rf.rid ∧ D.w.radios.length = s.w.radios.length ∧ D.w.faults = [] ∧
      NodeRadio L Pa true true 0x3E D.d D.radio ∧ D.radio.rxFifo = s.drv.radio.rxFifo ∧
      D.radio.lastRx = s.drv.radio.lastRx ∧
      (∃ pid, D.w.radio (s.ridAt b) =
        { (s.radioAt b) with rxFifo := (s.radioAt b).rxFifo ++ [{ pipe := p, data := pk }],
                              flags := (s.radioAt b).flags ||| 0x40, rpd := true,
                              lastRx := some { pid := pid, addr := A, data := pk }, lastAck := none }) ∧
      (∀ i, i ≠ s.ridAt s.cur → i ≠ s.ridAt b → D.w.radio i = s.w.radio i) := by
  obtain ⟨D1, e1, r1, l1, f1, N1, x1, lr1, hrb, hoth⟩ := hop_single hc f s L Pa Pb b p wd tp A pk hcur hclosed hfuel
    hquiet hWf hNa hb hbc hba hrid hNb haddr hA hp1 hp5 hlt hdup hothers hfaults hmsg hpk hnl
  have hW1 : D1.Wf := by
    unfold DrvState.Wf at *
    rw [r1, l1]; exact hWf
  obtain ⟨D2, e2, e3, F2, N2, x2⟩ := restore hc s D1 L Pa true hcur hW1 N1
  have hjb : s.ridAt b ≠ D1.d.rid := by rw [r1]; exact hrid b hb hbc
  refine ⟨D2, ?_, by rw [F2.rid, r1], by rw [F2.len, l1], by rw [F2.faults, f1], N2, by rw [x2, x1],
    by rw [F2.lastRx, lr1], ?_, ?_⟩
  · rw [show f + 2 = (f + 1) + 1 from rfl, nodeWrite_step_raw (f + 1) wd TX_NORMAL s t ht, hl2p]
    have hpre : writePrelude s t wd TX_NORMAL = s := by
      unfold writePrelude
      rw [if_neg]
      rintro ⟨h, _⟩
      exact absurd h (by decide)
    simp only [hpre, e1, if_true]
    have e01 : (TX_NORMAL = TX_ROUTED) = False := eq_false (by decide)
    simp only [e01, false_and, if_false, ne_eq, not_true_eq_false, ite_self]
    unfold ackCont
    simp only [Bool.not_false, if_true]
    rw [nexec_bind, e2]
    simp only []
    rw [nexec_bind, e3]
    rfl
  · obtain ⟨pid, hpid⟩ := hrb
    exact ⟨pid, by rw [F2.others _ hjb, hpid]⟩
  · intro i hic hib
    rw [F2.others i (by rw [r1]; exact hic), hoth i hic hib]

/-- **`_write(wd, st)` of a frame whose type asks for no NETWORK_ACK** (not in 65..191), single frame,
    closed quiet network, loss-free, to the hop `_logi_2_phys` names: one hop (`hop_single`),
    listening restored, `True` — originated (`TX_NORMAL`) or forwarded (`TX_ROUTED`) alike. -/
theorem nodeWrite_hop_noack (hc : L3Contracts) (f : Nat) (s : NetState) (L : LinkCfg) (Pa Pb : List Bytes)
    (b p wd tn tp st t : Nat) (A pk : Bytes)
    (hcur : s.cur < s.nodes.length) (hclosed : s.closed = true)
    (hfuel : s.nodes.length + 2 ≤ f) (hquiet : Quiet s) (hWf : s.drv.Wf)
    (hNa : NodeRadio L Pa true true 0x3E s.node.rf s.drv.radio)
    (hb : b < s.nodes.length) (hbc : b ≠ s.cur) (hba : b ∉ s.active)
    (hrid : ∀ i, i < s.nodes.length → i ≠ s.cur → s.ridAt i ≠ s.ridAt s.cur)
    (hNb : NodeRadio L Pb true true 0x3E (s.nodeAt b).rf (s.radioAt b))
    (haddr : pipeAddress s.node.cfg tn tp = .ok A) (hA : Pb[p]? = some A) (hp1 : 1 ≤ p) (hp5 : p ≤ 5)
    (hlt : ∀ q, q < p → Pb[q]? ≠ some A) (hdup : NotDup (s.radioAt b) pk)
    (hothers : ∀ i pid, i ≠ s.ridAt s.cur → i ≠ s.ridAt b →
      (s.w.radio i).listensTo (unicastPacket L A pk pid) = none)
    (hfaults : s.w.faults = []) (hmsg : s.node.frameBuf.message.length ≤ MAX_FRAG_SIZE)
    (hpk : s.node.frameBuf.pack = .ok pk) (hnl : tn ≠ s.node.a.addr)
    (ht : s.node.frameBuf.header.msgType = .int t)
    (hl2p : logi2phys s.node.a wd st = (tn, tp, false)) (hnoack : ¬ (64 < t ∧ t < 192)) :
    ∃ D : DrvState, nexec (nodeWrite (f + 2) wd st) s = (.ok true, s.afterRf D) ∧
      D.d.rid = s.node.rf.rid ∧ D.w.radios.length = s.w.radios.length ∧ D.w.faults = [] ∧
      NodeRadio L Pa true true 0x3E D.d D.radio ∧ D.radio.rxFifo = s.drv.radio.rxFifo ∧
      D.radio.lastRx = s.drv.radio.lastRx ∧
      (∃ pid, D.w.radio (s.ridAt b) =
        { (s.radioAt b) with rxFifo := (s.radioAt b).rxFifo ++ [{ pipe := p, data := pk }],
                              flags := (s.radioAt b).flags ||| 0x40, rpd := true,
                              lastRx := some { pid := pid, addr := A, data := pk }, lastAck := none }) ∧
      (∀ i, i ≠ s.ridAt s.cur → i ≠ s.ridAt b → D.w.radio i = s.w.radio i) := by
  obtain ⟨D1, e1, r1, l1, f1, N1, x1, lr1, hrb, hoth⟩ := hop_single hc f s L Pa Pb b p tn tp A pk hcur hclosed hfuel
    hquiet hWf hNa hb hbc hba hrid hNb haddr hA hp1 hp5 hlt hdup hothers hfaults hmsg hpk hnl
  have hW1 : D1.Wf := by
    unfold DrvState.Wf at *
    rw [r1, l1]; exact hWf
  obtain ⟨D2, e2, e3, F2, N2, x2⟩ := restore hc s D1 L Pa true hcur hW1 N1
  have hjb : s.ridAt b ≠ D1.d.rid := by rw [r1]; exact hrid b hb hbc
  refine ⟨D2, ?_, by rw [F2.rid, r1], by rw [F2.len, l1], by rw [F2.faults, f1], N2, by rw [x2, x1],
    by rw [F2.lastRx, lr1], ?_, ?_⟩
  · rw [show f + 2 = (f + 1) + 1 from rfl, nodeWrite_step_raw (f + 1) wd st s t ht, hl2p]
    have hpre : writePrelude s t wd st = s := by
      unfold writePrelude
      rw [if_neg]
      rintro ⟨_, _, h⟩
      exact hnoack h
    simp only [hpre, e1, if_true, if_neg hnoack]
    unfold ackCont
    simp only [Bool.not_false, if_true]
    rw [nexec_bind, e2]
    simp only []
    rw [nexec_bind, e3]
    rfl
  · obtain ⟨pid, hpid⟩ := hrb
    exact ⟨pid, by rw [F2.others _ hjb, hpid]⟩
  · intro i hic hib
    rw [F2.others i (by rw [r1]; exact hic), hoth i hic hib]

/-- `update()` of a node that is not a mesh master is `_net_update()` -/
theorem nodeUpdate_plain (f : Nat) (s s' : NetState) (t : Nat)
    (h : nexec (netUpdate f 0) s = (.ok t, s')) (hk : s'.node.kind ≠ .meshMaster) :
    nexec (nodeUpdate (f + 1)) s = (.ok t, s') := by
  rw [nodeUpdate.eq_2, nexec_bind, h]
  simp only []
  rw [nexec_bind, nexec_getNode]
  simp only [hk, ne_eq, not_false_eq_true, if_true, nexec_pure]

/-- entry of an API call as node `i` (`Drv/NetS.lean: runAs`) -/
def NetState.callAs (s : NetState) (i : Nat) : NetState :=
  { s with cur := i, active := [i], w := { s.w with clock := (s.nodes.getD i default).clock } }

/-- return from an API call (`Drv/NetS.lean: runAs`): the node's clock is saved -/
def NetState.ret (s : NetState) : NetState :=
  { s with nodes := s.nodes.modify s.cur (fun n => { n with clock := s.w.clock }), active := [] }

theorem nodeAt_ret (s : NetState) (i : Nat) :
    (s.ret).nodeAt i = if i = s.cur ∧ s.cur < s.nodes.length then { s.nodeAt i with clock := s.w.clock } else s.nodeAt i :=
  nodeAt_setNode s _ i

theorem nodeAt_callAs (s : NetState) (i j : Nat) : (s.callAs i).nodeAt j = s.nodeAt j := rfl

theorem maskInt_natCast (n m : Nat) (h : n ≤ m) : maskInt (n : Int) m = n := by
  unfold maskInt
  have : ((n : Int) % ((m : Int) + 1)) = (n : Int) := Int.emod_eq_of_lt (by omega) (by omega)
  rw [this]; simp

theorem isValid_val {d : List Nat} (hd : IsNode d) : isValid (val d) = true := by
  unfold isValid
  split
  · rfl
  · rw [isValidGo_iff]
    refine ⟨d, hd.1, rfl, Or.inr ?_⟩
    have := hd.2
    unfold VALID_DIGIT_LIMIT
    omega

/-- the six addresses a tree node listens on (C04): pipe `p`'s address is `_pipe_address(node, p)`,
    five bytes, and no other pipe of the node has it -/
theorem listen_addrs (cfg : AddrCfg) (hcfg : Nrf.Props.C04.CfgOk cfg) (y : List Nat) (hy : IsNode y)
    (P : List Bytes) (hP : beginPipes cfg (val y) = .ok P) (p : Nat) (hp1 : 1 ≤ p) (hp5 : p ≤ 5) :
    ∃ A, pipeAddress cfg (val y) p = .ok A ∧ P[p]? = some A ∧ ∀ q, q < p → P[q]? ≠ some A := by
  obtain ⟨l, hl, _, _, hget, _⟩ := Nrf.Props.C04.C04_hw cfg hcfg y hy
  rw [hP] at hl
  have hPl : P = l := Except.ok.inj hl
  subst hPl
  obtain ⟨A, _, hA, _, _⟩ := Nrf.Props.C04.C04_phys cfg hcfg y hy p hp5
  refine ⟨A, hA, ?_, ?_⟩
  · rw [← hget p hp5, hA]; rfl
  · intro q hq hc
    have hq5 : q ≤ 5 := by omega
    have h1 := hget q hq5
    rw [hc] at h1
    have hqa : pipeAddress cfg (val y) q = .ok A := by
      cases hpa : pipeAddress cfg (val y) q with
      | error e => rw [hpa] at h1; cases h1
      | ok a' => rw [hpa] at h1; simp [Except.toOption] at h1; rw [h1]
    have := Nrf.Props.C04.C04_unique cfg hcfg y y hy hy p q hp1 hp5 hq5 (hA.trans hqa.symm)
    omega

/-- a radio after it stored received payloads: RX FIFO `fifo`, RX_DR latched, reception history `last` -/
def _root_.Nrf.Radio.withRx (r : Radio) (fifo : List RxEntry) (last : LastRx) : Radio :=
  { r with rxFifo := fifo, flags := r.flags ||| 0x40, rpd := true, lastRx := some last, lastAck := none }

/-- storing one payload with a pipe number 0..5 keeps the node-radio predicate -/
theorem _root_.Nrf.NodeRadio.withRx {L : LinkCfg} {P : List Bytes} {rx ce : Bool} {aa : Nat} {d : Rf24} {r : Radio}
    (h : NodeRadio L P rx ce aa d r) (p : Nat) (data : Bytes) (last : LastRx) (hp : p ≤ 5) :
    NodeRadio L P rx ce aa d (r.withRx [{ pipe := p, data := data }] last) :=
  h.of_eq_cfg rfl (by
    intro e he
    have : e = { pipe := p, data := data } := by simpa [Radio.withRx] using he
    rw [this]; exact hp)

/-- the state `write()` hands to `_write`: two ids consumed, `frame_buf` = the private copy -/
def prepared (s : NetState) (c : Frame) : NetState :=
  ({ s with nextId := (((s.nextId + 1) &&& 0xFFFF) + 1) &&& 0xFFFF } : NetState).setNode
    fun n => { n with frameBuf := wireCopy c }

theorem userType_mask (ty : Int) (h : 0 ≤ ty ∧ ty ≤ 127) :
    maskInt ty 0xFF = ty.toNat ∧ ty.toNat &&& 0xFF = ty.toNat ∧ ty.toNat ≤ 127 := by
  have h1 : maskInt ty 0xFF = ty.toNat := by
    unfold maskInt
    have : ty % ((0xFF : Nat) + 1 : Int) = ty := Int.emod_eq_of_lt h.1 (by omega)
    rw [this]
  have h3 : ty.toNat ≤ 127 := by omega
  refine ⟨h1, ?_, h3⟩
  rw [and_ff]; omega


end Nrf.Net
