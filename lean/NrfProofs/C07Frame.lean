/-
C07 / C15 — frame relations on driver states.

`Fr s s'`      : what every step of an `RF24` method guarantees (same radio index, the radio still
                 exists, the other radios' configuration untouched, time does not run backwards).
`Same b s s'`  : moreover no shadow attribute but the cached status byte and no configuration
                 register of the own radio changed (`b = true`: except possibly the CE pin).
`Keeps b m`    : the method `m` relates its initial and final state by `Same b`, whatever it returns
                 or raises.  Proved here for everything the network layer calls that does not
                 configure: `read`, `available`, `send`, `resend` (and what they are made of).
-/
import NrfProofs.NetExecC07

namespace Nrf
open Rf24 Nrf.Net

/-- SPI transactions that cannot change a configuration register -/
def Harmless (out : Bytes) : Prop := ∀ r : Radio, (r.xfer out).1.cfgOf = r.cfgOf

theorem harmless_read (reg : Nat) (d : Bytes) (h : reg < 0x20) : Harmless (reg :: d) := by
  intro r; rw [xfer_rreg_cfg r reg d h]

theorem harmless_status (v : Nat) : Harmless [0x27, v] := by
  intro r
  have : (0x27 : Nat) = 0x20 ||| 7 := by decide
  rw [this, xfer_wreg_cfg r 7 v (by decide)]
  rfl

/-- a command byte that is neither a register write nor ACTIVATE -/
theorem harmless_cmd (c : Nat) (d : Bytes) (h : 0x40 ≤ c) (h50 : c ≠ 0x50) : Harmless (c :: d) := by
  intro r
  unfold Radio.xfer Radio.decodeCmd
  have a : ¬ c < 0x20 := by omega
  have b : ¬ c < 0x40 := by omega
  simp only [a, b, h50, ↓reduceIte]
  repeat' split
  all_goals first
    | rfl
    | exact Radio.readPayload_cfgOf r _
    | exact Radio.writePayload_cfgOf r _ _

/-- the cached part of the driver object that an SPI transaction refreshes is the status byte only -/
structure Fr (s s' : DrvState) : Prop where
  rid : s'.d.rid = s.d.rid
  wf : s'.Wf
  other : ∀ j, j ≠ s.d.rid → s'.cfgAt j = s.cfgAt j
  len : s'.w.radios.length = s.w.radios.length
  clock : s.w.clock ≤ s'.w.clock

theorem Fr.refl (s : DrvState) (hw : s.Wf) : Fr s s := ⟨rfl, hw, fun _ _ => rfl, rfl, Nat.le_refl _⟩

theorem Fr.trans {a b c : DrvState} (h1 : Fr a b) (h2 : Fr b c) : Fr a c :=
  ⟨h2.rid.trans h1.rid, h2.wf, fun j hj => (h2.other j (by rw [h1.rid]; exact hj)).trans (h1.other j hj),
   h2.len.trans h1.len, Nat.le_trans h1.clock h2.clock⟩

theorem deliver_clock (w : World) (s : Nat) (k : Packet) : (w.deliver s k).1.clock = w.clock := rfl

theorem nextFault_clock (w : World) : w.nextFault.1.clock = w.clock := by
  unfold World.nextFault; split <;> rfl

theorem attemptLoop_clock (s : Nat) (k : Packet) (n made : Nat) (w : World) :
    (World.attemptLoop s k n made w).1.clock = w.clock := by
  induction n generalizing made w with
  | zero => rfl
  | succ n ih =>
    unfold World.attemptLoop
    simp only
    have h1 := nextFault_clock w
    split
    · rw [ih]; exact h1
    · rw [ih]; exact h1
    · split
      · split
        · exact h1
        · rw [ih]; exact h1
      · rw [ih]; exact h1

theorem cycle_clock (w : World) (s : Nat) (e : TxEntry) (rest : List TxEntry) :
    (w.cycle s e rest).clock = w.clock := by
  unfold World.cycle
  dsimp only
  split
  · show (if _ then _ else _ : World).clock = _
    split
    · exact nextFault_clock _
    · exact nextFault_clock _
  · split
    · exact attemptLoop_clock _ _ _ _ _
    · exact attemptLoop_clock _ _ _ _ _

theorem tryTransmit_clock (s f : Nat) (w : World) : (World.tryTransmit s f w).clock = w.clock := by
  induction f generalizing w with
  | zero => rfl
  | succ f ih =>
    unfold World.tryTransmit
    dsimp only
    split
    · split
      · rfl
      · split
        · rfl
        · rw [ih, cycle_clock]
    · rfl

theorem spi_clock (w : World) (s : Nat) (out : Bytes) :
    (w.spi s out).1.clock = max w.clock (w.busyUntil.getD s 0) + SPI_COST_NS := by
  unfold World.spi
  dsimp only
  rw [tryTransmit_clock]
  rfl

theorem setCE_clock (w : World) (s : Nat) (v : Bool) :
    (w.setCE s v).clock = max w.clock (w.busyUntil.getD s 0) := by
  unfold World.setCE
  dsimp only
  rw [tryTransmit_clock]
  rfl

theorem Fr.spi (s : DrvState) (out : Bytes) (hw : s.Wf) : Fr s (s.spiStep out) :=
  ⟨rfl, (spiStep_wf _ _).2 hw, fun j hj => spiStep_cfgAt s out hw j hj, World.spi_length _ _ _, by
    show s.w.clock ≤ (s.w.spi s.d.rid out).1.clock
    rw [spi_clock]; omega⟩

/-- … and it takes time -/
theorem spiStep_clock (s : DrvState) (out : Bytes) : s.w.clock + SPI_COST_NS ≤ (s.spiStep out).w.clock := by
  show _ ≤ (s.w.spi s.d.rid out).1.clock
  rw [spi_clock]; omega

theorem Fr.modShadow (s : DrvState) (f : Rf24 → Rf24) (hw : s.Wf) (hf : (f s.d).rid = s.d.rid) :
    Fr s (s.modShadow f) :=
  ⟨hf, (modShadow_wf _ _ hf).2 hw, fun _ _ => rfl, rfl, Nat.le_refl _⟩

/-- driving the CE pin -/
def DrvState.ceStep (s : DrvState) (v : Bool) : DrvState := { s with w := s.w.setCE s.d.rid v }

/-- `time.sleep` -/
def DrvState.sleepStep (s : DrvState) (n : Nat) : DrvState := { s with w := s.w.sleep n }

theorem ceStep_cfg (s : DrvState) (v : Bool) (hw : s.Wf) : (s.ceStep v).cfg = { s.cfg with ce := v } := by
  unfold DrvState.cfg DrvState.ceStep
  simp only
  rw [World.setCE_cfgOf _ _ _ hw]
  simp

theorem ceStep_cfgAt (s : DrvState) (v : Bool) (hw : s.Wf) (j : Nat) (hj : j ≠ s.d.rid) :
    (s.ceStep v).cfgAt j = s.cfgAt j := by
  unfold DrvState.cfgAt DrvState.ceStep
  simp only
  rw [World.setCE_cfgOf _ _ _ hw]
  simp [hj]

theorem Fr.ce (s : DrvState) (v : Bool) (hw : s.Wf) : Fr s (s.ceStep v) :=
  ⟨rfl, by unfold DrvState.Wf DrvState.ceStep; simp only [World.setCE_length]; exact hw,
   fun j hj => ceStep_cfgAt s v hw j hj, World.setCE_length _ _ _, by
    show s.w.clock ≤ (s.w.setCE s.d.rid v).clock
    rw [setCE_clock]; omega⟩

theorem Fr.sleep (s : DrvState) (n : Nat) (hw : s.Wf) : Fr s (s.sleepStep n) :=
  ⟨rfl, hw, fun _ _ => rfl, rfl, by show s.w.clock ≤ s.w.clock + n; omega⟩

@[simp] theorem dwp_setCE' (E : PyErr → DrvState → Prop) (v : Bool) (Q : Unit → DrvState → Prop)
    (s : DrvState) : dwp E (setCE v) Q s = Q () (s.ceStep v) := rfl
@[simp] theorem dwp_sleepNs' (E : PyErr → DrvState → Prop) (n : Nat) (Q : Unit → DrvState → Prop)
    (s : DrvState) : dwp E (Rf24.sleepNs n) Q s = Q () (s.sleepStep n) := rfl

/-- the configuration registers of a radio without the CE pin -/
def Radio.noCE (r : Radio) : Radio := { r with ce := false }

/-- nothing but FIFOs, flags, counters, time and the cached status byte changed (`b`: and possibly
    the CE pin of the own radio) -/
structure Same (b : Bool) (s s' : DrvState) : Prop extends Fr s s' where
  d : s'.d = { s.d with status := s'.d.status }
  regs : s'.cfg.noCE = s.cfg.noCE
  ce : b = false → s'.cfg.ce = s.cfg.ce

theorem Same.refl (b : Bool) (s : DrvState) (hw : s.Wf) : Same b s s :=
  { Fr.refl s hw with d := rfl, regs := rfl, ce := fun _ => rfl }

theorem Same.trans {b : Bool} {x y z : DrvState} (h1 : Same b x y) (h2 : Same b y z) : Same b x z :=
  { h1.toFr.trans h2.toFr with
    d := by rw [h2.d, h1.d]
    regs := h2.regs.trans h1.regs
    ce := fun hb => (h2.ce hb).trans (h1.ce hb) }

theorem Same.weaken {b : Bool} {x y : DrvState} (h : Same false x y) : Same b x y :=
  { h.toFr with d := h.d, regs := h.regs, ce := fun _ => h.ce rfl }

theorem Same.cfg {x y : DrvState} (h : Same false x y) : y.cfg = x.cfg := by
  have h1 := h.regs
  have h2 := h.ce rfl
  unfold Radio.noCE at h1
  cases hx : x.cfg; cases hy : y.cfg
  rw [hx, hy] at h1 h2
  simp only at h2
  subst h2
  simp only [Radio.mk.injEq] at h1 ⊢
  simp only [h1, and_self]

theorem Same.spi {b : Bool} (s : DrvState) (out : Bytes) (hw : s.Wf) (hH : Harmless out) :
    Same b s (s.spiStep out) :=
  Same.weaken
    { Fr.spi s out hw with
      d := rfl
      regs := by rw [spiStep_cfg _ _ hw, hH]; rfl
      ce := fun _ => by rw [spiStep_cfg _ _ hw, hH]; rfl }

theorem Same.ceStep (s : DrvState) (v : Bool) (hw : s.Wf) : Same true s (s.ceStep v) :=
  { Fr.ce s v hw with
    d := rfl
    regs := by rw [ceStep_cfg _ _ hw]; rfl
    ce := fun h => by cases h }

theorem Same.sleepStep {b : Bool} (s : DrvState) (n : Nat) (hw : s.Wf) : Same b s (s.sleepStep n) :=
  { Fr.sleep s n hw with d := rfl, regs := rfl, ce := fun _ => rfl }

/-- a step appended to a `Same` chain -/
theorem Same.step {b : Bool} {s0 s s' : DrvState} (h : Same b s0 s) (h' : Same b s s') : Same b s0 s' :=
  h.trans h'

/-- `m` keeps shadows and configuration, whatever it returns or raises -/
def Keeps {α} (b : Bool) (m : DrvM α) : Prop :=
  ∀ s0 s, Same b s0 s → dwp (fun _ s' => Same b s0 s') m (fun _ s' => Same b s0 s') s

theorem Keeps.use {α} {b : Bool} {m : DrvM α} (hk : Keeps b m) {s0 s : DrvState} (hs : Same b s0 s)
    {E : PyErr → DrvState → Prop} {Q : α → DrvState → Prop}
    (hE : ∀ e s', Same b s0 s' → E e s') (hQ : ∀ a s', Same b s0 s' → Q a s') : dwp E m Q s :=
  (hk s0 s hs).mono hE hQ

theorem Keeps.weaken {α} {m : DrvM α} (hk : Keeps false m) : Keeps true m := by
  intro s0 s hs
  have := hk s s (Same.refl _ _ hs.wf)
  exact this.mono (fun _ _ h => hs.trans h.weaken) (fun _ _ h => hs.trans h.weaken)

/-! ### the primitives -/

theorem keeps_regRead (b : Bool) (reg : Nat) (h : reg < 0x20) : Keeps b (regRead reg) := by
  intro s0 s hs
  rw [dwp_regRead]
  exact hs.trans (Same.spi _ _ hs.wf (harmless_read _ _ h))

theorem keeps_regCmd (b : Bool) (c : Nat) (h : 0x40 ≤ c) (h50 : c ≠ 0x50) : Keeps b (regCmd c) := by
  intro s0 s hs
  rw [dwp_regCmd]
  exact hs.trans (Same.spi _ _ hs.wf (harmless_cmd _ _ h h50))

theorem keeps_flushRx (b : Bool) : Keeps b flushRx := keeps_regCmd b _ (by decide) (by decide)
theorem keeps_flushTx (b : Bool) : Keeps b flushTx := keeps_regCmd b _ (by decide) (by decide)

theorem keeps_update (b : Bool) : Keeps b update := by
  intro s0 s hs
  unfold update
  simp only [dwp_bind, dwp_regCmd, dwp_pure]
  exact hs.trans (Same.spi _ _ hs.wf (harmless_cmd _ _ (by decide) (by decide)))

theorem keeps_clearStatusFlags (b : Bool) (x y z : Bool) : Keeps b (clearStatusFlags x y z) := by
  intro s0 s hs
  unfold clearStatusFlags
  rw [dwp_regWrite_nat _ _ _ _ _ (by decide)]
  split
  · exact hs
  · exact hs.trans (Same.spi _ _ hs.wf (harmless_status _))

theorem keeps_fifo (b : Bool) (x : Bool) (y : Option Bool) : Keeps b (fifo x y) := by
  intro s0 s hs
  unfold fifo
  simp only [dwp_bind, dwp_regRead]
  have h := hs.trans (Same.spi (b := b) s [0x17, 0] hs.wf (harmless_read _ _ (by decide)))
  cases y <;> exact h

theorem keeps_available (b : Bool) : Keeps b available := by
  intro s0 s hs
  unfold available
  simp only [dwp_bind, dwp_getD, dwp_pure]
  exact (keeps_update b s0 s hs).mono (fun _ _ h => h) (fun _ _ h => h)

theorem keeps_any (b : Bool) : Keeps b Rf24.any := by
  intro s0 s hs
  unfold Rf24.any
  simp only [dwp_bind, dwp_regRead, dwp_getD, dwp_ite, dwp_pure]
  have h := hs.trans (Same.spi (b := b) s [0x60, 0] hs.wf (harmless_cmd _ _ (by decide) (by decide)))
  repeat' split
  all_goals exact h

theorem keeps_read (b : Bool) (l : Option Nat) : Keeps b (Rf24.read l) := by
  intro s0 s hs
  have body : ∀ (size : Nat) s1, Same b s0 s1 →
      (if size = 0 then Same b s0 s1 else
        dwp (fun _ s' => Same b s0 s') (clearStatusFlags true false false)
          (fun _ s' => Same b s0 s') (s1.spiStep (0x61 :: zeros size))) := by
    intro size s1 h1
    split
    · exact h1
    · exact keeps_clearStatusFlags b _ _ _ s0 _
        (h1.trans (Same.spi _ _ h1.wf (harmless_cmd _ _ (by decide) (by decide))))
  unfold Rf24.read
  cases l with
  | some n =>
    simp only [dwp_bind, dwp_ite, dwp_pure, dwp_regReadBytes]
    exact body n s hs
  | none =>
    simp only [dwp_bind, dwp_ite, dwp_pure, dwp_regReadBytes]
    exact (keeps_any b s0 s hs).mono (fun _ _ h => h) (fun a s1 h1 => body a s1 h1)

theorem keeps_pollFlags (b : Bool) (f : Nat) : Keeps b (pollFlags f) := by
  induction f with
  | zero => intro s0 s hs; exact hs
  | succ f ih =>
    intro s0 s hs
    unfold pollFlags
    simp only [dwp_bind, dwp_getD, dwp_ite, dwp_pure]
    split
    · exact (keeps_update b s0 s hs).mono (fun _ _ h => h) (fun _ s1 h1 => ih s0 s1 h1)
    · exact hs

theorem keeps_write (buf : Bytes) (m : Bool) : Keeps true (write buf m false false) := by
  intro s0 s hs
  unfold write
  simp only [dwp_bind, dwp_getD, dwp_ite, dwp_pure, dwp_raise, dwp_regWriteBytes, dwp_setCE']
  split
  · exact hs
  · refine (keeps_clearStatusFlags true _ _ _ s0 s hs).mono (fun _ _ h => h) (fun _ s1 h1 => ?_)
    split
    · exact h1
    · simp only [Bool.not_false, ↓reduceIte]
      have e : (0xA0 ||| (b2n false <<< 4)) = 0xA0 := by decide
      rw [e]
      refine Same.trans (Same.trans h1 (Same.spi _ _ h1.wf ?_)) (Same.ceStep _ _ ((spiStep_wf _ _).2 h1.wf))
      exact harmless_cmd _ _ (by decide) (by decide)

theorem keeps_resend : Keeps true (resend true) := by
  intro s0 s hs
  unfold resend
  simp only [dwp_bind, dwp_getD, dwp_ite, dwp_pure, dwp_setCE', Bool.not_true, Bool.false_eq_true,
    false_and, and_false, ↓reduceIte]
  refine (keeps_fifo true _ _ s0 s hs).mono (fun _ _ h => h) (fun a s1 h1 => ?_)
  split
  · exact h1
  · have h2 := h1.trans (Same.ceStep _ false h1.wf)
    refine (keeps_clearStatusFlags true _ _ _ s0 _ h2).mono (fun _ _ h => h) (fun _ s3 h3 => ?_)
    have h4 := h3.trans (Same.ceStep _ true h3.wf)
    refine (keeps_update true s0 _ h4).mono (fun _ _ h => h) (fun _ s5 h5 => ?_)
    exact (keeps_pollFlags true _ s0 _ h5).mono (fun _ _ h => h) (fun _ s6 h6 => h6)

theorem keeps_forceRetryLoop (f : Nat) (n : Int) (res : SendRes) : Keeps true (forceRetryLoop true f n res) := by
  induction f generalizing n res with
  | zero => intro s0 s hs; exact hs
  | succ f ih =>
    intro s0 s hs
    unfold forceRetryLoop
    cases res <;> simp only [dwp_ite, dwp_bind, dwp_pure] <;> split
    all_goals first
      | exact hs
      | exact (keeps_resend s0 s hs).mono (fun _ _ h => h) (fun r s1 h1 => ih _ _ s0 s1 h1)

theorem keeps_send (buf : Bytes) (m : Bool) : Keeps true (send buf m false 0 true) := by
  intro s0 s hs
  unfold send
  simp only [dwp_bind, dwp_getD, dwp_ite, dwp_pure, dwp_setCE', Bool.not_true, Bool.false_eq_true,
    false_and, and_false, ↓reduceIte]
  have h1 := hs.trans (Same.ceStep _ false hs.wf)
  have rest : ∀ s2, Same true s0 s2 →
      dwp (fun _ s' => Same true s0 s') (write buf m false)
        (fun a s' => dwp (fun _ s' => Same true s0 s') (pollFlags POLL_FUEL)
          (fun _ s' => dwp (fun _ s' => Same true s0 s')
            (forceRetryLoop true ((0 : Int).natAbs + 1) 0 (SendRes.bool (decide (s'.d.status &&& 32 ≠ 0))))
            (fun a_1 s' => Same true s0 s') s') s') s2 := by
    intro s2 h2
    refine (keeps_write buf m s0 s2 h2).mono (fun _ _ h => h) (fun _ s3 h3 => ?_)
    refine (keeps_pollFlags true _ s0 s3 h3).mono (fun _ _ h => h) (fun _ s4 h4 => ?_)
    exact (keeps_forceRetryLoop _ _ _ s0 s4 h4).mono (fun _ _ h => h) (fun _ _ h => h)
  split
  · exact (keeps_flushTx true s0 _ h1).mono (fun _ _ h => h) (fun _ s2 h2 => rest s2 h2)
  · exact rest _ h1

end Nrf
