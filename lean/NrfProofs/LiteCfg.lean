/-
Configuration-level reasoning for the lite driver: `LiteState.CfgStep s s' f` ("the call changed the
configuration part of its own radio by `f` and no other radio's"), register well-formedness
(`Radio.LiteRegWf`: every register within its write mask — an invariant of the chip model), explicit
forms of `Radio.writeReg` on well-formed radios, and the finite bit-field facts that connect the
masks and shifts of `rf24_lite.py` with the arithmetic field extraction of `Spec/Lite.lean`.
-/
import NrfProofs.LiteExec
import NrfModel.Spec.Lite

namespace Nrf
open Lite

/-! ### register well-formedness -/

/-- every configuration register holds a value inside its write mask (what `writeReg` guarantees
    and the reset values satisfy) -/
structure Radio.LiteRegWf (r : Radio) : Prop where
  config : r.config < 128
  enRxAddr : r.enRxAddr < 64
  setupAw : r.setupAw < 4
  setupRetr : r.setupRetr < 256
  rfSetup : r.rfSetup < 256 ∧ r.rfSetup &&& 0xBF = r.rfSetup
  dynpd : r.dynpd < 64
  feature : r.feature < 8
  rxAddr0 : r.rxAddr0.length = 5
  txAddr : r.txAddr.length = 5
  rxPw : r.rxPw.length = 6

theorem Radio.LiteRegWf.cfgOf {r : Radio} (h : r.LiteRegWf) : r.cfgOf.LiteRegWf :=
  ⟨h.config, h.enRxAddr, h.setupAw, h.setupRetr, h.rfSetup, h.dynpd, h.feature, h.rxAddr0, h.txAddr, h.rxPw⟩

theorem Radio.LiteRegWf.of_cfgOf {r : Radio} (h : r.cfgOf.LiteRegWf) : r.LiteRegWf :=
  ⟨h.config, h.enRxAddr, h.setupAw, h.setupRetr, h.rfSetup, h.dynpd, h.feature, h.rxAddr0, h.txAddr, h.rxPw⟩

theorem Radio.regWf_fresh_l (plus : Bool) : ({ plus := plus } : Radio).LiteRegWf := by
  cases plus <;> constructor <;> decide

theorem lite_and_lt_of_mask (v m b : Nat) (h : m < b) : v &&& m < b :=
  Nat.lt_of_le_of_lt Nat.and_le_right h

/-- a value below 2^k is unchanged by the mask 2^k - 1 -/
theorem lite_and_mask_lt (x k : Nat) (h : x < 2 ^ k) : x &&& (2 ^ k - 1) = x := by
  rw [Nat.and_two_pow_sub_one_eq_mod]; exact Nat.mod_eq_of_lt h

theorem Radio.overlay_length_l (old new : Bytes) (h : old.length = 5) : (Radio.overlay old new).length = 5 := by
  unfold Radio.overlay
  simp only [List.length_append, List.length_take, List.length_drop, h]
  omega

/-- the chip keeps every register inside its mask, whatever is written -/
theorem Radio.LiteRegWf.writeReg {r : Radio} (h : r.LiteRegWf) (reg : Nat) (d : Bytes) : (r.writeReg reg d).LiteRegWf := by
  unfold Radio.writeReg
  split
  · exact { h with config := lite_and_lt_of_mask _ _ _ (by decide) }
  · exact ⟨h.config, h.enRxAddr, h.setupAw, h.setupRetr, h.rfSetup, h.dynpd, h.feature, h.rxAddr0, h.txAddr, h.rxPw⟩
  · exact { h with enRxAddr := lite_and_lt_of_mask _ _ _ (by decide) }
  · exact { h with setupAw := lite_and_lt_of_mask _ _ _ (by decide) }
  · exact { h with setupRetr := lite_and_lt_of_mask _ _ _ (by decide) }
  · exact ⟨h.config, h.enRxAddr, h.setupAw, h.setupRetr, h.rfSetup, h.dynpd, h.feature, h.rxAddr0, h.txAddr, h.rxPw⟩
  · refine { h with rfSetup := ⟨lite_and_lt_of_mask _ _ _ (by decide), ?_⟩ }
    simp [Nat.and_assoc]
  · exact ⟨h.config, h.enRxAddr, h.setupAw, h.setupRetr, h.rfSetup, h.dynpd, h.feature, h.rxAddr0, h.txAddr, h.rxPw⟩
  · exact { h with rxAddr0 := Radio.overlay_length_l _ _ h.rxAddr0 }
  · exact ⟨h.config, h.enRxAddr, h.setupAw, h.setupRetr, h.rfSetup, h.dynpd, h.feature, h.rxAddr0, h.txAddr, h.rxPw⟩
  · exact ⟨h.config, h.enRxAddr, h.setupAw, h.setupRetr, h.rfSetup, h.dynpd, h.feature, h.rxAddr0, h.txAddr, h.rxPw⟩
  · exact ⟨h.config, h.enRxAddr, h.setupAw, h.setupRetr, h.rfSetup, h.dynpd, h.feature, h.rxAddr0, h.txAddr, h.rxPw⟩
  · exact ⟨h.config, h.enRxAddr, h.setupAw, h.setupRetr, h.rfSetup, h.dynpd, h.feature, h.rxAddr0, h.txAddr, h.rxPw⟩
  · exact ⟨h.config, h.enRxAddr, h.setupAw, h.setupRetr, h.rfSetup, h.dynpd, h.feature, h.rxAddr0, h.txAddr, h.rxPw⟩
  · exact { h with txAddr := Radio.overlay_length_l _ _ h.txAddr }
  · refine { h with dynpd := ?_ }
    dsimp only
    split
    · exact lite_and_lt_of_mask _ _ _ (by decide)
    · exact h.dynpd
  · refine { h with feature := ?_ }
    dsimp only
    split
    · exact lite_and_lt_of_mask _ _ _ (by decide)
    · exact h.feature
  · split
    · refine { h with rxPw := ?_ }
      simp only [List.length_set]
      exact h.rxPw
    · exact h

/-! ### `CfgStep` -/

/-- `s'` differs from `s` by `f` on the configuration part of the object's own radio; the
    configuration part of every other radio is the same -/
structure LiteState.CfgStep (s s' : LiteState) (f : Radio → Radio) : Prop where
  wf : s'.Wf
  cfg : s'.cfg = f s.cfg
  others : ∀ j, j ≠ s.d.rid → s'.cfgAt j = s.cfgAt j
  rid : s'.d.rid = s.d.rid

namespace LiteState

theorem cfg_cfgOf (s : LiteState) : s.cfg.cfgOf = s.cfg := rfl

theorem CfgStep.refl {s : LiteState} (hw : s.Wf) : CfgStep s s id := ⟨hw, rfl, fun _ _ => rfl, rfl⟩

theorem CfgStep.trans {s s' s'' : LiteState} {f g : Radio → Radio} (h1 : CfgStep s s' f) (h2 : CfgStep s' s'' g) :
    CfgStep s s'' (fun c => g (f c)) :=
  ⟨h2.wf, by rw [h2.cfg, h1.cfg], fun j hj => by rw [h2.others j (by rw [h1.rid]; exact hj), h1.others j hj],
   by rw [h2.rid, h1.rid]⟩

theorem CfgStep.congr {s s' : LiteState} {f g : Radio → Radio} (h : CfgStep s s' f) (hfg : f s.cfg = g s.cfg) :
    CfgStep s s' g := ⟨h.wf, by rw [h.cfg, hfg], h.others, h.rid⟩

/-- any SPI transaction -/
theorem CfgStep.spi (s : LiteState) (out : Bytes) (hw : s.Wf) :
    CfgStep s (s.spiStep out) (fun c => (c.xfer out).1.cfgOf) :=
  ⟨(spiStep_wf _ _).2 hw, spiStep_cfg _ _ hw, fun j hj => spiStep_cfgAt _ _ hw j hj, rfl⟩

/-- a register read changes no configuration -/
theorem CfgStep.spiRead (s : LiteState) (reg : Nat) (d : Bytes) (hw : s.Wf) (hr : reg < 0x20) :
    CfgStep s (s.spiStep (reg :: d)) id :=
  (CfgStep.spi s _ hw).congr (by show (s.cfg.xfer (reg :: d)).1.cfgOf = s.cfg; rw [xfer_rreg_cfg _ _ _ hr]; rfl)

/-- a one-byte register write -/
theorem CfgStep.spiWrite (s : LiteState) (reg v : Nat) (hw : s.Wf) (hr : reg < 0x20) :
    CfgStep s (s.spiStep [0x20 ||| reg, v]) (fun c => (c.writeReg reg [v]).cfgOf) :=
  (CfgStep.spi s _ hw).congr (by show (s.cfg.xfer _).1.cfgOf = _; rw [xfer_wreg_cfg _ _ _ hr])

/-- a multi-byte register write -/
theorem CfgStep.spiWrites (s : LiteState) (reg : Nat) (b : Bytes) (hw : s.Wf) (hr : reg < 0x20) (hb : b ≠ []) :
    CfgStep s (s.spiStep ((0x20 ||| reg) :: b)) (fun c => (c.writeReg reg b).cfgOf) :=
  (CfgStep.spi s _ hw).congr (by show (s.cfg.xfer _).1.cfgOf = _; rw [xfer_wregs_cfg _ _ _ hr hb])

theorem CfgStep.ce (s : LiteState) (v : Bool) (hw : s.Wf) : CfgStep s (s.ceStep v) (fun c => { c with ce := v }) :=
  ⟨(ceStep_wf _ _).2 hw, ceStep_cfg _ _ hw, fun j hj => ceStep_cfgAt _ _ hw j hj, rfl⟩

theorem CfgStep.sleep (s : LiteState) (n : Nat) (hw : s.Wf) : CfgStep s (s.sleepStep n) id :=
  ⟨hw, rfl, fun _ _ => rfl, rfl⟩

theorem CfgStep.modD (s : LiteState) (g : Lite → Lite) (hw : s.Wf) (hg : (g s.d).rid = s.d.rid) :
    CfgStep s { s with d := g s.d } id :=
  ⟨by unfold LiteState.Wf; simp only [hg]; exact hw, by unfold LiteState.cfg; simp only [hg]; rfl, fun _ _ => rfl, hg⟩

end LiteState

/-- a command byte that is neither a register access nor ACTIVATE leaves the configuration part
    alone (payload reads / writes, flushes, NOP, REUSE_TX_PL, R_RX_PL_WID) -/
theorem Radio.xfer_cmd_cfgOf_l (r : Radio) (c : Nat) (d : Bytes) (h : 0x40 ≤ c) (h50 : c ≠ 0x50) :
    (r.xfer (c :: d)).1.cfgOf = r.cfgOf := by
  unfold Radio.xfer Radio.decodeCmd
  have h1 : ¬ c < 0x20 := by omega
  have h2 : ¬ c < 0x40 := by omega
  simp only [h1, h2, h50, ↓reduceIte]
  repeat' split
  all_goals first
    | rfl
    | exact Radio.readPayload_cfgOf _ _
    | exact Radio.writePayload_cfgOf _ _ _

theorem LiteState.CfgStep.spiCmd (s : LiteState) (c : Nat) (d : Bytes) (hw : s.Wf) (h : 0x40 ≤ c) (h50 : c ≠ 0x50) :
    LiteState.CfgStep s (s.spiStep (c :: d)) id :=
  (LiteState.CfgStep.spi s _ hw).congr (by
    show (s.cfg.xfer (c :: d)).1.cfgOf = s.cfg
    rw [Radio.xfer_cmd_cfgOf_l _ _ _ h h50]; rfl)

/-! ### explicit register writes on a well-formed radio (no violation is logged) -/

namespace Radio

theorem writeReg_setupRetr_l (r : Radio) (v : Nat) (hv : v < 256) : r.writeReg 4 [v] = { r with setupRetr := v } := by
  have : v &&& 0xFF = v := lite_and_mask_lt v 8 hv
  simp [writeReg, this]

theorem writeReg_rfCh_l (r : Radio) (v : Nat) (hv : v ≤ 125) :
    r.writeReg 5 [v] = { r with rfCh := v, plosCnt := 0 } := by
  have h1 : v &&& 0x7F = v := lite_and_mask_lt v 7 (by omega)
  have h2 : ¬ v > 125 := by omega
  simp [writeReg, h1, h2, reservedLog, rangeLog]

theorem writeReg_rfSetup_l (r : Radio) (v : Nat) (hv : v &&& 0xBF = v) : r.writeReg 6 [v] = { r with rfSetup := v } := by
  simp [writeReg, hv, reservedLog]

theorem writeReg_setupAw_l (r : Radio) (v : Nat) (hv : v < 4) :
    r.writeReg 3 [v] =
      { r with setupAw := v, violations := r.violations ++ (if v = 0 then ["SETUP_AW:illegal:0"] else []) } := by
  have h1 : v &&& 0x03 = v := lite_and_mask_lt v 2 hv
  simp [writeReg, h1, reservedLog]

theorem writeReg_enRxAddr_l (r : Radio) (v : Nat) (hv : v < 64) : r.writeReg 2 [v] = { r with enRxAddr := v } := by
  have h1 : v &&& 0x3F = v := lite_and_mask_lt v 6 hv
  simp [writeReg, h1, reservedLog]

theorem writeReg_dynpd_l (r : Radio) (v : Nat) (hv : v < 64) (hp : r.plus = true) :
    r.writeReg 0x1C [v] = { r with dynpd := v } := by
  have h1 : v &&& 0x3F = v := lite_and_mask_lt v 6 hv
  simp [writeReg, h1, reservedLog, featureVisible, hp]

theorem writeReg_feature_l (r : Radio) (v : Nat) (hv : v < 8) (hp : r.plus = true) :
    r.writeReg 0x1D [v] = { r with feature := v } := by
  have h1 : v &&& 0x07 = v := lite_and_mask_lt v 3 hv
  simp [writeReg, h1, reservedLog, featureVisible, hp]

/-- CONFIG: no violation when the value is inside the mask and the role bit is not flipped
    while CE is high -/
theorem writeReg_config_l (r : Radio) (v : Nat) (hv : v < 128) (hce : r.ce = false ∨ v &&& 1 = r.config &&& 1) :
    r.writeReg 0 [v] = { r with config := v } := by
  have h1 : v &&& 0x7F = v := lite_and_mask_lt v 7 hv
  have h2 : ¬ (r.ce = true ∧ v &&& 1 ≠ r.config &&& 1) := by
    rcases hce with h | h
    · simp [h]
    · simp [h]
  simp only [writeReg, List.headD_cons, h1, reservedLog, ↓reduceIte, List.append_nil, h2]

theorem writeReg_rxPw_l (r : Radio) (i v : Nat) (hi : i < 6) (hv : 1 ≤ v ∧ v ≤ 32) :
    r.writeReg (0x11 + i) [v] = { r with rxPw := r.rxPw.set i v } := by
  have h1 : v &&& 0x3F = v := lite_and_mask_lt v 6 (by omega)
  have h2 : ¬ v > 32 := by omega
  have hreg : 0x11 ≤ 0x11 + i ∧ 0x11 + i ≤ 0x16 := by omega
  have hsub : 0x11 + i - 0x11 = i := by omega
  unfold writeReg
  split <;> first | omega | skip
  simp [hreg, hsub, h1, h2, reservedLog, rangeLog]

end Radio

end Nrf
