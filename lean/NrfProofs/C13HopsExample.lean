/-
A concrete four-node chain (master `0o0`, `0o1`, `0o11`, `0o111` on radios 0..3, as their constructors
and `_begin` leave them — values taken from running the model), the great-grandchild about to call
`write()`: non-vacuity of the NETWORK_ACK liveness theorem over three hops (one router in the middle
of the route, one last router).
-/
import NrfProofs.C05Example3
import NrfProofs.C13HopsTop

namespace Nrf.Net.Example.Hops
open Nrf Nrf.Net Nrf.Net.Example Nrf.Spec Nrf.Proofs Nrf.Props.C04

def rf3 : Rf24 :=
  { rid := 3, status := 14, pipes0 := [204, 206, 204, 204, 204], pipes1 := [60, 60, 60, 60, 204],
    pipesN := [51, 206, 62, 227], config := 15, openPipes := 63, features := 5, retrySetup := 117, rfSetup := 7,
    dynPl := 63, aa := 62, channel := 76, addrLen := 5, pipe0ReadAddr := some [204, 206, 204, 204, 204],
    txAddress := [231, 231, 231, 231, 231], isPlus := true }

def radio3 : Radio :=
  { config := 15, enAA := 62, enRxAddr := 63, setupRetr := 117, rfCh := 76, rfSetup := 7,
    rxAddr0 := [204, 206, 204, 204, 204], rxAddr1 := [60, 60, 60, 60, 204], rxAddrN := [51, 206, 62, 227],
    rxPw := [32, 32, 32, 32, 32, 32], dynpd := 63, feature := 5, ce := true }

def P3 : List Bytes :=
  [[204, 206, 204, 204, 204], [60, 60, 60, 60, 204], [51, 60, 60, 60, 204], [206, 60, 60, 60, 204],
   [62, 60, 60, 60, 204], [227, 60, 60, 60, 204]]

/-- node `i` is tree node `tree4 i` -/
def tree4 : Nat → List Nat
  | 0 => []
  | 1 => [1]
  | 2 => [1, 1]
  | 3 => [1, 1, 1]
  | n + 4 => [5, 5, 5, 5 - (n % 4)]   -- never used: there are four nodes

def four : NetState :=
  { nodes := [{ rf := rf0, a := nodeSpec [] }, { rf := rf1, a := nodeSpec [1] }, { rf := rf2, a := nodeSpec [1, 1] },
              { rf := rf3, a := nodeSpec [1, 1, 1] }],
    cur := 3, active := [3], nextId := 8, closed := true,
    w := { radios := [radio0, radio1, radio2, radio3], busyUntil := [0, 0, 0, 0] } }

theorem four_pipes3 : beginPipes {} (val [1, 1, 1]) = .ok P3 :=
  (beginPipes_eq (cfg := {}) (sfxFn_spec rfl) (by decide)).trans (congrArg Except.ok (by decide))

theorem four_lt (i : Nat) (hi : i < four.nodes.length) : i = 0 ∨ i = 1 ∨ i = 2 ∨ i = 3 := by
  have : i < 4 := hi
  omega

theorem four_ok : NetOk {} L tree4 four := by
  refine ⟨rfl, rfl, ?_, ?_, ?_, ?_⟩
  · intro i hi
    rcases four_lt i hi with rfl | rfl | rfl | rfl <;> decide
  · intro i j hi hj hij
    rcases four_lt i hi with rfl | rfl | rfl | rfl <;> rcases four_lt j hj with rfl | rfl | rfl | rfl <;>
      first | exact absurd rfl hij | decide
  · intro i hi
    rcases four_lt i hi with rfl | rfl | rfl | rfl
    · exact ⟨P0, two_pipes0, by decide⟩
    · exact ⟨P1, two_pipes1, by decide⟩
    · exact ⟨P2, three_pipes2, by decide⟩
    · exact ⟨P3, four_pipes3, by decide⟩
  · intro r k hr
    have h0 : r ≠ 0 := fun e => hr 0 (by decide) (by rw [e]; rfl)
    have h1 : r ≠ 1 := fun e => hr 1 (by decide) (by rw [e]; rfl)
    have h2 : r ≠ 2 := fun e => hr 2 (by decide) (by rw [e]; rfl)
    have h3 : r ≠ 3 := fun e => hr 3 (by decide) (by rw [e]; rfl)
    have : four.w.radio r = default := by
      unfold World.radio
      have : four.w.radios.length ≤ r := by
        show 4 ≤ r
        omega
      rw [List.getD_eq_getElem?_getD, List.getElem?_eq_none this]
      rfl
    rw [this]
    exact Radio.listensTo_not_rx _ _ (by decide)

theorem four_ndef (i : Nat) : val (tree4 i) ≠ NETWORK_DEFAULT_ADDR := by
  match i with
  | 0 => decide
  | 1 => decide
  | 2 => decide
  | 3 => decide
  | n + 4 =>
    show val [5, 5, 5, 5 - n % 4] ≠ 0o4444
    simp only [val]
    omega

end Nrf.Net.Example.Hops
