/-
C02 helper lemmas, part 5: `send()` from entry to return, for every fault pattern.
-/
import NrfProofs.C02Loop

namespace Nrf
open Rf24 Spec.Link

/-- `send()` after the polling loop -/
def sendRest (caller : Bytes) (forceRetry : Int) (sendOnly : Bool) : DrvM (SendRes × Bytes) := do
  let result := (← getD).status &&& 0x20 ≠ 0
  let res ← forceRetryLoop sendOnly (forceRetry.natAbs + 1) forceRetry (.bool result)
  if res = .bool true ∧ (← getD).status &&& 0x60 = 0x60 ∧ !sendOnly then
    return (.payload (← Rf24.read), caller)
  return (res, caller)

theorem sendFinish_eq (caller : Bytes) (forceRetry : Int) (sendOnly : Bool) :
    sendFinish caller forceRetry sendOnly = (do pollFlags POLL_FUEL; sendRest caller forceRetry sendOnly) := rfl

/-- `send()` from `ce = True` (the last statement of `write()`) on -/
def sendFire (caller : Bytes) (forceRetry : Int) (sendOnly : Bool) : DrvM (SendRes × Bytes) :=
  setCE true >>= fun _ => sendFinish caller forceRetry sendOnly

/-- the entry `write()` queues -/
def txEntryOf (askNoAck : Bool) (b : Bytes) : TxEntry :=
  { kind := if askNoAck then .payloadNoAck else .payload, data := b.take 32 }

theorem sendable_txEntryOf (askNoAck : Bool) (b : Bytes) : Radio.headSendable [txEntryOf askNoAck b] = true := by
  cases askNoAck <;> rfl

/-- W_TX_PAYLOAD / W_TX_PAYLOAD_NOACK of a non-empty payload into an empty TX FIFO -/
theorem xfer_write (r : Radio) (askNoAck : Bool) (b : Bytes) (hb : b ≠ []) (hf : r.txFifo = []) :
    (r.xfer ((0xA0 ||| (b2n askNoAck <<< 4)) :: b)).1 = { r with txFifo := [txEntryOf askNoAck b] } ∧
    (r.xfer ((0xA0 ||| (b2n askNoAck <<< 4)) :: b)).2.headD 0 = r.status := by
  have hne : b.isEmpty = false := by cases b with | nil => exact absurd rfl hb | cons a t => rfl
  have hfull : r.txFull = false := by unfold Radio.txFull; rw [hf]; rfl
  cases askNoAck with
  | false =>
    have hc : (0xA0 ||| (b2n false <<< 4)) = 0xA0 := rfl
    rw [hc, Radio.xfer_wTx]
    unfold Radio.writePayload
    simp only [hfull, hne, Bool.false_eq_true, or_self, ↓reduceIte, hf, List.nil_append, List.headD_cons]
    exact ⟨rfl, trivial⟩
  | true =>
    have hc : (0xA0 ||| (b2n true <<< 4)) = 0xB0 := rfl
    rw [hc, Radio.xfer_wTxNoAck]
    unfold Radio.writePayload
    simp only [hfull, hne, Bool.false_eq_true, or_self, ↓reduceIte, hf, List.nil_append, List.headD_cons]
    exact ⟨rfl, trivial⟩

/-- preconditions of `send(buf)` in a send/resend history -/
structure SendPre (s : DrvState) (buf : Bytes) (sendOnly : Bool) : Prop where
  wf : s.Wf
  ptx : s.rad.Ptx
  pipes : s.rad.RxPipes
  /-- the TX FIFO is empty, or the cached status byte makes `send()` flush it (MAX_RT of the failed
      payload still shown, or TX_FULL) -/
  tx : (s.d.status &&& 0x10 ≠ 0 ∨ s.d.status &&& 1 ≠ 0) ∨ s.rad.txFifo = []
  /-- with `send_only` off: the RX FIFO is empty, or the cached pipe field is up to date (so that
      `send()` flushes what is there) -/
  rx : sendOnly = false → s.rad.rxFifo = [] ∨ rxPipeField s.d = s.rad.rxPNo
  /-- the payload passes `write()`'s check and is not empty after padding -/
  lenOk : s.d.dynPl &&& 1 ≠ 0 → buf ≠ [] ∧ buf.length ≤ 32
  padOk : s.d.dynPl &&& 1 = 0 → 1 ≤ s.d.plLen.getD 0 0

theorem writeBytes_ne (s : DrvState) (buf : Bytes) (so : Bool) (h : SendPre s buf so) : writeBytes s.d buf ≠ [] := by
  unfold writeBytes
  split
  · rename_i hd
    have := h.padOk hd
    unfold staticPayload
    intro hc
    have hl := congrArg List.length hc
    split at hl
    · simp only [List.length_append, zeros, List.length_replicate, List.length_nil] at hl; omega
    · split at hl
      · simp only [List.length_take, List.length_nil] at hl; omega
      · simp only [List.length_nil] at hl; omega
  · rename_i hd
    exact (h.lenOk hd).1

/-- **`send()` up to the moment CE is raised**: CE low, TX FIFO flushed if the cache says so,
    RX FIFO flushed if `send_only` is off and the cache shows a payload, flags cleared, payload
    loaded — the transmitter is armed with exactly the new payload; at most 4 transactions; nothing
    else in the world has changed -/
theorem send_arm (s : DrvState) (buf : Bytes) (m askNoAck : Bool) (forceRetry : Int) (sendOnly : Bool)
    (h : SendPre s buf sendOnly) :
    ∃ s5, Armed s.rad (txEntryOf askNoAck (writeBytes s.d buf))
            (s.rad.packetFor (txEntryOf askNoAck (writeBytes s.d buf))) s5 ∧
      Rel (s.rad.packetFor (txEntryOf askNoAck (writeBytes s.d buf))) s s5 4 ∧
      (sendOnly = false → s5.rad.rxFifo = []) ∧ s5.d.status &&& 0x30 = 0 ∧
      s5.rad.pidFor (txEntryOf askNoAck (writeBytes s.d buf)) = s.rad.pidFor (txEntryOf askNoAck (writeBytes s.d buf)) ∧
      exec (send buf m askNoAck forceRetry sendOnly) s =
        exec (sendFire buf forceRetry sendOnly) s5 := by
  generalize hk : s.rad.packetFor (txEntryOf askNoAck (writeBytes s.d buf)) = k
  generalize he : txEntryOf askNoAck (writeBytes s.d buf) = e at hk
  have hbne := writeBytes_ne s buf sendOnly h
  rw [send_eq]
  simp only [exec_bind, exec_setCE_false s h.wf, exec_getD]
  obtain ⟨hrel1, hr1, hd1⟩ := step_ce k s false h.wf
  generalize hs1 : s.ceQ false = s1 at *
  -- the tail: from `write()` on, TX FIFO empty
  have tail : ∀ s3 : DrvState, Rel k s s3 2 → s3.rad = { s.rad with ce := false, txFifo := [], rxFifo := s3.rad.rxFifo } →
      s3.rad.RxPipes →
      ∃ s5, Armed s.rad e k s5 ∧ Rel k s s5 4 ∧ s5.rad.rxFifo = s3.rad.rxFifo ∧ s5.d.status &&& 0x30 = 0 ∧
        s5.rad.pidFor e = s.rad.pidFor e ∧
        exec (sendTail buf m askNoAck forceRetry sendOnly) s3 =
          exec (sendFire buf forceRetry sendOnly) s5 := by
    intro s3 hrel3 hr3 hp3
    have hd3 : s3.d.dynPl = s.d.dynPl := by rw [hrel3.d]
    have hwb : writeBytes s3.d buf = writeBytes s.d buf := by rw [hrel3.d]; rfl
    unfold sendTail
    rw [write_eq]
    have hnr : ¬ (s3.d.dynPl &&& 1 ≠ 0 ∧ (buf.isEmpty = true ∨ buf.length > 32)) := by
      rintro ⟨h1, h2⟩
      rw [hd3] at h1
      obtain ⟨h3, h4⟩ := h.lenOk h1
      rcases h2 with h2 | h2
      · cases buf with
        | nil => exact h3 rfl
        | cons a t => cases h2
      · omega
    unfold writeTail
    simp only [exec_bind, exec_getD, hnr, ↓reduceIte, exec_clearStatusFlags, hwb]
    -- clear_status_flags()
    have hx4 : (s3.rad.xfer [0x27, clearMask true true true]).1 = { s3.rad with flags := 0 } := by
      rw [show (0x27 : Nat) = 0x20 ||| 7 from rfl, Radio.xfer_wreg _ 7 _ (by decide), Radio.writeReg_status]
      have : s3.rad.flags &&& (0x70 ^^^ (clearMask true true true &&& 0x70)) = 0 := by
        have : (0x70 ^^^ (clearMask true true true &&& 0x70)) = 0 := by decide
        rw [this, Nat.and_zero]
      rw [this]
    have hce3 : s3.rad.ce = false := by rw [hr3]
    obtain ⟨hrel4, hr4, hst4⟩ := step_spi k s3 0x27 [clearMask true true true] hrel3.wf
      (by rw [hx4]; exact Radio.idle_of_ce _ hce3)
    rw [hx4] at hr4
    generalize s3.spiStep [0x27, clearMask true true true] = s4 at *
    -- TX_FULL test on the status byte from before the clearing
    have htf : ¬ (s4.d.status &&& 1 ≠ 0) := by
      rw [hst4]
      intro hc
      have := (Radio.status_decodeP s3.rad hp3).2.1.1 hc
      unfold Radio.txFull at this
      rw [hr3] at this
      simp at this
    simp only [htf, ↓reduceIte, exec_bind, exec_regWriteBytes]
    -- W_TX_PAYLOAD
    have htx4 : s4.rad.txFifo = [] := by rw [hr4, hr3]
    have hwx := xfer_write s4.rad askNoAck (writeBytes s.d buf) hbne htx4
    have hcmd : (0x20 ||| (0xA0 ||| (b2n askNoAck <<< 4))) = (0xA0 ||| (b2n askNoAck <<< 4)) := by
      cases askNoAck <;> rfl
    rw [hcmd]
    have hce4 : s4.rad.ce = false := by rw [hr4]; exact hce3
    obtain ⟨hrel5, hr5, hst5⟩ := step_spi k s4 (0xA0 ||| (b2n askNoAck <<< 4)) (writeBytes s.d buf) hrel4.wf
      (by rw [hwx.1]; exact Radio.idle_of_ce _ hce4)
    rw [hwx.1] at hr5
    rw [he] at hr5
    refine ⟨_, ⟨hrel5.wf, ?_, ?_, ?_, ?_, ?_, by rw [← he]; exact sendable_txEntryOf _ _,
        fun q hq => by rw [← he] at hq; cases hq⟩,
      by simpa using (hrel3.trans hrel4).trans hrel5, ?_, ?_, ?_, ?_⟩
    · rw [hr5, hr4, hr3]; rfl
    · rw [hr5]
    · rw [hr5, hr4]
    · rw [hr5, hr4]; exact rxPipes_congr _ _ rfl hp3
    · rw [hr5, hr4, hr3, ← hk]; rfl
    · rw [hr5, hr4]
    · rw [hst5]
      have hp4 : s4.rad.RxPipes := by rw [hr4]; exact rxPipes_congr _ _ rfl hp3
      rw [(Radio.status_decodeP s4.rad hp4).2.2.2.2.2.2.1, hr4]
      exact Nat.zero_and _
    · rw [hr5, hr4, hr3]; rfl
    · unfold sendFire; simp only [exec_bind, exec_pure, exec_setCE]
  -- the middle: the RX FIFO decision
  have mid : ∀ s2 : DrvState, Rel k s s2 1 → s2.rad = { s.rad with ce := false, txFifo := [] } →
      (sendOnly = false → s.rad.rxFifo = [] ∨ rxPipeField s2.d = s.rad.rxPNo) →
      ∃ s5, Armed s.rad e k s5 ∧ Rel k s s5 4 ∧ (sendOnly = false → s5.rad.rxFifo = []) ∧ s5.d.status &&& 0x30 = 0 ∧
        s5.rad.pidFor e = s.rad.pidFor e ∧
        exec (sendMid buf m askNoAck forceRetry sendOnly) s2 =
          exec (sendFire buf forceRetry sendOnly) s5 := by
    intro s2 hrel2 hr2 hrx2
    unfold sendMid
    simp only [exec_bind, exec_getD]
    by_cases hc : (!sendOnly) = true ∧ rxPipeField s2.d < 6
    · simp only [hc, and_self, ↓reduceIte, exec_flushRx]
      have hx3 : (s2.rad.xfer [0xE2]).1 = { s.rad with ce := false, txFifo := [], rxFifo := [] } := by
        rw [Radio.xfer_flushRx, hr2]
      obtain ⟨hrel3, hr3, _⟩ := step_spi k s2 0xE2 [] hrel2.wf (by rw [hx3]; exact Radio.idle_of_ce _ rfl)
      rw [hx3] at hr3
      obtain ⟨s5, a1, a2, a3, a4, a5, a6⟩ := tail (s2.spiStep [0xE2]) (by simpa using hrel2.trans hrel3)
        (by rw [hr3]) (by rw [hr3]; exact rxPipes_nil _ rfl)
      exact ⟨s5, a1, a2, fun _ => by rw [a3, hr3], a4, a5, a6⟩
    · simp only [hc, ↓reduceIte]
      obtain ⟨s5, a1, a2, a3, a4, a5, a6⟩ := tail s2 (hrel2.mono (by omega)) (by rw [hr2])
        (by rw [hr2]; exact rxPipes_congr _ _ rfl h.pipes)
      refine ⟨s5, a1, a2, ?_, a4, a5, a6⟩
      intro hso
      rw [a3, hr2]
      show s.rad.rxFifo = []
      rcases hrx2 hso with hrx | hrx
      · exact hrx
      · have hnot : ¬ (s.rad.rxPNo < 6) := by
          intro h6; apply hc; rw [hso, hrx]; exact ⟨rfl, h6⟩
        by_cases hne : s.rad.rxFifo = []
        · exact hne
        · exact absurd ((Radio.rxPNo_lt_sixP s.rad h.pipes).2 hne) hnot
  -- the TX FIFO decision
  have hd1' : s1.d = s.d := by rw [← hs1]; rfl
  by_cases hc : s1.d.status &&& 0x10 ≠ 0 ∨ s1.d.status &&& 1 ≠ 0
  · simp only [hc, ↓reduceIte, exec_flushTx]
    have hx2 : (s1.rad.xfer [0xE1]).1 = { s.rad with ce := false, txFifo := [] } := by
      rw [Radio.xfer_flushTx, hr1]
    obtain ⟨hrel2, hr2, hst2⟩ := step_spi k s1 0xE1 [] hrel1.wf (by rw [hx2]; exact Radio.idle_of_ce _ rfl)
    rw [hx2] at hr2
    refine mid (s1.spiStep [0xE1]) (by simpa using hrel1.trans hrel2) hr2 ?_
    intro hso
    right
    -- the status byte FLUSH_TX returned is up to date about the RX FIFO
    unfold rxPipeField
    rw [hst2, hr1]
    have hp1 : Radio.RxPipes { s.rad with ce := false } := rxPipes_congr _ _ rfl h.pipes
    rw [(Radio.status_decodeP _ hp1).1]
    rfl
  · simp only [hc, ↓reduceIte]
    have htx : s.rad.txFifo = [] := by
      rcases h.tx with h1 | h1
      · rw [hd1'] at hc; exact absurd h1 hc
      · exact h1
    refine mid s1 (hrel1.mono (by omega)) (by rw [hr1]; dsimp only; rw [htx]) ?_
    intro hso
    rw [hd1']
    exact h.rx hso

/-- after a fire the cached status byte shows TX_DS or MAX_RT -/
theorem fired_flag (R : Radio) (e : TxEntry) (k : Packet) (s : DrvState) (h : Armed R e k s) :
    (s.fired e).d.status &&& 0x30 ≠ 0 := by
  obtain ⟨_, hd, _⟩ := fire_common R e k s h
  have hfresh : (s.fired e).d.status = (s.fired e).rad.status := by rw [hd]
  obtain ⟨hfail, hsucc⟩ := fired_cases R e k s h
  cases hok : cycleOkSpec (R.awaitsAck e) (s.w.acked s.d.rid k) s.w.faults (World.arcOf R + 1) with
  | false =>
    obtain ⟨hf, _, _⟩ := hfail hok
    rw [hfresh, (Radio.status_decodeP _ hf.pipes).2.2.2.2.2.2.1, hf.flags]; decide
  | true =>
    obtain ⟨_, hp, hfl, _, _⟩ := hsucc hok
    rw [hfresh, (Radio.status_decodeP _ hp).2.2.2.2.2.2.1, hfl]
    split <;> decide

/-- `ce = True`, then the polling loop of `send()`: one `update()` sees the end of the cycle -/
theorem exec_sendFire (R : Radio) (e : TxEntry) (k : Packet) (s : DrvState) (caller : Bytes) (forceRetry : Int)
    (sendOnly : Bool) (hp : R.Ptx) (h : Armed R e k s) (hst : s.d.status &&& 0x30 = 0) :
    exec (sendFire caller forceRetry sendOnly) s = exec (sendRest caller forceRetry sendOnly) (s.fired e) := by
  have hfu := exec_fire_update s e h.wf h.fifo (Radio.ptx_regs _ _ h.regs hp) (by rw [h.flags]; rfl) h.sendable
  rw [exec_bind, exec_setCE] at hfu
  simp only at hfu
  unfold sendFire
  rw [exec_bind, exec_setCE]
  simp only
  have hst' : ({ d := s.d, w := s.w.setCE s.d.rid true } : DrvState).d.status &&& 0x30 = 0 := hst
  rw [sendFinish_eq, exec_bind, pollFuel_succ, exec_pollFlags_step _ _ hst', hfu]
  simp only
  rw [show (7 : Nat) = 6 + 1 from rfl, exec_pollFlags_done _ _ (fired_flag R e k s h)]

theorem and60_iff (x : Nat) (h : x &&& 0x20 ≠ 0) : x &&& 0x60 = 0x60 ↔ x &&& 0x40 ≠ 0 := by
  have e20 := and_mask_mod x 0x20 7 (by decide)
  have e40 := and_mask_mod x 0x40 7 (by decide)
  have e60 := and_mask_mod x 0x60 7 (by decide)
  simp only [Nat.reducePow] at e20 e40 e60
  rw [e20] at h
  rw [e40, e60]
  have := (by decide +kernel : ∀ y : Fin 128, y.val &&& 0x20 ≠ 0 → (y.val &&& 0x60 = 0x60 ↔ y.val &&& 0x40 ≠ 0))
    ⟨x % 128, Nat.mod_lt _ (by decide)⟩ h
  exact this

/-- the result of `send()` from the result of `resend()`'s decision -/
def liftRes (caller : Bytes) (x : Except PyErr SendRes × DrvState) : Except PyErr (SendRes × Bytes) × DrvState :=
  ((match x.1 with | .ok r => .ok (r, caller) | .error e => .error e), x.2)

/-- after a successful first cycle `send()` decides exactly like `resend()` -/
theorem sendRest_ok (s : DrvState) (caller : Bytes) (forceRetry : Int) (sendOnly : Bool)
    (hpoll : s.d.status &&& 0x30 ≠ 0) (h20 : s.d.status &&& 0x20 ≠ 0) :
    exec (sendRest caller forceRetry sendOnly) s = liftRes caller (exec (resendFinish sendOnly) s) := by
  have h60 := and60_iff _ h20
  unfold sendRest resendFinish liftRes
  rw [pollFuel_succ]
  simp only [exec_bind, exec_getD, h20, not_false_eq_true, decide_true, ne_eq,
    exec_forceRetryLoop_stop _ _ _ (.bool true) _ (by simp [falsy]), true_and, exec_pollFlags_done _ _ hpoll]
  by_cases hc : s.d.status &&& 0x40 ≠ 0 ∧ (!sendOnly) = true
  · have hc' : s.d.status &&& 0x60 = 0x60 ∧ (!sendOnly) = true := ⟨h60.2 hc.1, hc.2⟩
    have hc1 : ¬ (s.d.status &&& 0x40 = 0) := hc.1
    simp only [hc', hc1, hc.2, not_false_eq_true, and_self, ↓reduceIte, exec_bind, exec_pure]
    rcases hh : exec (Rf24.read none) s with ⟨res, s'⟩
    cases res <;> rfl
  · have hc' : ¬ (s.d.status &&& 0x60 = 0x60 ∧ (!sendOnly) = true) := fun h => hc ⟨h60.1 h.1, h.2⟩
    have hc2 : ¬ (¬ (s.d.status &&& 0x40 = 0) ∧ (!sendOnly) = true) := hc
    simp only [hc', hc2, ↓reduceIte, exec_pure]

/-- after a failed first cycle `send()` runs the forced retries and returns their result -/
theorem sendRest_failed (s : DrvState) (caller : Bytes) (n : Nat) (sendOnly : Bool)
    (h20 : ¬ (s.d.status &&& 0x20 ≠ 0)) (res : SendRes) (s' : DrvState)
    (hloop : exec (forceRetryLoop sendOnly (n + 1) (n : Int) (.bool false)) s = (.ok res, s'))
    (hno : res = .bool true → ¬ (s'.d.status &&& 0x60 = 0x60 ∧ (!sendOnly) = true)) :
    exec (sendRest caller (n : Int) sendOnly) s = (.ok (res, caller), s') := by
  unfold sendRest
  have hna : ((n : Int).natAbs + 1) = n + 1 := by simp
  simp only [exec_bind, exec_getD, h20, decide_false, hna, hloop]
  by_cases hr : res = .bool true
  · have := hno hr
    simp only [hr, true_and, this, ↓reduceIte, exec_pure]
  · simp only [hr, false_and, ↓reduceIte, exec_pure]

/-- **`send()` from entry to return, for every fault pattern, ARC, ARD and number of forced
    retries** (statement: `C02_send_truth` and companions) -/
theorem send_spec (s : DrvState) (buf : Bytes) (m askNoAck : Bool) (n : Nat) (sendOnly : Bool)
    (h : SendPre s buf sendOnly)
    (henv : AckEnv s.rad (s.rad.packetFor (txEntryOf askNoAck (writeBytes s.d buf))) s) :
    ∃ s', exec (send buf m askNoAck (n : Int) sendOnly) s =
        (.ok (if retryOk (s.rad.awaitsAck (txEntryOf askNoAck (writeBytes s.d buf)))
                   (ackedR s.rad s.w s.d.rid (s.rad.packetFor (txEntryOf askNoAck (writeBytes s.d buf))))
                   (World.arcOf s.rad + 1) (n + 1) s.w.faults
              then okResult sendOnly (ackTaken (s.rad.awaitsAck (txEntryOf askNoAck (writeBytes s.d buf)))
                     (s.w.deliver s.d.rid (s.rad.packetFor (txEntryOf askNoAck (writeBytes s.d buf)))).2
                     s.rad.ackPayRx true)
              else .bool false, buf), s') ∧
      Run (s.rad.packetFor (txEntryOf askNoAck (writeBytes s.d buf))) s.rad s s'
        (retryAttempts (s.rad.awaitsAck (txEntryOf askNoAck (writeBytes s.d buf)))
           (ackedR s.rad s.w s.d.rid (s.rad.packetFor (txEntryOf askNoAck (writeBytes s.d buf))))
           (World.arcOf s.rad + 1) (n + 1) s.w.faults) (8 + 7 * n) ∧
      (retryOk (s.rad.awaitsAck (txEntryOf askNoAck (writeBytes s.d buf)))
           (ackedR s.rad s.w s.d.rid (s.rad.packetFor (txEntryOf askNoAck (writeBytes s.d buf))))
           (World.arcOf s.rad + 1) (n + 1) s.w.faults = false →
        FailedSt s.rad ((txEntryOf askNoAck (writeBytes s.d buf)).withPid
            (s.rad.pidFor (txEntryOf askNoAck (writeBytes s.d buf))))
          (s.rad.packetFor (txEntryOf askNoAck (writeBytes s.d buf))) s' ∧ s'.d.status = s'.rad.status) ∧
      (retryOk (s.rad.awaitsAck (txEntryOf askNoAck (writeBytes s.d buf)))
           (ackedR s.rad s.w s.d.rid (s.rad.packetFor (txEntryOf askNoAck (writeBytes s.d buf))))
           (World.arcOf s.rad + 1) (n + 1) s.w.faults = true →
        Settled s.rad sendOnly (okResult sendOnly (ackTaken (s.rad.awaitsAck (txEntryOf askNoAck (writeBytes s.d buf)))
                     (s.w.deliver s.d.rid (s.rad.packetFor (txEntryOf askNoAck (writeBytes s.d buf)))).2
                     s.rad.ackPayRx true)) s') := by
  obtain ⟨s5, harm, hrel, hrx, hst, hpid, hex⟩ := send_arm s buf m askNoAck (n : Int) sendOnly h
  generalize txEntryOf askNoAck (writeBytes s.d buf) = e at *
  generalize hk : s.rad.packetFor e = k at *
  have hrun5 : Run k s.rad s s5 0 4 := Run.ofRel hrel
  have henv5 := henv.run hrun5
  have hfa : s5.w.faults = s.w.faults := hrel.kept.faults
  have hak : ackedR s.rad s5.w s5.d.rid k = ackedR s.rad s.w s.d.rid k := by
    rw [hrel.rid]; exact ackedR_ackMap _ _ _ _ _ hrel.kept.ackMap
  have hdl : (s5.w.deliver s5.d.rid k).2 = (s.w.deliver s.d.rid k).2 := by
    rw [hrel.rid]; exact deliver_snd_ackMap_eq _ _ _ _ hrel.kept.ackMap
  rw [hex, exec_sendFire s.rad e k s5 buf (n : Int) sendOnly h.ptx harm hst]
  obtain ⟨s6, f1, f2, f3, f4⟩ := armed_finish s.rad e k s5 sendOnly harm henv5 hrx
  rw [hfa, hak] at f1 f2 f3 f4
  rw [hdl] at f1 f4
  obtain ⟨_, hd6, _⟩ := fire_common s.rad e k s5 harm
  have hfresh6 : (s5.fired e).d.status = (s5.fired e).rad.status := by rw [hd6]
  have hflag := fired_flag s.rad e k s5 harm
  obtain ⟨hfail, hsucc⟩ := fired_cases s.rad e k s5 harm
  rw [acked_eq_ackedR s.rad s5 k harm.regs, hfa, hak] at hfail hsucc
  unfold retryOk retryAttempts
  cases hok : cycleOkSpec (s.rad.awaitsAck e) (ackedR s.rad s.w s.d.rid k) s.w.faults (World.arcOf s.rad + 1) with
  | true =>
    simp only [Bool.true_or, ↓reduceIte]
    obtain ⟨_, hp6, hfl6, _, _⟩ := hsucc hok
    have h20 : (s5.fired e).d.status &&& 0x20 ≠ 0 := by
      rw [hfresh6, (Radio.status_decodeP _ hp6).2.2.2.2.1, hfl6]
      split <;> decide
    rw [sendRest_ok _ _ _ _ hflag h20, f1]
    refine ⟨s6, ?_, ?_, (fun hc => by cases hc), fun _ => f4 hok⟩
    · simp only [liftRes, hok, ↓reduceIte]
    · have := hrun5.trans f2
      exact (by simpa using this : Run k s.rad s s6 _ 8).mono (by omega)
  | false =>
    simp only [Bool.false_or, Bool.false_eq_true, ↓reduceIte]
    obtain ⟨hs6, hf6, hfr6⟩ := f3 hok
    subst hs6
    have h20 : ¬ ((s5.fired e).d.status &&& 0x20 ≠ 0) := by
      rw [hfresh6, (Radio.status_decodeP _ hf6.pipes).2.2.2.2.1, hf6.flags]; decide
    have henv6 := henv5.run f2
    rw [hpid] at hf6
    obtain ⟨s7, g1, g2, g3, g4⟩ := retry_loop s.rad _ k sendOnly h.ptx n (n + 1) (by omega) (s5.fired e) hf6 hfr6 henv6
    have hatt : cycleAttemptsSpec (s.rad.awaitsAck e) (ackedR s.rad s.w s.d.rid k) s.w.faults (World.arcOf s.rad + 1)
        = World.arcOf s.rad + 1 := cycleAttemptsSpec_failed _ _ _ _ hok
    have hfa6 : (s5.fired e).w.faults = s.w.faults.drop (World.arcOf s.rad + 1) := by
      rw [f2.sent.faults, hfa, hatt]
    have hrid6 : (s5.fired e).d.rid = s.d.rid := by rw [f2.rid, hrel.rid]
    have hak6 : ackedR s.rad (s5.fired e).w (s5.fired e).d.rid k = ackedR s.rad s.w s.d.rid k := by
      rw [← hak, hrid6, ← hrel.rid]; exact ackedR_ackMap _ _ _ _ _ f2.sent.ackMap
    have hdl6 : ((s5.fired e).w.deliver (s5.fired e).d.rid k).2 = (s.w.deliver s.d.rid k).2 := by
      rw [← hdl, hrid6, ← hrel.rid]; exact deliver_snd_ackMap_eq _ _ _ _ f2.sent.ackMap
    have haw : s.rad.awaitsAck (e.withPid (s.rad.pidFor e)) = s.rad.awaitsAck e := rfl
    rw [hfa6, hak6, haw] at g1 g2 g3 g4
    rw [hdl6] at g1 g4
    refine ⟨s7, ?_, ?_, g3, fun hc => g4 hc⟩
    · exact sendRest_failed _ _ _ _ h20 _ _ g1 (fun hr => by
        by_cases hro : retryOk (s.rad.awaitsAck e) (ackedR s.rad s.w s.d.rid k) (World.arcOf s.rad + 1) n
            (s.w.faults.drop (World.arcOf s.rad + 1)) = true
        · rw [hro] at hr; simp only [↓reduceIte] at hr; exact (g4 hro).noRead hr
        · simp only [hro, Bool.false_eq_true, ↓reduceIte] at hr; cases hr)
    · have := (hrun5.trans f2).trans g2
      rw [hatt] at this ⊢
      exact (by simpa using this : Run k s.rad s s7 _ (4 + 4 + 7 * n)).mono (by omega)

/-! ### the ground truth in the words of the property -/

/-- `1 + n` cycles of `N` attempts succeed iff no acknowledgement is awaited, or somebody
    acknowledges audibly and one of the first `(1 + n) · N` outcomes is `delivered` -/
theorem retryOk_succ (aw A : Bool) (N n : Nat) (F : List Outcome) :
    retryOk aw A N (n + 1) F = (!aw || (A && hasDeliveredB F ((n + 1) * N))) := by
  induction n generalizing F with
  | zero =>
    simp only [retryOk, cycleOkSpec, Bool.or_false, Nat.zero_add, Nat.one_mul]
  | succ n ih =>
    unfold retryOk
    rw [ih]
    unfold cycleOkSpec
    have e : (n + 1 + 1) * N = N + (n + 1) * N := by rw [Nat.add_mul (n + 1) 1 N]; omega
    rw [e, World.hasDeliveredB_add]
    cases aw <;> cases A <;> simp

/-! ### `send(buf)` from state `s`: the entry, the packet, the ground truth -/

/-- the TX FIFO entry `send(buf, ask_no_ack)` loads -/
def DrvState.sendEntry (s : DrvState) (askNoAck : Bool) (buf : Bytes) : TxEntry := txEntryOf askNoAck (writeBytes s.d buf)
/-- the packet that entry goes on the air as (channel, rate, CRC, address, next PID, NO_ACK, payload) -/
def DrvState.sendPacket (s : DrvState) (askNoAck : Bool) (buf : Bytes) : Packet := s.rad.packetFor (s.sendEntry askNoAck buf)
/-- does the radio wait for an acknowledgement of it (auto-ack on pipe 0 and not an honoured NO_ACK) -/
def DrvState.sendAwaits (s : DrvState) (askNoAck : Bool) (buf : Bytes) : Bool := s.rad.awaitsAck (s.sendEntry askNoAck buf)
/-- does some other radio of the world, as it is now, accept and acknowledge that packet, and can
    this radio hear the acknowledgement (pipe 0 open on the TX address) -/
def DrvState.sendAcked (s : DrvState) (askNoAck : Bool) (buf : Bytes) : Bool :=
  ackedR s.rad s.w s.d.rid (s.sendPacket askNoAck buf)
/-- the ACK payload this radio takes in if the transmission is acknowledged -/
def DrvState.sendAckPayload (s : DrvState) (askNoAck : Bool) (buf : Bytes) : Option Bytes :=
  ackTaken (s.sendAwaits askNoAck buf) (s.w.deliver s.d.rid (s.sendPacket askNoAck buf)).2 s.rad.ackPayRx true

theorem sendSucceedsB_eq (aw A : Bool) (F : List Outcome) (arc n : Nat) :
    sendSucceedsB aw A F arc n = retryOk aw A (arc + 1) (n + 1) F := by
  rw [retryOk_succ]
  unfold sendSucceedsB budget
  have : (1 + arc) * (1 + n) = (n + 1) * (arc + 1) := by rw [Nat.mul_comm, Nat.add_comm 1 n, Nat.add_comm 1 arc]
  rw [this]

theorem sendSucceedsB_iff (aw A : Bool) (F : List Outcome) (arc n : Nat) :
    sendSucceedsB aw A F arc n = true ↔ sendSucceeds aw A F arc n := by
  unfold sendSucceedsB sendSucceeds
  rw [← World.hasDeliveredB_iff]
  cases aw <;> cases A <;> simp

/-- `send_spec` in the words of the specification -/
theorem send_final (s : DrvState) (buf : Bytes) (m askNoAck : Bool) (n : Nat) (sendOnly : Bool)
    (h : SendPre s buf sendOnly) (henv : AckEnv s.rad (s.sendPacket askNoAck buf) s) :
    (exec (send buf m askNoAck (n : Int) sendOnly) s).1 =
      .ok (sendExpected (sendSucceedsB (s.sendAwaits askNoAck buf) (s.sendAcked askNoAck buf) s.w.faults
              (World.arcOf s.rad) n) sendOnly (s.sendAckPayload askNoAck buf), buf) ∧
    (∃ att, 1 ≤ att ∧ att ≤ budget (World.arcOf s.rad) n ∧ (s.sendAwaits askNoAck buf = false → att = 1) ∧
      Run (s.sendPacket askNoAck buf) s.rad s (exec (send buf m askNoAck (n : Int) sendOnly) s).2 att (8 + 7 * n)) ∧
    (sendSucceedsB (s.sendAwaits askNoAck buf) (s.sendAcked askNoAck buf) s.w.faults (World.arcOf s.rad) n = false →
      FailedSt s.rad ((s.sendEntry askNoAck buf).withPid (s.rad.pidFor (s.sendEntry askNoAck buf)))
        (s.sendPacket askNoAck buf) (exec (send buf m askNoAck (n : Int) sendOnly) s).2 ∧
      (exec (send buf m askNoAck (n : Int) sendOnly) s).2.d.status = (exec (send buf m askNoAck (n : Int) sendOnly) s).2.rad.status) ∧
    (sendSucceedsB (s.sendAwaits askNoAck buf) (s.sendAcked askNoAck buf) s.w.faults (World.arcOf s.rad) n = true →
      Settled s.rad sendOnly (okResult sendOnly (s.sendAckPayload askNoAck buf))
        (exec (send buf m askNoAck (n : Int) sendOnly) s).2) := by
  obtain ⟨s', h1, h2, h3, h4⟩ := send_spec s buf m askNoAck n sendOnly h henv
  rw [sendSucceedsB_eq]
  simp only [DrvState.sendAwaits, DrvState.sendAcked, DrvState.sendAckPayload, DrvState.sendPacket, DrvState.sendEntry,
    sendExpected] at henv ⊢
  rw [h1]
  refine ⟨rfl, ⟨_, ?_, ?_, ?_, h2⟩, h3, h4⟩
  · unfold retryAttempts
    have := cycleAttemptsSpec_pos (s.rad.awaitsAck (txEntryOf askNoAck (writeBytes s.d buf)))
      (ackedR s.rad s.w s.d.rid (s.rad.packetFor (txEntryOf askNoAck (writeBytes s.d buf)))) s.w.faults (World.arcOf s.rad)
    split <;> omega
  · have := retryAttempts_le (s.rad.awaitsAck (txEntryOf askNoAck (writeBytes s.d buf)))
      (ackedR s.rad s.w s.d.rid (s.rad.packetFor (txEntryOf askNoAck (writeBytes s.d buf)))) (World.arcOf s.rad + 1)
      (by omega) (n + 1) s.w.faults
    unfold budget
    have e : (1 + World.arcOf s.rad) * (1 + n) = (n + 1) * (World.arcOf s.rad + 1) := by
      rw [Nat.mul_comm, Nat.add_comm 1 n, Nat.add_comm 1 (World.arcOf s.rad)]
    rw [e]; exact this
  · intro haw
    unfold retryAttempts cycleOkSpec cycleAttemptsSpec
    rw [haw]
    simp

end Nrf
