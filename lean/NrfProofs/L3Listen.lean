/-
Discharging `L3Contracts`, part 3: `listen = False`, `listen = True`, `open_tx_pipe`.
-/
import NrfProofs.L3Run

set_option linter.unusedSimpArgs false

namespace Nrf.L3
open Nrf Nrf.Rf24

theorem exec_regWrite_nat (reg v : Nat) (s : DrvState) (hv : v ≤ 255) (hr : reg ≠ 0x50) :
    exec (regWrite reg (v : Int)) s = (.ok (), s.spiStep [0x20 ||| reg, v]) := by
  rw [exec_regWrite _ _ _ (by omega) hr]
  simp

theorem wr_config (r : Radio) (v : Nat) :
    ∃ vio, r.writeReg 0 [v] = { r with config := v &&& 0x7F, violations := vio } := ⟨_, rfl⟩

/-! ### `listen = False` -/

theorem l3_listenOff (s : DrvState) (L : LinkCfg) (P : List Bytes) (rx ce : Bool) (aa : Nat) (hw : s.Wf)
    (hN : NodeRadio L P rx ce aa s.d s.radio) :
    ∃ s', exec (setListen false) s = (.ok (), s') ∧ DrvFrame s s' ∧
      NodeRadio L P false false aa s'.d s'.radio ∧ s'.radio.rxFifo = s.radio.rxFifo := by
  obtain ⟨h1, h2, h3, h4, h5, h6, h7, h8, h9, h10, h11, h12, h13, h14, h15, h16, h17, h18, h19, h20, h21, h22,
    h23, h24, h25, h26, h27, h28, h29⟩ := hN
  have hc : s.d.config < 128 := by rw [h1]; exact h27
  obtain ⟨c1, c2, c3, c4⟩ := cfg_listen hc 0 (by decide)
  simp only [Nat.add_zero] at c1 c2 c3 c4
  generalize hv : s.d.config &&& 0xFC ||| 2 = v at c1 c2 c3 c4
  -- the snapshots
  have S0 := snap_ce (snap_self s hw) false (Or.inl h26)
  have S1 := snap_mod S0 (fun d => { d with config := v }) rfl
  obtain ⟨vio, hvio⟩ := wr_config ({ s.radio with ce := false } : Radio) v
  have hx : (({ s.radio with ce := false } : Radio).xfer [0x20 ||| 0, v]).1 =
      { s.radio with ce := false, config := v, violations := vio } := by
    rw [xfer_wreg _ 0 v (by decide), hvio, and_7F_of_lt c1]
  have S2 := snap_spi S1 [0x20 ||| 0, v] (Or.inl (by rw [hx]; exact h26))
  rw [hx] at S2
  have S3 := snap_sleep S2 150000
  -- the call
  have h2' : ¬ (s.d.aa &&& 1 ≠ 0 ∧ s.d.openPipes &&& 1 = 0) := by rw [h10]; simp
  have h3' : ¬ (s.d.features &&& 6 = 6 ∧ s.d.aa &&& s.d.dynPl &&& 1 ≠ 0) := by rw [h12]; simp
  have hex : exec (setListen false) s = (.ok (),
      { (((({ s with w := s.w.setCE s.d.rid false } : DrvState).modShadow fun d => { d with config := v }).spiStep
          [0x20 ||| 0, v])) with
        w := (((({ s with w := s.w.setCE s.d.rid false } : DrvState).modShadow fun d => { d with config := v }).spiStep
          [0x20 ||| 0, v])).w.sleep 150000 }) := by
    unfold setListen
    simp only [exec_bind, exec_setCE, exec_modD', exec_getD, exec_nowNs, b2n, Bool.false_eq_true, ↓reduceIte,
      Nat.add_zero, DrvState.modShadow, hv, exec_regWrite_nat CONFIGURE v _ (by omega) (by decide),
      DrvState.spiStep, h2', h3', exec_ite, exec_pure, exec_sleepNs, Nat.sub_self, Nat.sub_zero,
      (by decide : (0 : Nat) < 150000)]
    rfl
  refine ⟨_, hex, ?_⟩
  generalize ({ (((({ s with w := s.w.setCE s.d.rid false } : DrvState).modShadow fun d => { d with config := v }).spiStep
          [0x20 ||| 0, v])) with
        w := (((({ s with w := s.w.setCE s.d.rid false } : DrvState).modShadow fun d => { d with config := v }).spiStep
          [0x20 ||| 0, v])).w.sleep 150000 } : DrvState) = s' at S3
  refine ⟨S3.frame rfl rfl, ?_, ?_⟩
  · rw [S3.radio_eq, S3.d_eq]
    refine ⟨rfl, c2, ?_, rfl, c4.trans (by rw [h1]; exact h5), h6, h7, h8, h9, h10, h11, h12, h13, h14, h15, h16,
      h17, h18, h19, h20, h21, h22, ?_, h24, h25, h26, c1, h28, h29⟩
    · have : ¬ (v &&& 1 ≠ 0) := fun h => by have := c3.1 h; omega
      simpa using this
    · intro h; cases h
  · rw [S3.radio_eq]

/-! ### `listen = True` -/

theorem overlay_full (old new : Bytes) (ho : old.length ≤ 5) (h : new.length = 5) : Radio.overlay old new = new := by
  unfold Radio.overlay
  rw [List.take_of_length_le (by omega), List.drop_of_length_le (by omega), List.append_nil]

/-- `for i, val in enumerate(address): buf[i] = val` for a 5-byte address on the 5-byte `_pipes[0]` -/
theorem exec_assignPrefix0 (addr : Bytes) (s : DrvState) (h : addr.length = 5) (hp : s.d.pipes0.length = 5) :
    exec (assignPrefix 0 addr) s = (.ok (), s.modShadow fun d => { d with pipes0 := addr }) := by
  unfold assignPrefix overwritePrefix
  have h' : ¬ addr.length > s.d.pipes0.length := by omega
  simp only [exec_bind, exec_getD, getPipes, h', ↓reduceIte, exec_modD', setPipes]
  rw [List.drop_of_length_le (by omega), List.append_nil]

/-- `self.address(0)` -/
theorem exec_address0 (s : DrvState) : exec (address 0) s = (.ok s.d.pipes0, s) := by
  unfold address
  simp only [exec_bind, exec_getD, Int.reduceLT, Int.reduceLE, ↓reduceIte, exec_pure, getPipes,
    Int.toNat_zero, show ¬ ((0 : Int) > 5) by decide]

theorem run_address0 {w0 : World} {d : Rf24} {r : Radio} :
    Run w0 (address 0) d r (fun a d' r' => d.pipes0 = a ∧ d = d' ∧ r = r') :=
  fun s hs => ⟨_, s, d, r, exec_address0 s, hs, by rw [hs.d_eq], rfl, rfl⟩

theorem run_assignPrefix0 {w0 : World} {d : Rf24} {r : Radio} (addr : Bytes) (h : addr.length = 5)
    (hp : d.pipes0.length = 5) :
    Run w0 (assignPrefix 0 addr) d r (fun _ d' r' => { d with pipes0 := addr } = d' ∧ r = r') :=
  fun s hs => ⟨(), _, _, _, exec_assignPrefix0 addr s h (by rw [hs.d_eq]; exact hp), snap_mod hs _ rfl, rfl, rfl⟩

/-- the settling wait at the end of `listen =`: only time passes -/
theorem run_settle {w0 : World} {d : Rf24} {r : Radio} (start : Nat) {Q : Unit → Rf24 → Radio → Prop}
    (h : Q () d r) :
    Run w0 (do let t ← nowNs; if t - start < 150000 then sleepNs (150000 - (t - start)) else pure ()) d r Q := by
  refine Run.bind run_nowNs ?_
  rintro t _ _ ⟨rfl, rfl⟩
  split
  · exact (run_sleepNs _).conseq (by rintro _ _ _ ⟨rfl, rfl⟩; exact h)
  · exact Run.pure _ h

theorem l3_listenOn (s : DrvState) (L : LinkCfg) (P : List Bytes) (ce : Bool) (aa : Nat) (hw : s.Wf)
    (hN : NodeRadio L P false ce aa s.d s.radio) :
    ∃ s', exec (setListen true) s = (.ok (), s') ∧ DrvFrame s s' ∧
      NodeRadio L P true true aa s'.d s'.radio ∧ s'.radio.rxFifo = s.radio.rxFifo := by
  obtain ⟨h1, h2, h3, h4, h5, h6, h7, h8, h9, h10, h11, h12, h13, h14, h15, h16, h17, h18, h19, h20, h21, h22,
    h23, h24, h25, h26, h27, h28, h29⟩ := hN
  have hc : s.d.config < 128 := by rw [h1]; exact h27
  obtain ⟨c1, c2, c3, c4⟩ := cfg_listen hc 1 (by decide)
  obtain ⟨v, hv⟩ : ∃ v, v = s.d.config &&& 0xFC ||| (2 + 1) := ⟨_, rfl⟩
  rw [← hv] at c1 c2 c3 c4
  obtain ⟨ra, hP0⟩ : ∃ ra, P[0]? = some ra := ⟨P[0], by simp⟩
  have hral : ra.length = 5 := h22 ra (List.mem_of_getElem? hP0)
  have hp0l : s.d.pipes0.length = 5 := by rw [h18]; exact h19
  have hread : s.d.pipe0ReadAddr = some ra := h20.trans hP0
  have hrole : decide (v &&& 1 ≠ 0) = true := by simpa using c3.2 rfl
  have hcrc : v &&& 4 = L.crc := c4.trans (by rw [h1]; exact h5)
  obtain ⟨vio, hvio⟩ := wr_config ({ s.radio with ce := false } : Radio) v
  rw [and_7F_of_lt c1] at hvio
  have key : Run s.w (setListen true) s.d s.radio (fun _ d' r' =>
      d'.rid = s.d.rid ∧ r'.lastRx = s.radio.lastRx ∧ r'.rxFifo = s.radio.rxFifo ∧
      NodeRadio L P true true aa d' r') := by
    unfold setListen
    refine Run.bind (run_setCE false (Or.inl h26)) ?_
    rintro _ _ _ ⟨rfl, rfl⟩
    refine Run.bind (run_modD _ rfl) ?_
    rintro _ _ _ ⟨rfl, rfl⟩
    refine Run.bind run_getD ?_
    rintro _ _ _ ⟨rfl, rfl, rfl⟩
    simp only [b2n, ↓reduceIte, ← hv]
    refine Run.bind (run_regWrite 0 v (by omega) (by decide) h26) ?_
    rintro _ _ _ ⟨rfl, rfl⟩
    rw [hvio]
    refine Run.bind run_nowNs ?_
    rintro start _ _ ⟨rfl, rfl⟩
    refine Run.bind (run_setCE true (Or.inl h26)) ?_
    rintro _ _ _ ⟨rfl, rfl⟩
    refine Run.bind run_getD ?_
    rintro _ _ _ ⟨rfl, rfl, rfl⟩
    refine Run.bind run_address0 ?_
    rintro _ _ _ ⟨rfl, rfl, rfl⟩
    simp only [hread]
    by_cases hra : ra = s.d.pipes0
    · simp only [hra, ne_eq, not_true_eq_false, ↓reduceIte]
      refine run_settle start ⟨rfl, rfl, rfl, ?_⟩
      exact ⟨rfl, c2, hrole, rfl, hcrc, h6, h7, h8, h9, h10, h11, h12, h13, h14, h15, h16, h17, h18, h19,
        by rw [hP0, hra], h21, h22, fun _ => by rw [hP0, hra, h18], h24, h25, h26, c1, h28, h29⟩
    · simp only [ne_eq, hra, not_false_eq_true, ↓reduceIte]
      refine Run.bind (run_assignPrefix0 ra hral hp0l) ?_
      rintro _ _ _ ⟨rfl, rfl⟩
      refine Run.bind (run_regWriteBytes 0x0A ra (by intro h; rw [h] at hral; cases hral) (by decide) h26) ?_
      rintro _ _ _ ⟨rfl, rfl⟩
      have hov : Radio.overlay s.radio.rxAddr0 ra = ra := overlay_full _ _ (by omega) hral
      refine run_settle start ⟨rfl, rfl, rfl, ?_⟩
      refine ⟨rfl, c2, hrole, rfl, hcrc, h6, h7, h8, h9, h10, h11, h12, h13, h14, h15, h16, h17, hov.symm,
        (congrArg List.length hov).trans hral, hP0.symm, h21, h22, fun _ => (congrArg some hov).trans hP0.symm,
        ?_, h25, h26, c1, h28, h29⟩
      intro p hp
      have hp0 : p ≠ 0 := by intro h; subst h; simp at hp
      have := h24 p hp
      unfold Radio.rxAddr at this ⊢
      simp only [hp0, ↓reduceIte] at this ⊢
      exact this
  obtain ⟨_, s', e, S, q1, q2, q3, q4⟩ := key.start hw
  exact ⟨s', e, S.frame q1 q2, q4, q3⟩

/-! ### `open_tx_pipe` -/

theorem l3_openTx (s : DrvState) (L : LinkCfg) (P : List Bytes) (ce : Bool) (a : Bytes) (hw : s.Wf)
    (hN : NodeRadio L P false ce 0x3F s.d s.radio) (ha : a.length = 5) :
    ∃ s', exec (openTxPipe a) s = (.ok (), s') ∧ DrvFrame s s' ∧
      NodeRadio L P false ce 0x3F s'.d s'.radio ∧ s'.radio.rxFifo = s.radio.rxFifo ∧
      s'.radio.rxAddr0 = a ∧ s'.radio.txAddr = a := by
  obtain ⟨h1, h2, h3, h4, h5, h6, h7, h8, h9, h10, h11, h12, h13, h14, h15, h16, h17, h18, h19, h20, h21, h22,
    h23, h24, h25, h26, h27, h28, h29⟩ := hN
  have hp0l : s.d.pipes0.length = 5 := by rw [h18]; exact h19
  have hane : a ≠ [] := by intro h; rw [h] at ha; cases ha
  have key : Run s.w (openTxPipe a) s.d s.radio (fun _ d' r' =>
      d'.rid = s.d.rid ∧ r'.lastRx = s.radio.lastRx ∧ r'.rxFifo = s.radio.rxFifo ∧
      NodeRadio L P false ce 0x3F d' r' ∧ r'.rxAddr0 = a ∧ r'.txAddr = a) := by
    unfold openTxPipe
    refine Run.bind run_getD ?_
    rintro _ _ _ ⟨rfl, rfl, rfl⟩
    have haa : s.d.aa &&& 1 ≠ 0 := by rw [h8]; decide
    simp only [haa, ne_eq, not_false_eq_true, ↓reduceIte]
    refine Run.bind (run_assignPrefix0 a ha hp0l) ?_
    rintro _ _ _ ⟨rfl, rfl⟩
    refine Run.bind (run_regWriteBytes 0x0A a hane (by decide) h26) ?_
    rintro _ _ _ ⟨rfl, rfl⟩
    refine Run.bind run_getD ?_
    rintro _ _ _ ⟨rfl, rfl, rfl⟩
    have hop : ¬ (s.d.config &&& 1 = 0 ∧ s.d.openPipes &&& 1 = 0) := by rw [h10]; simp
    simp only [hop, ↓reduceIte]
    refine Run.bind run_getD ?_
    rintro _ _ _ ⟨rfl, rfl, rfl⟩
    have hov : overwritePrefix s.d.txAddress a = .ok a := by
      unfold overwritePrefix
      have : ¬ a.length > s.d.txAddress.length := by omega
      simp only [this, ↓reduceIte]
      rw [List.drop_of_length_le (by omega), List.append_nil]
    simp only [hov]
    refine Run.bind (run_modD _ rfl) ?_
    rintro _ _ _ ⟨rfl, rfl⟩
    refine (run_regWriteBytes 0x10 a hane (by decide) (by rw [writeReg_txFifo]; exact h26)).conseq ?_
    rintro _ _ _ ⟨rfl, rfl⟩
    have hov0 : Radio.overlay s.radio.rxAddr0 a = a := overlay_full _ _ (by omega) ha
    have hovt : Radio.overlay s.radio.txAddr a = a := overlay_full _ _ (by omega) ha
    refine ⟨rfl, rfl, rfl, ?_, hov0, hovt⟩
    refine ⟨h1, h2, h3, h4, h5, h6, h7, h8, h9, h10, h11, h12, h13, h14, h15, h16, h17, hov0.symm,
      (congrArg List.length hov0).trans ha, h20, h21, h22, (fun h => by cases h), ?_, ha, h26, h27,
      (congrArg List.length hovt).trans ha, h29⟩
    intro p hp
    have hp0 : p ≠ 0 := by intro h; subst h; simp at hp
    have := h24 p hp
    unfold Radio.rxAddr at this ⊢
    simp only [hp0, ↓reduceIte] at this ⊢
    exact this
  obtain ⟨_, s', e, S, q1, q2, q3, q4, q5, q6⟩ := key.start hw
  exact ⟨s', e, S.frame q1 q2, q4, q3, q5, q6⟩

end Nrf.L3
