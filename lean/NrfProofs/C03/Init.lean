/-
C03: `__init__` detects the chip variant, unlocks the feature registers of a non-plus chip and
establishes the invariant — from any well-formed world: plus or non-plus chip, feature registers
locked or unlocked, any register contents.  (The variant detection itself is analysed in
`NrfProofs/InitDetect.lean`.)
-/
import NrfProofs.C03.Enter
import NrfProofs.InitDetect

set_option linter.unusedSimpArgs false

namespace Nrf
open Rf24 Cfg

theorem readBytes_after_read (t : DrvState) (r : Nat) (d : Bytes) (reg : Nat) (hw : t.Wf) (hr : r < 0x20)
    (hreg : reg = 0x0A ∨ reg = 0x0B ∨ reg = 0x10) :
    (t.spiStep (r :: d)).readBytes reg 5 = t.readBytes reg 5 := by
  rw [readBytes_eq _ _ hreg, readBytes_eq _ _ hreg, spiStep_read_cfg _ _ _ hw hr]

theorem readBytes_modShadow (t : DrvState) (f : Rf24 → Rf24) (reg n : Nat) (hf : ∀ d, (f d).rid = d.rid) :
    (t.modShadow f).readBytes reg n = t.readBytes reg n := by
  unfold DrvState.readBytes DrvState.modShadow
  simp only [hf]

/-- `with self: flush_rx(); flush_tx(); clear_status_flags()` at the end of `__init__` -/
def initSuffix : DrvM Unit := do
  enter
  flushRx
  flushTx
  clearStatusFlags
  Rf24.exit

/-- `flush_rx(); flush_tx(); clear_status_flags()` change no configuration register -/
theorem flushes_post' (s : DrvState) (hw : s.Wf) (hc : Cached s.d s.cfg) :
    Post (exec (do flushRx; flushTx; clearStatusFlags : DrvM Unit) s) s (.ok ()) s.cfg s.d.pipe0ReadAddr := by
  unfold flushRx flushTx clearStatusFlags
  simp only [exec_bind, exec_regCmd, Rf24.b2n, ↓reduceIte]
  rw [exec_regWrite _ _ _ (by decide) (by decide)]
  refine Post.of_reach (by reach hw) hw ?_ rfl { hc with }
  rfl

theorem flushes_post (s : DrvState) (h : Inv s) :
    Post (exec (do flushRx; flushTx; clearStatusFlags : DrvM Unit) s) s (.ok ()) s.cfg s.d.pipe0ReadAddr :=
  flushes_post' s h.wf h.cached

/-- `__exit__` needs only the cached CONFIG (in range) of the invariant -/
theorem exit_post' (s : DrvState) (hw : s.Wf) (hca : Cached s.d s.cfg) (hcfg : s.cfg.config < 128) :
    Post (exec Rf24.exit s) s (.ok ()) { s.cfg with ce := false, config := setBit s.cfg.config 1 false }
      s.d.pipe0ReadAddr := by
  have hb := bits_pwr_off _ hcfg
  unfold Rf24.exit
  exec_simp [hca.config, hb.1]
  rw [exec_regWrite_nat3 _ _ _ (by omega) (by decide)]
  exec_simp []
  refine Post.of_reach (by reach hw) hw ?_ rfl ?_
  · rw [Radio.w_config _ _ hb.2.1 (.inl rfl)]; rfl
  · refine { hca with config := ?_ }
    show s.d.config &&& 0x7D = _
    rw [hca.config]; exact hb.1

/-- sequencing when only well-formedness and the cache equations are carried along (no range facts) -/
theorem Post.bind_weak {α β} {x : DrvM α} {f : α → DrvM β} {s : DrvState} {a : α} {c1 : Radio} {p1 : Option Bytes}
    {r : Except PyErr β} {c2 : Radio} {p2 : Option Bytes}
    (h1 : Post (exec x s) s (.ok a) c1 p1)
    (h2 : ∀ s1 : DrvState, s1.Wf → Cached s1.d s1.cfg → s1.cfg = c1 → s1.d.pipe0ReadAddr = p1 →
      Post (exec (f a) s1) s1 r c2 p2) :
    Post (exec (x >>= f) s) s r c2 p2 := by
  rw [exec_bind]
  have h3 := h2 _ h1.wf (h1.cfg ▸ h1.cached) h1.cfg h1.p0
  have hres := h1.res
  rcases hx : exec x s with ⟨r1, s1⟩
  rw [hx] at h1 h3 hres
  simp only at hres
  subst hres
  exact Post.trans h1 h3

theorem initSuffix_eq : initSuffix = (enter >>= fun _ =>
    (do flushRx; flushTx; clearStatusFlags : DrvM Unit) >>= fun _ => Rf24.exit) := rfl

/-- the register file `__init__` leaves, given the shadows `d` and the registers `r` right before
    its `with` block -/
def initCfg (d : Rf24) (r : Radio) : Radio :=
  { enterCfg d r with ce := false, config := setBit (enterCfg d r).config 1 false }

/-- the `with` block at the end of `__init__`, from a state `t` whose shadows are in programmable
    range, whose feature registers are accessible and whose variant is known.  No hypothesis on
    the chip's violation log: that one is only needed for `CfgOk`. -/
theorem init_finish_post {s t : DrvState} (hst : Steps s t) (hw : s.Wf) (hso : ShadowOk t.d) (hrs : RadioShape t.cfg)
    (hvis : t.cfg.featureVisible = true) (hip : t.d.isPlus = t.cfg.plus) :
    Post (exec initSuffix t) t (.ok ()) (initCfg t.d t.cfg) t.d.pipe0ReadAddr := by
  have hf := hst.frame hw
  rw [initSuffix_eq]
  refine Post.bind_weak (enter_post t hf.1 hso hrs hvis hip) ?_
  intro s1 hw1 hca1 hc1 hp1
  refine Post.bind_weak (flushes_post' s1 hw1 hca1) ?_
  intro s2 hw2 hca2 hc2 hp2
  have := exit_post' s2 hw2 hca2 (by rw [hc2, hc1]; exact bits_or2 _ hso.config)
  rw [hc2, hc1, hp2, hp1] at this
  exact this

theorem initCfg_ok {d : Rf24} {r : Radio} (hso : ShadowOk d) (hvis : r.featureVisible = true)
    (hlog : LogOk r.violations) : CfgOk (initCfg d r) :=
  have hok := enterCfg_ok hso hvis hlog
  (hok.set_ce false).set_config (ok_bits7 _ hok.config 1 (by decide) _)

/-! ### `__init__` = probe and capture; detect the variant; default shadows and the `with` block -/

/-- first part of `__init__`: probe the chip, capture the RX addresses -/
def initPre : DrvM Unit := do
  setCE false
  regWrite CONFIGURE (← getD).config
  if (← regRead CONFIGURE) ≠ (← getD).config then raise .runtimeError
  let p0 ← regReadBytes RX_ADDR_P0
  let p1 ← regReadBytes (RX_ADDR_P0 + 1)
  let p2 ← regRead (RX_ADDR_P0 + 2)
  let p3 ← regRead (RX_ADDR_P0 + 3)
  let p4 ← regRead (RX_ADDR_P0 + 4)
  let p5 ← regRead (RX_ADDR_P0 + 5)
  modD fun d => { d with pipes0 := p0, pipes1 := p1, pipesN := [p2, p3, p4, p5],
                         openPipes := 0, isPlus := false }

/-- third part of `__init__`: the default shadows -/
def initDefaults : DrvM Unit := do
  modD fun d => { d with features := 5, pipe0ReadAddr := none }
  let ta ← regReadBytes TX_ADDRESS
  modD fun d => { d with txAddress := ta, retrySetup := 0x5F, rfSetup := 0x07, dynPl := 0x3F,
                         aa := 0x3F, channel := 76, addrLen := 5, plLen := [32, 32, 32, 32, 32, 32] }

/-- last part of `__init__`: the default shadows, then `with self: flush_rx(); flush_tx(); clear_status_flags()` -/
def initPost : DrvM Unit := do
  initDefaults
  initSuffix

theorem ite_bind_drv {α β} (c : Prop) [Decidable c] (a b : DrvM α) (k : α → DrvM β) :
    (if c then a else b) >>= k = if c then a >>= k else b >>= k := by split <;> rfl

/-- the middle part is `detect` (`NrfProofs/InitDetect.lean`) -/
theorem init_eq3 : init = (do initPre; detect; initPost) := by
  unfold init initPre detect initPost initDefaults initSuffix
  simp only [bind_assoc, ite_bind_drv]

/-- the shadows the first part leaves -/
def preShadow (d : Rf24) (r : Radio) (st : Nat) : Rf24 :=
  { d with pipes0 := r.rxAddr0, pipes1 := r.rxAddr1,
           pipesN := [r.rxAddrN.getD 0 0, r.rxAddrN.getD 1 0, r.rxAddrN.getD 2 0, r.rxAddrN.getD 3 0],
           openPipes := 0, isPlus := false, status := st }

theorem initPre_spec (s : DrvState) (hw : s.Wf) (hr : RadioShape s.cfg) (hd : s.d.config = 0x0E) :
    ∃ t, exec initPre s = (.ok (), t) ∧ Steps s t ∧ t.cfg = { s.cfg with ce := false, config := 14 } ∧
      t.d = preShadow s.d s.cfg t.d.status := by
  have hre : Reach3 s ((s.ceStep3 false).spiStep [32 ||| 0, 14])
      (({ s.cfg with ce := false } : Radio).writeReg 0 [14]).cfgOf := by reach hw
  have hT0 : ((s.ceStep3 false).spiStep [32 ||| 0, 14]).cfg = { s.cfg with ce := false, config := 14 } := by
    rw [hre.cfg, Radio.w_config _ _ (by decide) (.inl rfl)]; rfl
  unfold initPre
  exec_simp [hd]
  rw [exec_regWrite_nat3 _ _ _ (by decide) (by decide)]
  exec_simp [hw, exec_regReadBytes', Nat.reduceAdd, readBytes_after_read, readBytes_modShadow, spiStep_read_cfg,
    modShadow_cfg']
  simp only [readVal_eq, readBytes_eq, hT0, Nat.reduceLT, Nat.reduceEqDiff, ne_eq, not_false_eq_true, and_self,
    true_or, or_true, Radio.readReg, List.headD_cons, ↓reduceIte, hd,
    clockOut_full _ hr.a0, clockOut_full _ hr.a1]
  refine ⟨_, rfl, by steps, ?_, ?_⟩
  · simp (maxDischargeDepth := 8) only [hw, spiStep_read_cfg, modShadow_cfg', hT0, spiStep_wf, ceStep_wf3,
      modShadow_wf3', implies_true, Nat.reduceLT]
  · simp only [spiStep_d3', modShadow_d, ceStep_d3, preShadow]

/-- the shadows the third part leaves -/
def defaultShadow (d : Rf24) (r : Radio) (st : Nat) : Rf24 :=
  { d with features := 5, pipe0ReadAddr := none, txAddress := r.txAddr, retrySetup := 0x5F, rfSetup := 0x07,
           dynPl := 0x3F, aa := 0x3F, channel := 76, addrLen := 5, plLen := [32, 32, 32, 32, 32, 32], status := st }

theorem initDefaults_spec (t : DrvState) (hw : t.Wf) (htx : t.cfg.txAddr.length = 5) :
    ∃ T, exec initDefaults t = (.ok (), T) ∧ Steps t T ∧ T.cfg = t.cfg ∧
      T.d = defaultShadow t.d t.cfg T.d.status := by
  unfold initDefaults
  exec_simp [exec_regReadBytes', readBytes_modShadow]
  rw [readBytes_eq _ _ (.inr (.inr rfl))]
  simp only [Radio.readReg, clockOut_full _ htx]
  refine ⟨_, rfl, by steps, ?_, ?_⟩
  · rw [modShadow_cfg _ _ rfl, spiStep_read_cfg _ _ _ ((modShadow_wf _ _ rfl).2 hw) (by decide),
      modShadow_cfg _ _ rfl]
  · simp only [spiStep_d3', modShadow_d, defaultShadow]

/-- the shadows right before the `with` block of `__init__`: the adopted addresses, the defaults,
    the detected variant -/
def initShadowOf (d : Rf24) (r : Radio) (st : Nat) : Rf24 :=
  { defaultShadow (preShadow d r 0) r st with isPlus := r.plus }

theorem initShadowOf_ok (d : Rf24) (r : Radio) (st : Nat) (hr : RadioShape r) (hd : d.config = 0x0E) :
    ShadowOk (initShadowOf d r st) := by
  have hgetD : ∀ i, r.rxAddrN.getD i 0 < 256 := by
    intro i
    rw [List.getD_eq_getElem?_getD]
    cases hi : r.rxAddrN[i]? with
    | none => decide
    | some x => exact hr.aNw x (List.mem_of_getElem? hi)
  constructor <;> simp only [initShadowOf, defaultShadow, preShadow, hd]
  · decide
  · decide
  · decide
  · decide
  · decide
  · decide
  · decide
  · exact ⟨hr.a0, hr.a0w⟩
  · exact ⟨hr.a1, hr.a1w⟩
  · refine ⟨rfl, ?_⟩
    intro x hx
    simp only [List.mem_cons, List.not_mem_nil, or_false] at hx
    rcases hx with h | h | h | h <;> (rw [h]; exact hgetD _)
  · exact ⟨hr.tx, hr.txw⟩
  · rfl
  · decide
  · decide
  · intro ra hra; cases hra

theorem DetReach.toSteps {s t : DrvState} (h : DetReach s t) : Steps s t := by
  induction h with
  | refl => exact .refl
  | spi out _ ih => exact .spi out ih
  | mod f hf _ ih => exact .mod f hf ih

/-- **`__init__`**, from any well-formed state whose CONFIG shadow is the constructor's 0x0E — plus or
    non-plus chip, feature registers locked or unlocked, any register contents (in hardware shape):
    returns normally; the cache equals a register file `c` (so `_is_plus_variant` is the chip's
    variant) in which the feature registers are accessible; no other radio is touched; `c` is within
    the documented ranges if nothing reserved had been logged before. -/
theorem init_post (s : DrvState) (hw : s.Wf) (hr : RadioShape s.cfg) (hd : s.d.config = 0x0E) :
    ∃ c, Post (exec init s) s (.ok ()) c none ∧ c.plus = s.cfg.plus ∧ c.featureVisible = true ∧
      (LogOk s.cfg.violations → CfgOk c) := by
  rw [init_eq3]
  -- probe and capture
  obtain ⟨t1, hex1, hst1, hc1, hd1⟩ := initPre_spec s hw hr hd
  rw [det_bind hex1]
  have hw1 : t1.Wf := (hst1.frame hw).1
  have hip1 : t1.d.isPlus = false := by rw [hd1]; rfl
  -- variant detection
  obtain ⟨t2, ft, hex2, hat2, hft⟩ := detect_spec t1 hw1 hip1
  rw [det_bind hex2]
  have hst2 : Steps t1 t2 := hat2.reach.toSteps
  have hw2 : t2.Wf := (hst2.frame hw1).1
  obtain ⟨fs, st2, hd2⟩ := hat2.d
  have hc2 := hat2.cfg
  rw [hc1] at hc2 hft
  have hplus2 : t2.cfg.plus = s.cfg.plus := by rw [hc2]
  have hvis2 : t2.cfg.featureVisible = true := by
    rw [hc2]; unfold Radio.featureVisible
    show (s.cfg.plus || (if s.cfg.plus = true then s.cfg.activated else true)) = true
    cases s.cfg.plus <;> rfl
  -- default shadows
  unfold initPost
  have htx2 : t2.cfg.txAddr.length = 5 := by rw [hc2]; exact hr.tx
  obtain ⟨T, hexT, hstT, hcT, hdT'⟩ := initDefaults_spec t2 hw2 htx2
  rw [det_bind hexT]
  have hwT : T.Wf := (hstT.frame hw2).1
  have hdT : T.d = initShadowOf s.d s.cfg T.d.status := by
    rw [hdT', hd2, hd1, hc2, hc1]
    rfl
  have hso : ShadowOk T.d := by rw [hdT]; exact initShadowOf_ok _ _ _ hr hd
  have hrsT : RadioShape T.cfg := by
    rw [hcT, hc2]
    exact ⟨hr.a0, hr.a1, hr.aN, hr.tx, hr.pw, hr.a0w, hr.a1w, hr.aNw, hr.txw⟩
  have hipT : T.d.isPlus = T.cfg.plus := by rw [hcT, hplus2, hdT]; rfl
  have hst : Steps s T := (hst1.trans hst2).trans hstT
  have hfin := init_finish_post hst hw hso hrsT (hcT ▸ hvis2) hipT
  have hp0T : T.d.pipe0ReadAddr = none := by rw [hdT]; rfl
  rw [hp0T] at hfin
  have hfr := hst.frame hw
  refine ⟨initCfg T.d T.cfg, ?_, ?_, ?_, ?_⟩
  · exact ⟨hfin.res, hfin.cfg, hfin.p0, hfin.cached, hfin.wf, hfin.rid.trans hfr.2.1,
      fun j hj => (hfin.frame j (by rw [hfr.2.1]; exact hj)).trans (hfr.2.2 j hj), hfin.len.trans hst.length⟩
  · show T.cfg.plus = _
    rw [hcT, hplus2]
  · show (T.cfg.plus || T.cfg.activated) = true
    exact hcT ▸ hvis2
  · intro hlog
    refine initCfg_ok hso (hcT ▸ hvis2) ?_
    rw [hcT, hc2]
    exact hlog

/-- `__init__` establishes the invariant — on a plus **or non-plus** chip, whatever state its
    feature registers were in -/
theorem init_inv (s : DrvState) (hw : s.Wf) (hr : RadioShape s.cfg)
    (hlog : LogOk s.cfg.violations) (hd : s.d.config = 0x0E) :
    (exec init s).1 = .ok () ∧ Inv (exec init s).2 ∧
    (∀ j, j ≠ s.d.rid → (exec init s).2.cfgAt j = s.cfgAt j) := by
  obtain ⟨c, hpost, _, _, hok⟩ := init_post s hw hr hd
  exact ⟨hpost.res, hpost.inv (hok hlog) (by intro ra hra; cases hra), hpost.frame⟩

/-- shadows that equal in-range registers are in programmable range: `with` can be re-entered -/
theorem Inv.shadowOk {s : DrvState} (h : Inv s) : ShadowOk s.d where
  config := h.cached.config ▸ h.ok.config
  rfSetup := h.cached.rfSetup ▸ h.ok.rfSetup
  openPipes := h.cached.openPipes ▸ h.ok.enRxAddr
  dynPl := h.cached.dynPl ▸ h.ok.dynpd
  aa := h.cached.aa ▸ h.ok.enAA
  features := h.cached.features ▸ h.ok.feature
  retrySetup := h.cached.retrySetup ▸ h.ok.setupRetr
  pipes0 := h.cached.pipes0 ▸ h.ok.a0
  pipes1 := h.cached.pipes1 ▸ h.ok.a1
  pipesN := h.cached.pipesN ▸ h.ok.aN
  txAddress := h.cached.txAddress ▸ h.ok.tx
  plLen := h.cached.plLen ▸ h.ok.rxPwLen
  channel := h.cached.channel ▸ h.ok.rfCh
  addrLen := by rw [h.cached.addrLen]; have := h.ok.setupAw; omega
  user0 := h.user0

theorem Inv.radioShape {s : DrvState} (h : Inv s) : RadioShape s.cfg :=
  ⟨h.ok.a0.1, h.ok.a1.1, h.ok.aN.1, h.ok.tx.1, h.ok.rxPwLen, h.ok.a0.2, h.ok.a1.2, h.ok.aN.2, h.ok.tx.2⟩

/-- re-entering `with` from a state satisfying the invariant re-establishes it -/
theorem reenter_inv (s : DrvState) (h : Inv s) : (exec enter s).1 = .ok () ∧ Inv (exec enter s).2 :=
  have h1 := enter_inv s h.wf h.shadowOk h.radioShape h.ok.vis h.cached.isPlus h.ok.log
  ⟨h1.1, h1.2.1⟩

end Nrf
