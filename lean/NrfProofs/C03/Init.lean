/-
C03: `__init__` establishes the invariant on a plus-variant chip, from any well-formed world.
-/
import NrfProofs.C03.Enter

namespace Nrf
open Rf24 Cfg

theorem readBytes_after_read (t : DrvState) (r : Nat) (d : Bytes) (reg : Nat) (hw : t.Wf) (hr : r < 0x20)
    (hreg : reg = 0x0A ∨ reg = 0x0B ∨ reg = 0x10) :
    (t.spiStep (r :: d)).readBytes reg 5 = t.readBytes reg 5 := by
  rw [readBytes_eq _ _ hreg, readBytes_eq _ _ hreg, spiStep_read_cfg _ _ _ hw hr]

theorem readVal_after_activate (t : DrvState) (v reg : Nat) (hw : t.Wf) (hp : t.cfg.plus = true)
    (hreg : reg < 0x20) (hc : reg ≠ 7 ∧ reg ≠ 8 ∧ reg ≠ 9 ∧ reg ≠ 0x17) :
    (t.spiStep [0x50, v]).readVal reg = t.readVal reg := by
  rw [readVal_eq _ _ hreg hc, readVal_eq _ _ hreg hc, spiStep_activate_cfg _ _ hw hp]

theorem readBytes_after_activate (t : DrvState) (v reg : Nat) (hw : t.Wf) (hp : t.cfg.plus = true)
    (hreg : reg = 0x0A ∨ reg = 0x0B ∨ reg = 0x10) :
    (t.spiStep [0x50, v]).readBytes reg 5 = t.readBytes reg 5 := by
  rw [readBytes_eq _ _ hreg, readBytes_eq _ _ hreg, spiStep_activate_cfg _ _ hw hp]

theorem readBytes_modShadow (t : DrvState) (f : Rf24 → Rf24) (reg n : Nat) (hf : ∀ d, (f d).rid = d.rid) :
    (t.modShadow f).readBytes reg n = t.readBytes reg n := by
  unfold DrvState.readBytes DrvState.modShadow
  simp only [hf]

/-- `with self: flush_rx(); flush_tx(); clear_status_flags()` at the end of `__init__` -/
def initSuffix : DrvM Unit := do
  enter
  flushRx
  flushTx
  clearStatusFlags
  Rf24.exit

/-- `flush_rx(); flush_tx(); clear_status_flags()` change no configuration register -/
theorem flushes_post (s : DrvState) (h : Inv s) :
    Post (exec (do flushRx; flushTx; clearStatusFlags : DrvM Unit) s) s (.ok ()) s.cfg s.d.pipe0ReadAddr := by
  unfold flushRx flushTx clearStatusFlags
  simp only [exec_bind, exec_regCmd, Rf24.b2n, ↓reduceIte]
  rw [exec_regWrite _ _ _ (by decide) (by decide)]
  refine Post.of_reach (by reach h.wf) h.wf ?_ rfl { h.cached with }
  rfl

theorem initSuffix_eq : initSuffix = (enter >>= fun _ =>
    (do flushRx; flushTx; clearStatusFlags : DrvM Unit) >>= fun _ => Rf24.exit) := rfl

theorem init_finish {s t : DrvState} (hst : Steps s t) (hw : s.Wf) (hso : ShadowOk t.d) (hrs : RadioShape t.cfg)
    (hplus : t.cfg.plus = true) (hip : t.d.isPlus = true) (hlog : LogOk t.cfg.violations) :
    (exec initSuffix t).1 = .ok () ∧ Inv (exec initSuffix t).2 ∧
    ∀ j, j ≠ s.d.rid → (exec initSuffix t).2.cfgAt j = s.cfgAt j := by
  have hf := hst.frame hw
  have hvis : t.cfg.featureVisible = true := by unfold Radio.featureVisible; rw [hplus]; rfl
  have hok := enterCfg_ok hso hvis hlog
  have hpost : Post (exec initSuffix t) t (.ok ())
      { enterCfg t.d t.cfg with ce := false, config := setBit (enterCfg t.d t.cfg).config 1 false }
      t.d.pipe0ReadAddr := by
    rw [initSuffix_eq]
    refine Post.bind (enter_post t hf.1 hso hrs hvis (hip.trans hplus.symm)) hok hso.user0 ?_
    intro s1 h1 hc1 hp1
    refine Post.bind (flushes_post s1 h1) h1.ok h1.user0 ?_
    intro s2 h2 hc2 hp2
    have := exit_post s2 h2
    rw [hc2, hc1, hp2, hp1] at this
    exact this
  refine ⟨hpost.res, hpost.inv ((hok.set_ce false).set_config (ok_bits7 _ hok.config 1 (by decide) _)) hso.user0, ?_⟩
  intro j hj
  rw [hpost.frame j (by rw [hf.2.1]; exact hj), hf.2.2 j hj]

theorem init_eq : init = (do
    setCE false
    regWrite CONFIGURE (← getD).config
    if (← regRead CONFIGURE) ≠ (← getD).config then raise .runtimeError
    let p0 ← regReadBytes RX_ADDR_P0
    let p1 ← regReadBytes (RX_ADDR_P0 + 1)
    let p2 ← regRead (RX_ADDR_P0 + 2)
    let p3 ← regRead (RX_ADDR_P0 + 3)
    let p4 ← regRead (RX_ADDR_P0 + 4)
    let p5 ← regRead (RX_ADDR_P0 + 5)
    modD fun d => { d with pipes0 := p0, pipes1 := p1, pipesN := [p2, p3, p4, p5],
                           openPipes := 0, isPlus := false }
    let f ← regRead TX_FEATURE
    modD fun d => { d with features := f }
    regWrite 0x50 0x73
    let after ← regRead TX_FEATURE
    if f = after then modD fun d => { d with isPlus := true }
    else if after = 0 then regWrite 0x50 0x73
    modD fun d => { d with features := 5, pipe0ReadAddr := none }
    let ta ← regReadBytes TX_ADDRESS
    modD fun d => { d with txAddress := ta, retrySetup := 0x5F, rfSetup := 0x07, dynPl := 0x3F,
                           aa := 0x3F, channel := 76, addrLen := 5, plLen := [32, 32, 32, 32, 32, 32] }
    initSuffix) := rfl

theorem init_inv (s : DrvState) (hw : s.Wf) (hr : RadioShape s.cfg) (hplus : s.cfg.plus = true)
    (hlog : LogOk s.cfg.violations) (hd : s.d.config = 0x0E) :
    (exec init s).1 = .ok () ∧ Inv (exec init s).2 ∧
    (∀ j, j ≠ s.d.rid → (exec init s).2.cfgAt j = s.cfgAt j) := by
  have hre : Reach s ((s.ceStep false).spiStep [32 ||| 0, 14])
      (({ s.cfg with ce := false } : Radio).writeReg 0 [14]).cfgOf := by reach hw
  have hT0 : ((s.ceStep false).spiStep [32 ||| 0, 14]).cfg = { s.cfg with ce := false, config := 14 } := by
    rw [hre.cfg, Radio.w_config _ _ (by decide) (.inl rfl)]; rfl
  have hvis' : (s.cfg.plus || s.cfg.activated) = true := by rw [hplus]; rfl
  rw [init_eq]
  exec_simp [hd]
  rw [exec_regWrite_nat _ _ _ (by decide) (by decide)]
  exec_simp [hw, exec_regReadBytes', Nat.reduceAdd, readBytes_after_read, readBytes_modShadow, spiStep_read_cfg,
    modShadow_cfg']
  simp only [readVal_eq, readBytes_eq, hT0, Nat.reduceLT, Nat.reduceEqDiff, ne_eq, not_false_eq_true, and_self,
    true_or, or_true, Radio.readReg, List.headD_cons, Radio.featureVisible, hvis', ↓reduceIte, hd,
    clockOut_full _ hr.a0, clockOut_full _ hr.a1]
  rw [show ((115 : Int)) = ((115 : Nat) : Int) from rfl, exec_regWrite_activate _ _ (by decide)]
  exec_simp_deep [hw, not_true_eq_false, spiStep_activate_cfg, spiStep_read_cfg, modShadow_cfg', hT0, hplus, hvis',
    Bool.true_or, exec_regReadBytes', readBytes_after_read, readBytes_modShadow, readBytes_after_activate,
    readBytes_eq, Radio.readReg, clockOut_full _ hr.tx]
  have hgetD : ∀ i, s.cfg.rxAddrN.getD i 0 < 256 := by
    intro i
    rw [List.getD_eq_getElem?_getD]
    cases hi : s.cfg.rxAddrN[i]? with
    | none => decide
    | some x => exact hr.aNw x (List.mem_of_getElem? hi)
  refine init_finish (by steps) hw ?_ ?_ ?_ ?_ ?_
  · constructor <;> simp only [spiStep_d', modShadow_d, ceStep_d, hd]
    · decide
    · decide
    · decide
    · decide
    · decide
    · decide
    · decide
    · exact ⟨hr.a0, hr.a0w⟩
    · exact ⟨hr.a1, hr.a1w⟩
    · refine ⟨rfl, ?_⟩
      intro x hx
      simp only [List.mem_cons, List.not_mem_nil, or_false] at hx
      rcases hx with h | h | h | h <;> (rw [h]; exact hgetD _)
    · exact ⟨hr.tx, hr.txw⟩
    · rfl
    · decide
    · decide
    · intro ra hra; cases hra
  all_goals
    simp (maxDischargeDepth := 8) only [hw, spiStep_activate_cfg, spiStep_read_cfg, modShadow_cfg', hT0, hplus,
      spiStep_wf, ceStep_wf, modShadow_wf', implies_true, Nat.reduceLT, spiStep_d', modShadow_d, ceStep_d]
  · exact ⟨hr.a0, hr.a1, hr.aN, hr.tx, hr.pw, hr.a0w, hr.a1w, hr.aNw, hr.txw⟩
  · exact hlog

/-- shadows that equal in-range registers are in programmable range: `with` can be re-entered -/
theorem Inv.shadowOk {s : DrvState} (h : Inv s) : ShadowOk s.d where
  config := h.cached.config ▸ h.ok.config
  rfSetup := h.cached.rfSetup ▸ h.ok.rfSetup
  openPipes := h.cached.openPipes ▸ h.ok.enRxAddr
  dynPl := h.cached.dynPl ▸ h.ok.dynpd
  aa := h.cached.aa ▸ h.ok.enAA
  features := h.cached.features ▸ h.ok.feature
  retrySetup := h.cached.retrySetup ▸ h.ok.setupRetr
  pipes0 := h.cached.pipes0 ▸ h.ok.a0
  pipes1 := h.cached.pipes1 ▸ h.ok.a1
  pipesN := h.cached.pipesN ▸ h.ok.aN
  txAddress := h.cached.txAddress ▸ h.ok.tx
  plLen := h.cached.plLen ▸ h.ok.rxPwLen
  channel := h.cached.channel ▸ h.ok.rfCh
  addrLen := by rw [h.cached.addrLen]; have := h.ok.setupAw; omega
  user0 := h.user0

theorem Inv.radioShape {s : DrvState} (h : Inv s) : RadioShape s.cfg :=
  ⟨h.ok.a0.1, h.ok.a1.1, h.ok.aN.1, h.ok.tx.1, h.ok.rxPwLen, h.ok.a0.2, h.ok.a1.2, h.ok.aN.2, h.ok.tx.2⟩

/-- re-entering `with` from a state satisfying the invariant re-establishes it -/
theorem reenter_inv (s : DrvState) (h : Inv s) : (exec enter s).1 = .ok () ∧ Inv (exec enter s).2 :=
  have h1 := enter_inv s h.wf h.shadowOk h.radioShape h.ok.vis h.cached.isPlus h.ok.log
  ⟨h1.1, h1.2.1⟩

end Nrf
