/-
C03 per-method lemmas: RX_PW_P0..5 (`payload_length`, `set_payload_length`, `get_payload_length`).
-/
import NrfProofs.C03.Ok

namespace Nrf
open Rf24 Cfg

theorem clampPl (l : Int) : 1 ≤ clampI 1 32 l ∧ clampI 1 32 l ≤ 32 := by unfold clampI; omega

theorem set_getD_self3 (l : List Nat) (p : Nat) (hp : p < l.length) : l.set p (l.getD p 0) = l := by
  apply List.ext_getElem (by simp)
  intro i h1 h2
  by_cases hi : p = i
  · subst hi; simp [List.getD_eq_getElem?_getD, hp]
  · simp [List.getElem_set_ne hi]

/-- one static payload length is cached and programmed -/
theorem plSet_post (n p : Nat) (s : DrvState) (h : Inv s) (hp : p < 6) (hn : 1 ≤ n ∧ n ≤ 32) :
    Post ((.ok () : Except PyErr Unit),
        (s.modShadow fun d => { d with plLen := d.plLen.set p n }).spiStep [0x20 ||| (0x11 + p), n])
      s (.ok ()) { s.cfg with rxPw := s.cfg.rxPw.set p n } s.d.pipe0ReadAddr := by
  refine Post.of_reach (Reach3.write h.wf _ _ (by omega) (by reach h.wf)) h.wf ?_ rfl ?_
  · rw [Radio.w_rxPw _ _ _ hp hn]; rfl
  · refine { h.cached with plLen := ?_ }
    show s.d.plLen.set p n = _
    rw [h.cached.plLen]

theorem setPayloadLength_pipe_post (l p : Int) (s : DrvState) (h : Inv s) (hp : pipeOk p) :
    Post (exec (setPayloadLength l (some p)) s) s (.ok ())
      { s.cfg with rxPw := s.cfg.rxPw.set p.toNat (clampI 1 32 l) } s.d.pipe0ReadAddr := by
  have hp' : 0 ≤ p ∧ p ≤ 5 := hp
  have hn := clampPl l
  unfold setPayloadLength
  exec_simp [hp']
  rw [show (max 1 (min 32 l)).toNat = clampI 1 32 l from rfl,
    exec_regWrite_nat3 _ _ _ (by omega) (by omega)]
  exact plSet_post _ _ s h (by omega) hn

theorem setPayloadLength_bad_post (l p : Int) (s : DrvState) (h : Inv s) (hp : ¬ pipeOk p) :
    Post (exec (setPayloadLength l (some p)) s) s (.error .indexError) s.cfg s.d.pipe0ReadAddr := by
  have hp' : ¬ (0 ≤ p ∧ p ≤ 5) := hp
  unfold setPayloadLength
  exec_simp [hp']
  exact Post.unchanged h .refl rfl h.cached rfl

theorem getPayloadLength_post (p : Int) (s : DrvState) (h : Inv s) (hp : pipeOk p) :
    Post (exec (getPayloadLength p) s) s (.ok (s.cfg.rxPw.getD p.toNat 0)) s.cfg s.d.pipe0ReadAddr := by
  have hp' : 0 ≤ p ∧ p ≤ 5 := hp
  unfold getPayloadLength
  exec_simp [hp', readVal_rxPw s p.toNat (by omega)]
  refine Post.of_reach (Reach3.mod _ rfl (Reach3.read h.wf _ _ (by omega) (Reach3.refl s))) h.wf rfl rfl ?_
  refine { h.cached with plLen := ?_ }
  show s.d.plLen.set p.toNat (s.cfg.rxPw.getD p.toNat 0) = _
  rw [h.cached.plLen, set_getD_self3 _ _ (by rw [h.ok.rxPwLen]; omega)]

theorem getPayloadLength_bad_post (p : Int) (s : DrvState) (h : Inv s) (hp : ¬ pipeOk p) :
    Post (exec (getPayloadLength p) s) s (.error .indexError) s.cfg s.d.pipe0ReadAddr := by
  have hp' : ¬ (0 ≤ p ∧ p ≤ 5) := hp
  unfold getPayloadLength
  exec_simp [hp']
  exact Post.unchanged h .refl rfl h.cached rfl

theorem getPayloadLengthAttr_post (s : DrvState) (h : Inv s) :
    Post (exec getPayloadLengthAttr s) s (.ok (s.cfg.rxPw.getD 0 0)) s.cfg s.d.pipe0ReadAddr := by
  unfold getPayloadLengthAttr
  exec_simp [h.cached.plLen]
  exact Post.unchanged h .refl rfl h.cached rfl

/-! ### the list form -/

theorem plGo_post (vs : List Int) : ∀ (i : Nat) (s : DrvState), Inv s →
    Post (exec (payloadLengthList.go i vs) s) s (.ok ())
      { s.cfg with rxPw := plList s.cfg.rxPw i vs } s.d.pipe0ReadAddr := by
  induction vs with
  | nil =>
    intro i s h
    unfold payloadLengthList.go plList
    exact Post.unchanged h .refl rfl h.cached rfl
  | cons v rest ih =>
    intro i s h
    unfold payloadLengthList.go plList
    by_cases hc : i < 6 ∧ v > 0
    · have hn := clampPl v
      have hmin : (min 32 v).toNat = clampI 1 32 v := by unfold clampI; omega
      exec_simp [hc, hmin]
      rw [exec_regWrite_nat3 _ _ _ (by omega) (by omega)]
      have hstep := plSet_post (clampI 1 32 v) i s h hc.1 hn
      have hi := hstep.inv (h.ok.rxPw_set _ _ hn) h.user0
      have h2 := ih (i + 1) _ hi
      have h3 := Post.trans hstep h2
      rw [hstep.cfg, hstep.p0] at h3
      exact h3
    · exec_simp [hc]
      exact ih (i + 1) s h

theorem setPayloadLengthAttr_list_post (vs : List Int) (s : DrvState) (h : Inv s) :
    Post (exec (setPayloadLengthAttr (.l vs)) s) s (.ok ())
      { s.cfg with rxPw := plList s.cfg.rxPw 0 vs } s.d.pipe0ReadAddr :=
  plGo_post vs 0 s h

/-- setting all six pipes to one length -/
theorem plList_replicate (pw : List Nat) (hl : pw.length = 6) (v : Int) (hv : v > 0) :
    plList pw 0 (List.replicate 6 v) = List.replicate 6 (clampI 1 32 v) := by
  match pw, hl with
  | [a, b, c, d, e, f], _ =>
    simp [List.replicate, plList, hv]

theorem clamp_max1 (v : Int) : clampI 1 32 (max 1 v) = clampI 1 32 v ∧ max 1 v > 0 := by
  unfold clampI; omega

theorem setPayloadLengthAttr_int_post (v : Int) (s : DrvState) (h : Inv s) :
    Post (exec (setPayloadLengthAttr (.i v)) s) s (.ok ())
      { s.cfg with rxPw := List.replicate 6 (clampI 1 32 v) } s.d.pipe0ReadAddr := by
  have h1 := plGo_post (List.replicate 6 (max 1 v)) 0 s h
  rw [plList_replicate _ h.ok.rxPwLen _ (clamp_max1 v).2, (clamp_max1 v).1] at h1
  exact h1

theorem setPayloadLengthAttr_bool_post (b : Bool) (s : DrvState) (h : Inv s) :
    Post (exec (setPayloadLengthAttr (.b b)) s) s (.ok ())
      { s.cfg with rxPw := List.replicate 6 (clampI 1 32 (Cfg.b2n b)) } s.d.pipe0ReadAddr := by
  have h1 := plGo_post (List.replicate 6 (max 1 ((Rf24.b2n b : Nat) : Int))) 0 s h
  rw [plList_replicate _ h.ok.rxPwLen _ (clamp_max1 _).2, (clamp_max1 _).1] at h1
  exact h1

theorem setPayloadLengthAttr_bad_post (s : DrvState) (h : Inv s) :
    Post (exec (setPayloadLengthAttr .other) s) s (.error .valueError) s.cfg s.d.pipe0ReadAddr := by
  unfold setPayloadLengthAttr
  exec_simp []
  exact Post.unchanged h .refl rfl h.cached rfl

theorem setPayloadLength_all_post (l : Int) (s : DrvState) (h : Inv s) :
    Post (exec (setPayloadLength l none) s) s (.ok ())
      { s.cfg with rxPw := List.replicate 6 (clampI 1 32 l) } s.d.pipe0ReadAddr :=
  setPayloadLengthAttr_int_post l s h

end Nrf
