/-
C03 per-method lemmas: FEATURE.EN_ACK_PAY (`ack`) and FEATURE.EN_DYN_ACK (`allow_ask_no_ack`).
-/
import NrfProofs.C03.DynPl

namespace Nrf
open Rf24 Cfg

theorem bits_ack_p : ∀ p, p < 64 → p &&& 0x3E ||| 1 = setBit p 0 true ∧ setBit p 0 true < 64 := by
  decide +kernel

theorem bits_ack_f : ∀ f, f < 8 →
    ((f ||| 4) &&& 5 ||| Rf24.b2n true <<< 1 = setBit (setBit f 2 true) 1 true ∧
      setBit (setBit f 2 true) 1 true < 8) ∧
    (f &&& 5 ||| Rf24.b2n false <<< 1 = setBit f 1 false ∧ setBit f 1 false < 8) ∧
    (∀ b : Bool, f &&& 6 ||| Rf24.b2n b = setBit f 0 b ∧ setBit f 0 b < 8) ∧
    decide (f &&& 1 ≠ 0) = bitOf f 0 := by decide +kernel

theorem bits_ack_get : ∀ f, f < 8 → ∀ a, a < 64 → ∀ p, p < 64 →
    (decide (f &&& 6 = 6) && decide ((a &&& p) &&& 1 ≠ 0)) =
      (bitOf f 1 && bitOf f 2 && bitOf a 0 && bitOf p 0) := by decide +kernel

/-! ### allow_ask_no_ack -/

theorem getAllowAskNoAck_post (s : DrvState) (h : Inv s) :
    Post (exec getAllowAskNoAck s) s (.ok (bitOf s.cfg.feature 0)) s.cfg s.d.pipe0ReadAddr := by
  unfold getAllowAskNoAck
  exec_simp [readVal_feature s h.ok.vis]
  rw [← (bits_ack_f _ h.ok.feature).2.2.2]
  refine Post.of_reach (by reach h.wf) h.wf rfl rfl ?_
  exact { h.cached with features := rfl }

theorem setAllowAskNoAck_post (e : Bool) (s : DrvState) (h : Inv s) :
    Post (exec (setAllowAskNoAck e) s) s (.ok ()) { s.cfg with feature := setBit s.cfg.feature 0 e }
      s.d.pipe0ReadAddr := by
  have hb := (bits_ack_f _ h.ok.feature).2.2.1 e
  unfold setAllowAskNoAck
  exec_simp [readVal_feature s h.ok.vis, hb.1]
  rw [exec_regWrite_nat3 _ _ _ (by omega) (by decide)]
  refine Post.of_reach (by reach h.wf) h.wf ?_ rfl ?_
  · rw [Radio.w_feature _ _ hb.2 h.ok.vis]; rfl
  · exact { h.cached with features := rfl }

/-! ### ack -/

theorem getAck_post (s : DrvState) (h : Inv s) :
    Post (exec getAck s) s (.ok (ackOf s.cfg)) s.cfg s.d.pipe0ReadAddr := by
  unfold getAck ackEnabled
  exec_simp [h.wf, readVal_enAA, readVal_dynpd s h.ok.vis, readVal_feature s h.ok.vis]
  rw [bits_ack_get _ h.ok.feature _ h.ok.enAA _ h.ok.dynpd]
  refine Post.of_reach (by reach h.wf) h.wf rfl rfl ?_
  exact { h.cached with features := rfl, aa := rfl, dynPl := rfl }

theorem setAck_off_post (s : DrvState) (h : Inv s) :
    Post (exec (setAck false) s) s (.ok ()) { s.cfg with feature := setBit s.cfg.feature 1 false }
      s.d.pipe0ReadAddr := by
  have hb := (bits_ack_f _ h.ok.feature).2.1
  unfold setAck
  exec_simp [Bool.false_eq_true, h.cached.features, hb.1]
  rw [exec_regWrite_nat3 _ _ _ (by omega) (by decide)]
  refine Post.of_reach (by reach h.wf) h.wf ?_ rfl ?_
  · rw [Radio.w_feature _ _ hb.2 h.ok.vis]; rfl
  · refine { h.cached with features := ?_ }
    show s.d.features &&& 5 ||| Rf24.b2n false <<< 1 = _
    rw [h.cached.features]; exact hb.1

theorem setAck_on_post (s : DrvState) (h : Inv s) :
    Post (exec (setAck true) s) s (.ok ())
      { s.cfg with enAA := setBit s.cfg.enAA 0 true, dynpd := setBit s.cfg.dynpd 0 true,
                   feature := setBit (setBit s.cfg.feature 2 true) 1 true } s.d.pipe0ReadAddr := by
  have ha := bits_pipe _ h.ok.enAA 0 (by decide) true
  have hp := bits_ack_p _ h.ok.dynpd
  have hf := (bits_ack_f _ h.ok.feature).1
  unfold setAck setAutoAck setAutoAckAttr
  exec_simp [h.wf, readVal_enAA, (by decide : (0:Int) ≤ 0 ∧ (0:Int) ≤ 5), Int.reduceToNat, ha.1,
    cast_mod643 _ ha.2.1]
  rw [exec_regWrite_nat3 _ _ _ (by omega) (by decide)]
  exec_simp [h.cached.dynPl, hp.1]
  rw [exec_regWrite_nat3 _ _ _ (by omega) (by decide)]
  exec_simp [h.cached.features, hf.1]
  rw [exec_regWrite_nat3 _ _ _ (by omega) (by decide)]
  refine Post.of_reach (by reach h.wf) h.wf ?_ rfl ?_
  · rw [Radio.w_enAA _ _ ha.2.1, Radio.w_dynpd _ _ hp.2 (by exact h.ok.vis),
      Radio.w_feature _ _ hf.2 (by exact h.ok.vis)]
    rfl
  · refine { h.cached with aa := rfl, dynPl := ?_, features := ?_ }
    · show (s.d.features ||| 4) &&& 5 ||| Rf24.b2n true <<< 1 = _
      rw [h.cached.features]; exact hf.1
    · show s.d.dynPl &&& 62 ||| 1 = _
      rw [h.cached.dynPl]; exact hp.1

end Nrf
