/-
C03 per-method lemmas: `start_carrier_wave` / `stop_carrier_wave` on the plus variant.
-/
import NrfProofs.C03.Listen
import NrfProofs.C03.Config

namespace Nrf
open Rf24 Cfg

theorem bits_cw : ∀ x, x < 256 → bitOf x 6 = false →
    (x ||| 0x90 = setBit (setBit x 7 true) 4 true ∧ (x ||| 0x90) &&& 0xBF = x ||| 0x90 ∧ x ||| 0x90 < 256 ∧
      bitOf (x ||| 0x90) 6 = false) ∧
    (andNot x 0x90 = setBit (setBit x 7 false) 4 false ∧ (andNot x 0x90) &&& 0xBF = andNot x 0x90 ∧
      andNot x 0x90 < 256 ∧ bitOf (andNot x 0x90) 6 = false) := by decide +kernel

theorem bits_cw_cfg : ∀ c, c < 128 →
    setBit (setBit (setBit (setBit c 1 false) 1 true) 1 true) 0 false = setBit (setBit c 1 true) 0 false ∧
    setBit c 1 false < 128 ∧ setBit (setBit c 1 false) 1 true < 128 := by decide +kernel

theorem setCE_post (v : Bool) (s : DrvState) (h : Inv s) :
    Post (exec (setCE v) s) s (.ok ()) { s.cfg with ce := v } s.d.pipe0ReadAddr := by
  rw [exec_setCE3']
  exact Post.of_reach (by reach h.wf) h.wf rfl rfl { h.cached with }

theorem enterTx_ok {r : Radio} (h : CfgOk r) : CfgOk (enterTx r) := by
  have hb := bits_listen _ h.config false
  have ho := (bits_pipe2 _ h.enRxAddr 0 (by decide)).2.2.2
  unfold enterTx
  refine ((h.set_ce false).set_config hb.2).set_enRxAddr ?_
  split
  · exact ho
  · exact h.enRxAddr

/-- the end of `start_carrier_wave` on a plus variant: CONT_WAVE and PLL_LOCK set, CE high -/
theorem cwTail_post (s : DrvState) (h : Inv s) (hplus : s.cfg.plus = true) :
    Post (exec (do
        modD fun d => { d with rfSetup := d.rfSetup ||| 0x90 }
        regWrite RF_PA_RATE (← getD).rfSetup
        if !(← getD).isPlus then
          regWrite AUTO_ACK 0
          regWrite SETUP_RETR 0
          regWriteBytes TX_ADDRESS (List.replicate 5 0xFF)
          regWriteBytes 0xA0 (List.replicate 32 0xFF)
          regWrite CONFIGURE 0x73
          setCE true
          sleepNs 1000000
          setCE false
          clearStatusFlags
          regWrite 0x17 0x40
        setCE true : DrvM Unit) s) s (.ok ())
      { s.cfg with rfSetup := setBit (setBit s.cfg.rfSetup 7 true) 4 true, ce := true } s.d.pipe0ReadAddr := by
  have hb := (bits_cw _ h.ok.rfSetup.1 h.ok.rfSetup.2).1
  have hp : s.d.isPlus = true := h.cached.isPlus.trans hplus
  exec_simp [h.cached.rfSetup, hb.1]
  rw [exec_regWrite_nat3 _ _ _ (by omega) (by decide)]
  exec_simp [hp, Bool.not_true, Bool.false_eq_true]
  refine Post.of_reach (by reach h.wf) h.wf ?_ rfl ?_
  · rw [Radio.w_rfSetup _ _ (hb.1 ▸ hb.2.1)]; rfl
  · refine { h.cached with rfSetup := ?_ }
    show s.d.rfSetup ||| 0x90 = _
    rw [h.cached.rfSetup]; exact hb.1

theorem startCarrierWave_eq : startCarrierWave = (do
    setPower false
    setCE false
    setPower true
    setListen false
    (do
        modD fun d => { d with rfSetup := d.rfSetup ||| 0x90 }
        regWrite RF_PA_RATE (← getD).rfSetup
        if !(← getD).isPlus then
          regWrite AUTO_ACK 0
          regWrite SETUP_RETR 0
          regWriteBytes TX_ADDRESS (List.replicate 5 0xFF)
          regWriteBytes 0xA0 (List.replicate 32 0xFF)
          regWrite CONFIGURE 0x73
          setCE true
          sleepNs 1000000
          setCE false
          clearStatusFlags
          regWrite 0x17 0x40
        setCE true : DrvM Unit)) := rfl

theorem startCarrierWave_post (s : DrvState) (h : Inv s) (hplus : s.cfg.plus = true) :
    Post (exec startCarrierWave s) s (.ok ())
      { enterTx s.cfg with rfSetup := setBit (setBit (enterTx s.cfg).rfSetup 7 true) 4 true, ce := true }
      s.d.pipe0ReadAddr := by
  have hc := bits_cw_cfg _ h.ok.config
  rw [startCarrierWave_eq]
  -- power = False
  refine Post.bind (setPower_post false s h) (h.ok.set_config hc.2.1) h.user0 ?_
  intro s1 h1 hc1 hp1
  -- CE low
  refine Post.bind (setCE_post false s1 h1) (h1.ok.set_ce false) h1.user0 ?_
  intro s2 h2 hc2 hp2
  -- power = True
  have hc2' : s2.cfg.config = setBit s.cfg.config 1 false := by rw [hc2, hc1]
  refine Post.bind (setPower_post true s2 h2) (h2.ok.set_config (by rw [hc2']; exact hc.2.2)) h2.user0 ?_
  intro s3 h3 hc3 hp3
  -- listen = False
  refine Post.bind (setListen_tx_post s3 h3) (enterTx_ok h3.ok) h3.user0 ?_
  intro s4 h4 hc4 hp4
  have hplus4 : s4.cfg.plus = true := by rw [hc4, hc3, hc2, hc1]; exact hplus
  have hfin := cwTail_post s4 h4 hplus4
  rw [hp4, hp3, hp2, hp1] at hfin
  have hcfg : ({ s4.cfg with rfSetup := setBit (setBit s4.cfg.rfSetup 7 true) 4 true, ce := true } : Radio) =
      { enterTx s.cfg with rfSetup := setBit (setBit (enterTx s.cfg).rfSetup 7 true) 4 true, ce := true } := by
    rw [hc4, hc3, hc2, hc1]
    unfold enterTx
    simp only [hc.1]
  rw [hcfg] at hfin
  exact hfin

/-- the end of `stop_carrier_wave`: CONT_WAVE and PLL_LOCK cleared -/
theorem cwStopTail_post (s : DrvState) (h : Inv s) :
    Post (exec (do
        modD fun d => { d with rfSetup := andNot d.rfSetup 0x90 }
        regWrite RF_PA_RATE (← getD).rfSetup : DrvM Unit) s) s (.ok ())
      { s.cfg with rfSetup := setBit (setBit s.cfg.rfSetup 7 false) 4 false } s.d.pipe0ReadAddr := by
  have hb := (bits_cw _ h.ok.rfSetup.1 h.ok.rfSetup.2).2
  exec_simp [h.cached.rfSetup, hb.1]
  rw [exec_regWrite_nat3 _ _ _ (hb.1 ▸ hb.2.2.1) (by decide)]
  refine Post.of_reach (by reach h.wf) h.wf ?_ rfl ?_
  · rw [Radio.w_rfSetup _ _ (hb.1 ▸ hb.2.1)]; rfl
  · refine { h.cached with rfSetup := ?_ }
    show andNot s.d.rfSetup 0x90 = _
    rw [h.cached.rfSetup]; exact hb.1

theorem stopCarrierWave_post (s : DrvState) (h : Inv s) :
    Post (exec stopCarrierWave s) s (.ok ())
      { s.cfg with ce := false, config := setBit s.cfg.config 1 false,
                   rfSetup := setBit (setBit s.cfg.rfSetup 7 false) 4 false }
      s.d.pipe0ReadAddr := by
  have hc := bits_cw_cfg _ h.ok.config
  unfold stopCarrierWave
  refine Post.bind (setCE_post false s h) (h.ok.set_ce false) h.user0 ?_
  intro s1 h1 hc1 hp1
  refine Post.bind (setPower_post false s1 h1) (h1.ok.set_config (by rw [hc1]; exact hc.2.1)) h1.user0 ?_
  intro s2 h2 hc2 hp2
  have hfin := cwStopTail_post s2 h2
  rw [hp2, hp1] at hfin
  have hcfg : ({ s2.cfg with rfSetup := setBit (setBit s2.cfg.rfSetup 7 false) 4 false } : Radio) =
      { s.cfg with ce := false, config := setBit s.cfg.config 1 false,
                   rfSetup := setBit (setBit s.cfg.rfSetup 7 false) 4 false } := by
    rw [hc2, hc1]
  rw [hcfg] at hfin
  exact hfin

end Nrf
