/-
C03: the per-call theorem in its final form and the induction over histories.
-/
import NrfProofs.C03.SpecOk

namespace Nrf
open Rf24 Cfg

/-- every call of the alphabet behaves as documented -/
theorem runCall_post (c : Call) (s : DrvState) (h : Inv s) (hd : c.dom s.cfg.plus) : CallPost c s := by
  cases c with
  | getChannel => exact cp_getChannel s h
  | setChannel ch => exact cp_setChannel s h ch
  | getDataRate => exact cp_getDataRate s h
  | setDataRate v => exact cp_setDataRate s h v
  | getPaLevel => exact cp_getPaLevel s h
  | setPaLevel a => exact cp_setPaLevel s h a
  | setPaLevelLna v l => exact cp_setPaLevelLna s h v l
  | isLnaEnabled => exact cp_isLnaEnabled s h
  | getCrc => exact cp_getCrc s h
  | setCrc n => exact cp_setCrc s h n
  | getAddressLength => exact cp_getAddressLength s h
  | setAddressLength n => exact cp_setAddressLength s h n
  | getArd => exact cp_getArd s h
  | setArd d => exact cp_setArd s h d
  | getArc => exact cp_getArc s h
  | setArc n => exact cp_setArc s h n
  | setAutoRetries d n => exact cp_setAutoRetries s h d n
  | getAutoRetries => exact cp_getAutoRetries s h
  | getAutoAck => exact cp_getAutoAck s h
  | setAutoAckAttr a => exact cp_setAutoAckAttr s h a
  | setAutoAck e p => exact cp_setAutoAck s h e p
  | getAutoAckPipe p => exact cp_getAutoAckPipe s h p
  | getDynamicPayloads => exact cp_getDynamicPayloads s h
  | setDynamicPayloadsAttr a => exact cp_setDynamicPayloadsAttr s h a
  | setDynamicPayloads e p => exact cp_setDynamicPayloads s h e p
  | getDynamicPayloadsPipe p => exact cp_getDynamicPayloadsPipe s h p
  | getPayloadLengthAttr => exact cp_getPayloadLengthAttr s h
  | setPayloadLengthAttr a => exact cp_setPayloadLengthAttr s h a
  | setPayloadLength l p => exact cp_setPayloadLength s h l p
  | getPayloadLength p => exact cp_getPayloadLength s h p
  | getAck => exact cp_getAck s h
  | setAck e => exact cp_setAck s h e
  | getAllowAskNoAck => exact cp_getAllowAskNoAck s h
  | setAllowAskNoAck e => exact cp_setAllowAskNoAck s h e
  | interruptConfig a b c => exact cp_interruptConfig s h a b c
  | getPower => exact cp_getPower s h
  | setPower b => exact cp_setPower s h b
  | getListen => exact cp_getListen s h
  | setListen b => exact cp_setListen s h b
  | openRxPipe p a => exact cp_openRxPipe s h p a hd
  | closeRxPipe p => exact cp_closeRxPipe s h p
  | openTxPipe a => exact cp_openTxPipe s h a hd
  | address i => exact cp_address s h i
  | isPlusVariant => exact cp_isPlusVariant s h
  | startCarrierWave => exact cp_startCarrierWave s h hd
  | stopCarrierWave => exact cp_stopCarrierWave s h

/-- no call changes the chip variant -/
theorem docStep_plus {c : Call} {a a' : CfgSt} {ret : Ret} (h : docStep c a = .ok (a', ret)) :
    a'.r.plus = a.r.plus := by
  cases c <;> simp only [docStep] at h <;> (repeat' split at h) <;> first | (cases h; rfl) | cases h

/-- result and final state of a call, both determined by the documentation -/
structure StepOk (c : Call) (s : DrvState) : Prop where
  inv : Inv (exec (runCall c) s).2
  ok : ∀ a' ret, docStep c s.abs = .ok (a', ret) →
    (exec (runCall c) s).1 = .ok ret ∧ (exec (runCall c) s).2.abs = a'
  err : ∀ e, docStep c s.abs = .error e →
    (exec (runCall c) s).1 = .error e ∧ (exec (runCall c) s).2.abs = s.abs
  frame : ∀ j, j ≠ s.d.rid → (exec (runCall c) s).2.cfgAt j = s.cfgAt j
  rid : (exec (runCall c) s).2.d.rid = s.d.rid
  len : (exec (runCall c) s).2.w.radios.length = s.w.radios.length

theorem abs_eq {s : DrvState} {c : Radio} {p : Option Bytes} (h1 : s.cfg = c) (h2 : s.d.pipe0ReadAddr = p) :
    s.abs = { r := c, user0 := p } := by
  unfold DrvState.abs; rw [h1, h2]

theorem stepOk (c : Call) (s : DrvState) (h : Inv s) (hd : c.dom s.cfg.plus) : StepOk c s := by
  have hp := runCall_post c s h hd
  unfold CallPost at hp
  cases hdoc : docStep c s.abs with
  | ok v =>
    obtain ⟨a', ret⟩ := v
    rw [hdoc] at hp
    simp only at hp
    have hok := docStep_ok c s.abs a' ret h.ok h.user0 hd hdoc
    refine ⟨hp.inv hok.1 hok.2, ?_, ?_, hp.frame, hp.rid, hp.len⟩
    · intro a'' ret' he
      rw [hdoc] at he
      cases he
      exact ⟨hp.res, abs_eq hp.cfg hp.p0⟩
    · intro e he; rw [hdoc] at he; cases he
  | error e =>
    rw [hdoc] at hp
    simp only at hp
    refine ⟨hp.inv h.ok h.user0, ?_, ?_, hp.frame, hp.rid, hp.len⟩
    · intro a'' ret' he; rw [hdoc] at he; cases he
    · intro e' he
      rw [hdoc] at he
      cases he
      exact ⟨hp.res, abs_eq hp.cfg hp.p0⟩

/-! ### histories -/

deriving instance DecidableEq for Except

/-- run a list of calls on the model; like Python, the object survives an exception and the next
    call goes on from the state the failed one left -/
def runCalls : List Call → DrvState → List (Except PyErr Ret) × DrvState
  | [], s => ([], s)
  | c :: cs, s =>
    let p := exec (runCall c) s
    let q := runCalls cs p.2
    (p.1 :: q.1, q.2)

/-- the documented run: a rejected call changes nothing -/
def docRun : List Call → CfgSt → List (Except PyErr Ret) × CfgSt
  | [], a => ([], a)
  | c :: cs, a =>
    match docStep c a with
    | .ok (a', ret) => let q := docRun cs a'; (.ok ret :: q.1, q.2)
    | .error e => let q := docRun cs a; (.error e :: q.1, q.2)

theorem history (cs : List Call) : ∀ (s : DrvState), Inv s → (∀ c ∈ cs, c.dom s.cfg.plus) →
    Inv (runCalls cs s).2 ∧ (runCalls cs s).1 = (docRun cs s.abs).1 ∧ (runCalls cs s).2.abs = (docRun cs s.abs).2 ∧
    (∀ j, j ≠ s.d.rid → (runCalls cs s).2.cfgAt j = s.cfgAt j) ∧ (runCalls cs s).2.d.rid = s.d.rid := by
  induction cs with
  | nil => intro s h _; exact ⟨h, rfl, rfl, fun _ _ => rfl, rfl⟩
  | cons c cs ih =>
    intro s h hd
    have hst := stepOk c s h (hd c (by simp))
    unfold runCalls docRun
    cases hdoc : docStep c s.abs with
    | ok v =>
      obtain ⟨a', ret⟩ := v
      obtain ⟨hres, habs⟩ := hst.ok a' ret hdoc
      have hplus : (exec (runCall c) s).2.cfg.plus = s.cfg.plus := by
        have := docStep_plus hdoc
        rw [← habs] at this
        exact this
      have ih' := ih _ hst.inv (fun c' hc' => by rw [hplus]; exact hd c' (by simp [hc']))
      simp only
      rw [habs] at ih'
      refine ⟨ih'.1, by rw [hres, ih'.2.1], ih'.2.2.1, ?_, ih'.2.2.2.2.trans hst.rid⟩
      intro j hj
      rw [ih'.2.2.2.1 j (by rw [hst.rid]; exact hj), hst.frame j hj]
    | error e =>
      obtain ⟨hres, habs⟩ := hst.err e hdoc
      have hplus : (exec (runCall c) s).2.cfg.plus = s.cfg.plus := by
        have : (exec (runCall c) s).2.abs.r.plus = s.abs.r.plus := by rw [habs]
        exact this
      have ih' := ih _ hst.inv (fun c' hc' => by rw [hplus]; exact hd c' (by simp [hc']))
      simp only
      rw [habs] at ih'
      refine ⟨ih'.1, by rw [hres, ih'.2.1], ih'.2.2.1, ?_, ih'.2.2.2.2.trans hst.rid⟩
      intro j hj
      rw [ih'.2.2.2.1 j (by rw [hst.rid]; exact hj), hst.frame j hj]

/-- a history keeps the number of radios of the world -/
theorem runCalls_length (cs : List Call) : ∀ (s : DrvState), Inv s → (∀ c ∈ cs, c.dom s.cfg.plus) →
    (runCalls cs s).2.w.radios.length = s.w.radios.length := by
  induction cs with
  | nil => intro s _ _; rfl
  | cons c cs ih =>
    intro s h hd
    have hst := stepOk c s h (hd c (by simp))
    have hplus : (exec (runCall c) s).2.cfg.plus = s.cfg.plus := by
      cases hdoc : docStep c s.abs with
      | ok v =>
        obtain ⟨a', ret⟩ := v
        have := docStep_plus hdoc
        rw [← (hst.ok a' ret hdoc).2] at this
        exact this
      | error e =>
        have : (exec (runCall c) s).2.abs.r.plus = s.abs.r.plus := by rw [(hst.err e hdoc).2]
        exact this
    have ih' := ih _ hst.inv (fun c' hc' => by rw [hplus]; exact hd c' (by simp [hc']))
    show (runCalls cs (exec (runCall c) s).2).2.w.radios.length = _
    rw [ih', hst.len]

/-- the documented run never changes the chip variant -/
theorem docRun_plus (cs : List Call) : ∀ a : CfgSt, (docRun cs a).2.r.plus = a.r.plus := by
  induction cs with
  | nil => intro a; rfl
  | cons c cs ih =>
    intro a
    unfold docRun
    cases hdoc : docStep c a with
    | ok v =>
      obtain ⟨a', ret⟩ := v
      simp only
      rw [ih a', docStep_plus hdoc]
    | error e =>
      simp only
      exact ih a

end Nrf
