/-
C03: `__enter__` (and `__init__`) establish the invariant, from any world.
-/
import NrfProofs.C03.History

namespace Nrf
open Rf24 Cfg

/-- shadow attributes in programmable range: what `__init__` and the setters leave behind -/
structure ShadowOk (d : Rf24) : Prop where
  config : d.config < 128
  rfSetup : d.rfSetup < 256 ∧ bitOf d.rfSetup 6 = false
  openPipes : d.openPipes < 64
  dynPl : d.dynPl < 64
  aa : d.aa < 64
  features : d.features < 8
  retrySetup : d.retrySetup < 256
  pipes0 : d.pipes0.length = 5 ∧ Bytes.wf d.pipes0
  pipes1 : d.pipes1.length = 5 ∧ Bytes.wf d.pipes1
  pipesN : d.pipesN.length = 4 ∧ Bytes.wf d.pipesN
  txAddress : d.txAddress.length = 5 ∧ Bytes.wf d.txAddress
  plLen : d.plLen.length = 6
  channel : d.channel ≤ 125
  addrLen : 2 ≤ d.addrLen ∧ d.addrLen ≤ 5
  user0 : P0Ok d.pipe0ReadAddr

/-- the chip's multi-byte registers have their hardware shape (true of every reachable chip state) -/
structure RadioShape (r : Radio) : Prop where
  a0 : r.rxAddr0.length = 5
  a1 : r.rxAddr1.length = 5
  aN : r.rxAddrN.length = 4
  tx : r.txAddr.length = 5
  pw : r.rxPw.length = 6
  a0w : Bytes.wf r.rxAddr0
  a1w : Bytes.wf r.rxAddr1
  aNw : Bytes.wf r.rxAddrN
  txw : Bytes.wf r.txAddr

/-- the register file `__enter__` programs: the encoding of the object's cached configuration -/
def enterCfg (d : Rf24) (r : Radio) : Radio :=
  { r with ce := false, config := d.config ||| 2, rfSetup := d.rfSetup, enRxAddr := d.openPipes,
           dynpd := d.dynPl, enAA := d.aa, feature := d.features, setupRetr := d.retrySetup,
           rxAddr0 := d.pipes0, rxAddr1 := d.pipes1, rxAddrN := d.pipesN,
           rxPw := d.plLen.map fun (x : Nat) => clampI 1 32 (x : Int),
           txAddr := d.txAddress, rfCh := d.channel, setupAw := d.addrLen - 2,
           violations := r.violations ++ (if d.addrLen = 2 then ["SETUP_AW:illegal:0"] else []) }

theorem bits_or2 : ∀ c, c < 128 → c ||| 2 < 128 := by decide +kernel
theorem bits_bf : ∀ x, x < 256 → bitOf x 6 = false → x &&& 0xBF = x := by decide +kernel

theorem list6 {l : List Nat} (h : l.length = 6) : ∃ a b c d e f, l = [a, b, c, d, e, f] := by
  match l, h with
  | [a, b, c, d, e, f], _ => exact ⟨a, b, c, d, e, f, rfl⟩

theorem list4 {l : List Nat} (h : l.length = 4) : ∃ a b c d, l = [a, b, c, d] := by
  match l, h with
  | [a, b, c, d], _ => exact ⟨a, b, c, d, rfl⟩

theorem writeAddr_full (old new : Bytes) (ho : old.length = 5) (hn : new.length = 5) : writeAddr old new = new := by
  unfold writeAddr; rw [List.drop_of_length_le (by omega)]; simp

theorem ne_nil_of_length5 {b : Bytes} (h : b.length = 5) : b ≠ [] := by
  intro h0; rw [h0] at h; simp at h

theorem clampNat (x : Nat) : (max 1 (min 32 (x : Int))).toNat = clampI 1 32 x := rfl

theorem enterCfg_ok {d : Rf24} {r : Radio} (hs : ShadowOk d) (hvis : r.featureVisible = true)
    (hlog : LogOk r.violations) : CfgOk (enterCfg d r) where
  config := bits_or2 _ hs.config
  enAA := hs.aa
  enRxAddr := hs.openPipes
  setupAw := by show d.addrLen - 2 < 4; have := hs.addrLen; omega
  setupRetr := hs.retrySetup
  rfCh := hs.channel
  rfSetup := hs.rfSetup
  dynpd := hs.dynPl
  feature := hs.features
  rxPwLen := by show (d.plLen.map _).length = 6; simp [hs.plLen]
  rxPw := by
    intro x hx
    obtain ⟨y, -, rfl⟩ := List.mem_map.1 hx
    exact clampPl _
  a0 := hs.pipes0
  a1 := hs.pipes1
  aN := hs.pipesN
  tx := hs.txAddress
  vis := hvis
  log := by
    show LogOk (r.violations ++ _)
    split
    · exact CfgOk.logOk_append hlog
    · simpa using hlog

theorem Radio.w_rxPw_lit (r : Radio) (v : Nat) (hv : 1 ≤ v ∧ v ≤ 32) :
    r.writeReg 17 [v] = { r with rxPw := r.rxPw.set 0 v } ∧ r.writeReg 18 [v] = { r with rxPw := r.rxPw.set 1 v } ∧
    r.writeReg 19 [v] = { r with rxPw := r.rxPw.set 2 v } ∧ r.writeReg 20 [v] = { r with rxPw := r.rxPw.set 3 v } ∧
    r.writeReg 21 [v] = { r with rxPw := r.rxPw.set 4 v } ∧ r.writeReg 22 [v] = { r with rxPw := r.rxPw.set 5 v } :=
  ⟨Radio.w_rxPw r 0 v (by decide) hv, Radio.w_rxPw r 1 v (by decide) hv, Radio.w_rxPw r 2 v (by decide) hv,
   Radio.w_rxPw r 3 v (by decide) hv, Radio.w_rxPw r 4 v (by decide) hv, Radio.w_rxPw r 5 v (by decide) hv⟩

theorem Radio.w_aN_lit (r : Radio) (v : Nat) :
    r.writeReg 12 [v] = { r with rxAddrN := r.rxAddrN.set 0 v } ∧
    r.writeReg 13 [v] = { r with rxAddrN := r.rxAddrN.set 1 v } ∧
    r.writeReg 14 [v] = { r with rxAddrN := r.rxAddrN.set 2 v } ∧
    r.writeReg 15 [v] = { r with rxAddrN := r.rxAddrN.set 3 v } := ⟨rfl, rfl, rfl, rfl⟩

/-- `__enter__` from any well-formed world -/
theorem enter_post (s : DrvState) (hw : s.Wf) (hs : ShadowOk s.d) (hr : RadioShape s.cfg)
    (hvis : s.cfg.featureVisible = true) (hplus : s.d.isPlus = s.cfg.plus) :
    Post (exec enter s) s (.ok ()) (enterCfg s.d s.cfg) s.d.pipe0ReadAddr := by
  have hcl : ∀ x : Nat, (max 1 (min 32 (x : Int))).toNat < 256 := by intro x; omega
  have hn : ∀ i, s.d.pipesN.getD i 0 < 256 := by
    intro i
    rw [List.getD_eq_getElem?_getD]
    cases hi : s.d.pipesN[i]? with
    | none => decide
    | some x => exact hs.pipesN.2 x (List.mem_of_getElem? hi)
  have hne0 := ne_nil_of_length5 hs.pipes0.1
  have hne1 := ne_nil_of_length5 hs.pipes1.1
  have hnet := ne_nil_of_length5 hs.txAddress.1
  have h1 := hs.config; have h2 := hs.rfSetup.1; have h3 := hs.openPipes; have h4 := hs.dynPl
  have h5 := hs.aa; have h6 := hs.features; have h7 := hs.retrySetup; have hch := hs.channel
  have hal := hs.addrLen
  unfold enter enterPipe setPayloadLength
  exec_simp [getPipes, Int.cast_ofNat_Int, Int.zero_le_ofNat, Int.reduceLE, Int.reduceToNat, exec_regWriteBytes,
    Nat.reduceAdd, Nat.reduceSub]
  rw [exec_regWrite_nat3 _ _ _ (Nat.lt_trans (bits_or2 _ h1) (by decide)) (by decide)]
  exec_simp []
  rw [exec_regWrite_nat3 _ _ _ h2 (by decide)]
  exec_simp []
  rw [exec_regWrite_nat3 _ _ _ (by omega) (by decide)]
  exec_simp []
  rw [exec_regWrite_nat3 _ _ _ (by omega) (by decide)]
  exec_simp []
  rw [exec_regWrite_nat3 _ _ _ (by omega) (by decide)]
  exec_simp []
  rw [exec_regWrite_nat3 _ _ _ (by omega) (by decide)]
  exec_simp []
  rw [exec_regWrite_nat3 _ _ _ (by omega) (by decide)]
  exec_simp []
  rw [exec_regWrite_nat3 _ _ _ (hcl _) (by decide)]
  exec_simp []
  rw [exec_regWrite_nat3 _ _ _ (hcl _) (by decide)]
  exec_simp []
  rw [exec_regWrite_nat3 _ _ _ (hn _) (by decide)]
  exec_simp []
  rw [exec_regWrite_nat3 _ _ _ (hcl _) (by decide)]
  exec_simp []
  rw [exec_regWrite_nat3 _ _ _ (hn _) (by decide)]
  exec_simp []
  rw [exec_regWrite_nat3 _ _ _ (hcl _) (by decide)]
  exec_simp []
  rw [exec_regWrite_nat3 _ _ _ (hn _) (by decide)]
  exec_simp []
  rw [exec_regWrite_nat3 _ _ _ (hcl _) (by decide)]
  exec_simp []
  rw [exec_regWrite_nat3 _ _ _ (hn _) (by decide)]
  exec_simp []
  rw [exec_regWrite_nat3 _ _ _ (hcl _) (by decide)]
  exec_simp [exec_regWriteBytes]
  rw [exec_regWrite_nat3 _ _ _ (by omega) (by decide)]
  exec_simp []
  rw [exec_regWrite_nat3 _ _ _ (by omega) (by decide)]
  have hclamp : ∀ x : Nat, 1 ≤ (max 1 (min 32 (x : Int))).toNat ∧ (max 1 (min 32 (x : Int))).toNat ≤ 32 := by
    intro x; omega
  obtain ⟨p0, p1, p2, p3, p4, p5, hpl⟩ := list6 hs.plLen
  obtain ⟨q0, q1, q2, q3, q4, q5, hpw⟩ := list6 hr.pw
  obtain ⟨n0, n1, n2, n3, hpn⟩ := list4 hs.pipesN.1
  obtain ⟨m0, m1, m2, m3, hrn⟩ := list4 hr.aN
  refine Post.of_reach (by reach hw) hw ?_ (by simp only [spiStep_d3', modShadow_d, ceStep_d3, sleepStep_d3]) ?_
  · have hvis' : (s.cfg.plus || s.cfg.activated) = true := hvis
    rw [Radio.w_config _ _ (bits_or2 _ h1) (.inl rfl)]
    simp only [Radio.w_rfSetup _ _ (bits_bf _ h2 hs.rfSetup.2),
      Radio.w_enRxAddr _ _ h3, Radio.w_dynpd, h4, Radio.featureVisible, hvis', Radio.w_enAA _ _ h5,
      Radio.w_feature, h6, Radio.w_setupRetr _ _ h7,
      Radio.w_a0 _ _ (Nat.le_of_eq hs.pipes0.1), (Radio.w_rxPw_lit _ _ (hclamp _)).1,
      Radio.w_a1 _ _ (Nat.le_of_eq hs.pipes1.1), (Radio.w_rxPw_lit _ _ (hclamp _)).2.1,
      (Radio.w_aN_lit _ _).1, (Radio.w_rxPw_lit _ _ (hclamp _)).2.2.1,
      (Radio.w_aN_lit _ _).2.1, (Radio.w_rxPw_lit _ _ (hclamp _)).2.2.2.1,
      (Radio.w_aN_lit _ _).2.2.1, (Radio.w_rxPw_lit _ _ (hclamp _)).2.2.2.2.1,
      (Radio.w_aN_lit _ _).2.2.2, (Radio.w_rxPw_lit _ _ (hclamp _)).2.2.2.2.2,
      Radio.w_tx _ _ (Nat.le_of_eq hs.txAddress.1), Radio.w_rfCh _ _ hch, Radio.cfgOf]
    simp only [writeAddr_full _ _ hr.a0 hs.pipes0.1, writeAddr_full _ _ hr.a1 hs.pipes1.1,
      writeAddr_full _ _ hr.tx hs.txAddress.1, hpl, hpw, hrn, List.set_cons_zero, List.set_cons_succ,
      List.getD_cons_zero, List.getD_cons_succ, clampNat]
    unfold enterCfg
    by_cases h2' : s.d.addrLen = 2
    · rw [h2', show (2 - 2 : Nat) = 0 from rfl, Radio.w_setupAw0]
      simp only [hpl, hpn, List.map, ↓reduceIte, List.getD_cons_zero, List.getD_cons_succ]
      rfl
    · rw [Radio.w_setupAw _ _ (by omega) (by omega)]
      simp only [hpl, hpn, List.map, h2', ↓reduceIte, List.append_nil, List.getD_cons_zero, List.getD_cons_succ]
      rfl
  · constructor <;> simp only [spiStep_d3', modShadow_d, ceStep_d3, enterCfg]
    · omega
    · simp only [hpl, List.set_cons_zero, List.set_cons_succ, List.getD_cons_zero, List.getD_cons_succ, clampNat,
        List.map]
    · exact hplus

/-- `__enter__` establishes the invariant -/
theorem enter_inv (s : DrvState) (hw : s.Wf) (hs : ShadowOk s.d) (hr : RadioShape s.cfg)
    (hvis : s.cfg.featureVisible = true) (hplus : s.d.isPlus = s.cfg.plus) (hlog : LogOk s.cfg.violations) :
    (exec enter s).1 = .ok () ∧ Inv (exec enter s).2 ∧
    (exec enter s).2.cfg = enterCfg s.d s.cfg ∧
    (∀ j, j ≠ s.d.rid → (exec enter s).2.cfgAt j = s.cfgAt j) :=
  have h := enter_post s hw hs hr hvis hplus
  ⟨h.res, h.inv (enterCfg_ok hs hvis hlog) hs.user0, h.cfg, h.frame⟩

/-! ### `__exit__` and `__init__` -/

theorem bits_pwr_off : ∀ c, c < 128 → c &&& 0x7D = setBit c 1 false ∧ setBit c 1 false < 128 ∧
    (c &&& 0x7D) &&& 1 = c &&& 1 := by decide +kernel

theorem exit_post (s : DrvState) (h : Inv s) :
    Post (exec Rf24.exit s) s (.ok ()) { s.cfg with ce := false, config := setBit s.cfg.config 1 false }
      s.d.pipe0ReadAddr := by
  have hb := bits_pwr_off _ h.ok.config
  unfold Rf24.exit
  exec_simp [h.cached.config, hb.1]
  rw [exec_regWrite_nat3 _ _ _ (by omega) (by decide)]
  exec_simp []
  refine Post.of_reach (by reach h.wf) h.wf ?_ rfl ?_
  · rw [Radio.w_config _ _ hb.2.1 (.inl rfl)]; rfl
  · refine { h.cached with config := ?_ }
    show s.d.config &&& 0x7D = _
    rw [h.cached.config]; exact hb.1

/-- ACTIVATE (command byte 0x50): `_reg_write(0x50, v)` sends the bare command byte -/
theorem exec_regWrite_activate (v : Nat) (s : DrvState) (hv : v < 256) :
    exec (regWrite 0x50 (v : Int)) s = (.ok (), s.spiStep [0x50, v]) := by
  unfold regWrite
  have h : ¬ ((v : Int) < 0 ∨ (v : Int) > 255) := by omega
  simp only [exec_bind, exec_ite, h, ↓reduceIte, exec_pure, exec_xfer, Int.toNat_natCast]
  rfl

/-- the bytes a 5-byte register read returns -/
theorem readBytes_eq (s : DrvState) (reg : Nat) (hr : reg = 0x0A ∨ reg = 0x0B ∨ reg = 0x10) :
    s.readBytes reg 5 = Radio.clockOut (s.cfg.readReg reg) 5 := by
  unfold DrvState.readBytes World.spi
  dsimp only
  show ((((s.w.jump s.d.rid).radio s.d.rid).xfer (reg :: zeros 5)).2).drop 1 = _
  unfold Radio.xfer
  have hlt : reg < 0x20 := by omega
  simp only [decodeCmd_r reg hlt, Radio.runCmd, List.drop_succ_cons, List.drop_zero]
  have : (s.w.jump s.d.rid).radio s.d.rid = s.w.radio s.d.rid := rfl
  rw [this]
  rcases hr with h | h | h <;> subst h <;> rfl

theorem clockOut_full (b : Bytes) (h : b.length = 5) : Radio.clockOut b 5 = b := by
  unfold Radio.clockOut
  rw [List.take_append_of_le_length (by omega), List.take_of_length_le (by omega)]

end Nrf
