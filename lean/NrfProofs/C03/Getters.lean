/-
C03: getters agree with setters — non-interference of the calls on the fields they do not own, and
the set/get round trips, derived from the `docStep` algebra (finite facts about bit fields).
-/
import NrfProofs.C03.History

namespace Nrf
open Rf24 Cfg

/-! ### bit fields do not interfere -/

theorem ni_crc : ∀ x, x < 128 → ∀ b3 b2 : Bool,
    field (setBit (setBit x 3 b3) 2 b2) 4 3 = field x 4 3 ∧ field (setBit (setBit x 3 b3) 2 b2) 1 1 = field x 1 1 ∧
    field (setBit (setBit x 3 b3) 2 b2) 0 1 = field x 0 1 := by decide +kernel
theorem ni_irq : ∀ x, x < 128 → ∀ b6 b5 b4 : Bool,
    field (setBit (setBit (setBit x 6 b6) 5 b5) 4 b4) 2 2 = field x 2 2 ∧
    field (setBit (setBit (setBit x 6 b6) 5 b5) 4 b4) 1 1 = field x 1 1 ∧
    field (setBit (setBit (setBit x 6 b6) 5 b5) 4 b4) 0 1 = field x 0 1 := by decide +kernel
theorem ni_power : ∀ x, x < 128 → ∀ b : Bool,
    field (setBit x 1 b) 2 2 = field x 2 2 ∧ field (setBit x 1 b) 4 3 = field x 4 3 ∧
    field (setBit x 1 b) 0 1 = field x 0 1 := by decide +kernel
theorem ni_listen : ∀ x, x < 128 → ∀ b1 b0 : Bool,
    field (setBit (setBit x 1 b1) 0 b0) 2 2 = field x 2 2 ∧ field (setBit (setBit x 1 b1) 0 b0) 4 3 = field x 4 3 := by
  decide +kernel
theorem ni_rate : ∀ x, x < 256 → ∀ b5 b3 : Bool,
    field (setBit (setBit x 5 b5) 3 b3) 1 2 = field x 1 2 ∧ field (setBit (setBit x 5 b5) 3 b3) 0 1 = field x 0 1 ∧
    field (setBit (setBit x 5 b5) 3 b3) 7 1 = field x 7 1 ∧ field (setBit (setBit x 5 b5) 3 b3) 4 1 = field x 4 1 := by
  decide +kernel
theorem ni_pa : ∀ x, x < 256 → ∀ c, c < 4 → ∀ b : Bool,
    rateOf (setBit (setField x 1 2 c) 0 b) = rateOf x ∧ field (setBit (setField x 1 2 c) 0 b) 7 1 = field x 7 1 ∧
    field (setBit (setField x 1 2 c) 0 b) 4 1 = field x 4 1 := by decide +kernel
theorem ni_cw : ∀ x, x < 256 → ∀ b7 b4 : Bool,
    rateOf (setBit (setBit x 7 b7) 4 b4) = rateOf x ∧ field (setBit (setBit x 7 b7) 4 b4) 1 2 = field x 1 2 ∧
    field (setBit (setBit x 7 b7) 4 b4) 0 1 = field x 0 1 := by decide +kernel
theorem ni_feat : ∀ f, f < 8 → ∀ b : Bool,
    (field (setBit f 2 b) 1 1 = field f 1 1 ∧ field (setBit f 2 b) 0 1 = field f 0 1) ∧
    field (setBit (setBit f 2 true) 1 true) 0 1 = field f 0 1 ∧
    (field (setBit f 1 false) 2 1 = field f 2 1 ∧ field (setBit f 1 false) 0 1 = field f 0 1) ∧
    (field (setBit f 0 b) 2 1 = field f 2 1 ∧ field (setBit f 0 b) 1 1 = field f 1 1) := by decide +kernel
theorem ni_retr : ∀ x, x < 256 → ∀ v, v < 16 →
    field (setField x 0 4 v) 4 4 = field x 4 4 ∧ field (setField x 4 4 v) 0 4 = field x 0 4 := by decide +kernel

/-- a call leaves every field it does not own as it was -/
theorem obs_docStep (f : Field) (c : Call) (a a' : CfgSt) (ret : Ret) (ha : CfgOk a.r)
    (hown : owns c f = false) (h : docStep c a = .ok (a', ret)) : obs f a'.r = obs f a.r := by
  cases c <;> simp only [docStep] at h <;> (repeat' split at h) <;> (first | cases h | skip) <;>
    (cases f <;> first | rfl | (simp [owns] at hown; done) | skip)
  all_goals
    first
    | (simp only [obs, setCrcBits, setRate, enterTx, enterRx, withDynpd,
        (ni_crc _ ha.config _ _).1, (ni_crc _ ha.config _ _).2.1, (ni_crc _ ha.config _ _).2.2,
        (ni_irq _ ha.config _ _ _).1, (ni_irq _ ha.config _ _ _).2.1, (ni_irq _ ha.config _ _ _).2.2,
        (ni_power _ ha.config _).1, (ni_power _ ha.config _).2.1, (ni_power _ ha.config _).2.2,
        (ni_listen _ ha.config _ _).1, (ni_listen _ ha.config _ _).2,
        (ni_rate _ ha.rfSetup.1 _ _).1, (ni_rate _ ha.rfSetup.1 _ _).2.1, (ni_rate _ ha.rfSetup.1 _ _).2.2.1,
        (ni_rate _ ha.rfSetup.1 _ _).2.2.2,
        (ni_cw _ ha.rfSetup.1 _ _).1, (ni_cw _ ha.rfSetup.1 _ _).2.1, (ni_cw _ ha.rfSetup.1 _ _).2.2,
        (ni_feat _ ha.feature _).1.1, (ni_feat _ ha.feature _).1.2, (ni_feat _ ha.feature true).2.1,
        (ni_feat _ ha.feature true).2.2.1.1, (ni_feat _ ha.feature true).2.2.1.2,
        (ni_feat _ ha.feature _).2.2.2.1, (ni_feat _ ha.feature _).2.2.2.2,
        (ni_retr _ ha.setupRetr _ (arcCode_lt _)).1, (ni_retr _ ha.setupRetr _ (ardCode_lt _)).2]; done)
    | (simp only [obs, setPa, (ni_pa _ ha.rfSetup.1 _ (pa_codes _ (by assumption)).2 _).1,
        (ni_pa _ ha.rfSetup.1 _ (pa_codes _ (by assumption)).2 _).2.1,
        (ni_pa _ ha.rfSetup.1 _ (pa_codes _ (by assumption)).2 _).2.2]; done)
    | (simp only [obs, setPa, (ni_pa _ ha.rfSetup.1 _ (pa_codes 0 (by decide)).2 _).1,
        (ni_pa _ ha.rfSetup.1 _ (pa_codes 0 (by decide)).2 _).2.1,
        (ni_pa _ ha.rfSetup.1 _ (pa_codes 0 (by decide)).2 _).2.2]; done)

/-- … hence so does any sequence of calls none of which owns the field -/
theorem obs_docRun (f : Field) (cs : List Call) : ∀ (a : CfgSt), CfgOk a.r → P0Ok a.user0 →
    (∀ c ∈ cs, c.dom a.r.plus) → (∀ c ∈ cs, owns c f = false) → obs f (docRun cs a).2.r = obs f a.r := by
  induction cs with
  | nil => intro a _ _ _ _; rfl
  | cons c cs ih =>
    intro a ha hu hd hown
    unfold docRun
    cases hdoc : docStep c a with
    | ok v =>
      obtain ⟨a', ret⟩ := v
      have hok := docStep_ok c a a' ret ha hu (hd c (by simp)) hdoc
      have hplus := docStep_plus hdoc
      simp only
      rw [ih a' hok.1 hok.2 (fun c' hc' => by rw [hplus]; exact hd c' (by simp [hc']))
        (fun c' hc' => hown c' (by simp [hc']))]
      exact obs_docStep f c a a' ret ha (hown c (by simp)) hdoc
    | error e =>
      simp only
      exact ih a ha hu (fun c' hc' => hd c' (by simp [hc'])) (fun c' hc' => hown c' (by simp [hc']))

/-! ### set / get round trips -/

theorem rt_retr : ∀ x, x < 256 → ∀ v, v < 16 →
    arcOf (setField x 0 4 v) = v ∧ ardOf (setField x 4 4 v) = v * 250 + 250 := by decide +kernel
theorem rt_retr2 : ∀ a, a < 16 → ∀ v, v < 16 → ardOf (a * 16 + v) = a * 250 + 250 ∧ arcOf (a * 16 + v) = v := by
  decide +kernel
theorem rt_rate : ∀ x, x < 256 →
    rateOf (setBit (setBit x 5 false) 3 false) = 1 ∧ rateOf (setBit (setBit x 5 false) 3 true) = 2 ∧
    rateOf (setBit (setBit x 5 true) 3 false) = 250 := by decide +kernel
theorem rt_pa : ∀ x, x < 256 → ∀ c, c < 4 → ∀ b : Bool,
    field (setBit (setField x 1 2 c) 0 b) 1 2 = c ∧ bitOf (setBit (setField x 1 2 c) 0 b) 0 = b := by decide +kernel
theorem rt_crc : ∀ c, c < 128 → ∀ l, l < 3 → ∀ aa, aa < 64 →
    crcOf (setBit (setBit c 3 (decide (l ≠ 0))) 2 (decide (l = 2))) aa = if aa = 0 then l else max 1 l := by
  decide +kernel
theorem rt_pipe : ∀ x, x < 64 → ∀ p, p < 6 → ∀ e : Bool, bitOf (setBit x p e) p = e := by decide +kernel
theorem rt_feat : ∀ f, f < 8 → ∀ e : Bool,
    bitOf (setBit f 0 e) 0 = e ∧ bitOf (setBit f 1 false) 1 = false ∧
    bitOf (setBit (setBit f 2 true) 1 true) 1 = true ∧ bitOf (setBit (setBit f 2 true) 1 true) 2 = true := by
  decide +kernel
theorem rt_bit0 : ∀ x, x < 64 → bitOf (setBit x 0 true) 0 = true := by decide +kernel
theorem rt_config : ∀ c, c < 128 → ∀ b : Bool,
    bitOf (setBit c 1 b) 1 = b ∧ (bitOf (setBit (setBit c 1 true) 0 b) 1 && bitOf (setBit (setBit c 1 true) 0 b) 0) = b := by
  decide +kernel

theorem getD_set_self (l : List Nat) (p v : Nat) (h : p < l.length) : (l.set p v).getD p 0 = v := by
  simp [List.getD_eq_getElem?_getD, h]

theorem pa_int (v : Int) (h : paLegal v) : ((paCode v : Nat) : Int) * 6 - 18 = v := by
  rcases h with rfl | rfl | rfl | rfl <;> decide

theorem roundtrip (a : CfgSt) (ha : CfgOk a.r) :
    (∀ ch, 0 ≤ ch ∧ ch ≤ 125 → ∀ a', docStep (.setChannel ch) a = .ok (a', .unit) →
      docStep .getChannel a' = .ok (a', .nat ch.toNat)) ∧
    (∀ n a', docStep (.setArc n) a = .ok (a', .unit) →
      docStep .getArc a' = .ok (a', .nat (clampI 0 15 n))) ∧
    (∀ d a', docStep (.setArd d) a = .ok (a', .unit) →
      docStep .getArd a' = .ok (a', .nat ((clampI 250 4000 d - 250) / 250 * 250 + 250))) ∧
    (∀ d n a', docStep (.setAutoRetries d n) a = .ok (a', .unit) →
      docStep .getAutoRetries a' =
        .ok (a', .pair ((clampI 250 4000 d - 250) / 250 * 250 + 250) (clampI 0 15 n))) ∧
    (∀ v, v = 1 ∨ v = 2 ∨ v = 250 → ∀ a', docStep (.setDataRate v) a = .ok (a', .unit) →
      docStep .getDataRate a' = .ok (a', .nat v.toNat)) ∧
    (∀ v l, paLegal v → ∀ a', docStep (.setPaLevelLna v l) a = .ok (a', .unit) →
      docStep .getPaLevel a' = .ok (a', .int v) ∧ docStep .isLnaEnabled a' = .ok (a', .bool l)) ∧
    (∀ n a', docStep (.setCrc n) a = .ok (a', .unit) →
      docStep .getCrc a' = .ok (a', .nat (if a.r.enAA = 0 then clampI 0 2 n else max 1 (clampI 0 2 n)))) ∧
    (∀ n a', docStep (.setAddressLength n) a = .ok (a', .unit) →
      docStep .getAddressLength a' = .ok (a', .nat (if 3 ≤ n ∧ n ≤ 5 then n.toNat else 2))) ∧
    (∀ l p, pipeOk p → ∀ a', docStep (.setPayloadLength l (some p)) a = .ok (a', .unit) →
      docStep (.getPayloadLength p) a' = .ok (a', .nat (clampI 1 32 l))) ∧
    (∀ e p, pipeOk p → ∀ a', docStep (.setAutoAck e (some p)) a = .ok (a', .unit) →
      docStep (.getAutoAckPipe p) a' = .ok (a', .bool e)) ∧
    (∀ e p, pipeOk p → ∀ a', docStep (.setDynamicPayloads e (some p)) a = .ok (a', .unit) →
      docStep (.getDynamicPayloadsPipe p) a' = .ok (a', .bool e)) ∧
    (∀ e a', docStep (.setAllowAskNoAck e) a = .ok (a', .unit) →
      docStep .getAllowAskNoAck a' = .ok (a', .bool e)) ∧
    (∀ e a', docStep (.setAck e) a = .ok (a', .unit) → docStep .getAck a' = .ok (a', .bool e)) ∧
    (∀ b a', docStep (.setPower b) a = .ok (a', .unit) → docStep .getPower a' = .ok (a', .bool b)) ∧
    (∀ b a', docStep (.setListen b) a = .ok (a', .unit) → docStep .getListen a' = .ok (a', .bool b)) := by
  refine ⟨?_, ?_, ?_, ?_, ?_, ?_, ?_, ?_, ?_, ?_, ?_, ?_, ?_, ?_, ?_⟩
  · intro ch hc a' h
    simp only [docStep, hc, and_self, ↓reduceIte] at h
    cases h; rfl
  · intro n a' h
    simp only [docStep] at h
    cases h
    simp only [docStep, (rt_retr _ ha.setupRetr _ (arcCode_lt n)).1]
    rfl
  · intro d a' h
    simp only [docStep] at h
    cases h
    simp only [docStep, (rt_retr _ ha.setupRetr _ (ardCode_lt d)).2]
    rfl
  · intro d n a' h
    simp only [docStep] at h
    cases h
    simp only [docStep, (rt_retr2 _ (ardCode_lt d) _ (arcCode_lt n)).1, (rt_retr2 _ (ardCode_lt d) _ (arcCode_lt n)).2]
    rfl
  · intro v hv a' h
    simp only [docStep, hv, ↓reduceIte] at h
    cases h
    rcases hv with rfl | rfl | rfl
    · simp only [docStep, setRate, Int.reduceEq, decide_false, (rt_rate _ ha.rfSetup.1).1, Int.reduceToNat]
    · simp only [docStep, setRate, Int.reduceEq, decide_false, decide_true, (rt_rate _ ha.rfSetup.1).2.1, Int.reduceToNat]
    · simp only [docStep, setRate, Int.reduceEq, decide_false, decide_true, (rt_rate _ ha.rfSetup.1).2.2, Int.reduceToNat]
  · intro v l hv a' h
    simp only [docStep, hv, ↓reduceIte] at h
    cases h
    have hp := rt_pa _ ha.rfSetup.1 _ (pa_codes v hv).2 l
    constructor
    · simp only [docStep, paOf, setPa, hp.1, pa_int v hv]
    · simp only [docStep, setPa, hp.2]
  · intro n a' h
    simp only [docStep] at h
    cases h
    simp only [docStep, setCrcBits, rt_crc _ ha.config _ (crcLen_eq n).2 _ ha.enAA]
  · intro n a' h
    simp only [docStep] at h
    split at h
    · rename_i hc
      cases h
      simp only [docStep, hc, and_self, ↓reduceIte]
      congr 3; omega
    · rename_i hc
      cases h
      simp only [docStep, hc, ↓reduceIte]
  · intro l p hp a' h
    have hp' : 0 ≤ p ∧ p ≤ 5 := hp
    simp only [docStep, hp, ↓reduceIte] at h
    cases h
    simp only [docStep, hp, ↓reduceIte, getD_set_self _ _ _ (by rw [ha.rxPwLen]; omega : p.toNat < a.r.rxPw.length)]
  · intro e p hp a' h
    have hp' : 0 ≤ p ∧ p ≤ 5 := hp
    simp only [docStep, hp, ↓reduceIte] at h
    cases h
    simp only [docStep, hp, ↓reduceIte, rt_pipe _ ha.enAA _ (by omega : p.toNat < 6)]
  · intro e p hp a' h
    have hp' : 0 ≤ p ∧ p ≤ 5 := hp
    simp only [docStep, hp, ↓reduceIte] at h
    cases h
    simp only [docStep, hp, ↓reduceIte, withDynpd, rt_pipe _ ha.dynpd _ (by omega : p.toNat < 6)]
  · intro e a' h
    simp only [docStep] at h
    cases h
    simp only [docStep, (rt_feat _ ha.feature e).1]
  · intro e a' h
    cases e with
    | true =>
      simp only [docStep, ↓reduceIte] at h
      cases h
      simp only [docStep, ackOf, (rt_feat _ ha.feature true).2.2.1, (rt_feat _ ha.feature true).2.2.2,
        rt_bit0 _ ha.enAA, rt_bit0 _ ha.dynpd, Bool.and_self]
    | false =>
      simp only [docStep, Bool.false_eq_true, ↓reduceIte] at h
      cases h
      simp only [docStep, ackOf, (rt_feat _ ha.feature true).2.1, Bool.false_and]
  · intro b a' h
    simp only [docStep] at h
    cases h
    simp only [docStep, (rt_config _ ha.config b).1]
  · intro b a' h
    simp only [docStep] at h
    cases h
    cases b with
    | true => simp only [docStep, ↓reduceIte, enterRx, (rt_config _ ha.config true).2]
    | false => simp only [docStep, Bool.false_eq_true, ↓reduceIte, enterTx, (rt_config _ ha.config false).2]

end Nrf
