/-
C03 per-method lemmas: SETUP_RETR (`ard`, `arc`, `set_auto_retries`, `get_auto_retries`).
-/
import NrfProofs.C03.Base

namespace Nrf
open Rf24 Cfg

theorem clampArc_eq (n : Int) : clampArc n = arcCode n := by
  unfold clampArc arcCode clampI; omega

theorem ardCode_eq (d : Int) : Rf24.ardCode d = Cfg.ardCode d := by
  unfold Rf24.ardCode Cfg.ardCode clampI; omega

theorem arcCode_lt (n : Int) : arcCode n < 16 := by unfold arcCode clampI; omega
theorem ardCode_lt (d : Int) : Cfg.ardCode d < 16 := by unfold Cfg.ardCode clampI; omega

theorem bits_arc : ∀ x, x < 256 → ∀ v, v < 16 →
    (x &&& 0xF0) ||| v = setField x 0 4 v ∧ (x &&& 0xF0) ||| v < 256 := by decide +kernel
theorem bits_ard : ∀ x, x < 256 → ∀ v, v < 16 →
    (x &&& 15) ||| (v <<< 4) = setField x 4 4 v ∧ (x &&& 15) ||| (v <<< 4) < 256 := by decide +kernel
theorem bits_retr : ∀ a, a < 16 → ∀ v, v < 16 →
    (a <<< 4) ||| v = a * 16 + v ∧ (a <<< 4) ||| v < 256 := by decide +kernel
theorem bits_retr_get : ∀ x, x < 256 →
    x &&& 0x0F = arcOf x ∧ ((x &&& 0xF0) >>> 4) * 250 + 250 = ardOf x := by decide +kernel

theorem setArc_post (n : Int) (s : DrvState) (h : Inv s) :
    Post (exec (setArc n) s) s (.ok ())
      { s.cfg with setupRetr := setField s.cfg.setupRetr 0 4 (arcCode n) } s.d.pipe0ReadAddr := by
  have hb := bits_arc _ h.ok.setupRetr _ (arcCode_lt n)
  unfold setArc
  simp only [exec_bind, exec_modD', exec_getD, modShadow_d, SETUP_RETR, h.cached.retrySetup, clampArc_eq]
  rw [exec_regWrite_nat3 _ _ _ hb.2 (by decide)]
  refine Post.of_steps (by steps) h.wf ?_ rfl ?_
  · rw [spiStep_write_cfg _ _ _ (by wf_of h.wf) (by decide), modShadow_cfg _ _ rfl,
      Radio.w_setupRetr _ _ hb.2, hb.1]
    rfl
  · refine { h.cached with retrySetup := ?_ }
    show s.d.retrySetup &&& 240 ||| arcCode n = _
    rw [h.cached.retrySetup]; exact hb.1

theorem setArd_post (n : Int) (s : DrvState) (h : Inv s) :
    Post (exec (setArd n) s) s (.ok ())
      { s.cfg with setupRetr := setField s.cfg.setupRetr 4 4 (Cfg.ardCode n) } s.d.pipe0ReadAddr := by
  have hb := bits_ard _ h.ok.setupRetr _ (ardCode_lt n)
  unfold setArd
  exec_simp [h.cached.retrySetup, ardCode_eq]
  rw [exec_regWrite_nat3 _ _ _ hb.2 (by decide)]
  refine Post.of_steps (by steps) h.wf ?_ rfl ?_
  · rw [spiStep_write_cfg _ _ _ (by wf_of h.wf) (by decide), modShadow_cfg _ _ rfl,
      Radio.w_setupRetr _ _ hb.2, hb.1]
    rfl
  · refine { h.cached with retrySetup := ?_ }
    show s.d.retrySetup &&& 15 ||| Cfg.ardCode n <<< 4 = _
    rw [h.cached.retrySetup]; exact hb.1

theorem setAutoRetries_post (d n : Int) (s : DrvState) (h : Inv s) :
    Post (exec (setAutoRetries d n) s) s (.ok ())
      { s.cfg with setupRetr := Cfg.ardCode d * 16 + arcCode n } s.d.pipe0ReadAddr := by
  have hb := bits_retr _ (ardCode_lt d) _ (arcCode_lt n)
  unfold setAutoRetries
  exec_simp [ardCode_eq, clampArc_eq]
  rw [exec_regWrite_nat3 _ _ _ hb.2 (by decide)]
  refine Post.of_steps (by steps) h.wf ?_ rfl ?_
  · rw [spiStep_write_cfg _ _ _ (by wf_of h.wf) (by decide), modShadow_cfg _ _ rfl,
      Radio.w_setupRetr _ _ hb.2, hb.1]
    rfl
  · exact { h.cached with retrySetup := hb.1 }

theorem getArc_post (s : DrvState) (h : Inv s) :
    Post (exec getArc s) s (.ok (arcOf s.cfg.setupRetr)) s.cfg s.d.pipe0ReadAddr := by
  unfold getArc
  exec_simp [readVal_setupRetr, (bits_retr_get _ h.ok.setupRetr).1]
  refine Post.of_steps (by steps) h.wf ?_ rfl ?_
  · rw [modShadow_cfg _ _ rfl, spiStep_read_cfg _ _ _ h.wf (by decide)]
  · exact { h.cached with retrySetup := rfl }

theorem getArd_post (s : DrvState) (h : Inv s) :
    Post (exec getArd s) s (.ok (ardOf s.cfg.setupRetr)) s.cfg s.d.pipe0ReadAddr := by
  unfold getArd
  exec_simp [readVal_setupRetr, (bits_retr_get _ h.ok.setupRetr).2]
  refine Post.of_steps (by steps) h.wf ?_ rfl ?_
  · rw [modShadow_cfg _ _ rfl, spiStep_read_cfg _ _ _ h.wf (by decide)]
  · exact { h.cached with retrySetup := rfl }

theorem getAutoRetries_post (s : DrvState) (h : Inv s) :
    Post (exec getAutoRetries s) s (.ok (ardOf s.cfg.setupRetr, arcOf s.cfg.setupRetr)) s.cfg s.d.pipe0ReadAddr := by
  unfold getAutoRetries getArd
  exec_simp [readVal_setupRetr, (bits_retr_get _ h.ok.setupRetr).2, (bits_retr_get _ h.ok.setupRetr).1]
  refine Post.of_steps (by steps) h.wf ?_ rfl ?_
  · rw [modShadow_cfg _ _ rfl, spiStep_read_cfg _ _ _ h.wf (by decide)]
  · exact { h.cached with retrySetup := rfl }

end Nrf
