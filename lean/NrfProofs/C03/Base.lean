/-
C03 proof infrastructure: the invariant (`Cached`, `Inv`), the outcome predicate `Post`, symbolic
execution lemmas that compute the configuration part / the shadows of a state reached through SPI
transactions, CE edges, sleeps and shadow updates, and one lemma per register write.
-/
import NrfProofs.Hoare
import NrfModel.Spec.Cfg

namespace Nrf
open Rf24 Cfg

/-! ### the invariant -/

/-- every shadow attribute of the driver object equals the register it caches -/
structure Cached (d : Rf24) (r : Radio) : Prop where
  config : d.config = r.config
  aa : d.aa = r.enAA
  openPipes : d.openPipes = r.enRxAddr
  features : d.features = r.feature
  retrySetup : d.retrySetup = r.setupRetr
  rfSetup : d.rfSetup = r.rfSetup
  dynPl : d.dynPl = r.dynpd
  channel : d.channel = r.rfCh
  addrLen : d.addrLen = r.setupAw + 2
  plLen : d.plLen = r.rxPw
  pipes0 : d.pipes0 = r.rxAddr0
  pipes1 : d.pipes1 = r.rxAddr1
  pipesN : d.pipesN = r.rxAddrN
  txAddress : d.txAddress = r.txAddr
  isPlus : d.isPlus = r.plus

/-- the C03 invariant: the object's radio exists, its cached view equals the radio's
    configuration registers, and these are within their documented ranges (`CfgOk`) -/
structure Inv (s : DrvState) : Prop where
  wf : s.Wf
  cached : Cached s.d s.cfg
  ok : CfgOk s.cfg
  user0 : P0Ok s.d.pipe0ReadAddr

/-- the abstract state of C03: the configuration part of the object's radio and the ghost
    reading address of pipe 0 -/
def DrvState.abs (s : DrvState) : CfgSt := { r := s.cfg, user0 := s.d.pipe0ReadAddr }

/-- outcome `p` of a computation started in `s`: result `r`, the radio's configuration part is
    `c'`, the ghost address `p0'`, the cache agrees with `c'`, no other radio is touched -/
structure Post {α} (p : Except PyErr α × DrvState) (s : DrvState) (r : Except PyErr α) (c' : Radio)
    (p0' : Option Bytes) : Prop where
  res : p.1 = r
  cfg : p.2.cfg = c'
  p0 : p.2.d.pipe0ReadAddr = p0'
  cached : Cached p.2.d c'
  wf : p.2.Wf
  rid : p.2.d.rid = s.d.rid
  frame : ∀ j, j ≠ s.d.rid → p.2.cfgAt j = s.cfgAt j
  len : p.2.w.radios.length = s.w.radios.length

theorem Post.inv {α} {p : Except PyErr α × DrvState} {s r c' p0'} (h : Post p s r c' p0') (hc : CfgOk c')
    (hp : P0Ok p0') : Inv p.2 := ⟨h.wf, h.cfg ▸ h.cached, h.cfg ▸ hc, h.p0 ▸ hp⟩

/-! ### states reached by the primitives -/

/-- state after a CE edge -/
def DrvState.ceStep3 (s : DrvState) (v : Bool) : DrvState := { s with w := s.w.setCE s.d.rid v }
/-- state after `time.sleep` -/
def DrvState.sleepStep3 (s : DrvState) (n : Nat) : DrvState := { s with w := s.w.sleep n }
/-- the data byte a register read returns -/
def DrvState.readVal (s : DrvState) (reg : Nat) : Nat := (s.w.spi s.d.rid [reg, 0]).2.getD 1 0
/-- the data bytes a multi-byte read returns -/
def DrvState.readBytes (s : DrvState) (reg n : Nat) : Bytes := (s.w.spi s.d.rid (reg :: zeros n)).2.drop 1
/-- the STATUS byte cached after a transaction -/
def DrvState.stAfter3 (s : DrvState) (out : Bytes) : Nat := (s.w.spi s.d.rid out).2.headD s.d.status

theorem exec_setCE3' (v : Bool) (s : DrvState) : exec (setCE v) s = (.ok (), s.ceStep3 v) := rfl
theorem exec_sleepNs3' (n : Nat) (s : DrvState) : exec (sleepNs n) s = (.ok (), s.sleepStep3 n) := rfl

theorem exec_regRead' (reg : Nat) (s : DrvState) :
    exec (regRead reg) s = (.ok (s.readVal reg), s.spiStep [reg, 0]) := exec_regRead reg s

theorem exec_regReadBytes' (reg n : Nat) (s : DrvState) :
    exec (regReadBytes reg n) s = (.ok (s.readBytes reg n), s.spiStep (reg :: zeros n)) := by
  unfold regReadBytes
  simp only [exec_bind, exec_xfer, exec_pure]
  rfl

/-- `_reg_write(reg, n)` for a shadow value in byte range -/
theorem exec_regWrite_nat3 (reg n : Nat) (s : DrvState) (hn : n < 256) (hr : reg ≠ 0x50) :
    exec (regWrite reg (n : Int)) s = (.ok (), s.spiStep [0x20 ||| reg, n]) := by
  rw [exec_regWrite reg n s (by omega) hr, Int.toNat_natCast]

/-! #### shadows -/

@[simp] theorem spiStep_d3' (s : DrvState) (out : Bytes) :
    (s.spiStep out).d = { s.d with status := s.stAfter3 out } := rfl
@[simp] theorem ceStep_d3 (s : DrvState) (v : Bool) : (s.ceStep3 v).d = s.d := rfl
@[simp] theorem sleepStep_d3 (s : DrvState) (n : Nat) : (s.sleepStep3 n).d = s.d := rfl

/-! #### well-formedness -/

@[simp] theorem ceStep_wf3 (s : DrvState) (v : Bool) : (s.ceStep3 v).Wf ↔ s.Wf := by
  unfold DrvState.Wf DrvState.ceStep3
  simp only [World.setCE_length]

@[simp] theorem sleepStep_wf3 (s : DrvState) (n : Nat) : (s.sleepStep3 n).Wf ↔ s.Wf := Iff.rfl

/-! #### configuration part -/

theorem cfg_cfgOf3 (s : DrvState) : s.cfg.cfgOf = s.cfg := rfl

theorem ceStep_cfg3 (s : DrvState) (v : Bool) (hw : s.Wf) : (s.ceStep3 v).cfg = { s.cfg with ce := v } := by
  unfold DrvState.cfg DrvState.ceStep3
  simp only
  rw [World.setCE_cfgOf _ _ _ hw]
  simp

theorem ceStep_cfgAt3 (s : DrvState) (v : Bool) (hw : s.Wf) (j : Nat) (hj : j ≠ s.d.rid) :
    (s.ceStep3 v).cfgAt j = s.cfgAt j := by
  unfold DrvState.cfgAt DrvState.ceStep3
  simp only
  rw [World.setCE_cfgOf _ _ _ hw]
  simp [hj]

@[simp] theorem sleepStep_cfg3 (s : DrvState) (n : Nat) : (s.sleepStep3 n).cfg = s.cfg := rfl
@[simp] theorem sleepStep_cfgAt3 (s : DrvState) (n j : Nat) : (s.sleepStep3 n).cfgAt j = s.cfgAt j := rfl

/-- reading a register changes no configuration register -/
theorem spiStep_read_cfg (s : DrvState) (reg : Nat) (d : Bytes) (hw : s.Wf) (hr : reg < 0x20) :
    (s.spiStep (reg :: d)).cfg = s.cfg := by
  rw [spiStep_cfg _ _ hw, xfer_rreg_cfg _ _ _ hr]; rfl

/-- a bare command byte ≥ 0x40 other than ACTIVATE (FLUSH_TX, FLUSH_RX, NOP, …) changes no
    configuration register -/
theorem spiStep_cmd_cfg (s : DrvState) (c : Nat) (hw : s.Wf) (hc : c = 0xE1 ∨ c = 0xE2 ∨ c = 0xFF) :
    (s.spiStep [c]).cfg = s.cfg := by
  rw [spiStep_cfg _ _ hw]
  rcases hc with h | h | h <;> subst h <;> rfl

/-- the value a register read returns is the register of the configuration part -/
theorem readVal_eq (s : DrvState) (reg : Nat) (hr : reg < 0x20)
    (hc : reg ≠ 7 ∧ reg ≠ 8 ∧ reg ≠ 9 ∧ reg ≠ 0x17) :
    s.readVal reg = (s.cfg.readReg reg).headD 0 := spi_read_cfg s.w s.d.rid reg hr hc

/-- write of one byte to a register, on the configuration part -/
theorem spiStep_write_cfg (s : DrvState) (reg v : Nat) (hw : s.Wf) (hr : reg < 0x20) :
    (s.spiStep [0x20 ||| reg, v]).cfg = (s.cfg.writeReg reg [v]).cfgOf := by
  rw [spiStep_cfg _ _ hw, xfer_wreg_cfg _ _ _ hr]

theorem spiStep_writes_cfg (s : DrvState) (reg : Nat) (b : Bytes) (hw : s.Wf) (hr : reg < 0x20) (hb : b ≠ []) :
    (s.spiStep ((0x20 ||| reg) :: b)).cfg = (s.cfg.writeReg reg b).cfgOf := by
  rw [spiStep_cfg _ _ hw, xfer_wregs_cfg _ _ _ hr hb]

/-! ### one lemma per register: what a write of an in-range value does -/

theorem and_mask_lt (x k : Nat) (h : x < 2 ^ k) : x &&& (2 ^ k - 1) = x := by
  rw [Nat.and_two_pow_sub_one_eq_mod]; exact Nat.mod_eq_of_lt h

namespace Radio

theorem w_config (r : Radio) (v : Nat) (hv : v < 128) (hrole : r.ce = false ∨ v &&& 1 = r.config &&& 1) :
    r.writeReg 0 [v] = { r with config := v } := by
  have hm : v &&& 0x7F = v := and_mask_lt v 7 hv
  have hno : ¬ (r.ce = true ∧ v &&& 1 ≠ r.config &&& 1) := by
    rcases hrole with h | h
    · simp [h]
    · simp [h]
  simp only [writeReg, List.headD_cons, hm, reservedLog, ↓reduceIte, hno, List.append_nil]

theorem w_enAA (r : Radio) (v : Nat) (hv : v < 64) : r.writeReg 1 [v] = { r with enAA := v } := by
  have hm : v &&& 0x3F = v := and_mask_lt v 6 hv
  simp only [writeReg, List.headD_cons, hm, reservedLog, ↓reduceIte, List.append_nil]

theorem w_enRxAddr (r : Radio) (v : Nat) (hv : v < 64) : r.writeReg 2 [v] = { r with enRxAddr := v } := by
  have hm : v &&& 0x3F = v := and_mask_lt v 6 hv
  simp only [writeReg, List.headD_cons, hm, reservedLog, ↓reduceIte, List.append_nil]

theorem w_setupAw (r : Radio) (v : Nat) (hv : v < 4) (h0 : v ≠ 0) : r.writeReg 3 [v] = { r with setupAw := v } := by
  have hm : v &&& 0x03 = v := and_mask_lt v 2 hv
  simp only [writeReg, List.headD_cons, hm, reservedLog, ↓reduceIte, h0, List.append_nil]

theorem w_setupAw0 (r : Radio) :
    r.writeReg 3 [0] = { r with setupAw := 0, violations := r.violations ++ ["SETUP_AW:illegal:0"] } := by
  simp [writeReg, reservedLog]

theorem w_setupRetr (r : Radio) (v : Nat) (hv : v < 256) : r.writeReg 4 [v] = { r with setupRetr := v } := by
  have hm : v &&& 0xFF = v := and_mask_lt v 8 hv
  simp only [writeReg, List.headD_cons, hm]

theorem w_rfCh (r : Radio) (v : Nat) (hv : v ≤ 125) : r.writeReg 5 [v] = { r with rfCh := v, plosCnt := 0 } := by
  have hm : v &&& 0x7F = v := and_mask_lt v 7 (by omega)
  have hr : ¬ v > 125 := by omega
  simp only [writeReg, List.headD_cons, hm, reservedLog, rangeLog, ↓reduceIte, hr, decide_false,
    List.append_nil, Bool.false_eq_true]

theorem w_rfSetup (r : Radio) (v : Nat) (hv : v &&& 0xBF = v) : r.writeReg 6 [v] = { r with rfSetup := v } := by
  simp only [writeReg, List.headD_cons, hv, reservedLog, ↓reduceIte, List.append_nil]

theorem w_dynpd (r : Radio) (v : Nat) (hv : v < 64) (hf : r.featureVisible = true) :
    r.writeReg 0x1C [v] = { r with dynpd := v } := by
  have hm : v &&& 0x3F = v := and_mask_lt v 6 hv
  simp only [writeReg, List.headD_cons, hm, hf, reservedLog, ↓reduceIte, List.append_nil]

theorem w_feature (r : Radio) (v : Nat) (hv : v < 8) (hf : r.featureVisible = true) :
    r.writeReg 0x1D [v] = { r with feature := v } := by
  have hm : v &&& 0x07 = v := and_mask_lt v 3 hv
  simp only [writeReg, List.headD_cons, hm, hf, reservedLog, ↓reduceIte, List.append_nil]

end Radio

end Nrf

namespace Nrf
open Rf24 Cfg

/-! ### states reachable by primitive steps: well-formedness, identity and frame for free -/

inductive Steps (s : DrvState) : DrvState → Prop
  | refl : Steps s s
  | spi {t : DrvState} (out : Bytes) : Steps s t → Steps s (t.spiStep out)
  | mod {t : DrvState} (f : Rf24 → Rf24) : (f t.d).rid = t.d.rid → Steps s t → Steps s (t.modShadow f)
  | ce {t : DrvState} (v : Bool) : Steps s t → Steps s (t.ceStep3 v)
  | sleep {t : DrvState} (n : Nat) : Steps s t → Steps s (t.sleepStep3 n)

theorem Steps.frame {s t : DrvState} (h : Steps s t) (hw : s.Wf) :
    t.Wf ∧ t.d.rid = s.d.rid ∧ ∀ j, j ≠ s.d.rid → t.cfgAt j = s.cfgAt j := by
  induction h with
  | refl => exact ⟨hw, rfl, fun _ _ => rfl⟩
  | spi out _ ih =>
    obtain ⟨h1, h2, h3⟩ := ih
    refine ⟨(spiStep_wf _ _).2 h1, h2, fun j hj => ?_⟩
    rw [spiStep_cfgAt _ _ h1 j (by rw [h2]; exact hj)]; exact h3 j hj
  | mod f hf _ ih =>
    obtain ⟨h1, h2, h3⟩ := ih
    exact ⟨(modShadow_wf _ _ hf).2 h1, hf.trans h2, fun j hj => by rw [modShadow_cfgAt]; exact h3 j hj⟩
  | ce v _ ih =>
    obtain ⟨h1, h2, h3⟩ := ih
    refine ⟨(ceStep_wf3 _ _).2 h1, h2, fun j hj => ?_⟩
    rw [ceStep_cfgAt3 _ _ h1 j (by rw [h2]; exact hj)]; exact h3 j hj
  | sleep n _ ih =>
    obtain ⟨h1, h2, h3⟩ := ih
    exact ⟨h1, h2, fun j hj => h3 j hj⟩

/-- primitive steps keep the number of radios of the world -/
theorem Steps.length {s t : DrvState} (h : Steps s t) : t.w.radios.length = s.w.radios.length := by
  induction h with
  | refl => rfl
  | spi out _ ih => rw [← ih]; exact World.spi_length _ _ _
  | mod f _ _ ih => exact ih
  | ce v _ ih => rw [← ih]; exact World.setCE_length _ _ _
  | sleep n _ ih => exact ih

theorem Steps.trans {s t u : DrvState} (h1 : Steps s t) (h2 : Steps t u) : Steps s u := by
  induction h2 with
  | refl => exact h1
  | spi out _ ih => exact .spi out ih
  | mod f hf _ ih => exact .mod f hf ih
  | ce v _ ih => exact .ce v ih
  | sleep n _ ih => exact .sleep n ih

/-- proves `Steps s t` for a state `t` written as a nest of primitive steps over `s` -/
macro "steps" : tactic =>
  `(tactic| repeat (first
      | with_reducible exact Steps.refl
      | with_reducible refine Steps.spi _ ?_
      | with_reducible refine Steps.ce _ ?_
      | with_reducible refine Steps.sleep _ ?_
      | with_reducible refine Steps.mod _ (by exact rfl) ?_))

/-- well-formedness of a nest of primitive steps over a well-formed state `s` (`hw : s.Wf`) -/
macro "wf_of" hw:term : tactic => `(tactic| exact (Steps.frame (by steps) $hw).1)

/-- `Post` for an explicitly computed final state -/
theorem Post.of_steps {α} {s t : DrvState} {r : Except PyErr α} {c' : Radio} {p0' : Option Bytes}
    (hst : Steps s t) (hw : s.Wf) (hcfg : t.cfg = c') (hp0 : t.d.pipe0ReadAddr = p0')
    (hc : Cached t.d c') : Post (r, t) s r c' p0' :=
  have h := hst.frame hw
  ⟨rfl, hcfg, hp0, hc, h.1, h.2.1, h.2.2, hst.length⟩

/-- a rejected call that did nothing (or only refreshed the cached STATUS byte / re-read values
    already cached) -/
theorem Post.unchanged {α} {s t : DrvState} {e : Except PyErr α} (h : Inv s) (hst : Steps s t)
    (hcfg : t.cfg = s.cfg) (hd : Cached t.d s.cfg) (hp0 : t.d.pipe0ReadAddr = s.d.pipe0ReadAddr) :
    Post (e, t) s e s.cfg s.d.pipe0ReadAddr :=
  Post.of_steps hst h.wf hcfg hp0 hd

/-- sequencing: continue from the outcome of a sub-call -/
theorem Post.trans {α β} {p : Except PyErr α × DrvState} {q : Except PyErr β × DrvState} {s : DrvState}
    {r1 c1 p1 r2 c2 p2} (h1 : Post p s r1 c1 p1) (h2 : Post q p.2 r2 c2 p2) : Post q s r2 c2 p2 :=
  ⟨h2.res, h2.cfg, h2.p0, h2.cached, h2.wf, h2.rid.trans h1.rid,
   fun j hj => (h2.frame j (by rw [h1.rid]; exact hj)).trans (h1.frame j hj), h2.len.trans h1.len⟩

/-- mapping the result -/
theorem Post.map {α β} {p : Except PyErr α × DrvState} {s : DrvState} {a : α} {c1 p1} (g : α → β)
    (h : Post p s (.ok a) c1 p1) : Post ((.ok (g a) : Except PyErr β), p.2) s (.ok (g a)) c1 p1 :=
  ⟨rfl, h.cfg, h.p0, h.cached, h.wf, h.rid, h.frame, h.len⟩

end Nrf

namespace Nrf
open Rf24 Cfg

/-! ### values returned by register reads -/

theorem readVal_config (s : DrvState) : s.readVal 0 = s.cfg.config := readVal_eq s 0 (by decide) (by decide)
theorem readVal_enAA (s : DrvState) : s.readVal 1 = s.cfg.enAA := readVal_eq s 1 (by decide) (by decide)
theorem readVal_enRxAddr (s : DrvState) : s.readVal 2 = s.cfg.enRxAddr := readVal_eq s 2 (by decide) (by decide)
theorem readVal_setupAw (s : DrvState) : s.readVal 3 = s.cfg.setupAw := readVal_eq s 3 (by decide) (by decide)
theorem readVal_setupRetr (s : DrvState) : s.readVal 4 = s.cfg.setupRetr := readVal_eq s 4 (by decide) (by decide)
theorem readVal_rfCh (s : DrvState) : s.readVal 5 = s.cfg.rfCh := readVal_eq s 5 (by decide) (by decide)
theorem readVal_rfSetup (s : DrvState) : s.readVal 6 = s.cfg.rfSetup := readVal_eq s 6 (by decide) (by decide)
theorem readVal_dynpd (s : DrvState) (hv : s.cfg.featureVisible = true) : s.readVal 0x1C = s.cfg.dynpd := by
  rw [readVal_eq s 0x1C (by decide) (by decide)]
  simp only [Radio.readReg, hv, ↓reduceIte, List.headD_cons]
theorem readVal_feature (s : DrvState) (hv : s.cfg.featureVisible = true) : s.readVal 0x1D = s.cfg.feature := by
  rw [readVal_eq s 0x1D (by decide) (by decide)]
  simp only [Radio.readReg, hv, ↓reduceIte, List.headD_cons]
theorem readVal_rxPw (s : DrvState) (p : Nat) (hp : p < 6) : s.readVal (0x11 + p) = s.cfg.rxPw.getD p 0 := by
  rw [readVal_eq s _ (by omega) (by omega)]
  have : p = 0 ∨ p = 1 ∨ p = 2 ∨ p = 3 ∨ p = 4 ∨ p = 5 := by omega
  rcases this with h | h | h | h | h | h <;> subst h <;> rfl

end Nrf

namespace Nrf
open Rf24 Cfg

/-- the tail shared by most setters: after steps that left the registers alone, the (already
    cached) value `v` is written to register `reg` -/
theorem write_tail {s t : DrvState} (h : Inv s) (hst : Steps s t) (hcfg : t.cfg = s.cfg)
    {reg v : Nat} (hr : reg < 0x20) {c' : Radio} (hwr : (s.cfg.writeReg reg [v]).cfgOf = c')
    {p0' : Option Bytes} (hp0 : t.d.pipe0ReadAddr = p0') (hd : Cached t.d c') :
    Post ((.ok () : Except PyErr Unit), t.spiStep [0x20 ||| reg, v]) s (.ok ()) c' p0' := by
  refine Post.of_steps (.spi _ hst) h.wf ?_ hp0 { hd with }
  rw [spiStep_write_cfg _ _ _ (hst.frame h.wf).1 hr, hcfg, hwr]

theorem Post.ite_sleep {α} {s t : DrvState} {r : Except PyErr α} {c' p0'} (c : Prop) [Decidable c] (n : Nat)
    (h : Post (r, t) s r c' p0') : Post (if c then (r, t.sleepStep3 n) else (r, t)) s r c' p0' := by
  split
  · exact ⟨rfl, h.cfg, h.p0, h.cached, h.wf, h.rid, h.frame, h.len⟩
  · exact h

theorem Post.sleep {α} {s t : DrvState} {r : Except PyErr α} {c' p0'} (n : Nat) (h : Post (r, t) s r c' p0') :
    Post (r, t.sleepStep3 n) s r c' p0' :=
  ⟨rfl, h.cfg, h.p0, h.cached, h.wf, h.rid, h.frame, h.len⟩

@[simp] theorem ite_pair_same {α β} (c : Prop) [Decidable c] (a b : α) (t : β) :
    (if c then (a, t) else (b, t)) = (if c then a else b, t) := by split <;> rfl

end Nrf

namespace Nrf
open Rf24 Cfg

/-! ### the configuration part reached by a nest of primitive steps, computed step by step -/

structure Reach3 (s t : DrvState) (c : Radio) : Prop where
  steps : Steps s t
  cfg : t.cfg = c

theorem Reach3.refl (s : DrvState) : Reach3 s s s.cfg := ⟨.refl, rfl⟩

theorem Reach3.write {s t : DrvState} {c : Radio} (hw : s.Wf) (reg v : Nat) (hr : reg < 0x20) (h : Reach3 s t c) :
    Reach3 s (t.spiStep [0x20 ||| reg, v]) (c.writeReg reg [v]).cfgOf :=
  ⟨.spi _ h.steps, by rw [spiStep_write_cfg _ _ _ (h.steps.frame hw).1 hr, h.cfg]⟩

theorem Reach3.writes {s t : DrvState} {c : Radio} (hw : s.Wf) (reg : Nat) (b : Bytes) (hr : reg < 0x20)
    (hb : b ≠ []) (h : Reach3 s t c) :
    Reach3 s (t.spiStep ((0x20 ||| reg) :: b)) (c.writeReg reg b).cfgOf :=
  ⟨.spi _ h.steps, by rw [spiStep_writes_cfg _ _ _ (h.steps.frame hw).1 hr hb, h.cfg]⟩

theorem Reach3.read {s t : DrvState} {c : Radio} (hw : s.Wf) (reg : Nat) (d : Bytes) (hr : reg < 0x20)
    (h : Reach3 s t c) : Reach3 s (t.spiStep (reg :: d)) c :=
  ⟨.spi _ h.steps, by rw [spiStep_read_cfg _ _ _ (h.steps.frame hw).1 hr, h.cfg]⟩

theorem Reach3.cmd {s t : DrvState} {c : Radio} (hw : s.Wf) (k : Nat) (hk : k = 0xE1 ∨ k = 0xE2 ∨ k = 0xFF)
    (h : Reach3 s t c) : Reach3 s (t.spiStep [k]) c :=
  ⟨.spi _ h.steps, by rw [spiStep_cmd_cfg _ _ (h.steps.frame hw).1 hk, h.cfg]⟩

theorem Reach3.mod {s t : DrvState} {c : Radio} (f : Rf24 → Rf24) (hf : (f t.d).rid = t.d.rid)
    (h : Reach3 s t c) : Reach3 s (t.modShadow f) c :=
  ⟨.mod f hf h.steps, by rw [modShadow_cfg _ _ hf, h.cfg]⟩

theorem Reach3.ce {s t : DrvState} {c : Radio} (hw : s.Wf) (v : Bool) (h : Reach3 s t c) :
    Reach3 s (t.ceStep3 v) { c with ce := v } :=
  ⟨.ce v h.steps, by rw [ceStep_cfg3 _ _ (h.steps.frame hw).1, h.cfg]⟩

theorem Reach3.sleep {s t : DrvState} {c : Radio} (n : Nat) (h : Reach3 s t c) : Reach3 s (t.sleepStep3 n) c :=
  ⟨.sleep n h.steps, h.cfg⟩

theorem Reach3.trans {s t u : DrvState} {c c' : Radio} (h1 : Reach3 s t c) (h2 : Reach3 t u c') : Reach3 s u c' :=
  ⟨h1.steps.trans h2.steps, h2.cfg⟩

/-- ACTIVATE (command byte 0x50) is ignored by a plus variant -/
theorem spiStep_activate_cfg (s : DrvState) (v : Nat) (hw : s.Wf) (hplus : s.cfg.plus = true) :
    (s.spiStep [0x50, v]).cfg = s.cfg := by
  rw [spiStep_cfg _ _ hw]
  have hX : (if (!s.cfg.plus) = true ∧ [v].headD 0 = 0x73 then !s.cfg.activated else s.cfg.activated)
      = s.cfg.activated := by simp [hplus]
  show ({ s.cfg with activated := if (!s.cfg.plus) = true ∧ [v].headD 0 = 0x73 then !s.cfg.activated
    else s.cfg.activated } : Radio).cfgOf = s.cfg
  rw [hX]
  rfl

theorem Reach3.activate {s t : DrvState} {c : Radio} (hw : s.Wf) (v : Nat) (hplus : c.plus = true)
    (h : Reach3 s t c) : Reach3 s (t.spiStep [0x50, v]) c :=
  ⟨.spi _ h.steps, by rw [spiStep_activate_cfg _ _ (h.steps.frame hw).1 (h.cfg ▸ hplus), h.cfg]⟩

/-- computes `Reach3 s t ?c` for a nest `t` of primitive steps over `s`, given `hw : s.Wf` -/
macro "reach" hw:term : tactic =>
  `(tactic| repeat (first
      | with_reducible exact Reach3.refl _
      | (with_reducible apply Reach3.write $hw; case hr => decide)
      | (with_reducible apply Reach3.writes $hw; (case hr => decide); (case hb => assumption))
      | (with_reducible apply Reach3.read $hw; case hr => decide)
      | (with_reducible apply Reach3.cmd $hw; case hk => decide)
      | (with_reducible apply Reach3.activate $hw; case hplus => assumption)
      | with_reducible apply Reach3.ce $hw
      | with_reducible apply Reach3.sleep
      | (with_reducible apply Reach3.mod; case hf => exact rfl)))

/-- `Post` from a computed `Reach3` -/
theorem Post.of_reach {α} {s t : DrvState} {r : Except PyErr α} {c c' : Radio} {p0' : Option Bytes}
    (hr : Reach3 s t c) (hw : s.Wf) (hc : c = c') (hp0 : t.d.pipe0ReadAddr = p0')
    (hd : Cached t.d c') : Post (r, t) s r c' p0' :=
  Post.of_steps hr.steps hw (hr.cfg.trans hc) hp0 hd

end Nrf

namespace Nrf
open Rf24 Cfg

/-- a shadow update does not change what a register read returns (side condition in a form the
    simplifier discharges without looking at the state) -/
theorem readVal_modShadow (t : DrvState) (f : Rf24 → Rf24) (reg : Nat) (hf : ∀ d, (f d).rid = d.rid) :
    (t.modShadow f).readVal reg = t.readVal reg := by
  unfold DrvState.readVal DrvState.modShadow
  simp only [hf]

/-- nor does a preceding register read -/
theorem readVal_after_read (t : DrvState) (r : Nat) (d : Bytes) (reg : Nat) (hw : t.Wf) (hr : r < 0x20)
    (hreg : reg < 0x20) (hc : reg ≠ 7 ∧ reg ≠ 8 ∧ reg ≠ 9 ∧ reg ≠ 0x17) :
    (t.spiStep (r :: d)).readVal reg = t.readVal reg := by
  rw [readVal_eq _ _ hreg hc, readVal_eq _ _ hreg hc, spiStep_read_cfg _ _ _ hw hr]

/-- `Wf` through a shadow update, side condition in simplifier-friendly form -/
theorem modShadow_wf3' (t : DrvState) (f : Rf24 → Rf24) (hf : ∀ d, (f d).rid = d.rid) :
    (t.modShadow f).Wf ↔ t.Wf := modShadow_wf t f (hf _)

theorem modShadow_cfg' (t : DrvState) (f : Rf24 → Rf24) (hf : ∀ d, (f d).rid = d.rid) :
    (t.modShadow f).cfg = t.cfg := modShadow_cfg t f (hf _)

/-! address registers -/

theorem overlay_eq (old new : Bytes) (h : new.length ≤ 5) : Radio.overlay old new = writeAddr old new := by
  unfold Radio.overlay writeAddr
  rw [List.take_of_length_le h, Nat.min_eq_left h]

theorem Radio.w_a0 (r : Radio) (b : Bytes) (h : b.length ≤ 5) :
    r.writeReg 0x0A b = { r with rxAddr0 := writeAddr r.rxAddr0 b } := by
  simp only [Radio.writeReg, overlay_eq _ _ h]
theorem Radio.w_a1 (r : Radio) (b : Bytes) (h : b.length ≤ 5) :
    r.writeReg 0x0B b = { r with rxAddr1 := writeAddr r.rxAddr1 b } := by
  simp only [Radio.writeReg, overlay_eq _ _ h]
theorem Radio.w_tx (r : Radio) (b : Bytes) (h : b.length ≤ 5) :
    r.writeReg 0x10 b = { r with txAddr := writeAddr r.txAddr b } := by
  simp only [Radio.writeReg, overlay_eq _ _ h]
theorem Radio.w_aN (r : Radio) (p v : Nat) (hp : p < 4) :
    r.writeReg (0x0C + p) [v] = { r with rxAddrN := r.rxAddrN.set p v } := by
  have : p = 0 ∨ p = 1 ∨ p = 2 ∨ p = 3 := by omega
  rcases this with h | h | h | h <;> subst h <;> rfl

/-- writing an address register does not change what EN_RXADDR reads -/
theorem readVal_after_addr_write (t : DrvState) (reg : Nat) (b : Bytes) (hw : t.Wf)
    (hreg : 0x0A ≤ reg ∧ reg ≤ 0x10) (hb : b ≠ []) :
    (t.spiStep ((0x20 ||| reg) :: b)).readVal 2 = t.readVal 2 := by
  rw [readVal_eq _ 2 (by decide) (by decide), readVal_eq _ 2 (by decide) (by decide),
    spiStep_writes_cfg _ _ _ hw (by omega) hb]
  have : reg = 0x0A ∨ reg = 0x0B ∨ reg = 0x0C ∨ reg = 0x0D ∨ reg = 0x0E ∨ reg = 0x0F ∨ reg = 0x10 := by omega
  rcases this with h | h | h | h | h | h | h <;> subst h <;> rfl

/-- all the cases of the exec rules used by the symbolic execution of leaf methods -/
macro "exec_simp" "[" ls:Lean.Parser.Tactic.simpLemma,* "]" : tactic =>
  `(tactic| simp only [exec_bind, exec_pure, exec_modD', exec_getD, exec_regRead', exec_setCE3', exec_sleepNs3',
      exec_nowNs, exec_raise, exec_ite, modShadow_d, spiStep_d3', ceStep_d3, sleepStep_d3, ↓reduceIte, ne_eq, not_true_eq_false, not_false_eq_true,
      false_and, and_false, true_and, and_true, false_or, or_false, true_or, or_true, Classical.not_not, and_self, implies_true, modShadow_wf3', spiStep_wf, ceStep_wf3, sleepStep_wf3, Nat.reduceEqDiff, Nat.reduceLT, readVal_modShadow, readVal_after_read,
      CONFIGURE, AUTO_ACK, OPEN_PIPES, SETUP_RETR, RF_PA_RATE, RX_ADDR_P0, TX_ADDRESS, RX_PL_LENG,
      DYN_PL_LEN, TX_FEATURE, $ls,*])


/-- the same with deeper nesting of side-condition discharging (reads through long nests of states) -/
macro "exec_simp_deep" "[" ls:Lean.Parser.Tactic.simpLemma,* "]" : tactic =>
  `(tactic| simp (maxDischargeDepth := 8) only [exec_bind, exec_pure, exec_modD', exec_getD, exec_regRead', exec_setCE3', exec_sleepNs3',
      exec_nowNs, exec_raise, exec_ite, modShadow_d, spiStep_d3', ceStep_d3, sleepStep_d3, ↓reduceIte, ne_eq, not_true_eq_false, not_false_eq_true,
      false_and, and_false, true_and, and_true, false_or, or_false, true_or, or_true, Classical.not_not, and_self, implies_true, modShadow_wf3', spiStep_wf, ceStep_wf3, sleepStep_wf3, Nat.reduceEqDiff, Nat.reduceLT, readVal_modShadow, readVal_after_read,
      CONFIGURE, AUTO_ACK, OPEN_PIPES, SETUP_RETR, RF_PA_RATE, RX_ADDR_P0, TX_ADDRESS, RX_PL_LENG,
      DYN_PL_LEN, TX_FEATURE, $ls,*])


end Nrf

namespace Nrf
open Rf24 Cfg

theorem Radio.w_rxPw (r : Radio) (p v : Nat) (hp : p < 6) (hv : 1 ≤ v ∧ v ≤ 32) :
    r.writeReg (0x11 + p) [v] = { r with rxPw := r.rxPw.set p v } := by
  have hm : v &&& 0x3F = v := and_mask_lt v 6 (by omega)
  have hr : ¬ v > 32 := by omega
  have : p = 0 ∨ p = 1 ∨ p = 2 ∨ p = 3 ∨ p = 4 ∨ p = 5 := by omega
  rcases this with h | h | h | h | h | h <;> subst h <;>
    simp [Radio.writeReg, hm, Radio.reservedLog, Radio.rangeLog, hr]

/-- sequencing with a sub-call that re-establishes the invariant -/
theorem Post.bind {α β} {x : DrvM α} {f : α → DrvM β} {s : DrvState} {a : α} {c1 : Radio} {p1 : Option Bytes}
    {r : Except PyErr β} {c2 : Radio} {p2 : Option Bytes}
    (h1 : Post (exec x s) s (.ok a) c1 p1) (hc1 : CfgOk c1) (hp1 : P0Ok p1)
    (h2 : ∀ s1 : DrvState, Inv s1 → s1.cfg = c1 → s1.d.pipe0ReadAddr = p1 → Post (exec (f a) s1) s1 r c2 p2) :
    Post (exec (x >>= f) s) s r c2 p2 := by
  rw [exec_bind]
  have h3 := h2 _ (h1.inv hc1 hp1) h1.cfg h1.p0
  have hres := h1.res
  rcases hx : exec x s with ⟨r1, s1⟩
  rw [hx] at h1 h3 hres
  simp only at hres
  subst hres
  exact Post.trans h1 h3

/-- a failing sub-call ends the computation -/
theorem Post.bind_err {α β} {x : DrvM α} {f : α → DrvM β} {s : DrvState} {e : PyErr} {c1 : Radio}
    {p1 : Option Bytes} (h1 : Post (exec x s) s (.error e) c1 p1) :
    Post (exec (x >>= f) s) s (.error e) c1 p1 := by
  rw [exec_bind]
  have hres := h1.res
  rcases hx : exec x s with ⟨r1, s1⟩
  rw [hx] at h1 hres
  simp only at hres
  subst hres
  exact ⟨rfl, h1.cfg, h1.p0, h1.cached, h1.wf, h1.rid, h1.frame, h1.len⟩

end Nrf
