/-
C03 per-method lemmas: RF_CH (`channel`) and RF_SETUP (`data_rate`, `pa_level`, `is_lna_enabled`).
-/
import NrfProofs.C03.Base

namespace Nrf
open Rf24 Cfg

/-! ### channel -/

theorem getChannel_post (s : DrvState) (h : Inv s) :
    Post (exec getChannel s) s (.ok s.cfg.rfCh) s.cfg s.d.pipe0ReadAddr := by
  unfold getChannel
  rw [exec_regRead', readVal_rfCh]
  refine Post.of_steps (by steps) h.wf ?_ rfl { h.cached with }
  rw [spiStep_read_cfg _ _ _ h.wf (by decide)]

theorem setChannel_post (ch : Int) (s : DrvState) (h : Inv s) (hc : 0 ≤ ch ∧ ch ≤ 125) :
    Post (exec (setChannel ch) s) s (.ok ()) { s.cfg with rfCh := ch.toNat } s.d.pipe0ReadAddr := by
  unfold setChannel
  have h1 : ¬ ¬ (0 ≤ ch ∧ ch ≤ 125) := by simp [hc]
  simp only [exec_bind, h1, ↓reduceIte, exec_modD', exec_regWrite _ _ _ (by omega : 0 ≤ ch ∧ ch ≤ 255)
    (by decide : (5 : Nat) ≠ 0x50)]
  refine Post.of_steps (by steps) h.wf ?_ rfl ?_
  · rw [spiStep_write_cfg _ _ _ (by wf_of h.wf) (by decide), modShadow_cfg _ _ rfl,
      Radio.w_rfCh _ _ (by omega)]
    rfl
  · exact { h.cached with channel := rfl }

theorem setChannel_bad_post (ch : Int) (s : DrvState) (h : Inv s) (hc : ¬ (0 ≤ ch ∧ ch ≤ 125)) :
    Post (exec (setChannel ch) s) s (.error .valueError) s.cfg s.d.pipe0ReadAddr := by
  unfold setChannel
  simp only [exec_bind, hc, not_false_eq_true, ↓reduceIte, exec_raise]
  exact Post.unchanged h .refl rfl h.cached rfl

/-! ### data rate -/

theorem bits_rate : ∀ x, x < 256 → bitOf x 6 = false →
    (x &&& 0xD7 ||| 0 = setBit (setBit x 5 false) 3 false ∧ (x &&& 0xD7 ||| 0) &&& 0xBF = x &&& 0xD7 ||| 0) ∧
    (x &&& 0xD7 ||| 8 = setBit (setBit x 5 false) 3 true ∧ (x &&& 0xD7 ||| 8) &&& 0xBF = x &&& 0xD7 ||| 8) ∧
    (x &&& 0xD7 ||| 0x20 = setBit (setBit x 5 true) 3 false ∧ (x &&& 0xD7 ||| 0x20) &&& 0xBF = x &&& 0xD7 ||| 0x20) := by
  decide +kernel

theorem bits_rate_get : ∀ x, x < 256 →
    (if x &&& 0x28 ≠ 0 then (if x &&& 0x28 = 8 then 2 else 250) else 1) = rateOf x := by decide +kernel

theorem bits_mask_bf : ∀ x, x < 256 → bitOf x 6 = false → x &&& 0xBF = x := by decide +kernel

/-- the tail shared by every RF_SETUP setter: the new value `v` is cached and written -/
theorem rfSetup_write (s : DrvState) (h : Inv s) (t : DrvState) (hst : Steps s t) (hcfg : t.cfg = s.cfg)
    (hp0 : t.d.pipe0ReadAddr = s.d.pipe0ReadAddr) (hd : Cached { t.d with rfSetup := s.cfg.rfSetup } s.cfg)
    (v : Nat) (hv : v &&& 0xBF = v) (hrf : t.d.rfSetup = v) :
    Post ((.ok () : Except PyErr Unit), t.spiStep [0x20 ||| 6, v]) s (.ok ()) { s.cfg with rfSetup := v }
      s.d.pipe0ReadAddr := by
  have htw := (hst.frame h.wf).1
  refine Post.of_steps (.spi _ hst) h.wf ?_ hp0 ?_
  · rw [spiStep_write_cfg _ _ _ htw (by decide), hcfg, Radio.w_rfSetup _ _ hv]
    rfl
  · exact { hd with rfSetup := hrf }

theorem setDataRate_post (v : Int) (s : DrvState) (h : Inv s) (hv : v = 1 ∨ v = 2 ∨ v = 250) :
    Post (exec (setDataRate v) s) s (.ok ()) { s.cfg with rfSetup := setRate s.cfg.rfSetup v } s.d.pipe0ReadAddr := by
  have hb := bits_rate _ h.ok.rfSetup.1 h.ok.rfSetup.2
  have hlt : ∀ c, c = 0 ∨ c = 8 ∨ c = 0x20 → s.cfg.rfSetup &&& 0xD7 ||| c < 256 := by
    have : ∀ x, x < 256 → ∀ c, c = 0 ∨ c = 8 ∨ c = 0x20 → x &&& 0xD7 ||| c < 256 := by
      intro x hx c hc; rcases hc with rfl | rfl | rfl <;> revert x <;> decide +kernel
    exact this _ h.ok.rfSetup.1
  unfold setDataRate
  rcases hv with rfl | rfl | rfl
  · exec_simp [readVal_rfSetup, Int.reduceEq]
    rw [exec_regWrite_nat3 _ _ _ (hlt 0 (by simp)) (by decide)]
    have : setRate s.cfg.rfSetup 1 = s.cfg.rfSetup &&& 0xD7 ||| 0 := by rw [hb.1.1]; simp [setRate]
    rw [this]
    apply rfSetup_write s h
    · steps
    · rw [modShadow_cfg _ _ rfl, spiStep_read_cfg _ _ _ h.wf (by decide)]
    · rfl
    · exact { h.cached with rfSetup := rfl }
    · exact hb.1.2
    · rfl
  · exec_simp [readVal_rfSetup, Int.reduceEq]
    rw [exec_regWrite_nat3 _ _ _ (hlt 8 (by simp)) (by decide)]
    have : setRate s.cfg.rfSetup 2 = s.cfg.rfSetup &&& 0xD7 ||| 8 := by rw [hb.2.1.1]; simp [setRate]
    rw [this]
    apply rfSetup_write s h
    · steps
    · rw [modShadow_cfg _ _ rfl, spiStep_read_cfg _ _ _ h.wf (by decide)]
    · rfl
    · exact { h.cached with rfSetup := rfl }
    · exact hb.2.1.2
    · rfl
  · exec_simp [readVal_rfSetup, Int.reduceEq]
    rw [exec_regWrite_nat3 _ _ _ (hlt 0x20 (by simp)) (by decide)]
    have : setRate s.cfg.rfSetup 250 = s.cfg.rfSetup &&& 0xD7 ||| 0x20 := by rw [hb.2.2.1]; simp [setRate]
    rw [this]
    apply rfSetup_write s h
    · steps
    · rw [modShadow_cfg _ _ rfl, spiStep_read_cfg _ _ _ h.wf (by decide)]
    · rfl
    · exact { h.cached with rfSetup := rfl }
    · exact hb.2.2.2
    · rfl

theorem setDataRate_bad_post (v : Int) (s : DrvState) (h : Inv s) (hv : ¬ (v = 1 ∨ v = 2 ∨ v = 250)) :
    Post (exec (setDataRate v) s) s (.error .valueError) s.cfg s.d.pipe0ReadAddr := by
  unfold setDataRate
  have hc : v ≠ 1 ∧ v ≠ 2 ∧ v ≠ 250 := by omega
  exec_simp [hc.1, hc.2.1, hc.2.2]
  exact Post.unchanged h .refl rfl h.cached rfl

theorem getDataRate_post (s : DrvState) (h : Inv s) :
    Post (exec getDataRate s) s (.ok (rateOf s.cfg.rfSetup)) s.cfg s.d.pipe0ReadAddr := by
  unfold getDataRate
  exec_simp [readVal_rfSetup]
  rw [← bits_rate_get _ h.ok.rfSetup.1]
  refine Post.of_steps (by steps) h.wf ?_ rfl ?_
  · rw [modShadow_cfg _ _ rfl, spiStep_read_cfg _ _ _ h.wf (by decide)]
  · exact { h.cached with rfSetup := rfl }

/-! ### PA level / LNA -/

theorem bits_pa : ∀ x, x < 256 → bitOf x 6 = false → ∀ c, c < 4 → ∀ b : Bool,
    (x &&& 0xF8) ||| (c * 2) ||| Rf24.b2n b = setBit (setField x 1 2 c) 0 b ∧
    ((x &&& 0xF8) ||| (c * 2) ||| Rf24.b2n b) &&& 0xBF = (x &&& 0xF8) ||| (c * 2) ||| Rf24.b2n b ∧
    (x &&& 0xF8) ||| (c * 2) ||| Rf24.b2n b < 256 := by decide +kernel

theorem bits_pa_get : ∀ x, x < 256 →
    ((3 - ((x &&& 6) >>> 1) : Nat) : Int) * -6 = paOf x ∧ decide (x &&& 1 ≠ 0) = bitOf x 0 := by
  decide +kernel

/-- the two faces of a legal level: the code the driver computes and the data-sheet code -/
theorem pa_codes (v : Int) (hv : paLegal v) : (3 - (v / -6).toNat) * 2 = paCode v * 2 ∧ paCode v < 4 := by
  rcases hv with rfl | rfl | rfl | rfl <;> decide

/-- body of the `pa_level` setter once the argument form is resolved to a level and an LNA bit -/
def paCore (v : Int) (l : Bool) : DrvM Unit := do
  if v ≠ -18 ∧ v ≠ -12 ∧ v ≠ -6 ∧ v ≠ 0 then raise .valueError
  let pwr := (3 - (v / -6).toNat) * 2
  modD fun d => { d with rfSetup := (d.rfSetup &&& 0xF8) ||| pwr ||| Rf24.b2n l }
  regWrite RF_PA_RATE (← getD).rfSetup

theorem setPaLevel_int (v : Int) : setPaLevel (.i v) none = paCore v true := rfl
theorem setPaLevel_int_lna (v : Int) (l : Bool) : setPaLevel (.i v) (some l) = paCore v l := rfl
theorem setPaLevel_bool (b : Bool) : setPaLevel (.b b) none = paCore (Rf24.b2n b) true := rfl
theorem setPaLevel_list (vs : List Int) : setPaLevel (.l vs) none = raise .valueError := rfl
theorem setPaLevel_other : setPaLevel .other none = raise .valueError := rfl

theorem paCore_post (v : Int) (l : Bool) (s : DrvState) (h : Inv s) (hv : paLegal v) :
    Post (exec (paCore v l) s) s (.ok ())
      { s.cfg with rfSetup := setPa s.cfg.rfSetup v l } s.d.pipe0ReadAddr := by
  unfold paCore
  have hc : ¬ (v ≠ -18 ∧ v ≠ -12 ∧ v ≠ -6 ∧ v ≠ 0) := by unfold paLegal at hv; omega
  have hb := bits_pa _ h.ok.rfSetup.1 h.ok.rfSetup.2 _ (pa_codes v hv).2 l
  rw [← (pa_codes v hv).1] at hb
  simp only [exec_bind, exec_modD', exec_getD, exec_ite, hc, ↓reduceIte, modShadow_d, RF_PA_RATE]
  rw [h.cached.rfSetup, exec_regWrite_nat3 _ _ _ hb.2.2 (by decide)]
  have : setPa s.cfg.rfSetup v l = s.cfg.rfSetup &&& 0xF8 ||| (3 - (v / -6).toNat) * 2 ||| Rf24.b2n l := by
    rw [hb.1]; rfl
  rw [this]
  apply rfSetup_write s h
  · steps
  · rw [modShadow_cfg _ _ rfl]
  · rfl
  · exact { h.cached with rfSetup := rfl }
  · exact hb.2.1
  · show s.d.rfSetup &&& 248 ||| (3 - (v / -6).toNat) * 2 ||| Rf24.b2n l = _
    rw [h.cached.rfSetup]

theorem paCore_bad_post (v : Int) (l : Bool) (s : DrvState) (h : Inv s) (hv : ¬ paLegal v) :
    Post (exec (paCore v l) s) s (.error .valueError) s.cfg s.d.pipe0ReadAddr := by
  have hc : v ≠ -18 ∧ v ≠ -12 ∧ v ≠ -6 ∧ v ≠ 0 := by unfold paLegal at hv; omega
  unfold paCore
  exec_simp [hc.1, hc.2.1, hc.2.2.1, hc.2.2.2]
  exact Post.unchanged h .refl rfl h.cached rfl

theorem getPaLevel_post (s : DrvState) (h : Inv s) :
    Post (exec getPaLevel s) s (.ok (paOf s.cfg.rfSetup)) s.cfg s.d.pipe0ReadAddr := by
  unfold getPaLevel
  exec_simp [readVal_rfSetup]
  rw [(bits_pa_get _ h.ok.rfSetup.1).1]
  refine Post.of_steps (by steps) h.wf ?_ rfl ?_
  · rw [modShadow_cfg _ _ rfl, spiStep_read_cfg _ _ _ h.wf (by decide)]
  · exact { h.cached with rfSetup := rfl }

theorem isLnaEnabled_post (s : DrvState) (h : Inv s) :
    Post (exec isLnaEnabled s) s (.ok (bitOf s.cfg.rfSetup 0)) s.cfg s.d.pipe0ReadAddr := by
  unfold isLnaEnabled
  exec_simp [readVal_rfSetup]
  rw [← (bits_pa_get _ h.ok.rfSetup.1).2]
  refine Post.of_steps (by steps) h.wf ?_ rfl ?_
  · rw [modShadow_cfg _ _ rfl, spiStep_read_cfg _ _ _ h.wf (by decide)]
  · exact { h.cached with rfSetup := rfl }

end Nrf
