/-
C03: the documented effect of every call keeps every register within its documented range
(`docStep_ok`) — a statement about the specification alone.
-/
import NrfProofs.C03.Step

namespace Nrf
open Rf24 Cfg

theorem ok_bits7 : ∀ x, x < 128 → ∀ i, i < 7 → ∀ b : Bool, setBit x i b < 128 := by decide +kernel
theorem ok_bits6 : ∀ x, x < 64 → ∀ i, i < 6 → ∀ b : Bool, setBit x i b < 64 := by decide +kernel
theorem ok_bits3 : ∀ x, x < 8 → ∀ i, i < 3 → ∀ b : Bool, setBit x i b < 8 := by decide +kernel
theorem ok_rf : ∀ x, x < 256 → bitOf x 6 = false → ∀ i, i < 8 → i ≠ 6 → ∀ b : Bool,
    setBit x i b < 256 ∧ bitOf (setBit x i b) 6 = false := by decide +kernel
theorem ok_rf_pa : ∀ x, x < 256 → bitOf x 6 = false → ∀ c, c < 4 →
    setField x 1 2 c < 256 ∧ bitOf (setField x 1 2 c) 6 = false := by decide +kernel
theorem ok_retr : ∀ x, x < 256 → ∀ v, v < 16 → setField x 0 4 v < 256 ∧ setField x 4 4 v < 256 := by
  decide +kernel

theorem applyList_lt (vs : List Int) : ∀ (i x : Nat), x < 64 → applyList x i vs < 64 := by
  induction vs with
  | nil => intro i x h; exact h
  | cons v rest ih =>
    intro i x h
    unfold applyList
    split
    · rename_i hc; exact ih _ _ (ok_bits6 x h i hc.1 _)
    · exact ih _ _ h

theorem maskArg_lt {cur : Nat} (hc : cur < 64) {a : Arg} {m : Nat} (h : maskArg cur a = some m) : m < 64 := by
  cases a with
  | b v => simp only [maskArg, Option.some.injEq] at h; subst h; split <;> decide
  | i v => simp only [maskArg, Option.some.injEq] at h; subst h; omega
  | l vs => simp only [maskArg, Option.some.injEq] at h; subst h; exact applyList_lt vs 0 cur hc
  | other => simp [maskArg] at h

theorem withDynpd_ok {r : Radio} (h : CfgOk r) {m : Nat} (hm : m < 64) : CfgOk (withDynpd r m) :=
  (h.set_dynpd hm).set_feature (ok_bits3 _ h.feature 2 (by decide) _)

theorem replicate_ok (n : Nat) (hn : 1 ≤ n ∧ n ≤ 32) :
    (List.replicate 6 n).length = 6 ∧ ∀ x ∈ List.replicate 6 n, 1 ≤ x ∧ x ≤ 32 := by
  refine ⟨by simp, ?_⟩
  intro x hx
  rw [List.eq_of_mem_replicate hx]; exact hn

theorem plList_ok (vs : List Int) : ∀ (i : Nat) (pw : List Nat), pw.length = 6 → (∀ x ∈ pw, 1 ≤ x ∧ x ≤ 32) →
    (plList pw i vs).length = 6 ∧ ∀ x ∈ plList pw i vs, 1 ≤ x ∧ x ≤ 32 := by
  induction vs with
  | nil => intro i pw h1 h2; exact ⟨h1, h2⟩
  | cons v rest ih =>
    intro i pw h1 h2
    unfold plList
    split
    · refine ih _ _ (by simp [h1]) ?_
      intro x hx
      rcases List.mem_or_eq_of_mem_set hx with h3 | h3
      · exact h2 x h3
      · subst h3; exact clampPl v
    · exact ih _ _ h1 h2

theorem enterRx_ok {r : Radio} (h : CfgOk r) {u : Option Bytes} (hu : P0Ok u) : CfgOk (enterRx r u) := by
  unfold enterRx
  refine (((h.set_ce true).set_config (ok_bits7 _ (ok_bits7 _ h.config 1 (by decide) _) 0 (by decide) _)).set_a0
    ?_).set_enRxAddr ?_
  · cases u with
    | none => exact h.a0
    | some a =>
      obtain ⟨-, hl, hw⟩ := hu a rfl
      exact writeAddr_ok h.a0 hl hw
  · cases u with
    | none => exact ok_bits6 _ h.enRxAddr 0 (by decide) _
    | some a => exact h.enRxAddr

/-- the documented effect of a call keeps the abstract state well-formed -/
theorem docStep_ok (c : Call) (a a' : CfgSt) (ret : Ret) (hr : CfgOk a.r) (hu : P0Ok a.user0)
    (hd : c.dom a.r.plus) (h : docStep c a = .ok (a', ret)) : CfgOk a'.r ∧ P0Ok a'.user0 := by
  cases c with
  | getChannel | getDataRate | getPaLevel | isLnaEnabled | getCrc | getAddressLength | getArd | getArc
  | getAutoRetries | getAutoAck | getDynamicPayloads | getPayloadLengthAttr | getAck | getAllowAskNoAck
  | getPower | getListen | isPlusVariant =>
    cases h; exact ⟨hr, hu⟩
  | setChannel ch =>
    simp only [docStep] at h
    split at h
    · rename_i hc; cases h; exact ⟨hr.set_rfCh (by omega), hu⟩
    · cases h
  | setDataRate v =>
    simp only [docStep] at h
    split at h
    · cases h
      have h1 := ok_rf _ hr.rfSetup.1 hr.rfSetup.2 5 (by decide) (by decide) (decide (v = 250))
      exact ⟨hr.set_rfSetup (ok_rf _ h1.1 h1.2 3 (by decide) (by decide) _), hu⟩
    · cases h
  | setPaLevel x =>
    simp only [docStep] at h
    cases x with
    | i v =>
      simp only at h
      split at h
      · rename_i hl
        cases h
        have h1 := ok_rf_pa _ hr.rfSetup.1 hr.rfSetup.2 _ (pa_codes v hl).2
        exact ⟨hr.set_rfSetup (ok_rf _ h1.1 h1.2 0 (by decide) (by decide) _), hu⟩
      · cases h
    | b v =>
      simp only at h
      split at h
      · cases h
      · cases h
        have h1 := ok_rf_pa _ hr.rfSetup.1 hr.rfSetup.2 _ (pa_codes 0 (by decide)).2
        exact ⟨hr.set_rfSetup (ok_rf _ h1.1 h1.2 0 (by decide) (by decide) _), hu⟩
    | l vs => cases h
    | other => cases h
  | setPaLevelLna v l =>
    simp only [docStep] at h
    split at h
    · rename_i hl
      cases h
      have h1 := ok_rf_pa _ hr.rfSetup.1 hr.rfSetup.2 _ (pa_codes v hl).2
      exact ⟨hr.set_rfSetup (ok_rf _ h1.1 h1.2 0 (by decide) (by decide) _), hu⟩
    · cases h
  | setCrc n =>
    cases h
    exact ⟨hr.set_config (ok_bits7 _ (ok_bits7 _ hr.config 3 (by decide) _) 2 (by decide) _), hu⟩
  | setAddressLength n =>
    simp only [docStep] at h
    split at h
    · cases h; exact ⟨hr.set_setupAw (by omega), hu⟩
    · cases h; exact ⟨(hr.set_setupAw (by decide : 0 < 4)).set_log, hu⟩
  | setArd d => cases h; exact ⟨hr.set_setupRetr (ok_retr _ hr.setupRetr _ (ardCode_lt d)).2, hu⟩
  | setArc n => cases h; exact ⟨hr.set_setupRetr (ok_retr _ hr.setupRetr _ (arcCode_lt n)).1, hu⟩
  | setAutoRetries d n =>
    cases h
    exact ⟨hr.set_setupRetr (by have := ardCode_lt d; have := arcCode_lt n; omega), hu⟩
  | setAutoAckAttr x =>
    simp only [docStep] at h
    split at h
    · rename_i m hm; cases h; exact ⟨hr.set_enAA (maskArg_lt hr.enAA hm), hu⟩
    · cases h
  | setAutoAck e p =>
    simp only [docStep] at h
    cases p with
    | none => simp only at h; cases h; exact ⟨hr.set_enAA (by split <;> decide), hu⟩
    | some p =>
      simp only at h
      split at h
      · rename_i hp
        have hp' : 0 ≤ p ∧ p ≤ 5 := hp
        cases h; exact ⟨hr.set_enAA (ok_bits6 _ hr.enAA _ (by omega) _), hu⟩
      · cases h
  | getAutoAckPipe p | getDynamicPayloadsPipe p | getPayloadLength p =>
    simp only [docStep] at h
    split at h
    · cases h; exact ⟨hr, hu⟩
    · cases h
  | setDynamicPayloadsAttr x =>
    simp only [docStep] at h
    split at h
    · rename_i m hm; cases h; exact ⟨withDynpd_ok hr (maskArg_lt hr.dynpd hm), hu⟩
    · cases h
  | setDynamicPayloads e p =>
    simp only [docStep] at h
    cases p with
    | none => simp only at h; cases h; exact ⟨withDynpd_ok hr (by split <;> decide), hu⟩
    | some p =>
      simp only at h
      split at h
      · rename_i hp
        have hp' : 0 ≤ p ∧ p ≤ 5 := hp
        cases h; exact ⟨withDynpd_ok hr (ok_bits6 _ hr.dynpd _ (by omega) _), hu⟩
      · cases h
  | setPayloadLengthAttr x =>
    simp only [docStep] at h
    cases x with
    | i v =>
      simp only [plArg] at h; cases h
      exact ⟨hr.set_rxPw (replicate_ok _ (clampPl v)).1 (replicate_ok _ (clampPl v)).2, hu⟩
    | b v =>
      simp only [plArg] at h; cases h
      exact ⟨hr.set_rxPw (replicate_ok _ (clampPl _)).1 (replicate_ok _ (clampPl _)).2, hu⟩
    | l vs =>
      simp only [plArg] at h; cases h
      exact ⟨hr.set_rxPw (plList_ok vs 0 _ hr.rxPwLen hr.rxPw).1 (plList_ok vs 0 _ hr.rxPwLen hr.rxPw).2, hu⟩
    | other => simp only [plArg] at h; cases h
  | setPayloadLength l p =>
    simp only [docStep] at h
    cases p with
    | none =>
      simp only at h; cases h
      exact ⟨hr.set_rxPw (replicate_ok _ (clampPl l)).1 (replicate_ok _ (clampPl l)).2, hu⟩
    | some p =>
      simp only at h
      split at h
      · cases h; exact ⟨hr.rxPw_set _ _ (clampPl l), hu⟩
      · cases h
  | setAck e =>
    simp only [docStep] at h
    split at h
    · cases h
      exact ⟨((hr.set_enAA (ok_bits6 _ hr.enAA 0 (by decide) _)).set_dynpd
        (ok_bits6 _ hr.dynpd 0 (by decide) _)).set_feature
        (ok_bits3 _ (ok_bits3 _ hr.feature 2 (by decide) _) 1 (by decide) _), hu⟩
    · cases h; exact ⟨hr.set_feature (ok_bits3 _ hr.feature 1 (by decide) _), hu⟩
  | setAllowAskNoAck e => cases h; exact ⟨hr.set_feature (ok_bits3 _ hr.feature 0 (by decide) _), hu⟩
  | interruptConfig dr ds df =>
    cases h
    exact ⟨hr.set_config (ok_bits7 _ (ok_bits7 _ (ok_bits7 _ hr.config 6 (by decide) _) 5 (by decide) _) 4
      (by decide) _), hu⟩
  | setPower on => cases h; exact ⟨hr.set_config (ok_bits7 _ hr.config 1 (by decide) _), hu⟩
  | setListen rx =>
    simp only [docStep] at h
    cases h
    refine ⟨?_, hu⟩
    cases rx
    · exact enterTx_ok hr
    · exact enterRx_ok hr hu
  | openRxPipe p addr =>
    simp only [docStep] at h
    split at h
    · cases h
    · split at h
      · cases h
      · rename_i hp he
        have hp' : 0 ≤ p ∧ p ≤ 5 := Classical.not_not.1 hp
        cases h
        have hen := ok_bits6 _ hr.enRxAddr p.toNat (by omega) true
        refine ⟨?_, ?_⟩
        · split
          · exact (hr.set_a0 (writeAddr_ok hr.a0 hd.1 hd.2)).set_enRxAddr hen
          · split
            · exact (hr.set_a1 (writeAddr_ok hr.a1 hd.1 hd.2)).set_enRxAddr hen
            · refine (hr.set_aN ⟨by simp [hr.aN.1], ?_⟩).set_enRxAddr hen
              intro x hx
              rcases List.mem_or_eq_of_mem_set hx with h3 | h3
              · exact hr.aN.2 x h3
              · subst h3; exact headD_lt hd.2
        · split
          · intro ra hra; cases hra; exact ⟨he, hd.1, hd.2⟩
          · exact hu
  | closeRxPipe p =>
    simp only [docStep] at h
    split at h
    · rename_i hp
      have hp' : 0 ≤ p ∧ p ≤ 5 := hp
      cases h
      refine ⟨hr.set_enRxAddr (ok_bits6 _ hr.enRxAddr _ (by omega) _), ?_⟩
      split
      · intro ra hra; cases hra
      · exact hu
    · cases h
  | openTxPipe addr =>
    simp only [docStep] at h
    cases h
    have ha0 : (if bitOf a.r.enAA 0 = true then writeAddr a.r.rxAddr0 addr else a.r.rxAddr0).length = 5 ∧
        Bytes.wf (if bitOf a.r.enAA 0 = true then writeAddr a.r.rxAddr0 addr else a.r.rxAddr0) := by
      split
      · exact writeAddr_ok hr.a0 hd.2.1 hd.2.2
      · exact hr.a0
    have hen : (if bitOf a.r.enAA 0 = true ∧ ¬ bitOf a.r.config 0 = true then setBit a.r.enRxAddr 0 true
        else a.r.enRxAddr) < 64 := by
      split
      · exact ok_bits6 _ hr.enRxAddr 0 (by decide) _
      · exact hr.enRxAddr
    exact ⟨((hr.set_tx (writeAddr_ok hr.tx hd.2.1 hd.2.2)).set_a0 ha0).set_enRxAddr hen, hu⟩
  | address i =>
    simp only [docStep] at h
    split at h
    · cases h
    · split at h <;> (cases h; exact ⟨hr, hu⟩)
  | startCarrierWave =>
    cases h
    have ht := enterTx_ok hr
    have h1 := ok_rf _ ht.rfSetup.1 ht.rfSetup.2 7 (by decide) (by decide) true
    exact ⟨(ht.set_rfSetup (ok_rf _ h1.1 h1.2 4 (by decide) (by decide) true)).set_ce true, hu⟩
  | stopCarrierWave =>
    cases h
    have h1 := ok_rf _ hr.rfSetup.1 hr.rfSetup.2 7 (by decide) (by decide) false
    exact ⟨((hr.set_ce false).set_config (ok_bits7 _ hr.config 1 (by decide) _)).set_rfSetup
      (ok_rf _ h1.1 h1.2 4 (by decide) (by decide) false), hu⟩

end Nrf
