/-
C03 per-method lemmas: the `listen` setter (CONFIG.PRIM_RX/PWR_UP, CE, pipe 0).
-/
import NrfProofs.C03.Pipes

namespace Nrf
open Rf24 Cfg

theorem bits_listen : ∀ c, c < 128 → ∀ b : Bool,
    c &&& 0xFC ||| (2 + Rf24.b2n b) = setBit (setBit c 1 true) 0 b ∧ setBit (setBit c 1 true) 0 b < 128 := by
  decide +kernel

theorem writeAddr_self (a : Bytes) (h : a.length = 5) : writeAddr a a = a := by
  unfold writeAddr; rw [List.drop_of_length_le (by omega)]; simp

theorem bit_false_of_ne_true {b : Bool} (h : ¬ b = true) : b = false := by simpa using h

/-- `listen = True` -/
theorem setListen_rx_post (s : DrvState) (h : Inv s) :
    Post (exec (setListen true) s) s (.ok ()) (enterRx s.cfg s.d.pipe0ReadAddr) s.d.pipe0ReadAddr := by
  have hb := bits_listen _ h.ok.config true
  have hO := bits_bit0 _ (Nat.lt_trans h.ok.enRxAddr (by decide))
  have hOc := bits_bit0_close _ h.ok.enRxAddr
  have hcfgd : s.d.config &&& 252 ||| 2 + Rf24.b2n true = setBit (setBit s.cfg.config 1 true) 0 true := by
    rw [h.cached.config]; exact hb.1
  unfold setListen address assignPrefix
  exec_simp [h.cached.config, hb.1]
  rw [exec_regWrite_nat3 _ _ _ (by omega) (by decide)]
  cases hra : s.d.pipe0ReadAddr with
  | some ra =>
    obtain ⟨hne, hlen, -⟩ := h.user0 ra hra
    have hgt : ¬ ra.length > 5 := by omega
    by_cases heq : ra = s.cfg.rxAddr0
    · exec_simp [hra, getPipes, Int.reduceGT, Int.reduceLT, Int.reduceLE, Int.reduceToNat, h.cached.pipes0, heq]
      refine Post.ite_sleep _ _ (Post.of_reach (by reach h.wf) h.wf ?_ (by rw [← heq]; exact hra) ?_)
      · rw [Radio.w_config _ _ hb.2 (.inl rfl)]
        unfold enterRx
        simp only [writeAddr_self _ h.ok.a0.1]
        rfl
      · unfold enterRx
        simp only [writeAddr_self _ h.ok.a0.1]
        exact { h.cached with config := hcfgd }
    · exec_simp [hra, getPipes, setPipes, Int.reduceGT, Int.reduceLT, Int.reduceLE, Int.reduceToNat, h.cached.pipes0, heq, overwritePrefix, h.ok.a0.1, hgt,
        exec_regWriteBytes]
      refine Post.ite_sleep _ _ (Post.of_reach (by reach h.wf) h.wf ?_ hra ?_)
      · rw [Radio.w_config _ _ hb.2 (.inl rfl), Radio.w_a0 _ _ hlen]
        rfl
      · unfold enterRx
        exact { h.cached with config := hcfgd, pipes0 := rfl }
  | none =>
    by_cases hopen : s.cfg.enRxAddr &&& 1 = 0
    · have hob : bitOf s.cfg.enRxAddr 0 = false := hO.2.1.1 hopen
      exec_simp [hra, getPipes, Int.reduceGT, Int.reduceLT, Int.reduceLE, Int.reduceToNat, h.cached.openPipes, hopen]
      refine Post.ite_sleep _ _ (Post.of_reach (by reach h.wf) h.wf ?_ hra ?_)
      · rw [Radio.w_config _ _ hb.2 (.inl rfl)]
        unfold enterRx
        simp only [hO.2.2.2.2 hob]
        rfl
      · unfold enterRx
        simp only [hO.2.2.2.2 hob]
        exact { h.cached with config := hcfgd }
    · exec_simp [hra, getPipes, Int.reduceGT, Int.reduceLT, Int.reduceLE, Int.reduceToNat, h.cached.openPipes, hopen, hOc.1]
      rw [exec_regWrite_nat3 _ _ _ (by omega) (by decide)]
      exec_simp []
      refine Post.ite_sleep _ _ (Post.of_reach (by reach h.wf) h.wf ?_ hra ?_)
      · rw [Radio.w_config _ _ hb.2 (.inl rfl), Radio.w_enRxAddr _ _ hOc.2]
        rfl
      · unfold enterRx
        refine { h.cached with config := hcfgd, openPipes := ?_ }
        show s.d.openPipes &&& 62 = _
        rw [h.cached.openPipes]; exact hOc.1

/-- `listen = False` -/
theorem setListen_tx_post (s : DrvState) (h : Inv s) :
    Post (exec (setListen false) s) s (.ok ()) (enterTx s.cfg) s.d.pipe0ReadAddr := by
  have hb := bits_listen _ h.ok.config false
  have hA := bits_bit0 _ (Nat.lt_trans h.ok.enAA (by decide))
  have hO := bits_bit0 _ (Nat.lt_trans h.ok.enRxAddr (by decide))
  have hOlt := (bits_pipe2 _ h.ok.enRxAddr 0 (by decide)).2.2.2
  have hcfgd : s.d.config &&& 252 ||| 2 + Rf24.b2n false = setBit (setBit s.cfg.config 1 true) 0 false := by
    rw [h.cached.config]; exact hb.1
  unfold setListen flushTx
  exec_simp [h.cached.config, hb.1, Bool.false_eq_true]
  rw [exec_regWrite_nat3 _ _ _ (by omega) (by decide)]
  by_cases hopen : ¬ s.cfg.enAA &&& 1 = 0 ∧ s.cfg.enRxAddr &&& 1 = 0
  · have hAb : bitOf s.cfg.enAA 0 = true := hA.1.1 hopen.1
    by_cases hfl : s.cfg.feature &&& 6 = 6 ∧ ¬ s.cfg.enAA &&& s.cfg.dynpd &&& 1 = 0
    all_goals
      exec_simp [Bool.false_eq_true, h.cached.features, h.cached.aa, h.cached.dynPl, h.cached.openPipes, hfl, hopen.1,
        hopen.2, exec_regCmd, hO.2.2.1]
      rw [exec_regWrite_nat3 _ _ _ (by omega) (by decide)]
      exec_simp []
      refine Post.ite_sleep _ _ (Post.of_reach (by reach h.wf) h.wf ?_ rfl ?_)
      · rw [Radio.w_config _ _ hb.2 (.inl rfl), Radio.w_enRxAddr _ _ hOlt]
        unfold enterTx
        simp only [hAb, ↓reduceIte]
        rfl
      · unfold enterTx
        simp only [hAb, ↓reduceIte]
        refine { h.cached with config := hcfgd, openPipes := ?_ }
        show s.d.openPipes ||| 1 = _
        rw [h.cached.openPipes]; exact hO.2.2.1
  · have hsame : (if bitOf s.cfg.enAA 0 = true then setBit s.cfg.enRxAddr 0 true else s.cfg.enRxAddr)
        = s.cfg.enRxAddr := by
      by_cases hAb : bitOf s.cfg.enAA 0 = true
      · have h1 : ¬ s.cfg.enAA &&& 1 = 0 := hA.1.2 hAb
        have h2 : ¬ s.cfg.enRxAddr &&& 1 = 0 := fun h3 => hopen ⟨h1, h3⟩
        have hob : bitOf s.cfg.enRxAddr 0 = true := by
          cases hbo : bitOf s.cfg.enRxAddr 0
          · exact absurd (hO.2.1.2 hbo) h2
          · rfl
        simp [hAb, hO.2.2.2.1 hob]
      · simp [hAb]
    by_cases hfl : s.cfg.feature &&& 6 = 6 ∧ ¬ s.cfg.enAA &&& s.cfg.dynpd &&& 1 = 0
    all_goals
      exec_simp [Bool.false_eq_true, h.cached.features, h.cached.aa, h.cached.dynPl, h.cached.openPipes, hfl, hopen,
        exec_regCmd]
      refine Post.ite_sleep _ _ (Post.of_reach (by reach h.wf) h.wf ?_ rfl ?_)
      · rw [Radio.w_config _ _ hb.2 (.inl rfl)]
        unfold enterTx
        rw [hsame]
        rfl
      · unfold enterTx
        rw [hsame]
        exact { h.cached with config := hcfgd }

end Nrf
