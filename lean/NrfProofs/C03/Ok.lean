/-
C03: the range invariant `CfgOk` is preserved by every in-range register update.
-/
import NrfProofs.C03.Base

namespace Nrf.Cfg.CfgOk
open Nrf Cfg

variable {r : Radio}

theorem set_config (h : CfgOk r) {v : Nat} (hv : v < 128) : CfgOk { r with config := v } := { h with config := hv }
theorem set_enAA (h : CfgOk r) {v : Nat} (hv : v < 64) : CfgOk { r with enAA := v } := { h with enAA := hv }
theorem set_enRxAddr (h : CfgOk r) {v : Nat} (hv : v < 64) : CfgOk { r with enRxAddr := v } :=
  { h with enRxAddr := hv }
theorem set_setupAw (h : CfgOk r) {v : Nat} (hv : v < 4) : CfgOk { r with setupAw := v } := { h with setupAw := hv }
theorem set_setupRetr (h : CfgOk r) {v : Nat} (hv : v < 256) : CfgOk { r with setupRetr := v } :=
  { h with setupRetr := hv }
theorem set_rfCh (h : CfgOk r) {v : Nat} (hv : v ≤ 125) : CfgOk { r with rfCh := v } := { h with rfCh := hv }
theorem set_rfSetup (h : CfgOk r) {v : Nat} (hv : v < 256 ∧ bitOf v 6 = false) : CfgOk { r with rfSetup := v } :=
  { h with rfSetup := hv }
theorem set_dynpd (h : CfgOk r) {v : Nat} (hv : v < 64) : CfgOk { r with dynpd := v } := { h with dynpd := hv }
theorem set_feature (h : CfgOk r) {v : Nat} (hv : v < 8) : CfgOk { r with feature := v } := { h with feature := hv }
theorem set_ce (h : CfgOk r) (v : Bool) : CfgOk { r with ce := v } := { h with }
theorem set_rxPw (h : CfgOk r) {l : List Nat} (hl : l.length = 6) (hr : ∀ x ∈ l, 1 ≤ x ∧ x ≤ 32) :
    CfgOk { r with rxPw := l } := { h with rxPwLen := hl, rxPw := hr }
theorem set_a0 (h : CfgOk r) {b : Bytes} (hb : b.length = 5 ∧ Bytes.wf b) : CfgOk { r with rxAddr0 := b } :=
  { h with a0 := hb }
theorem set_a1 (h : CfgOk r) {b : Bytes} (hb : b.length = 5 ∧ Bytes.wf b) : CfgOk { r with rxAddr1 := b } :=
  { h with a1 := hb }
theorem set_aN (h : CfgOk r) {b : List Nat} (hb : b.length = 4 ∧ Bytes.wf b) : CfgOk { r with rxAddrN := b } :=
  { h with aN := hb }
theorem set_tx (h : CfgOk r) {b : Bytes} (hb : b.length = 5 ∧ Bytes.wf b) : CfgOk { r with txAddr := b } :=
  { h with tx := hb }

theorem logOk_append {l : List String} (h : LogOk l) : LogOk (l ++ ["SETUP_AW:illegal:0"]) := by
  intro e he
  rcases List.mem_append.1 he with h1 | h1
  · exact h e h1
  · left; simpa using h1

theorem set_log (h : CfgOk r) : CfgOk { r with violations := r.violations ++ ["SETUP_AW:illegal:0"] } :=
  { h with log := logOk_append h.log }

/-- replacing one static payload length by an in-range value -/
theorem rxPw_set (h : CfgOk r) (p n : Nat) (hn : 1 ≤ n ∧ n ≤ 32) : CfgOk { r with rxPw := r.rxPw.set p n } := by
  refine h.set_rxPw (by simp [h.rxPwLen]) ?_
  intro x hx
  rcases List.mem_or_eq_of_mem_set hx with h1 | h1
  · exact h.rxPw x h1
  · subst h1; exact hn

end Nrf.Cfg.CfgOk
