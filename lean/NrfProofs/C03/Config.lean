/-
C03 per-method lemmas: CONFIG (`crc`, `power`, `interrupt_config`, `listen` getter) and SETUP_AW
(`address_length`).
-/
import NrfProofs.C03.Base

namespace Nrf
open Rf24 Cfg

theorem bits_crc : ∀ x, x < 128 → ∀ l, l < 3 →
    x &&& 0x73 ||| (if l ≠ 0 then (l + 1) <<< 2 else 0) = setBit (setBit x 3 (decide (l ≠ 0))) 2 (decide (l = 2)) ∧
    x &&& 0x73 ||| (if l ≠ 0 then (l + 1) <<< 2 else 0) < 128 ∧
    (x &&& 0x73 ||| (if l ≠ 0 then (l + 1) <<< 2 else 0)) &&& 1 = x &&& 1 := by decide +kernel

theorem bits_crc_get : ∀ c, c < 128 → ∀ a, a < 64 →
    (if a ≠ 0 then (if c &&& 4 ≠ 0 then 2 else 1) else ((c &&& 0x0C) >>> 2) - 1) = crcOf c a := by
  decide +kernel

theorem bits_power : ∀ x, x < 128 → ∀ b : Bool,
    x &&& 0x7D ||| (Rf24.b2n b <<< 1) = setBit x 1 b ∧ x &&& 0x7D ||| (Rf24.b2n b <<< 1) < 128 ∧
    (x &&& 0x7D ||| (Rf24.b2n b <<< 1)) &&& 1 = x &&& 1 := by decide +kernel

theorem bits_config_get : ∀ x, x < 128 →
    decide (x &&& 2 ≠ 0) = bitOf x 1 ∧ decide (x &&& 1 ≠ 0) = bitOf x 0 := by decide +kernel

theorem bits_irq : ∀ x, x < 128 → ∀ dr ds df : Bool,
    (x &&& 0x0F) ||| (Rf24.b2n (!dr) <<< 6) ||| (Rf24.b2n (!df) <<< 4) ||| (Rf24.b2n (!ds) <<< 5)
      = setBit (setBit (setBit x 6 (!dr)) 5 (!ds)) 4 (!df) ∧
    (x &&& 0x0F) ||| (Rf24.b2n (!dr) <<< 6) ||| (Rf24.b2n (!df) <<< 4) ||| (Rf24.b2n (!ds) <<< 5) < 128 ∧
    ((x &&& 0x0F) ||| (Rf24.b2n (!dr) <<< 6) ||| (Rf24.b2n (!df) <<< 4) ||| (Rf24.b2n (!ds) <<< 5)) &&& 1 = x &&& 1 := by
  decide +kernel

theorem crcLen_eq (n : Int) : (min 2 (max 0 n)).toNat = clampI 0 2 n ∧ clampI 0 2 n < 3 := by
  unfold clampI; omega

/-! ### crc -/

theorem setCrc_post (n : Int) (s : DrvState) (h : Inv s) :
    Post (exec (setCrc n) s) s (.ok ()) { s.cfg with config := setCrcBits s.cfg.config n } s.d.pipe0ReadAddr := by
  have hb := bits_crc _ h.ok.config _ (crcLen_eq n).2
  unfold setCrc
  exec_simp [(crcLen_eq n).1]
  rw [h.cached.config, exec_regWrite_nat3 _ _ _ (Nat.lt_trans hb.2.1 (by decide)) (by decide)]
  refine write_tail h (by steps) (modShadow_cfg _ _ rfl) (by decide) ?_ rfl ?_
  · rw [Radio.w_config _ _ hb.2.1 (.inr hb.2.2), hb.1]; rfl
  · refine { h.cached with config := ?_ }
    show s.d.config &&& 115 ||| (if clampI 0 2 n ≠ 0 then (clampI 0 2 n + 1) <<< 2 else 0) = _
    rw [h.cached.config]; exact hb.1

theorem getCrc_post (s : DrvState) (h : Inv s) :
    Post (exec getCrc s) s (.ok (crcOf s.cfg.config s.cfg.enAA)) s.cfg s.d.pipe0ReadAddr := by
  unfold getCrc
  exec_simp [readVal_config, readVal_enAA, spiStep_read_cfg s 0 [0] h.wf (by decide), ite_pair_same]
  have hres : (if ¬s.cfg.enAA = 0 then (Except.ok (if ¬s.cfg.config &&& 4 = 0 then 2 else 1) : Except PyErr Nat)
      else Except.ok ((s.cfg.config &&& 12) >>> 2 - 1)) = Except.ok (crcOf s.cfg.config s.cfg.enAA) := by
    rw [← bits_crc_get _ h.ok.config _ h.ok.enAA]
    by_cases ha : s.cfg.enAA = 0 <;> simp [ha]
  rw [hres]
  refine Post.of_steps (by steps) h.wf ?_ rfl ?_
  · rw [modShadow_cfg _ _ rfl, spiStep_read_cfg _ _ _ (by wf_of h.wf) (by decide),
      spiStep_read_cfg _ _ _ h.wf (by decide)]
  · exact { h.cached with config := rfl, aa := rfl }

/-! ### power -/

theorem setPower_post (b : Bool) (s : DrvState) (h : Inv s) :
    Post (exec (setPower b) s) s (.ok ()) { s.cfg with config := setBit s.cfg.config 1 b } s.d.pipe0ReadAddr := by
  have hb := bits_power _ h.ok.config b
  unfold setPower
  exec_simp [readVal_config]
  rw [exec_regWrite_nat3 _ _ _ (Nat.lt_trans hb.2.1 (by decide)) (by decide)]
  exec_simp []
  refine Post.sleep _ (write_tail h (by steps) ?_ (by decide) ?_ rfl ?_)
  · rw [modShadow_cfg _ _ rfl, spiStep_read_cfg _ _ _ h.wf (by decide)]
  · rw [Radio.w_config _ _ hb.2.1 (.inr hb.2.2), hb.1]; rfl
  · exact { h.cached with config := hb.1 }

theorem getPower_post (s : DrvState) (h : Inv s) :
    Post (exec getPower s) s (.ok (bitOf s.cfg.config 1)) s.cfg s.d.pipe0ReadAddr := by
  unfold getPower
  exec_simp [readVal_config]
  rw [← (bits_config_get _ h.ok.config).1]
  refine Post.of_steps (by steps) h.wf ?_ rfl ?_
  · rw [modShadow_cfg _ _ rfl, spiStep_read_cfg _ _ _ h.wf (by decide)]
  · exact { h.cached with config := rfl }

theorem getListen_post (s : DrvState) (h : Inv s) :
    Post (exec getListen s) s (.ok (bitOf s.cfg.config 1 && bitOf s.cfg.config 0)) s.cfg s.d.pipe0ReadAddr := by
  unfold getListen getPower
  exec_simp [readVal_config]
  rw [← (bits_config_get _ h.ok.config).1, ← (bits_config_get _ h.ok.config).2]
  refine Post.of_steps (by steps) h.wf ?_ rfl ?_
  · rw [modShadow_cfg _ _ rfl, spiStep_read_cfg _ _ _ h.wf (by decide)]
  · exact { h.cached with config := rfl }

/-! ### interrupt_config -/

theorem interruptConfig_post (dr ds df : Bool) (s : DrvState) (h : Inv s) :
    Post (exec (interruptConfig dr ds df) s) s (.ok ())
      { s.cfg with config := setBit (setBit (setBit s.cfg.config 6 (!dr)) 5 (!ds)) 4 (!df) } s.d.pipe0ReadAddr := by
  have hb := bits_irq _ h.ok.config dr ds df
  unfold interruptConfig
  exec_simp [readVal_config]
  rw [exec_regWrite_nat3 _ _ _ (Nat.lt_trans hb.2.1 (by decide)) (by decide)]
  refine write_tail h (by steps) ?_ (by decide) ?_ rfl ?_
  · rw [modShadow_cfg _ _ rfl, modShadow_cfg _ _ rfl, spiStep_read_cfg _ _ _ h.wf (by decide)]
  · rw [Radio.w_config _ _ hb.2.1 (.inr hb.2.2), hb.1]; rfl
  · exact { h.cached with config := hb.1 }

/-! ### address_length -/

theorem getAddressLength_post (s : DrvState) (h : Inv s) :
    Post (exec getAddressLength s) s (.ok (s.cfg.setupAw + 2)) s.cfg s.d.pipe0ReadAddr := by
  unfold getAddressLength
  exec_simp [readVal_setupAw]
  refine Post.of_steps (by steps) h.wf ?_ rfl ?_
  · rw [modShadow_cfg _ _ rfl, spiStep_read_cfg _ _ _ h.wf (by decide)]
  · exact { h.cached with addrLen := rfl }

theorem setAddressLength_post (n : Int) (s : DrvState) (h : Inv s) (hn : 3 ≤ n ∧ n ≤ 5) :
    Post (exec (setAddressLength n) s) s (.ok ()) { s.cfg with setupAw := n.toNat - 2 } s.d.pipe0ReadAddr := by
  unfold setAddressLength
  exec_simp [hn]
  rw [exec_regWrite_nat3 _ _ _ (by omega) (by decide)]
  refine write_tail h (by steps) (modShadow_cfg _ _ rfl) (by decide) ?_ rfl ?_
  · rw [Radio.w_setupAw _ _ (by omega) (by omega)]; rfl
  · refine { h.cached with addrLen := ?_ }
    show n.toNat = n.toNat - 2 + 2
    omega

theorem setAddressLength_bad_post (n : Int) (s : DrvState) (h : Inv s) (hn : ¬ (3 ≤ n ∧ n ≤ 5)) :
    Post (exec (setAddressLength n) s) s (.ok ())
      { s.cfg with setupAw := 0, violations := s.cfg.violations ++ ["SETUP_AW:illegal:0"] } s.d.pipe0ReadAddr := by
  unfold setAddressLength
  exec_simp [hn]
  rw [exec_regWrite_nat3 _ _ _ (by omega) (by decide)]
  refine write_tail h (by steps) (modShadow_cfg _ _ rfl) (by decide) ?_ rfl ?_
  · rw [show (2 - 2 : Nat) = 0 from rfl, Radio.w_setupAw0]; rfl
  · exact { h.cached with addrLen := rfl }

end Nrf
