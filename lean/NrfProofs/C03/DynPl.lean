/-
C03 per-method lemmas: DYNPD + FEATURE.EN_DPL (`dynamic_payloads`, `set_dynamic_payloads`,
`get_dynamic_payloads`).
-/
import NrfProofs.C03.AutoAck

namespace Nrf
open Rf24 Cfg

theorem bits_dpl : ∀ f, f < 8 → ∀ b : Bool,
    (f &&& 3) ||| (Rf24.b2n b <<< 2) = setBit f 2 b ∧ setBit f 2 b < 8 := by decide +kernel

theorem getDynamicPayloads_post (s : DrvState) (h : Inv s) :
    Post (exec getDynamicPayloads s) s (.ok s.cfg.dynpd) s.cfg s.d.pipe0ReadAddr := by
  unfold getDynamicPayloads
  exec_simp [readVal_dynpd s h.ok.vis]
  refine Post.of_reach (by reach h.wf) h.wf rfl rfl ?_
  exact { h.cached with dynPl := rfl }

/-- the state shape every DYNPD setter ends in: FEATURE then DYNPD are written -/
theorem dyn_write {s t : DrvState} (h : Inv s) {c : Radio} (hr : Reach3 s t c) (hc : c = s.cfg) (m : Nat)
    (hm : m < 64) (hd : Cached t.d (withDynpd s.cfg m)) :
    Post ((.ok () : Except PyErr Unit),
        (t.spiStep [0x20 ||| 0x1D, setBit s.cfg.feature 2 (decide (m ≠ 0))]).spiStep [0x20 ||| 0x1C, m])
      s (.ok ()) (withDynpd s.cfg m) t.d.pipe0ReadAddr := by
  have hb := bits_dpl _ h.ok.feature (decide (m ≠ 0))
  refine Post.of_reach (Reach3.write h.wf _ _ (by decide) (Reach3.write h.wf _ _ (by decide) hr)) h.wf ?_ rfl
    { hd with }
  subst hc
  rw [Radio.w_feature _ _ hb.2 h.ok.vis, Radio.w_dynpd _ _ hm (by exact h.ok.vis)]
  rfl

theorem setDynamicPayloadsAttr_post (a : Arg) (m : Nat) (s : DrvState) (h : Inv s)
    (ha : maskArg s.cfg.dynpd a = some m) :
    Post (exec (setDynamicPayloadsAttr a) s) s (.ok ()) (withDynpd s.cfg m) s.d.pipe0ReadAddr := by
  have hf : ∀ b : Bool, s.cfg.feature &&& 3 ||| Rf24.b2n b <<< 2 = setBit s.cfg.feature 2 b :=
    fun b => (bits_dpl _ h.ok.feature b).1
  have hf8 : ∀ b : Bool, setBit s.cfg.feature 2 b < 256 :=
    fun b => Nat.lt_trans (bits_dpl _ h.ok.feature b).2 (by decide)
  unfold setDynamicPayloadsAttr
  cases a with
  | b v =>
    have hm : m = if v then 0x3F else 0 := by simpa [maskArg] using ha.symm
    subst hm
    exec_simp [readVal_feature s h.ok.vis, hf]
    rw [exec_regWrite_nat3 _ _ _ (hf8 _) (by decide)]
    exec_simp []
    rw [exec_regWrite_nat3 _ _ _ (by split <;> decide) (by decide)]
    refine dyn_write h (by reach h.wf) rfl _ (by split <;> decide) ?_
    exact { h.cached with dynPl := rfl, features := hf _ }
  | i v =>
    have hm : m = (v % 64).toNat := by simpa [maskArg] using ha.symm
    subst hm
    exec_simp [readVal_feature s h.ok.vis, hf]
    rw [exec_regWrite_nat3 _ _ _ (hf8 _) (by decide)]
    exec_simp []
    rw [exec_regWrite_nat3 _ _ _ (by omega) (by decide)]
    refine dyn_write h (by reach h.wf) rfl _ (mod64 v) ?_
    exact { h.cached with dynPl := rfl, features := hf _ }
  | l vs =>
    have hl := applyBitList_eq s.cfg.dynpd vs h.ok.dynpd
    have hm : m = applyList s.cfg.dynpd 0 vs := by simpa [maskArg] using ha.symm
    subst hm
    exec_simp [h.wf, readVal_feature s h.ok.vis,
      readVal_dynpd s h.ok.vis, hl.1, hf]
    rw [exec_regWrite_nat3 _ _ _ (hf8 _) (by decide)]
    exec_simp []
    rw [exec_regWrite_nat3 _ _ _ (by omega) (by decide)]
    refine dyn_write h (by reach h.wf) rfl _ hl.2 ?_
    exact { h.cached with dynPl := rfl, features := hf _ }
  | other => simp [maskArg] at ha

theorem setDynamicPayloadsAttr_bad_post (s : DrvState) (h : Inv s) :
    Post (exec (setDynamicPayloadsAttr .other) s) s (.error .valueError) s.cfg s.d.pipe0ReadAddr := by
  unfold setDynamicPayloadsAttr
  exec_simp [readVal_feature s h.ok.vis]
  refine Post.unchanged h (by steps) ?_ ?_ rfl
  · rw [modShadow_cfg _ _ rfl, spiStep_read_cfg _ _ _ h.wf (by decide)]
  · exact { h.cached with features := rfl }

theorem setDynamicPayloads_all_post (e : Bool) (s : DrvState) (h : Inv s) :
    Post (exec (setDynamicPayloads e none) s) s (.ok ()) (withDynpd s.cfg (if e then 0x3F else 0))
      s.d.pipe0ReadAddr :=
  setDynamicPayloadsAttr_post (.b e) _ s h rfl

theorem setDynamicPayloads_pipe_post (e : Bool) (p : Int) (s : DrvState) (h : Inv s) (hp : pipeOk p) :
    Post (exec (setDynamicPayloads e (some p)) s) s (.ok ()) (withDynpd s.cfg (setBit s.cfg.dynpd p.toNat e))
      s.d.pipe0ReadAddr := by
  have hp' : 0 ≤ p ∧ p ≤ 5 := hp
  have hb := bits_pipe _ h.ok.dynpd p.toNat (by omega) e
  have hf : ∀ b : Bool, s.cfg.feature &&& 3 ||| Rf24.b2n b <<< 2 = setBit s.cfg.feature 2 b :=
    fun b => (bits_dpl _ h.ok.feature b).1
  have hf8 : ∀ b : Bool, setBit s.cfg.feature 2 b < 256 :=
    fun b => Nat.lt_trans (bits_dpl _ h.ok.feature b).2 (by decide)
  unfold setDynamicPayloads setDynamicPayloadsAttr
  exec_simp [hp', h.wf, readVal_dynpd s h.ok.vis, readVal_feature s h.ok.vis, hb.1, cast_mod643 _ hb.2.1, hf]
  rw [exec_regWrite_nat3 _ _ _ (hf8 _) (by decide)]
  exec_simp []
  rw [exec_regWrite_nat3 _ _ _ (by omega) (by decide)]
  refine dyn_write h (by reach h.wf) rfl _ hb.2.1 ?_
  exact { h.cached with dynPl := rfl, features := hf _ }

theorem setDynamicPayloads_bad_post (e : Bool) (p : Int) (s : DrvState) (h : Inv s) (hp : ¬ pipeOk p) :
    Post (exec (setDynamicPayloads e (some p)) s) s (.error .indexError) s.cfg s.d.pipe0ReadAddr := by
  have hp' : ¬ (0 ≤ p ∧ p ≤ 5) := hp
  unfold setDynamicPayloads
  exec_simp [hp']
  exact Post.unchanged h .refl rfl h.cached rfl

theorem getDynamicPayloadsPipe_post (p : Int) (s : DrvState) (h : Inv s) (hp : pipeOk p) :
    Post (exec (getDynamicPayloadsPipe p) s) s (.ok (bitOf s.cfg.dynpd p.toNat)) s.cfg s.d.pipe0ReadAddr := by
  have hp' : 0 ≤ p ∧ p ≤ 5 := hp
  have hb := bits_pipe _ h.ok.dynpd p.toNat (by omega) true
  unfold getDynamicPayloadsPipe getDynamicPayloads
  exec_simp [hp', readVal_dynpd s h.ok.vis]
  rw [← hb.2.2]
  refine Post.of_reach (by reach h.wf) h.wf rfl rfl ?_
  exact { h.cached with dynPl := rfl }

theorem getDynamicPayloadsPipe_bad_post (p : Int) (s : DrvState) (h : Inv s) (hp : ¬ pipeOk p) :
    Post (exec (getDynamicPayloadsPipe p) s) s (.error .indexError) s.cfg s.d.pipe0ReadAddr := by
  have hp' : ¬ (0 ≤ p ∧ p ≤ 5) := hp
  unfold getDynamicPayloadsPipe
  exec_simp [hp']
  exact Post.unchanged h .refl rfl h.cached rfl

end Nrf
