/-
C03 per-method lemmas: `open_rx_pipe`, `close_rx_pipe`, `open_tx_pipe`, `address`.
-/
import NrfProofs.C03.Ok
import NrfProofs.C03.AutoAck

namespace Nrf
open Rf24 Cfg

theorem bits_pipe2 : ∀ x, x < 64 → ∀ p, p < 6 →
    andNot x (1 <<< p) = setBit x p false ∧ x ||| (1 <<< p) = setBit x p true ∧
    setBit x p false < 64 ∧ setBit x p true < 64 := by decide +kernel

theorem pipe_cases (p : Int) (hp : pipeOk p) : p = 0 ∨ p = 1 ∨ p = 2 ∨ p = 3 ∨ p = 4 ∨ p = 5 := by
  have : 0 ≤ p ∧ p ≤ 5 := hp
  omega

/-! ### address -/

theorem address_post (i : Int) (s : DrvState) (h : Inv s) (hi : ¬ i > 5) :
    Post (exec (address i) s) s
      (.ok (if i < 0 then s.cfg.txAddr else pipeAddr s.cfg i.toNat)) s.cfg s.d.pipe0ReadAddr := by
  unfold address
  by_cases hneg : i < 0
  · exec_simp [hi, hneg, h.cached.txAddress]
    exact Post.unchanged h .refl rfl h.cached rfl
  · by_cases h1 : i ≤ 1
    · have : i = 0 ∨ i = 1 := by omega
      rcases this with rfl | rfl
      · exec_simp [hi, hneg, h1, getPipes, pipeAddr, h.cached.pipes0, Int.reduceToNat, Int.reduceLT, Int.reduceLE]
        exact Post.unchanged h .refl rfl h.cached rfl
      · exec_simp [hi, hneg, h1, getPipes, pipeAddr, h.cached.pipes1, Int.reduceToNat, Int.reduceLT, Int.reduceLE,
          Nat.reduceEqDiff]
        exact Post.unchanged h .refl rfl h.cached rfl
    · have h0 : ¬ i.toNat = 0 := by omega
      have h1' : ¬ i.toNat = 1 := by omega
      exec_simp [hi, hneg, h1, pipeAddr, h0, h1', h.cached.pipes1, h.cached.pipesN]
      exact Post.unchanged h .refl rfl h.cached rfl

theorem address_bad_post (i : Int) (s : DrvState) (h : Inv s) (hi : i > 5) :
    Post (exec (address i) s) s (.error .indexError) s.cfg s.d.pipe0ReadAddr := by
  unfold address
  exec_simp [hi]
  exact Post.unchanged h .refl rfl h.cached rfl

/-! ### close_rx_pipe -/

theorem closeRxPipe_post (p : Int) (s : DrvState) (h : Inv s) (hp : pipeOk p) :
    Post (exec (closeRxPipe p) s) s (.ok ()) { s.cfg with enRxAddr := setBit s.cfg.enRxAddr p.toNat false }
      (if p = 0 then none else s.d.pipe0ReadAddr) := by
  have hp' : 0 ≤ p ∧ p ≤ 5 := hp
  have hno : ¬ (p < 0 ∨ p > 5) := by omega
  have hb := bits_pipe2 _ h.ok.enRxAddr p.toNat (by omega)
  unfold closeRxPipe
  by_cases h0 : p = 0
  · exec_simp [hno, h0, readVal_enRxAddr]
    subst h0
    rw [show andNot s.cfg.enRxAddr (1 <<< (0 : Int).toNat) = setBit s.cfg.enRxAddr (0 : Int).toNat false from hb.1,
      exec_regWrite_nat3 _ _ _ (by omega) (by decide)]
    refine Post.of_reach (by reach h.wf) h.wf ?_ rfl ?_
    · rw [Radio.w_enRxAddr _ _ hb.2.2.1]; rfl
    · exact { h.cached with openPipes := rfl }
  · exec_simp [hno, h0, readVal_enRxAddr, hb.1]
    rw [exec_regWrite_nat3 _ _ _ (by omega) (by decide)]
    refine Post.of_reach (by reach h.wf) h.wf ?_ rfl ?_
    · rw [Radio.w_enRxAddr _ _ hb.2.2.1]; rfl
    · exact { h.cached with openPipes := rfl }

theorem closeRxPipe_bad_post (p : Int) (s : DrvState) (h : Inv s) (hp : ¬ pipeOk p) :
    Post (exec (closeRxPipe p) s) s (.error .indexError) s.cfg s.d.pipe0ReadAddr := by
  have hno : p < 0 ∨ p > 5 := by
    have : ¬ (0 ≤ p ∧ p ≤ 5) := hp
    omega
  unfold closeRxPipe
  exec_simp [hno]
  exact Post.unchanged h .refl rfl h.cached rfl

/-! ### open_rx_pipe -/

theorem isEmpty_false {b : Bytes} (h : b ≠ []) : b.isEmpty = false := by cases b <;> simp_all

theorem writeAddr_ok {old new : Bytes} (ho : old.length = 5 ∧ Bytes.wf old) (hl : new.length ≤ 5) (hw : Bytes.wf new) :
    (writeAddr old new).length = 5 ∧ Bytes.wf (writeAddr old new) := by
  unfold writeAddr
  refine ⟨by simp [ho.1]; omega, ?_⟩
  intro x hx
  rcases List.mem_append.1 hx with h | h
  · exact hw x h
  · exact ho.2 x (List.mem_of_mem_drop h)

theorem openRxPipe0_post (addr : Bytes) (s : DrvState) (h : Inv s) (ha : addr.length ≤ 5) (hne : addr ≠ []) :
    Post (exec (openRxPipe 0 addr) s) s (.ok ())
      { s.cfg with rxAddr0 := writeAddr s.cfg.rxAddr0 addr, enRxAddr := setBit s.cfg.enRxAddr 0 true }
      (some addr) := by
  have hgt : ¬ addr.length > 5 := by omega
  have hb := bits_pipe2 _ h.ok.enRxAddr 0 (by decide)
  unfold openRxPipe assignPrefix
  exec_simp [h.wf, isEmpty_false hne, Int.reduceToNat, Int.reduceLE, overwritePrefix, getPipes, setPipes,
    h.cached.pipes0, h.ok.a0.1, hgt, exec_regWriteBytes, Bool.false_eq_true, readVal_after_addr_write, hne,
    Nat.reduceAdd, Nat.reduceLeDiff]
  simp only [readVal_enRxAddr, hb.2.1]
  rw [exec_regWrite_nat3 _ _ _ (by omega) (by decide)]
  refine Post.of_reach (by reach h.wf) h.wf ?_ rfl ?_
  · rw [Radio.w_a0 _ _ ha, Radio.w_enRxAddr _ _ hb.2.2.2]; rfl
  · exact { h.cached with openPipes := rfl, pipes0 := rfl }

theorem openRxPipe1_post (addr : Bytes) (s : DrvState) (h : Inv s) (ha : addr.length ≤ 5) (hne : addr ≠ []) :
    Post (exec (openRxPipe 1 addr) s) s (.ok ())
      { s.cfg with rxAddr1 := writeAddr s.cfg.rxAddr1 addr, enRxAddr := setBit s.cfg.enRxAddr 1 true }
      s.d.pipe0ReadAddr := by
  have hgt : ¬ addr.length > 5 := by omega
  have hb := bits_pipe2 _ h.ok.enRxAddr 1 (by decide)
  unfold openRxPipe assignPrefix
  exec_simp [h.wf, isEmpty_false hne, Int.reduceToNat, Int.reduceLE, overwritePrefix, getPipes, setPipes,
    h.cached.pipes1, h.ok.a1.1, hgt, exec_regWriteBytes, Bool.false_eq_true, readVal_after_addr_write, hne,
    Nat.reduceAdd, Nat.reduceLeDiff]
  simp only [readVal_enRxAddr, hb.2.1]
  rw [exec_regWrite_nat3 _ _ _ (by omega) (by decide)]
  refine Post.of_reach (by reach h.wf) h.wf ?_ rfl ?_
  · rw [Radio.w_a1 _ _ ha, Radio.w_enRxAddr _ _ hb.2.2.2]; rfl
  · exact { h.cached with openPipes := rfl, pipes1 := rfl }

theorem headD_lt {b : Bytes} (hw : Bytes.wf b) : b.headD 0 < 256 := by
  cases b with
  | nil => decide
  | cons x xs => exact hw x (by simp)

theorem openRxPipeN_post (p : Int) (addr : Bytes) (s : DrvState) (h : Inv s) (hp : 2 ≤ p ∧ p ≤ 5)
    (hne : addr ≠ []) (hwf : Bytes.wf addr) :
    Post (exec (openRxPipe p addr) s) s (.ok ())
      { s.cfg with rxAddrN := s.cfg.rxAddrN.set (p.toNat - 2) (addr.headD 0),
                   enRxAddr := setBit s.cfg.enRxAddr p.toNat true }
      s.d.pipe0ReadAddr := by
  have hh := headD_lt hwf
  have hcases : p = 2 ∨ p = 3 ∨ p = 4 ∨ p = 5 := by omega
  unfold openRxPipe
  rcases hcases with rfl | rfl | rfl | rfl
  all_goals
    exec_simp [h.wf, isEmpty_false hne, Int.reduceToNat, Int.reduceLE, Bool.false_eq_true, Nat.reduceAdd,
      Nat.reduceSub]
    rw [exec_regWrite_nat3 _ _ _ hh (by decide)]
    exec_simp [h.wf, readVal_after_addr_write, Nat.reduceLeDiff, reduceCtorEq]
    simp only [readVal_enRxAddr]
  · have hb := bits_pipe2 _ h.ok.enRxAddr 2 (by decide)
    rw [hb.2.1, exec_regWrite_nat3 _ _ _ (by omega) (by decide)]
    refine Post.of_reach (by reach h.wf) h.wf ?_ rfl ?_
    · rw [Radio.w_aN _ 0 _ (by decide), Radio.w_enRxAddr _ _ hb.2.2.2]; rfl
    · refine { h.cached with openPipes := rfl, pipesN := ?_ }
      show s.d.pipesN.set 0 (addr.headD 0) = _
      rw [h.cached.pipesN]
  · have hb := bits_pipe2 _ h.ok.enRxAddr 3 (by decide)
    rw [hb.2.1, exec_regWrite_nat3 _ _ _ (by omega) (by decide)]
    refine Post.of_reach (by reach h.wf) h.wf ?_ rfl ?_
    · rw [Radio.w_aN _ 1 _ (by decide), Radio.w_enRxAddr _ _ hb.2.2.2]; rfl
    · refine { h.cached with openPipes := rfl, pipesN := ?_ }
      show s.d.pipesN.set 1 (addr.headD 0) = _
      rw [h.cached.pipesN]
  · have hb := bits_pipe2 _ h.ok.enRxAddr 4 (by decide)
    rw [hb.2.1, exec_regWrite_nat3 _ _ _ (by omega) (by decide)]
    refine Post.of_reach (by reach h.wf) h.wf ?_ rfl ?_
    · rw [Radio.w_aN _ 2 _ (by decide), Radio.w_enRxAddr _ _ hb.2.2.2]; rfl
    · refine { h.cached with openPipes := rfl, pipesN := ?_ }
      show s.d.pipesN.set 2 (addr.headD 0) = _
      rw [h.cached.pipesN]
  · have hb := bits_pipe2 _ h.ok.enRxAddr 5 (by decide)
    rw [hb.2.1, exec_regWrite_nat3 _ _ _ (by omega) (by decide)]
    refine Post.of_reach (by reach h.wf) h.wf ?_ rfl ?_
    · rw [Radio.w_aN _ 3 _ (by decide), Radio.w_enRxAddr _ _ hb.2.2.2]; rfl
    · refine { h.cached with openPipes := rfl, pipesN := ?_ }
      show s.d.pipesN.set 3 (addr.headD 0) = _
      rw [h.cached.pipesN]

theorem openRxPipe_badpipe_post (p : Int) (addr : Bytes) (s : DrvState) (h : Inv s) (hp : ¬ pipeOk p) :
    Post (exec (openRxPipe p addr) s) s (.error .indexError) s.cfg s.d.pipe0ReadAddr := by
  have hp' : ¬ (0 ≤ p ∧ p ≤ 5) := hp
  unfold openRxPipe
  exec_simp [hp']
  exact Post.unchanged h .refl rfl h.cached rfl

theorem openRxPipe_empty_post (p : Int) (s : DrvState) (h : Inv s) (hp : pipeOk p) :
    Post (exec (openRxPipe p []) s) s (.error .valueError) s.cfg s.d.pipe0ReadAddr := by
  have hp' : 0 ≤ p ∧ p ≤ 5 := hp
  unfold openRxPipe
  exec_simp [hp', List.isEmpty_nil]
  exact Post.unchanged h .refl rfl h.cached rfl

/-! ### open_tx_pipe -/

theorem bits_bit0 : ∀ x, x < 128 →
    ((x &&& 1 ≠ 0) ↔ bitOf x 0 = true) ∧ ((x &&& 1 = 0) ↔ bitOf x 0 = false) ∧
    (x ||| 1 = setBit x 0 true) ∧ (bitOf x 0 = true → setBit x 0 true = x) ∧
    (bitOf x 0 = false → setBit x 0 false = x) := by decide +kernel

theorem bits_bit0_close : ∀ x, x < 64 → x &&& 0x3E = setBit x 0 false ∧ setBit x 0 false < 64 := by
  decide +kernel

theorem openTxPipe_post (addr : Bytes) (s : DrvState) (h : Inv s) (ha : addr.length ≤ 5) (hne : addr ≠ []) :
    Post (exec (openTxPipe addr) s) s (.ok ())
      { s.cfg with txAddr := writeAddr s.cfg.txAddr addr,
                   rxAddr0 := if bitOf s.cfg.enAA 0 then writeAddr s.cfg.rxAddr0 addr else s.cfg.rxAddr0,
                   enRxAddr := if bitOf s.cfg.enAA 0 ∧ ¬ bitOf s.cfg.config 0 then setBit s.cfg.enRxAddr 0 true
                               else s.cfg.enRxAddr }
      s.d.pipe0ReadAddr := by
  have hgt : ¬ addr.length > 5 := by omega
  have hA := bits_bit0 _ (Nat.lt_trans h.ok.enAA (by decide))
  have hC := bits_bit0 _ h.ok.config
  have hO := bits_bit0 _ (Nat.lt_trans h.ok.enRxAddr (by decide))
  unfold openTxPipe assignPrefix
  by_cases hAA : bitOf s.cfg.enAA 0 = true
  · have hAA' : ¬ s.cfg.enAA &&& 1 = 0 := hA.1.2 hAA
    by_cases hopen : s.cfg.config &&& 1 = 0 ∧ s.cfg.enRxAddr &&& 1 = 0
    · have hcfg0 : bitOf s.cfg.config 0 = false := hC.2.1.1 hopen.1
      exec_simp [h.cached.aa, hAA', overwritePrefix, getPipes, setPipes, h.cached.pipes0, h.ok.a0.1, hgt,
        exec_regWriteBytes, h.cached.config, h.cached.openPipes, hopen.1, hopen.2, hO.2.2.1]
      rw [exec_regWrite_nat3 _ _ _ (by have := (bits_pipe2 _ h.ok.enRxAddr 0 (by decide)).2.2.2; omega) (by decide)]
      exec_simp [overwritePrefix, h.cached.txAddress, h.ok.tx.1, hgt, exec_regWriteBytes]
      refine Post.of_reach (by reach h.wf) h.wf ?_ rfl ?_
      · rw [Radio.w_a0 _ _ ha, Radio.w_enRxAddr _ _ (bits_pipe2 _ h.ok.enRxAddr 0 (by decide)).2.2.2,
          Radio.w_tx _ _ ha]
        simp only [hAA, hcfg0, ↓reduceIte, Bool.false_eq_true, not_false_eq_true, and_self]
        rfl
      · simp only [hAA, hcfg0, ↓reduceIte, Bool.false_eq_true, not_false_eq_true, and_self]
        refine { h.cached with openPipes := ?_, pipes0 := rfl, txAddress := rfl }
        show s.d.openPipes ||| 1 = _
        rw [h.cached.openPipes]; exact hO.2.2.1
    · have hsame : (if bitOf s.cfg.enAA 0 = true ∧ ¬ bitOf s.cfg.config 0 = true then setBit s.cfg.enRxAddr 0 true
          else s.cfg.enRxAddr) = s.cfg.enRxAddr := by
        by_cases hc0 : bitOf s.cfg.config 0 = true
        · simp [hc0]
        · have hc0' : bitOf s.cfg.config 0 = false := by simpa using hc0
          have : ¬ s.cfg.enRxAddr &&& 1 = 0 := fun h1 => hopen ⟨hC.2.1.2 hc0', h1⟩
          have hob : bitOf s.cfg.enRxAddr 0 = true := by
            cases hbo : bitOf s.cfg.enRxAddr 0
            · exact absurd (hO.2.1.2 hbo) this
            · rfl
          simp [hAA, hc0', hO.2.2.2.1 hob]
      exec_simp [h.cached.aa, hAA', overwritePrefix, getPipes, setPipes, h.cached.pipes0, h.ok.a0.1, hgt,
        exec_regWriteBytes, h.cached.config, h.cached.openPipes, hopen, h.cached.txAddress, h.ok.tx.1]
      refine Post.of_reach (by reach h.wf) h.wf ?_ rfl ?_
      · rw [Radio.w_a0 _ _ ha, Radio.w_tx _ _ ha, hsame]
        simp only [hAA, ↓reduceIte]
        rfl
      · rw [hsame]
        simp only [hAA, ↓reduceIte]
        exact { h.cached with pipes0 := rfl, txAddress := rfl }
  · have hAA0 : bitOf s.cfg.enAA 0 = false := by simpa using hAA
    have hAA' : s.cfg.enAA &&& 1 = 0 := hA.2.1.2 hAA0
    exec_simp [h.cached.aa, hAA', overwritePrefix, hgt, exec_regWriteBytes, h.cached.txAddress, h.ok.tx.1]
    refine Post.of_reach (by reach h.wf) h.wf ?_ rfl ?_
    · rw [Radio.w_tx _ _ ha]
      simp only [hAA0, Bool.false_eq_true, false_and, ↓reduceIte]
      rfl
    · simp only [hAA0, Bool.false_eq_true, false_and, ↓reduceIte]
      exact { h.cached with txAddress := rfl }

end Nrf
