/-
C03: every call of the configuration alphabet behaves as documented (`runCall_post`), assembled
from the per-method lemmas.
-/
import NrfProofs.C03.Retr
import NrfProofs.C03.RfSetup
import NrfProofs.C03.Config
import NrfProofs.C03.Ack
import NrfProofs.C03.PayloadLen
import NrfProofs.C03.Carrier

namespace Nrf
open Rf24 Cfg

theorem Post.map_ok {α β} {m : DrvM α} {s : DrvState} {a : α} {c : Radio} {p : Option Bytes} (g : α → β)
    (h : Post (exec m s) s (.ok a) c p) : Post (exec (m >>= fun v => pure (g v)) s) s (.ok (g a)) c p := by
  rw [exec_bind]
  have hres := h.res
  rcases hx : exec m s with ⟨r1, s1⟩
  rw [hx] at h hres
  simp only at hres
  subst hres
  exact ⟨rfl, h.cfg, h.p0, h.cached, h.wf, h.rid, h.frame, h.len⟩

theorem Post.map_err {α β} {m : DrvM α} {s : DrvState} {e : PyErr} {c : Radio} {p : Option Bytes}
    (f : α → DrvM β) (h : Post (exec m s) s (.error e) c p) : Post (exec (m >>= f) s) s (.error e) c p :=
  Post.bind_err h

/-- what `C03_step` demands of one call, in terms of `Post` -/
def CallPost (c : Call) (s : DrvState) : Prop :=
  match docStep c s.abs with
  | .ok (a', ret) => Post (exec (runCall c) s) s (.ok ret) a'.r a'.user0
  | .error e => Post (exec (runCall c) s) s (.error e) s.cfg s.d.pipe0ReadAddr

section calls
variable (s : DrvState) (h : Inv s)
include h

/-- getters and unconditional setters: the documented outcome is immediate -/
theorem cp_getChannel : CallPost .getChannel s := Post.map_ok Ret.nat (getChannel_post s h)
theorem cp_getDataRate : CallPost .getDataRate s := Post.map_ok Ret.nat (getDataRate_post s h)
theorem cp_getPaLevel : CallPost .getPaLevel s := Post.map_ok Ret.int (getPaLevel_post s h)
theorem cp_isLnaEnabled : CallPost .isLnaEnabled s := Post.map_ok Ret.bool (isLnaEnabled_post s h)
theorem cp_getCrc : CallPost .getCrc s := Post.map_ok Ret.nat (getCrc_post s h)
theorem cp_setCrc (n : Int) : CallPost (.setCrc n) s := Post.map_ok (fun _ => Ret.unit) (setCrc_post n s h)
theorem cp_getAddressLength : CallPost .getAddressLength s := Post.map_ok Ret.nat (getAddressLength_post s h)
theorem cp_getArd : CallPost .getArd s := Post.map_ok Ret.nat (getArd_post s h)
theorem cp_setArd (n : Int) : CallPost (.setArd n) s := Post.map_ok (fun _ => Ret.unit) (setArd_post n s h)
theorem cp_getArc : CallPost .getArc s := Post.map_ok Ret.nat (getArc_post s h)
theorem cp_setArc (n : Int) : CallPost (.setArc n) s := Post.map_ok (fun _ => Ret.unit) (setArc_post n s h)
theorem cp_setAutoRetries (d n : Int) : CallPost (.setAutoRetries d n) s :=
  Post.map_ok (fun _ => Ret.unit) (setAutoRetries_post d n s h)
theorem cp_getAutoRetries : CallPost .getAutoRetries s :=
  Post.map_ok (fun x : Nat × Nat => Ret.pair x.1 x.2) (getAutoRetries_post s h)
theorem cp_getAutoAck : CallPost .getAutoAck s := Post.map_ok Ret.nat (getAutoAck_post s h)
theorem cp_getDynamicPayloads : CallPost .getDynamicPayloads s := Post.map_ok Ret.nat (getDynamicPayloads_post s h)
theorem cp_getPayloadLengthAttr : CallPost .getPayloadLengthAttr s :=
  Post.map_ok Ret.nat (getPayloadLengthAttr_post s h)
theorem cp_getAck : CallPost .getAck s := Post.map_ok Ret.bool (getAck_post s h)
theorem cp_getAllowAskNoAck : CallPost .getAllowAskNoAck s := Post.map_ok Ret.bool (getAllowAskNoAck_post s h)
theorem cp_setAllowAskNoAck (e : Bool) : CallPost (.setAllowAskNoAck e) s :=
  Post.map_ok (fun _ => Ret.unit) (setAllowAskNoAck_post e s h)
theorem cp_interruptConfig (a b c : Bool) : CallPost (.interruptConfig a b c) s :=
  Post.map_ok (fun _ => Ret.unit) (interruptConfig_post a b c s h)
theorem cp_getPower : CallPost .getPower s := Post.map_ok Ret.bool (getPower_post s h)
theorem cp_setPower (b : Bool) : CallPost (.setPower b) s := Post.map_ok (fun _ => Ret.unit) (setPower_post b s h)
theorem cp_getListen : CallPost .getListen s := Post.map_ok Ret.bool (getListen_post s h)
theorem cp_stopCarrierWave : CallPost .stopCarrierWave s :=
  Post.map_ok (fun _ => Ret.unit) (stopCarrierWave_post s h)

theorem cp_isPlusVariant : CallPost .isPlusVariant s := by
  show Post (exec (getD >>= fun d => pure (Ret.bool d.isPlus)) s) s (.ok (.bool s.cfg.plus)) s.cfg s.d.pipe0ReadAddr
  simp only [exec_bind, exec_getD, exec_pure, h.cached.isPlus]
  exact Post.unchanged h .refl rfl h.cached rfl

theorem cp_setChannel (ch : Int) : CallPost (.setChannel ch) s := by
  unfold CallPost docStep
  by_cases hc : 0 ≤ ch ∧ ch ≤ 125
  · simp only [hc, and_self, ↓reduceIte]
    exact Post.map_ok (fun _ => Ret.unit) (setChannel_post ch s h hc)
  · simp only [hc, ↓reduceIte]
    exact Post.map_err _ (setChannel_bad_post ch s h hc)

theorem cp_setDataRate (v : Int) : CallPost (.setDataRate v) s := by
  unfold CallPost docStep
  by_cases hc : v = 1 ∨ v = 2 ∨ v = 250
  · simp only [hc, ↓reduceIte]
    exact Post.map_ok (fun _ => Ret.unit) (setDataRate_post v s h hc)
  · simp only [hc, ↓reduceIte]
    exact Post.map_err _ (setDataRate_bad_post v s h hc)

theorem cp_setPaLevelLna (v : Int) (l : Bool) : CallPost (.setPaLevelLna v l) s := by
  unfold CallPost docStep
  by_cases hc : paLegal v
  · simp only [hc, ↓reduceIte]
    exact Post.map_ok (fun _ => Ret.unit) (setPaLevel_int_lna v l ▸ paCore_post v l s h hc)
  · simp only [hc, ↓reduceIte]
    exact Post.map_err _ (setPaLevel_int_lna v l ▸ paCore_bad_post v l s h hc)

theorem cp_setPaLevel (a : Arg) : CallPost (.setPaLevel a) s := by
  unfold CallPost docStep
  cases a with
  | i v =>
    by_cases hc : paLegal v
    · simp only [hc, ↓reduceIte]
      exact Post.map_ok (fun _ => Ret.unit) (setPaLevel_int v ▸ paCore_post v true s h hc)
    · simp only [hc, ↓reduceIte]
      exact Post.map_err _ (setPaLevel_int v ▸ paCore_bad_post v true s h hc)
  | b v =>
    cases v with
    | true =>
      simp only [↓reduceIte]
      exact Post.map_err _ (setPaLevel_bool true ▸ paCore_bad_post _ true s h (by decide))
    | false =>
      simp only [Bool.false_eq_true, ↓reduceIte]
      exact Post.map_ok (fun _ => Ret.unit) (setPaLevel_bool false ▸ paCore_post 0 true s h (by decide))
  | l vs =>
    simp only
    refine Post.map_err _ ?_
    rw [setPaLevel_list, exec_raise]
    exact Post.unchanged h .refl rfl h.cached rfl
  | other =>
    simp only
    refine Post.map_err _ ?_
    rw [setPaLevel_other, exec_raise]
    exact Post.unchanged h .refl rfl h.cached rfl

theorem cp_setAddressLength (n : Int) : CallPost (.setAddressLength n) s := by
  unfold CallPost docStep
  by_cases hc : 3 ≤ n ∧ n ≤ 5
  · simp only [hc, and_self, ↓reduceIte]
    exact Post.map_ok (fun _ => Ret.unit) (setAddressLength_post n s h hc)
  · simp only [hc, ↓reduceIte]
    exact Post.map_ok (fun _ => Ret.unit) (setAddressLength_bad_post n s h hc)

theorem cp_setAutoAckAttr (a : Arg) : CallPost (.setAutoAckAttr a) s := by
  unfold CallPost docStep
  cases hm : maskArg s.abs.r.enAA a with
  | some m =>
    simp only [hm]
    exact Post.map_ok (fun _ => Ret.unit) (setAutoAckAttr_post a m s h hm)
  | none =>
    simp only [hm]
    have : a = .other := by cases a <;> simp_all [maskArg]
    subst this
    exact Post.map_err _ (setAutoAckAttr_bad_post s h)

theorem cp_setAutoAck (e : Bool) (p : Option Int) : CallPost (.setAutoAck e p) s := by
  unfold CallPost docStep
  cases p with
  | none =>
    simp only
    exact Post.map_ok (fun _ => Ret.unit) (setAutoAck_all_post e s h)
  | some p =>
    by_cases hp : pipeOk p
    · simp only [hp, ↓reduceIte]
      exact Post.map_ok (fun _ => Ret.unit) (setAutoAck_pipe_post e p s h hp)
    · simp only [hp, ↓reduceIte]
      exact Post.map_err _ (setAutoAck_bad_post e p s h hp)

theorem cp_getAutoAckPipe (p : Int) : CallPost (.getAutoAckPipe p) s := by
  unfold CallPost docStep
  by_cases hp : pipeOk p
  · simp only [hp, ↓reduceIte]
    exact Post.map_ok Ret.bool (getAutoAckPipe_post p s h hp)
  · simp only [hp, ↓reduceIte]
    exact Post.map_err _ (getAutoAckPipe_bad_post p s h hp)

theorem cp_setDynamicPayloadsAttr (a : Arg) : CallPost (.setDynamicPayloadsAttr a) s := by
  unfold CallPost docStep
  cases hm : maskArg s.abs.r.dynpd a with
  | some m =>
    simp only [hm]
    exact Post.map_ok (fun _ => Ret.unit) (setDynamicPayloadsAttr_post a m s h hm)
  | none =>
    simp only [hm]
    have : a = .other := by cases a <;> simp_all [maskArg]
    subst this
    exact Post.map_err _ (setDynamicPayloadsAttr_bad_post s h)

theorem cp_setDynamicPayloads (e : Bool) (p : Option Int) : CallPost (.setDynamicPayloads e p) s := by
  unfold CallPost docStep
  cases p with
  | none =>
    simp only
    exact Post.map_ok (fun _ => Ret.unit) (setDynamicPayloads_all_post e s h)
  | some p =>
    by_cases hp : pipeOk p
    · simp only [hp, ↓reduceIte]
      exact Post.map_ok (fun _ => Ret.unit) (setDynamicPayloads_pipe_post e p s h hp)
    · simp only [hp, ↓reduceIte]
      exact Post.map_err _ (setDynamicPayloads_bad_post e p s h hp)

theorem cp_getDynamicPayloadsPipe (p : Int) : CallPost (.getDynamicPayloadsPipe p) s := by
  unfold CallPost docStep
  by_cases hp : pipeOk p
  · simp only [hp, ↓reduceIte]
    exact Post.map_ok Ret.bool (getDynamicPayloadsPipe_post p s h hp)
  · simp only [hp, ↓reduceIte]
    exact Post.map_err _ (getDynamicPayloadsPipe_bad_post p s h hp)

theorem cp_setPayloadLengthAttr (a : Arg) : CallPost (.setPayloadLengthAttr a) s := by
  unfold CallPost docStep
  cases a with
  | i v => exact Post.map_ok (fun _ => Ret.unit) (setPayloadLengthAttr_int_post v s h)
  | b v => exact Post.map_ok (fun _ => Ret.unit) (setPayloadLengthAttr_bool_post v s h)
  | l vs => exact Post.map_ok (fun _ => Ret.unit) (setPayloadLengthAttr_list_post vs s h)
  | other => exact Post.map_err _ (setPayloadLengthAttr_bad_post s h)

theorem cp_setPayloadLength (l : Int) (p : Option Int) : CallPost (.setPayloadLength l p) s := by
  unfold CallPost docStep
  cases p with
  | none =>
    simp only
    exact Post.map_ok (fun _ => Ret.unit) (setPayloadLength_all_post l s h)
  | some p =>
    by_cases hp : pipeOk p
    · simp only [hp, ↓reduceIte]
      exact Post.map_ok (fun _ => Ret.unit) (setPayloadLength_pipe_post l p s h hp)
    · simp only [hp, ↓reduceIte]
      exact Post.map_err _ (setPayloadLength_bad_post l p s h hp)

theorem cp_getPayloadLength (p : Int) : CallPost (.getPayloadLength p) s := by
  unfold CallPost docStep
  by_cases hp : pipeOk p
  · simp only [hp, ↓reduceIte]
    exact Post.map_ok Ret.nat (getPayloadLength_post p s h hp)
  · simp only [hp, ↓reduceIte]
    exact Post.map_err _ (getPayloadLength_bad_post p s h hp)

theorem cp_setAck (e : Bool) : CallPost (.setAck e) s := by
  unfold CallPost docStep
  cases e with
  | true =>
    simp only [↓reduceIte]
    exact Post.map_ok (fun _ => Ret.unit) (setAck_on_post s h)
  | false =>
    simp only [Bool.false_eq_true, ↓reduceIte]
    exact Post.map_ok (fun _ => Ret.unit) (setAck_off_post s h)

theorem cp_setListen (rx : Bool) : CallPost (.setListen rx) s := by
  unfold CallPost docStep
  cases rx with
  | true =>
    simp only [↓reduceIte]
    exact Post.map_ok (fun _ => Ret.unit) (setListen_rx_post s h)
  | false =>
    simp only [Bool.false_eq_true, ↓reduceIte]
    exact Post.map_ok (fun _ => Ret.unit) (setListen_tx_post s h)

theorem cp_closeRxPipe (p : Int) : CallPost (.closeRxPipe p) s := by
  unfold CallPost docStep
  by_cases hp : pipeOk p
  · simp only [hp, ↓reduceIte]
    exact Post.map_ok (fun _ => Ret.unit) (closeRxPipe_post p s h hp)
  · simp only [hp, ↓reduceIte]
    exact Post.map_err _ (closeRxPipe_bad_post p s h hp)

theorem cp_address (i : Int) : CallPost (.address i) s := by
  unfold CallPost docStep
  by_cases hi : i > 5
  · simp only [hi, ↓reduceIte]
    exact Post.map_err _ (address_bad_post i s h hi)
  · have h1 := Post.map_ok Ret.bytes (address_post i s h hi)
    by_cases hneg : i < 0
    · simp only [hi, hneg, ↓reduceIte] at h1 ⊢
      exact h1
    · simp only [hi, hneg, ↓reduceIte] at h1 ⊢
      exact h1

theorem cp_openTxPipe (a : Bytes) (hd : Call.dom s.cfg.plus (.openTxPipe a)) : CallPost (.openTxPipe a) s :=
  Post.map_ok (fun _ => Ret.unit) (openTxPipe_post a s h hd.2.1 hd.1)

theorem cp_startCarrierWave (hd : Call.dom s.cfg.plus .startCarrierWave) : CallPost .startCarrierWave s :=
  Post.map_ok (fun _ => Ret.unit) (startCarrierWave_post s h hd)

theorem cp_openRxPipe (p : Int) (a : Bytes) (hd : Call.dom s.cfg.plus (.openRxPipe p a)) :
    CallPost (.openRxPipe p a) s := by
  unfold CallPost docStep
  by_cases hp : pipeOk p
  · by_cases he : a = []
    · subst he
      simp only [hp, not_true_eq_false, ↓reduceIte]
      exact Post.map_err _ (openRxPipe_empty_post p s h hp)
    · rcases pipe_cases p hp with rfl | rfl | hN
      · simp only [hp, he, not_true_eq_false, ↓reduceIte, Int.toNat_zero]
        exact Post.map_ok (fun _ => Ret.unit) (openRxPipe0_post a s h hd.1 he)
      · simp only [hp, he, not_true_eq_false, ↓reduceIte, Int.reduceToNat, Nat.reduceEqDiff]
        exact Post.map_ok (fun _ => Ret.unit) (openRxPipe1_post a s h hd.1 he)
      · have h0 : ¬ p.toNat = 0 := by omega
        have h1 : ¬ p.toNat = 1 := by omega
        simp only [hp, he, not_true_eq_false, ↓reduceIte, h0, h1]
        exact Post.map_ok (fun _ => Ret.unit) (openRxPipeN_post p a s h (by omega) he hd.2)
  · simp only [hp, not_false_eq_true, ↓reduceIte]
    exact Post.map_err _ (openRxPipe_badpipe_post p a s h hp)

end calls

end Nrf
