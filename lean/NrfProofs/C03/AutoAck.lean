/-
C03 per-method lemmas: EN_AA (`auto_ack`, `set_auto_ack`, `get_auto_ack`) and the per-pipe bit list.
-/
import NrfProofs.C03.Base

namespace Nrf
open Rf24 Cfg

/-! ### per-pipe bit facts -/

theorem bits_pipe : ∀ x, x < 64 → ∀ p, p < 6 → ∀ b : Bool,
    andNot x (1 <<< p) ||| (Rf24.b2n b <<< p) = setBit x p b ∧ setBit x p b < 64 ∧
    decide (x &&& (1 <<< p) ≠ 0) = bitOf x p := by decide +kernel

/-- the list form of `auto_ack` / `dynamic_payloads`: the code's loop is the documented per-index
    update -/
theorem applyBitList_go (vs : List Int) : ∀ (i acc : Nat), acc < 64 →
    applyBitList.go i acc vs = applyList acc i vs ∧ applyList acc i vs < 64 := by
  induction vs with
  | nil => intro i acc h; exact ⟨rfl, h⟩
  | cons v rest ih =>
    intro i acc h
    unfold applyBitList.go applyList
    by_cases hc : i < 6 ∧ v ≥ 0
    · have hb := bits_pipe acc h i hc.1 (decide (v ≠ 0))
      simp only [hc, and_self, ↓reduceIte]
      rw [hb.1]
      exact ih _ _ hb.2.1
    · simp only [hc, ↓reduceIte]
      exact ih _ _ h

theorem applyBitList_eq (cur : Nat) (vs : List Int) (h : cur < 64) :
    applyBitList cur vs = applyList cur 0 vs ∧ applyList cur 0 vs < 64 :=
  applyBitList_go vs 0 cur h

theorem mod64 (v : Int) : (v % 64).toNat < 64 := by omega
theorem cast_mod643 (n : Nat) (h : n < 64) : ((n : Int) % 64).toNat = n := by omega

/-! ### auto_ack -/

theorem getAutoAck_post (s : DrvState) (h : Inv s) :
    Post (exec getAutoAck s) s (.ok s.cfg.enAA) s.cfg s.d.pipe0ReadAddr := by
  unfold getAutoAck
  exec_simp [readVal_enAA]
  refine Post.of_reach (by reach h.wf) h.wf rfl rfl ?_
  exact { h.cached with aa := rfl }

/-- the state shape every EN_AA setter ends in -/
theorem aa_write {s t : DrvState} (h : Inv s) {c : Radio} (hr : Reach3 s t c) (hc : c = s.cfg) (m : Nat)
    (hm : m < 64) (hd : Cached t.d { s.cfg with enAA := m }) :
    Post ((.ok () : Except PyErr Unit), t.spiStep [0x20 ||| 1, m]) s (.ok ()) { s.cfg with enAA := m }
      t.d.pipe0ReadAddr := by
  refine write_tail h hr.steps (hr.cfg.trans hc) (by decide) ?_ rfl hd
  rw [Radio.w_enAA _ _ hm]; rfl

theorem setAutoAckAttr_post (a : Arg) (m : Nat) (s : DrvState) (h : Inv s) (ha : maskArg s.cfg.enAA a = some m) :
    Post (exec (setAutoAckAttr a) s) s (.ok ()) { s.cfg with enAA := m } s.d.pipe0ReadAddr := by
  unfold setAutoAckAttr
  cases a with
  | b v =>
    have hm : m = if v then 0x3F else 0 := by simpa [maskArg] using ha.symm
    subst hm
    exec_simp []
    rw [exec_regWrite_nat3 _ _ _ (by split <;> decide) (by decide)]
    refine aa_write h (by reach h.wf) rfl _ (by split <;> decide) ?_
    exact { h.cached with aa := rfl }
  | i v =>
    have hm : m = (v % 64).toNat := by simpa [maskArg] using ha.symm
    subst hm
    exec_simp []
    rw [exec_regWrite_nat3 _ _ _ (by omega) (by decide)]
    refine aa_write h (by reach h.wf) rfl _ (mod64 v) ?_
    exact { h.cached with aa := rfl }
  | l vs =>
    have hl := applyBitList_eq s.cfg.enAA vs h.ok.enAA
    have hm : m = applyList s.cfg.enAA 0 vs := by simpa [maskArg] using ha.symm
    subst hm
    exec_simp [readVal_enAA, hl.1]
    rw [exec_regWrite_nat3 _ _ _ (by omega) (by decide)]
    refine aa_write h (by reach h.wf) rfl _ hl.2 ?_
    exact { h.cached with aa := rfl }
  | other => simp [maskArg] at ha

theorem setAutoAckAttr_bad_post (s : DrvState) (h : Inv s) :
    Post (exec (setAutoAckAttr .other) s) s (.error .valueError) s.cfg s.d.pipe0ReadAddr := by
  unfold setAutoAckAttr
  exec_simp []
  exact Post.unchanged h .refl rfl h.cached rfl

theorem setAutoAck_all_post (e : Bool) (s : DrvState) (h : Inv s) :
    Post (exec (setAutoAck e none) s) s (.ok ()) { s.cfg with enAA := if e then 0x3F else 0 } s.d.pipe0ReadAddr :=
  setAutoAckAttr_post (.b e) _ s h rfl

theorem setAutoAck_pipe_post (e : Bool) (p : Int) (s : DrvState) (h : Inv s) (hp : pipeOk p) :
    Post (exec (setAutoAck e (some p)) s) s (.ok ()) { s.cfg with enAA := setBit s.cfg.enAA p.toNat e }
      s.d.pipe0ReadAddr := by
  have hp' : 0 ≤ p ∧ p ≤ 5 := hp
  have hb := bits_pipe _ h.ok.enAA p.toNat (by omega) e
  unfold setAutoAck setAutoAckAttr
  exec_simp [hp', readVal_enAA, hb.1, cast_mod643 _ hb.2.1]
  rw [exec_regWrite_nat3 _ _ _ (by omega) (by decide)]
  refine aa_write h (by reach h.wf) rfl _ hb.2.1 ?_
  exact { h.cached with aa := rfl }

theorem setAutoAck_bad_post (e : Bool) (p : Int) (s : DrvState) (h : Inv s) (hp : ¬ pipeOk p) :
    Post (exec (setAutoAck e (some p)) s) s (.error .indexError) s.cfg s.d.pipe0ReadAddr := by
  have hp' : ¬ (0 ≤ p ∧ p ≤ 5) := hp
  unfold setAutoAck
  exec_simp [hp']
  exact Post.unchanged h .refl rfl h.cached rfl

theorem getAutoAckPipe_post (p : Int) (s : DrvState) (h : Inv s) (hp : pipeOk p) :
    Post (exec (getAutoAckPipe p) s) s (.ok (bitOf s.cfg.enAA p.toNat)) s.cfg s.d.pipe0ReadAddr := by
  have hp' : 0 ≤ p ∧ p ≤ 5 := hp
  have hb := bits_pipe _ h.ok.enAA p.toNat (by omega) true
  unfold getAutoAckPipe getAutoAck
  exec_simp [hp', readVal_enAA]
  rw [← hb.2.2]
  refine Post.of_reach (by reach h.wf) h.wf rfl rfl ?_
  exact { h.cached with aa := rfl }

theorem getAutoAckPipe_bad_post (p : Int) (s : DrvState) (h : Inv s) (hp : ¬ pipeOk p) :
    Post (exec (getAutoAckPipe p) s) s (.error .indexError) s.cfg s.d.pipe0ReadAddr := by
  have hp' : ¬ (0 ≤ p ∧ p ≤ 5) := hp
  unfold getAutoAckPipe
  exec_simp [hp']
  exact Post.unchanged h .refl rfl h.cached rfl

end Nrf
