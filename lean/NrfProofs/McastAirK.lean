/-
C14, radio level: which radios take a packet sent to a level address, and that none of them
acknowledges it (`Radio.listensTo`, `Radio.receive`, `World.deliver` of `NrfModel/Air.lean`).
-/
import NrfModel.Spec.Multicast
import NrfProofs.Phys

namespace Nrf.Proofs.McastK
open Nrf Nrf.Net Nrf.Spec Nrf.Spec.Multicast Nrf.Proofs

/-- closed form of the address shared by the nodes of level `L` -/
def levelFn (pfx : Nat) (g : Nat → Nat) (L : Nat) : Bytes :=
  if L = 0 then physFn pfx g [] 0 else [pfx, g L, pfx, pfx, pfx]

theorem levelAddrSpec_fn {pfx : Nat} {sfx : List Nat} {g : Nat → Nat} (hg : SfxFn sfx g) {L : Nat}
    (hL : L ≤ 5) : levelAddrSpec pfx sfx L = some (levelFn pfx g L) := by
  unfold levelFn
  by_cases h0 : L = 0
  · subst h0; simp [levelAddrSpec_zero hg]
  · rw [if_neg h0, levelAddrSpec_eq hg (by omega) hL]

theorem levelFn_length (pfx : Nat) (g : Nat → Nat) (L : Nat) : (levelFn pfx g L).length = 5 := by
  unfold levelFn physFn; split <;> simp

/-- `_pipe_address(_lvl_2_addr(L), 0)` with multicast allowed, closed form -/
theorem pipeAddress_levelFn {cfg : AddrCfg} {g : Nat → Nat} (hg : SfxFn cfg.sfx g)
    (ham : cfg.allowMulticast = true) {L : Nat} (hL : L ≤ 5) :
    pipeAddress cfg (lvl2addr L) 0 = .ok (levelFn cfg.pfx g L) := by
  obtain ⟨x, h1, h2⟩ := pipeAddress_level hg ham hL
  rw [levelAddrSpec_fn hg hL] at h1
  rw [h2, ← Option.some.inj h1]

/-- **who holds the level address.**  Pipe `p` of node `a` carries the address of level `L` exactly
    when it is pipe 0 and either the node allows multicast and sits on level `L`, or it does not
    allow multicast and is the master asked for level 0 (whose private pipe-0 address *is* the
    level-0 address in this addressing scheme). -/
theorem listenFn_eq_level_iff {pfx : Nat} {sfx : List Nat} (h : SfxOk pfx sfx) (am : Bool)
    {a : List Nat} (ha : IsNode a) {p : Nat} (hp : p ≤ 5) {L : Nat} (hL : L ≤ 5) :
    listenFn pfx (sfxFn sfx) am a p = levelFn pfx (sfxFn sfx) L ↔
      p = 0 ∧ ((am = true ∧ a.length = L) ∨ (am = false ∧ a = [] ∧ L = 0)) := by
  have hm : IsNode ([] : List Nat) := by decide
  have g0 := sfxFn_ne_pfx h hp
  -- the unicast form against a level address
  have phys : physFn pfx (sfxFn sfx) a p = levelFn pfx (sfxFn sfx) L ↔ a = [] ∧ p = 0 ∧ L = 0 := by
    unfold levelFn
    by_cases h0 : L = 0
    · subst h0
      rw [if_pos rfl]
      constructor
      · intro he
        have := physFn_inj h ha hm hp (Nat.zero_le 5) he
        exact ⟨this.1, this.2, rfl⟩
      · rintro ⟨rfl, rfl, _⟩; rfl
    · rw [if_neg h0]
      constructor
      · intro he
        simp only [physFn, List.cons.injEq] at he
        exact absurd he.1 g0
      · rintro ⟨_, _, h3⟩; exact absurd h3 h0
  unfold listenFn
  by_cases hc : p = 0 ∧ am = true ∧ a ≠ []
  · rw [if_pos hc]
    obtain ⟨hp0, ham, hne⟩ := hc
    subst hp0
    subst ham
    have hpos : 0 < a.length := List.length_pos_iff.mpr hne
    unfold levelFn
    by_cases h0 : L = 0
    · subst h0
      rw [if_pos rfl]
      constructor
      · intro he
        simp only [physFn, List.cons.injEq] at he
        exact absurd he.1.symm (sfxFn_ne_pfx h (Nat.zero_le 5))
      · rintro ⟨_, (⟨_, h2⟩ | ⟨h2, _⟩)⟩
        · omega
        · cases h2
    · rw [if_neg h0]
      constructor
      · intro he
        simp only [List.cons.injEq, true_and, and_true] at he
        exact ⟨rfl, Or.inl ⟨rfl, sfxFn_inj h (by have := ha.2; omega) hL he⟩⟩
      · rintro ⟨_, (⟨_, h2⟩ | ⟨h2, _⟩)⟩
        · rw [h2]
        · cases h2
  · rw [if_neg hc, phys]
    constructor
    · rintro ⟨rfl, rfl, rfl⟩
      refine ⟨rfl, ?_⟩
      cases am
      · exact Or.inr ⟨rfl, rfl, rfl⟩
      · exact Or.inl ⟨rfl, rfl⟩
    · rintro ⟨rfl, (⟨rfl, h2⟩ | ⟨_, rfl, rfl⟩)⟩
      · have : a = [] := by
          apply Classical.byContradiction
          intro hne
          exact hc ⟨rfl, rfl, hne⟩
        subst this
        exact ⟨rfl, rfl, h2.symm⟩
      · exact ⟨rfl, rfl, rfl⟩

/-- the decision "does the node on `ds` (allow_multicast = `am`) hold the address of level `L`" -/
def HoldsLevel (am : Bool) (ds : List Nat) (L : Nat) : Prop :=
  (am = true ∧ ds.length = L) ∨ (am = false ∧ ds = [] ∧ L = 0)

instance (am : Bool) (ds : List Nat) (L : Nat) : Decidable (HoldsLevel am ds L) := by
  unfold HoldsLevel; infer_instance

theorem bit_0x3E_0 : Radio.bit 0x3E 0 = false := by decide

section radio
variable {pfx : Nat} {sfx : List Nat} {am : Bool} {ds : List Nat} {r : Radio}

theorem rxAddr_listening (hl : Listening pfx sfx am ds r) (hc : SfxOk pfx sfx) (hn : IsNode ds)
    {p : Nat} (hp : p ≤ 5) : r.rxAddr p = listenFn pfx (sfxFn sfx) am ds p := by
  have := hl.addr p hp
  rw [listenSpec_eq (sfxFn_spec hc.1) am hn hp] at this
  exact Option.some.inj this

/-- the pipe on which a listening node's radio matches the address of level `L` -/
theorem matchPipe_level (hl : Listening pfx sfx am ds r) (hc : SfxOk pfx sfx) (hn : IsNode ds)
    {L : Nat} (hL : L ≤ 5) :
    r.matchPipe (levelFn pfx (sfxFn sfx) L) = if HoldsLevel am ds L then some 0 else none := by
  have key : ∀ p, p ≤ 5 →
      (Radio.bit r.enRxAddr p && (r.rxAddr p).take r.aw == levelFn pfx (sfxFn sfx) L)
        = decide (p = 0 ∧ HoldsLevel am ds L) := by
    intro p hp
    rw [hl.open_ p hp, hl.aw, rxAddr_listening hl hc hn hp, Bool.true_and,
      List.take_of_length_le (by rw [listenFn_length _ _ _ hn.2]; omega)]
    have hiff := listenFn_eq_level_iff hc am hn hp hL
    by_cases he : listenFn pfx (sfxFn sfx) am ds p = levelFn pfx (sfxFn sfx) L
    · have h2 : p = 0 ∧ HoldsLevel am ds L := hiff.mp he
      rw [decide_eq_true h2, beq_iff_eq]; exact he
    · have : ¬ (p = 0 ∧ HoldsLevel am ds L) := fun hx => he (hiff.mpr hx)
      rw [decide_eq_false this, beq_eq_false_iff_ne]; exact he
  unfold Radio.matchPipe
  simp only [List.find?_cons, List.find?_nil, key 0 (by omega), key 1 (by omega), key 2 (by omega),
    key 3 (by omega), key 4 (by omega), key 5 (by omega)]
  by_cases hh : HoldsLevel am ds L <;> simp [hh]

/-- **C14, who accepts.**  A packet on the address of level `L` (Enhanced ShockBurst, dynamic
    length, same channel / rate / CRC) is taken by the radio of a listening node — on pipe 0 —
    exactly when the node holds that level address. -/
theorem listensTo_level (hl : Listening pfx sfx am ds r) (hc : SfxOk pfx sfx) (hn : IsNode ds)
    {L : Nat} (hL : L ≤ 5) {k : Packet} (hk : McPacket (levelFn pfx (sfxFn sfx) L) k)
    (hcomp : Compatible r k) :
    r.listensTo k = if HoldsLevel am ds L then some 0 else none := by
  unfold Radio.listensTo
  obtain ⟨h1, h2, h3⟩ := hcomp
  have hesb : r.esb = true := by unfold Radio.esb; rw [hl.autoAck]; decide
  have hlen : k.addr.length = 5 := by rw [hk.addr, levelFn_length]
  have hcond : (r.rxMode && r.rfCh == k.ch && r.rate == k.rate && r.esb == k.esb && r.crcLen == k.crc
      && r.aw == k.addr.length) = true := by
    simp [hl.rx, h1, h2, h3, hesb, hk.esb, hl.aw, hlen]
  rw [if_pos hcond, hk.addr, matchPipe_level hl hc hn hL]
  by_cases hh : HoldsLevel am ds L
  · simp [hh, hesb, hl.dpl 0 (by omega), hk.dpl]
  · simp [hh]

/-- **C14, nobody acknowledges, and what is stored.**  Reception of such a packet by a listening
    node's radio: never an acknowledgement; the payload is appended once on pipe 0 iff the node
    holds the level address, the RX FIFO has room and the packet is not a repetition of the last
    accepted one (same PID, address, payload); otherwise the radio is unchanged. -/
theorem receive_level (hl : Listening pfx sfx am ds r) (hc : SfxOk pfx sfx) (hn : IsNode ds)
    {L : Nat} (hL : L ≤ 5) {k : Packet} (hk : McPacket (levelFn pfx (sfxFn sfx) L) k)
    (hcomp : Compatible r k) :
    (r.receive k).2 = none ∧
    (r.receive k).1.rxFifo =
      (if HoldsLevel am ds L ∧ r.rxFifo.length < 3 ∧
          r.lastRx ≠ some { pid := k.pid, addr := k.addr, data := k.data }
        then r.rxFifo ++ [{ pipe := 0, data := k.data }] else r.rxFifo) ∧
    (¬ (HoldsLevel am ds L ∧ r.rxFifo.length < 3 ∧
          r.lastRx ≠ some { pid := k.pid, addr := k.addr, data := k.data }) → (r.receive k).1 = r) := by
  unfold Radio.receive
  rw [listensTo_level hl hc hn hL hk hcomp]
  by_cases hh : HoldsLevel am ds L
  · simp only [if_pos hh, hk.esb, Bool.true_and, hl.autoAck, bit_0x3E_0, Bool.false_and]
    by_cases hd : r.lastRx = some { pid := k.pid, addr := k.addr, data := k.data }
    · simp [hd]
    · have hd' : (r.lastRx == some { pid := k.pid, addr := k.addr, data := k.data }) = false := by
        simpa using hd
      by_cases hroom : r.rxFifo.length < 3
      · have : ¬ (r.rxFifo.length ≥ 3) := by omega
        simp [hd', hd, hroom, this, hh]
      · have : r.rxFifo.length ≥ 3 := by omega
        simp [hd', hroom, this]
  · simp [hh]

/-- a radio that is not in RX mode takes nothing and acknowledges nothing -/
theorem receive_not_rx {r : Radio} (h : r.rxMode = false) (k : Packet) : r.receive k = (r, none) := by
  unfold Radio.receive Radio.listensTo
  simp [h]

end radio

/-! ### the world -/

/-- every radio other than the sender `s` is either not receiving, or the radio of a listening
    network node configured like the sender -/
def Populated (pfx : Nat) (sfx : List Nat) (w : World) (s : Nat) (k : Packet) : Prop :=
  ∀ i, i < w.radios.length → i ≠ s →
    (w.radio i).rxMode = false ∨
    ∃ am ds, IsNode ds ∧ Listening pfx sfx am ds (w.radio i) ∧ Compatible (w.radio i) k

theorem radio_deliver (w : World) (s : Nat) (k : Packet) (i : Nat) (hi : i < w.radios.length) :
    (w.deliver s k).1.radio i = if i = s then w.radio i else ((w.radio i).receive k).1 := by
  unfold World.deliver World.deliverEach World.radio
  simp only [List.getD_eq_getElem?_getD, List.map_map, List.getElem?_map, List.getElem?_zipIdx,
    List.getElem?_eq_getElem hi, Option.map_some, Function.comp, Option.getD_some, Nat.zero_add]
  split <;> rfl

theorem deliver_ack_none (w : World) (s : Nat) (k : Packet)
    (h : ∀ i, i < w.radios.length → i ≠ s → ((w.radio i).receive k).2 = none) :
    (w.deliver s k).2 = none := by
  unfold World.deliver
  simp only
  have : (w.deliverEach s k).filterMap (·.2) = [] := by
    rw [List.filterMap_eq_nil_iff]
    intro x hx
    unfold World.deliverEach at hx
    rw [List.mem_map] at hx
    obtain ⟨⟨r, i⟩, hm, rfl⟩ := hx
    have hm' := List.mem_zipIdx hm
    simp only [Nat.zero_add] at hm'
    obtain ⟨_, hlt, hr⟩ := hm'
    simp only
    split
    · rfl
    · rename_i hne
      have := h i (by simpa using hlt) hne
      unfold World.radio at this
      rw [List.getD_eq_getElem?_getD, List.getElem?_eq_getElem (by simpa using hlt)] at this
      simp only [Option.getD_some] at this
      rw [hr]
      exact this
  rw [this]; rfl

end Nrf.Proofs.McastK
