/-
Helper lemmas for C16: Python-dict association lists, `set_address`, the `_dhcp` loop, octal digit
lists, persistence.
-/
import NrfModel.Mesh.Dhcp
import NrfModel.Spec.Lease
import NrfProofs.Addr

namespace Nrf.Proofs.Lease
open Nrf Nrf.Net Nrf.Mesh Nrf.Spec

/-- keys of a table -/
abbrev keys (t : Table) : List Nat := t.map Prod.fst
/-- addresses of a table -/
abbrev addrs (t : Table) : List Nat := t.map Prod.snd

theorem mem_keys_of_mem {t : Table} {j b : Nat} (h : (j, b) ∈ t) : j ∈ keys t :=
  List.mem_map.mpr ⟨(j, b), h, rfl⟩

theorem mem_addrs_of_mem {t : Table} {j b : Nat} (h : (j, b) ∈ t) : b ∈ addrs t :=
  List.mem_map.mpr ⟨(j, b), h, rfl⟩

/-! ### `d[k] = v` -/

theorem keys_dictSet_of_mem {t : Table} {k : Nat} (v : Nat) (h : k ∈ keys t) :
    keys (dictSet t k v) = keys t := by
  induction t with
  | nil => simp [keys] at h
  | cons e rest ih =>
    obtain ⟨k', v'⟩ := e
    unfold dictSet
    by_cases hk : k' = k
    · simp [hk, keys]
    · have : k ∈ keys rest := by
        simp [keys] at h
        rcases h with h | h
        · exact absurd h.symm hk
        · simpa [keys] using h
      simp [hk, keys]
      simpa [keys] using ih this

theorem dictSet_of_not_mem {t : Table} {k : Nat} (v : Nat) (h : k ∉ keys t) :
    dictSet t k v = t ++ [(k, v)] := by
  induction t with
  | nil => rfl
  | cons e rest ih =>
    obtain ⟨k', v'⟩ := e
    unfold dictSet
    have hk : k' ≠ k := by
      intro hk; apply h; simp [keys, hk]
    have : k ∉ keys rest := by
      intro hm; apply h; simp [keys] at hm ⊢; exact Or.inr hm
    simp [hk, ih this]

theorem keys_nodup_dictSet {t : Table} (k v : Nat) (h : (keys t).Nodup) :
    (keys (dictSet t k v)).Nodup := by
  by_cases hk : k ∈ keys t
  · rw [keys_dictSet_of_mem v hk]; exact h
  · rw [dictSet_of_not_mem v hk]
    simp only [keys, List.map_append, List.map_cons, List.map_nil]
    rw [List.nodup_append]
    refine ⟨h, by simp, ?_⟩
    intro a ha b hb
    simp at hb
    subst hb
    intro hab; subst hab; exact hk ha

theorem mem_dictSet {t : Table} (k v : Nat) (h : (keys t).Nodup) (j b : Nat) :
    (j, b) ∈ dictSet t k v ↔ (j = k ∧ b = v) ∨ (j ≠ k ∧ (j, b) ∈ t) := by
  induction t with
  | nil => simp [dictSet]
  | cons e rest ih =>
    obtain ⟨k', v'⟩ := e
    have hn : k' ∉ keys rest ∧ (keys rest).Nodup := by simpa [keys] using h
    unfold dictSet
    by_cases hk : k' = k
    · subst hk
      simp only [↓reduceIte, List.mem_cons, Prod.mk.injEq]
      constructor
      · rintro (⟨rfl, rfl⟩ | hm)
        · exact Or.inl ⟨rfl, rfl⟩
        · right
          refine ⟨?_, Or.inr hm⟩
          rintro rfl
          exact hn.1 (mem_keys_of_mem hm)
      · rintro (⟨rfl, rfl⟩ | ⟨hne, (⟨rfl, _⟩ | hm)⟩)
        · exact Or.inl ⟨rfl, rfl⟩
        · exact absurd rfl hne
        · exact Or.inr hm
    · simp only [hk, ↓reduceIte, List.mem_cons, Prod.mk.injEq, ih hn.2]
      constructor
      · rintro (⟨rfl, rfl⟩ | ⟨rfl, rfl⟩ | ⟨hne, hm⟩)
        · exact Or.inr ⟨hk, Or.inl ⟨rfl, rfl⟩⟩
        · exact Or.inl ⟨rfl, rfl⟩
        · exact Or.inr ⟨hne, Or.inr hm⟩
      · rintro (⟨rfl, rfl⟩ | ⟨hne, (⟨rfl, rfl⟩ | hm)⟩)
        · exact Or.inr (Or.inl ⟨rfl, rfl⟩)
        · exact Or.inl ⟨rfl, rfl⟩
        · exact Or.inr (Or.inr ⟨hne, hm⟩)

/-! ### `del d[k]` -/

theorem dictDel_of_not_mem {t : Table} {k : Nat} (h : k ∉ keys t) : dictDel t k = t := by
  induction t with
  | nil => rfl
  | cons e rest ih =>
    obtain ⟨k', v'⟩ := e
    unfold dictDel
    have hk : k' ≠ k := by
      intro hk; apply h; simp [keys, hk]
    have : k ∉ keys rest := by
      intro hm; apply h; simp [keys] at hm ⊢; exact Or.inr hm
    simp [hk, ih this]

theorem mem_dictDel {t : Table} (k : Nat) (h : (keys t).Nodup) (j b : Nat) :
    (j, b) ∈ dictDel t k ↔ j ≠ k ∧ (j, b) ∈ t := by
  induction t with
  | nil => simp [dictDel]
  | cons e rest ih =>
    obtain ⟨k', v'⟩ := e
    have hn : k' ∉ keys rest ∧ (keys rest).Nodup := by simpa [keys] using h
    unfold dictDel
    by_cases hk : k' = k
    · subst hk
      simp only [↓reduceIte, List.mem_cons, Prod.mk.injEq]
      constructor
      · intro hm
        refine ⟨?_, Or.inr hm⟩
        rintro rfl
        exact hn.1 (mem_keys_of_mem hm)
      · rintro ⟨hne, (⟨rfl, _⟩ | hm)⟩
        · exact absurd rfl hne
        · exact hm
    · simp only [hk, ↓reduceIte, List.mem_cons, Prod.mk.injEq, ih hn.2]
      constructor
      · rintro (⟨rfl, rfl⟩ | ⟨hne, hm⟩)
        · exact ⟨hk, Or.inl ⟨rfl, rfl⟩⟩
        · exact ⟨hne, Or.inr hm⟩
      · rintro ⟨hne, (⟨rfl, rfl⟩ | hm)⟩
        · exact Or.inl ⟨rfl, rfl⟩
        · exact Or.inr ⟨hne, hm⟩

theorem keys_dictDel_sublist (t : Table) (k : Nat) : (keys (dictDel t k)).Sublist (keys t) := by
  induction t with
  | nil => simp [dictDel]
  | cons e rest ih =>
    obtain ⟨k', v'⟩ := e
    unfold dictDel
    by_cases hk : k' = k
    · simp [hk, keys]
    · simp only [hk, ↓reduceIte, keys, List.map_cons]
      exact List.Sublist.cons_cons _ ih

theorem keys_nodup_dictDel {t : Table} (k : Nat) (h : (keys t).Nodup) :
    (keys (dictDel t k)).Nodup :=
  List.Nodup.sublist (keys_dictDel_sublist t k) h

/-! ### `set_address` -/

theorem setAddressGo_false (full rest : Table) (id a : Nat) :
    setAddressGo full id a false rest = dictSet full id a := by
  induction rest with
  | nil => rfl
  | cons e rest ih =>
    obtain ⟨n, b⟩ := e
    unfold setAddressGo
    by_cases hn : n = id
    · simp [hn]
    · simp [hn, ih]

theorem setAddress_false (t : Table) (id a : Nat) : setAddress t id a false = dictSet t id a :=
  setAddressGo_false t t id a

/-- the entry `set_address(…, search_by_address=True)` removes: the first holder of the address -/
def firstHolder (a : Nat) : Table → Option Nat
  | [] => none
  | (n, b) :: rest => if b = a then some n else firstHolder a rest

theorem setAddressGo_true (full rest : Table) (id a : Nat) :
    setAddressGo full id a true rest =
      match firstHolder a rest with
      | some n => dictSet (dictDel full n) id a
      | none => dictSet full id a := by
  induction rest with
  | nil => rfl
  | cons e rest ih =>
    obtain ⟨n, b⟩ := e
    unfold setAddressGo firstHolder
    by_cases hb : b = a
    · simp [hb]
    · simp [hb, ih]

theorem firstHolder_some {a n : Nat} {t : Table} (h : firstHolder a t = some n) : (n, a) ∈ t := by
  induction t with
  | nil => simp [firstHolder] at h
  | cons e rest ih =>
    obtain ⟨n', b⟩ := e
    unfold firstHolder at h
    by_cases hb : b = a
    · simp [hb] at h; subst h; subst hb; simp
    · simp [hb] at h; exact List.mem_cons_of_mem _ (ih h)

theorem firstHolder_none {a : Nat} {t : Table} (h : firstHolder a t = none) : a ∉ addrs t := by
  induction t with
  | nil => simp
  | cons e rest ih =>
    obtain ⟨n', b⟩ := e
    unfold firstHolder at h
    by_cases hb : b = a
    · simp [hb] at h
    · simp [hb] at h
      simp only [addrs, List.map_cons, List.mem_cons, not_or]
      exact ⟨fun h' => hb h'.symm, ih h⟩

/-- a table is a partial injection: one lease per ID, one ID per address -/
structure Inj (t : Table) : Prop where
  keysNodup : (keys t).Nodup
  addrInj : ∀ i j a, (i, a) ∈ t → (j, a) ∈ t → i = j

theorem Inj.val_unique {t : Table} (h : Inj t) {i a b : Nat} (ha : (i, a) ∈ t) (hb : (i, b) ∈ t) :
    a = b := by
  have hk := h.keysNodup
  clear h
  induction t with
  | nil => simp at ha
  | cons e rest ih =>
    have hn : e.1 ∉ keys rest ∧ (keys rest).Nodup := by simpa [keys] using hk
    simp only [List.mem_cons] at ha hb
    rcases ha with ha | ha <;> rcases hb with hb | hb
    · rw [← ha] at hb; exact (Prod.mk.inj hb).2.symm ▸ rfl
    · exfalso; apply hn.1; rw [← ha]; exact mem_keys_of_mem hb
    · exfalso; apply hn.1; rw [← hb]; exact mem_keys_of_mem ha
    · exact ih ha hb hn.2

/-- membership after `set_address(id, a, search_by_address=True)` in an injective table: `id` holds
    `a`, the previous holder of `a` is gone, everybody else is untouched -/
theorem mem_setAddress_true {t : Table} (h : Inj t) (id a j b : Nat) :
    (j, b) ∈ setAddress t id a true ↔ (j = id ∧ b = a) ∨ (j ≠ id ∧ b ≠ a ∧ (j, b) ∈ t) := by
  unfold setAddress
  rw [setAddressGo_true]
  cases hf : firstHolder a t with
  | none =>
    simp only
    rw [mem_dictSet _ _ h.keysNodup]
    have hna := firstHolder_none hf
    constructor
    · rintro (h1 | ⟨hne, hm⟩)
      · exact Or.inl h1
      · refine Or.inr ⟨hne, ?_, hm⟩
        rintro rfl; exact hna (mem_addrs_of_mem hm)
    · rintro (h1 | ⟨hne, _, hm⟩)
      · exact Or.inl h1
      · exact Or.inr ⟨hne, hm⟩
  | some n =>
    simp only
    have hn := firstHolder_some hf
    rw [mem_dictSet _ _ (keys_nodup_dictDel n h.keysNodup), mem_dictDel _ h.keysNodup]
    constructor
    · rintro (h1 | ⟨hne, hjn, hm⟩)
      · exact Or.inl h1
      · refine Or.inr ⟨hne, ?_, hm⟩
        rintro rfl; exact hjn (h.addrInj _ _ _ hm hn)
    · rintro (h1 | ⟨hne, hba, hm⟩)
      · exact Or.inl h1
      · refine Or.inr ⟨hne, ?_, hm⟩
        rintro rfl; exact hba (h.val_unique hm hn)

theorem keys_nodup_setAddress {t : Table} (h : (keys t).Nodup) (id a : Nat) (by_ : Bool) :
    (keys (setAddress t id a by_)).Nodup := by
  cases by_ with
  | false => rw [setAddress_false]; exact keys_nodup_dictSet _ _ h
  | true =>
    unfold setAddress
    rw [setAddressGo_true]
    cases firstHolder a t with
    | none => exact keys_nodup_dictSet _ _ h
    | some n => exact keys_nodup_dictSet _ _ (keys_nodup_dictDel n h)

theorem inj_setAddress_true {t : Table} (h : Inj t) (id a : Nat) : Inj (setAddress t id a true) := by
  refine ⟨keys_nodup_setAddress h.keysNodup _ _ _, ?_⟩
  intro i j c hi hj
  rw [mem_setAddress_true h] at hi hj
  rcases hi with ⟨rfl, rfl⟩ | ⟨_, hc, hi⟩ <;> rcases hj with ⟨rfl, hc'⟩ | ⟨_, hc', hj⟩
  · rfl
  · exact absurd rfl hc'
  · exact absurd hc' hc
  · exact h.addrInj _ _ _ hi hj

/-- `set_address(id, a)` when no other ID holds `a` keeps the table injective -/
theorem inj_dictSet {t : Table} (h : Inj t) (id a : Nat)
    (hfree : ∀ j, (j, a) ∈ t → j = id) : Inj (dictSet t id a) := by
  refine ⟨keys_nodup_dictSet _ _ h.keysNodup, ?_⟩
  intro i j c hi hj
  rw [mem_dictSet _ _ h.keysNodup] at hi hj
  rcases hi with ⟨rfl, rfl⟩ | ⟨hi1, hi⟩ <;> rcases hj with ⟨rfl, hc'⟩ | ⟨hj1, hj⟩
  · rfl
  · exact (hj1 (hfree _ hj)).elim
  · subst hc'; exact (hi1 (hfree _ hi)).elim
  · exact h.addrInj _ _ _ hi hj

/-! ### octal digit lists -/

theorem val_lt {ds : List Nat} (h : DigitsOk ds) : val ds < 8 ^ ds.length := by
  induction ds with
  | nil => simp [val]
  | cons d ds ih =>
    rw [Nrf.Proofs.digitsOk_cons] at h
    have := ih h.2
    simp only [val, List.length_cons, Nat.pow_succ]
    omega

theorem val_append_single (ds : List Nat) (i : Nat) : val (ds ++ [i]) = val ds + 8 ^ ds.length * i := by
  induction ds with
  | nil => simp [val]
  | cons d ds ih =>
    simp only [List.cons_append, val, ih, List.length_cons, Nat.pow_succ]
    rw [Nat.mul_add, Nat.add_assoc, Nat.mul_comm (8 ^ ds.length) 8, Nat.mul_assoc]

theorem shiftLoop_val {ds : List Nat} (h : DigitsOk ds) (s : Nat) :
    shiftLoop (val ds) s = s + 3 * ds.length := by
  induction ds generalizing s with
  | nil => unfold shiftLoop; simp [val]
  | cons d ds ih =>
    rw [Nrf.Proofs.digitsOk_cons] at h
    unfold shiftLoop
    have hne : val (d :: ds) ≠ 0 := by simp only [val]; omega
    have hdiv : val (d :: ds) >>> 3 = val ds := by
      rw [Nrf.Proofs.shr3]; simp only [val]; omega
    simp only [hne, ↓reduceIte, hdiv, ih h.2, List.length_cons]
    omega

/-- the candidate `via_node | (i << shift_val)` of `_dhcp` is child `i` of the relay -/
theorem slot_eq_child {ds : List Nat} (h : DigitsOk ds) (i : Nat) :
    val ds ||| (i <<< (3 * ds.length)) = child ds i := by
  have hlt : val ds < 2 ^ (3 * ds.length) := by
    have := val_lt h
    rwa [Nat.pow_mul]
  rw [Nat.or_comm, ← Nat.shiftLeft_add_eq_or_of_lt hlt, Nat.shiftLeft_eq, Nat.pow_mul]
  unfold child
  rw [val_append_single]
  simp only [Nat.reducePow]
  rw [Nat.mul_comm, Nat.add_comm]

theorem digitsOk_append_single {ds : List Nat} {i : Nat} (h : DigitsOk ds) (hi : 1 ≤ i ∧ i ≤ 5) :
    DigitsOk (ds ++ [i]) := by
  intro d hd
  rcases List.mem_append.mp hd with hd | hd
  · exact h d hd
  · simp at hd; subst hd; exact hi

theorem child_injective {ds : List Nat} {i j : Nat} (h : child ds i = child ds j) : i = j := by
  unfold child at h
  rw [val_append_single, val_append_single] at h
  have hp : 0 < 8 ^ ds.length := Nat.pow_pos (by decide)
  have := Nat.add_left_cancel h
  exact Nat.eq_of_mul_eq_mul_left hp this

theorem child_ne_zero {ds : List Nat} {i : Nat} (hi : 1 ≤ i) : child ds i ≠ 0 := by
  unfold child
  rw [val_append_single]
  have hp : 0 < 8 ^ ds.length := Nat.pow_pos (by decide)
  have : 0 < 8 ^ ds.length * i := Nat.mul_pos hp hi
  omega

/-- a child 1..5 of a node of level 0..3 can be leased unless it is the unassigned address -/
theorem leasable_child {ds : List Nat} {i : Nat} (hn : IsNode ds) (hl : ds.length ≤ 3)
    (hi : 1 ≤ i ∧ i ≤ 5) (hne : child ds i ≠ UNASSIGNED) : Leasable (child ds i) :=
  ⟨hne, ds ++ [i], ⟨digitsOk_append_single hn.1 hi, by simp; omega⟩, by simp, rfl⟩

theorem leasable_ne_zero {a : Nat} (h : Leasable a) : a ≠ 0 := by
  obtain ⟨_, ds, hn, hne, rfl⟩ := h
  cases ds with
  | nil => exact absurd rfl hne
  | cons d ds =>
    have := (Nrf.Proofs.digitsOk_cons.mp hn.1).1
    simp only [val]; omega

theorem leasable_lt {a : Nat} (h : Leasable a) : a < 4096 := by
  obtain ⟨_, ds, hn, _, rfl⟩ := h
  have h1 := val_lt hn.1
  have h2 : 8 ^ ds.length ≤ 8 ^ 4 := Nat.pow_le_pow_right (by decide) hn.2
  have : (8:Nat) ^ 4 = 4096 := by decide
  omega

theorem leasable_valid {a : Nat} (h : Leasable a) : ValidAddr a := by
  obtain ⟨_, ds, hn, _, hv⟩ := h
  exact Or.inr ⟨ds, hn, hv⟩

/-- a relay of level 0..3 never has the unassigned address -/
theorem relay_ne_default {ds : List Nat} (hn : IsNode ds) (hl : ds.length ≤ 3) :
    val ds ≠ NETWORK_DEFAULT_ADDR := by
  have h1 := val_lt hn.1
  have h2 : 8 ^ ds.length ≤ 8 ^ 3 := Nat.pow_le_pow_right (by decide) hl
  have : (8:Nat) ^ 3 = 512 := by decide
  simp only [NETWORK_DEFAULT_ADDR]
  omega

/-! ### the `_dhcp` loop -/

theorem packHNat_ok {a : Nat} (h : a < 65536) : packHNat a = .ok [a % 256, a / 256] := by
  unfold packHNat; rw [if_pos h]

/-- `packHNat` is `packH` on naturals -/
theorem packHNat_eq_packH (a : Nat) : packHNat a = packH (a : Int) := by
  unfold packHNat packH
  have h1 : (0 : Int) ≤ (a : Int) := Int.natCast_nonneg a
  by_cases h : a < 65536
  · have h2 : (a : Int) < 65536 := by omega
    simp [h, h1, h2]
  · have h2 : ¬ (a : Int) < 65536 := by omega
    simp [h, h2]

theorem collisionScan_iff (a id : Nat) (t : Table) :
    collisionScan a id t = true ↔ ∃ j, j ≠ id ∧ (j, a) ∈ t := by
  induction t with
  | nil => simp [collisionScan]
  | cons e rest ih =>
    obtain ⟨n, b⟩ := e
    unfold collisionScan
    by_cases hc : b = a ∧ n ≠ id
    · rw [if_pos hc]
      simp only [true_iff]
      exact ⟨n, hc.2, by simp [hc.1]⟩
    · rw [if_neg hc, ih]
      simp only [List.mem_cons, Prod.mk.injEq]
      constructor
      · rintro ⟨j, hj, hm⟩; exact ⟨j, hj, Or.inr hm⟩
      · rintro ⟨j, hj, (⟨rfl, rfl⟩ | hm)⟩
        · exact absurd ⟨rfl, hj⟩ hc
        · exact ⟨j, hj, hm⟩

/-- the response frame `_dhcp` builds -/
def replyOf (fromNode id a : Nat) : Write :=
  { writeDirect := fromNode
    sendType := if fromNode ≠ NETWORK_DEFAULT_ADDR then TX_NORMAL else TX_PHYSICAL
    hdrFrom := fromNode, hdrTo := fromNode, hdrType := MESH_ADDR_RESPONSE, hdrReserved := id
    message := [a % 256, a / 256] }

/-- the `_write` calls `_dhcp` makes: once; twice for a relayed request whose first call failed -/
def repliesOf (fromNode id a : Nat) (w1 : Bool) : List Write :=
  if fromNode ≠ NETWORK_DEFAULT_ADDR ∧ w1 = false then [replyOf fromNode id a, replyOf fromNode id a]
  else [replyOf fromNode id a]

/-- candidate `i` cannot be handed out to `id` -/
def Blocked (t : Table) (id via sh i : Nat) : Prop :=
  via ||| (i <<< sh) = NETWORK_DEFAULT_ADDR ∨ collisionScan (via ||| (i <<< sh)) id t = true

/-- What the candidate loop does: nothing when every candidate is blocked, otherwise it hands out the
    highest candidate that is not blocked (by `set_address`) and replies. -/
theorem dhcpLoop_spec (t : Table) (fromNode id via sh : Nat) (w1 : Bool) (n : Nat)
    (hlt : ∀ i, 1 ≤ i → i ≤ n → via ||| (i <<< sh) < 65536) :
    (dhcpLoop t fromNode id via sh w1 n = (t, {}) ∧ ∀ i, 1 ≤ i → i ≤ n → Blocked t id via sh i) ∨
    (∃ i, 1 ≤ i ∧ i ≤ n ∧ ¬ Blocked t id via sh i ∧ (∀ j, i < j → j ≤ n → Blocked t id via sh j) ∧
      dhcpLoop t fromNode id via sh w1 n =
        (setAddress t id (via ||| (i <<< sh)),
         { writes := repliesOf fromNode id (via ||| (i <<< sh)) w1 })) := by
  induction n with
  | zero =>
    left
    exact ⟨by rw [dhcpLoop], fun i h1 h2 => by omega⟩
  | succ n ih =>
    have ih' := ih (fun i h1 h2 => hlt i h1 (by omega))
    rw [dhcpLoop]
    by_cases hd : via ||| ((n + 1) <<< sh) = NETWORK_DEFAULT_ADDR
    · simp only [hd, ↓reduceIte]
      have hb : Blocked t id via sh (n + 1) := Or.inl hd
      rcases ih' with ⟨he, hall⟩ | ⟨i, h1, h2, hnb, hab, he⟩
      · left
        refine ⟨he, fun i h1 h2 => ?_⟩
        by_cases hi : i = n + 1
        · subst hi; exact hb
        · exact hall i h1 (by omega)
      · right
        refine ⟨i, h1, by omega, hnb, fun j hj1 hj2 => ?_, he⟩
        by_cases hj : j = n + 1
        · subst hj; exact hb
        · exact hab j hj1 (by omega)
    · simp only [hd, ↓reduceIte]
      by_cases hc : collisionScan (via ||| ((n + 1) <<< sh)) id t = true
      · simp only [hc, ↓reduceIte]
        have hb : Blocked t id via sh (n + 1) := Or.inr hc
        rcases ih' with ⟨he, hall⟩ | ⟨i, h1, h2, hnb, hab, he⟩
        · left
          refine ⟨he, fun i h1 h2 => ?_⟩
          by_cases hi : i = n + 1
          · subst hi; exact hb
          · exact hall i h1 (by omega)
        · right
          refine ⟨i, h1, by omega, hnb, fun j hj1 hj2 => ?_, he⟩
          by_cases hj : j = n + 1
          · subst hj; exact hb
          · exact hab j hj1 (by omega)
      · right
        refine ⟨n + 1, by omega, Nat.le_refl _, ?_, fun j hj1 hj2 => by omega, ?_⟩
        · rintro (h | h)
          · exact hd h
          · exact hc h
        · simp only [hc, Bool.false_eq_true, ↓reduceIte]
          unfold dhcpReply
          rw [packHNat_ok (hlt (n + 1) (by omega) (Nat.le_refl _))]
          simp only [repliesOf, replyOf]
          by_cases hf : fromNode = NETWORK_DEFAULT_ADDR
          · simp [hf]
          · cases w1 <;> simp [hf]

/-! ### `_dhcp` on the requests the property speaks about -/

/-- A request with `from_node = fromNode` arrived directly from the unassigned requester (parent:
    the master, `via = []`) or was relayed by the node with digits `via` (level 0..3). -/
def Arrives (fromNode : Nat) (via : List Nat) (direct : Bool) : Prop :=
  (direct = true ∧ via = [] ∧ fromNode = NETWORK_DEFAULT_ADDR) ∨
  (direct = false ∧ IsNode via ∧ via.length ≤ 3 ∧ val via = fromNode)

theorem default_eq : NETWORK_DEFAULT_ADDR = UNASSIGNED := rfl

/-- candidate `i` below `via` cannot be handed out to `id` -/
def SlotBlocked (t : Table) (id : Nat) (via : List Nat) (i : Nat) : Prop :=
  child via i = UNASSIGNED ∨ LeasedToOther t id (child via i)

theorem child_lt {via : List Nat} {i : Nat} (hn : DigitsOk via) (hl : via.length ≤ 3)
    (hi : 1 ≤ i ∧ i ≤ 5) : child via i < 4096 := by
  have h1 := val_lt (digitsOk_append_single hn hi)
  have h2 : 8 ^ (via ++ [i]).length ≤ 8 ^ 4 :=
    Nat.pow_le_pow_right (by decide) (by simp; omega)
  have : (8:Nat) ^ 4 = 4096 := by decide
  unfold child
  omega

/-- `_dhcp` either changes nothing and sends nothing (every candidate below the parent is the
    unassigned address or leased to another ID), or gives `id` the highest candidate that is not
    blocked — by `dhcp_dict[id] = address` — and replies. -/
theorem dhcp_spec (t : Table) {fromNode : Nat} {via : List Nat} {direct : Bool}
    (harr : Arrives fromNode via direct) (id : Nat) (w1 : Bool) :
    (dhcp t fromNode id w1 = (t, {}) ∧
      ∀ i, 1 ≤ i → i ≤ capacity direct → SlotBlocked t id via i) ∨
    (∃ i, 1 ≤ i ∧ i ≤ capacity direct ∧ ¬ SlotBlocked t id via i ∧
      (∀ j, i < j → j ≤ capacity direct → SlotBlocked t id via j) ∧
      dhcp t fromNode id w1 =
        (dictSet t id (child via i), { writes := repliesOf fromNode id (child via i) w1 })) := by
  -- the loop's parameters
  obtain ⟨vn, sh, hdhcp, hslot, hdig⟩ :
      ∃ vn sh, dhcp t fromNode id w1 = dhcpLoop t fromNode id vn sh w1 (capacity direct) ∧
        (∀ i, vn ||| (i <<< sh) = child via i) ∧ DigitsOk via ∧ via.length ≤ 3 := by
    rcases harr with ⟨hd, hv, hf⟩ | ⟨hd, hn, hl, hv⟩
    · subst hd hv hf
      refine ⟨0, 0, ?_, ?_, by simp [DigitsOk], by simp⟩
      · simp [dhcp, capacity, MESH_MAX_CHILDREN]
      · intro i; simp [child, val]
    · subst hd
      have hne : fromNode ≠ NETWORK_DEFAULT_ADDR := hv ▸ relay_ne_default hn hl
      refine ⟨val via, 3 * via.length, ?_, fun i => slot_eq_child hn.1 i, hn.1, hl⟩
      subst hv
      have hsl := shiftLoop_val hn.1 0
      simp [dhcp, hne, capacity, MESH_MAX_CHILDREN, hsl]
  have hblocked : ∀ i, Blocked t id vn sh i ↔ SlotBlocked t id via i := by
    intro i
    unfold Blocked SlotBlocked LeasedToOther
    rw [hslot i, collisionScan_iff, default_eq]
  have hcap : capacity direct ≤ 5 := by unfold capacity; split <;> omega
  have hlt : ∀ i, 1 ≤ i → i ≤ capacity direct → vn ||| (i <<< sh) < 65536 := by
    intro i h1 h2
    rw [hslot i]
    have := child_lt hdig.1 hdig.2 (i := i) ⟨h1, by omega⟩
    omega
  rw [hdhcp]
  rcases dhcpLoop_spec t fromNode id vn sh w1 (capacity direct) hlt with
    ⟨he, hall⟩ | ⟨i, h1, h2, hnb, hab, he⟩
  · left
    exact ⟨he, fun i h1 h2 => (hblocked i).mp (hall i h1 h2)⟩
  · right
    refine ⟨i, h1, h2, fun h => hnb ((hblocked i).mpr h),
      fun j hj1 hj2 => (hblocked j).mp (hab j hj1 hj2), ?_⟩
    rw [he, hslot i, setAddress_false]

/-! ### the invariant -/

theorem inj_of_inv {t : Table} (h : Inv t) : Inj t := ⟨h.oneLeasePerId, h.oneIdPerAddr⟩

theorem inv_nil : Inv ([] : Table) :=
  ⟨by simp, by simp, by simp, by simp⟩

/-- a table whose entries all come from a table satisfying the invariant satisfies it, provided
    its keys are still distinct -/
theorem inv_of_subset {t t' : Table} (h : Inv t) (hk : (keys t').Nodup)
    (hs : ∀ j b, (j, b) ∈ t' → (j, b) ∈ t) : Inv t' :=
  ⟨hk, fun i j a hi hj => h.oneIdPerAddr i j a (hs _ _ hi) (hs _ _ hj),
   fun i a hi => h.leasable i a (hs _ _ hi), fun i a hi => h.idByte i a (hs _ _ hi)⟩

/-- `dhcp_dict[id] = a` for a leasable `a` that no other ID holds -/
theorem inv_dictSet {t : Table} (h : Inv t) {id a : Nat} (hid : id < 256) (ha : Leasable a)
    (hfree : ¬ LeasedToOther t id a) : Inv (dictSet t id a) := by
  have hinj := inj_dictSet (inj_of_inv h) id a (fun j hj => by
    by_cases hji : j = id
    · exact hji
    · exact absurd ⟨j, hji, hj⟩ hfree)
  refine ⟨hinj.keysNodup, hinj.addrInj, ?_, ?_⟩
  · intro i b hm
    rw [mem_dictSet _ _ h.oneLeasePerId] at hm
    rcases hm with ⟨_, rfl⟩ | ⟨_, hm⟩
    · exact ha
    · exact h.leasable _ _ hm
  · intro i b hm
    rw [mem_dictSet _ _ h.oneLeasePerId] at hm
    rcases hm with ⟨rfl, _⟩ | ⟨_, hm⟩
    · exact hid
    · exact h.idByte _ _ hm

/-- `set_address(id, a, True)` for a leasable `a`: whoever held `a` loses it -/
theorem inv_setAddress_true {t : Table} (h : Inv t) {id a : Nat} (hid : id < 256)
    (ha : Leasable a) : Inv (setAddress t id a true) := by
  have hinj := inj_setAddress_true (inj_of_inv h) id a
  refine ⟨hinj.keysNodup, hinj.addrInj, ?_, ?_⟩
  · intro i b hm
    rw [mem_setAddress_true (inj_of_inv h)] at hm
    rcases hm with ⟨_, rfl⟩ | ⟨_, _, hm⟩
    · exact ha
    · exact h.leasable _ _ hm
  · intro i b hm
    rw [mem_setAddress_true (inj_of_inv h)] at hm
    rcases hm with ⟨rfl, _⟩ | ⟨_, _, hm⟩
    · exact hid
    · exact h.idByte _ _ hm

/-! ### master `release_address` -/

theorem releaseScan_eq (full rest : Table) (a : Nat) :
    releaseScan full a rest =
      match firstHolder a rest with
      | some n => (dictDel full n, true)
      | none => (full, false) := by
  induction rest with
  | nil => rfl
  | cons e rest ih =>
    obtain ⟨n, b⟩ := e
    unfold releaseScan firstHolder
    by_cases hb : b = a
    · simp [hb]
    · simp [hb, ih]

/-- after a release of `a` nobody holds `a`; every other lease is untouched -/
theorem mem_releaseScan {t : Table} (h : Inj t) (a j b : Nat) :
    (j, b) ∈ (releaseScan t a t).1 ↔ b ≠ a ∧ (j, b) ∈ t := by
  rw [releaseScan_eq]
  cases hf : firstHolder a t with
  | none =>
    have hna := firstHolder_none hf
    simp only
    constructor
    · intro hm
      exact ⟨fun hb => hna (hb ▸ mem_addrs_of_mem hm), hm⟩
    · exact fun hm => hm.2
  | some n =>
    have hn := firstHolder_some hf
    simp only
    rw [mem_dictDel _ h.keysNodup]
    constructor
    · rintro ⟨hjn, hm⟩
      exact ⟨fun hb => hjn (h.addrInj _ _ _ (hb ▸ hm) hn), hm⟩
    · rintro ⟨hba, hm⟩
      exact ⟨fun hj => hba (h.val_unique (hj ▸ hm) hn), hm⟩

theorem keys_nodup_releaseScan {t : Table} (h : (keys t).Nodup) (a : Nat) :
    (keys (releaseScan t a t).1).Nodup := by
  rw [releaseScan_eq]
  cases firstHolder a t with
  | none => exact h
  | some n => exact keys_nodup_dictDel n h

theorem inv_releaseScan {t : Table} (h : Inv t) (a : Nat) : Inv (releaseScan t a t).1 :=
  inv_of_subset h (keys_nodup_releaseScan h.oneLeasePerId a)
    (fun j b hm => ((mem_releaseScan (inj_of_inv h) a j b).mp hm).2)

theorem releaseAddress_table (m : Master) (a rs : Nat) (w1 : Bool) :
    (releaseAddress m a rs w1).1.table = if a = 0 then m.table else (releaseScan m.table a m.table).1 := by
  unfold releaseAddress
  by_cases ha : a = 0
  · simp only [ha, ↓reduceIte]
    cases m.abandoned <;> cases w1 <;> rfl
  · simp only [ha, ↓reduceIte]

/-! ### persistence -/

/-- what both branches of `load_dhcp` do with the `(id, address)` pairs of a file -/
def loadPairs (t : Table) (ps : Table) : Table :=
  ps.foldl (fun t e => setAddress t e.1 e.2 true) t

theorem loadPairs_cons (t : Table) (e : Nat × Nat) (ps : Table) :
    loadPairs t (e :: ps) = loadPairs (setAddress t e.1 e.2 true) ps := rfl

/-! decimal keys -/

theorem decDigitsLE_lt (f n : Nat) : ∀ d ∈ decDigitsLE f n, d < 10 := by
  induction f generalizing n with
  | zero => simp [decDigitsLE]
  | succ f ih =>
    unfold decDigitsLE
    by_cases h : n < 10
    · simp [h]
    · simp only [h, ↓reduceIte, List.mem_cons, forall_eq_or_imp]
      exact ⟨by omega, ih (n / 10)⟩

theorem decDigitsLE_ne_nil (f n : Nat) : decDigitsLE (f + 1) n ≠ [] := by
  unfold decDigitsLE
  by_cases h : n < 10 <;> simp [h]

theorem ofDecLE_decDigitsLE (f n : Nat) (h : n < 10 ^ f) : ofDecLE (decDigitsLE f n) = n := by
  induction f generalizing n with
  | zero => simp at h; subst h; rfl
  | succ f ih =>
    unfold decDigitsLE
    by_cases h10 : n < 10
    · simp [h10, ofDecLE]
    · simp only [h10, ↓reduceIte, ofDecLE]
      have : n / 10 < 10 ^ f := by
        apply Nat.div_lt_of_lt_mul
        rw [Nat.pow_succ] at h
        omega
      rw [ih _ this]
      omega

/-- `int(str(n)) == n` -/
theorem parseKey_decKey (n : Nat) : parseKey (decKey n) = .ok n := by
  unfold parseKey decKey
  have hne : (decDigitsLE (n + 1) n).reverse ≠ [] := by
    simpa using decDigitsLE_ne_nil n n
  have hall : ((decDigitsLE (n + 1) n).reverse.all (· < 10)) = true := by
    rw [List.all_eq_true]
    intro d hd
    simpa using decDigitsLE_lt _ _ d (List.mem_reverse.mp hd)
  have hlt : n < 10 ^ (n + 1) := by
    have h1 : n < 10 ^ n := Nat.lt_pow_self (by decide)
    have h2 : 10 ^ n ≤ 10 ^ (n + 1) := Nat.pow_le_pow_right (by decide) (by omega)
    omega
  simp only [hne, hall, not_true_eq_false, or_self, ↓reduceIte, List.reverse_reverse,
    ofDecLE_decDigitsLE _ _ hlt]

theorem loadJson_saveJson (t ps : Table) : loadJson t (saveJson ps) = (loadPairs t ps, none) := by
  induction ps generalizing t with
  | nil => rfl
  | cons e ps ih =>
    obtain ⟨i, a⟩ := e
    simp only [saveJson, List.map_cons]
    unfold loadJson
    rw [parseKey_decKey]
    simp only
    exact ih _

/-! binary file -/

/-- the bytes `save_dhcp(as_bin=True)` writes for a table -/
def encodeBin : Table → Bytes
  | [] => []
  | (id, a) :: rest => [id, 0, a % 256, a / 256] ++ encodeBin rest

theorem encodeBin_length (ps : Table) : (encodeBin ps).length = 4 * ps.length := by
  induction ps with
  | nil => rfl
  | cons e ps ih => obtain ⟨i, a⟩ := e; simp [encodeBin, ih]; omega

theorem saveBin_eq {ps : Table} (h : ∀ e ∈ ps, e.1 < 256 ∧ e.2 < 65536) :
    saveBin ps = (encodeBin ps, none) := by
  induction ps with
  | nil => rfl
  | cons e ps ih =>
    obtain ⟨i, a⟩ := e
    have he := h (i, a) (by simp)
    have ih' := ih (fun e he => h e (List.mem_cons_of_mem _ he))
    unfold saveBin
    simp only [he.1, not_true_eq_false, ↓reduceIte, packHNat_ok he.2, ih', encodeBin]
    rfl

theorem pyGet_nat {α} (l : List α) (k : Nat) :
    pyGet l (k : Int) = match l[k]? with | some x => .ok x | none => .error .indexError := by
  unfold pyGet
  have h1 : ¬ ((k : Int) < 0) := by omega
  simp [h1]
  cases l[k]? <;> rfl

theorem pySlice_chunk {α} (pre rest : List α) (x0 x1 x2 x3 : α) (k : Nat) (hk : pre.length = k) :
    pySlice (pre ++ x0 :: x1 :: x2 :: x3 :: rest) (k + 2) (k + 4) = [x2, x3] := by
  subst hk
  unfold pySlice
  rw [List.take_append]
  simp
  rw [List.take_of_length_le (by omega), List.drop_append]
  simp

theorem getElem?_chunk {α} (pre rest : List α) (x0 : α) (k : Nat) (hk : pre.length = k) :
    (pre ++ x0 :: rest)[k]? = some x0 := by
  subst hk
  simp

theorem loadBinGo_encode (pre : Bytes) (ps : Table) (byAddr : Bool) (i : Nat) (t : Table)
    (hpre : pre.length = i * 4) (h : ∀ e ∈ ps, e.2 < 65536) :
    loadBinGo (pre ++ encodeBin ps) byAddr ps.length i t =
      (ps.foldl (fun t e => setAddress t e.1 e.2 byAddr) t, none) := by
  induction ps generalizing pre i t with
  | nil => rfl
  | cons e ps ih =>
    obtain ⟨id, a⟩ := e
    have ha : a < 65536 := h (id, a) (by simp)
    simp only [List.length_cons, encodeBin, List.cons_append, List.nil_append]
    rw [loadBinGo]
    rw [pyGet_nat, getElem?_chunk _ _ _ _ hpre]
    simp only
    rw [pySlice_chunk _ _ _ _ _ _ _ hpre]
    simp only [unpackH]
    have hval : a % 256 + 256 * (a / 256) = a := by omega
    rw [hval]
    have := ih (pre ++ [id, 0, a % 256, a / 256]) (i + 1) (setAddress t id a byAddr)
      (by simp [hpre]; omega) (fun e he => h e (List.mem_cons_of_mem _ he))
    simp only [List.append_assoc, List.cons_append, List.nil_append] at this
    rw [this]
    rfl

theorem loadBin_encode (t ps : Table) (h : ∀ e ∈ ps, e.2 < 65536) :
    loadBin t (encodeBin ps) = (loadPairs t ps, none) := by
  unfold loadBin
  rw [encodeBin_length]
  have : 4 * ps.length / 4 = ps.length := by omega
  rw [this]
  have := loadBinGo_encode [] ps LOAD_BIN_BY_ADDR 0 t rfl h
  simpa [LOAD_BIN_BY_ADDR, loadPairs] using this

/-! what loading does to the order: an exact description -/

theorem filter_ne_of_not_mem {acc : Table} {a : Nat} (h : a ∉ addrs acc) :
    acc.filter (fun e => e.2 != a) = acc := by
  rw [List.filter_eq_self]
  intro e he
  simp only [bne_iff_ne, ne_eq]
  rintro rfl
  exact h (List.mem_map.mpr ⟨e, he, rfl⟩)

theorem dictDel_eq_filter {acc : Table} {n a : Nat} (hk : (keys acc).Nodup)
    (ha : (addrs acc).Nodup) (hm : (n, a) ∈ acc) :
    dictDel acc n = acc.filter (fun e => e.2 != a) := by
  induction acc with
  | nil => simp at hm
  | cons e rest ih =>
    obtain ⟨k, v⟩ := e
    have hk' : k ∉ keys rest ∧ (keys rest).Nodup := by simpa [keys] using hk
    have ha' : v ∉ addrs rest ∧ (addrs rest).Nodup := by simpa [addrs] using ha
    unfold dictDel
    simp only [List.mem_cons, Prod.mk.injEq] at hm
    by_cases hkn : k = n
    · subst hkn
      have hv : v = a := by
        rcases hm with ⟨_, h⟩ | h
        · exact h.symm
        · exact absurd (mem_keys_of_mem h) hk'.1
      subst hv
      simp only [↓reduceIte, List.filter_cons, bne_self_eq_false, Bool.false_eq_true]
      exact (filter_ne_of_not_mem ha'.1).symm
    · have hm' : (n, a) ∈ rest := by
        rcases hm with ⟨h, _⟩ | h
        · exact absurd h.symm hkn
        · exact h
      have hva : v ≠ a := by
        rintro rfl
        exact ha'.1 (mem_addrs_of_mem hm')
      simp only [hkn, ↓reduceIte, List.filter_cons, bne_iff_ne, ne_eq, hva, not_false_eq_true,
        ih hk'.2 ha'.2 hm']

theorem keys_filter_sublist (acc : Table) (p : Nat × Nat → Bool) :
    (keys (acc.filter p)).Sublist (keys acc) := List.Sublist.map _ List.filter_sublist

theorem addrs_filter_sublist (acc : Table) (p : Nat × Nat → Bool) :
    (addrs (acc.filter p)).Sublist (addrs acc) := List.Sublist.map _ List.filter_sublist

/-- `set_address(i, a, True)` for a new ID `i`: whoever held `a` is removed, `(i, a)` is appended -/
theorem setAddress_true_eq {acc : Table} {i a : Nat} (hk : (keys acc).Nodup)
    (ha : (addrs acc).Nodup) (hi : i ∉ keys acc) :
    setAddress acc i a true = acc.filter (fun e => e.2 != a) ++ [(i, a)] := by
  unfold setAddress
  rw [setAddressGo_true]
  cases hf : firstHolder a acc with
  | none =>
    simp only
    rw [dictSet_of_not_mem _ hi, filter_ne_of_not_mem (firstHolder_none hf)]
  | some n =>
    simp only
    have hn := firstHolder_some hf
    have hi' : i ∉ keys (dictDel acc n) := fun h => hi ((keys_dictDel_sublist acc n).subset h)
    rw [dictSet_of_not_mem _ hi', dictDel_eq_filter hk ha hn]

/-- keep, for every address, only the last entry that carries it -/
def dedupLast : Table → Table
  | [] => []
  | (i, a) :: rest => if a ∈ addrs rest then dedupLast rest else (i, a) :: dedupLast rest

theorem dedupLast_of_nodup {ps : Table} (h : (addrs ps).Nodup) : dedupLast ps = ps := by
  induction ps with
  | nil => rfl
  | cons e ps ih =>
    obtain ⟨i, a⟩ := e
    have h' : a ∉ addrs ps ∧ (addrs ps).Nodup := by simpa [addrs] using h
    simp only [dedupLast, h'.1, ↓reduceIte, ih h'.2]

/-- Loading the pairs `ps` (distinct IDs, none of them in `acc`) into `acc` (distinct IDs, distinct
    addresses): the entries of `acc` whose address occurs in `ps` disappear, then come the pairs of
    `ps`, each address only with its last ID. -/
theorem loadPairs_eq (acc ps : Table) (hk : (keys (acc ++ ps)).Nodup) (ha : (addrs acc).Nodup) :
    loadPairs acc ps = acc.filter (fun e => !(addrs ps).contains e.2) ++ dedupLast ps := by
  induction ps generalizing acc with
  | nil =>
    simp only [loadPairs, List.foldl_nil, dedupLast, List.append_nil]
    symm
    rw [List.filter_eq_self]
    intro e _
    simp [addrs]
  | cons e ps ih =>
    obtain ⟨i, a⟩ := e
    rw [loadPairs_cons]
    have hk1 : (keys acc).Nodup ∧ (keys ((i, a) :: ps)).Nodup ∧
        ∀ x, x ∈ keys acc → ∀ y, y ∈ keys ((i, a) :: ps) → x ≠ y := by
      simpa [keys, List.nodup_append] using hk
    have hi : i ∉ keys acc := fun h => hk1.2.2 i h i (by simp [keys]) rfl
    simp only
    rw [setAddress_true_eq hk1.1 ha hi]
    -- preconditions of the induction hypothesis
    have hk2 : (keys ((acc.filter (fun e => e.2 != a) ++ [(i, a)]) ++ ps)).Nodup := by
      have hsub : (keys ((acc.filter (fun e => e.2 != a) ++ [(i, a)]) ++ ps)).Sublist
          (keys (acc ++ (i, a) :: ps)) := by
        simp only [keys, List.append_assoc, List.cons_append, List.nil_append, List.map_append]
        exact List.Sublist.append (keys_filter_sublist acc _) (List.Sublist.refl _)
      exact List.Nodup.sublist hsub hk
    have ha2 : (addrs (acc.filter (fun e => e.2 != a) ++ [(i, a)])).Nodup := by
      simp only [addrs, List.map_append, List.map_cons, List.map_nil]
      rw [List.nodup_append]
      refine ⟨List.Nodup.sublist (addrs_filter_sublist acc _) ha, by simp, ?_⟩
      intro x hx y hy
      simp only [List.mem_cons, List.not_mem_nil, or_false] at hy
      subst hy
      obtain ⟨e, he, rfl⟩ := List.mem_map.mp hx
      have := (List.mem_filter.mp he).2
      simpa using this
    rw [ih _ hk2 ha2]
    simp only [List.filter_append, List.filter_filter, List.append_assoc]
    congr 1
    · apply List.filter_congr
      intro e _
      simp only [addrs, List.map_cons, List.contains_cons, Bool.not_or, Bool.and_comm]
      rfl
    · by_cases hmem : a ∈ addrs ps
      · simp [dedupLast, hmem]
      · simp [dedupLast, hmem]

/-- loading a file written from an injective table into an empty master gives that table back, in
    order -/
theorem loadPairs_nil_of_inj {ps : Table} (h : Inj ps) (ha : (addrs ps).Nodup) :
    loadPairs [] ps = ps := by
  rw [loadPairs_eq [] ps (by simpa using h.keysNodup) (by simp), dedupLast_of_nodup ha]
  simp

theorem addrs_nodup_of_inj {t : Table} (h : Inj t) : (addrs t).Nodup := by
  have hk := h.keysNodup
  have hi := h.addrInj
  clear h
  induction t with
  | nil => simp
  | cons e rest ih =>
    obtain ⟨k, v⟩ := e
    have hk' : k ∉ keys rest ∧ (keys rest).Nodup := by simpa [keys] using hk
    simp only [addrs, List.map_cons, List.nodup_cons]
    refine ⟨?_, ih hk'.2 (fun i j a h1 h2 =>
      hi i j a (List.mem_cons_of_mem _ h1) (List.mem_cons_of_mem _ h2))⟩
    intro hv
    obtain ⟨e, he, hev⟩ := List.mem_map.mp hv
    obtain ⟨k2, v2⟩ := e
    simp only at hev
    subst hev
    have := hi k k2 v2 (by simp) (List.mem_cons_of_mem _ he)
    subst this
    exact hk'.1 (mem_keys_of_mem he)

/-- loading pairs with leasable addresses and byte IDs keeps the invariant, whatever the master
    held before -/
theorem inv_loadPairs {t ps : Table} (h : Inv t) (hp : ∀ e ∈ ps, e.1 < 256 ∧ Leasable e.2) :
    Inv (loadPairs t ps) := by
  induction ps generalizing t with
  | nil => exact h
  | cons e ps ih =>
    rw [loadPairs_cons]
    have he := hp e (by simp)
    exact ih (inv_setAddress_true h he.1 he.2) (fun e he => hp e (List.mem_cons_of_mem _ he))

/-! ### the dispatch of `update()` -/

theorem updateDispatch_request (m : Master) (fromNode rs : Nat) (msg : Bytes) (w1 : Bool) :
    updateDispatch m MESH_ADDR_REQUEST fromNode rs msg w1 = (m, {}) := by
  simp [updateDispatch, MESH_ADDR_REQUEST, MESH_ADDR_LOOKUP, MESH_ID_LOOKUP, MESH_ADDR_RELEASE]

theorem masterUpdate_request (m : Master) (fromNode rs : Nat) (msg : Bytes) (w1 : Bool)
    (hrs : rs ≠ 0) :
    masterUpdate m MESH_ADDR_REQUEST fromNode rs msg w1 =
      ({ m with table := (dhcp m.table fromNode rs w1).1 },
       { (dhcp m.table fromNode rs w1).2 with ret := MESH_ADDR_REQUEST }) := by
  simp [masterUpdate, updateDispatch_request, hrs]

theorem updateDispatch_table (m : Master) (msgT fromNode rs : Nat) (msg : Bytes) (w1 : Bool) :
    (updateDispatch m msgT fromNode rs msg w1).1.table =
      if msgT = MESH_ADDR_RELEASE then (releaseAddress m fromNode rs w1).1.table else m.table := by
  unfold updateDispatch
  by_cases h1 : msgT = MESH_ADDR_LOOKUP ∨ msgT = MESH_ID_LOOKUP
  · have h3 : msgT ≠ MESH_ADDR_RELEASE := by
      rcases h1 with h | h <;> simp [h, MESH_ADDR_RELEASE, MESH_ADDR_LOOKUP, MESH_ID_LOOKUP]
    by_cases hl : lookupLongEnough msgT msg = true
    · simp only [h1, hl, h3, and_self, ↓reduceIte]
      cases lookupReply m msgT msg <;> rfl
    · simp only [h1, hl, h3, and_false, ↓reduceIte, Bool.false_eq_true]
  · by_cases h3 : msgT = MESH_ADDR_RELEASE
    · subst h3
      simp only [h1, false_and, ↓reduceIte]
    · simp only [h1, h3, false_and, ↓reduceIte]

theorem masterUpdate_table (m : Master) (msgT fromNode rs : Nat) (msg : Bytes) (w1 : Bool) :
    (masterUpdate m msgT fromNode rs msg w1).1.table =
      if msgT = MESH_ADDR_REQUEST ∧ rs ≠ 0 then (dhcp m.table fromNode rs w1).1
      else if msgT = MESH_ADDR_RELEASE then (releaseAddress m fromNode rs w1).1.table
      else m.table := by
  by_cases h : msgT = MESH_ADDR_REQUEST ∧ rs ≠ 0
  · obtain ⟨rfl, hrs⟩ := h
    rw [masterUpdate_request _ _ _ _ _ hrs]
    simp [hrs]
  · unfold masterUpdate
    simp only [h, ↓reduceIte]
    split <;> exact updateDispatch_table ..
end Nrf.Proofs.Lease
