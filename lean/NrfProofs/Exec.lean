/-
Symbolic execution of `DrvM` computations: `exec m s = (result, final state)` and the rewrite
rules that push `exec` through the monad operations.
-/
import NrfModel.Rf24

namespace Nrf
open Rf24

/-- run a driver computation from state `s` -/
def exec {α} (m : DrvM α) (s : DrvState) : Except PyErr α × DrvState := (m.run).run s

@[simp] theorem exec_pure {α} (a : α) (s : DrvState) : exec (pure a : DrvM α) s = (.ok a, s) := rfl

@[simp] theorem exec_bind {α β} (x : DrvM α) (f : α → DrvM β) (s : DrvState) :
    exec (x >>= f) s =
      match exec x s with
      | (.ok a, s') => exec (f a) s'
      | (.error e, s') => (.error e, s') := by
  unfold exec
  simp only [ExceptT.run_bind]
  show (x.run >>= _).run s = _
  rw [StateT.run_bind]
  show (match x.run.run s with | (a, s') => _) = _
  rcases h : x.run.run s with ⟨r, s'⟩
  cases r <;> rfl

@[simp] theorem exec_throw {α} (e : PyErr) (s : DrvState) : exec (throw e : DrvM α) s = (.error e, s) := rfl
@[simp] theorem exec_raise {α} (e : PyErr) (s : DrvState) : exec (raise e : DrvM α) s = (.error e, s) := rfl
@[simp] theorem exec_get (s : DrvState) : exec (get : DrvM DrvState) s = (.ok s, s) := rfl
@[simp] theorem exec_getD (s : DrvState) : exec getD s = (.ok s.d, s) := rfl
@[simp] theorem exec_set (s' s : DrvState) : exec (set s' : DrvM Unit) s = (.ok (), s') := rfl
@[simp] theorem exec_modify (f : DrvState → DrvState) (s : DrvState) :
    exec (modify f : DrvM Unit) s = (.ok (), f s) := rfl
@[simp] theorem exec_modD (f : Rf24 → Rf24) (s : DrvState) :
    exec (modD f) s = (.ok (), { s with d := f s.d }) := rfl

@[simp] theorem exec_ite {α} (c : Prop) [Decidable c] (a b : DrvM α) (s : DrvState) :
    exec (if c then a else b) s = if c then exec a s else exec b s := by
  split <;> rfl

@[simp] theorem exec_setCE (v : Bool) (s : DrvState) :
    exec (setCE v) s = (.ok (), { s with w := s.w.setCE s.d.rid v }) := rfl
@[simp] theorem exec_sleepNs (n : Nat) (s : DrvState) :
    exec (sleepNs n) s = (.ok (), { s with w := s.w.sleep n }) := rfl
@[simp] theorem exec_nowNs (s : DrvState) : exec nowNs s = (.ok s.w.clock, s) := rfl

/-- one SPI transaction -/
theorem exec_xfer (out : Bytes) (s : DrvState) :
    exec (xfer out) s =
      (.ok (s.w.spi s.d.rid out).2,
       { d := { s.d with status := (s.w.spi s.d.rid out).2.headD s.d.status },
         w := (s.w.spi s.d.rid out).1 }) := rfl

end Nrf
