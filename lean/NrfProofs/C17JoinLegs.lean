/-
C17, end-to-end join, part 3: the legs of a join in the closed system.

* `handleThis_sys_ret` — a system frame (type > 127, not a fragment / ext-data type) for a node with
  `ret_sys_msg` set that needs no special treatment there is returned to the caller of
  `_net_update()` at once (not queued);
* `netUpdate_sys` — `_net_update()` of a node whose `read()` yields such a frame;
* `read_nested2` — `self._rf24.read()` during which exactly one other node runs `update()`;
* `master_request` — `update()` of the master with an address request in its RX FIFO: the lease is
  recorded (`Mesh.setAddress`), the response (type 128, `reserved` = the ID, body = the address) is
  transmitted to pipe 0 of the unassigned address, the master listens again;
* `master_poll` — `update()` of the master with a NETWORK_POLL multicast in its RX FIFO: the answer
  (type 194, from address 0) is transmitted to pipe 0 of the poller.
-/
import NrfProofs.C17JoinNet

namespace Nrf.Net.Join
open Nrf Nrf.Net Nrf.Spec Nrf.Proofs

theorem valid0 : isValid 0 = true := by
  simp [isValid, isValidGo, NETWORK_MULTICAST_ADDR, NETWORK_MULTICAST_ADDR_LVL_2, NETWORK_MULTICAST_ADDR_LVL_4]

theorem validDefault : isValid NETWORK_DEFAULT_ADDR = true := by
  have : NETWORK_DEFAULT_ADDR = val [4, 4, 4, 4] := by decide
  rw [this]; exact isValid_val (by decide)

/-! ### a system frame returned to the caller -/

theorem handleThis_sys_ret (f msgT : Nat) (s : NetState) (h1 : msgT ≠ NETWORK_PING)
    (h2 : ¬ (msgT = MESH_ADDR_RESPONSE ∧ NETWORK_DEFAULT_ADDR ≠ s.node.a.addr))
    (h3 : ¬ (msgT = MESH_ADDR_REQUEST ∧ s.node.a.addr ≠ 0))
    (h4 : s.node.retSysMsg = true) (h5 : msgT > MAX_USR_DEF_MSG_TYPE)
    (h6 : msgT ≠ MSG_FRAG_FIRST ∧ msgT ≠ MSG_FRAG_MORE ∧ msgT ≠ MSG_FRAG_LAST ∧ msgT ≠ NETWORK_EXT_DATA) :
    nexec (handleThis (f + 1) msgT) s = (.ok (false, msgT), s) := by
  rw [handleThis.eq_2]
  have hc1 : s.node.retSysMsg = true ∧ msgT > MAX_USR_DEF_MSG_TYPE ∨ msgT = NETWORK_ACK := Or.inl ⟨h4, h5⟩
  simp only [nexec_bind, nexec_getNode, nexec_ite, nexec_pure, h1, h2, h3, if_false, if_pos hc1, if_pos h6]

/-- **`_net_update()` when `read()` yields a system frame for this node that is handed to the caller**:
    `frame_buf` holds the frame, its type is returned (no second `read()`). -/
theorem netUpdate_sys (f : Nat) (s s1 : NetState) (pk : Bytes) (fr : Frame) (t : Nat)
    (hcur1 : s1.cur < s1.nodes.length)
    (hread : nexec (rfRead (f + 1)) s = (.ok (some pk), s1))
    (hfr : fr.header.msgType = .int t) (hpk : fr.pack = .ok pk) (hwire : wireCopy fr = fr)
    (hto : fr.header.toNode = s1.node.a.addr)
    (hvt : isValid fr.header.toNode = true) (hvf : isValid fr.header.fromNode = true)
    (h1 : t ≠ NETWORK_PING)
    (h2 : ¬ (t = MESH_ADDR_RESPONSE ∧ NETWORK_DEFAULT_ADDR ≠ s1.node.a.addr))
    (h3 : ¬ (t = MESH_ADDR_REQUEST ∧ s1.node.a.addr ≠ 0))
    (h4 : s1.node.retSysMsg = true) (h5 : t > MAX_USR_DEF_MSG_TYPE)
    (h6 : t ≠ MSG_FRAG_FIRST ∧ t ≠ MSG_FRAG_MORE ∧ t ≠ MSG_FRAG_LAST ∧ t ≠ NETWORK_EXT_DATA) :
    nexec (netUpdate (f + 2) 0) s = (.ok t, s1.withFrame fr) := by
  have hun : s1.node.frameBuf.unpack pk = (fr, true) := by
    rw [unpack_of_pack fr _ t hfr pk hpk, hwire]
  have hty : fr.header.ty = t := by simp [Header.ty, hfr]
  have hn2 : (s1.withFrame fr).node = { s1.node with frameBuf := fr } := withFrame_node _ _ hcur1
  rw [show f + 2 = (f + 1) + 1 from rfl, netUpdate_step, hread]
  simp only [hun, hvt, hvf, Bool.not_true, Bool.or_self, Bool.false_eq_true, if_false, if_pos hto, hty]
  rw [handleThis_sys_ret f t _ h1 (by rw [hn2]; exact h2) (by rw [hn2]; exact h3) (by rw [hn2]; exact h4) h5 h6]
  simp only [Bool.false_eq_true, if_false]

/-! ### `read()` during which one other node runs -/

/-- **`self._rf24.read()` during which exactly one other node runs**: node `j` (off the call stack) is
    the only runnable one; its `update()` (outcome given) leaves nobody else runnable; then the
    running node reads the head of what its own RX FIFO holds *after* that run. -/
theorem read_nested2 (s sj' : NetState) (j g : Nat) (ru : Except PyErr Nat) (L : LinkCfg) (P : List Bytes)
    (rx ce : Bool) (aa : Nat)
    (hclosed : s.closed = true) (harr : s.node.arrivals = [])
    (hj : j < s.nodes.length) (hrun : s.runnable j) (hbefore : ∀ k, k < j → ¬ s.runnable k)
    (hu : nexec (nodeUpdate g) (s.switchTo j) = (ru, sj'))
    (hlen : sj'.nodes.length = s.nodes.length) (hg : s.nodes.length < g)
    (hafter : ∀ k, j < k → k < s.nodes.length → ¬ (sj'.switchBack s.cur j).runnable k)
    (hWf : (sj'.switchBack s.cur j).drv.Wf)
    (hN : NodeRadio L P rx ce aa (sj'.switchBack s.cur j).node.rf (sj'.switchBack s.cur j).drv.radio)
    (hfifo : ∀ e ∈ (sj'.switchBack s.cur j).drv.radio.rxFifo, e.pipe ≤ 5 ∧ 1 ≤ e.data.length ∧ e.data.length ≤ 32) :
    ∃ D : DrvState, nexec (rfRead (g + 2 + j)) s =
        (.ok ((sj'.switchBack s.cur j).drv.radio.rxFifo.head?.map (·.data)), (sj'.switchBack s.cur j).afterRf D) ∧
      DrvFrame (sj'.switchBack s.cur j).drv D ∧ NodeRadio L P rx ce aa D.d D.radio ∧
      D.radio.rxFifo = (sj'.switchBack s.cur j).drv.radio.rxFifo.tail := by
  obtain ⟨D, e, F, N, x⟩ := l3contracts.read (sj'.switchBack s.cur j).drv L P rx ce aa hWf hN hfifo
  refine ⟨D, ?_, F, N, x⟩
  have hro := runOthers_one g s sj' j ru hj hrun hbefore hu hlen hg hafter
  rw [show g + 2 + j = (g + 1 + j) + 1 from by omega, rfRead.eq_2, nexec_bind, deliverDue_nil s harr]
  simp only []
  rw [nexec_bind, nexec_get]
  simp only [hclosed, if_true]
  rw [nexec_bind, hro]
  simp only []
  exact nexec_liftRf_ok _ _ _ D e

/-! ### the frames of a join -/

/-- the address request of node ID `i` as `_request_address` builds it for the contact `c` -/
def reqFrame (fid i c : Nat) : Frame :=
  { header := { fromNode := NETWORK_DEFAULT_ADDR, toNode := c, frameId := fid,
                msgType := .int MESH_ADDR_REQUEST, reserved := i }, message := [] }

/-- the master's response offering address `a` to node ID `i` (request received from `from`) -/
def respFrame (fid i a : Nat) : Frame :=
  { header := { fromNode := NETWORK_DEFAULT_ADDR, toNode := NETWORK_DEFAULT_ADDR, frameId := fid,
                msgType := .int MESH_ADDR_RESPONSE, reserved := i }, message := [a % 256, a / 256] }

/-- the NETWORK_POLL multicast of an unassigned node -/
def pollFrame (fid r : Nat) : Frame :=
  { header := { fromNode := NETWORK_DEFAULT_ADDR, toNode := NETWORK_MULTICAST_ADDR, frameId := fid,
                msgType := .int NETWORK_POLL, reserved := r }, message := [] }

/-- the answer of a node with address `a` to that poll -/
def pollReply (fid r a : Nat) : Frame :=
  { header := { fromNode := a, toNode := NETWORK_DEFAULT_ADDR, frameId := fid,
                msgType := .int NETWORK_POLL, reserved := r }, message := [] }

theorem pack_ok (fr : Frame) (t : Nat) (ht : fr.header.msgType = .int t) :
    ∃ pk, fr.pack = .ok pk := by
  unfold Frame.pack
  rw [pack_int fr.header t ht]
  exact ⟨_, rfl⟩

/-! ### the master handles an address request -/

/-- the master's node object after it has leased `a` to ID `i` and built the response -/
def leased (n : Node) (d : Rf24) (fid i a : Nat) : Node :=
  { n with rf := d, frameBuf := respFrame fid i a, dhcp := Mesh.setAddress n.dhcp i a, doDhcp := false }

/-- **`update()` of the master with an address request (from the unassigned address, to address 0,
    `reserved = i ≠ 0`) as the only payload in its RX FIFO** — quiet closed loss-free network, the
    master listening, `_do_dhcp` clear, the candidate loop of `_dhcp` finding `a`:
    the call returns 195; the master's table is `Mesh.setAddress t i a`; `_do_dhcp` is clear again;
    `frame_buf` holds the response; the response has been transmitted to `_pipe_address(0o4444, 0)`
    (every other radio has `receive`d it); the master listens again with an empty RX FIFO. -/
theorem master_request (f : Nat) (sm : NetState) (L : LinkCfg) (Pm : List Bytes) (p i a fid : Nat)
    (A pk pk' : Bytes)
    (hcur : sm.cur < sm.nodes.length) (hclosed : sm.closed = true)
    (hfuel : sm.nodes.length + 2 ≤ f) (hquiet : Quiet sm) (hWf : sm.drv.Wf)
    (hN : NodeRadio L Pm true true 0x3E sm.node.rf sm.drv.radio)
    (hrid : ∀ k, k < sm.nodes.length → k ≠ sm.cur → sm.ridAt k ≠ sm.ridAt sm.cur)
    (harr : sm.node.arrivals = []) (hfifo : sm.drv.radio.rxFifo = [{ pipe := p, data := pk }]) (hp : p ≤ 5)
    (hfaults : sm.w.faults = [])
    (hpk : (reqFrame fid i 0).pack = .ok pk) (hi0 : i ≠ 0) (hi : i ≤ 255) (hfid : fid < 65536)
    (hkind : sm.node.kind = .meshMaster) (hid : sm.node.nodeId = 0) (haddr0 : sm.node.a.addr = 0)
    (hret : sm.node.retSysMsg = true) (hdo : sm.node.doDhcp = false)
    (hA : pipeAddress sm.node.cfg NETWORK_DEFAULT_ADDR 0 = .ok A) (hAlen : A.length = 5)
    (hfind : dhcpFind sm.node.dhcp i 0 0 (Mesh.MESH_MAX_CHILDREN + 1) = some a) (ha : a < 65536)
    (hpk' : (respFrame fid i a).pack = .ok pk') :
    ∃ D1 D2 : DrvState,
      nexec (nodeUpdate (f + 4)) sm =
        (.ok MESH_ADDR_REQUEST, ((sm.afterRf D1).putNode (leased sm.node D1.d fid i a)).afterRf D2) ∧
      DrvFrame sm.drv D1 ∧ D1.radio.rxFifo = [] ∧
      D2.d.rid = sm.node.rf.rid ∧ D2.w.radios.length = sm.w.radios.length ∧ D2.w.faults = [] ∧
      NodeRadio L Pm true true 0x3E D2.d D2.radio ∧ D2.radio.rxFifo = [] ∧
      D2.radio.lastRx = sm.drv.radio.lastRx ∧
      (∃ pid, ∀ r, r ≠ sm.ridAt sm.cur →
        D2.w.radio r = ((sm.w.radio r).receive (unicastPacket L A pk' pid)).1) := by
  have hpkl : pk.length = 8 + (reqFrame fid i 0).message.length := pack_length hpk
  -- the read
  obtain ⟨D1, e1, F1, N1, x1⟩ := rfRead_head l3contracts (f + 1) sm L Pm true true 0x3E hcur hclosed (by omega)
    hquiet hWf hN harr
    (by
      intro e he
      rw [hfifo] at he
      simp only [List.mem_singleton] at he
      subst he
      exact ⟨hp, by simp only []; rw [hpkl]; simp [reqFrame], by simp only []; rw [hpkl]; simp [reqFrame]⟩)
  rw [hfifo] at e1 x1
  simp only [List.head?_cons, Option.map_some, List.tail_cons] at e1 x1
  have hc1 : (sm.afterRf D1).cur < (sm.afterRf D1).nodes.length := by simpa using hcur
  have hn1 : (sm.afterRf D1).node = { sm.node with rf := D1.d } := afterRf_node sm D1 hcur
  have hwire : wireCopy (reqFrame fid i 0) = reqFrame fid i 0 := by
    unfold wireCopy reqFrame
    simp only [Header.ty, NETWORK_DEFAULT_ADDR, MESH_ADDR_REQUEST]
    have e1 : i &&& 0xFF = i := by rw [and_ff]; omega
    have e2 : fid &&& 0xFFFF = fid := by rw [and_ffff]; omega
    rw [e1, e2]
    rfl
  -- `_net_update()`
  have hnu : nexec (netUpdate (f + 3) 0) sm =
      (.ok MESH_ADDR_REQUEST, (sm.afterRf D1).withFrame (reqFrame fid i 0)) := by
    refine netUpdate_sys (f + 1) sm _ pk (reqFrame fid i 0) MESH_ADDR_REQUEST hc1 e1 rfl hpk hwire
      (by rw [hn1]; exact haddr0.symm) valid0
      validDefault (by decide)
      (fun h => absurd h.1 (by decide)) ?_ (by rw [hn1]; exact hret)
      (by decide) (by decide)
    rw [hn1]
    rintro ⟨_, h⟩
    exact h haddr0
  -- the state handed to `_dhcp`
  generalize hs2 : (sm.afterRf D1).withFrame (reqFrame fid i 0) = s2 at hnu
  have hc2 : s2.cur < s2.nodes.length := by rw [← hs2]; simpa using hcur
  have hn2 : s2.node = { sm.node with rf := D1.d, frameBuf := reqFrame fid i 0 } := by
    rw [← hs2, withFrame_node _ _ hc1, hn1]
  -- the state handed to `_write`
  generalize hs5 : (sm.afterRf D1).putNode (leased sm.node D1.d fid i a) = s5
  have hs5' : s5 = s2.putNode (leased sm.node D1.d fid i a) := by
    rw [← hs5, ← hs2]
    unfold NetState.withFrame NetState.putNode
    rw [setNode_setNode]
    rfl
  have hc5 : s5.cur < s5.nodes.length := by rw [← hs5]; simpa [NetState.putNode, NetState.setNode] using hcur
  have hn5 : s5.node = leased sm.node D1.d fid i a := by rw [← hs5]; exact node_putNode _ _ hc1
  have hd5 : s5.drv = D1 := by
    unfold NetState.drv
    rw [hn5, ← hs5]
    rfl
  have hq5 : Quiet s5 := by
    rw [← hs5]
    refine hquiet.of_eq (s' := (sm.afterRf D1).putNode (leased sm.node D1.d fid i a))
      (by simp [NetState.putNode, NetState.setNode]) rfl rfl ?_
    intro k hk hkc hka
    unfold NetState.radioAt NetState.ridAt
    have hne : (((sm.afterRf D1).putNode (leased sm.node D1.d fid i a)).nodeAt k) = sm.nodeAt k := by
      unfold NetState.putNode
      rw [nodeAt_setNode, if_neg (fun h => hkc h.1), nodeAt_afterRf_ne sm D1 k hkc]
    rw [hne]
    show (D1.w.radio (sm.nodeAt k).rf.rid).rxFifo = _
    have := F1.others (sm.nodeAt k).rf.rid (hrid k hk hkc)
    rw [this]
    rfl
  have hrid5 : ∀ k, k < s5.nodes.length → k ≠ s5.cur → s5.ridAt k ≠ s5.ridAt s5.cur := by
    rw [← hs5]
    intro k hk hkc
    have hk' : k < sm.nodes.length := by simpa [NetState.putNode, NetState.setNode] using hk
    have hkc' : k ≠ sm.cur := hkc
    unfold NetState.ridAt
    have hne : (((sm.afterRf D1).putNode (leased sm.node D1.d fid i a)).nodeAt k) = sm.nodeAt k := by
      unfold NetState.putNode
      rw [nodeAt_setNode, if_neg (fun h => hkc' h.1), nodeAt_afterRf_ne sm D1 k hkc']
    have hcu : (((sm.afterRf D1).putNode (leased sm.node D1.d fid i a)).nodeAt sm.cur).rf.rid = sm.node.rf.rid := by
      have := node_putNode (sm.afterRf D1) (leased sm.node D1.d fid i a) hc1
      rw [node_eq_nodeAt] at this
      show (((sm.afterRf D1).putNode _).nodeAt ((sm.afterRf D1).putNode (leased sm.node D1.d fid i a)).cur).rf.rid = _
      rw [this]
      exact F1.rid
    rw [hne]
    show (sm.nodeAt k).rf.rid ≠ (((sm.afterRf D1).putNode (leased sm.node D1.d fid i a)).nodeAt sm.cur).rf.rid
    rw [hcu]
    exact hrid k hk' hkc'
  obtain ⟨D2, e2, r2, l2, f2, N2, x2, lr2, hoth⟩ := mc_write f s5 L Pm NETWORK_DEFAULT_ADDR TX_PHYSICAL
    MESH_ADDR_RESPONSE A pk' hc5 (by rw [← hs5]; exact hclosed)
    (by rw [← hs5]; simpa [NetState.putNode, NetState.setNode] using hfuel) hq5
    (by rw [hd5]; exact F1.wf hWf) (by rw [hn5, hd5]; exact N1) hrid5
    (by rw [hn5]; exact hA) hAlen (by rw [← hs5]; show D1.w.faults = []; rw [F1.faults]; exact hfaults)
    (by rw [hn5]; simp [leased, respFrame, MAX_FRAG_SIZE]) (by rw [hn5]; exact hpk') (by rw [hn5]; rfl) (by decide)
  -- `_dhcp()`
  obtain ⟨s3, hs3⟩ : ∃ s3, s2.setNode (fun n => { n with doDhcp := true }) = s3 := ⟨_, rfl⟩
  have hc3 : s3.cur < s3.nodes.length := by rw [← hs3]; simpa [NetState.setNode] using hc2
  have hn3 : s3.node = { sm.node with rf := D1.d, frameBuf := reqFrame fid i 0, doDhcp := true } := by
    rw [← hs3, node_setNode _ _ hc2, hn2]
  have hdh : nexec (masterDhcp (f + 3)) s3 = (.ok (), s5.afterRf D2) := by
    have hpack : Mesh.packHNat a = .ok [a % 256, a / 256] := by unfold Mesh.packHNat; rw [if_pos ha]
    have hfrom : (reqFrame fid i 0).header.fromNode = NETWORK_DEFAULT_ADDR := rfl
    have hres' : (reqFrame fid i 0).header.reserved = i := rfl
    rw [show f + 3 = (f + 2) + 1 from rfl, masterDhcp.eq_2]
    simp only [nexec_bind, nexec_getNode, hn3, Bool.not_true, Bool.false_eq_true, if_false, nexec_modNode,
      nexec_pure, hfrom, hres', ne_eq, not_true_eq_false, if_true, hfind, nexec_setHdr, hpack, nexec_liftPy_ok]
    generalize hX : NetState.setNode (NetState.setNode (NetState.setNode (NetState.setNode s3 _) _) _) _ = X
    have hXs : X = s5 := by
      rw [← hX, hs5', ← hs3]
      simp only [setNode_setNode]
      unfold NetState.putNode
      apply setNode_congr
      rw [hn2]
      rfl
    rw [hXs, hn5]
    have htn : (leased sm.node D1.d fid i a).frameBuf.header.toNode = NETWORK_DEFAULT_ADDR := rfl
    rw [htn, e2]
  refine ⟨D1, D2, ?_, F1, x1, ?_, ?_, f2, N2, by rw [x2, hd5, x1], ?_, ?_⟩
  · -- the computation
    rw [show f + 4 = (f + 3) + 1 from rfl, nodeUpdate.eq_2, nexec_bind, hnu]
    simp only []
    rw [nexec_bind, nexec_getNode]
    simp only [hn2, hkind, ne_eq, not_true_eq_false, if_false]
    have hres : (reqFrame fid i 0).header.reserved ≠ 0 := hi0
    simp only [true_and, hres, ne_eq, not_false_eq_true, if_true, hid]
    rw [nexec_bind, nexec_modNode]
    simp only []
    have hnl : ¬ ((MESH_ADDR_REQUEST = MESH_ADDR_LOOKUP ∨ MESH_ADDR_REQUEST = MESH_ID_LOOKUP) ∧
        Mesh.lookupLongEnough MESH_ADDR_REQUEST (reqFrame fid i 0).message = true) := by
      rintro ⟨h | h, _⟩ <;> exact absurd h (by decide)
    have hnr : ¬ (MESH_ADDR_REQUEST = MESH_ADDR_RELEASE) := by decide
    simp only [if_neg hnl, if_neg hnr]
    rw [hs3, nexec_bind, hdh, ← hs5]
    rfl
  · rw [r2, hn5]; exact F1.rid
  · rw [l2, ← hs5]; show D1.w.radios.length = _; exact F1.len
  · rw [lr2, hd5]; exact F1.lastRx
  · obtain ⟨pid, hpid⟩ := hoth
    refine ⟨pid, fun r hr => ?_⟩
    have hr5 : r ≠ s5.ridAt s5.cur := by
      have : s5.ridAt s5.cur = sm.ridAt sm.cur := by
        show s5.node.rf.rid = _
        rw [hn5]
        exact F1.rid
      rw [this]; exact hr
    rw [hpid r hr5, ← hs5]
    show ((D1.w.radio r).receive _).1 = _
    rw [F1.others r hr]
    rfl


/-! ### node objects across context switches -/

/-- a node object without its radio object and its saved clock -/
def _root_.Nrf.Net.Node.body (n : Node) : Node := { n with rf := {}, clock := 0 }

theorem nodeAt_switchTo_eq (s : NetState) (j i : Nat) :
    (s.switchTo j).nodeAt i = (s.setNode fun n => { n with clock := s.w.clock }).nodeAt i := rfl

theorem nodeAt_switchBack_eq (s : NetState) (me j i : Nat) :
    (s.switchBack me j).nodeAt i =
      (({ s with cur := j } : NetState).setNode fun n => { n with clock := s.w.clock }).nodeAt i := rfl

theorem body_switchTo (s : NetState) (j i : Nat) : ((s.switchTo j).nodeAt i).body = (s.nodeAt i).body := by
  rw [nodeAt_switchTo_eq, nodeAt_setNode]; split <;> rfl

theorem body_switchBack (s : NetState) (me j i : Nat) :
    ((s.switchBack me j).nodeAt i).body = (s.nodeAt i).body := by
  rw [nodeAt_switchBack_eq, nodeAt_setNode]
  split <;> rfl

theorem body_afterRf (s : NetState) (D : DrvState) (i : Nat) : ((s.afterRf D).nodeAt i).body = (s.nodeAt i).body := by
  rw [nodeAt_afterRf]; split <;> rfl

theorem rf_switchBack (s : NetState) (me j i : Nat) : ((s.switchBack me j).nodeAt i).rf = (s.nodeAt i).rf :=
  (nodeAt_switchBack s me j i).1

theorem rf_afterRf_cur (s : NetState) (D : DrvState) (h : s.cur < s.nodes.length) :
    ((s.afterRf D).nodeAt s.cur).rf = D.d := by
  rw [nodeAt_afterRf, if_pos ⟨rfl, h⟩]

theorem nodeAt_putNode_cur (s : NetState) (n : Node) (h : s.cur < s.nodes.length) :
    (s.putNode n).nodeAt s.cur = n := by
  unfold NetState.putNode; rw [nodeAt_setNode, if_pos ⟨rfl, h⟩]

theorem nodeAt_putNode_ne (s : NetState) (n : Node) (i : Nat) (h : i ≠ s.cur) :
    (s.putNode n).nodeAt i = s.nodeAt i := by
  unfold NetState.putNode; rw [nodeAt_setNode, if_neg (fun hh => h hh.1)]

@[simp] theorem putNode_cur (s : NetState) (n : Node) : (s.putNode n).cur = s.cur := rfl
@[simp] theorem putNode_active (s : NetState) (n : Node) : (s.putNode n).active = s.active := rfl
@[simp] theorem putNode_w (s : NetState) (n : Node) : (s.putNode n).w = s.w := rfl
@[simp] theorem putNode_closed (s : NetState) (n : Node) : (s.putNode n).closed = s.closed := rfl
@[simp] theorem putNode_len (s : NetState) (n : Node) : (s.putNode n).nodes.length = s.nodes.length := by
  simp [NetState.putNode, NetState.setNode]
@[simp] theorem switchTo_len (s : NetState) (j : Nat) : (s.switchTo j).nodes.length = s.nodes.length := by
  simp [NetState.switchTo]
@[simp] theorem switchBack_len (s : NetState) (me j : Nat) : (s.switchBack me j).nodes.length = s.nodes.length := by
  simp [NetState.switchBack]

end Nrf.Net.Join
