/-
A concrete BRANCHING three-node network (master `0o0` with its two children `0o1` and `0o2` on radios 0, 1, 2, as
their constructors and `_begin` leave them — the values of node `0o2` taken from running the model's
`construct .network 2 2`), the child `0o1` about to call `write()`: the tree route from `0o1` to its sibling `0o2`
goes UP to the common ancestor and DOWN again (the chains of C05Example3 / C13HopsExample only go up).
-/
import NrfProofs.C05Example3

namespace Nrf.Net.Example
open Nrf Nrf.Net Nrf.Spec Nrf.Proofs Nrf.Props.C04

def rfS : Rf24 :=
  { rid := 2, status := 14, pipes0 := [204, 60, 204, 204, 204], pipes1 := [60, 51, 204, 204, 204],
    pipesN := [51, 206, 62, 227], config := 15, openPipes := 63, features := 5, retrySetup := 149, rfSetup := 7,
    dynPl := 63, aa := 62, channel := 76, addrLen := 5, pipe0ReadAddr := some [204, 60, 204, 204, 204],
    txAddress := [231, 231, 231, 231, 231], isPlus := true }

def radioS : Radio :=
  { config := 15, enAA := 62, enRxAddr := 63, setupRetr := 149, rfCh := 76, rfSetup := 7,
    rxAddr0 := [204, 60, 204, 204, 204], rxAddr1 := [60, 51, 204, 204, 204], rxAddrN := [51, 206, 62, 227],
    rxPw := [32, 32, 32, 32, 32, 32], dynpd := 63, feature := 5, ce := true }

def PS : List Bytes :=
  [[204, 60, 204, 204, 204], [60, 51, 204, 204, 204], [51, 51, 204, 204, 204], [206, 51, 204, 204, 204],
   [62, 51, 204, 204, 204], [227, 51, 204, 204, 204]]

/-- node `i` is tree node `treeF i` -/
def treeF : Nat → List Nat
  | 0 => []
  | 1 => [1]
  | 2 => [2]
  | n + 3 => [5, 5, 5, 5 - (n % 4)]   -- never used: there are three nodes

/-- master and its two children, the child `0o1` about to call `write()` -/
def fork : NetState :=
  { nodes := [{ rf := rf0, a := nodeSpec [] }, { rf := rf1, a := nodeSpec [1] }, { rf := rfS, a := nodeSpec [2] }],
    cur := 1, active := [1], nextId := 6, closed := true,
    w := { radios := [radio0, radio1, radioS], busyUntil := [0, 0, 0] } }

theorem fork_pipesS : beginPipes {} (val [2]) = .ok PS :=
  (beginPipes_eq (cfg := {}) (sfxFn_spec rfl) (by decide)).trans (congrArg Except.ok (by decide))

theorem fork_lt (i : Nat) (hi : i < fork.nodes.length) : i = 0 ∨ i = 1 ∨ i = 2 := by
  have : i < 3 := hi
  omega

theorem fork_ok : NetOk {} L treeF fork := by
  refine ⟨rfl, rfl, ?_, ?_, ?_, ?_⟩
  · intro i hi
    rcases fork_lt i hi with rfl | rfl | rfl <;> decide
  · intro i j hi hj hij
    rcases fork_lt i hi with rfl | rfl | rfl <;> rcases fork_lt j hj with rfl | rfl | rfl <;>
      first | exact absurd rfl hij | decide
  · intro i hi
    rcases fork_lt i hi with rfl | rfl | rfl
    · exact ⟨P0, two_pipes0, by decide⟩
    · exact ⟨P1, two_pipes1, by decide⟩
    · exact ⟨PS, fork_pipesS, by decide⟩
  · intro r k hr
    have h0 : r ≠ 0 := fun e => hr 0 (by decide) (by rw [e]; rfl)
    have h1 : r ≠ 1 := fun e => hr 1 (by decide) (by rw [e]; rfl)
    have h2 : r ≠ 2 := fun e => hr 2 (by decide) (by rw [e]; rfl)
    have : fork.w.radio r = default := by
      unfold World.radio
      have : fork.w.radios.length ≤ r := by
        show 3 ≤ r
        omega
      rw [List.getD_eq_getElem?_getD, List.getElem?_eq_none this]
      rfl
    rw [this]
    exact Radio.listensTo_not_rx _ _ (by decide)

theorem fork_ndef (i : Nat) : val (treeF i) ≠ NETWORK_DEFAULT_ADDR := by
  match i with
  | 0 => decide
  | 1 => decide
  | 2 => decide
  | n + 3 =>
    show val [5, 5, 5, 5 - n % 4] ≠ 0o4444
    simp only [val]
    omega

end Nrf.Net.Example
