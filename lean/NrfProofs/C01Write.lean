/-
C01 helper lemmas, part 3: delivery through the non-blocking `write()`.  Two trigger paths: CE low —
the cycle starts when `write()` raises CE; CE already high (as `send()` leaves it) — the cycle
starts inside the W_TX_PAYLOAD transaction.
-/
import NrfProofs.C01Order

namespace Nrf
open Rf24 Spec.Link

namespace World

/-- a transaction that leaves a powered-up PTX with CE high, MAX_RT clear and exactly one sendable
    payload queued runs exactly one transmit cycle -/
theorem spi_fire (w : World) (s : Nat) (out : Bytes) (e : TxEntry) (hs : s < w.radios.length)
    (hf : ((w.radio s).xfer out).1.txFifo = [e]) (hp : ((w.radio s).xfer out).1.Ptx)
    (hfl : ((w.radio s).xfer out).1.flags &&& 0x10 = 0) (hce : ((w.radio s).xfer out).1.ce = true)
    (hk : Radio.headSendable [e] = true) :
    (w.spi s out).1 = (w.spiQ s out).cycle s e [] := by
  rw [spi_eq]
  simp only
  have hr : (w.spiQ s out).radio s = ((w.radio s).xfer out).1 := spiQ_radio_self _ _ _ hs
  have hready : ((w.spiQ s out).radio s).txReady = true := by
    rw [hr]
    unfold Radio.txReady Radio.txMode
    rw [hp.1, hp.2, hce, hf, hk, hfl]; rfl
  rw [tryTransmit_ready s 3 _ e [] (by rw [hr]; exact hf) hready]
  apply tryTransmit_idle
  rw [cycle_self _ _ _ _ (by simpa using hs)]
  rcases Radio.afterCycle_progress ((w.spiQ s out).radio s) e [] ((w.spiQ s out).cycleRes s e) with h | h
  · exact Radio.idle_of_empty _ h
  · exact Radio.idle_of_maxrt _ h

/-- the receivers after a cycle on undisturbed air: the packet has been received (once, or —
    Enhanced ShockBurst — with all repetitions dropped as duplicates) -/
theorem cycle_receiver_nofaults (w : World) (s : Nat) (e : TxEntry) (j : Nat) (hs : s < w.radios.length)
    (hj : j < w.radios.length) (hjs : j ≠ s) (hf : w.faults = []) :
    (w.cycle s e []).radio j = ((w.radio j).receive ((w.radio s).packetFor e)).1 := by
  rw [cycle_others_exact w s e [] j hj hjs, hf, deliveries_nil]
  have hpos := cycleAttempts_pos w s e hs
  obtain ⟨a, ha⟩ : ∃ a, w.cycleAttempts s e = a + 1 := ⟨w.cycleAttempts s e - 1, by omega⟩
  rw [ha]
  cases he : ((w.radio s).packetFor e).esb with
  | true => exact recvN_esb _ he a _
  | false =>
    have haw : (w.radio s).awaitsAck e = false := by
      unfold Radio.awaitsAck
      have : (w.radio s).esb = false := he
      rw [this]; rfl
    have : w.cycleAttempts s e = 1 := by unfold cycleAttempts; rw [haw]; rfl
    have ha0 : a = 0 := by omega
    subst ha0
    rfl

end World

/-- **the receivers after `write(buf)`** from a powered-up PTX with an empty TX FIFO (CE high or
    low) on undisturbed air: `write()` returns `True` with the caller's buffer, and every other radio
    has received the packet `sendPacket` (the same packet `send()` would transmit) -/
theorem write_receiver (s : DrvState) (buf : Bytes) (m askNoAck : Bool)
    (hw : s.Wf) (hp : s.rad.Ptx) (hpi : s.rad.RxPipes) (htx : s.rad.txFifo = [])
    (hlenOk : s.d.dynPl &&& 1 ≠ 0 → buf ≠ [] ∧ buf.length ≤ 32) (hpadOk : s.d.dynPl &&& 1 = 0 → 1 ≤ s.d.plLen.getD 0 0)
    (hf : s.w.faults = []) (j : Nat) (hj : j < s.w.radios.length) (hjs : j ≠ s.d.rid) :
    (exec (write buf m askNoAck) s).1 = .ok (true, buf) ∧
    (exec (write buf m askNoAck) s).2.w.radio j = ((s.w.radio j).receive (s.sendPacket askNoAck buf)).1 := by
  have k : Packet := default
  have hpre : SendPre s buf true := ⟨hw, hp, hpi, Or.inr htx, (fun h => by cases h), hlenOk, hpadOk⟩
  have hbne := writeBytes_ne s buf true hpre
  rw [write_eq]
  have hnr : ¬ (s.d.dynPl &&& 1 ≠ 0 ∧ (buf.isEmpty = true ∨ buf.length > 32)) := by
    rintro ⟨h1, h2⟩
    obtain ⟨h3, h4⟩ := hlenOk h1
    rcases h2 with h2 | h2
    · cases buf with
      | nil => exact h3 rfl
      | cons a t => cases h2
    · omega
  unfold writeTail
  simp only [exec_bind, exec_getD, hnr, ↓reduceIte, exec_clearStatusFlags]
  -- clear_status_flags(): the TX FIFO is empty, the radio stays idle whatever CE is
  have hx4 : (s.rad.xfer [0x27, clearMask true true true]).1 = { s.rad with flags := 0 } := by
    rw [show (0x27 : Nat) = 0x20 ||| 7 from rfl, Radio.xfer_wreg _ 7 _ (by decide), Radio.writeReg_status]
    have : s.rad.flags &&& (0x70 ^^^ (clearMask true true true &&& 0x70)) = 0 := by
      have : (0x70 ^^^ (clearMask true true true &&& 0x70)) = 0 := by decide
      rw [this, Nat.and_zero]
    rw [this]
  obtain ⟨hrel4, hr4, hst4⟩ := step_spi k s 0x27 [clearMask true true true] hw
    (by rw [hx4]; exact Radio.idle_of_empty _ htx)
  rw [hx4] at hr4
  generalize s.spiStep [0x27, clearMask true true true] = s4 at *
  have htf : ¬ (s4.d.status &&& 1 ≠ 0) := by
    rw [hst4]
    intro hc
    have := (Radio.status_decodeP s.rad hpi).2.1.1 hc
    unfold Radio.txFull at this
    rw [htx] at this
    simp at this
  simp only [htf, ↓reduceIte, exec_bind, exec_regWriteBytes]
  have htx4 : s4.rad.txFifo = [] := by rw [hr4]; exact htx
  have hwx := xfer_write s4.rad askNoAck (writeBytes s.d buf) hbne htx4
  have hcmd : (0x20 ||| (0xA0 ||| (b2n askNoAck <<< 4))) = (0xA0 ||| (b2n askNoAck <<< 4)) := by
    cases askNoAck <;> rfl
  rw [hcmd]
  have hrid4 : s4.d.rid = s.d.rid := hrel4.rid
  have hj4 : j < s4.w.radios.length := by rw [hrel4.kept.len]; exact hj
  have hjs4 : j ≠ s4.d.rid := by rw [hrid4]; exact hjs
  have hf4 : s4.w.faults = [] := by rw [hrel4.kept.faults]; exact hf
  have hrj4 : s4.w.radio j = s.w.radio j := hrel4.kept.others j hjs
  -- the radio right after W_TX_PAYLOAD
  have he : txEntryOf askNoAck (writeBytes s.d buf) = s.sendEntry askNoAck buf := rfl
  have hpk : Radio.packetFor { s4.rad with txFifo := [txEntryOf askNoAck (writeBytes s.d buf)] }
      (txEntryOf askNoAck (writeBytes s.d buf)) = s.sendPacket askNoAck buf := by
    rw [hr4]; rfl
  have hptx5 : Radio.Ptx { s4.rad with txFifo := [txEntryOf askNoAck (writeBytes s.d buf)] } := by
    rw [hr4]; exact hp
  cases hce : s.rad.ce with
  | false =>
    -- CE low: the transaction is quiet, `ce = True` fires
    have hce4 : s4.rad.ce = false := by rw [hr4]; exact hce
    obtain ⟨hrel5, hr5, _⟩ := step_spi k s4 (0xA0 ||| (b2n askNoAck <<< 4)) (writeBytes s.d buf) hrel4.wf
      (by rw [hwx.1]; exact Radio.idle_of_ce _ hce4)
    rw [hwx.1] at hr5
    generalize s4.spiStep ((0xA0 ||| (b2n askNoAck <<< 4)) :: writeBytes s.d buf) = s5 at *
    rw [exec_setCE]
    simp only [exec_pure]
    refine ⟨trivial, ?_⟩
    have hrid5 : s5.d.rid = s.d.rid := by rw [hrel5.rid, hrid4]
    have hw5 : s5.d.rid < s5.w.radios.length := hrel5.wf
    rw [World.setCE_fire s5.w s5.d.rid _ hw5 (by show s5.rad.txFifo = _; rw [hr5])
      (by show s5.rad.Ptx; rw [hr5]; exact hptx5) (by show s5.rad.flags &&& 0x10 = 0; rw [hr5, hr4]; exact Nat.zero_and _)
      (sendable_txEntryOf _ _)]
    have hjs5 : j ≠ s5.d.rid := by rw [hrid5]; exact hjs
    have hj5 : j < (s5.w.setCEQ s5.d.rid true).radios.length := by
      rw [World.setCEQ_length, hrel5.kept.len]; exact hj4
    rw [World.cycle_receiver_nofaults _ _ _ j (by rw [World.setCEQ_length]; exact hw5) hj5 hjs5
      (by rw [World.setCEQ_faults, hrel5.kept.faults]; exact hf4)]
    rw [World.setCEQ_radio_ne _ _ _ _ hjs5, World.setCEQ_radio_self _ _ _ hw5]
    have hr5' : s5.w.radio s5.d.rid = s5.rad := rfl
    rw [hr5', hr5, hrel5.kept.others j hjs4, hrj4]
    congr 2
  | true =>
    -- CE high: the cycle runs inside the W_TX_PAYLOAD transaction; raising CE again changes nothing
    have hce4 : s4.rad.ce = true := by rw [hr4]; exact hce
    have hw4 : s4.d.rid < s4.w.radios.length := hrel4.wf
    have hxf : (s4.w.radio s4.d.rid).xfer ((0xA0 ||| (b2n askNoAck <<< 4)) :: writeBytes s.d buf) =
        s4.rad.xfer ((0xA0 ||| (b2n askNoAck <<< 4)) :: writeBytes s.d buf) := rfl
    have hfire := World.spi_fire s4.w s4.d.rid ((0xA0 ||| (b2n askNoAck <<< 4)) :: writeBytes s.d buf)
      (txEntryOf askNoAck (writeBytes s.d buf)) hw4
      (by rw [hxf, hwx.1]) (by rw [hxf, hwx.1]; exact hptx5)
      (by rw [hxf, hwx.1]; show s4.rad.flags &&& 0x10 = 0; rw [hr4]; exact Nat.zero_and _)
      (by rw [hxf, hwx.1]; exact hce4) (sendable_txEntryOf _ _)
    unfold DrvState.spiStep
    rw [exec_setCE]
    simp only [exec_pure]
    refine ⟨trivial, ?_⟩
    rw [hfire]
    -- the world after the cycle; the sender is idle, so `ce = True` is quiet
    have hlenQ : s4.d.rid < (s4.w.spiQ s4.d.rid ((0xA0 ||| (b2n askNoAck <<< 4)) :: writeBytes s.d buf)).radios.length := by
      rw [World.spiQ_length]; exact hw4
    have hlenC : s4.d.rid < ((s4.w.spiQ s4.d.rid ((0xA0 ||| (b2n askNoAck <<< 4)) :: writeBytes s.d buf)).cycle s4.d.rid
        (txEntryOf askNoAck (writeBytes s.d buf)) []).radios.length := by
      rw [World.cycle_length]; exact hlenQ
    have hidle : Radio.Idle { (((s4.w.spiQ s4.d.rid ((0xA0 ||| (b2n askNoAck <<< 4)) :: writeBytes s.d buf)).cycle s4.d.rid
        (txEntryOf askNoAck (writeBytes s.d buf)) []).radio s4.d.rid) with ce := true } := by
      rw [World.cycle_self _ _ _ _ hlenQ]
      rcases Radio.afterCycle_progress _ (txEntryOf askNoAck (writeBytes s.d buf)) []
        ((s4.w.spiQ s4.d.rid ((0xA0 ||| (b2n askNoAck <<< 4)) :: writeBytes s.d buf)).cycleRes s4.d.rid
          (txEntryOf askNoAck (writeBytes s.d buf))) with h | h
      · exact Radio.idle_of_empty _ h
      · exact Radio.idle_of_maxrt _ h
    rw [World.setCE_idle _ _ _ hlenC hidle, World.setCEQ_radio_ne _ _ _ _ hjs4]
    rw [World.cycle_receiver_nofaults _ _ _ j hlenQ (by rw [World.spiQ_length]; exact hj4) hjs4
      (by rw [World.spiQ_faults]; exact hf4)]
    rw [World.spiQ_radio_ne _ _ _ _ hjs4, World.spiQ_radio_self _ _ _ hw4, hxf, hwx.1, hrj4, hpk]

end Nrf
