/-
C05 helper lemmas, part 1 (one node, any environment): what one iteration of `_net_update()` does
with a frame, what `_write_to_pipe` hands to the radio.
-/
import NrfProofs.NetFrameJ
import NrfModel.Spec.Delivery

namespace Nrf.Net
open Nrf Nrf.Spec

/-- the state `_net_update` dispatches in: the frame just read is in `frame_buf` -/
def NetState.withFrame (s : NetState) (fb : Frame) : NetState := s.setNode fun n => { n with frameBuf := fb }

/-- one iteration of `_net_update()`, outcome by outcome -/
theorem netUpdate_step (f rv : Nat) (s : NetState) :
    nexec (netUpdate (f + 1) rv) s =
      match nexec (rfRead f) s with
      | (.error e, s1) => (.error e, s1)
      | (.ok none, s1) => (.ok rv, s1)
      | (.ok (some b), s1) =>
        let fb := (s1.node.frameBuf.unpack b).1
        let ok := (s1.node.frameBuf.unpack b).2
        if (!ok || !isValid fb.header.toNode || !isValid fb.header.fromNode) = true then
          nexec (netUpdate f 0) (s1.withFrame fb)
        else
          match nexec (if fb.header.toNode = s1.node.a.addr then handleThis f fb.header.ty
                       else handleOther f fb.header.ty) (s1.withFrame fb) with
          | (.error e, s2) => (.error e, s2)
          | (.ok (keep, rv'), s2) => if keep then nexec (netUpdate f rv') s2 else (.ok rv', s2) := by
  rw [netUpdate.eq_2, nexec_bind]
  rcases nexec (rfRead f) s with ⟨r1, s1⟩
  cases r1 with
  | error e => rfl
  | ok buf =>
    cases buf with
    | none => rfl
    | some b =>
      simp only [nexec_bind, nexec_getNode, nexec_modNode, nexec_ite, NetState.withFrame]
      split
      · rfl
      · split
        · rcases nexec (handleThis f _) _ with ⟨r2, s2⟩
          cases r2 with
          | error e => rfl
          | ok kr => obtain ⟨keep, rv'⟩ := kr; cases keep <;> rfl
        · rcases nexec (handleOther f _) _ with ⟨r2, s2⟩
          cases r2 with
          | error e => rfl
          | ok kr => obtain ⟨keep, rv'⟩ := kr; cases keep <;> rfl

/-- a frame for another node, at a node that routes it (not a multicast it listens to, and the node
    has a real address): `_handle_frame_for_other_node` is one `_write(to_node, TX_ROUTED)`, whose
    verdict is ignored, and nothing else -/
theorem handleOther_forward (f msgT : Nat) (s : NetState)
    (hmc : s.node.cfg.allowMulticast = false ∨ s.node.frameBuf.header.toNode ≠ NETWORK_MULTICAST_ADDR)
    (hnd : s.node.a.addr ≠ NETWORK_DEFAULT_ADDR) :
    nexec (handleOther (f + 1) msgT) s =
      match nexec (nodeWrite f s.node.frameBuf.header.toNode TX_ROUTED) s with
      | (.ok _, s') => (.ok (true, 0), s')
      | (.error e, s') => (.error e, s') := by
  rw [handleOther.eq_2]
  simp only [nexec_bind, nexec_getNode, nexec_ite, nexec_pure]
  cases ham : s.node.cfg.allowMulticast with
  | false =>
    simp only [Bool.false_eq_true, if_false, hnd, ne_eq, not_false_eq_true, if_true]
    rcases nexec (nodeWrite f _ TX_ROUTED) s with ⟨r, s'⟩
    cases r <;> rfl
  | true =>
    have h : s.node.frameBuf.header.toNode ≠ NETWORK_MULTICAST_ADDR := by
      rcases hmc with h | h
      · rw [ham] at h; cases h
      · exact h
    simp only [if_true, h, if_false, hnd, ne_eq, not_false_eq_true]
    rcases nexec (nodeWrite f _ TX_ROUTED) s with ⟨r, s'⟩
    cases r <;> rfl

/-- `queue.enqueue(self.frame_buf)`, explicitly -/
theorem enqueueFrameBuf_eq (s : NetState) :
    nexec enqueueFrameBuf s =
      let e := s.node.queue.enqueue s.node.frameBuf
      let s1 := s.setNode fun n => { n with queue := e.1, frameBuf := e.2.2 }
      (.ok e.2.1,
       if e.2.1 = true ∧ (e.2.2.header.ty ≠ MSG_FRAG_FIRST ∧ e.2.2.header.ty ≠ MSG_FRAG_MORE
           ∨ (!s.node.queue.frag) = true)
       then { s1 with nextId := (s1.nextId + 1) &&& 0xFFFF } else s1) := by
  unfold enqueueFrameBuf
  simp only [nexec_bind, nexec_getNode]
  rcases he : s.node.queue.enqueue s.node.frameBuf with ⟨q, r, fr⟩
  simp only [nexec_bind, nexec_modNode, nexec_ite, nexec_takeId, nexec_pure]
  split <;> rfl

/-- a frame for this node that is neither a PING, an address response / request, nor a system
    type the node returns to its caller: it is enqueued, once — user types and fragments alike -/
theorem handleThis_enqueue (f msgT : Nat) (s : NetState) (h1 : msgT ≠ NETWORK_PING)
    (h2 : msgT ≠ MESH_ADDR_RESPONSE) (h3 : msgT ≠ MESH_ADDR_REQUEST)
    (h4 : msgT ≤ MAX_USR_DEF_MSG_TYPE ∨ msgT = MSG_FRAG_FIRST ∨ msgT = MSG_FRAG_MORE ∨ msgT = MSG_FRAG_LAST) :
    nexec (handleThis (f + 1) msgT) s =
      match nexec enqueueFrameBuf s with
      | (.ok _, s') =>
        (.ok (if s'.node.frameBuf.header.ty = NETWORK_EXT_DATA then (false, NETWORK_EXT_DATA)
              else (true, msgT)), s')
      | (.error e, s') => (.error e, s') := by
  rw [handleThis.eq_2]
  simp only [nexec_bind, nexec_getNode, nexec_ite, nexec_pure, h1, h2, h3, false_and, if_false]
  have hno : ¬ ((s.node.retSysMsg = true ∧ msgT > MAX_USR_DEF_MSG_TYPE ∨ msgT = NETWORK_ACK) ∧
      (msgT ≠ MSG_FRAG_FIRST ∧ msgT ≠ MSG_FRAG_MORE ∧ msgT ≠ MSG_FRAG_LAST ∧ msgT ≠ NETWORK_EXT_DATA)) := by
    unfold MAX_USR_DEF_MSG_TYPE NETWORK_ACK MSG_FRAG_FIRST MSG_FRAG_MORE MSG_FRAG_LAST at *
    omega
  rcases nexec enqueueFrameBuf s with ⟨r, s'⟩
  by_cases hc1 : s.node.retSysMsg = true ∧ msgT > MAX_USR_DEF_MSG_TYPE ∨ msgT = NETWORK_ACK
  · rw [if_pos hc1]
    by_cases hc2 : msgT ≠ MSG_FRAG_FIRST ∧ msgT ≠ MSG_FRAG_MORE ∧ msgT ≠ MSG_FRAG_LAST ∧ msgT ≠ NETWORK_EXT_DATA
    · exact absurd ⟨hc1, hc2⟩ hno
    · rw [if_neg hc2]
      cases r with
      | error e => rfl
      | ok a => simp only []; split <;> rfl
  · rw [if_neg hc1]
    cases r with
    | error e => rfl
    | ok a => simp only []; split <;> rfl

/-- a PING for this node is consumed: nothing is queued, nothing is sent -/
theorem handleThis_ping (f : Nat) (s : NetState) :
    nexec (handleThis (f + 1) NETWORK_PING) s = (.ok (true, NETWORK_PING), s) := by
  rw [handleThis.eq_2]
  simp only [nexec_bind, nexec_getNode, nexec_ite, nexec_pure, if_true]

/-! ### the transmit side -/

theorem node_setNode (s : NetState) (f : Node → Node) (h : s.cur < s.nodes.length) :
    (s.setNode f).node = f s.node := by
  rw [node_eq, node_eq]
  show ((s.nodes.modify s.cur f)[s.cur]?.getD default) = _
  rw [List.getElem?_modify_eq, List.getElem?_eq_getElem h]
  rfl

@[simp] theorem setNode_cur (s : NetState) (f : Node → Node) : (s.setNode f).cur = s.cur := rfl
@[simp] theorem setNode_active (s : NetState) (f : Node → Node) : (s.setNode f).active = s.active := rfl
@[simp] theorem setNode_w (s : NetState) (f : Node → Node) : (s.setNode f).w = s.w := rfl
@[simp] theorem setNode_closed (s : NetState) (f : Node → Node) : (s.setNode f).closed = s.closed := rfl
@[simp] theorem setNode_len (s : NetState) (f : Node → Node) : (s.setNode f).nodes.length = s.nodes.length := by
  simp [NetState.setNode]

theorem setNode_setNode (s : NetState) (f g : Node → Node) : (s.setNode f).setNode g = s.setNode (g ∘ f) := by
  unfold NetState.setNode
  simp only [List.modify_modify_eq]

/-- only the value at the running node matters -/
theorem setNode_congr (s : NetState) (f g : Node → Node) (h : f s.node = g s.node) :
    s.setNode f = s.setNode g := by
  unfold NetState.setNode
  congr 1
  apply List.ext_getElem?
  intro j
  rw [List.getElem?_modify, List.getElem?_modify]
  by_cases hj : s.cur = j
  · subst hj
    cases hn : s.nodes[s.cur]? with
    | none => rfl
    | some n =>
      have : s.node = n := by rw [node_eq, hn]; rfl
      rw [this] at h
      simp [h]
  · simp [hj]

theorem pack_int (h : Header) (t : Nat) (ht : h.msgType = .int t) : h.pack = .ok (hdrBytes h) := by
  unfold Header.pack hdrBytes Header.ty
  rw [ht]
  rfl

theorem fragStep_int (msg : Bytes) (total msgT count : Nat) (h : Header) :
    ∃ t, (fragStep msg total msgT count h).1.msgType = .int t := by
  unfold fragStep
  split
  · exact ⟨_, rfl⟩
  · split <;> exact ⟨_, rfl⟩

theorem fragStep_pack (msg : Bytes) (total msgT count : Nat) (h : Header) :
    (fragStep msg total msgT count h).1.pack = .ok (hdrBytes (fragStep msg total msgT count h).1) := by
  obtain ⟨t, ht⟩ := fragStep_int msg total msgT count h
  exact pack_int _ t ht

/-- replace the running node's object -/
def NetState.putNode (s : NetState) (n : Node) : NetState := s.setNode fun _ => n

theorem setNode_eq_putNode (s : NetState) (g : Node → Node) : s.setNode g = s.putNode (g s.node) :=
  setNode_congr s g _ rfl

theorem node_putNode (s : NetState) (n : Node) (h : s.cur < s.nodes.length) : (s.putNode n).node = n :=
  node_setNode s _ h

theorem pack_mk_int (a b c t r : Nat) :
    Header.pack ⟨a, b, c, .int t, r⟩ = .ok (hdrBytes ⟨a, b, c, .int t, r⟩) := pack_int _ t rfl

local macro "fragfin" : tactic => `(tactic| (
  rcases nexec (rfSend _ _) _ with ⟨r1, s3⟩
  cases r1 with
  | error e => rfl
  | ok r =>
    simp only []
    rcases nexec (fragRetry _ 3 r) s3 with ⟨r2, s4⟩
    cases r2 with
    | error e => rfl
    | ok res => rfl))

/-- **One round of the fragment loop of `_write_to_pipe`**, in closed form: the header of `frame_buf`
    becomes that of fragment `count = total - left`, the header bytes plus the slice of the message
    go to `send()`; on failure up to three `_tx_standby` rounds; a fragment that stays unsent ends
    the loop with `False`, the last one with `True`. -/
theorem nodeFragLoop_step (f total msgT left : Nat) (s : NetState) (hl : left ≠ 0)
    (hc : s.cur < s.nodes.length) :
    nexec (nodeFragLoop (f + 1) total msgT left) s =
      match nexec (rfSend f (hdrBytes (fragStep s.node.frameBuf.message total msgT (total - left) s.node.frameBuf.header).1
            ++ pySlice s.node.frameBuf.message ((total - left) * MAX_FRAG_SIZE)
                (fragStep s.node.frameBuf.message total msgT (total - left) s.node.frameBuf.header).2))
          (s.putNode { s.node with frameBuf := { s.node.frameBuf with header :=
            (fragStep s.node.frameBuf.message total msgT (total - left) s.node.frameBuf.header).1 } }) with
      | (.error e, s3) => (.error e, s3)
      | (.ok r, s3) =>
        match nexec (fragRetry f 3 r) s3 with
        | (.error e, s4) => (.error e, s4)
        | (.ok result, s4) =>
          if (!result) = true then (.ok false, s4)
          else if left = 1 then (.ok true, s4)
          else nexec (nodeFragLoop f total msgT (left - 1)) s4 := by
  rw [nodeFragLoop.eq_2]
  simp only [hl, if_false, nexec_bind, nexec_getNode, nexec_setHdr, nexec_ite, nexec_pure, setNode_setNode]
  by_cases hlast : (total - left == total - 1) = true
  · have hlast' : total - left = total - 1 := by simpa using hlast
    simp only [if_pos hlast, setNode_eq_putNode, Function.comp, node_putNode _ _ hc, Header.setTy, pack_mk_int,
      nexec_liftPy_ok, fragStep, if_pos hlast']
    fragfin
  · have hlast' : ¬ total - left = total - 1 := by simpa using hlast
    simp only [if_neg hlast]
    by_cases hfirst : total - left = 0
    · simp only [if_pos hfirst, setNode_eq_putNode, Function.comp, node_putNode _ _ hc, Header.setTy, pack_mk_int,
        nexec_liftPy_ok, fragStep, if_neg hlast', if_neg hlast]
      fragfin
    · simp only [if_neg hfirst, setNode_eq_putNode, Function.comp, node_putNode _ _ hc, Header.setTy, pack_mk_int,
        nexec_liftPy_ok, fragStep, if_neg hlast', if_neg hlast]
      fragfin

theorem frameBuf_of_core {s s' : NetState} (h : Rel Node.core s s') : s'.node.frameBuf = s.node.frameBuf :=
  show s'.node.core.frameBuf = s.node.core.frameBuf from congrArg Node.frameBuf h.proj

theorem fragPlan_isEmpty (msg : Bytes) (total msgT n : Nat) (h : Header) :
    (fragPlan msg total msgT n h).isEmpty = decide (n = 0) := by
  cases n <;> simp [fragPlan]

/-- **The fragment loop is the execution of its plan**: for every fuel and state, whatever the link
    and the other nodes do. -/
theorem nodeFragLoop_plan (f : Nat) : ∀ (total msgT left : Nat) (s : NetState),
    s.cur ∈ s.active → s.cur < s.nodes.length →
    nexec (nodeFragLoop f total msgT left) s =
      nexec (sendFrags f (fragPlan s.node.frameBuf.message total msgT left s.node.frameBuf.header)) s := by
  induction f with
  | zero => intro total msgT left s _ _; rw [nodeFragLoop.eq_1, sendFrags]
  | succ f ih =>
    intro total msgT left s hs hc
    cases left with
    | zero =>
      rw [nodeFragLoop.eq_2]
      simp only [if_true, fragPlan, sendFrags]
    | succ n =>
      rw [nodeFragLoop_step f total msgT (n + 1) s (Nat.succ_ne_zero n) hc]
      simp only [fragPlan, sendFrags, nexec_bind, nexec_setHdr, nexec_ite, nexec_pure]
      rw [setNode_eq_putNode]
      generalize hs2 : s.putNode _ = s2
      have hs2c : s2.cur = s.cur := by rw [← hs2]; rfl
      have hs2a : s2.active = s.active := by rw [← hs2]; rfl
      have hs2l : s2.nodes.length = s.nodes.length := by rw [← hs2]; exact setNode_len _ _
      have hs2n : s2.node.frameBuf = { s.node.frameBuf with header :=
          (fragStep s.node.frameBuf.message total msgT (total - (n + 1)) s.node.frameBuf.header).1 } := by
        rw [← hs2, node_putNode _ _ hc]
      have hs2ok : s2.cur ∈ s2.active := by rw [hs2c, hs2a]; exact hs
      rcases h3 : nexec (rfSend f _) s2 with ⟨r1, s3⟩
      cases r1 with
      | error e => rfl
      | ok r =>
        simp only []
        have r23 : Rel Node.core s2 s3 := ((frameAt f).rfSend _).out s2 _ s3 hs2ok h3
        rcases h4 : nexec (fragRetry f 3 r) s3 with ⟨r2, s4⟩
        cases r2 with
        | error e => rfl
        | ok res =>
          simp only []
          have r34 : Rel Node.core s3 s4 := ((frameAt f).fragRetry _ _).out s3 _ s4 (r23.ok hs2ok) h4
          have r24 := r23.trans r34
          split
          · rfl
          · rw [fragPlan_isEmpty]
            by_cases hn : n = 0
            · simp [hn]
            · have h1 : ¬ (n + 1 = 1) := by omega
              simp only [h1, if_false, hn, decide_false, Bool.false_eq_true]
              have hlen4 : s4.cur < s4.nodes.length := by rw [r24.cur, r24.len, hs2c, hs2l]; exact hc
              rw [Nat.add_sub_cancel, ih total msgT n s4 (r24.ok hs2ok) hlen4, frameBuf_of_core r24, hs2n]

/-- the payloads of the plan are the frames of the pure loop of `Net/Frag.lean` (C11 relates those
    to the reference encoder) -/
theorem fragLoop_eq_plan (msg : Bytes) (total msgT : Nat) : ∀ (n : Nat) (h : Header),
    fragLoop msg total msgT n h =
      .ok ((fragPlan msg total msgT n h).map (·.2),
           ((fragPlan msg total msgT n h).getLast?.map (·.1)).getD h) := by
  intro n
  induction n with
  | zero => intro h; rfl
  | succ n ih =>
    intro h
    rw [fragLoop]
    have e : ∀ (hh : Header × Nat), hh = fragStep msg total msgT (total - (n + 1)) h →
        (do
          let hb ← hh.1.pack
          let x ← fragLoop msg total msgT n hh.1
          pure ((hb ++ pySlice msg ((total - (n + 1)) * MAX_FRAG_SIZE) hh.2) :: x.1, x.2) : PyM _) =
        .ok ((fragPlan msg total msgT (n + 1) h).map (·.2),
           ((fragPlan msg total msgT (n + 1) h).getLast?.map (·.1)).getD h) := by
      intro hh ehh
      subst ehh
      rw [fragStep_pack, ih]
      simp only [bind, Except.bind, pure, Except.pure, fragPlan, List.map_cons]
      congr 2
      cases hp : fragPlan msg total msgT n (fragStep msg total msgT (total - (n + 1)) h).1 with
      | nil => rfl
      | cons a l =>
        rw [List.getLast?_cons_cons]
        have : (a :: l).getLast? = some ((a :: l).getLast (by simp)) := List.getLast?_eq_some_getLast _
        rw [this]; rfl
    rw [← e _ rfl]
    unfold fragStep
    simp only []

theorem nexec_bind_congr {α β : Type} {x : NetM α} {f g : α → NetM β} {s : NetState}
    (h : ∀ a s', nexec x s = (.ok a, s') → nexec (f a) s' = nexec (g a) s') :
    nexec (x >>= f) s = nexec (x >>= g) s := by
  rw [nexec_bind, nexec_bind]
  rcases hx : nexec x s with ⟨r, s'⟩
  cases r with
  | error e => rfl
  | ok a => exact h a s' hx

@[simp] theorem afterRf_cur (s : NetState) (d : DrvState) : (s.afterRf d).cur = s.cur := rfl
@[simp] theorem afterRf_active (s : NetState) (d : DrvState) : (s.afterRf d).active = s.active := rfl
@[simp] theorem afterRf_closed (s : NetState) (d : DrvState) : (s.afterRf d).closed = s.closed := rfl
@[simp] theorem afterRf_w (s : NetState) (d : DrvState) : (s.afterRf d).w = d.w := rfl
@[simp] theorem afterRf_len (s : NetState) (d : DrvState) : (s.afterRf d).nodes.length = s.nodes.length := by
  simp [NetState.afterRf]

theorem afterRf_node (s : NetState) (d : DrvState) (h : s.cur < s.nodes.length) :
    (s.afterRf d).node = { s.node with rf := d.d } :=
  node_setNode s _ h

/-- **`_write_to_pipe` for a hop other than this node is `txPath`** (every fuel, every state with the
    running node present and on the call stack, every outcome). -/
theorem nodeWriteToPipe_txPath (f tn tp : Nat) (mc : Bool) (s : NetState) (hs : s.cur ∈ s.active)
    (hc : s.cur < s.nodes.length) (hnl : tn ≠ s.node.a.addr ∨ mc = true) :
    nexec (nodeWriteToPipe (f + 1) tn tp mc) s = nexec (txPath f tn tp mc) s := by
  rw [nodeWriteToPipe.eq_2, txPath]
  have hno : ¬ (tn = s.node.a.addr ∧ (!mc) = true) := by
    rintro ⟨h1, h2⟩
    rcases hnl with h | h
    · exact h h1
    · rw [h] at h2; cases h2
  rw [nexec_bind, nexec_getNode]
  simp only [if_neg hno]
  apply nexec_bind_congr; intro _ s1 h1
  simp only [nexec_liftRf, Prod.mk.injEq] at h1
  apply nexec_bind_congr; intro _ s2 h2
  simp only [nexec_liftRf, Prod.mk.injEq] at h2
  apply nexec_bind_congr; intro addr s3 h3
  have e3 : s3 = s2 := by
    unfold Nrf.Net.pipeAddr at h3
    simp only [nexec_bind, nexec_getNode, nexec_liftPy, Prod.mk.injEq] at h3
    exact h3.2.symm
  apply nexec_bind_congr; intro _ s4 h4
  simp only [nexec_liftRf, Prod.mk.injEq] at h4
  apply nexec_bind_congr; intro n s5 h5
  simp only [nexec_getNode, Prod.mk.injEq, Except.ok.injEq] at h5
  obtain ⟨rfl, rfl⟩ := h5
  by_cases hlen : s4.node.frameBuf.message.length ≤ MAX_FRAG_SIZE
  · simp only [if_pos hlen]
  · simp only [if_neg hlen]
    have hcur : s4.cur = s.cur ∧ s4.active = s.active ∧ s4.nodes.length = s.nodes.length := by
      rw [← h4.2, e3, ← h2.2, ← h1.2]; simp
    rw [nexec_bind, nexec_bind, nodeFragLoop_plan f _ _ _ s4 (by rw [hcur.1, hcur.2.1]; exact hs)
      (by rw [hcur.1, hcur.2.2]; exact hc)]
    rfl

/-- `_write_to_pipe` for this node itself (unicast): the frame is enqueued locally, nothing is sent -/
theorem nodeWriteToPipe_loopback (f tp : Nat) (s : NetState) :
    nexec (nodeWriteToPipe (f + 1) s.node.a.addr tp false) s = nexec enqueueFrameBuf s := by
  rw [nodeWriteToPipe.eq_2, nexec_bind, nexec_getNode]
  simp

/-! ### what a transmission leaves alone -/

/-- everything of a node object that a transmission to another node must not touch: the static part,
    the queue, the message in `frame_buf` and the identifying header fields -/
def piF (n : Node) : NodeStat × NetQueue × Bytes × Nat × Nat × Nat :=
  (n.stat, n.queue, n.frameBuf.message, n.frameBuf.header.fromNode, n.frameBuf.header.toNode,
   n.frameBuf.header.frameId)

theorem piF_of_core (n n' : Node) (h : n'.core = n.core) : piF n' = piF n := by
  have : ∀ m : Node, piF m = piF m.core := fun _ => rfl
  rw [this n', this n, h]

theorem Frm.toF {α : Type} {m : NetM α} (h : Frm (Rel Node.core) m) : Frm (Rel piF) m :=
  h.weaken piF_of_core

theorem frm_nodeFragLoop_F (f : Nat) : ∀ a b c, Frm (Rel piF) (nodeFragLoop f a b c) := by
  induction f with
  | zero => intro a b c; rw [nodeFragLoop.eq_1]; exact Frm.throw _
  | succ f ih =>
    intro a b c
    have h1 : ∀ b, Frm (Rel piF) (rfSend f b) := fun b => ((frameAt f).rfSend b).toF
    have h2 : ∀ n r, Frm (Rel piF) (fragRetry f n r) := fun n r => ((frameAt f).fragRetry n r).toF
    rw [nodeFragLoop.eq_2]
    repeat frm_step

/-- `_write_to_pipe` to another node (or as a multicast) leaves `piF` of the running node alone,
    whatever the outcome -/
theorem nodeWriteToPipe_F (f tn tp : Nat) (mc : Bool) (s s' : NetState) (r : Except PyErr Bool)
    (hs : s.cur ∈ s.active) (hnl : tn ≠ s.node.a.addr ∨ mc = true)
    (h : nexec (nodeWriteToPipe f tn tp mc) s = (r, s')) : Rel piF s s' := by
  cases f with
  | zero => rw [nodeWriteToPipe.eq_1] at h; exact (Frm.throw (π := piF) _).out s r s' hs h
  | succ f =>
    have hno : ¬ (tn = s.node.a.addr ∧ (!mc) = true) := by
      rintro ⟨h1, h2⟩
      rcases hnl with h | h
      · exact h h1
      · rw [h] at h2; cases h2
    rw [nodeWriteToPipe.eq_2, nexec_bind, nexec_getNode] at h
    simp only [if_neg hno] at h
    have h1 : ∀ b, Frm (Rel piF) (rfSend f b) := fun b => ((frameAt f).rfSend b).toF
    have h2 : ∀ ms, Frm (Rel piF) (txStandbyFor f ms) := fun ms => ((frameAt f).txStandbyFor ms).toF
    have h3 := frm_nodeFragLoop_F f
    refine Frm.out ?_ s r s' hs h
    repeat frm_step

/-! ### queue and API facts -/

/-- a frame whose type is not one of the three fragment types goes through the plain queue,
    fragmentation support on or off -/
theorem enqueue_plain (q : NetQueue) (f : Frame)
    (ht : f.header.ty ≠ MSG_FRAG_FIRST ∧ f.header.ty ≠ MSG_FRAG_MORE ∧ f.header.ty ≠ MSG_FRAG_LAST) :
    q.enqueue f = ((q.enqueueBase f).1, (q.enqueueBase f).2, f) := by
  unfold NetQueue.enqueue
  split
  · rfl
  · have : ¬ (f.header.ty = MSG_FRAG_FIRST ∨ f.header.ty = MSG_FRAG_MORE ∨ f.header.ty = MSG_FRAG_LAST) := by
      rintro (h | h | h)
      · exact ht.1 h
      · exact ht.2.1 h
      · exact ht.2.2 h
    simp only [this, if_false]

/-- the plain queue takes the frame iff it has room and holds no frame with the same origin, id and
    type; it then stores the wire copy at the end -/
theorem enqueueBase_ok (q : NetQueue) (f : Frame) (hroom : (q.frames.length : Int) < q.maxSize)
    (hnew : ∀ g ∈ q.frames, ¬ (g.header.fromNode = f.header.fromNode ∧ g.header.frameId = f.header.frameId
      ∧ g.header.ty = f.header.ty)) :
    q.enqueueBase f = ({ q with frames := q.frames ++ [wireCopy f] }, true) := by
  unfold NetQueue.enqueueBase
  rw [if_neg (by omega)]
  have : q.frames.any (fun g => g.header.fromNode == f.header.fromNode
      && g.header.frameId == f.header.frameId && g.header.ty == f.header.ty) = false := by
    rw [List.any_eq_false]
    intro g hg
    have := hnew g hg
    simp only [Bool.and_eq_true, beq_iff_eq, not_and] at this ⊢
    intro ⟨h1, h2⟩ h3
    exact this h1 h2 h3
  rw [this]
  rfl

/-- packing the private copy `_pre_write` makes gives the bytes of the caller's frame -/
theorem pack_wireCopy (c : Frame) (t : Nat) (ht : c.header.msgType = .int t) :
    (wireCopy c).pack = c.pack := by
  unfold Frame.pack
  rw [pack_int (wireCopy c).header (t &&& 0xFF) (by simp [wireCopy, Header.ty, ht]), pack_int c.header t ht]
  simp only [hdrBytes, wireCopy, Header.ty, ht, Nat.and_assoc, Nat.and_self]

/-- `RF24Network.write(frame)` with automatic routing, for a valid destination and an admissible
    length: two header ids are consumed, `frame_buf` becomes a private wire copy of the caller's
    frame with `from_node` := this node's address, and the rest is `_write(to_node, TX_NORMAL)`;
    the caller's frame is returned untouched. -/
theorem apiNetWrite_eq (dst ty : Int) (msg : Bytes) (s : NetState)
    (hv : isValid (maskInt dst 0xFFF) = true) (hlen : msg.length ≤ s.node.maxMessageLength)
    (hfrag : msg.length ≤ MAX_FRAG_SIZE ∨ s.node.fragEnabled = true) :
    nexec (apiNetWrite dst ty msg AUTO_ROUTING) s =
      let caller : Frame :=
        { header := { fromNode := s.node.a.addr, toNode := maskInt dst 0xFFF, frameId := s.nextId,
                      msgType := .int (maskInt ty 0xFF), reserved := 0 },
          message := msg }
      let s0 : NetState := { s with nextId := (((s.nextId + 1) &&& 0xFFFF) + 1) &&& 0xFFFF }
      match nexec (nodeWrite F (maskInt dst 0xFFF) TX_NORMAL) (s0.setNode fun n => { n with frameBuf := wireCopy caller }) with
      | (.ok r, s') => (.ok (r, caller), s')
      | (.error e, s') => (.error e, s') := by
  unfold apiNetWrite nodeValidateMsgLen
  have h1 : ¬ msg.length > s.node.maxMessageLength := by omega
  have h2 : ¬ (msg.length > MAX_FRAG_SIZE ∧ (!s.node.fragEnabled) = true) := by
    rintro ⟨h3, h4⟩
    rcases hfrag with h | h
    · omega
    · rw [h] at h4; cases h4
  simp only [nexec_bind, nexec_takeId, hv, Bool.not_true, Bool.false_eq_true, if_false, nexec_pure,
    nexec_getNode, nexec_ite, nexec_modNode, ne_eq, not_true_eq_false, if_true]
  have hn : ({ s with nextId := (s.nextId + 1) &&& 0xFFFF } : NetState).node = s.node := rfl
  simp only [hn, h1, h2, if_false, nexec_pure, if_true]
  rcases nexec (nodeWrite F _ _) _ with ⟨r, s'⟩
  cases r <;> rfl

end Nrf.Net
