/-
C09 helper lemmas: `__enter__` / `__exit__` executed symbolically in an arbitrary world.
-/
import NrfProofs.C08Core
import NrfModel.Spec.Restore

namespace Nrf
open Rf24 Spec

theorem modShadow_plLen_self (s : DrvState) (i : Nat) :
    (s.modShadow fun d => { d with plLen := d.plLen.set i (s.d.plLen.getD i 0) }) = s := by
  unfold DrvState.modShadow
  simp only [set_getD_self]

/-- `set_payload_length(n, i)` with a legal length and pipe -/
theorem setPayloadLength_exec (n : Nat) (i : Nat) (s : DrvState) (hi : i ≤ 5) (hn : 1 ≤ n ∧ n ≤ 32) :
    exec (setPayloadLength (n : Int) (some (i : Int))) s =
      (.ok (), (s.modShadow fun d => { d with plLen := d.plLen.set i n }).spiStep [0x20 ||| (0x11 + i), n]) := by
  unfold setPayloadLength
  have h1 : (0 : Int) ≤ i ∧ (i : Int) ≤ 5 := by omega
  have h2 : (max 1 (min 32 (n : Int))).toNat = n := by omega
  have h3 : n ≤ 255 := by omega
  have h4 : RX_PL_LENG + i ≠ 0x50 := by unfold RX_PL_LENG; omega
  simp only [h1, and_self, ↓reduceIte, exec_bind, exec_modD', Int.toNat_natCast, h2,
     exec_regWrite_nat _ _ _ h3 h4]
  rfl

theorem enterPipe_lo (i : Nat) (s : DrvState) (hi : i < 2) (hn : 1 ≤ s.d.plLen.getD i 0 ∧ s.d.plLen.getD i 0 ≤ 32) :
    exec (enterPipe i) s = (.ok (), (s.spiStep ((0x20 ||| (0x0A + i)) :: getPipes s.d i)).spiStep
        [0x20 ||| (0x11 + i), s.d.plLen.getD i 0]) := by
  unfold enterPipe
  simp only [exec_bind, exec_getD, hi, ↓reduceIte, exec_regWriteBytes, setPayloadLength_exec _ _ _ (by omega : i ≤ 5) hn]
  have := modShadow_plLen_self (s.spiStep ((32 ||| (RX_ADDR_P0 + i)) :: getPipes s.d i)) i
  simp only [spiStep_d'] at this
  rw [this]
  rfl

theorem enterPipe_hi (i : Nat) (s : DrvState) (hi : 2 ≤ i ∧ i ≤ 5) (hn : 1 ≤ s.d.plLen.getD i 0 ∧ s.d.plLen.getD i 0 ≤ 32)
    (hp : s.d.pipesN.getD (i - 2) 0 ≤ 255) :
    exec (enterPipe i) s = (.ok (), (s.spiStep [0x20 ||| (0x0A + i), s.d.pipesN.getD (i - 2) 0]).spiStep
       [0x20 ||| (0x11 + i), s.d.plLen.getD i 0]) := by
  unfold enterPipe
  have h : ¬ i < 2 := by omega
  have h4 : RX_ADDR_P0 + i ≠ 0x50 := by unfold RX_ADDR_P0; omega
  simp only [exec_bind, exec_getD, h, ↓reduceIte, exec_regWrite_nat _ _ _ hp h4, setPayloadLength_exec _ _ _ hi.2 hn]
  have := modShadow_plLen_self (s.spiStep [32 ||| (RX_ADDR_P0 + i), s.d.pipesN.getD (i - 2) 0]) i
  simp only [spiStep_d'] at this
  rw [this]
  rfl

/-- the state after `__enter__`: CE low, PWR_UP into the CONFIG shadow, then 23 register writes -/
def enterState (s : DrvState) : DrvState :=
  (((((((((((((((((((((((s.ceStep false).modShadow fun d => { d with config := d.config ||| 2 }).spiStep
    [0x20, s.d.config ||| 2]).spiStep [0x26, s.d.rfSetup]).spiStep [0x22, s.d.openPipes]).spiStep [0x3C, s.d.dynPl]).spiStep
    [0x21, s.d.aa]).spiStep [0x3D, s.d.features]).spiStep [0x24, s.d.retrySetup]).spiStep
    (0x2A :: s.d.pipes0)).spiStep [0x31, s.d.plLen.getD 0 0]).spiStep
    (0x2B :: s.d.pipes1)).spiStep [0x32, s.d.plLen.getD 1 0]).spiStep
    [0x2C, s.d.pipesN.getD 0 0]).spiStep [0x33, s.d.plLen.getD 2 0]).spiStep
    [0x2D, s.d.pipesN.getD 1 0]).spiStep [0x34, s.d.plLen.getD 3 0]).spiStep
    [0x2E, s.d.pipesN.getD 2 0]).spiStep [0x35, s.d.plLen.getD 4 0]).spiStep
    [0x2F, s.d.pipesN.getD 3 0]).spiStep [0x36, s.d.plLen.getD 5 0]).spiStep
    (0x30 :: s.d.txAddress)).spiStep [0x25, s.d.channel]).spiStep [0x23, s.d.addrLen - 2]

theorem or2_lt_128 {x : Nat} (h : x < 128) : x ||| 2 < 128 :=
  (Nat.or_lt_two_pow (n := 7) (by omega) (by omega))

/-- `__enter__` never raises on in-range shadows and is exactly this sequence of steps -/
theorem enter_exec (s : DrvState) (hr : InRange s.d) : exec enter s = (.ok (), enterState s) := by
  obtain ⟨hcfg, hrf, hrf2, hop, hdyn, haa, hfeat, hretr, hch, hal, hp0, hp1, htx, ⟨hpnl, hpn⟩, ⟨hpll, hpl⟩⟩ := hr
  unfold enter
  have c1 : s.d.config ||| 2 ≤ 255 := by have := or2_lt_128 hcfg; omega
  have c2 : s.d.rfSetup ≤ 255 := by omega
  have c3 : s.d.openPipes ≤ 255 := by omega
  have c4 : s.d.dynPl ≤ 255 := by omega
  have c5 : s.d.aa ≤ 255 := by omega
  have c6 : s.d.features ≤ 255 := by omega
  have c7 : s.d.retrySetup ≤ 255 := by omega
  have c8 : s.d.channel ≤ 255 := by omega
  have c9 : s.d.addrLen - 2 ≤ 255 := by omega
  have l0 := getD_of_mem_range hpl 0 (by omega)
  have l1 := getD_of_mem_range hpl 1 (by omega)
  have l2 := getD_of_mem_range hpl 2 (by omega)
  have l3 := getD_of_mem_range hpl 3 (by omega)
  have l4 := getD_of_mem_range hpl 4 (by omega)
  have l5 := getD_of_mem_range hpl 5 (by omega)
  have n0 : s.d.pipesN.getD 0 0 ≤ 255 := Nat.le_of_lt_succ (getD_of_mem_range hpn 0 (by omega))
  have n1 : s.d.pipesN.getD 1 0 ≤ 255 := Nat.le_of_lt_succ (getD_of_mem_range hpn 1 (by omega))
  have n2 : s.d.pipesN.getD 2 0 ≤ 255 := Nat.le_of_lt_succ (getD_of_mem_range hpn 2 (by omega))
  have n3 : s.d.pipesN.getD 3 0 ≤ 255 := Nat.le_of_lt_succ (getD_of_mem_range hpn 3 (by omega))
  simp only [exec_bind, exec_setCE', exec_modD', exec_getD, modShadow_d, ceStep_d, spiStep_d', CONFIGURE, RF_PA_RATE,
    OPEN_PIPES, DYN_PL_LEN, AUTO_ACK, TX_FEATURE, SETUP_RETR, TX_ADDRESS,
    exec_regWrite_nat _ _ _ c1 (by decide : (0:Nat) ≠ 0x50),
    exec_regWrite_nat _ _ _ c2 (by decide : (6:Nat) ≠ 0x50),
    exec_regWrite_nat _ _ _ c3 (by decide : (2:Nat) ≠ 0x50),
    exec_regWrite_nat _ _ _ c4 (by decide : (0x1C:Nat) ≠ 0x50),
    exec_regWrite_nat _ _ _ c5 (by decide : (1:Nat) ≠ 0x50),
    exec_regWrite_nat _ _ _ c6 (by decide : (0x1D:Nat) ≠ 0x50),
    exec_regWrite_nat _ _ _ c7 (by decide : (4:Nat) ≠ 0x50)]
  rw [enterPipe_lo 0 _ (by decide) (by simpa [spiStep_d'] using l0)]
  simp only []
  rw [enterPipe_lo 1 _ (by decide) (by simpa [spiStep_d'] using l1)]
  simp only []
  rw [enterPipe_hi 2 _ (by decide) (by simpa [spiStep_d'] using l2) (by simpa [spiStep_d'] using n0)]
  simp only []
  rw [enterPipe_hi 3 _ (by decide) (by simpa [spiStep_d'] using l3) (by simpa [spiStep_d'] using n1)]
  simp only []
  rw [enterPipe_hi 4 _ (by decide) (by simpa [spiStep_d'] using l4) (by simpa [spiStep_d'] using n2)]
  simp only []
  rw [enterPipe_hi 5 _ (by decide) (by simpa [spiStep_d'] using l5) (by simpa [spiStep_d'] using n3)]
  simp only [exec_regWriteBytes, spiStep_d', modShadow_d, ceStep_d,
    exec_regWrite_nat _ _ _ c8 (by decide : (5:Nat) ≠ 0x50),
    exec_regWrite_nat _ _ _ c9 (by decide : (3:Nat) ≠ 0x50)]
  rfl

/-- the shadows after `__enter__`: PWR_UP in the CONFIG shadow, a fresh STATUS byte, nothing else -/
theorem enterState_d (s : DrvState) :
    (enterState s).d = { s.d with config := s.d.config ||| 2, status := (enterState s).d.status } := by
  simp only [enterState, spiStep_d', modShadow_d, ceStep_d]

theorem enterState_reach (s : DrvState) : Reach true s (enterState s) := by
  unfold enterState
  reach_steps

/-- what the violation log gains in `__enter__`: only the library's documented "2-byte address" setting -/
def enterLog (d : Rf24) : List String := if d.addrLen - 2 = 0 then ["SETUP_AW:illegal:0"] else []

set_option maxRecDepth 4000 in
/-- the registers after `__enter__`, in any world in which FEATURE/DYNPD are accessible -/
theorem enterState_cfg (s : DrvState) (hw : s.Wf) (hr : InRange s.d) (hv : s.cfg.featureVisible = true)
    (hs : RadioShape s.cfg) :
    regsOf (enterState s).cfg = shadowRegs { s.d with config := s.d.config ||| 2 } ∧
    (enterState s).cfg.ce = false ∧
    (enterState s).cfg.plus = s.cfg.plus ∧ (enterState s).cfg.activated = s.cfg.activated ∧
    (enterState s).cfg.violations = s.cfg.violations ++ enterLog s.d := by
  obtain ⟨hcfg, hrf, hrf2, hop, hdyn, haa, hfeat, hretr, hch, hal, hp0, hp1, htx, ⟨hpnl, hpn⟩, ⟨hpll, hpl⟩⟩ := hr
  obtain ⟨s0, s1, s2, s3, s4⟩ := hs
  have e0 : s.d.pipes0 ≠ [] := by intro h; simp [h] at hp0
  have e1 : s.d.pipes1 ≠ [] := by intro h; simp [h] at hp1
  have e2 : s.d.txAddress ≠ [] := by intro h; simp [h] at htx
  have c1 := or2_lt_128 hcfg
  have c9 : s.d.addrLen - 2 < 4 := by omega
  have l0 := (getD_of_mem_range hpl 0 (by omega)).2
  have l1 := (getD_of_mem_range hpl 1 (by omega)).2
  have l2 := (getD_of_mem_range hpl 2 (by omega)).2
  have l3 := (getD_of_mem_range hpl 3 (by omega)).2
  have l4 := (getD_of_mem_range hpl 4 (by omega)).2
  have l5 := (getD_of_mem_range hpl 5 (by omega)).2
  have hv' : (s.cfg.plus || s.cfg.activated) = true := hv
  unfold enterState
  simp (config := {decide := true}) only [spiStep_wlit, spiStep_wf, ceStep_wf, modShadow_wf', hw, e0, e1, e2, ne_eq,
    not_false_eq_true, List.cons_ne_nil, modShadow_cfg, ceStep_cfg, Nat.reduceSub]
  simp only [Radio.wr_config _ _ c1, Radio.wr_rfSetup _ _ hrf, Radio.wr_enRxAddr _ _ hop, Radio.wr_dynpd _ _ hdyn,
    Radio.wr_enAA _ _ haa, Radio.wr_feature _ _ hfeat, Radio.wr_setupRetr _ _ hretr, Radio.wr_rxAddr0, Radio.wr_rxAddr1,
    Radio.wr_rxAddr2, Radio.wr_rxAddr3, Radio.wr_rxAddr4, Radio.wr_rxAddr5, Radio.wr_txAddr,
    Radio.wr_rxPw0 _ _ l0, Radio.wr_rxPw1 _ _ l1, Radio.wr_rxPw2 _ _ l2, Radio.wr_rxPw3 _ _ l3, Radio.wr_rxPw4 _ _ l4,
    Radio.wr_rxPw5 _ _ l5, Radio.wr_rfCh _ _ hch, Radio.wr_setupAw _ _ c9, Radio.featureVisible, hv']
  refine ⟨?_, trivial, trivial, trivial, ?_⟩
  · simp only [regsOf, shadowRegs, Radio.overlay_full _ _ (Nat.le_of_eq s0) hp0, Radio.overlay_full _ _ (Nat.le_of_eq s1) hp1,
      Radio.overlay_full _ _ (Nat.le_of_eq s2) htx, set6 _ s4, set4 _ s3, list6_eq _ hpll, list4_eq _ hpnl]
  · simp only [Bool.false_eq_true, false_and, ↓reduceIte, List.append_nil, enterLog]

end Nrf

namespace Nrf
open Rf24 Spec

/-- on a non-plus chip whose FEATURE/DYNPD are locked, writes to them are ignored -/
theorem Radio.wr_dynpd_hidden (r : Radio) (v : Nat) (hf : r.featureVisible = false) : r.writeReg 0x1C [v] = r := by
  simp only [Radio.writeReg, hf, Bool.false_eq_true, ↓reduceIte, List.append_nil]

theorem Radio.wr_feature_hidden (r : Radio) (v : Nat) (hf : r.featureVisible = false) : r.writeReg 0x1D [v] = r := by
  simp only [Radio.writeReg, hf, Bool.false_eq_true, ↓reduceIte, List.append_nil]

set_option maxRecDepth 4000 in
/-- the registers after `__enter__` on a non-plus chip with locked feature registers: DYNPD and
    FEATURE keep whatever they held, every other register is restored -/
theorem enterState_cfg_hidden (s : DrvState) (hw : s.Wf) (hr : InRange s.d) (hv : s.cfg.featureVisible = false)
    (hs : RadioShape s.cfg) :
    regsOf (enterState s).cfg =
      { shadowRegs { s.d with config := s.d.config ||| 2 } with dynpd := s.cfg.dynpd, feature := s.cfg.feature } ∧
    (enterState s).cfg.ce = false ∧
    (enterState s).cfg.plus = s.cfg.plus ∧ (enterState s).cfg.activated = s.cfg.activated ∧
    (enterState s).cfg.violations = s.cfg.violations ++ enterLog s.d := by
  obtain ⟨hcfg, hrf, hrf2, hop, hdyn, haa, hfeat, hretr, hch, hal, hp0, hp1, htx, ⟨hpnl, hpn⟩, ⟨hpll, hpl⟩⟩ := hr
  obtain ⟨s0, s1, s2, s3, s4⟩ := hs
  have e0 : s.d.pipes0 ≠ [] := by intro h; simp [h] at hp0
  have e1 : s.d.pipes1 ≠ [] := by intro h; simp [h] at hp1
  have e2 : s.d.txAddress ≠ [] := by intro h; simp [h] at htx
  have c1 := or2_lt_128 hcfg
  have c9 : s.d.addrLen - 2 < 4 := by omega
  have l0 := (getD_of_mem_range hpl 0 (by omega)).2
  have l1 := (getD_of_mem_range hpl 1 (by omega)).2
  have l2 := (getD_of_mem_range hpl 2 (by omega)).2
  have l3 := (getD_of_mem_range hpl 3 (by omega)).2
  have l4 := (getD_of_mem_range hpl 4 (by omega)).2
  have l5 := (getD_of_mem_range hpl 5 (by omega)).2
  have hv' : (s.cfg.plus || s.cfg.activated) = false := hv
  unfold enterState
  simp (config := {decide := true}) only [spiStep_wlit, spiStep_wf, ceStep_wf, modShadow_wf', hw, e0, e1, e2, ne_eq,
    not_false_eq_true, List.cons_ne_nil, modShadow_cfg, ceStep_cfg, Nat.reduceSub]
  simp only [Radio.wr_config _ _ c1, Radio.wr_rfSetup _ _ hrf, Radio.wr_enRxAddr _ _ hop, Radio.wr_dynpd_hidden,
    Radio.wr_enAA _ _ haa, Radio.wr_feature_hidden, Radio.wr_setupRetr _ _ hretr, Radio.wr_rxAddr0, Radio.wr_rxAddr1,
    Radio.wr_rxAddr2, Radio.wr_rxAddr3, Radio.wr_rxAddr4, Radio.wr_rxAddr5, Radio.wr_txAddr,
    Radio.wr_rxPw0 _ _ l0, Radio.wr_rxPw1 _ _ l1, Radio.wr_rxPw2 _ _ l2, Radio.wr_rxPw3 _ _ l3, Radio.wr_rxPw4 _ _ l4,
    Radio.wr_rxPw5 _ _ l5, Radio.wr_rfCh _ _ hch, Radio.wr_setupAw _ _ c9, Radio.featureVisible, hv']
  refine ⟨?_, trivial, trivial, trivial, ?_⟩
  · simp only [regsOf, shadowRegs, Radio.overlay_full _ _ (Nat.le_of_eq s0) hp0, Radio.overlay_full _ _ (Nat.le_of_eq s1) hp1,
      Radio.overlay_full _ _ (Nat.le_of_eq s2) htx, set6 _ s4, set4 _ s3, list6_eq _ hpll, list4_eq _ hpnl]
  · simp only [Bool.false_eq_true, false_and, ↓reduceIte, List.append_nil, enterLog]

/-! ### `__exit__` -/

/-- the state after `__exit__` -/
def exitState (s : DrvState) : DrvState :=
  ((((s.ceStep false).modShadow fun d => { d with config := d.config &&& 0x7D }).spiStep
    [0x20, s.d.config &&& 0x7D]).sleepStep 150000)

theorem exit_exec (s : DrvState) (hc : s.d.config ≤ 255) : exec Rf24.exit s = (.ok (), exitState s) := by
  unfold Rf24.exit
  have h1 : s.d.config &&& 0x7D ≤ 255 := Nat.le_trans Nat.and_le_left hc
  simp only [exec_bind, exec_setCE', exec_modD', exec_getD, modShadow_d, ceStep_d, CONFIGURE,
    exec_regWrite_nat _ _ _ h1 (by decide : (0:Nat) ≠ 0x50), exec_sleepNs']
  rfl

theorem exitState_d (s : DrvState) :
    (exitState s).d = { s.d with config := s.d.config &&& 0x7D, status := (exitState s).d.status } := by
  simp only [exitState, spiStep_d', modShadow_d, ceStep_d, sleepStep_d]

theorem exitState_reach (s : DrvState) : Reach true s (exitState s) := by
  unfold exitState
  reach_steps

theorem and7D_lt_128 {x : Nat} (h : x < 128) : x &&& 0x7D < 128 := Nat.lt_of_le_of_lt Nat.and_le_left h

/-- `__exit__` programs CONFIG with PWR_UP cleared, drives CE low, and touches nothing else -/
theorem exitState_cfg (s : DrvState) (hw : s.Wf) (hc : s.d.config < 128) :
    (exitState s).cfg = { s.cfg with ce := false, config := s.d.config &&& 0x7D } := by
  unfold exitState
  simp (config := {decide := true}) only [sleepStep_cfg, spiStep_wlit, spiStep_wf, ceStep_wf, modShadow_wf', hw, ne_eq,
    not_false_eq_true, List.cons_ne_nil, modShadow_cfg, ceStep_cfg, Nat.reduceSub]
  simp only [Radio.wr_config _ _ (and7D_lt_128 hc), Bool.false_eq_true, false_and, ↓reduceIte, List.append_nil]

end Nrf

namespace Nrf
open Rf24 Spec

/-- everything about `__enter__` in one statement about an opaque final state -/
theorem enter_spec (s : DrvState) (hw : s.Wf) (hr : InRange s.d) (hs : RadioShape s.cfg) :
    ∃ s', exec enter s = (.ok (), s') ∧
      s'.d = { s.d with config := s.d.config ||| 2, status := s'.d.status } ∧
      s'.d.rid = s.d.rid ∧ s'.Wf ∧ (∀ j, j ≠ s.d.rid → s'.cfgAt j = s.cfgAt j) ∧
      s'.w.radios.length = s.w.radios.length ∧
      s'.cfg.ce = false ∧ s'.cfg.plus = s.cfg.plus ∧ s'.cfg.activated = s.cfg.activated ∧
      s'.cfg.violations = s.cfg.violations ++ enterLog s.d ∧
      (s.cfg.featureVisible = true →
        regsOf s'.cfg = shadowRegs { s.d with config := s.d.config ||| 2 }) ∧
      (s.cfg.featureVisible = false →
        regsOf s'.cfg = { shadowRegs { s.d with config := s.d.config ||| 2 } with
                          dynpd := s.cfg.dynpd, feature := s.cfg.feature }) := by
  refine ⟨enterState s, enter_exec s hr, enterState_d s, ?_⟩
  have hfr := (enterState_reach s).frame hw
  refine ⟨hfr.1, hfr.2.1, hfr.2.2, (enterState_reach s).length, ?_⟩
  cases hv : s.cfg.featureVisible with
  | true =>
    obtain ⟨h1, h2, h3, h4, h5⟩ := enterState_cfg s hw hr hv hs
    exact ⟨h2, h3, h4, h5, fun _ => h1, fun h => (by cases h)⟩
  | false =>
    obtain ⟨h1, h2, h3, h4, h5⟩ := enterState_cfg_hidden s hw hr hv hs
    exact ⟨h2, h3, h4, h5, fun h => (by cases h), fun _ => h1⟩

/-- everything about `__exit__` in one statement about an opaque final state -/
theorem exit_spec (s : DrvState) (hw : s.Wf) (hc : s.d.config < 128) :
    ∃ s', exec Rf24.exit s = (.ok (), s') ∧
      s'.d = { s.d with config := s.d.config &&& 0x7D, status := s'.d.status } ∧
      s'.d.rid = s.d.rid ∧ s'.Wf ∧ (∀ j, j ≠ s.d.rid → s'.cfgAt j = s.cfgAt j) ∧
      s'.w.radios.length = s.w.radios.length ∧
      s'.cfg = { s.cfg with ce := false, config := s.d.config &&& 0x7D } := by
  have hfr := (exitState_reach s).frame hw
  exact ⟨exitState s, exit_exec s (by omega), exitState_d s, hfr.1, hfr.2.1, hfr.2.2, (exitState_reach s).length,
    exitState_cfg s hw hc⟩

end Nrf
