/-
Helper lemmas for C12: what one in-scope operation does to the queue's contents, and the
simulation of the reference queue `Spec.RefQ`.
-/
import NrfProofs.QueueV
import NrfProofs.Wire
import NrfModel.Spec.RefQueue

namespace Nrf.Proofs
open Nrf.Net Nrf.Spec

/-- the on-air value of a frame -/
def toW (f : Frame) : WFrame :=
  { src := f.header.fromNode, dst := f.header.toNode, id := f.header.frameId,
    ty := (match f.header.msgType with | .int n => n | .str _ => 0),
    rsv := f.header.reserved, body := f.message }

/-- wire-representable: an int type and every field within its wire width -/
def Wire (f : Frame) : Prop := (∃ t, f.header.msgType = .int t) ∧ (toW f).InRange

def NotFragType (f : Frame) : Prop :=
  f.header.msgType ≠ .int MSG_FRAG_FIRST ∧ f.header.msgType ≠ .int MSG_FRAG_MORE ∧
    f.header.msgType ≠ .int MSG_FRAG_LAST

theorem wire_pack (f : Frame) (hw : Wire f) :
    ∃ img, f.pack = .ok img ∧ ∀ nid, copyOf nid img = f := by
  obtain ⟨⟨t, ht⟩, hr⟩ := hw
  have hr' : (wOf f.header t []).InRange := by
    simpa [toW, wOf, ht, WFrame.InRange] using hr
  have hp := pack_inrange f.header t ht hr'
  refine ⟨headerBytes (wOf f.header t []) ++ f.message, ?_, ?_⟩
  · simp [Frame.pack, hp, bind, Except.bind, pure, Except.pure]
  · intro nid
    unfold copyOf Frame.unpack
    rw [unpack_pack f.header _ t (by simp [ht, typeCode]) _ hp f.message]
    obtain ⟨h1, h2, h3, h4, h5⟩ := hr'
    simp only [wOf] at h1 h2 h3 h4 h5
    cases f with
    | mk h m =>
      cases h
      simp only at ht h1 h2 h3 h5
      simp [maskedHeader, headerBytes, ht, Nat.mod_eq_of_lt h1, Nat.mod_eq_of_lt h2,
        Nat.mod_eq_of_lt h3, Nat.mod_eq_of_lt h4, Nat.mod_eq_of_lt h5]

theorem fragAct_base (fx : Fixes) (c : Frame) (cv : Bool) (f : Frame) (h : NotFragType f) :
    fragAct fx c cv f = .base := by
  unfold fragAct
  have : ¬ (f.header.msgType = .int MSG_FRAG_FIRST ∨ f.header.msgType = .int MSG_FRAG_MORE
      ∨ f.header.msgType = .int MSG_FRAG_LAST) := by
    rintro (h1 | h1 | h1)
    · exact h.1 h1
    · exact h.2.1 h1
    · exact h.2.2 h1
  simp [this]

/-- `queue.enqueue(frame)` in C12's scope is `FrameQueue.enqueue(frame)` in either mode -/
theorem enqueue_scope (fx : Fixes) (s : QState) (o : Nat)
    (hnf : s.frag = true → NotFragType (s.heap o)) :
    s.enqueue fx o = s.enqueueBase fx (s.heap o) := by
  unfold QState.enqueue
  by_cases hf : s.frag = true
  · simp only [hf, ↓reduceIte]
    rw [enqueueFrag_act, fragAct_base fx _ _ _ (hnf hf)]
    rfl
  · simp [hf]

/-- the value-level effect of enqueueing a wire-representable frame -/
theorem enqueueBase_wire (fx : Fixes) (v : VQ) (f : Frame) (hw : Wire f) :
    v.enqueueBase fx f =
      if full fx v.maxSize v.items.length || v.items.any (fun g => sameKey g f) then (v, .ok false)
      else ({ v with nextId := (Frame.fresh v.nextId).2, items := v.items ++ [f] }, .ok true) := by
  obtain ⟨img, hp, hc⟩ := wire_pack f hw
  unfold VQ.enqueueBase
  by_cases h1 : full fx v.maxSize v.items.length = true
  · simp [h1]
  · by_cases h2 : v.items.any (fun g => sameKey g f) = true
    · simp [h1, h2]
    · simp only [h1, h2, Bool.false_eq_true, ↓reduceIte, hp, hc, Bool.or_self]

theorem moveLoop_eq : ∀ (q acc : List Nat), moveLoop q acc = ([], acc ++ q) := by
  intro q
  induction q with
  | nil => intro acc; simp [moveLoop]
  | cons o r ih => intro acc; simp [moveLoop, ih]

/-- the fragmentation setter moves the frame *objects* in order and keeps `max_queue_size` -/
theorem setFragmentation_queue (s : QState) (b : Bool) :
    (s.setFragmentation b).queue = s.queue ∧ (s.setFragmentation b).heap = s.heap ∧
      (s.setFragmentation b).maxSize = s.maxSize ∧ (s.setFragmentation b).next = s.next ∧
      (s.setFragmentation b).frag = b := by
  unfold QState.setFragmentation
  by_cases h : b = s.frag
  · simp [h]
  · simp only [h, ↓reduceIte, moveLoop_eq, List.nil_append]
    cases b <;> simp [Frame.fresh]

theorem dequeue_contents (s : QState) :
    (s.dequeue.2 = none ∧ s.contents = [] ∧ s.dequeue.1 = s) ∨
      (∃ o, s.dequeue.2 = some o ∧ s.contents = s.heap o :: s.dequeue.1.contents ∧
        s.queue = o :: s.dequeue.1.queue ∧ s.dequeue.1.heap = s.heap ∧
        s.dequeue.1.maxSize = s.maxSize ∧ s.dequeue.1.next = s.next ∧ s.dequeue.1.frag = s.frag) := by
  unfold QState.dequeue
  cases hq : s.queue with
  | nil => left; simp [QState.contents, hq]
  | cons o r => right; exact ⟨o, rfl, by simp [QState.contents, hq], rfl, rfl, rfl, rfl, rfl⟩

/-- summary of an in-scope `enqueue` at object level -/
theorem enqueue_scope_obj (fx : Fixes) (s : QState) (o : Nat) (hw : WF s) (hwire : Wire (s.heap o))
    (hnf : s.frag = true → NotFragType (s.heap o)) :
    (s.enqueue fx o).2 =
        .ok (!(full fx s.maxSize s.queue.length || s.contents.any (fun g => sameKey g (s.heap o)))) ∧
      (s.enqueue fx o).1.contents =
        (if full fx s.maxSize s.queue.length || s.contents.any (fun g => sameKey g (s.heap o))
         then s.contents else s.contents ++ [s.heap o]) ∧
      (s.enqueue fx o).1.maxSize = s.maxSize ∧ (s.enqueue fx o).1.frag = s.frag ∧
      WF (s.enqueue fx o).1 ∧ s.next ≤ (s.enqueue fx o).1.next ∧
      (∀ i ∈ (s.enqueue fx o).1.queue, i ∈ s.queue ∨ s.next ≤ i) ∧
      (∀ i, i < s.next → (s.enqueue fx o).1.heap i = s.heap i) := by
  rw [enqueue_scope fx s o hnf]
  obtain ⟨h1, h2, h3, h4, h5, h6⟩ := abs_enqueueBase fx s (s.heap o) hw
  rw [enqueueBase_wire fx (abs s) (s.heap o) hwire] at h1 h2
  have hlen : (abs s).items.length = s.queue.length := by simp [abs, QState.contents]
  have hit : (abs s).items = s.contents := rfl
  have hmx : (abs s).maxSize = s.maxSize := rfl
  rw [hlen, hit, hmx] at h1 h2
  refine ⟨?_, ?_, ?_, ?_, h3, h5, h6, h4⟩
  · rw [h2]; split <;> simp [*]
  · have := congrArg VQ.items h1
    simp only [abs] at this
    rw [this]; split <;> rfl
  · have := congrArg VQ.maxSize h1
    simp only [abs] at this
    rw [this]; split <;> rfl
  · have := congrArg VQ.frag h1
    simp only [abs] at this
    rw [this]; split <;> rfl

/-! ### the property's scope, the reference run, the trace of accepted / handed-out frames -/

/-- C12's histories: the caller mutates only frame objects that are not stored in the queue
    (objects it created, or that `dequeue()` handed out; the object `peek()` returns *is* the
    stored one), enqueues wire-representable frames, and — in fragmentation mode — no fragment
    types (those go through the reassembler, C06) -/
def InScope (s : QState) : QOp → Prop
  | .mutate o _ => o ∉ s.queue
  | .enqueue o => Wire (s.heap o) ∧ (s.frag = true → NotFragType (s.heap o))
  | _ => True

def ScopeRun (fx : Fixes) : QState → List QOp → Prop
  | _, [] => True
  | s, op :: ops => InScope s op ∧ ScopeRun fx (s.step fx op).1 ops

/-- outputs of the reference queue -/
inductive ROut where
  | unit
  | bool (b : Bool)
  | frame (r : Option WFrame)
  | nat (n : Nat)
  deriving DecidableEq, Repr

/-- the reference queue's step for an operation; `s` only supplies the *value* of the object
    being enqueued and which way the fragmentation switch currently stands -/
def refStep (q : RefQ) (s : QState) : QOp → RefQ × ROut
  | .alloc _ => (q, .unit)
  | .mutate _ _ => (q, .unit)
  | .enqueue o => let r := q.enqueue (toW (s.heap o)); (r.1, .bool r.2)
  | .dequeue => let r := q.dequeue; (r.1, .frame r.2)
  | .peek => (q, .frame q.peek)
  | .len => (q, .nat q.len)
  | .setMax n => (q.setCap n, .unit)
  | .setFrag b => (if b = s.frag then q else q.toggle, .unit)

/-- the model's output as the reference queue would print it -/
def absOut : QOut → ROut
  | .unit => .unit
  | .obj _ => .unit
  | .bool (.ok b) => .bool b
  | .bool (.error _) => .unit
  | .frame r => .frame (r.map fun p => toW p.2)
  | .nat n => .nat n

/-- model and reference queue in lockstep: the reference queue's outputs -/
def refRun (fx : Fixes) : QState → RefQ → List QOp → List ROut
  | _, _, [] => []
  | s, q, op :: ops => (refStep q s op).2 :: refRun fx (s.step fx op).1 (refStep q s op).1 ops

/-- the abstraction relation -/
structure Sim (s : QState) (q : RefQ) : Prop where
  items : q.items = s.contents.map toW
  cap : q.cap = s.maxSize
  wire : ∀ g ∈ s.contents, Wire g
  wf : WF s

theorem sameKey_toW (g f : Frame) (hg : Wire g) (hf : Wire f) :
    Spec.sameKey (toW g) (toW f) = Net.sameKey g f := by
  obtain ⟨⟨tg, hg⟩, _⟩ := hg
  obtain ⟨⟨tf, hf⟩, _⟩ := hf
  simp [Spec.sameKey, Net.sameKey, toW, hg, hf, Bool.and_assoc]

theorem full_iff (maxSize : Int) (n : Nat) : full Fixes.all maxSize n = decide (maxSize ≤ (n : Int)) := by
  simp [full, Fixes.all]

end Nrf.Proofs
