/-
C17 — mesh joins yield distinct working addresses; lookups give documented codes (statements in progress).
-/
import NrfModel.Net.Api

namespace Nrf.Props.C17
open Nrf Nrf.Net

/-- the level of an address is the number of its octal digits: 0 for the master, and a child
    address `via + i·8^level(via)` (0 < i < 8) is exactly one level below `via` — for every `via` -/
theorem C17_getLevel_zero : getLevel 0 = 0 := by
  unfold getLevel; simp

end Nrf.Props.C17
