/-
C17 — "Mesh joins yield distinct working addresses; lookups give documented codes."

On a loss-free medium, every mesh node that calls renew_address() while a master (and any
already-joined nodes) is running returns, within the given timeout, a valid address different from
every other connected node's and recorded under its ID in the master's table; afterwards a message
sent to its node ID arrives at that node.  lookup_address()/lookup_node_id() return the master's
current mapping, the documented trivial answers for ID/address 0 and None, and the documented
negative codes (-2 not assigned, -1 no answer) for unknown IDs or addresses, and asking never
disturbs the master.  release_address() returns the node to the unassigned address and frees its
lease; check_connection() is True exactly for connected nodes.

Model: `NrfModel/Net/Api.lean` (`meshLookupAddress`, `meshLookupNodeId`, `lookup2Master`,
`lookupWait`, `meshRelease`, `meshCheckConnection`, `meshSend`, `sendLookupLoop`, `meshRenew`,
`requestLoop`, `responseWait`, `makeContact`, `pySetAdd`/`pySetItems`), `NrfModel/Net/Node.lean`
(`nodeUpdate` on the master), `NrfModel/Mesh/Dhcp.lean` (the table, C16).
Spec: `NrfModel/Spec/MeshProtocol.lean`.

Status (after the independent review, docs/REVIEW.md)
* proved for every state, every reply content, every behaviour of the other nodes — but note what kind
  of statement each is:
  - *control-flow normal forms* (`nexec (f …) s = <the body of f, case by case>`; the right-hand side
    still contains the calls it makes): `C17_lookup_codes` (arguments ≥ 0), `C17_lookup_exchange`,
    `C17_release` (first conjunct), `C17_check_connection`, `C17_send`;
  - genuine state/table theorems: `C17_lookup_master`, `C17_release_master`, `C17_accept`, `C17_level`,
    `C17_set_once`, `C17_table_small`, `C17_join_master_partial`, `C17_join_lease` (no existence claimed);
  - `C17_send_terminates`: the lookup loop of `send()` makes at most six lookups on *this* run (outcome
    independent of the fuel ≥ 6 and of what stands in the fuel-exhausted branch);
    `C17_send_loop_error_partial` is the earlier, weaker statement (kept under an honest name);
  - `C17_join_shape_partial`: what `renew_address()` leaves in the *final* state (address attribute, ID,
    call placement; the final state is where a double-check lookup returned the ID) — conjunct 4 only
    says that a state with the stated shape exists, it is **not** tied to the trace of the call;
  - `C17_lookup_spec`: model = spec (`MeshProtocol.lookupAddress` / `lookupNodeId`) where no exchange is needed.
* closed system (`runOthers`: one deterministic cooperative schedule — the other node runs `update()`
  to completion at the caller's next `read()`), loss-free, **two nodes** (master + one joiner):
  every unacknowledged `_write` of a join (`C17_write_unacked_closed`, `C17_receive_pipe0`), the master's
  `update()` on a poll / a request (`C17_leg_master_poll_closed`, `C17_leg_master_request_closed`), the
  poll leg with the 55 ms window (`C17_leg_poll_closed`, `C17_contact_window_closed`, clock clause
  `C17_idle_read_clock`), the request/response leg (`C17_leg_request_closed`), frames 1–4 composed with
  the literal fuels (`C17_join_frames_1_4_closed`) **are** proved.
* **partial**: `C17_request_loop_direct_closed_partial` / `C17_join_direct_closed_partial` — the control
  flow of `_request_address(0)` down to `return True` with the two unproved legs ((b) `_begin(a)` on the
  radio, (c) the acknowledged double-check lookup) as hypotheses **about the one state the run
  produces**; both hypotheses are instantiated on `joinEx` (kernel evaluation for the request loop,
  compiled evaluation `#guard` for the whole `_request_address(0)` / `renew_address(1500)`).
* closed system, **two nodes** (master + one node already connected at a child address of the master),
  loss-free, ONE schedule — last two sections of this file, invariant `Conn` (NrfProofs/C17Lookup3.lean),
  every hypothesis instantiated on the concrete network `lookEx` (NrfProofs/C17Lookup4.lean):
  - `C17_master_lookup_closed` (the master's whole `update()` on a received lookup frame; any number of nodes),
    `C17_lookup_address_closed`, `C17_lookup_node_id_closed`: **lookups end to end** — the call returns exactly
    the master's current mapping (`tableAddress` / `tableNodeId`, −2 when unassigned), `Conn` holds again,
    the master's node object differs in `frame_buf` only ("asking never disturbs the master");
  - `C17_check_connection_closed_partial`: `check_connection(attempts, ping_master=True)` is `True` iff
    `attempts ≥ 1` and the master's table maps the node's ID to the address the node holds, for every number
    of attempts; `C17_check_connection_ping_closed_partial`: with `ping_master=False` (the default) the call of
    a node directly below the master is `True` at the first attempt **whatever the master's table holds**
    (the parent's radio acknowledges the NETWORK_PING; the master does not run) — instance: `True` on
    `lookExLost`, where the master has no lease for the node (both partial: no `False` outcome by loss /
    absent parent, no node below level 1);
  - `C17_release_write_closed`, `C17_release_master_closed`, `C17_release_master_turn_closed` and
    `C17_release_closed_partial`: `release_address()` returns `True`, the node is back at 0o4444 and the
    master's next `update()` removes exactly the lease on the node's address (no lease for its ID left) —
    **given** `_begin(0o4444)` on the radio as a hypothesis about the run's own state (discharged on `lookEx`
    by kernel evaluation);
  - `C17_send_by_id_closed_partial` + `C17_send_queued_closed`: **a message sent to the node ID arrives** —
    `send(i, t, msg)` at the *master* (ID → address from its own table, no transmission) returns `True`, the
    frame is on pipe 5 of the node holding the lease, whose next `update()` queues exactly it (single frame
    ≤ 24 bytes, user types 0..127; `send()` from a non-master node is not covered); chained on `sendEx`.
* no theorem at all (tie-only, `harness/props/c17.py`): the timeout bound of `renew_address`, delivery
  of a message sent to the node ID by a *non-master* node (lookup exchange + routed write), `_begin(a)`
  on the radio (open leg of the join and of the release), lookups / release / `check_connection` for
  nodes below level 1 (relayed, NETWORK_ACK awaited), the `-1` ("no answer") outcome end to end (master
  not running, loss), more than two nodes, concurrent joiners, any other schedule.
-/
import NrfProofs.MeshJoinK
import NrfProofs.C17JoinExample
import NrfProofs.C17Join2Comp
import NrfProofs.PySetK
import NrfProofs.C17SendBound
import NrfProofs.C17Lookup5
import NrfProofs.C17Release2
import NrfProofs.C17Ping
import NrfProofs.C17Send
import NrfProps.C16

namespace Nrf.Props.C17
open Nrf Nrf.NetK Nrf.Spec Nrf.Spec.MeshProtocol Nrf.Proofs.MeshK Nrf.Proofs.PySetK
-- (the closed-system files imported for the last section define their own `Nrf.Net.nexec` and simp set)
open Nrf.Net hiding nexec nexec_bind nexec_pure nexec_getNode nexec_nowNs nexec_liftRf nexec_modNode nexec_setHdr
  nexec_sleepNs nexec_takeId nexec_get nexec_set nexec_ite nexec_throw nexec_liftPy nexec_tryCatch nexec_map nexec_modify

/-! ## lookups -/

/-- **C17, lookup codes: the answers that need no transmission** (control-flow normal form).  For
    every state and every argument `≥ 0` (the model turns the `int` argument into a table key with
    `Int.toNat`; for a negative argument that is key 0, which Python's `==` would not match — negative
    arguments are therefore excluded here; they only matter on a table with an ID-0 / address-0 entry,
    which C16's invariant rules out):
    `lookup_address(0)` is 0; on a node without an address every other ID gives `-2`; on the master
    the answer is the table's (`-2` for an unknown ID); in all three cases **nothing at all
    happens** (no radio traffic, no time, no change of any node) — only a connected non-master node
    asks the master (`C17_lookup_exchange`).  Likewise `lookup_node_id`: `None` gives the node's own
    ID, address 0 gives 0, `-2` without an address, the table on the master. -/
theorem C17_lookup_codes (s : NetState) :
    (∀ nodeId : Int, 0 ≤ nodeId → nexec (meshLookupAddress nodeId) s =
      if nodeId = 0 then (.ok 0, s)
      else match roleAddr (curNode s) with
        | .unassigned => (.ok NOT_ASSIGNED, s)
        | .master => (.ok (tableAddress (curNode s).dhcp nodeId.toNat), s)
        | .connected => nexec (lookup2Master nodeId MESH_ADDR_LOOKUP) s) ∧
    (∀ address : Option Int, (∀ a, address = some a → 0 ≤ a) → nexec (meshLookupNodeId address) s =
      match address with
      | none => (.ok ((curNode s).nodeId : Int), s)
      | some a =>
        if a = 0 then (.ok 0, s)
        else match roleId (curNode s) with
          | .unassigned => (.ok NOT_ASSIGNED, s)
          | .master => (.ok (tableNodeId (curNode s).dhcp a.toNat), s)
          | .connected => nexec (lookup2Master a MESH_ID_LOOKUP) s) :=
  ⟨fun id _ => nexec_meshLookupAddress id s, fun a _ => nexec_meshLookupNodeId a s⟩

/-- the same, as the spec's function of role, table and reply: when no exchange is needed -/
example :
    MeshProtocol.lookupAddress .unassigned [(7, 0o5)] 7 none = -2 ∧
    MeshProtocol.lookupAddress .master [(7, 0o5)] 7 none = 0o5 ∧
    MeshProtocol.lookupAddress .master [(7, 0o5)] 8 none = -2 ∧
    MeshProtocol.lookupAddress .connected [] 0 none = 0 ∧
    MeshProtocol.lookupAddress .connected [] 7 none = -1 ∧
    MeshProtocol.lookupAddress .connected [] 7 (some [0xFE, 0xFF]) = -2 ∧
    MeshProtocol.lookupNodeId .connected 9 [] none none = 9 := by decide

/-- the roles: an RF24Mesh object with ID 0 and address 0 is the master for both lookups -/
example : roleAddr { kind := .meshMaster } = .master ∧ roleId { kind := .meshMaster } = .master ∧
    roleAddr { kind := .meshNode, nodeId := 7, a := { (default : NodeAddr) with addr := 0o4444 } } = .unassigned ∧
    roleAddr { kind := .meshNode, nodeId := 7, a := { (default : NodeAddr) with addr := 0o5 } } = .connected := by
  decide

/-- **C17, lookup codes: the exchange with the master.**  For a request that can be built (a node
    ID that is a byte / an address that fits 16 bits; anything else raises before anything is sent):
    the lookup frame (a fresh header with a new frame id, to node 0, from the node's address, the
    lookup type, the packed number) is written; the result is `-1` when `_write` fails, `-1` when no
    frame of type 196 / 198 is returned by `_net_update()` before the deadline (135 ms after the
    write), and otherwise the decoded reply: the signed 16-bit little-endian value of its first two
    bytes, a single byte as it is, `-1` for an empty body — **for every reply content**: the
    decoder never raises. -/
theorem C17_lookup_exchange (number : Int) (ty : Nat) (s : NetState) :
    (∀ body, lookupBody number ty = .ok body →
      nexec (lookup2Master number ty) s =
        match nexec (nodeWrite F 0 TX_NORMAL) (lookupSent s ty body) with
        | (.error e, s1) => (.error e, s1)
        | (.ok false, s1) => (.ok NO_ANSWER, s1)
        | (.ok true, s1) =>
          match nexec (lookupWait (135 * 1000000 + s1.w.clock) F) s1 with
          | (.error e, s2) => (.error e, s2)
          | (.ok false, s2) => (.ok NO_ANSWER, s2)
          | (.ok true, s2) => (.ok (replyValue (curNode s2).frameBuf.message), s2)) ∧
    (∀ e, lookupBody number ty = .error e →
      (nexec (lookup2Master number ty) s).1 = .error e ∧ (nexec (lookup2Master number ty) s).2.w = s.w) ∧
    (0 ≤ number ∧ number < 256 → lookupBody number MESH_ADDR_LOOKUP = .ok [number.toNat]) ∧
    (0 ≤ number ∧ number < 65536 →
      lookupBody number MESH_ID_LOOKUP = .ok [number.toNat % 256, number.toNat / 256]) :=
  ⟨fun body hb => nexec_lookup2Master number ty s body hb,
   fun e he => nexec_lookup2Master_bad number ty s e he,
   lookupBody_id number, lookupBody_addr number⟩

/-- the decoder on every kind of body, and one round of the waiting loop -/
example : replyValue [] = -1 ∧ replyValue [5] = 5 ∧ replyValue [0xFE, 0xFF] = -2 ∧
    replyValue [0x05, 0x00, 0x77] = 5 ∧ replyValue [0xFF, 0x7F] = 32767 := by decide

example (deadline f : Nat) : lookupWait deadline (f + 1) = (do
    let t ← netUpdate F 0
    if t = MESH_ID_LOOKUP ∨ t = MESH_ADDR_LOOKUP then return true
    if (← nowNs) > deadline then return false
    lookupWait deadline f) := lookupWait_succ deadline f

/-- **C17, the master answers — and asking never disturbs it.**  The master (class RF24Mesh, ID 0)
    has received a lookup frame (type 196 with ≥ 1 byte, 198 with ≥ 2 bytes; its table fits signed 16
    bits, as every table satisfying C16's invariant does).  Then `update()`

    * turns the frame around and replaces its body by the signed 16-bit encoding of the table's
      answer — `0` for ID / address 0, `-2` when the master has abandoned address 0 or the table has
      no entry, else the entry — without raising, and writes it to the asker (`TX_NORMAL`);
    * a client decoding that body gets exactly the table's answer;
    * **the lease table, `_do_dhcp`, class, ID, address and configuration of the master are
      unchanged afterwards** — however the call ends and whatever the other nodes do meanwhile
      (no request pending). -/
theorem C17_lookup_master (f msgT : Nat) (s : NetState) (g : Good s)
    (hk : (curNode s).kind = .meshMaster) (hid : (curNode s).nodeId = 0)
    (hm : msgT = MESH_ADDR_LOOKUP ∨ msgT = MESH_ID_LOOKUP)
    (hl : Mesh.lookupLongEnough msgT (curNode s).frameBuf.message = true)
    (ht : TableSmall (curNode s).dhcp) :
    nexec (masterPart f msgT) s =
      nexec (do
        let _ ← nodeWrite f (curNode s).frameBuf.header.fromNode TX_NORMAL
        masterDhcp f
        pure msgT) (lookupAnswered s msgT) ∧
    (curNode (lookupAnswered s msgT)).frameBuf.message = replyBytes (lookupAnswer (curNode s) msgT) ∧
    (curNode (lookupAnswered s msgT)).frameBuf.header.toNode = (curNode s).frameBuf.header.fromNode ∧
    replyValue (replyBytes (lookupAnswer (curNode s) msgT)) = lookupAnswer (curNode s) msgT ∧
    ((curNode s).doDhcp = false →
      TabKeeps (curNode s) (curNode (nexec (masterPart f msgT) s).2) ∧
      (nexec (masterPart f msgT) s).2.cur = s.cur) := by
  obtain ⟨_, _, h3, _, h5, _⟩ := lookupAnswered_node s msgT g.exists_
  exact ⟨nexec_masterPart_lookup f msgT s g.exists_ hk hid hm hl ht, h5, h3,
    replyValue_replyBytes (lookupAnswer_range _ _ ht),
    fun hd => masterPart_lookup_keeps f msgT s g hk hid hm hl ht hd⟩

/-- a master that has just received `lookup_address(7)` from node 0o3 -/
def exMaster : NetState :=
  { nodes := [{ kind := .meshMaster, retSysMsg := true, dhcp := [(7, 0o5), (9, 0o4)],
                a := { (default : NodeAddr) with addr := 0 },
                frameBuf := { header := { fromNode := 0o3, toNode := 0, frameId := 4, msgType := .int 196 },
                              message := [7] } }],
    active := [0], w := World.fresh 1 }

example : Good exMaster ∧ (curNode exMaster).kind = .meshMaster ∧ (curNode exMaster).nodeId = 0 ∧
    Mesh.lookupLongEnough MESH_ADDR_LOOKUP (curNode exMaster).frameBuf.message = true ∧
    (curNode exMaster).doDhcp = false ∧ lookupAnswer (curNode exMaster) MESH_ADDR_LOOKUP = 0o5 ∧
    replyBytes (0o5 : Int) = [5, 0] ∧ replyBytes (-2 : Int) = [0xFE, 0xFF] :=
  ⟨⟨by decide, by decide⟩, by decide, by decide, by decide, by decide, by decide, by decide, by decide⟩

/-- `masterPart` is what `update()` does after `_net_update()`; the table's answer in words -/
example (f : Nat) : nodeUpdate (f + 1) = (do let msgT ← netUpdate f 0; masterPart f msgT) :=
  nodeUpdate_succ f

example : lookupAnswer { dhcp := [(7, 0o5)], a := { (default : NodeAddr) with addr := 0 },
                         frameBuf := { message := [7] } } MESH_ADDR_LOOKUP = 0o5 ∧
    lookupAnswer { dhcp := [(7, 0o5)], a := { (default : NodeAddr) with addr := 0 },
                   frameBuf := { message := [9] } } MESH_ADDR_LOOKUP = -2 ∧
    lookupAnswer { dhcp := [(7, 0o5)], a := { (default : NodeAddr) with addr := 0 },
                   frameBuf := { message := [5, 0] } } MESH_ID_LOOKUP = 7 ∧
    TableSmall [(7, 0o5)] := by
  refine ⟨by decide, by decide, by decide, ?_⟩
  intro e he
  simp only [List.mem_singleton] at he
  subst he
  decide

/-- every table that satisfies C16's invariant fits -/
theorem C17_table_small {t : Mesh.Table} (h : Inv t) : TableSmall t := by
  intro e he
  have h1 := h.idByte e.1 e.2 he
  have h2 := Nrf.Proofs.Lease.leasable_lt (h.leasable e.1 e.2 he)
  omega

example : TableSmall ([] : Mesh.Table) := C17_table_small Nrf.Proofs.Lease.inv_nil

/-- **C17, lookups without an exchange: model = spec.**  Where no transmission is needed — ID /
    address 0, no argument, an unassigned asker, the master itself — the model's `lookup_address` /
    `lookup_node_id` return exactly the value of the spec's `MeshProtocol.lookupAddress` /
    `lookupNodeId` (NrfModel/Spec/MeshProtocol.lean) for the node's role, its table and the argument,
    whatever `reply` is, and the state is unchanged.  (For a *connected* asker the spec's value is a
    function of the reply body; `C17_lookup_exchange` and `C17_lookup_master` are the two ends for every
    state; that the reply is the master's table answer is composed for the two-node closed system in
    `C17_lookup_address_closed` / `C17_lookup_node_id_closed` at the end of this file.) -/
theorem C17_lookup_spec (s : NetState) :
    (∀ (nodeId : Nat) (reply : Option Bytes), nodeId = 0 ∨ roleAddr (curNode s) ≠ .connected →
      nexec (meshLookupAddress (nodeId : Int)) s =
        (.ok (MeshProtocol.lookupAddress (roleAddr (curNode s)) (curNode s).dhcp nodeId reply), s)) ∧
    (∀ reply : Option Bytes, nexec (meshLookupNodeId none) s =
        (.ok (MeshProtocol.lookupNodeId (roleId (curNode s)) (curNode s).nodeId (curNode s).dhcp none reply), s)) ∧
    (∀ (a : Nat) (reply : Option Bytes), a = 0 ∨ roleId (curNode s) ≠ .connected →
      nexec (meshLookupNodeId (some (a : Int))) s =
        (.ok (MeshProtocol.lookupNodeId (roleId (curNode s)) (curNode s).nodeId (curNode s).dhcp (some a) reply), s)) := by
  refine ⟨fun nodeId reply h => ?_, fun reply => ?_, fun a reply h => ?_⟩
  · rw [(C17_lookup_codes s).1 (nodeId : Int) (Int.natCast_nonneg _)]
    unfold MeshProtocol.lookupAddress
    by_cases h0 : nodeId = 0
    · simp [h0]
    · have h1 : ¬ ((nodeId : Int) = 0) := by omega
      simp only [h0, h1, if_false]
      cases hr : roleAddr (curNode s) with
      | unassigned => rfl
      | master => simp only [Int.toNat_natCast]
      | connected => rcases h with h | h
                     · exact absurd h h0
                     · exact absurd hr h
  · rw [(C17_lookup_codes s).2 none (by intro a h; cases h)]
    rfl
  · rw [(C17_lookup_codes s).2 (some (a : Int)) (by intro b hb; cases hb; exact Int.natCast_nonneg _)]
    unfold MeshProtocol.lookupNodeId
    by_cases h0 : a = 0
    · simp [h0]
    · have h1 : ¬ ((a : Int) = 0) := by omega
      simp only [h0, h1, if_false]
      cases hr : roleId (curNode s) with
      | unassigned => rfl
      | master => simp only [Int.toNat_natCast]
      | connected =>
        rcases h with h | h
        · exact absurd h h0
        · exact absurd hr h

/-- on the master `exMaster` (table `[(7, 0o5), (9, 0o4)]`): `lookup_address(7)` is the spec's 0o5,
    `lookup_node_id(0o4)` the spec's 9, an unknown ID the spec's −2 -/
example : roleAddr (curNode exMaster) ≠ .connected ∧ roleId (curNode exMaster) ≠ .connected ∧
    MeshProtocol.lookupAddress (roleAddr (curNode exMaster)) (curNode exMaster).dhcp 7 none = 0o5 ∧
    MeshProtocol.lookupAddress (roleAddr (curNode exMaster)) (curNode exMaster).dhcp 8 none = -2 ∧
    MeshProtocol.lookupNodeId (roleId (curNode exMaster)) 0 (curNode exMaster).dhcp (some 0o4) none = 9 := by
  decide

/-! ## joining: the acceptance test -/

/-- **C17, acceptance.**  Whatever frames arrive and whenever: if the waiting loop of
    `_request_address` for `contact` ends with an address `v`, then either `v` was carried over from
    an earlier contact of the same call (Python does not reset `new_addr`; it had been accepted
    there), or it was taken from `frame_buf` right after a `_net_update()` that returned type 128,
    with `reserved` = the node's own ID, the 16-bit body = `v`, and `v` lying below the contact: the
    contact's octal digits are the low-order digits of `v`. -/
theorem C17_accept (contact deadline fuel : Nat) (carried : Option Nat) (s : NetState) (v : Nat)
    (s' : NetState) (h : nexec (responseWait contact deadline fuel carried) s = (.ok (some v), s')) :
    carried = some v ∨
      ((∃ s1, nexec (netUpdate F 0) s1 = (.ok MESH_ADDR_RESPONSE, s')) ∧
       (curNode s').frameBuf.header.reserved = (curNode s').nodeId ∧
       unpackH (pySlice (curNode s').frameBuf.message 0 2) = .ok v ∧
       v % 8 ^ octLen contact = contact) := by
  rcases responseWait_accepts contact deadline fuel carried s v s' h with h1 | h1
  · exact Or.inl h1
  · refine Or.inr ⟨h1.response, h1.ownId, h1.offered, ?_⟩
    have := h1.lies
    unfold below at this
    simpa using this

/-- the hypothesis is satisfiable: with the deadline already passed the loop returns what it was
    given (the "carried over" case); the other case is witnessed by every join of the
    correspondence runs (e.g. `net 2 1 new m master 0 0 ; new x0 mesh 1 9 ; x0 renew 1500`, where
    the model — `nrfdrv` — returns 5) -/
example (s : NetState) : nexec (responseWait 0o5 0 1 (some 0o25)) s = (.ok (some 0o25), s) := by
  rw [responseWait.eq_2]
  simp only [nexec_bind, nexec_nowNs, Nat.not_lt_zero, ↓reduceIte, nexec_pure]

/-- the spec's acceptance predicate says the same -/
example : accepts 7 (val [5]) 128 7 (child [5] 2) = true ∧ (∀ c v, accepts 7 c 128 8 v = false) ∧
    (∀ c v, accepts 7 c 127 7 v = false) := by
  refine ⟨?_, fun _ _ => by simp [accepts], fun _ _ => by simp [accepts]⟩
  simp [accepts, below_child (via := [5]) (by decide) 2]

/-- **C17, levels.**  The level the code computes (`_get_level`: shifts until zero) is the number
    of octal digits; the mask `new_addr & ~(0xFFFF << 3·level)` keeps that many low digits; and for
    every valid contact `via` the direct child the master offers (`C16_child`: `via + i·8^level`)
    passes the test. -/
theorem C17_level :
    (∀ a, getLevel a = octLen a) ∧
    (∀ ds, DigitsOk ds → octLen (val ds) = ds.length) ∧
    (∀ contact v, decide (v % 2 ^ (getLevel contact * 3) = contact) = below contact v) ∧
    (∀ via i, DigitsOk via → below (val via) (child via i) = true) :=
  ⟨getLevel_eq_octLen, fun _ h => octLen_val h, test_eq_below, fun _ i h => below_child h i⟩

example : octLen (val [5, 4, 3]) = 3 ∧ val [5, 4, 3] = 0o345 ∧ child [5] 2 = 0o25 ∧
    below (val [5]) (child [5] 2) = true :=
  ⟨octLen_val (by decide), by decide, by decide, below_child (by decide) 2⟩

/-! ## joining: every responder is tried exactly once -/

/-- **C17, every responder is tried once** (the conclusion is order-agnostic: it says nothing about
    *which* order iteration yields, and it is about the set model, not linked to `contactLoop`).  The model of CPython's `set` (8 slots, probe
    `i ← (5i + 1 + perturb) & 7`, `perturb >>= 5`) keeps the invariant `SetInv` (8 slots, no value
    twice, every value reachable by its own probe) under `add`; `add` of a present value changes
    nothing, of a new one makes the set exactly one larger; and after any sequence of insertions as
    `_make_contact` makes them (only while fewer than 4 are held) iteration yields no value twice,
    only inserted values, at most 4 — and **every** inserted value if the set ended with fewer than
    4 (so each responder is tried exactly once). -/
theorem C17_set_once :
    SetInv (List.replicate 8 none) ∧
    (∀ slots h, SetInv slots → (pySetItems slots).length < 8 → h < 2 ^ 40 →
      SetInv (pySetAdd slots h) ∧
      (∀ x, x ∈ pySetItems (pySetAdd slots h) ↔ x = h ∨ x ∈ pySetItems slots) ∧
      (h ∈ pySetItems slots → pySetAdd slots h = slots) ∧
      (h ∉ pySetItems slots → (pySetItems (pySetAdd slots h)).length = (pySetItems slots).length + 1)) ∧
    (∀ hs : List Nat, (∀ h ∈ hs, h < 2 ^ 40) →
      (pySetItems (hs.foldl guardedAdd (List.replicate 8 none))).Nodup ∧
      (pySetItems (hs.foldl guardedAdd (List.replicate 8 none))).length ≤ 4 ∧
      (∀ x, x ∈ pySetItems (hs.foldl guardedAdd (List.replicate 8 none)) → x ∈ hs) ∧
      ((pySetItems (hs.foldl guardedAdd (List.replicate 8 none))).length < 4 →
        ∀ x, x ∈ hs → x ∈ pySetItems (hs.foldl guardedAdd (List.replicate 8 none)))) := by
  refine ⟨setInv_empty, fun slots h hi hc hh => setInv_add hi hc hh, fun hs hh => ?_⟩
  obtain ⟨r1, r2, r3, _, r5⟩ := guardedAdd_fold hs hh _ setInv_empty (by decide)
  refine ⟨r1.nodup, r2, fun x hx => ?_, r5⟩
  rcases r3 x hx with h | h
  · have he : pySetItems (List.replicate 8 none) = [] := by decide
    rw [he] at h; cases h
  · exact h

/-- responders 0o3, 0o13, 0o3 again, 0 (the master): iteration gives each once, in slot order -/
example : pySetItems ([0o3, 0o13, 0o3, 0].foldl guardedAdd (List.replicate 8 none)) = [0o13, 0, 0o3] := by
  decide

/-! ## release -/

/-- **C17, `release_address()`.**  Without an address: `False`, nothing at all happens.  With an
    address: the frame — type 197, to node 0, from the node's address, empty body — is written to
    the master; if `_write` reports success the node re-begins at 0o4444 and the call returns
    `True` (afterwards `node_address = 0o4444`); if not it returns `False` and keeps its address. -/
theorem C17_release (s : NetState) :
    nexec meshRelease s =
      (if (curNode s).a.addr = NETWORK_DEFAULT_ADDR then (.ok false, s)
       else match nexec (nodeWrite F 0 TX_NORMAL) (releaseSent s) with
        | (.error e, s1) => (.error e, s1)
        | (.ok false, s1) => (.ok false, s1)
        | (.ok true, s1) =>
          match nexec (begin NETWORK_DEFAULT_ADDR) s1 with
          | (.error e, s2) => (.error e, s2)
          | (.ok _, s2) => (.ok true, s2)) ∧
    (∀ s1 s2, Good s1 → nexec (begin NETWORK_DEFAULT_ADDR) s1 = (.ok (), s2) →
      (curNode s2).a.addr = MeshProtocol.UNASSIGNED ∧ s2.cur = s1.cur) ∧
    (HasCur s → (curNode (releaseSent s)).frameBuf.header.ty = 197 ∧
      (curNode (releaseSent s)).frameBuf.header.toNode = 0 ∧
      (curNode (releaseSent s)).frameBuf.header.fromNode = (curNode s).a.addr ∧
      (curNode (releaseSent s)).frameBuf.message = []) := by
  refine ⟨nexec_meshRelease s, fun s1 s2 g h => ?_, fun hc => ?_⟩
  · have := begin_ok_addr NETWORK_DEFAULT_ADDR s1 s2 g h
    exact ⟨this.1, this.2.1⟩
  · unfold releaseSent
    rw [curNode_updCur _ _ hc]
    exact ⟨rfl, rfl, rfl, rfl⟩

example : MeshProtocol.UNASSIGNED = 0o4444 ∧ NETWORK_DEFAULT_ADDR = MeshProtocol.UNASSIGNED := ⟨rfl, rfl⟩

/-- **C17, the master frees the lease.**  The master handles a release frame (type 197) from address
    `a ≠ 0`: nothing is transmitted for it; the table afterwards is the table of C16's
    `release_address(a)`: **exactly the lease on `a` is removed** (`C16_release`), the invariant is
    kept. -/
theorem C17_release_master (f : Nat) (s : NetState) (hc : HasCur s)
    (hk : (curNode s).kind = .meshMaster) (hid : (curNode s).nodeId = 0)
    (ha : (curNode s).frameBuf.header.fromNode ≠ 0) :
    nexec (masterPart (f + 1) MESH_ADDR_RELEASE) s =
      nexec (do masterDhcp (f + 1); pure MESH_ADDR_RELEASE)
        (updCur s fun n => { n with dhcp :=
          (Mesh.releaseScan n.dhcp (curNode s).frameBuf.header.fromNode n.dhcp).1 }) ∧
    (Inv (curNode s).dhcp →
      Inv (Mesh.releaseScan (curNode s).dhcp (curNode s).frameBuf.header.fromNode (curNode s).dhcp).1 ∧
      ∀ j b, (j, b) ∈ (Mesh.releaseScan (curNode s).dhcp (curNode s).frameBuf.header.fromNode (curNode s).dhcp).1
        ↔ b ≠ (curNode s).frameBuf.header.fromNode ∧ (j, b) ∈ (curNode s).dhcp) := by
  refine ⟨nexec_masterPart_release f s hc hk hid ha, fun hinv => ?_⟩
  have h := Nrf.Props.C16.C16_release hinv { table := (curNode s).dhcp } rfl 0 true ha
  rw [← release_table (curNode s).dhcp _ 0 true ha false] at h
  exact ⟨h.1, h.2.1⟩

example : (Mesh.releaseScan [(7, 0o5), (8, 0o4)] 0o5 [(7, 0o5), (8, 0o4)]).1 = [(8, 0o4)] := by decide

/-! ## check_connection -/

/-- **C17, `check_connection(attempts, ping_master)`: the truth table.**  ID 0 ⇒ `True`, no address
    ⇒ `False`, both without any transmission; otherwise up to `attempts` attempts (none ⇒ `False`):
    with `ping_master` the master is asked for the node's own ID — `-2` ⇒ `False`, the node's own
    address ⇒ `True`, anything else (`-1`, another address) ⇒ next attempt; without it a
    NETWORK_PING is written to the parent — delivered ⇒ `True`, else next attempt. -/
theorem C17_check_connection (s : NetState) (pingMaster : Bool) :
    (∀ attempts, nexec (meshCheckConnection attempts pingMaster) s =
      if (curNode s).nodeId = 0 then (.ok true, s)
      else if (curNode s).a.addr = NETWORK_DEFAULT_ADDR then (.ok false, s)
      else nexec (meshCheckConnection.go pingMaster attempts) s) ∧
    nexec (meshCheckConnection.go pingMaster 0) s = (.ok false, s) ∧
    (∀ k, nexec (meshCheckConnection.go true (k + 1)) s =
      match nexec (meshLookupAddress ((curNode s).nodeId : Int)) s with
      | (.error e, s1) => (.error e, s1)
      | (.ok r, s1) =>
        match pingVerdict (curNode s).a.addr r with
        | .notConnected => (.ok false, s1)
        | .connected => (.ok true, s1)
        | .retry => nexec (meshCheckConnection.go true k) s1) ∧
    (∀ k, nexec (meshCheckConnection.go false (k + 1)) s =
      match nexec (meshWrite (curNode s).a.parent (NETWORK_PING : Nat) []) s with
      | (.error e, s1) => (.error e, s1)
      | (.ok true, s1) => (.ok true, s1)
      | (.ok false, s1) => nexec (meshCheckConnection.go false k) s1) :=
  ⟨fun a => nexec_meshCheckConnection a pingMaster s, nexec_checkGo_zero pingMaster s,
   fun k => nexec_checkGo_ping k s, fun k => nexec_checkGo_parent k s⟩

example : pingVerdict 0o5 (-2) = .notConnected ∧ pingVerdict 0o5 0o5 = .connected ∧
    pingVerdict 0o5 (-1) = .retry ∧ pingVerdict 0o5 0o4 = .retry := by decide

/-! ## send -/

/-- **C17, `send(to_node_id, type, message)`.**  Without an address: `False`, nothing happens.  The
    node's own ID maps to its own address, ID 0 (on a non-master) to address 0, both without a
    lookup.  Any other ID is resolved by the lookup loop; no answer by the deadline ⇒ `False`; an
    answer `a` ⇒ the message is written to **address `a`, whatever its value** — it is not compared
    with the node's own ID again (fix 9861807: node ID 4 sending to the node that holds address 0o4
    used to write into its own queue). -/
theorem C17_send (toId : Nat) (ty : Int) (msg : Bytes) (s : NetState) :
    nexec (meshSend toId ty msg) s =
      if (curNode s).a.addr = NETWORK_DEFAULT_ADDR then (.ok false, s)
      else if toId ≠ 0 ∧ toId ≠ (curNode s).nodeId then
        match nexec (sendLookupLoop toId (115 * 1000000 + s.w.clock) 1000 5) s with
        | (.error e, s1) => (.error e, s1)
        | (.ok none, s1) => (.ok false, s1)
        | (.ok (some a), s1) => nexec (meshWrite a.toNat ty msg) s1
      else if toId = (curNode s).nodeId then nexec (meshWrite (curNode s).a.addr ty msg) s
      else nexec (meshWrite toId ty msg) s :=
  nexec_meshSend toId ty msg s

/-- one round of the lookup loop: look up; past the deadline ⇒ give up; a negative code ⇒ sleep
    `retry_delay` ms (5, 15, 25, …) and retry; else the address -/
example (toId deadline f retryDelay : Nat) :
    sendLookupLoop toId deadline (f + 1) retryDelay = (do
      let a ← meshLookupAddress toId
      if (← nowNs) ≥ deadline then return none
      if a < 0 then
        sleepNs (retryDelay * 1000000)
        sendLookupLoop toId deadline f (retryDelay + 10)
      else return some a) := sendLookupLoop_succ toId deadline f retryDelay

/-- **C17, the lookup loop of `send()` makes at most six lookups** — on *this* run, for every reply
    pattern, every outcome (`.ok none`, `.ok (some a)`, `.error e`) and every behaviour of the other
    nodes (closed system included).  Started as an existing node on the call stack with the deadline
    115 ms ahead, the loop with the model's fuel (1000) has the same outcome — result **and** final
    state — as `lookupLoopZ z … f 5`: the same loop with any fuel `f ≥ 6` and *any* computation `z` in
    place of what the loop does when its fuel is used up (in the model: `throw .diverge`).  So the
    fuel-exhausted branch is never reached and a seventh lookup is never made: 5 + 15 + 25 + 35 + 45 ms
    of sleeping exceed 115 ms and no call moves a node's clock backwards.  (With `z := pure none`,
    `f := 6`: an `.error e` — `.diverge` included — out of the loop was raised inside one of the at
    most six `lookup_address()` calls of this run, never by the loop itself.)  Not claimed: a bound on
    the time one `lookup_address()` takes (`lookupWait`'s own fuel). -/
theorem C17_send_terminates (toId : Nat) (s : NetState) (g : Good s) (z : NetM (Option Int)) (f : Nat)
    (hf : 6 ≤ f) :
    nexec (sendLookupLoop toId (115 * 1000000 + s.w.clock) 1000 5) s =
      nexec (lookupLoopZ z (meshLookupAddress toId) (115 * 1000000 + s.w.clock) f 5) s :=
  sendLookupLoop_six toId s g z f hf

/-- `lookupLoopZ z` is `send()`'s loop with `z` in the fuel-exhausted branch; with `z = throw .diverge`
    it is the model's loop -/
example (z : NetM (Option Int)) (look : NetM Int) (deadline f retryDelay : Nat) :
    lookupLoopZ z look deadline 0 retryDelay = z ∧
    lookupLoopZ z look deadline (f + 1) retryDelay = (do
      let a ← look
      if (← nowNs) ≥ deadline then return none
      if a < 0 then
        sleepNs (retryDelay * 1000000)
        lookupLoopZ z look deadline f (retryDelay + 10)
      else return some a) ∧
    sendLookupLoop 9 deadline f retryDelay =
      lookupLoopZ (throw .diverge) (meshLookupAddress ((9 : Nat) : Int)) deadline f retryDelay :=
  ⟨by rw [lookupLoopZ], by rw [lookupLoopZ], (sendLookupLoop_eq 9 deadline f retryDelay).trans
    (lookupLoopG_eq_Z _ deadline f retryDelay)⟩

/-- the hypothesis is satisfiable (a connected mesh node on the call stack), and there the loop with
    1000 units of fuel is the loop with 6 units that gives up silently -/
example : let s : NetState := { nodes := [{ kind := .meshNode, nodeId := 9,
                                            a := { (default : NodeAddr) with addr := 0o5 } }],
                                active := [0], w := World.fresh 1 }
    Good s ∧ nexec (sendLookupLoop 7 (115 * 1000000 + s.w.clock) 1000 5) s =
      nexec (lookupLoopZ (pure none) (meshLookupAddress 7) (115 * 1000000 + s.w.clock) 6 5) s := by
  intro s
  have g : Good s := ⟨by decide, by decide⟩
  exact ⟨g, C17_send_terminates 7 s g (pure none) 6 (by decide)⟩

/-- **C17, errors out of the lookup loop of `send()` (partial — the earlier, weaker statement).**  If the
    loop started from `s` ends with `.error e`, then *some* well-placed state `s'` exists in which a
    `lookup_address()` call gives `.error e`.  `s'` is **not** related to the run from `s`, and for
    `e = .diverge` the statement excludes nothing (a lookup's own waiting loop has fuel too); nothing
    is said about the `.ok` outcomes.  The run-tied bound is `C17_send_terminates` above. -/
theorem C17_send_loop_error_partial (toId : Nat) (s : NetState) (g : Good s) (e : PyErr)
    (he : (nexec (sendLookupLoop toId (115 * 1000000 + s.w.clock) 1000 5) s).1 = .error e) :
    ∃ s', Good s' ∧ (nexec (meshLookupAddress toId) s').1 = .error e :=
  sendLookupLoop_ends toId s g e he

example : 115 * 1000000 ≤ sleepBudget 5 5 ∧ sleepBudget 5 5 = 125000000 := by decide

/-! ## joining

Full statement (not proved as one theorem):

  In a closed loss-free system with a master that is listening and a free level-1 slot, a node with
  ID `id ≠ 0` calling `renew_address(timeout)` (one joiner at a time) returns `some a` with `a` a valid
  address, `(id, a)` in the master's table, distinct from every other lease, and `_begin(a)` done.

What is proved, for **every** schedule, arrival pattern and timing:

* client (`C17_join_shape_partial`): if `renew_address()` returns `some a`, then in the final state `a` is
  the node's `node_address`, its ID is unchanged and the call is still well placed; the final state is
  the one a `lookup_node_id(a)` call that returned the ID ended in (conjunct 5: the double check was
  the last thing the call did).  Conjunct 4 is a **shape statement only**: *there is* a state `s1` (not
  shown to lie on the trace of this call) in which `a` satisfies the acceptance test for some
  contact.  The lemma behind it (`requestLoop_true`, NrfProofs/MeshJoinK.lean) does walk the trace, but
  the theorem as stated forgets the connection; tying that witness to the trace needs a ghost-instrumented `responseWait` / `requestLoop` (as NrfProofs/C13Trace.lean does for
  `ackWait`) — not done.  What the acceptance test itself establishes on a trace is `C17_accept`;
* master (`C17_join_master_partial`): after `update()` handled a request frame (type 195,
  `reserved = id ≠ 0`) the table is `Mesh.dhcp` of the table before — so `C16_inv`, `C16_single`,
  `C16_child` (`a = via + i·8^level(via)`, valid, ≠ 0, ≠ 0o4444, not leased to another ID) hold
  for it — however the reply's transmission ends.

The medium in between: for **two nodes** in the closed loss-free system frames 1–4 of a direct join are
composed in Lean (last sections of this file: `C17_leg_poll_closed`, `C17_leg_request_closed`,
`C17_join_frames_1_4_closed`); `_begin(a)` on the radio and the acknowledged double-check lookup
(frames 5–6) are not (`C17_join_direct_closed_partial` takes them as hypotheses about the run's own
state).  More than two nodes, relayed joins, concurrent joiners, POLL-reply timing races, other
schedules and packet loss are not quantified at all; nor is the `timeout` bound of `renew_address`.
-/

/-- **C17, join — client side, shape only (partial).**  If `renew_address(timeout)` of a node that is
    not the master returns `some a` (from `s` to `s'`), then in `s'`: `node_address = a`, the ID is
    unchanged, the call is well placed (conjuncts 1–3, about *this* run).  Conjunct 5 is tied to the
    run at its end: **the final state `s'` is the state in which a `lookup_node_id(a)` call returned
    the ID** — the double check was the last thing the call did (made from a well-placed state `s2`
    with this ID and address `a`; that `s2` itself lies on the trace is not stated).  Conjunct 4 is a
    **shape statement only**, its witnesses are not related to the run `s → s'`: some state `s1`
    exists in which `a` is `Accepted` for some contact by a node with this ID — not that `a` passed
    the acceptance test on this trace (what the test establishes on a trace is `C17_accept`). -/
theorem C17_join_shape_partial (id timeoutMs : Nat) (s : NetState) (a : Nat) (s' : NetState)
    (g : Good s) (hid : (curNode s).nodeId = id)
    (hnm : ¬ ((curNode s).kind = .meshMaster ∧ (curNode s).nodeId = 0))
    (h : nexec (meshRenew timeoutMs) s = (.ok (some a), s')) :
    (curNode s').a.addr = a ∧ (curNode s').nodeId = id ∧ Good s' ∧
    (∃ contact s1, Accepted contact a s1 ∧ (curNode s1).nodeId = id) ∧
    (∃ s2, Good s2 ∧ (curNode s2).nodeId = id ∧ (curNode s2).a.addr = a ∧
      nexec (meshLookupNodeId (some (a : Int))) s2 = (.ok (id : Int), s')) := by
  obtain ⟨h1, h2, h3⟩ := meshRenew_some id timeoutMs s a s' ⟨g, hid⟩ hnm h
  refine ⟨h2, h1.id, h1.good, ?_, ?_⟩
  · rcases h3.accepted with h4 | h4
    · exact h4
    · cases h4
  · obtain ⟨s2, hs2, ha2, hl⟩ := h3.confirmed
    exact ⟨s2, hs2.good, hs2.id, ha2, hl⟩

/-- the hypotheses on the state are satisfiable (a mesh node with ID 9 on the call stack); that
    `renew_address()` does return an address is witnessed by the correspondence runs: on
    `net 2 1 new m master 0 0 ; new x0 mesh 1 9 ; x0 renew 1500` model and code both return 5 -/
example : let s : NetState := { nodes := [{ kind := .meshNode, nodeId := 9 }], active := [0], w := World.fresh 1 }
    Good s ∧ (curNode s).nodeId = 9 ∧ ¬ ((curNode s).kind = .meshMaster ∧ (curNode s).nodeId = 0) :=
  ⟨⟨by decide, by decide⟩, by decide, by decide⟩

/-- the master itself: `renew_address()` is 0 at once -/
example (t : Nat) (s : NetState) (h : (curNode s).kind = .meshMaster ∧ (curNode s).nodeId = 0) :
    nexec (meshRenew t) s = (.ok (some 0), s) := by
  unfold meshRenew
  simp only [nexec_bind, nexec_getNode, h, and_self, ↓reduceIte, nexec_pure]

/-- **C17, join — master side (partial).**  The master (class RF24Mesh, ID 0, nothing pending) has
    received an address request carrying an ID: after `update()`, however the reply's transmission
    ends and whatever the other nodes do, its table is C16's allocator applied to the table before
    (`from_node` and `reserved` as in the frame), and `_do_dhcp` is clear again. -/
theorem C17_join_master_partial (f : Nat) (s : NetState) (g : Good s)
    (hk : (curNode s).kind = .meshMaster) (hid : (curNode s).nodeId = 0)
    (hr : (curNode s).frameBuf.header.reserved ≠ 0) (w1 : Bool) :
    (curNode (nexec (masterPart (f + 1) MESH_ADDR_REQUEST) s).2).dhcp =
      (Mesh.dhcp (curNode s).dhcp (curNode s).frameBuf.header.fromNode
        (curNode s).frameBuf.header.reserved w1).1 ∧
    (curNode (nexec (masterPart (f + 1) MESH_ADDR_REQUEST) s).2).doDhcp = false := by
  have := masterPart_request f s g hk hid hr
  refine ⟨this.1.trans ?_, this.2⟩
  unfold dhcpTable
  exact dhcp_table_w1 _ _ _ true w1

/-- **C17, the lease a join creates is valid and distinct** (C16 applied to the node layer).  If
    the master's table satisfies C16's invariant and the request carries a byte ID and comes from
    the unassigned address or a relay of level 0..3, then after `update()` — however the reply's
    transmission ends — the table satisfies the invariant again: the address recorded for the ID
    is a valid logical address, not 0, not 0o4444, the ID's only lease, and **no other ID holds
    it**.  **No existence is claimed**: the second conjunct is about every lease the table has under
    the ID afterwards — with a full level (`_dhcp` finds no free slot) there is none and it is
    vacuous; that a lease *is* recorded is `C17_leg_master_request_closed` (`dhcpFind … = some a`). -/
theorem C17_join_lease (f : Nat) (s : NetState) (g : Good s)
    (hk : (curNode s).kind = .meshMaster) (hid : (curNode s).nodeId = 0)
    (hr : (curNode s).frameBuf.header.reserved ≠ 0) (hr8 : (curNode s).frameBuf.header.reserved ≤ 255)
    (hfrom : Nrf.Props.C16.FromOk (curNode s).frameBuf.header.fromNode) (hinv : Inv (curNode s).dhcp) :
    Inv (curNode (nexec (masterPart (f + 1) MESH_ADDR_REQUEST) s).2).dhcp ∧
    ∀ a, ((curNode s).frameBuf.header.reserved, a) ∈ (curNode (nexec (masterPart (f + 1) MESH_ADDR_REQUEST) s).2).dhcp →
      isValid a = true ∧ a ≠ 0 ∧ a ≠ 0o4444 ∧
      (∀ j, (j, a) ∈ (curNode (nexec (masterPart (f + 1) MESH_ADDR_REQUEST) s).2).dhcp →
        j = (curNode s).frameBuf.header.reserved) ∧
      (∀ b, ((curNode s).frameBuf.header.reserved, b) ∈
        (curNode (nexec (masterPart (f + 1) MESH_ADDR_REQUEST) s).2).dhcp → b = a) := by
  have ht := (C17_join_master_partial f s g hk hid hr true).1
  have hinv' := Nrf.Props.C16.C16_request_inv hinv hfrom hr8 true
  rw [← ht] at hinv'
  refine ⟨hinv', fun a ha => ?_⟩
  obtain ⟨w1, w2, w3⟩ := Nrf.Props.C16.C16_inv_words hinv'
  obtain ⟨_, h0, h4, hv⟩ := w3 _ a ha
  exact ⟨hv, h0, h4, fun j hj => w1 j _ a hj ha, fun b hb => w2 _ b a hb ha⟩

example : Nrf.Props.C16.FromOk 0o4444 ∧ Nrf.Props.C16.FromOk 0o5 ∧ Inv ([] : Mesh.Table) :=
  ⟨Or.inl rfl, Or.inr ⟨[5], by decide, by decide, by decide⟩, Nrf.Proofs.Lease.inv_nil⟩

/-- the first joiner (ID 7) reaching the master directly gets 0o5, as C16 says -/
example : (Mesh.dhcp [] 0o4444 7 true).1 = [(7, 0o5)] := by decide

end Nrf.Props.C17

/-! ## joining, end to end in the closed system (`runOthers`), loss-free

The radio-level delivery between the two ends of a join, composed in Lean over the closed-system
semantics (NrfModel/Net/Node.lean: `runOthers` lets the master run `update()` at the joiner's next
`read()`), with the driver contracts proved about the driver model (`l3contracts`, and for the
unacknowledged transmit role the two new ones of NrfProofs/C17JoinDrv.lean).

Sequence of a direct join (model and real code agree: `net 2 1 new m master 0 0 ; new x mesh 1 7 ;
x renew 1500 ; m lookup_address 7` → six frames on the air, result 5, table `[7:5]`):

  1. joiner `_write(0, TX_MULTICAST)`: NETWORK_POLL to pipe 0 of address 0, **no acknowledgement**
     (`_logi_2_phys`: every send type above `TX_ROUTED` is "multicast": pipe 0, `auto_ack = 0x3E`);
  2. master `update()` (at the joiner's next `read()`): answers `_write(0o4444, TX_PHYSICAL)` — unacknowledged,
     to pipe 0 of 0o4444; the joiner's `_net_update()` returns 194, `_make_contact` polls on for 55 ms;
  3. joiner `_write(0, TX_PHYSICAL)`: MESH_ADDR_REQUEST (`reserved` = ID), unacknowledged, pipe 0 of address 0;
  4. master `update()`: `_do_dhcp`, `_dhcp()` records the lease and answers `_write(0o4444, TX_PHYSICAL)`
     (type 128, `reserved` = ID, body = address), unacknowledged; the joiner's `_net_update()` returns 128;
  5. joiner `_begin(a)`, then `lookup_node_id(a)`: `_write(0, TX_NORMAL)` — acknowledged, to pipe `a`'s
     parent pipe of the master; 6. master answers type 198 `_write(a, TX_NORMAL)` — acknowledged, pipe 5 of `a`.

Proved here, for every state satisfying the stated invariant (any table, any ID, any clocks):

* `C17_write_unacked_closed` — **one unacknowledged `_write`** (frames 1–4 are instances): `True`,
  listening restored, every other radio has `receive`d the packet; `C17_receive_pipe0` — a listening
  node radio stores such a packet on pipe 0, without acknowledging;
* `C17_leg_master_request_closed` — frame 4's sender: the master's whole `update()` on a received request;
* `C17_leg_request_closed` — **frames 3 and 4 end to end** (two nodes): the joiner's `_write` and its next
  `_net_update()`, the master's `update()` nested inside the joiner's `read()`: returns 128, the
  joiner's `frame_buf` is the response (which passes `C17_accept`'s test), the master's table is
  C16's allocation `Mesh.dhcp t 0o4444 i`, `_do_dhcp` clear, both nodes listening with empty FIFOs.

Full statement, **not yet proved as one theorem** (`C17_join_direct_closed`): from the state before
`renew_address(timeout)` (joiner unassigned, both RX FIFOs empty, `lastRx = none`), with
`timeout ≥ 55 ms + the six transmissions`, `meshRenew timeout` returns `some a` with
`Mesh.setAddress t i a` the master's table, `beginAddr a` the joiner's address attributes, both
listening.  Missing legs: (a) the poll leg — frames 1–2 are two more instances of
`C17_write_unacked_closed` with the master's `handleOther` poll branch in between (same shape as
`C17_leg_request_closed`), **plus the 55 ms wait of `_make_contact`**, which needs a lower bound on the
virtual time one idle `read()` costs (the contracts say nothing about the clock) to bound the
number of idle iterations by the loop's fuel; (b) `_begin(a)` on the radio (`set listen / auto_ack /
retries / open_rx_pipe × 6`: a `NodeRadio` contract for `beginRadio`, C07's listening invariant is
weaker); (c) the lookup leg — frames 5–6 are `nodeWrite_hop_plain` (NrfProofs/C13HopsLink.lean, receiver
on the call stack allowed) plus `C17_lookup_master`; (d) the composition through `renewLoop` /
`requestLoop` / `contactLoop` / `responseWait` / `lookupWait` with their literal fuels.
(Update: (a) — with the clock clause — and the composition of frames 1–4 through `_request_address` with the
literal fuels are proved in the last two sections of this file; (b), (c) and `renew_address`'s preamble remain.)
-/


namespace Nrf.Props.C17
open Nrf Nrf.Net Nrf.Spec Nrf.Proofs Nrf.Net.Join

/-- **C17, closed system: one unacknowledged `_write`.**  `_write(wd, st)` with `st` above `TX_ROUTED`
    (`TX_PHYSICAL`, `TX_LOGICAL`, `TX_MULTICAST`), single frame, by a listening node in a quiet closed
    loss-free network: the result is `True` whatever the frame's type (no NETWORK_ACK business); the
    node listens again on its own addresses, its RX FIFO and reception history untouched; the fault
    script is still empty; and **every other radio has `receive`d the packet** addressed to
    `_pipe_address(wd, 0)` (`Radio.receive`: stored where a listening radio has that address on an
    open pipe with room, ignored elsewhere). -/
theorem C17_write_unacked_closed (f : Nat) (s : NetState) (L : LinkCfg) (Pa : List Bytes) (wd st t : Nat)
    (A pk : Bytes)
    (hcur : s.cur < s.nodes.length) (hclosed : s.closed = true)
    (hfuel : s.nodes.length + 2 ≤ f) (hquiet : Quiet s) (hWf : s.drv.Wf)
    (hNa : NodeRadio L Pa true true 0x3E s.node.rf s.drv.radio)
    (hrid : ∀ i, i < s.nodes.length → i ≠ s.cur → s.ridAt i ≠ s.ridAt s.cur)
    (haddr : pipeAddress s.node.cfg wd 0 = .ok A) (hAlen : A.length = 5)
    (hfaults : s.w.faults = []) (hmsg : s.node.frameBuf.message.length ≤ MAX_FRAG_SIZE)
    (hpk : s.node.frameBuf.pack = .ok pk)
    (ht : s.node.frameBuf.header.msgType = .int t) (hst : st > TX_ROUTED) :
    ∃ D : DrvState, Nrf.Net.nexec (nodeWrite (f + 2) wd st) s = (.ok true, s.afterRf D) ∧
      D.d.rid = s.node.rf.rid ∧ D.w.radios.length = s.w.radios.length ∧ D.w.faults = [] ∧
      NodeRadio L Pa true true 0x3E D.d D.radio ∧ D.radio.rxFifo = s.drv.radio.rxFifo ∧
      D.radio.lastRx = s.drv.radio.lastRx ∧
      (∃ pid, ∀ i, i ≠ s.ridAt s.cur → D.w.radio i = ((s.w.radio i).receive (unicastPacket L A pk pid)).1) :=
  mc_write f s L Pa wd st t A pk hcur hclosed hfuel hquiet hWf hNa hrid haddr hAlen hfaults hmsg hpk ht hst

/-- **C17, reception on pipe 0**: a listening node radio whose pipe-0 address is the packet's, with room
    and the packet not a repetition of the last one, stores it once on pipe 0 and does **not**
    acknowledge it; the driver contracts of the unacknowledged transmit role hold for every state. -/
theorem C17_receive_pipe0 {L : LinkCfg} {P : List Bytes} {d : Rf24} {r : Radio}
    (h : NodeRadio L P true true 0x3E d r) (A buf : Bytes) (pid : Nat) (hA : P[0]? = some A)
    (hroom : r.rxFifo.length < 3) (hdup : r.lastRx ≠ some { pid := pid, addr := A, data := buf }) :
    r.receive (unicastPacket L A buf pid) = (r.got0 A buf pid, none) ∧
    NodeRadio L P true true 0x3E d (r.got0 A buf pid) :=
  ⟨receive_pipe0 h A buf pid hA hroom hdup, got0_nodeRadio h A buf pid⟩

/-- the hypotheses of `C17_write_unacked_closed` / `C17_receive_pipe0` hold in the concrete network
    `joinEx` (master on radio 0, joiner ID 7 on radio 1 about to send its request): the request
    reaches the master's pipe 0 -/
example : ∃ D : DrvState, ∃ pk, (reqFrame 3 7 0).pack = .ok pk ∧
    Nrf.Net.nexec (nodeWrite 6 0 TX_PHYSICAL) joinEx = (.ok true, joinEx.afterRf D) ∧
    ∃ pid, D.w.radio 0 = (joinEx.radioAt 0).got0 [195, 204, 204, 204, 204] pk pid := by
  obtain ⟨pk, hpk⟩ := pack_ok (reqFrame 3 7 0) MESH_ADDR_REQUEST rfl
  obtain ⟨D, e, _, _, _, _, _, _, pid, o⟩ := C17_write_unacked_closed 4 joinEx Example.L PX 0 TX_PHYSICAL
    MESH_ADDR_REQUEST [195, 204, 204, 204, 204] pk (by decide) rfl (by decide)
    (by intro k hk hkc hka
        have : k = 0 := by
          have h1 : k < 2 := hk
          have h2 : k ≠ 1 := hkc
          omega
        subst this; rfl)
    (show (1 : Nat) < 2 by decide) joinEx_radio1
    (by intro k hk hkc
        have : k = 0 := by
          have h1 : k < 2 := hk
          have h2 : k ≠ 1 := hkc
          omega
        subst this; decide)
    pa0 rfl rfl (by decide) hpk rfl (by decide)
  refine ⟨D, pk, hpk, e, pid, ?_⟩
  rw [o 0 (by decide)]
  have h0 : (joinEx.radioAt 0).lastRx = none := rfl
  exact congrArg Prod.fst (C17_receive_pipe0 joinEx_radio0 _ pk pid rfl (by decide) (by rw [h0]; intro h; cases h)).1

/-- **C17, closed system: the master handles an address request** (any number of nodes).  The
    master — class RF24Mesh, ID 0, address 0, listening, `_do_dhcp` clear, running `update()` in a
    quiet closed loss-free network — finds an address request from the unassigned address
    (`reserved = i ≠ 0`) as the only payload in its RX FIFO, and the candidate loop of `_dhcp` finds
    `a`.  Then `update()` returns 195; afterwards the master's node object is `leased …`: table
    `Mesh.setAddress t i a`, `_do_dhcp` clear, `frame_buf` = the response (type 128, `reserved = i`,
    body `a`); the response has been transmitted — unacknowledged — to `_pipe_address(0o4444, 0)`:
    every other radio has `receive`d it; the master listens again, its RX FIFO empty. -/
theorem C17_leg_master_request_closed (f : Nat) (sm : NetState) (L : LinkCfg) (Pm : List Bytes) (p i a fid : Nat)
    (A pk pk' : Bytes)
    (hcur : sm.cur < sm.nodes.length) (hclosed : sm.closed = true)
    (hfuel : sm.nodes.length + 2 ≤ f) (hquiet : Quiet sm) (hWf : sm.drv.Wf)
    (hN : NodeRadio L Pm true true 0x3E sm.node.rf sm.drv.radio)
    (hrid : ∀ k, k < sm.nodes.length → k ≠ sm.cur → sm.ridAt k ≠ sm.ridAt sm.cur)
    (harr : sm.node.arrivals = []) (hfifo : sm.drv.radio.rxFifo = [{ pipe := p, data := pk }]) (hp : p ≤ 5)
    (hfaults : sm.w.faults = [])
    (hpk : (reqFrame fid i 0).pack = .ok pk) (hi0 : i ≠ 0) (hi : i ≤ 255) (hfid : fid < 65536)
    (hkind : sm.node.kind = .meshMaster) (hid : sm.node.nodeId = 0) (haddr0 : sm.node.a.addr = 0)
    (hret : sm.node.retSysMsg = true) (hdo : sm.node.doDhcp = false)
    (hA : pipeAddress sm.node.cfg NETWORK_DEFAULT_ADDR 0 = .ok A) (hAlen : A.length = 5)
    (hfind : dhcpFind sm.node.dhcp i 0 0 (Mesh.MESH_MAX_CHILDREN + 1) = some a) (ha : a < 65536)
    (hpk' : (respFrame fid i a).pack = .ok pk') :
    ∃ D1 D2 : DrvState,
      Nrf.Net.nexec (nodeUpdate (f + 4)) sm =
        (.ok MESH_ADDR_REQUEST, ((sm.afterRf D1).putNode (leased sm.node D1.d fid i a)).afterRf D2) ∧
      (leased sm.node D1.d fid i a).dhcp = (Mesh.dhcp sm.node.dhcp NETWORK_DEFAULT_ADDR i true).1 ∧
      DrvFrame sm.drv D1 ∧ D1.radio.rxFifo = [] ∧
      D2.d.rid = sm.node.rf.rid ∧ D2.w.radios.length = sm.w.radios.length ∧ D2.w.faults = [] ∧
      NodeRadio L Pm true true 0x3E D2.d D2.radio ∧ D2.radio.rxFifo = [] ∧
      D2.radio.lastRx = sm.drv.radio.lastRx ∧
      (∃ pid, ∀ r, r ≠ sm.ridAt sm.cur →
        D2.w.radio r = ((sm.w.radio r).receive (unicastPacket L A pk' pid)).1) := by
  obtain ⟨D1, D2, h1, h2, h3, h4, h5, h6, h7, h8, h9, h10⟩ := master_request f sm L Pm p i a fid A pk pk' hcur hclosed
    hfuel hquiet hWf hN hrid harr hfifo hp hfaults hpk hi0 hi hfid hkind hid haddr0 hret hdo hA hAlen hfind ha hpk'
  exact ⟨D1, D2, h1, (dhcp_direct _ i a true hfind).symm, h2, h3, h4, h5, h6, h7, h8, h9, h10⟩

example : dhcpFind [] 7 0 0 (Mesh.MESH_MAX_CHILDREN + 1) = some 5 ∧
    dhcpFind [(7, 5)] 9 0 0 (Mesh.MESH_MAX_CHILDREN + 1) = some 4 ∧
    (Mesh.dhcp [(7, 5)] NETWORK_DEFAULT_ADDR 9 true).1 = [(7, 5), (9, 4)] := by decide

/-- **C17, closed system: the request leg of a join, end to end** (frames 3 and 4 of the sequence
    above; two nodes, loss-free).  The joiner `x` (ID `i`, unassigned, on the call stack, listening,
    `frame_buf` = its address request for contact 0) and the master `m` (RF24Mesh, ID 0, address 0,
    table `t`, `_do_dhcp` clear, listening, off the call stack); both RX FIFOs empty, neither radio
    having just received the very packet that is about to be sent (`lastRx = none` is enough); the
    candidate loop of `_dhcp` finds `a` (a free level-1 slot).  Then

    * `_write(0, TX_PHYSICAL)` of the joiner returns `True`, and its next `_net_update()` returns
      **128** (`MESH_ADDR_RESPONSE`) — within that call the master's `update()` ran (`runOthers`), and
      nothing else;
    * afterwards the joiner's `frame_buf` is the response — type 128, `reserved = i`, body `a`: it
      passes the acceptance test of `C17_accept` for contact 0 — and nothing else of the joiner's
      node object changed;
    * **the master's table is `Mesh.setAddress t i a` = C16's allocation `Mesh.dhcp t 0o4444 i`**
      (lease recorded under the ID; the other leases as `C16` says), `_do_dhcp` is clear, its
      `frame_buf` is the response, nothing else of its node object changed;
    * both nodes listen again on their own six addresses (`NodeRadio … true true 0x3E`), both RX
      FIFOs are empty, the fault script is still empty, the joiner is still the running node. -/
theorem C17_leg_request_closed (f : Nat) (s : NetState) (L : LinkCfg) (Pm Px : List Bytes) (m x i a fid : Nat)
    (Am Ax pk pk' : Bytes)
    (hlen : s.nodes.length = 2) (hm : m < 2) (hx : x < 2) (hmx : m ≠ x)
    (hcur : s.cur = x) (hact : s.active = [x]) (hclosed : s.closed = true) (hfaults : s.w.faults = [])
    (hfuel : 4 ≤ f)
    (hridm : s.ridAt m < s.w.radios.length) (hridx : s.ridAt x < s.w.radios.length)
    (hridne : s.ridAt m ≠ s.ridAt x)
    (hNm : NodeRadio L Pm true true 0x3E (s.nodeAt m).rf (s.radioAt m))
    (hNx : NodeRadio L Px true true 0x3E (s.nodeAt x).rf (s.radioAt x))
    (hfm : (s.radioAt m).rxFifo = []) (hfx : (s.radioAt x).rxFifo = [])
    (hdupm : ∀ pid, (s.radioAt m).lastRx ≠ some { pid := pid, addr := Am, data := pk })
    (hdupx : ∀ pid, (s.radioAt x).lastRx ≠ some { pid := pid, addr := Ax, data := pk' })
    (harrm : (s.nodeAt m).arrivals = []) (harrx : (s.nodeAt x).arrivals = [])
    (hAm : Pm[0]? = some Am) (hAx : Px[0]? = some Ax)
    (hxfb : (s.nodeAt x).frameBuf = reqFrame fid i 0) (hxaddr : (s.nodeAt x).a.addr = NETWORK_DEFAULT_ADDR)
    (hxret : (s.nodeAt x).retSysMsg = true) (hxcfg : pipeAddress (s.nodeAt x).cfg 0 0 = .ok Am)
    (hkind : (s.nodeAt m).kind = .meshMaster) (hid : (s.nodeAt m).nodeId = 0) (hmaddr : (s.nodeAt m).a.addr = 0)
    (hmret : (s.nodeAt m).retSysMsg = true) (hdo : (s.nodeAt m).doDhcp = false)
    (hmcfg : pipeAddress (s.nodeAt m).cfg NETWORK_DEFAULT_ADDR 0 = .ok Ax)
    (hfind : dhcpFind (s.nodeAt m).dhcp i 0 0 (Mesh.MESH_MAX_CHILDREN + 1) = some a) (ha : a < 65536)
    (hi0 : i ≠ 0) (hi : i ≤ 255) (hfid : fid < 65536)
    (hpk : (reqFrame fid i 0).pack = .ok pk) (hpk' : (respFrame fid i a).pack = .ok pk') :
    ∃ s1 s2 : NetState,
      Nrf.Net.nexec (nodeWrite (f + 2) 0 TX_PHYSICAL) s = (.ok true, s1) ∧
      Nrf.Net.nexec (netUpdate (f + 7 + m) 0) s1 = (.ok MESH_ADDR_RESPONSE, s2) ∧
      s2.cur = x ∧ s2.active = [x] ∧ s2.nodes.length = 2 ∧ s2.closed = true ∧ s2.w.faults = [] ∧
      (s2.nodeAt x).body = { (s.nodeAt x).body with frameBuf := respFrame fid i a } ∧
      (s2.nodeAt m).body = { (s.nodeAt m).body with frameBuf := respFrame fid i a,
                                                    dhcp := Mesh.setAddress (s.nodeAt m).dhcp i a, doDhcp := false } ∧
      Mesh.setAddress (s.nodeAt m).dhcp i a = (Mesh.dhcp (s.nodeAt m).dhcp NETWORK_DEFAULT_ADDR i true).1 ∧
      ((respFrame fid i a).header.reserved = i ∧ (respFrame fid i a).header.ty = MESH_ADDR_RESPONSE ∧
        unpackH (pySlice (respFrame fid i a).message 0 2) = .ok a) ∧
      NodeRadio L Pm true true 0x3E (s2.nodeAt m).rf (s2.radioAt m) ∧
      NodeRadio L Px true true 0x3E (s2.nodeAt x).rf (s2.radioAt x) ∧
      (s2.radioAt m).rxFifo = [] ∧ (s2.radioAt x).rxFifo = [] ∧
      s2.ridAt m = s.ridAt m ∧ s2.ridAt x = s.ridAt x := by
  obtain ⟨s1, s2, h1, h2, h3, h4, h5, h6, h7, h8, h9, h10, h11, h12, h13, h14, h15⟩ := leg_request f s L Pm Px m x i a
    fid Am Ax pk pk' hlen hm hx hmx hcur hact hclosed hfaults hfuel hridm hridx hridne hNm hNx hfm hfx hdupm hdupx
    harrm harrx hAm hAx hxfb hxaddr hxret hxcfg hkind hid hmaddr hmret hdo hmcfg hfind ha hi0 hi hfid hpk hpk'
  exact ⟨s1, s2, h1, h2, h3, h4, h5, h6, h7, h8, h9, (dhcp_direct _ i a true hfind).symm,
    respFrame_accept fid i a ha, h10, h11, h12, h13, h14, h15⟩

/-- the hypotheses are satisfiable: in `joinEx` (master with an empty table on radio 0, joiner ID 7
    on radio 1 with its request in `frame_buf`) the leg runs and leases 0o5 — as the real code does
    on `net 2 1 new m master 0 0 ; new x mesh 1 7 ; x renew 1500` -/
example : ∃ s1 s2 : NetState,
    Nrf.Net.nexec (nodeWrite 6 0 TX_PHYSICAL) joinEx = (.ok true, s1) ∧
    Nrf.Net.nexec (netUpdate 11 0) s1 = (.ok MESH_ADDR_RESPONSE, s2) ∧
    (s2.nodeAt 0).body.dhcp = [(7, 5)] ∧ (s2.nodeAt 1).body.frameBuf = respFrame 3 7 5 := by
  obtain ⟨pk, hpk⟩ := pack_ok (reqFrame 3 7 0) MESH_ADDR_REQUEST rfl
  obtain ⟨pk', hpk'⟩ := pack_ok (respFrame 3 7 5) MESH_ADDR_RESPONSE rfl
  obtain ⟨s1, s2, h1, h2, _, _, _, _, _, h8, h9, _⟩ := C17_leg_request_closed 4 joinEx Example.L Example.P0 PX 0 1 7 5 3
    [195, 204, 204, 204, 204] [204, 62, 204, 204, 204] pk pk' rfl (by decide) (by decide) (by decide) rfl rfl rfl rfl
    (by decide) (by decide) (by decide) (by decide) joinEx_radio0 joinEx_radio1 rfl rfl
    (by intro pid; rw [show (joinEx.radioAt 0).lastRx = none from rfl]; intro h; cases h)
    (by intro pid; rw [show (joinEx.radioAt 1).lastRx = none from rfl]; intro h; cases h)
    rfl rfl rfl rfl rfl rfl rfl pa0 rfl rfl rfl rfl rfl pa4444 (by decide) (by decide) (by decide) (by decide)
    (by decide) hpk hpk'
  refine ⟨s1, s2, h1, h2, ?_, ?_⟩
  · rw [h9]; rfl
  · rw [h8]

end Nrf.Props.C17

/-! ## the poll leg of a direct join (frames 1–2) and the 55 ms window of `_make_contact`

The driver contracts (`L3Contracts`, `l3m_*`) say nothing about virtual time; the loop
`while time.monotonic_ns() < timeout and len(responders) < MESH_MAX_POLL` of `_make_contact` ends by
the clock alone.  The clock clause (NrfProofs/C17Join2Clock.lean): every SPI transaction ends at
`max clock busyUntil + SPI_COST_NS` (`L3.spi_clock`, any world); `read()` with an empty RX FIFO is
exactly **one** transaction (R_RX_PL_WID) and changes nothing else.  With it the window is closed by
induction on the time left (`C17_contact_window_closed`), and the poll leg is proved end to end
(`C17_leg_poll_closed`): `_make_contact(0)` returns `[0]`.  55 ms / 10 µs = 5500 idle polls ≪ the
loop's fuel `F - 2 = 199998` (`window_fuel`: the literal is only ever compared, never unfolded).
-/

namespace Nrf.Props.C17
open Nrf Nrf.Net Nrf.Spec Nrf.Proofs Nrf.Net.Join

/-- **C17, the clock clause of `read()`.**  On a node radio (any role) whose RX FIFO is empty,
    `read()` returns `None` after exactly one SPI transaction: the clock moves to
    `max clock busyUntil[rid] + SPI_COST_NS` (the radio is waited for first — "jump" semantics; on an
    idle radio that is `clock + SPI_COST_NS`), the transaction counter by one, the cached STATUS byte
    becomes the chip's; radios, busy times, fault script and air log are untouched.  And in *every*
    state `read()` costs at least one transaction: the clock never moves backwards. -/
theorem C17_idle_read_clock (s : DrvState) (L : LinkCfg) (P : List Bytes) (rx ce : Bool) (aa : Nat) (hw : s.Wf)
    (hN : NodeRadio L P rx ce aa s.d s.radio) (he : s.radio.rxFifo = []) :
    exec (Rf24.read none) s =
      (.ok none, { d := { s.d with status := s.radio.status },
                   w := { s.w with clock := max s.w.clock (s.w.busyUntil.getD s.d.rid 0) + SPI_COST_NS,
                                   spiCount := s.w.spiCount + 1 } }) ∧
    (s.w.busyUntil.getD s.d.rid 0 ≤ s.w.clock →
      (exec (Rf24.read none) s).2.w.clock = s.w.clock + SPI_COST_NS) ∧
    ∀ t : DrvState, t.w.clock + SPI_COST_NS ≤ (exec (Rf24.read none) t).2.w.clock := by
  have e := L3.idle_read s L P rx ce aa hw hN he
  refine ⟨e, ?_, L3.read_clock_mono⟩
  intro hb
  rw [e]
  show max s.w.clock (s.w.busyUntil.getD s.d.rid 0) + SPI_COST_NS = _
  rw [Nat.max_eq_left hb]

/-- the joiner's radio of `joinEx` is such a radio: one idle `read()` costs 10 µs there -/
example : (exec (Rf24.read none) joinEx.drv).1 = .ok none ∧
    (exec (Rf24.read none) joinEx.drv).2.w.clock = joinEx.w.clock + 10000 := by
  have h := C17_idle_read_clock joinEx.drv Example.L PX true true 0x3E (show (1 : Nat) < 2 by decide) joinEx_radio1 rfl
  refine ⟨by rw [h.1], ?_⟩
  rw [h.2.1 (by decide)]
  rfl

/-- **C17, closed system: an idle `_net_update()`.**  A node that listens with an empty RX FIFO, has
    no scripted arrivals, in a closed network where nobody off the call stack has data waiting
    (`IdleSt`): `_net_update()` returns its start value; the state afterwards is `tick s` — the same
    state one SPI transaction later — which is idle again. -/
theorem C17_idle_net_update {L : LinkCfg} {P : List Bytes} {s : NetState} (h : IdleSt L P s) (f rv : Nat)
    (hf : s.nodes.length < f) :
    Nrf.Net.nexec (netUpdate (f + 2) rv) s = (.ok rv, tick s) ∧ IdleSt L P (tick s) ∧
    (tick s).w.clock = max s.w.clock (s.w.busyUntil.getD s.node.rf.rid 0) + SPI_COST_NS ∧
    (tick s).w.radios = s.w.radios ∧ (∀ i, ((tick s).nodeAt i).body = (s.nodeAt i).body) :=
  ⟨netUpdate_idle h f rv hf, h.tick, tick_clock s, rfl, tick_body s⟩

/-- **C17, closed system: the collection window of `_make_contact` closes.**  From an idle state with
    fewer than four responders: the loop polls — `k ≤ n` idle `_net_update()`s — until the clock has
    reached the deadline, and returns the responders unchanged; `n + 1` units of fuel suffice when `n`
    SPI transactions lead past the deadline. -/
theorem C17_contact_window_closed {L : LinkCfg} {P : List Bytes} (deadline : Nat) (slots : List (Option Nat))
    (hslots : (pySetItems slots).length < 4) (n : Nat) (s : NetState) (h : IdleSt L P s)
    (hlen : s.nodes.length + 2 < F) (hd : deadline ≤ s.w.clock + n * SPI_COST_NS) :
    ∃ k, k ≤ n ∧ Nrf.Net.nexec (contactLoop deadline (n + 1) slots) s = (.ok slots, tickN k s) ∧
      deadline ≤ (tickN k s).w.clock ∧ IdleSt L P (tickN k s) ∧ SameButClock s (tickN k s) := by
  obtain ⟨k, hk, e, hdl⟩ := contactLoop_idle (L := L) (P := P) deadline slots hslots (F - 2)
    (by have : F = 200000 := rfl
        omega) n s h (by omega) hd
  exact ⟨k, hk, e, hdl, IdleSt.tickN k h, SameButClock.tickN k s⟩

/-- `joinEx` is idle; the 55 ms window costs at most 5500 polls there -/
example : ∃ k, k ≤ 5500 ∧
    (Nrf.Net.nexec (contactLoop 55000000 5501 (pySetAdd (List.replicate 8 none) 0)) joinEx).1 =
      .ok (pySetAdd (List.replicate 8 none) 0) := by
  have hi : IdleSt Example.L PX joinEx := by
    refine ⟨by decide, rfl, ?_, show (1 : Nat) < 2 by decide, joinEx_radio1, rfl, rfl⟩
    intro k hk hkc hka
    have : k = 0 := by
      have h1 : k < 2 := hk
      have h2 : k ≠ 1 := hkc
      omega
    subst this; rfl
  obtain ⟨k, hk, e, _⟩ := C17_contact_window_closed (L := Example.L) (P := PX) 55000000
    (pySetAdd (List.replicate 8 none) 0) (by rw [slots1_items]; decide) 5500 joinEx hi (by decide) (by decide)
  exact ⟨k, hk, by rw [e]⟩

/-- **C17, closed system: the master answers a poll** (any number of nodes, all others on the call
    stack).  The master — RF24Mesh, ID 0, address 0, multicast and children allowed, listening — finds
    the NETWORK_POLL multicast of an unassigned node as the only payload in its RX FIFO.  `update()`
    returns 0; `frame_buf` holds the answer (type 194, from 0, to 0o4444), transmitted —
    unacknowledged — to `_pipe_address(0o4444, 0)`: every other radio has `receive`d it; nothing
    else of the master's node object changed; it listens again, its RX FIFO empty. -/
theorem C17_leg_master_poll_closed (f : Nat) (sm : NetState) (L : LinkCfg) (Pm : List Bytes) (p fid r : Nat)
    (A pk pk' : Bytes)
    (hcur : sm.cur < sm.nodes.length) (hclosed : sm.closed = true)
    (hfuel : sm.nodes.length + 2 ≤ f) (hall : ∀ k, k < sm.nodes.length → k ≠ sm.cur → k ∈ sm.active)
    (hWf : sm.drv.Wf)
    (hN : NodeRadio L Pm true true 0x3E sm.node.rf sm.drv.radio)
    (hrid : ∀ k, k < sm.nodes.length → k ≠ sm.cur → sm.ridAt k ≠ sm.ridAt sm.cur)
    (harr : sm.node.arrivals = []) (hfifo : sm.drv.radio.rxFifo = [{ pipe := p, data := pk }]) (hp : p ≤ 5)
    (hfaults : sm.w.faults = [])
    (hpk : (pollFrame fid r).pack = .ok pk) (hr : r ≤ 255) (hfid : fid < 65536)
    (hkind : sm.node.kind = .meshMaster) (hid : sm.node.nodeId = 0) (haddr0 : sm.node.a.addr = 0)
    (hmc : sm.node.cfg.allowMulticast = true) (hpar : sm.node.parenthood = true)
    (hdo : sm.node.doDhcp = false)
    (hA : pipeAddress sm.node.cfg NETWORK_DEFAULT_ADDR 0 = .ok A) (hAlen : A.length = 5)
    (hpk' : (pollReply fid r 0).pack = .ok pk') :
    ∃ s' : NetState, Nrf.Net.nexec (nodeUpdate (f + 5)) sm = (.ok 0, s') ∧
      s'.cur = sm.cur ∧ s'.active = sm.active ∧ s'.closed = true ∧ s'.nextId = sm.nextId ∧
      s'.nodes.length = sm.nodes.length ∧
      (∀ k, k ≠ sm.cur → s'.nodeAt k = sm.nodeAt k) ∧
      s'.node.body = { sm.node.body with frameBuf := pollReply fid r 0 } ∧
      s'.node.clock = sm.node.clock ∧
      s'.node.rf.rid = sm.node.rf.rid ∧ s'.w.radios.length = sm.w.radios.length ∧ s'.w.faults = [] ∧
      NodeRadio L Pm true true 0x3E s'.node.rf s'.drv.radio ∧ s'.drv.radio.rxFifo = [] ∧
      s'.drv.radio.lastRx = sm.drv.radio.lastRx ∧
      (∃ pid, ∀ q, q ≠ sm.ridAt sm.cur →
        s'.w.radio q = ((sm.w.radio q).receive (unicastPacket L A pk' pid)).1) :=
  master_poll f sm L Pm p fid r A pk pk' hcur hclosed hfuel hall hWf hN hrid harr hfifo hp hfaults hpk hr hfid
    hkind hid haddr0 hmc hpar hdo hA hAlen hpk'

/-- **C17, closed system: the poll leg of a join, end to end** (frames 1 and 2; two nodes, loss-free;
    the model's own fuel `F`).  The joiner `x` (unassigned, on the call stack, listening; `frame_buf`
    with id `fid` and `reserved = r`) and the master `m` (RF24Mesh, ID 0, address 0, multicast and
    children allowed, `_do_dhcp` clear, listening, off the call stack); both RX FIFOs empty, neither
    radio having just received the very packet about to be sent.  Then **`_make_contact(0)` returns
    `[0]`**: the multicast reaches the master's pipe 0; within the joiner's next `read()` the master's
    `update()` answers to the joiner's pipe 0; the joiner's `_net_update()` returns 194 and address 0
    enters the set of responders; every further `_net_update()` of the 55 ms window is idle (one SPI
    transaction) and the loop ends by the clock within its fuel.  Afterwards both `frame_buf`s hold
    the answer and nothing else of either node object changed (no header id consumed); both nodes
    listen on their own addresses with empty RX FIFOs; the fault script is still empty; each radio
    remembers the one packet it received (`lastRx`). -/
theorem C17_leg_poll_closed (s : NetState) (L : LinkCfg) (Pm Px : List Bytes) (m x fid r : Nat)
    (Am Ax pk pk' : Bytes)
    (hlen : s.nodes.length = 2) (hm : m < 2) (hx : x < 2) (hmx : m ≠ x)
    (hcur : s.cur = x) (hact : s.active = [x]) (hclosed : s.closed = true) (hfaults : s.w.faults = [])
    (hridm : s.ridAt m < s.w.radios.length) (hridx : s.ridAt x < s.w.radios.length)
    (hridne : s.ridAt m ≠ s.ridAt x)
    (hNm : NodeRadio L Pm true true 0x3E (s.nodeAt m).rf (s.radioAt m))
    (hNx : NodeRadio L Px true true 0x3E (s.nodeAt x).rf (s.radioAt x))
    (hfm : (s.radioAt m).rxFifo = []) (hfx : (s.radioAt x).rxFifo = [])
    (hdupm : ∀ pid, (s.radioAt m).lastRx ≠ some { pid := pid, addr := Am, data := pk })
    (hdupx : ∀ pid, (s.radioAt x).lastRx ≠ some { pid := pid, addr := Ax, data := pk' })
    (harrm : (s.nodeAt m).arrivals = []) (harrx : (s.nodeAt x).arrivals = [])
    (hAm : Pm[0]? = some Am) (hAx : Px[0]? = some Ax)
    (hxfid : (s.nodeAt x).frameBuf.header.frameId = fid) (hxres : (s.nodeAt x).frameBuf.header.reserved = r)
    (hxaddr : (s.nodeAt x).a.addr = NETWORK_DEFAULT_ADDR)
    (hxret : (s.nodeAt x).retSysMsg = true) (hxcfg : pipeAddress (s.nodeAt x).cfg 0 0 = .ok Am)
    (hkind : (s.nodeAt m).kind = .meshMaster) (hid : (s.nodeAt m).nodeId = 0) (hmaddr : (s.nodeAt m).a.addr = 0)
    (hmmc : (s.nodeAt m).cfg.allowMulticast = true) (hmpar : (s.nodeAt m).parenthood = true)
    (hdo : (s.nodeAt m).doDhcp = false)
    (hmcfg : pipeAddress (s.nodeAt m).cfg NETWORK_DEFAULT_ADDR 0 = .ok Ax)
    (hr : r ≤ 255) (hfid : fid < 65536)
    (hpk : (pollFrame fid r).pack = .ok pk) (hpk' : (pollReply fid r 0).pack = .ok pk') :
    ∃ (s' : NetState) (pid1 pid2 : Nat),
      Nrf.Net.nexec (makeContact 0) s = (.ok [0], s') ∧
      s'.cur = x ∧ s'.active = [x] ∧ s'.nodes.length = 2 ∧ s'.closed = true ∧ s'.w.faults = [] ∧
      s'.nextId = s.nextId ∧ s'.w.radios.length = s.w.radios.length ∧
      (s'.nodeAt x).body = { (s.nodeAt x).body with frameBuf := pollReply fid r 0 } ∧
      (s'.nodeAt m).body = { (s.nodeAt m).body with frameBuf := pollReply fid r 0 } ∧
      NodeRadio L Pm true true 0x3E (s'.nodeAt m).rf (s'.radioAt m) ∧
      NodeRadio L Px true true 0x3E (s'.nodeAt x).rf (s'.radioAt x) ∧
      (s'.radioAt m).rxFifo = [] ∧ (s'.radioAt x).rxFifo = [] ∧
      s'.ridAt m = s.ridAt m ∧ s'.ridAt x = s.ridAt x ∧
      (s'.radioAt m).lastRx = some { pid := pid1, addr := Am, data := pk } ∧
      (s'.radioAt x).lastRx = some { pid := pid2, addr := Ax, data := pk' } :=
  leg_poll s L Pm Px m x fid r Am Ax pk pk' hlen hm hx hmx hcur hact hclosed hfaults hridm hridx hridne hNm hNx
    hfm hfx hdupm hdupx harrm harrx hAm hAx hxfid hxres hxaddr hxret hxcfg hkind hid hmaddr hmmc hmpar hdo hmcfg
    hr hfid hpk hpk'

/-- the hypotheses are satisfiable: in `joinEx` (master on radio 0, joiner ID 7 on radio 1)
    `_make_contact(0)` returns `[0]` — as the real code does on
    `net 2 1 new m master 0 0 ; new x mesh 1 7 ; x renew 1500` (frames 1 and 2 of the six) -/
example : ∃ s' : NetState, Nrf.Net.nexec (makeContact 0) joinEx = (.ok [0], s') ∧
    (s'.nodeAt 1).body.frameBuf = pollReply 3 7 0 ∧ (s'.radioAt 0).rxFifo = [] ∧ (s'.radioAt 1).rxFifo = [] := by
  obtain ⟨pk, hpk⟩ := pack_ok (pollFrame 3 7) NETWORK_POLL rfl
  obtain ⟨pk', hpk'⟩ := pack_ok (pollReply 3 7 0) NETWORK_POLL rfl
  obtain ⟨s', _, _, e, _, _, _, _, _, _, _, bx, _, _, _, fm, fx, _⟩ := C17_leg_poll_closed joinEx Example.L Example.P0 PX
    0 1 3 7 [195, 204, 204, 204, 204] [204, 62, 204, 204, 204] pk pk' rfl (by decide) (by decide) (by decide) rfl rfl
    rfl rfl (by decide) (by decide) (by decide) joinEx_radio0 joinEx_radio1 rfl rfl
    (by intro pid; rw [show (joinEx.radioAt 0).lastRx = none from rfl]; intro h; cases h)
    (by intro pid; rw [show (joinEx.radioAt 1).lastRx = none from rfl]; intro h; cases h)
    rfl rfl rfl rfl rfl rfl rfl rfl pa0 rfl rfl rfl rfl rfl rfl pa4444 (by decide) (by decide) hpk hpk'
  exact ⟨s', e, by rw [bx], fm, fx⟩

end Nrf.Props.C17

/-! ## frames 1–4 composed, and `_request_address(0)` with the two open legs as hypotheses

Full statement still open as one theorem (`C17_join_direct_closed`): `meshRenew timeout` returns `some a`
with the master's table `Mesh.setAddress t i a` and the joiner's address attributes `beginAddr a`, both
listening.  No lower bound on `timeout` is needed: `renew_address` tries `_request_address(0)` before it
looks at the clock, and in the loss-free two-node system that first attempt succeeds.  Proved below:
frames 1–4 with the model's literal fuels (`C17_join_frames_1_4_closed`), and the control flow of
`_request_address(0)` down to `return True` given the two remaining legs as hypotheses
(`C17_request_loop_direct_closed_partial` from the state after `_make_contact`,
`C17_join_direct_closed_partial` from the state before `_request_address(0)`): (b) `_begin(a)` on the
radio — total, address attribute `a`, ID kept (C07Begin's `n_begin` / `C07_begin` give totality and the
register effect; what is missing is re-establishing `NodeRadio` for the new six addresses); (c) the
acknowledged double-check `lookup_node_id(a)` (frames 5–6: `nodeWrite_hop_plain` + `C17_lookup_master` +
`read_nested2c` + `netUpdate_sys`) returning the ID.

**The two hypotheses speak about the one state the run produces.**  (As first stated they quantified
over every state satisfying `AfterRequest`, which leaves the radios' `lastRx`, the clocks, `busyUntil`
and `nextId` free; with the joiner's `lastRx` set to the master's future type-198 reply the lookup
returns −1 — ESB duplicate —, so the two hypotheses were jointly unsatisfiable and the theorem vacuous:
docs/REVIEW.md.)  `AfterRequest` now also records both radios' `lastRx` (the master's radio last accepted the
address REQUEST, the joiner's the address RESPONSE), but it still leaves clocks, `busyUntil`, `nextId` free,
so the legs are not stated about "every state satisfying `AfterRequest`".  Now `Hb` is about the state `s3` that *this* run's `_make_contact`, request write and
`_net_update()` end in — `s2`, `sW`, `s3` are determined by `s`, the model being a function — and `Hc`
about the states satisfying `P4`, which the user of the theorem chooses (`P4 := (· = the state _begin
ends in)` makes it one state).  Each theorem is followed by a **full instance on `joinEx`**: both
hypotheses discharged by evaluating the model — for the request loop by the kernel (`decide +kernel`
on the 4 + 2 frames), for `_request_address(0)` by compiled evaluation (`#guard`; the kernel needs more
than five minutes for the 5494 idle polls of the 55 ms window and then gives up).

Also open: `renew_address`'s preamble (`available()` on the idle radio — one NOP transaction, same
argument as `C17_idle_read_clock`) and the first iteration of `renewLoop` (evaluated: `#guard` below).
-/

namespace Nrf.Props.C17
open Nrf Nrf.Net Nrf.Spec Nrf.Proofs Nrf.Net.Join

/-- **C17, closed system: frames 1–4 of a direct join, composed** (two nodes, loss-free, the model's
    own fuel `F` in every loop).  From the state before `_request_address(0)` — joiner `x` (ID `i`,
    unassigned, listening), master `m` (table `t`, `_do_dhcp` clear, listening), both RX FIFOs empty,
    `_dhcp`'s candidate loop finding `a` —: `_make_contact(0)` returns `[0]`; then, with the address
    request in `frame_buf`, `_write(0, TX_PHYSICAL)` returns `True` and the next `_net_update()` returns
    **128**; afterwards (`AfterRequest`) the joiner's `frame_buf` is the response offering `a`, **the
    master's table is `Mesh.setAddress t i a`** with `_do_dhcp` clear, nothing else of either node
    object changed, both nodes listen with empty RX FIFOs, the fault script is empty.  The poll leg's
    final state satisfies the request leg's preconditions because the four packets differ pairwise
    where it matters (`pack_ne`): neither radio takes the next packet for a repetition of the last. -/
theorem C17_join_frames_1_4_closed (s : NetState) (L : LinkCfg) (Pm Px : List Bytes) (m x fid r i a : Nat)
    (Am Ax pk pk' pq pq' : Bytes)
    (hlen : s.nodes.length = 2) (hm : m < 2) (hx : x < 2) (hmx : m ≠ x)
    (hcur : s.cur = x) (hact : s.active = [x]) (hclosed : s.closed = true) (hfaults : s.w.faults = [])
    (hridm : s.ridAt m < s.w.radios.length) (hridx : s.ridAt x < s.w.radios.length)
    (hridne : s.ridAt m ≠ s.ridAt x)
    (hNm : NodeRadio L Pm true true 0x3E (s.nodeAt m).rf (s.radioAt m))
    (hNx : NodeRadio L Px true true 0x3E (s.nodeAt x).rf (s.radioAt x))
    (hfm : (s.radioAt m).rxFifo = []) (hfx : (s.radioAt x).rxFifo = [])
    (hdupm : ∀ pid, (s.radioAt m).lastRx ≠ some { pid := pid, addr := Am, data := pk })
    (hdupx : ∀ pid, (s.radioAt x).lastRx ≠ some { pid := pid, addr := Ax, data := pk' })
    (harrm : (s.nodeAt m).arrivals = []) (harrx : (s.nodeAt x).arrivals = [])
    (hAm : Pm[0]? = some Am) (hAx : Px[0]? = some Ax)
    (hxfid : (s.nodeAt x).frameBuf.header.frameId = fid) (hxres : (s.nodeAt x).frameBuf.header.reserved = r)
    (hxid : (s.nodeAt x).nodeId = i)
    (hxaddr : (s.nodeAt x).a.addr = NETWORK_DEFAULT_ADDR)
    (hxret : (s.nodeAt x).retSysMsg = true) (hxcfg : pipeAddress (s.nodeAt x).cfg 0 0 = .ok Am)
    (hkind : (s.nodeAt m).kind = .meshMaster) (hid : (s.nodeAt m).nodeId = 0) (hmaddr : (s.nodeAt m).a.addr = 0)
    (hmret : (s.nodeAt m).retSysMsg = true)
    (hmmc : (s.nodeAt m).cfg.allowMulticast = true) (hmpar : (s.nodeAt m).parenthood = true)
    (hdo : (s.nodeAt m).doDhcp = false)
    (hmcfg : pipeAddress (s.nodeAt m).cfg NETWORK_DEFAULT_ADDR 0 = .ok Ax)
    (hfind : dhcpFind (s.nodeAt m).dhcp i 0 0 (Mesh.MESH_MAX_CHILDREN + 1) = some a) (ha : a < 65536)
    (hr : r ≤ 255) (hfid : fid < 65536) (hi0 : i ≠ 0) (hi : i ≤ 255)
    (hpk : (pollFrame fid r).pack = .ok pk) (hpk' : (pollReply fid r 0).pack = .ok pk')
    (hpq : (reqFrame fid i 0).pack = .ok pq) (hpq' : (respFrame fid i a).pack = .ok pq') :
    ∃ s2 sW s3 : NetState,
      Nrf.Net.nexec (makeContact 0) s = (.ok [0], s2) ∧ s2.cur = x ∧ s2.nodes.length = 2 ∧
      (s2.nodeAt x).body = { (s.nodeAt x).body with frameBuf := pollReply fid r 0 } ∧
      Nrf.Net.nexec (nodeWrite F 0 TX_PHYSICAL) (s2.withFrame (reqFrame fid i 0)) = (.ok true, sW) ∧
      Nrf.Net.nexec (netUpdate F 0) sW = (.ok MESH_ADDR_RESPONSE, s3) ∧
      AfterRequest s L Pm Px m x fid i a s3 :=
  frames_1_4 s L Pm Px m x fid r i a Am Ax pk pk' pq pq'
    hlen hm hx hmx hcur hact hclosed hfaults hridm hridx hridne hNm hNx hfm hfx hdupm hdupx harrm harrx hAm hAx
    hxfid hxres hxid hxaddr hxret hxcfg hkind hid hmaddr hmret hmmc hmpar hdo hmcfg hfind ha hr hfid hi0 hi
    hpk hpk' hpq hpq'

/-- the hypotheses are satisfiable: `joinEx` (master with an empty table, joiner ID 7): frames 1–4
    run and the master leases 0o5 — the real code: `net 2 1 new m master 0 0 ; new x mesh 1 7 ; x renew 1500` -/
example : ∃ s2 s3 : NetState, Nrf.Net.nexec (makeContact 0) joinEx = (.ok [0], s2) ∧
    (s3.nodeAt 0).body.dhcp = [(7, 5)] ∧ (s3.nodeAt 1).body.frameBuf = respFrame 3 7 5 := by
  obtain ⟨pk, hpk⟩ := pack_ok (pollFrame 3 7) NETWORK_POLL rfl
  obtain ⟨pk', hpk'⟩ := pack_ok (pollReply 3 7 0) NETWORK_POLL rfl
  obtain ⟨pq, hpq⟩ := pack_ok (reqFrame 3 7 0) MESH_ADDR_REQUEST rfl
  obtain ⟨pq', hpq'⟩ := pack_ok (respFrame 3 7 5) MESH_ADDR_RESPONSE rfl
  obtain ⟨s2, _, s3, e, _, _, _, _, _, h⟩ := C17_join_frames_1_4_closed joinEx Example.L Example.P0 PX
    0 1 3 7 7 5 [195, 204, 204, 204, 204] [204, 62, 204, 204, 204] pk pk' pq pq' rfl (by decide) (by decide) (by decide)
    rfl rfl rfl rfl (by decide) (by decide) (by decide) joinEx_radio0 joinEx_radio1 rfl rfl
    (by intro pid; rw [show (joinEx.radioAt 0).lastRx = none from rfl]; intro h; cases h)
    (by intro pid; rw [show (joinEx.radioAt 1).lastRx = none from rfl]; intro h; cases h)
    rfl rfl rfl rfl rfl rfl rfl rfl rfl pa0 rfl rfl rfl rfl rfl rfl rfl pa4444 (by decide) (by decide) (by decide)
    (by decide) (by decide) (by decide) hpk hpk' hpq hpq'
  refine ⟨s2, s3, e, ?_, ?_⟩
  · rw [h.master]; rfl
  · rw [h.joiner]

/-- **C17, closed system: the contact loop of `_request_address` for the single contact 0, partial**
    (`requestLoop [0] none`, i.e. `_request_address` after `_make_contact` returned `[0]`; two nodes,
    loss-free).  From a state `s` as the poll leg leaves it (joiner `x`, ID `i`, unassigned, listening,
    any `frame_buf` whose header id is `fid`; master `m` with `_dhcp`'s candidate loop finding `a`; both
    RX FIFOs empty; neither radio having just received the very packet about to be sent): frames 3–4
    are proved (`C17_leg_request_closed`), the control flow of `requestLoop` / `responseWait` with their
    literal fuels is proved (the response is accepted: type 128, own ID, the offered address lies
    below contact 0), and **the two unproved legs are hypotheses about the state this run produces**:

    * `Hb` — for the states `sW`, `s3` that the request write and the next `_net_update()` *of this
      run* end in (determined by `s`; `AfterRequest` is what is proved about `s3`): `_begin(a)` ends
      normally with address attribute `a`, the ID kept, in a state satisfying `P4`;
    * `Hc` — from a state satisfying `P4` the double-check `lookup_node_id(a)` returns the ID, in a
      state satisfying `P5`.

    Then the loop returns `True` in a state satisfying `P5`.  Both hypotheses are true of the model on
    `joinEx` — the instance below proves them by kernel evaluation. -/
theorem C17_request_loop_direct_closed_partial (s : NetState) (L : LinkCfg) (Pm Px : List Bytes)
    (m x fid i a : Nat) (Am Ax pq pq' : Bytes) (P4 P5 : NetState → Prop)
    (hlen : s.nodes.length = 2) (hm : m < 2) (hx : x < 2) (hmx : m ≠ x)
    (hcur : s.cur = x) (hact : s.active = [x]) (hclosed : s.closed = true) (hfaults : s.w.faults = [])
    (hridm : s.ridAt m < s.w.radios.length) (hridx : s.ridAt x < s.w.radios.length)
    (hridne : s.ridAt m ≠ s.ridAt x)
    (hNm : NodeRadio L Pm true true 0x3E (s.nodeAt m).rf (s.radioAt m))
    (hNx : NodeRadio L Px true true 0x3E (s.nodeAt x).rf (s.radioAt x))
    (hfm : (s.radioAt m).rxFifo = []) (hfx : (s.radioAt x).rxFifo = [])
    (hdupm : ∀ pid, (s.radioAt m).lastRx ≠ some { pid := pid, addr := Am, data := pq })
    (hdupx : ∀ pid, (s.radioAt x).lastRx ≠ some { pid := pid, addr := Ax, data := pq' })
    (harrm : (s.nodeAt m).arrivals = []) (harrx : (s.nodeAt x).arrivals = [])
    (hAm : Pm[0]? = some Am) (hAx : Px[0]? = some Ax)
    (hxfid : (s.nodeAt x).frameBuf.header.frameId = fid) (hxid : (s.nodeAt x).nodeId = i)
    (hxaddr : (s.nodeAt x).a.addr = NETWORK_DEFAULT_ADDR)
    (hxret : (s.nodeAt x).retSysMsg = true) (hxcfg : pipeAddress (s.nodeAt x).cfg 0 0 = .ok Am)
    (hkind : (s.nodeAt m).kind = .meshMaster) (hid : (s.nodeAt m).nodeId = 0) (hmaddr : (s.nodeAt m).a.addr = 0)
    (hmret : (s.nodeAt m).retSysMsg = true) (hdo : (s.nodeAt m).doDhcp = false)
    (hmcfg : pipeAddress (s.nodeAt m).cfg NETWORK_DEFAULT_ADDR 0 = .ok Ax)
    (hfind : dhcpFind (s.nodeAt m).dhcp i 0 0 (Mesh.MESH_MAX_CHILDREN + 1) = some a) (ha : a < 65536)
    (hi0 : i ≠ 0) (hi : i ≤ 255) (hfid : fid < 65536)
    (hpq : (reqFrame fid i 0).pack = .ok pq) (hpq' : (respFrame fid i a).pack = .ok pq')
    (Hb : ∀ sW s3, Nrf.Net.nexec (nodeWrite F 0 TX_PHYSICAL) (s.withFrame (reqFrame fid i 0)) = (.ok true, sW) →
      Nrf.Net.nexec (netUpdate F 0) sW = (.ok MESH_ADDR_RESPONSE, s3) → AfterRequest s L Pm Px m x fid i a s3 →
      ∃ s4, Nrf.Net.nexec (begin a) s3 = (.ok (), s4) ∧ s4.node.a.addr = a ∧ s4.node.nodeId = i ∧ P4 s4)
    (Hc : ∀ s4, P4 s4 →
      ∃ s5, Nrf.Net.nexec (meshLookupNodeId (some (a : Int))) s4 = (.ok (i : Int), s5) ∧ P5 s5) :
    ∃ s5, Nrf.Net.nexec (requestLoop [0] none) s = (.ok true, s5) ∧ P5 s5 :=
  request_loop_partial s L Pm Px m x fid i a Am Ax pq pq' P4 P5
    hlen hm hx hmx hcur hact hclosed hfaults hridm hridx hridne hNm hNx hfm hfx hdupm hdupx harrm harrx hAm hAx
    hxfid hxid hxaddr hxret hxcfg hkind hid hmaddr hmret hdo hmcfg hfind ha hi0 hi hfid hpq hpq' Hb Hc

/-- the states of this run on `joinEx` (joiner ID 7 inside `_request_address`, master with an empty
    table): after the request write, after the `_net_update()` that returns 128, after `_begin(0o5)`,
    after the double-check lookup -/
def exW : NetState := (Nrf.Net.nexec (nodeWrite F 0 TX_PHYSICAL) (joinEx.withFrame (reqFrame 3 7 0))).2
def ex3 : NetState := (Nrf.Net.nexec (netUpdate F 0) exW).2
def ex4 : NetState := (Nrf.Net.nexec (begin 5) ex3).2
def ex5 : NetState := (Nrf.Net.nexec (meshLookupNodeId (some ((5 : Nat) : Int))) ex4).2

/-- **full instance on `joinEx`** — every hypothesis of `C17_request_loop_direct_closed_partial`,
    **both legs included**, holds there: `Hb` and `Hc` are proved by evaluating the model in the kernel
    (`_begin(0o5)` on the state frames 3–4 end in returns normally with address 0o5 and ID 7; the
    double-check `lookup_node_id(0o5)` from there returns 7 — the master's `update()` runs nested in
    the joiner's `read()` and answers from its table `[(7, 0o5)]`).  Hence `requestLoop [0] none`
    returns `True` on `joinEx`, ending in `ex5`.  This example does not compile if either hypothesis
    is unsatisfiable. -/
example : ∃ s5, Nrf.Net.nexec (requestLoop [0] none) joinEx = (.ok true, s5) ∧ s5 = ex5 := by
  obtain ⟨pq, hpq⟩ := pack_ok (reqFrame 3 7 0) MESH_ADDR_REQUEST rfl
  obtain ⟨pq', hpq'⟩ := pack_ok (respFrame 3 7 5) MESH_ADDR_RESPONSE rfl
  refine C17_request_loop_direct_closed_partial joinEx Example.L Example.P0 PX 0 1 3 7 5
    [195, 204, 204, 204, 204] [204, 62, 204, 204, 204] pq pq' (· = ex4) (· = ex5)
    rfl (by decide) (by decide) (by decide) rfl rfl rfl rfl
    (by decide) (by decide) (by decide) joinEx_radio0 joinEx_radio1 rfl rfl
    (by intro pid; rw [show (joinEx.radioAt 0).lastRx = none from rfl]; intro h; cases h)
    (by intro pid; rw [show (joinEx.radioAt 1).lastRx = none from rfl]; intro h; cases h)
    rfl rfl rfl rfl rfl rfl rfl rfl pa0 rfl rfl rfl rfl rfl pa4444 (by decide) (by decide) (by decide) (by decide)
    (by decide) hpq hpq' ?_ ?_
  · -- `Hb` on the run's own state
    intro sW s3 eW eN _
    have hW : sW = exW := (congrArg Prod.snd eW).symm
    subst hW
    have h3 : s3 = ex3 := (congrArg Prod.snd eN).symm
    subst h3
    exact ⟨ex4, Prod.ext (isOkUnit_eq (by decide +kernel)) rfl, by decide +kernel, by decide +kernel, rfl⟩
  · -- `Hc` on the state `_begin` ended in
    intro s4 h4
    subst h4
    exact ⟨ex5, Prod.ext (isOkInt_eq (by decide +kernel)) rfl, rfl⟩

/-- **C17, closed system: `_request_address(0)` of a direct join, partial** — frames 1–4 proved
    (`C17_join_frames_1_4_closed`), the control flow of `_request_address` / `requestLoop` /
    `responseWait` with their literal fuels proved, and **exactly the two unproved legs as hypotheses
    about the state this run produces**: `Hb` — for the states `s2`, `sW`, `s3` that `_make_contact(0)`,
    the request write and the next `_net_update()` *of this run* end in (all determined by `s`;
    `AfterRequest` is what is proved about `s3`), `_begin(a)` ends normally with address attribute
    `a`, the ID kept, establishing `P4`; `Hc` — the double-check `lookup_node_id(a)` from a state
    satisfying `P4` returns the ID, establishing `P5`.  Then `_request_address(0)` returns `True` in a
    state satisfying `P5` (so `renew_address` returns the address without looking at its timeout).
    Two nodes, loss-free, the closed `runOthers` schedule. -/
theorem C17_join_direct_closed_partial (s : NetState) (L : LinkCfg) (Pm Px : List Bytes) (m x fid r i a : Nat)
    (Am Ax pk pk' pq pq' : Bytes) (P4 P5 : NetState → Prop)
    (hlen : s.nodes.length = 2) (hm : m < 2) (hx : x < 2) (hmx : m ≠ x)
    (hcur : s.cur = x) (hact : s.active = [x]) (hclosed : s.closed = true) (hfaults : s.w.faults = [])
    (hridm : s.ridAt m < s.w.radios.length) (hridx : s.ridAt x < s.w.radios.length)
    (hridne : s.ridAt m ≠ s.ridAt x)
    (hNm : NodeRadio L Pm true true 0x3E (s.nodeAt m).rf (s.radioAt m))
    (hNx : NodeRadio L Px true true 0x3E (s.nodeAt x).rf (s.radioAt x))
    (hfm : (s.radioAt m).rxFifo = []) (hfx : (s.radioAt x).rxFifo = [])
    (hdupm : ∀ pid, (s.radioAt m).lastRx ≠ some { pid := pid, addr := Am, data := pk })
    (hdupx : ∀ pid, (s.radioAt x).lastRx ≠ some { pid := pid, addr := Ax, data := pk' })
    (harrm : (s.nodeAt m).arrivals = []) (harrx : (s.nodeAt x).arrivals = [])
    (hAm : Pm[0]? = some Am) (hAx : Px[0]? = some Ax)
    (hxfid : (s.nodeAt x).frameBuf.header.frameId = fid) (hxres : (s.nodeAt x).frameBuf.header.reserved = r)
    (hxid : (s.nodeAt x).nodeId = i)
    (hxaddr : (s.nodeAt x).a.addr = NETWORK_DEFAULT_ADDR)
    (hxret : (s.nodeAt x).retSysMsg = true) (hxcfg : pipeAddress (s.nodeAt x).cfg 0 0 = .ok Am)
    (hkind : (s.nodeAt m).kind = .meshMaster) (hid : (s.nodeAt m).nodeId = 0) (hmaddr : (s.nodeAt m).a.addr = 0)
    (hmret : (s.nodeAt m).retSysMsg = true)
    (hmmc : (s.nodeAt m).cfg.allowMulticast = true) (hmpar : (s.nodeAt m).parenthood = true)
    (hdo : (s.nodeAt m).doDhcp = false)
    (hmcfg : pipeAddress (s.nodeAt m).cfg NETWORK_DEFAULT_ADDR 0 = .ok Ax)
    (hfind : dhcpFind (s.nodeAt m).dhcp i 0 0 (Mesh.MESH_MAX_CHILDREN + 1) = some a) (ha : a < 65536)
    (hr : r ≤ 255) (hfid : fid < 65536) (hi0 : i ≠ 0) (hi : i ≤ 255)
    (hpk : (pollFrame fid r).pack = .ok pk) (hpk' : (pollReply fid r 0).pack = .ok pk')
    (hpq : (reqFrame fid i 0).pack = .ok pq) (hpq' : (respFrame fid i a).pack = .ok pq')
    (Hb : ∀ s2 sW s3, Nrf.Net.nexec (makeContact 0) s = (.ok [0], s2) →
      Nrf.Net.nexec (nodeWrite F 0 TX_PHYSICAL) (s2.withFrame (reqFrame fid i 0)) = (.ok true, sW) →
      Nrf.Net.nexec (netUpdate F 0) sW = (.ok MESH_ADDR_RESPONSE, s3) → AfterRequest s L Pm Px m x fid i a s3 →
      ∃ s4, Nrf.Net.nexec (begin a) s3 = (.ok (), s4) ∧ s4.node.a.addr = a ∧ s4.node.nodeId = i ∧ P4 s4)
    (Hc : ∀ s4, P4 s4 →
      ∃ s5, Nrf.Net.nexec (meshLookupNodeId (some (a : Int))) s4 = (.ok (i : Int), s5) ∧ P5 s5) :
    ∃ s5, Nrf.Net.nexec (requestAddress 0) s = (.ok true, s5) ∧ P5 s5 :=
  request_address_partial s L Pm Px m x fid r i a Am Ax pk pk' pq pq' P4 P5
    hlen hm hx hmx hcur hact hclosed hfaults hridm hridx hridne hNm hNx hfm hfx hdupm hdupx harrm harrx hAm hAx
    hxfid hxres hxid hxaddr hxret hxcfg hkind hid hmaddr hmret hmmc hmpar hdo hmcfg hfind ha hr hfid hi0 hi
    hpk hpk' hpq hpq' Hb Hc

/-- the states of the whole `_request_address(0)` run on `joinEx`: after `_make_contact(0)` (frames 1–2
    and the 55 ms window: 5494 idle polls), after the request write, after the `_net_update()` that
    returns 128, after `_begin(0o5)` -/
def run2 : NetState := (Nrf.Net.nexec (makeContact 0) joinEx).2
def runW : NetState := (Nrf.Net.nexec (nodeWrite F 0 TX_PHYSICAL) (run2.withFrame (reqFrame 3 7 0))).2
def run3 : NetState := (Nrf.Net.nexec (netUpdate F 0) runW).2
def run4 : NetState := (Nrf.Net.nexec (begin 5) run3).2

/-- **the instance on `joinEx`, part 1 (a proof)**: every hypothesis other than the two legs holds on
    `joinEx`, and the premises of `Hb` are reached there.  The model being a function, the `s2`, `sW`,
    `s3` they name can only be `run2`, `runW`, `run3` (by definition the second components of these
    very `nexec …` terms; the equations are not restated in Lean because the kernel evaluates the 55 ms
    window when asked to compare them — > 5 min). -/
example : ∃ s2 sW s3 : NetState, Nrf.Net.nexec (makeContact 0) joinEx = (.ok [0], s2) ∧
    Nrf.Net.nexec (nodeWrite F 0 TX_PHYSICAL) (s2.withFrame (reqFrame 3 7 0)) = (.ok true, sW) ∧
    Nrf.Net.nexec (netUpdate F 0) sW = (.ok MESH_ADDR_RESPONSE, s3) ∧
    AfterRequest joinEx Example.L Example.P0 PX 0 1 3 7 5 s3 := by
  obtain ⟨pk, hpk⟩ := pack_ok (pollFrame 3 7) NETWORK_POLL rfl
  obtain ⟨pk', hpk'⟩ := pack_ok (pollReply 3 7 0) NETWORK_POLL rfl
  obtain ⟨pq, hpq⟩ := pack_ok (reqFrame 3 7 0) MESH_ADDR_REQUEST rfl
  obtain ⟨pq', hpq'⟩ := pack_ok (respFrame 3 7 5) MESH_ADDR_RESPONSE rfl
  obtain ⟨s2, sW, s3, eP, _, _, _, eW, eN, h⟩ := C17_join_frames_1_4_closed joinEx Example.L Example.P0 PX
    0 1 3 7 7 5 [195, 204, 204, 204, 204] [204, 62, 204, 204, 204] pk pk' pq pq' rfl (by decide) (by decide) (by decide)
    rfl rfl rfl rfl (by decide) (by decide) (by decide) joinEx_radio0 joinEx_radio1 rfl rfl
    (by intro pid; rw [show (joinEx.radioAt 0).lastRx = none from rfl]; intro h; cases h)
    (by intro pid; rw [show (joinEx.radioAt 1).lastRx = none from rfl]; intro h; cases h)
    rfl rfl rfl rfl rfl rfl rfl rfl rfl pa0 rfl rfl rfl rfl rfl rfl rfl pa4444 (by decide) (by decide) (by decide)
    (by decide) (by decide) (by decide) hpk hpk' hpq hpq'
  exact ⟨s2, sW, s3, eP, eW, eN, h⟩

/-! **the instance on `joinEx`, part 2 (evaluation)**: the conclusions of `Hb` and `Hc` on exactly these
states, with `P4 := (· = run4)`, checked by compiled evaluation of the model — a `#guard` that
evaluates to `false` is a compile error, so this file does not build if either leg fails on the run's
own state.  (Not a kernel proof: the kernel needs > 5 min for the 5494 idle polls behind `run2`; the
kernel-checked instance is the one of `C17_request_loop_direct_closed_partial` above.)  In order:
`Hb` — `_begin(0o5)` on `run3` is `.ok ()`, address attribute 0o5, ID 7; `Hc` — `lookup_node_id(0o5)`
on `run4` is `.ok 7`; the theorem's conclusion — `_request_address(0)` on `joinEx` is `.ok true`; and
the full call — `renew_address(1500)` on `joinEx` is `.ok (some 0o5)` with the master's table
`[(7, 0o5)]`. -/
#guard isOkUnit (Nrf.Net.nexec (begin 5) run3).1 && run4.node.a.addr == 5 && run4.node.nodeId == 7
#guard isOkInt 7 (Nrf.Net.nexec (meshLookupNodeId (some ((5 : Nat) : Int))) run4).1
#guard (match (Nrf.Net.nexec (requestAddress 0) joinEx).1 with | .ok true => true | _ => false)
#guard (match Nrf.Net.nexec (meshRenew 1500) joinEx with
  | (.ok (some 5), s') => (s'.nodeAt 0).dhcp == [(7, 5)] && s'.node.a.addr == 5 | _ => false)

end Nrf.Props.C17

/-! ## lookups and `check_connection()` of a connected node, end to end in the closed system

Two nodes, loss-free, the closed `runOthers` system (ONE deterministic schedule: the master runs `update()`
to completion at the asker's next `read()`): the master `m` and a mesh node `x` connected at a child
address `ax` of the master.  `Conn L Pm Px m x px ax Am Ax s` (NrfProofs/C17Lookup3.lean) is the state of
that system between two API calls of `x`: `x` on the call stack and nobody else, both radios listening on
their own six addresses (`NodeRadio … true true 0x3E`) with empty RX FIFOs, no scripted arrivals, no
scripted fault, no third radio in receive mode, `x` with a non-zero ID, `ret_sys_msg` set and address
`ax` (valid, ≠ 0, ≠ 0o4444, reaching the master through pipe `px` of the master), the master of class
RF24Mesh with ID 0, address 0, `_do_dhcp` clear, a table whose entries fit 16 signed bits, reaching `ax`
through pipe 5 of `x`; `nextId < 65536`.  Every theorem below **re-establishes `Conn`** (so calls can be
chained) and states that the master's node object changed in `frame_buf` only.

The exchange (model and real code: `net 2 1 new m master 0 0 ; new x mesh 1 7 ; x renew 1500 ;
x lookup_address 7`): `x` `_write(0, TX_NORMAL)` — one hop, acknowledged at link level, to the master's
pipe `px`; the master's `update()` turns the frame around with the signed 16-bit table answer and
`_write(ax, TX_NORMAL)` — one acknowledged hop to pipe 5 of `x`; the first `_net_update()` of `x`'s waiting
loop returns 196 / 198; the decoder returns the table's answer.

Hypotheses `hdupm` / `hdupx` are the radio-level non-duplicate conditions: the last packet each radio
accepted is not byte-identical with the one about to arrive (defect f088c9e was exactly that; with the
per-call frame id two consecutive lookups differ — `lastRx` after the call is exported for chaining).
-/

namespace Nrf.Props.C17
open Nrf Nrf.Net Nrf.Spec Nrf.Proofs Nrf.Net.Join

/-- **C17, closed system: the master answers a lookup frame it has received** (any number of nodes, all
    others on the call stack).  The master — RF24Mesh, ID 0, address 0, `_do_dhcp` clear, listening, a
    table that fits 16 signed bits — finds a lookup frame (type 196 with ≥ 1 byte / 198 with ≥ 2 bytes,
    from address `ax ≠ 0`) as the only payload in its RX FIFO.  `update()` returns the lookup type; the
    answer (the frame turned around, body = `replyBytes` of the table's answer `lookVal`) has been
    transmitted in one acknowledged hop to pipe 5 of the asker `x`, whose radio has stored it (and no
    other radio changed); **the master's node object is `answered …`: only `frame_buf` (and the radio
    object) differ — table, `_do_dhcp`, ID, address untouched**; the master listens again, RX FIFO
    empty. -/
theorem C17_master_lookup_closed (f : Nat) (sm : NetState) (L : LinkCfg) (Pm Px : List Bytes) (x p fid ax ty : Nat)
    (body Ax pk pk' : Bytes)
    (hcur : sm.cur < sm.nodes.length) (hclosed : sm.closed = true)
    (hfuel : sm.nodes.length + 2 ≤ f) (hquiet : Quiet sm) (hWf : sm.drv.Wf)
    (hN : NodeRadio L Pm true true 0x3E sm.node.rf sm.drv.radio)
    (hrid : ∀ k, k < sm.nodes.length → k ≠ sm.cur → sm.ridAt k ≠ sm.ridAt sm.cur)
    (harr : sm.node.arrivals = []) (hfifo : sm.drv.radio.rxFifo = [{ pipe := p, data := pk }]) (hp : p ≤ 5)
    (hfaults : sm.w.faults = [])
    (hx : x < sm.nodes.length) (hxc : x ≠ sm.cur)
    (hNx : NodeRadio L Px true true 0x3E (sm.nodeAt x).rf (sm.radioAt x))
    (hroom : (sm.radioAt x).rxFifo.length < 3)
    (hdupx : ∀ pid, (sm.radioAt x).lastRx ≠ some { pid := pid, addr := Ax, data := pk' })
    (hothers : ∀ i, i ≠ sm.ridAt sm.cur → i ≠ sm.ridAt x → (sm.w.radio i).rxMode = false)
    (hpk : (lookFrame fid ax ty body).pack = .ok pk)
    (hty : ty = MESH_ADDR_LOOKUP ∨ ty = MESH_ID_LOOKUP)
    (hlong : Mesh.lookupLongEnough ty body = true) (hbody : body.length ≤ MAX_FRAG_SIZE)
    (hax : ax < 4096) (hfid : fid < 65536) (haxv : isValid ax = true) (hax0 : ax ≠ 0)
    (hkind : sm.node.kind = .meshMaster) (hid : sm.node.nodeId = 0) (haddr0 : sm.node.a.addr = 0)
    (hret : sm.node.retSysMsg = true) (hdo : sm.node.doDhcp = false)
    (hsmall : Nrf.Proofs.MeshK.TableSmall sm.node.dhcp)
    (hl2p : logi2phys sm.node.a ax TX_NORMAL = (ax, 5, false))
    (hA : pipeAddress sm.node.cfg ax 5 = .ok Ax) (hAx : Px[5]? = some Ax)
    (hlt : ∀ q, q < 5 → Px[q]? ≠ some Ax)
    (hpk' : (lookReply fid ax ty (MeshProtocol.replyBytes (lookVal sm.node fid ax ty body))).pack = .ok pk') :
    ∃ D1 D2 : DrvState,
      Nrf.Net.nexec (nodeUpdate (f + 4)) sm =
        (.ok ty, ((sm.afterRf D1).putNode (answered sm.node D1.d fid ax ty body)).afterRf D2) ∧
      (answered sm.node D1.d fid ax ty body).dhcp = sm.node.dhcp ∧
      (answered sm.node D1.d fid ax ty body).doDhcp = sm.node.doDhcp ∧
      MeshProtocol.replyValue (answered sm.node D1.d fid ax ty body).frameBuf.message = lookVal sm.node fid ax ty body ∧
      DrvFrame sm.drv D1 ∧ D1.radio.rxFifo = [] ∧
      D2.d.rid = sm.node.rf.rid ∧ D2.w.radios.length = sm.w.radios.length ∧ D2.w.faults = [] ∧
      NodeRadio L Pm true true 0x3E D2.d D2.radio ∧ D2.radio.rxFifo = [] ∧
      D2.radio.lastRx = sm.drv.radio.lastRx ∧
      (∃ pid, D2.w.radio (sm.ridAt x) =
        { (sm.radioAt x) with rxFifo := (sm.radioAt x).rxFifo ++ [{ pipe := 5, data := pk' }],
                              flags := (sm.radioAt x).flags ||| 0x40, rpd := true,
                              lastRx := some { pid := pid, addr := Ax, data := pk' }, lastAck := none }) ∧
      (∀ i, i ≠ sm.ridAt sm.cur → i ≠ sm.ridAt x → D2.w.radio i = sm.w.radio i) := by
  obtain ⟨D1, D2, h1, h2, h3, h4, h5, h6, h7, h8, h9, h10, h11⟩ := master_lookup f sm L Pm Px x p fid ax ty body Ax pk pk'
    hcur hclosed hfuel hquiet hWf hN hrid harr hfifo hp hfaults hx hxc hNx hroom hdupx hothers hpk hty hlong hbody
    hax hfid haxv hax0 hkind hid haddr0 hret hdo hsmall hl2p hA hAx hlt hpk'
  exact ⟨D1, D2, h1, rfl, rfl, Nrf.Proofs.MeshK.replyValue_replyBytes (lookVal_range _ _ _ _ _ hsmall),
    h2, h3, h4, h5, h6, h7, h8, h9, h10, h11⟩

/-- what `lookVal` is: the table's answer as `C17_lookup_master`'s `lookupAnswer` defines it; for
    `lookup_address(id)` / `lookup_node_id(a)` bodies on a master holding address 0 it is the spec's
    `tableAddress` / `tableNodeId` -/
example (n : Node) (fid ax id a : Nat) (h0 : n.a.addr = 0) (hid : id ≠ 0) (ha : a ≠ 0) :
    lookVal n fid ax MESH_ADDR_LOOKUP [id] = MeshProtocol.tableAddress n.dhcp id ∧
    lookVal n fid ax MESH_ID_LOOKUP [a % 256, a / 256] = MeshProtocol.tableNodeId n.dhcp a :=
  ⟨lookVal_addr n fid ax id h0 hid, lookVal_id n fid ax a h0 ha⟩

/-- **C17, closed system: `lookup_address(id)` of a connected node, end to end** (two nodes, loss-free,
    ONE schedule).  For `0 < id < 256`, from a state satisfying `Conn` and the two non-duplicate
    conditions: the call returns **exactly the master's current mapping** `tableAddress t id` — the
    leased address, or `-2` when the table has no entry for `id` —; afterwards `Conn` holds again and
    **the master's node object differs in `frame_buf` only** (asking never disturbs the master: table,
    `_do_dhcp`, ID, address, queue unchanged); `x`'s node object differs in `frame_buf` only; one header
    id was consumed; each radio's last accepted packet is the frame it received (for chaining). -/
theorem C17_lookup_address_closed (s : NetState) (L : LinkCfg) (Pm Px : List Bytes) (m x px ax : Nat) (Am Ax : Bytes)
    (id : Nat) (C : Conn L Pm Px m x px ax Am Ax s) (hid0 : id ≠ 0) (hid : id < 256)
    (hdupm : ∀ pid d, (s.radioAt m).lastRx = some { pid := pid, addr := Am, data := d } →
      (lookFrame s.nextId ax MESH_ADDR_LOOKUP [id]).pack ≠ .ok d)
    (hdupx : ∀ pid d, (s.radioAt x).lastRx = some { pid := pid, addr := Ax, data := d } →
      (lookReply s.nextId ax MESH_ADDR_LOOKUP
        (MeshProtocol.replyBytes (MeshProtocol.tableAddress (s.nodeAt m).dhcp id))).pack ≠ .ok d) :
    ∃ s2 : NetState,
      Nrf.Net.nexec (meshLookupAddress (id : Int)) s = (.ok (MeshProtocol.tableAddress (s.nodeAt m).dhcp id), s2) ∧
      Conn L Pm Px m x px ax Am Ax s2 ∧
      (s2.nodeAt m).body = { (s.nodeAt m).body with frameBuf := (lookReply s.nextId ax MESH_ADDR_LOOKUP
        (MeshProtocol.replyBytes (MeshProtocol.tableAddress (s.nodeAt m).dhcp id))) } ∧
      (s2.nodeAt x).body = { (s.nodeAt x).body with frameBuf := (lookReply s.nextId ax MESH_ADDR_LOOKUP
        (MeshProtocol.replyBytes (MeshProtocol.tableAddress (s.nodeAt m).dhcp id))) } ∧
      s2.nextId = (s.nextId + 1) &&& 0xFFFF ∧
      (∃ pid1 pid2 pk pk', (lookFrame s.nextId ax MESH_ADDR_LOOKUP [id]).pack = .ok pk ∧
        (lookReply s.nextId ax MESH_ADDR_LOOKUP
          (MeshProtocol.replyBytes (MeshProtocol.tableAddress (s.nodeAt m).dhcp id))).pack = .ok pk' ∧
        (s2.radioAt m).lastRx = some { pid := pid1, addr := Am, data := pk } ∧
        (s2.radioAt x).lastRx = some { pid := pid2, addr := Ax, data := pk' }) :=
  lookup_address_closed s L Pm Px m x px ax Am Ax id C hid0 hid hdupm hdupx

/-- every hypothesis holds on the concrete network `lookEx` (master with table `[7 ↦ 0o1, 9 ↦ 0o4]`, the
    mesh node with ID 7 connected at 0o1): there `lookup_address(9)` is 0o4, `lookup_address(7)` is 0o1
    and `lookup_address(8)` is −2, the master's table unchanged -/
example : (∃ s2, Nrf.Net.nexec (meshLookupAddress 9) lookEx = (.ok 4, s2) ∧ (s2.nodeAt 0).dhcp = [(7, 1), (9, 4)]) ∧
    (∃ s2, Nrf.Net.nexec (meshLookupAddress 7) lookEx = (.ok 1, s2)) ∧
    (∃ s2, Nrf.Net.nexec (meshLookupAddress 8) lookEx = (.ok (-2), s2)) := by
  have hm : ∀ pid d, (lookEx.radioAt 0).lastRx = some { pid := pid, addr := [60, 204, 204, 204, 204], data := d } →
      False := by
    intro pid d h; rw [show (lookEx.radioAt 0).lastRx = none from rfl] at h; cases h
  have hx : ∀ pid d, (lookEx.radioAt 1).lastRx = some { pid := pid, addr := [227, 60, 204, 204, 204], data := d } →
      False := by
    intro pid d h; rw [show (lookEx.radioAt 1).lastRx = none from rfl] at h; cases h
  refine ⟨?_, ?_, ?_⟩
  · obtain ⟨s2, e, _, bm, _⟩ := C17_lookup_address_closed lookEx Example.L Example.P0 Example.P1 0 1 1 1 _ _ 9
      lookEx_conn (by decide) (by decide) (fun pid d h => (hm pid d h).elim) (fun pid d h => (hx pid d h).elim)
    refine ⟨s2, e, ?_⟩
    have : (s2.nodeAt 0).dhcp = (s2.nodeAt 0).body.dhcp := rfl
    rw [this, bm]; rfl
  · obtain ⟨s2, e, _⟩ := C17_lookup_address_closed lookEx Example.L Example.P0 Example.P1 0 1 1 1 _ _ 7
      lookEx_conn (by decide) (by decide) (fun pid d h => (hm pid d h).elim) (fun pid d h => (hx pid d h).elim)
    exact ⟨s2, e⟩
  · obtain ⟨s2, e, _⟩ := C17_lookup_address_closed lookEx Example.L Example.P0 Example.P1 0 1 1 1 _ _ 8
      lookEx_conn (by decide) (by decide) (fun pid d h => (hm pid d h).elim) (fun pid d h => (hx pid d h).elim)
    exact ⟨s2, e⟩

/-- **C17, closed system: `lookup_node_id(a)` of a connected node, end to end** (two nodes, loss-free, ONE
    schedule).  For `0 < a < 65536`: the call returns **exactly the master's current mapping**
    `tableNodeId t a` — the ID holding `a`, or `-2` when none does —; `Conn` holds again; both node
    objects differ in `frame_buf` only (the master's table is unchanged). -/
theorem C17_lookup_node_id_closed (s : NetState) (L : LinkCfg) (Pm Px : List Bytes) (m x px ax : Nat) (Am Ax : Bytes)
    (a : Nat) (C : Conn L Pm Px m x px ax Am Ax s) (ha0 : a ≠ 0) (ha : a < 65536)
    (hdupm : ∀ pid d, (s.radioAt m).lastRx = some { pid := pid, addr := Am, data := d } →
      (lookFrame s.nextId ax MESH_ID_LOOKUP [a % 256, a / 256]).pack ≠ .ok d)
    (hdupx : ∀ pid d, (s.radioAt x).lastRx = some { pid := pid, addr := Ax, data := d } →
      (lookReply s.nextId ax MESH_ID_LOOKUP
        (MeshProtocol.replyBytes (MeshProtocol.tableNodeId (s.nodeAt m).dhcp a))).pack ≠ .ok d) :
    ∃ s2 : NetState,
      Nrf.Net.nexec (meshLookupNodeId (some (a : Int))) s = (.ok (MeshProtocol.tableNodeId (s.nodeAt m).dhcp a), s2) ∧
      Conn L Pm Px m x px ax Am Ax s2 ∧
      (s2.nodeAt m).body = { (s.nodeAt m).body with frameBuf := (lookReply s.nextId ax MESH_ID_LOOKUP
        (MeshProtocol.replyBytes (MeshProtocol.tableNodeId (s.nodeAt m).dhcp a))) } ∧
      (s2.nodeAt x).body = { (s.nodeAt x).body with frameBuf := (lookReply s.nextId ax MESH_ID_LOOKUP
        (MeshProtocol.replyBytes (MeshProtocol.tableNodeId (s.nodeAt m).dhcp a))) } ∧
      s2.nextId = (s.nextId + 1) &&& 0xFFFF :=
  lookup_node_id_closed s L Pm Px m x px ax Am Ax a C ha0 ha hdupm hdupx

/-- on `lookEx`: `lookup_node_id(0o4)` is 9, `lookup_node_id(0o3)` is −2 -/
example : (∃ s2, Nrf.Net.nexec (meshLookupNodeId (some 4)) lookEx = (.ok 9, s2)) ∧
    (∃ s2, Nrf.Net.nexec (meshLookupNodeId (some 3)) lookEx = (.ok (-2), s2)) := by
  have hm : ∀ pid d, (lookEx.radioAt 0).lastRx = some { pid := pid, addr := [60, 204, 204, 204, 204], data := d } →
      False := by
    intro pid d h; rw [show (lookEx.radioAt 0).lastRx = none from rfl] at h; cases h
  have hx : ∀ pid d, (lookEx.radioAt 1).lastRx = some { pid := pid, addr := [227, 60, 204, 204, 204], data := d } →
      False := by
    intro pid d h; rw [show (lookEx.radioAt 1).lastRx = none from rfl] at h; cases h
  refine ⟨?_, ?_⟩
  · obtain ⟨s2, e, _⟩ := C17_lookup_node_id_closed lookEx Example.L Example.P0 Example.P1 0 1 1 1 _ _ 4
      lookEx_conn (by decide) (by decide) (fun pid d h => (hm pid d h).elim) (fun pid d h => (hx pid d h).elim)
    exact ⟨s2, e⟩
  · obtain ⟨s2, e, _⟩ := C17_lookup_node_id_closed lookEx Example.L Example.P0 Example.P1 0 1 1 1 _ _ 3
      lookEx_conn (by decide) (by decide) (fun pid d h => (hm pid d h).elim) (fun pid d h => (hx pid d h).elim)
    exact ⟨s2, e⟩

/-- **C17, closed system: `check_connection(attempts, ping_master=True)` of a connected node, partial**
    (two nodes, loss-free, ONE schedule; `x` has ID `i` and believes it holds `ax`).  For **every** number
    of attempts the call returns **`True` iff `attempts ≥ 1` and the master's table maps `i` to `ax`** (the
    master holds the lease `x` believes it has): `True` at the first attempt then; `False` at the first
    attempt when the table has no lease for `i` (the lookup answers −2); and when the table maps `i` to
    another address every attempt asks again — each lookup carries a new frame id, so no reply is dropped
    as a radio-level duplicate — and the call returns `False` after the last one.  Afterwards `Conn`
    holds again and the master's table is unchanged.  Partial with respect to the property because
    **`ping_master=False` (the default: a NETWORK_PING written to the parent) is not covered** — only its
    control flow is (`C17_check_connection`, last conjunct) —, nor are lost packets, a master that is
    not running, or nodes below level 1. -/
theorem C17_check_connection_closed_partial (s : NetState) (L : LinkCfg) (Pm Px : List Bytes) (m x px ax : Nat)
    (Am Ax : Bytes) (i k : Nat) (C : Conn L Pm Px m x px ax Am Ax s) (hi : (s.nodeAt x).nodeId = i) (hi8 : i < 256)
    (hdupm : ∀ pid d, (s.radioAt m).lastRx = some { pid := pid, addr := Am, data := d } →
      (lookFrame s.nextId ax MESH_ADDR_LOOKUP [i]).pack ≠ .ok d)
    (hdupx : ∀ pid d, (s.radioAt x).lastRx = some { pid := pid, addr := Ax, data := d } →
      (lookReply s.nextId ax MESH_ADDR_LOOKUP
        (MeshProtocol.replyBytes (MeshProtocol.tableAddress (s.nodeAt m).dhcp i))).pack ≠ .ok d) :
    ∃ s', Nrf.Net.nexec (meshCheckConnection k true) s =
        (.ok (decide (0 < k ∧ MeshProtocol.tableAddress (s.nodeAt m).dhcp i = (ax : Int))), s') ∧
      Conn L Pm Px m x px ax Am Ax s' ∧ (s'.nodeAt m).dhcp = (s.nodeAt m).dhcp :=
  check_connection_all s L Pm Px m x px ax Am Ax i k C hi hi8 hdupm hdupx

/-- all three cases are inhabited: on `lookEx` (the master holds `7 ↦ 0o1`) `check_connection(3, True)` of
    node 7 is `True`; on `lookExLost` (the master's table without a lease for 7) it is `False`; on
    `lookExMoved` (the master maps 7 to 0o2) it is `False` after three lookups -/
example : (∃ s2, Nrf.Net.nexec (meshCheckConnection 3 true) lookEx = (.ok true, s2)) ∧
    (∃ s2, Nrf.Net.nexec (meshCheckConnection 3 true) lookExLost = (.ok false, s2)) ∧
    (∃ s2, Nrf.Net.nexec (meshCheckConnection 3 true) lookExMoved = (.ok false, s2)) := by
  refine ⟨?_, ?_, ?_⟩
  · obtain ⟨s2, e, _⟩ := C17_check_connection_closed_partial lookEx Example.L Example.P0 Example.P1 0 1 1 1 _ _ 7 3
      lookEx_conn rfl (by decide)
      (by intro pid d h; rw [show (lookEx.radioAt 0).lastRx = none from rfl] at h; cases h)
      (by intro pid d h; rw [show (lookEx.radioAt 1).lastRx = none from rfl] at h; cases h)
    exact ⟨s2, e⟩
  · obtain ⟨s2, e, _⟩ := C17_check_connection_closed_partial lookExLost Example.L Example.P0 Example.P1 0 1 1 1 _ _ 7 3
      lookExLost_conn rfl (by decide)
      (by intro pid d h; rw [show (lookExLost.radioAt 0).lastRx = none from rfl] at h; cases h)
      (by intro pid d h; rw [show (lookExLost.radioAt 1).lastRx = none from rfl] at h; cases h)
    exact ⟨s2, e⟩
  · obtain ⟨s2, e, _⟩ := C17_check_connection_closed_partial lookExMoved Example.L Example.P0 Example.P1 0 1 1 1 _ _ 7 3
      lookExMoved_conn rfl (by decide)
      (by intro pid d h; rw [show (lookExMoved.radioAt 0).lastRx = none from rfl] at h; cases h)
      (by intro pid d h; rw [show (lookExMoved.radioAt 1).lastRx = none from rfl] at h; cases h)
    exact ⟨s2, e⟩

end Nrf.Props.C17

namespace Nrf.Props.C17
open Nrf Nrf.Net Nrf.Spec Nrf.Proofs Nrf.Net.Join

/-- **C17, closed system: `check_connection(attempts ≥ 1, ping_master=False)` — the default mode — of a node
    connected directly below the master, partial** (two nodes, loss-free, ONE schedule).  From a `Conn`
    state in which the node's parent is address 0 and the master's radio did not just accept the very ping
    packet: the NETWORK_PING frame (type 130, a new frame id, empty body) is written in one hop to the
    master's pipe `px`, acknowledged at link level, and **the call returns `True` at the first attempt —
    whatever the master's table holds**: the master does not run at all during the call (its node object is
    unchanged; the ping waits in its RX FIFO and is swallowed by its next `update()`).  So in this mode
    "`True`" means "the parent's radio acknowledges", not "the master holds my lease" — compare
    `C17_check_connection_closed_partial` and the instance on `lookExLost` below.  Partial: the `False`
    outcome (no acknowledgement: parent absent, loss) is outside the loss-free closed system; nodes below
    level 1 (the ping is routed, a NETWORK_ACK awaited) are not covered. -/
theorem C17_check_connection_ping_closed_partial (s : NetState) (L : LinkCfg) (Pm Px : List Bytes) (m x px ax : Nat)
    (Am Ax : Bytes) (k : Nat) (C : Conn L Pm Px m x px ax Am Ax s)
    (hpar : (s.nodeAt x).a.parent = 0)
    (hdupm : NotDupFrame (s.radioAt m) (pingFrame s.nextId ax)) :
    ∃ s2 pk pid, Nrf.Net.nexec (meshCheckConnection (k + 1) false) s = (.ok true, s2) ∧
      s2.nodeAt m = s.nodeAt m ∧ s2.cur = x ∧ s2.active = [x] ∧
      (pingFrame s.nextId ax).pack = .ok pk ∧
      s2.radioAt m = (s.radioAt m).withRx [{ pipe := px, data := pk }] { pid := pid, addr := Am, data := pk } ∧
      NodeRadio L Px true true 0x3E (s2.nodeAt x).rf (s2.radioAt x) ∧ (s2.radioAt x).rxFifo = [] :=
  check_connection_ping_closed s L Pm Px m x px ax Am Ax k C hpar hdupm

/-- the hypotheses hold on `lookEx` **and on `lookExLost`**: with the default `ping_master=False`,
    `check_connection()` of node 7 is `True` even though the master's table holds no lease for ID 7 (with
    `ping_master=True` it is `False` there: previous example) -/
example : (∃ s2, Nrf.Net.nexec (meshCheckConnection 3 false) lookEx = (.ok true, s2)) ∧
    (∃ s2, Nrf.Net.nexec (meshCheckConnection 3 false) lookExLost = (.ok true, s2) ∧
      (s2.nodeAt 0).dhcp = [(9, 4)]) := by
  refine ⟨?_, ?_⟩
  · obtain ⟨s2, _, _, e, _⟩ := C17_check_connection_ping_closed_partial lookEx Example.L Example.P0 Example.P1 0 1 1 1 _ _ 2
      lookEx_conn (by decide) (NotDupFrame.of_none rfl)
    exact ⟨s2, e⟩
  · obtain ⟨s2, _, _, e, hm, _⟩ := C17_check_connection_ping_closed_partial lookExLost Example.L Example.P0 Example.P1
      0 1 1 1 _ _ 2 lookExLost_conn (by decide) (NotDupFrame.of_none rfl)
    exact ⟨s2, e, by rw [hm]; rfl⟩

end Nrf.Props.C17

/-! ## `release_address()` of a connected node, end to end in the closed system

Same two-node closed loss-free system (`Conn`).  The exchange: `x` builds the release frame in `frame_buf`
(type 197, to 0, from `ax`, empty body; frame id and `reserved` are whatever `frame_buf` held — Python does
not renew the header), `_write(0, TX_NORMAL)` — one acknowledged hop to the master's pipe `px` —, then
`_begin(0o4444)`; the master frees the lease at its next `update()`.

Proved: the write leg and the control flow down to `_begin` (`C17_release_write_closed`), the master's whole
`update()` on the frame (`C17_release_master_closed`), the master's next top-level `update()` from the state
the call leaves (`C17_release_master_turn_closed`).  **Not proved: `_begin(0o4444)` on the radio** (`set listen /
auto_ack / retries / open_rx_pipe × 6`: that it ends normally and touches nothing but `x`'s own radio and
address attributes — the same leg that is open for the join, see above); `C17_release_closed_partial` takes it
as a hypothesis **about the one state this run produces** and is instantiated completely on `lookEx`, the
leg being discharged there by kernel evaluation of the model.
-/

namespace Nrf.Props.C17
open Nrf Nrf.Net Nrf.Spec Nrf.Proofs Nrf.Net.Join

/-- **C17, closed system: the master handles a release frame it has received** (any number of nodes; every
    node off the call stack has an empty RX FIFO).  The master — RF24Mesh, ID 0, address 0, `_do_dhcp`
    clear, listening — finds a release frame (type 197, from address `ax ≠ 0`) as the only payload in its
    RX FIFO.  `update()` returns 197; the master's node object is `freed …`: **the table is
    `Mesh.releaseScan t ax t`** and `frame_buf` the frame, nothing else; nothing is transmitted (the world
    changes by the one `read()` only); the master listens on, its RX FIFO empty.  With C16's invariant on
    `t`: exactly the lease on `ax` is gone. -/
theorem C17_release_master_closed (f : Nat) (sm : NetState) (L : LinkCfg) (Pm : List Bytes) (p fid r ax : Nat)
    (pk : Bytes)
    (hcur : sm.cur < sm.nodes.length) (hclosed : sm.closed = true)
    (hfuel : sm.nodes.length + 2 ≤ f) (hquiet : Quiet sm) (hWf : sm.drv.Wf)
    (hN : NodeRadio L Pm true true 0x3E sm.node.rf sm.drv.radio)
    (harr : sm.node.arrivals = []) (hfifo : sm.drv.radio.rxFifo = [{ pipe := p, data := pk }]) (hp : p ≤ 5)
    (hpk : (relFrame fid r ax).pack = .ok pk)
    (hax : ax < 4096) (hfid : fid < 65536) (hr : r < 256) (haxv : isValid ax = true) (hax0 : ax ≠ 0)
    (hkind : sm.node.kind = .meshMaster) (hid : sm.node.nodeId = 0) (haddr0 : sm.node.a.addr = 0)
    (hret : sm.node.retSysMsg = true) (hdo : sm.node.doDhcp = false) :
    (∃ D1 : DrvState,
      Nrf.Net.nexec (nodeUpdate (f + 4)) sm =
        (.ok MESH_ADDR_RELEASE, (sm.afterRf D1).putNode (freed sm.node D1.d fid r ax)) ∧
      (freed sm.node D1.d fid r ax).dhcp = (Mesh.releaseScan sm.node.dhcp ax sm.node.dhcp).1 ∧
      DrvFrame sm.drv D1 ∧ NodeRadio L Pm true true 0x3E D1.d D1.radio ∧ D1.radio.rxFifo = []) ∧
    (Inv sm.node.dhcp →
      Inv (Mesh.releaseScan sm.node.dhcp ax sm.node.dhcp).1 ∧
      ∀ j b, (j, b) ∈ (Mesh.releaseScan sm.node.dhcp ax sm.node.dhcp).1 ↔ b ≠ ax ∧ (j, b) ∈ sm.node.dhcp) := by
  obtain ⟨D1, h1, h2, h3, h4⟩ := master_release f sm L Pm p fid r ax pk hcur hclosed hfuel hquiet hWf hN harr hfifo hp
    hpk hax hfid hr haxv hax0 hkind hid haddr0 hret hdo
  refine ⟨⟨D1, h1, rfl, h2, h3, h4⟩, fun hinv => ?_⟩
  have h := Nrf.Props.C16.C16_release hinv { table := sm.node.dhcp } rfl 0 true hax0
  rw [← Nrf.Proofs.MeshK.release_table sm.node.dhcp _ 0 true hax0 false] at h
  exact ⟨h.1, h.2.1⟩

example : (Mesh.releaseScan [(7, 1), (9, 4)] 1 [(7, 1), (9, 4)]).1 = [(9, 4)] := by decide

/-- **C17, closed system: `release_address()` of a connected node up to `_begin(0o4444)`** (two nodes,
    loss-free, ONE schedule).  From a `Conn` state in which the master's radio did not just accept the very
    release packet: the release frame is written in one acknowledged hop — `_write` returns `True` in the
    state `s1`, of which `RelSent` holds: the frame waits in the master's RX FIFO on pipe `px`, the master's
    node object and every third radio untouched, `x` listening again with an empty RX FIFO, its node object
    changed in `frame_buf` only — and the whole call equals `_begin(0o4444)` from `s1`, `True` if that
    ends normally (an exception of `_begin` propagates). -/
theorem C17_release_write_closed (s : NetState) (L : LinkCfg) (Pm Px : List Bytes) (m x px ax : Nat)
    (Am Ax pk : Bytes) (C : Conn L Pm Px m x px ax Am Ax s)
    (hpk : (relFrame (s.nodeAt x).frameBuf.header.frameId (s.nodeAt x).frameBuf.header.reserved ax).pack = .ok pk)
    (hdupm : ∀ pid, (s.radioAt m).lastRx ≠ some { pid := pid, addr := Am, data := pk }) :
    ∃ s1 : NetState, RelSent L Pm Px m x px ax Am pk s s1 ∧
      Nrf.Net.nexec (nodeWrite F 0 TX_NORMAL) (s.withFrame
        (relFrame (s.nodeAt x).frameBuf.header.frameId (s.nodeAt x).frameBuf.header.reserved ax)) = (.ok true, s1) ∧
      Nrf.Net.nexec meshRelease s =
        match Nrf.Net.nexec (begin NETWORK_DEFAULT_ADDR) s1 with
        | (.error e, s2) => (.error e, s2)
        | (.ok _, s2) => (.ok true, s2) :=
  release_write s L Pm Px m x px ax Am Ax pk C hpk hdupm

/-- **C17, closed system: `release_address()` of a connected node, partial** — the write leg and the control
    flow proved, and **exactly the one unproved leg as a hypothesis about the state this run produces**:
    `Hb` — for the state `s1` that the release frame's `_write` *of this run* ends in (determined by `s`;
    `RelSent` is what is proved about it), `_begin(0o4444)` ends normally in a state satisfying `P4`.  Then
    `release_address()` returns `True` in a state satisfying `P4`.  (With `P4 := Released …` the master's
    next `update()` frees the lease: `C17_release_master_turn_closed`.) -/
theorem C17_release_closed_partial (s : NetState) (L : LinkCfg) (Pm Px : List Bytes) (m x px ax : Nat)
    (Am Ax pk : Bytes) (P4 : NetState → Prop) (C : Conn L Pm Px m x px ax Am Ax s)
    (hpk : (relFrame (s.nodeAt x).frameBuf.header.frameId (s.nodeAt x).frameBuf.header.reserved ax).pack = .ok pk)
    (hdupm : ∀ pid, (s.radioAt m).lastRx ≠ some { pid := pid, addr := Am, data := pk })
    (Hb : ∀ s1, Nrf.Net.nexec (nodeWrite F 0 TX_NORMAL) (s.withFrame
        (relFrame (s.nodeAt x).frameBuf.header.frameId (s.nodeAt x).frameBuf.header.reserved ax)) = (.ok true, s1) →
      RelSent L Pm Px m x px ax Am pk s s1 →
      ∃ s4, Nrf.Net.nexec (begin NETWORK_DEFAULT_ADDR) s1 = (.ok (), s4) ∧ P4 s4) :
    ∃ s4, Nrf.Net.nexec meshRelease s = (.ok true, s4) ∧ P4 s4 :=
  release_closed s L Pm Px m x px ax Am Ax pk P4 C hpk hdupm Hb

/-- **C17, closed system: the master's next `update()` after a release** (two nodes; a top-level call,
    entered as the driver's `runAs` does: `NetState.turn`).  From a state satisfying `Released` — `x`
    unassigned (address 0o4444) with an empty RX FIFO, the master untouched with table `t`, listening, the
    release frame from `ax` waiting in its RX FIFO —: `update()` returns 197, **the master's table is
    `Mesh.releaseScan t ax t`**, `x`'s node object is untouched; with C16's invariant on `t` and `(i, ax) ∈ t`
    (the lease `x` held): **no lease for `i` is left**, every lease on another address is kept. -/
theorem C17_release_master_turn_closed (s4 : NetState) (L : LinkCfg) (Pm : List Bytes) (m x px fid r ax i : Nat)
    (pk : Bytes) (t : Mesh.Table) (R : Released L Pm m x px pk t s4) (hm : m < 2) (hx : x < 2) (hmx : m ≠ x)
    (hpx : px ≤ 5) (hpk : (relFrame fid r ax).pack = .ok pk)
    (hax : ax < 4096) (hfid : fid < 65536) (hr : r < 256) (haxv : isValid ax = true) (hax0 : ax ≠ 0)
    (hinv : Inv t) (hlease : (i, ax) ∈ t) :
    ∃ s5, Nrf.Net.nexec (nodeUpdate F) (s4.turn m) = (.ok MESH_ADDR_RELEASE, s5) ∧
      (s5.nodeAt m).dhcp = (Mesh.releaseScan t ax t).1 ∧ s5.nodeAt x = (s4.turn m).nodeAt x ∧
      (∀ b, (i, b) ∉ (s5.nodeAt m).dhcp) ∧
      (∀ j b, b ≠ ax → ((j, b) ∈ (s5.nodeAt m).dhcp ↔ (j, b) ∈ t)) := by
  obtain ⟨s5, e, hd, hxn⟩ := release_master_turn s4 L Pm m x px fid r ax pk t R hm hx hmx hpx hpk hax hfid hr haxv hax0
  have h := Nrf.Props.C16.C16_release hinv { table := t } rfl 0 true hax0
  rw [← Nrf.Proofs.MeshK.release_table t _ 0 true hax0 false] at h
  obtain ⟨_, w2, _⟩ := Nrf.Props.C16.C16_inv_words hinv
  refine ⟨s5, e, hd, hxn, ?_, ?_⟩
  · intro b hb
    rw [hd] at hb
    obtain ⟨hne, hmem⟩ := (h.2.1 i b).mp hb
    exact hne (w2 i b ax hmem hlease)
  · intro j b hb
    rw [hd]
    exact ⟨fun hh => ((h.2.1 j b).mp hh).2, fun hh => (h.2.1 j b).mpr ⟨hb, hh⟩⟩

/-- **full instance on `lookEx`** (master with table `[7 ↦ 0o1, 9 ↦ 0o4]`, node 7 connected at 0o1): every
    hypothesis of `C17_release_closed_partial` holds there, **the `_begin` leg included** — `Hb` is proved by
    evaluating the model in the kernel on the run's own state (`relEx1` = the state the release frame's
    `_write` ends in; `_begin(0o4444)` from it is `.ok ()` and ends in `relEx4`, of which every field of
    `Released` is checked by `decide +kernel`).  Hence `release_address()` returns `True` on `lookEx`, node 7
    is back at 0o4444, and the master's next `update()` returns 197 and leaves the table `[9 ↦ 0o4]`: no
    lease for ID 7.  (`net 2 1 new m master 0 0 ; new x mesh 1 7 ; x renew 1500 ; x release ; m update` on
    the real code.) -/
example : ∃ s4 s5, Nrf.Net.nexec meshRelease lookEx = (.ok true, s4) ∧
    (s4.nodeAt 1).a.addr = NETWORK_DEFAULT_ADDR ∧
    Nrf.Net.nexec (nodeUpdate F) (s4.turn 0) = (.ok MESH_ADDR_RELEASE, s5) ∧
    (s5.nodeAt 0).dhcp = [(9, 4)] ∧ (∀ b, (7, b) ∉ (s5.nodeAt 0).dhcp) := by
  obtain ⟨s4, e4, R⟩ := C17_release_closed_partial lookEx Example.L Example.P0 Example.P1 0 1 1 1
    [60, 204, 204, 204, 204] [227, 60, 204, 204, 204] relPk
    (Released Example.L Example.P0 0 1 1 relPk [(7, 1), (9, 4)]) lookEx_conn relPk_eq
    (by intro pid; rw [show (lookEx.radioAt 0).lastRx = none from rfl]; intro h; cases h)
    (by
      intro s1 e _
      have h1 : s1 = relEx1 := (congrArg Prod.snd e).symm
      subst h1
      exact ⟨relEx4, relEx4_begin, relEx4_released⟩)
  have hinv : Inv [(7, 1), (9, 4)] := by
    refine ⟨by decide, ?_, ?_, ?_⟩
    · intro i j a hi hj
      simp only [List.mem_cons, Prod.mk.injEq, List.mem_nil_iff, or_false] at hi hj
      omega
    · intro i a hi
      simp only [List.mem_cons, Prod.mk.injEq, List.mem_nil_iff, or_false] at hi
      rcases hi with ⟨_, rfl⟩ | ⟨_, rfl⟩
      · exact ⟨by decide, [1], by decide, by decide, by decide⟩
      · exact ⟨by decide, [4], by decide, by decide, by decide⟩
    · intro i a hi
      simp only [List.mem_cons, Prod.mk.injEq, List.mem_nil_iff, or_false] at hi
      omega
  obtain ⟨s5, e5, hd, _, hno, _⟩ := C17_release_master_turn_closed s4 Example.L Example.P0 0 1 1 0 0 1 7 relPk
    [(7, 1), (9, 4)] R (by decide) (by decide) (by decide) (by decide) relPk_eq (by decide) (by decide) (by decide)
    lookEx_conn.axv (by decide) hinv (by decide)
  exact ⟨s4, s5, e4, R.xaddr, e5, by rw [hd]; decide, hno⟩

end Nrf.Props.C17

/-! ## a message sent to a node ID: master → connected node, closed system

`send(i, type, message)` called at the master for the ID of the node connected at `ax`: the translation ID →
address is answered by the master's own table (no transmission), the frame goes out in one acknowledged hop
to pipe 5 of that node, whose next `update()` queues it.  Two nodes, loss-free, ONE schedule, a single frame
(≤ 24 bytes) of a user type 0..127.  `send()` from a *non-master* node to an ID (lookup exchange first, then a
routed write through the master) is **not** covered.
-/

namespace Nrf.Props.C17
open Nrf Nrf.Net Nrf.Spec Nrf.Proofs Nrf.Net.Join

/-- **C17, closed system: `send(i, t, msg)` at the master reaches the node that holds the lease of ID `i`,
    partial.**  The master `m` (RF24Mesh, ID 0, address 0, running, listening; its table maps `i ≠ 0` to
    `ax`), the node `x` listening on the six addresses of `ax` with an empty RX FIFO and not about to see a
    duplicate, no third radio listening, `msg` of at most 24 bytes within `max_message_length`, user type
    `t ≤ 127`: **`send()` returns `True`**, nothing was asked on the air, the frame (`sendFrame`: from 0, to
    `ax`, a new frame id, type `t`, body `msg`) is stored — once — on pipe 5 of `x`'s radio; `x`'s node object
    and the master's table are unchanged.  Partial: sender = master only, level-1 destination only, no
    fragmentation. -/
theorem C17_send_by_id_closed_partial (s : NetState) (L : LinkCfg) (Pm Px : List Bytes) (m x ax i t : Nat)
    (Ax msg : Bytes)
    (hlen : s.nodes.length = 2) (hm : m < 2) (hx : x < 2) (hmx : m ≠ x)
    (hcur : s.cur = m) (hact : s.active = [m]) (hclosed : s.closed = true) (hfaults : s.w.faults = [])
    (hridm : s.ridAt m < s.w.radios.length) (hridne : s.ridAt m ≠ s.ridAt x)
    (hothers : ∀ j, j ≠ s.ridAt m → j ≠ s.ridAt x → (s.w.radio j).rxMode = false)
    (hNm : NodeRadio L Pm true true 0x3E (s.nodeAt m).rf (s.radioAt m))
    (hNx : NodeRadio L Px true true 0x3E (s.nodeAt x).rf (s.radioAt x))
    (hfx : (s.radioAt x).rxFifo = [])
    (hAx : Px[5]? = some Ax) (hltx : ∀ q, q < 5 → Px[q]? ≠ some Ax)
    (hkind : (s.nodeAt m).kind = .meshMaster) (hid : (s.nodeAt m).nodeId = 0) (hmaddr : (s.nodeAt m).a.addr = 0)
    (hmaxl : msg.length ≤ (s.nodeAt m).maxMessageLength) (hmsg : msg.length ≤ MAX_FRAG_SIZE)
    (hml2p : logi2phys (s.nodeAt m).a ax TX_NORMAL = (ax, 5, false))
    (hmcfg : pipeAddress (s.nodeAt m).cfg ax 5 = .ok Ax)
    (hax : ax < 4096) (haxv : isValid ax = true) (hax0 : ax ≠ 0)
    (hi0 : i ≠ 0) (hlease : MeshProtocol.tableAddress (s.nodeAt m).dhcp i = (ax : Int)) (ht : t ≤ 127)
    (hdupx : NotDupFrame (s.radioAt x) (sendFrame s.nextId ax t msg)) :
    ∃ s2 pk pid, Nrf.Net.nexec (meshSend i (t : Int) msg) s = (.ok true, s2) ∧
      (sendFrame s.nextId ax t msg).pack = .ok pk ∧
      s2.radioAt x = (s.radioAt x).withRx [{ pipe := 5, data := pk }] { pid := pid, addr := Ax, data := pk } ∧
      s2.nodeAt x = s.nodeAt x ∧ (s2.nodeAt m).dhcp = (s.nodeAt m).dhcp ∧ s2.cur = m ∧ s2.active = [m] ∧
      s2.nodes.length = 2 ∧ s2.closed = true ∧ s2.w.radios.length = s.w.radios.length ∧
      (s2.radioAt m).rxFifo = (s.radioAt m).rxFifo :=
  send_by_id_closed s L Pm Px m x ax i t Ax msg hlen hm hx hmx hcur hact hclosed hfaults hridm hridne hothers hNm hNx
    hfx hAx hltx hkind hid hmaddr hmaxl hmsg hml2p hmcfg hax haxv hax0 hi0 hlease ht hdupx

/-- **C17, closed system: the addressed node's next `update()` queues the frame.**  From a state as
    `C17_send_by_id_closed_partial` leaves it (the frame on pipe 5 of `x`'s radio, the master's RX FIFO
    empty), `x` — not of the master class, address `ax`, queue with room and without a frame of the same
    origin, id and type — runs `update()` as a top-level call (`NetState.turn x`): it returns `t`, **the
    queue has gained exactly the frame** (`from_node` 0, `to_node` `ax`, type `t`, body `msg`), the RX FIFO is
    empty. -/
theorem C17_send_queued_closed (s2 : NetState) (L : LinkCfg) (Px : List Bytes) (m x ax fid t pid : Nat)
    (Ax msg pk : Bytes) (Rx : Radio)
    (hlen : s2.nodes.length = 2) (hm : m < 2) (hx : x < 2) (hmx : m ≠ x)
    (hcur : s2.cur = m) (hclosed : s2.closed = true)
    (hridx : s2.ridAt x < s2.w.radios.length)
    (hNx : NodeRadio L Px true true 0x3E (s2.nodeAt x).rf Rx)
    (hradx : s2.radioAt x = Rx.withRx [{ pipe := 5, data := pk }] { pid := pid, addr := Ax, data := pk })
    (hfm : (s2.radioAt m).rxFifo = [])
    (hkind : (s2.nodeAt x).kind ≠ .meshMaster) (hxaddr : (s2.nodeAt x).a.addr = ax)
    (harrx : (s2.nodeAt x).arrivals = [])
    (hroom : ((s2.nodeAt x).queue.frames.length : Int) < (s2.nodeAt x).queue.maxSize)
    (hnew : ∀ g ∈ (s2.nodeAt x).queue.frames, ¬ (g.header.fromNode = 0 ∧ g.header.frameId = fid ∧ g.header.ty = t))
    (hax : ax < 4096) (haxv : isValid ax = true) (hfid : fid < 65536) (ht : t ≤ 127)
    (hmsg : msg.length ≤ MAX_FRAG_SIZE) (hpk : (sendFrame fid ax t msg).pack = .ok pk) :
    ∃ s3, Nrf.Net.nexec (nodeUpdate F) (s2.turn x) = (.ok t, s3) ∧
      (s3.nodeAt x).queue.frames = (s2.nodeAt x).queue.frames ++ [sendFrame fid ax t msg] ∧
      (s3.radioAt x).rxFifo = [] :=
  send_queued_closed s2 L Px m x ax fid t pid Ax msg pk Rx hlen hm hx hmx hcur hclosed hridx hNx hradx hfm hkind
    hxaddr harrx hroom hnew hax haxv hfid ht hmsg hpk

/-- `lookEx` with the master running -/
def sendEx : NetState := { lookEx with cur := 0, active := [0] }

/-- both theorems instantiated completely and chained on `sendEx` (master with table `[7 ↦ 0o1, 9 ↦ 0o4]`
    running, node 7 at 0o1): `send(7, 65, [1, 2, 3])` at the master returns `True`, and node 7's next
    `update()` returns 65 with exactly that message in its queue -/
example : ∃ s2 s3, Nrf.Net.nexec (meshSend 7 65 [1, 2, 3]) sendEx = (.ok true, s2) ∧
    Nrf.Net.nexec (nodeUpdate F) (s2.turn 1) = (.ok 65, s3) ∧
    (s3.nodeAt 1).queue.frames = [sendFrame 4 1 65 [1, 2, 3]] := by
  have C := lookEx_conn
  obtain ⟨s2, pk, pid, e, hpk, hrx, hnx, _, hc2, _, hl2, hcl2, hrl2, hfm2⟩ := C17_send_by_id_closed_partial sendEx Example.L
    Example.P0 Example.P1 0 1 1 7 65 [227, 60, 204, 204, 204] [1, 2, 3] rfl (by decide) (by decide) (by decide) rfl rfl
    rfl rfl C.ridm C.ridne C.others C.Nm C.Nx C.fx C.pAx C.ltx C.kind C.mid C.maddr (by decide) (by decide) C.ml2p C.mcfg
    (by decide) C.axv (by decide) (by decide) (by decide) (by decide) (NotDupFrame.of_none rfl)
  obtain ⟨s3, e3, hq, _⟩ := C17_send_queued_closed s2 Example.L Example.P1 0 1 1 4 65 pid [227, 60, 204, 204, 204]
    [1, 2, 3] pk (sendEx.radioAt 1) hl2 (by decide) (by decide) (by decide) hc2 hcl2
    (by show (s2.nodeAt 1).rf.rid < _; rw [hnx, hrl2]; exact C.ridx)
    (by rw [hnx]; exact C.Nx) hrx (by rw [hfm2]; exact C.fm)
    (by rw [hnx]; decide) (by rw [hnx]; exact C.xaddr) (by rw [hnx]; exact C.arrx)
    (by rw [hnx]; decide) (by rw [hnx]; intro g hg; cases hg)
    (by decide) C.axv (by decide) (by decide) (by decide) hpk
  refine ⟨s2, s3, e, e3, ?_⟩
  rw [hq, hnx]
  rfl

end Nrf.Props.C17
