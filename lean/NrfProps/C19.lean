/-
C19 — "Received BLE packets decode to what was advertised; all else is ignored safely."

A packet advertised by one FakeBLE object (or produced by an independent BLE encoder) and received
by another on the same channel is queued as one element carrying the sender's MAC, name, PA level
and each service-data value (battery level, temperature including negative values, Eddystone URL
and its TX power, raw chunks) equal to what was advertised.  Payloads whose length byte or CRC-24
is inconsistent are not queued, and `available()` never raises for any 32 received bytes, including
CRC-valid packets with malformed or truncated data structures.  `read()` returns queued elements in
arrival order, each once.

Model: `NrfModel/Ble/*.lean`; spec receiver / AD parser / service-data formats:
`NrfModel/Spec/BleLinkLayer.lean`.  Floats are outside the model: temperatures are integer
hundredths (the conversion `round(value*100)` / `* 10**-2` is exercised by the correspondence).
-/
import NrfProofs.Ble.Roundtrip
import NrfProofs.Ble.Channel
import NrfProofs.Ble.Url
import NrfProofs.Ble.Foreign
import NrfProofs.Ble.Detect

namespace Nrf.Props.C19
open Nrf.Ble Nrf.Spec.BleLL Nrf.Proofs.Ble

/-- **C19_total.**  For **every** object state and **every** received payload of at least two
    bytes (the radio always delivers `payload_length` = 32), and for an empty RX FIFO,
    `available()` returns normally: no index, `struct.unpack`, `bytes([...])` or conversion
    error can escape, whatever the data structures inside a CRC-valid packet look like. -/
theorem C19_total (s : Ble) (rx : Option Bytes) (h : ∀ p, rx = some p → 2 ≤ p.length) :
    ∃ b, (s.available rx).2 = .ok b := by
  cases rx with
  | none => exact ⟨_, rfl⟩
  | some p => exact available_total s p (h p rfl)

/-- **C19_reject.**  A received 32-byte payload is queued (exactly one new element at the back,
    `available()` returns `True`) iff the independent bit-serial BLE receiver, listening on the
    channel of the frequency the radio is tuned to, accepts the on-air bits as a packet, i.e. iff
    the length byte leaves room for the CRC inside the 32 bytes and the 24 bits after the PDU are
    its CRC-24; in every other case the queue is unchanged and the result only says whether older
    elements are still queued. -/
theorem C19_reject (s : Ble) (rfCh : Nat) (p : Bytes) (hp : p.wf) (hlen : p.length = 32)
    (htuned : BLE_FREQ[s.currFreq]? = some rfCh) :
    (bleReceive rfCh (airBits p) = none →
      (s.available (some p)).1.rxQueue = s.rxQueue ∧
      (s.available (some p)).2 = .ok (!s.rxQueue.isEmpty)) ∧
    (∀ pdu, bleReceive rfCh (airBits p) = some pdu →
      ∃ q, (s.available (some p)).1.rxQueue = s.rxQueue ++ [q] ∧
        (s.available (some p)).2 = .ok true) := by
  rcases available_spec s rfCh p hp hlen htuned with ⟨h1, h2, h3⟩ | ⟨pdu, q, h1, h2, h3, _⟩
  · exact ⟨fun _ => ⟨h2, h3⟩, fun pdu hpdu => (by rw [h1] at hpdu; cases hpdu)⟩
  · exact ⟨fun hn => (by rw [h1] at hn; cases hn), fun _ _ => ⟨q, h2, h3⟩⟩

/-- **C19_reject_bytes.**  The same decision stated outright on the de-whitened bytes
    `c = whiten(reverse_bits(payload))`: with `end = c[1] + 2`, the payload is queued iff
    `end < 30 ∧ c[end : end+3] = crc24_ble(c[:end])`; otherwise the queue is unchanged; the cache
    is `c[: end+3]` either way; nothing else of the object changes. -/
theorem C19_reject_bytes (s : Ble) (p : Bytes) (hlen : p.length = 32) :
    ∃ h0 len rest, s.whiten (reverseBits p) = h0 :: len :: rest ∧ rest.length = 30 ∧
      (((len + 2 < 30 ∧ (rest.drop len).take 3 = crc24 (h0 :: len :: rest.take len)) ∧
          ∃ q, (s.available (some p)).1.rxQueue = s.rxQueue ++ [q]) ∨
       (¬ (len + 2 < 30 ∧ (rest.drop len).take 3 = crc24 (h0 :: len :: rest.take len)) ∧
          (s.available (some p)).1.rxQueue = s.rxQueue)) ∧
      (s.available (some p)).1.rxCache = (h0 :: len :: rest).take (len + 5) :=
  available_decision s p hlen

/-- **C19_decode** (any transmitter, in particular a foreign one).  Whenever the spec receiver
    accepts the payload as a PDU that parses as AdvA + well-formed AD structures, the queued
    element is the reference decoding of those structures: MAC = AdvA; name = the last name
    structure (0x08 / 0x09); PA level = the signed octet of the last one-octet TX-power structure
    (0x0A); data = per structure in order: service data 0x16 with UUID 0x1809 / 0x180F / 0xFEAA →
    temperature / battery / URL item holding the bytes after the UUID (URL: TX-power octet and
    encoded URL), other UUIDs → the structure without its length octet, service data shorter than
    a UUID and every other type → the raw structure. -/
theorem C19_decode (s : Ble) (rfCh : Nat) (p : Bytes) (hp : p.wf) (hlen : p.length = 32)
    (htuned : BLE_FREQ[s.currFreq]? = some rfCh) (pdu : Pdu) (adv : Adv)
    (hrecv : bleReceive rfCh (airBits p) = some pdu) (hadv : parseAdv pdu = some adv) :
    (s.available (some p)).1.rxQueue = s.rxQueue ++ [refElement adv] := by
  rcases available_spec s rfCh p hp hlen htuned with ⟨h1, _, _⟩ | ⟨pdu', q, h1, h2, _, h4⟩
  · rw [h1] at hrecv; cases hrecv
  · rw [h1] at hrecv; cases hrecv
    rw [h2, h4 adv hadv]

/-- **C19_foreign.**  A foreign, standard-conforming advertiser: the independent bit-serial
    encoder of the spec sends the PDU `hdr, len, AdvA ‖ AD structures` (any header octet, any
    6-byte address, any well-formed AD structures that fit a 32-byte nRF24L01 payload) on the
    frequency `rfCh`, followed by arbitrary bits; the radio hands out 32 bytes; a FakeBLE object
    tuned to `rfCh` queues exactly the reference decoding of those structures. -/
theorem C19_foreign (s : Ble) (rfCh hdr : Nat) (mac : Bytes) (ads : List (Nat × Bytes))
    (tail : List Bool) (hhdr : hdr < 256) (hmac : mac.length = 6) (hmacwf : mac.wf)
    (hadswf : (encodeAds ads).wf) (hfit : 6 + (encodeAds ads).length ≤ 27)
    (htail : 256 ≤ 8 * (6 + (encodeAds ads).length + 5) + tail.length)
    (htuned : BLE_FREQ[s.currFreq]? = some rfCh) :
    ∃ p, specEncode rfCh (hdr :: (6 + (encodeAds ads).length) :: (mac ++ encodeAds ads)) tail = some p ∧
      (s.available (some p)).1.rxQueue = s.rxQueue ++ [refElement ⟨mac, ads⟩] := by
  have hch : (channelIndex rfCh).isSome := by
    rcases Nat.lt_or_ge s.currFreq 3 with h | h
    · have : s.currFreq = 0 ∨ s.currFreq = 1 ∨ s.currFreq = 2 := by omega
      rcases this with e | e | e <;> rw [e] at htuned <;> simp [BLE_FREQ] at htuned <;>
        subst htuned <;> rfl
    · rw [List.getElem?_eq_none (by simp [BLE_FREQ]; omega)] at htuned; cases htuned
  obtain ⟨p, hp, hlen, hwf, hrecv⟩ := specEncode_receive rfCh hdr (6 + (encodeAds ads).length)
    (mac ++ encodeAds ads) tail hhdr (by omega) (wf_append.2 ⟨hmacwf, hadswf⟩)
    (by simp [hmac]) hfit htail hch
  refine ⟨p, hp, ?_⟩
  apply C19_decode s rfCh p hwf hlen htuned _ _ hrecv
  simp only [parseAdv]
  have hl : ¬ (mac ++ encodeAds ads).length < 6 := by simp [hmac]
  simp only [hl, ↓reduceIte]
  rw [show (6 : Nat) = mac.length from hmac.symm, List.drop_left, List.take_left, parseAds_encode]

/-- **C19_roundtrip.**  Sender `s₁` (any MAC of 6 bytes, any name, PA flag, `RF_SETUP`) advertises
    the data chunks `uads` (AD structures other than name / TX power, as built by `chunk()`) and
    `advertise` returns normally; the radio pads the payload to 32 bytes with anything; a receiver
    `s₂` whose radio is tuned to the same frequency (both objects satisfy the channel invariant of
    C18) calls `available()`: exactly one element is appended, carrying the sender's MAC, name,
    PA level (iff shown), the flags structure as a raw item, and the items of the user's chunks in
    order. -/
theorem C19_roundtrip (s₁ s₂ : Ble) (r₁ : Radio) (rfCh : Nat) (uads : List (Nat × Bytes))
    (sent pad : Bytes)
    (hmac : s₁.mac.length = 6) (hmacwf : s₁.mac.wf) (hnamewf : ∀ n, s₁.name = some n → n.wf)
    (hargwf : ∀ a ∈ uads, Bytes.wf (encodeAd a)) (hdata : ∀ a ∈ uads, IsDataAd a)
    (hpadwf : pad.wf) (h32 : (sent ++ pad).length = 32)
    (ht1 : BLE_FREQ[s₁.currFreq]? = some r₁.rfCh) (hsame : r₁.rfCh = rfCh)
    (ht2 : BLE_FREQ[s₂.currFreq]? = some rfCh)
    (hsent : s₁.advertise r₁ (.list (uads.map encodeAd)) = .ok sent) :
    (s₂.available (some (sent ++ pad))).1.rxQueue = s₂.rxQueue ++
      [{ mac := s₁.mac, name := s₁.name,
         paLevel := if s₁.showDbm then some r₁.paLevel else none,
         data := Item.raw [2, 1, 5] :: uads.flatMap adItems }] := by
  subst hsame
  -- what the sender put on the air (C18) …
  rw [advertise_char] at hsent
  simp only [userBytes] at hsent
  split at hsent
  · cases hsent
  · rename_i hfit
    cases hsent
    have huwf : Bytes.wf (uads.map encodeAd).flatten := by
      intro x hx
      obtain ⟨c, hc, hxc⟩ := List.mem_flatten.1 hx
      obtain ⟨a, ha, rfl⟩ := List.mem_map.1 hc
      exact hargwf a ha x hxc
    have hrecv := (receive_packet s₁ r₁.rfCh r₁ _ pad hmac hmacwf hnamewf huwf hpadwf (by omega)
      ht1).1
    have hpw := packet_wf s₁ r₁ _ hmacwf hnamewf huwf (by omega)
    have hcf : s₁.currFreq < 3 := by
      rcases Nat.lt_or_ge s₁.currFreq 3 with h | h
      · exact h
      · rw [List.getElem?_eq_none (by simp [BLE_FREQ]; omega)] at ht1; cases ht1
    have hswf : (reverseBits (s₁.whiten (packet s₁ r₁ (uads.map encodeAd).flatten)) ++ pad).wf :=
      wf_append.2 ⟨reverseBits_wf _ (whitener_wf _ _ hpw (coef_init _ hcf).2), hpadwf⟩
    -- … is decoded by the receiver as the reference element of its AD structures
    have hadv : parseAdv ⟨0x42, 9 + (uads.map encodeAd).flatten.length + s₁.nameLength + showDbm3 s₁,
        advBody s₁ r₁ (uads.map encodeAd).flatten⟩ =
        some ⟨s₁.mac, (0x01, [0x05]) :: (paAd s₁ r₁ ++ nameAd s₁ ++ uads)⟩ := by
      have e : advBody s₁ r₁ (uads.map encodeAd).flatten = advBody s₁ r₁ (encodeAds uads) := rfl
      simp only [parseAdv, e, advBody_ads]
      have hl : ¬ (s₁.mac ++ encodeAds ((1, [5]) :: (paAd s₁ r₁ ++ nameAd s₁ ++ uads))).length < 6 := by
        simp [hmac]
      simp only [hl, ↓reduceIte]
      rw [show (6 : Nat) = s₁.mac.length from hmac.symm, List.drop_left, List.take_left,
        parseAds_encode]
    rw [C19_decode s₂ r₁.rfCh _ hswf h32 ht2 _ _ hrecv hadv, refElement_own s₁ r₁ uads hdata]

/-- **C19_items.**  What the user's chunks decode to, and what the items' getters return:
    * temperature: `chunk(TemperatureServiceData.buffer)` for the integer hundredths `h` in the
      whole 24-bit two's-complement range (negative values included) → one temperature item whose
      getter yields `h` again; the bytes are the spec's IEEE-11073 FLOAT with exponent −2;
    * battery `v ∈ 0..255` → one battery item whose getter yields `v`;
    * Eddystone URL with TX power `pw ∈ −128..127` and encoded URL bytes `u` → one URL item with
      that power and those bytes;
    * any other service UUID → the structure without its length octet; any non-service type other
      than name / TX power → the raw structure `len, type, data`. -/
theorem C19_items :
    (∀ h : Int, -8388608 ≤ h → h < 8388608 → ∃ d, tempSet h = .ok d ∧
        adItems (0x16, [0x09, 0x18] ++ d) = [Item.temp d] ∧ tempGet d = .ok h ∧
        temperatureHundredths d = some h) ∧
    (∀ v : Nat, v < 256 → battSet v = .ok [v] ∧
        adItems (0x16, [0x0F, 0x18] ++ [v]) = [Item.batt [v]] ∧ battGet [v] = .ok v ∧
        batteryLevel [v] = some v) ∧
    (∀ (pw : Int) (u : Bytes), -128 ≤ pw → pw < 128 → ∃ t, urlSetPaInt urlTypeInit pw = .ok t ∧
        adItems (0x16, t ++ u) = [Item.url t u] ∧ urlGetPa t = .ok pw) ∧
    (∀ (lo hi : Nat) (d : Bytes), lo + 256 * hi ≠ 0x1809 → lo + 256 * hi ≠ 0x180F →
        lo + 256 * hi ≠ 0xFEAA →
        adItems (0x16, lo :: hi :: d) = [Item.raw (0x16 :: lo :: hi :: d)]) ∧
    (∀ (t : Nat) (d : Bytes), t ≠ 0x16 → t ≠ 0x0A → t ≠ 0x08 → t ≠ 0x09 →
        adItems (t, d) = [Item.raw ((d.length + 1) :: t :: d)]) := by
  refine ⟨?_, ?_, ?_, ?_, ?_⟩
  · intro h hlo hhi
    obtain ⟨d, h1, _, h3, h4, _⟩ := temp_roundtrip h hlo hhi
    exact ⟨d, h1, by simp [adItems, applyAd, adResult], h3, h4⟩
  · intro v hv
    obtain ⟨h1, h2, h3⟩ := batt_roundtrip v hv
    exact ⟨h1, by simp [adItems, applyAd, adResult], h2, h3⟩
  · intro pw u hlo hhi
    obtain ⟨t, h1, _, h3, h4, _⟩ := urlpa_roundtrip pw hlo hhi
    refine ⟨t, h1, ?_, h3⟩
    subst h4
    simp [adItems, applyAd, adResult]
  · intro lo hi d h1 h2 h3
    simp [adItems, applyAd, adResult, h1, h2, h3]
  · intro t d h1 h2 h3 h4
    simp [adItems, applyAd, adResult, encodeAd, h1, h2, h3, h4]

/-- **C19_url.**  For every URL (list of code points) that starts with one of the four schemes
    `http://www.`, `https://www.`, `http://`, `https://` and whose characters lie in 14..127 — in
    particular every scheme-prefixed printable ASCII URL — and every TX power −128..127: the
    `UrlServiceData.data` getter returns the URL the setter encoded (setter and getter loops over
    the code tables modelled statement by statement), and an Eddystone-URL decoder written from
    the Eddystone specification reads the advertised bytes `10 pw enc…` as that power and URL. -/
theorem C19_url (u : Str) (pw : Int) (hp : ∃ p ∈ codexPrefix, startsWith u p = true)
    (hc : ∀ c ∈ u, 14 ≤ c ∧ c < 128) (hlo : -128 ≤ pw) (hhi : pw < 128) :
    urlGet (urlSet u) = .ok u ∧
    eddystoneUrl ([0x10, (pw % 256).toNat] ++ urlSet u) = some (pw, u) := by
  obtain ⟨h1, h2⟩ := url_roundtrip u hp hc
  refine ⟨h1, ?_⟩
  obtain ⟨_, _, _, _, _, h3⟩ := urlpa_roundtrip pw hlo hhi
  simp only [eddystoneUrl, List.cons_append, List.nil_append, h2, Option.map_some, h3]

/-- **C19_detect.**  Error detection (extra).  Let `p` be a received 32-byte payload that the
    spec receiver accepts as a PDU of length `len`, and let `p'` be what the radio hands out when
    one on-air bit `i`, or two different on-air bits `i < j`, of the packet (header, payload or
    CRC, i.e. positions below `8·(len+5)`) were inverted, the length octet (bits 8..15) excepted.
    Then the spec receiver rejects `p'` and `available()` leaves the queue unchanged.  (Proof: the
    CRC register is linear, so acceptance would need the error's syndrome to vanish; the 232
    syndromes of single bit errors in a 32-byte payload are pairwise different, non-zero and not a
    power of two — a finite kernel computation.  Inversions *of* the length octet move the CRC
    window and are data dependent: for them only C19_reject / C19_total are claimed.) -/
theorem C19_detect (s : Ble) (rfCh : Nat) (p p' : Bytes) (hp : p.wf) (hlen : p.length = 32)
    (hp' : p'.wf) (hlen' : p'.length = 32) (htuned : BLE_FREQ[s.currFreq]? = some rfCh)
    (pdu : Pdu) (hrecv : bleReceive rfCh (airBits p) = some pdu) (i j : Nat)
    (hi : i < 8 * (pdu.length + 5)) (hj : j < 8 * (pdu.length + 5))
    (hnli : i < 8 ∨ 16 ≤ i) (hnlj : j < 8 ∨ 16 ≤ j)
    (herr : airBits p' = flipBit (airBits p) i ∨
            (i < j ∧ airBits p' = flipBit (flipBit (airBits p) i) j)) :
    bleReceive rfCh (airBits p') = none ∧ (s.available (some p')).1.rxQueue = s.rxQueue := by
  have hnone : bleReceive rfCh (airBits p') = none := by
    unfold bleReceive at hrecv ⊢
    cases hc : channelIndex rfCh with
    | none => rfl
    | some ch =>
      rw [hc] at hrecv
      simp only at hrecv ⊢
      have hD : (whitenBits (Lfsr.init ch) (airBits p)).length ≤ 256 := by
        rw [whitenBits_length, airBits_eq p hp, bits_length, reverseBits_length, hlen]
        decide
      rcases herr with h1 | ⟨hij, h2⟩
      · rw [h1, whitenBits_flipBit]
        exact detect1 _ hD pdu hrecv i (by omega) hnli
      · rw [h2, whitenBits_flipBit, whitenBits_flipBit]
        exact detect2 _ hD pdu hrecv i j hij (by omega) hnli hnlj
  exact ⟨hnone, ((C19_reject s rfCh p' hp' hlen' htuned).1 hnone).1⟩

/-- **C19_fifo.**  Over **every** history of `available()` calls (with any payload or an empty
    FIFO) and `read()` calls, starting from any object with an empty queue: the elements returned
    by `read()` so far, followed by the elements still queued, are exactly the elements ever
    queued, in arrival order — so each is returned once, in order, and `read()` on an empty
    queue returns `None` and changes nothing. -/
theorem C19_fifo (s : Ble) (hq : s.rxQueue = []) (ops : List RxOp) :
    let w := rxRun ⟨s, [], []⟩ ops
    w.delivered ++ w.ble.rxQueue = w.accepted ∧
    (w.ble.rxQueue = [] → w.ble.read = (w.ble, none)) := by
  refine ⟨fifo_inv_run _ ops (by simp [hq]), ?_⟩
  intro h
  simp [Ble.read, h]

/-! ### non-vacuity -/

/-- sender on channel 39 with PA level, a negative temperature (−5.25 °C) and a battery
    level; receiver tuned to RF_CH 80 gets the element with those values -/
example :
    let w := runOps (World.init (urandom 6)) [.chan 80, .pa (-12), .showPa true]
    let rxs := (runOps (World.init [1, 2, 3, 4, 5, 6]) [.hop, .hop]).ble
    (match tempSet (-525), w.ble.advertise w.radio
        (.list [encodeAd (0x16, [0x09, 0x18, 0xF3, 0xFD, 0xFF, 0xFE]), encodeAd (0x16, [0x0F, 0x18, 77])]) with
     | .ok d, .ok sent =>
        d == [0xF3, 0xFD, 0xFF, 0xFE] && sent.length == 30 &&
        (rxs.available (some (sent ++ zeros 2))).1.rxQueue ==
          [{ mac := urandom 6, name := none, paLevel := some (-12),
             data := [Item.raw [2, 1, 5], Item.temp [0xF3, 0xFD, 0xFF, 0xFE], Item.batt [77]] }] &&
        (match tempGet [0xF3, 0xFD, 0xFF, 0xFE] with | .ok v => v == -525 | _ => false)
     | _, _ => false) = true := by
  decide +kernel

/-- a CRC-valid packet from a foreign encoder with a truncated service-data structure `02 16 09`
    (the D18 shape) is accepted by the spec receiver, does not parse … and is queued without any
    exception; a corrupted copy is rejected -/
example :
    let s := (Ble.init (urandom 6)).1
    (match specEncode 2 [0x42, 9, 1, 2, 3, 4, 5, 6, 2, 0x16, 9] [] with
     | some p0 =>
        let p := p0 ++ zeros (32 - p0.length)
        p.length == 32 && (bleReceive 2 (airBits p)).isSome &&
        (match (s.available (some p)).2 with | .ok b => b | _ => false) &&
        (s.available (some p)).1.rxQueue ==
          [{ mac := [1, 2, 3, 4, 5, 6], data := [Item.raw [2, 0x16, 9]] }] &&
        (s.available (some (p.set 5 (p[5]! ^^^ 4)))).1.rxQueue == []
     | none => false) = true := by
  decide +kernel

/-- the hypotheses of `C19_detect` are satisfiable: a valid packet on RF_CH 26 and the payload
    with on-air bit 70 inverted (byte 8, a payload octet); the corrupted one is not queued -/
example :
    let s := (runOps (World.init (urandom 6)) [.hop]).ble
    (match specEncode 26 [0x42, 9, 1, 2, 3, 4, 5, 6, 2, 1, 5] (List.replicate 200 false) with
     | some p =>
        let p' := p.set 8 (p[8]! ^^^ 2)
        p.length == 32 && p'.length == 32 && (bleReceive 26 (airBits p)).isSome &&
        airBits p' == flipBit (airBits p) 70 &&
        (s.available (some p)).1.rxQueue.length == 1 &&
        (s.available (some p')).1.rxQueue.length == 0
     | none => false) = true := by
  decide +kernel

/-- a URL with scheme, an expansion in the middle and one at the end round-trips -/
example :
    let u := asciiStr "https://www.ab.org/x.com"
    (∃ p ∈ codexPrefix, startsWith u p = true) ∧ (∀ c ∈ u, 14 ≤ c ∧ c < 128) ∧
    urlSet u = [1, 97, 98, 1, 120, 7] := by
  decide

end Nrf.Props.C19
