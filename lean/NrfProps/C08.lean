/-
C08 — RX/TX switching preserves the user's pipe-0 address and ACK reception (statements in progress).
-/
import NrfModel.Rf24

namespace Nrf.Props.C08
open Nrf

/-- writing a short address overwrites the low bytes only and keeps the register 5 bytes long -/
theorem C08_overlay_prefix (old new : Bytes) (ho : old.length = 5) (hn : new.length ≤ 5) :
    (Radio.overlay old new).take new.length = new ∧ (Radio.overlay old new).length = 5 := by
  unfold Radio.overlay
  have h1 : new.take 5 = new := List.take_of_length_le hn
  rw [h1]
  constructor
  · simp
  · simp [List.length_append, List.length_drop, ho]; omega

end Nrf.Props.C08
