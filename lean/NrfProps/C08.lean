/-
C08 — RX/TX switching preserves the user's pipe-0 address and ACK reception.

Spec: `NrfModel/Spec/Pipe0.lean` (`Op`, `user0Step`, `RxEntryOk`, `TxReady`, `Post`, `CeRule`,
`CeMatchesRole`, `RoleLogClean`, `PeerListens`).  Helper lemmas: `NrfProofs/C08Core.lean` (steps,
`Reach`), `C08Ops.lean` (one lemma per method), `C08Inv.lean` (invariant `Inv8`, `Holds8`),
`C08Start.lean` (the state after `__enter__`), `C08Ack.lean`, `C08Send.lean` (`send()`).
-/
import NrfProofs.C08Start
import NrfProofs.C08Send

namespace Nrf.Props.C08
open Nrf Nrf.Spec Rf24

/-- the state after a sequence of calls (exceptions are caught by the caller: the state survives) -/
def runOps (ops : List Op) (s : DrvState) : DrvState := ops.foldl (fun s op => (exec (runOp op) s).2) s

/-- **C08_history.**  For EVERY sequence `ops` of `open_rx_pipe(p, a)`, `close_rx_pipe(p)`,
`open_tx_pipe(a)`, `auto_ack = b`, `set_auto_ack(b, p)`, `listen = b` (any pipe numbers, any
addresses of 1..5 bytes), from ANY state satisfying the invariant `Inv8` with ghost `u`, in ANY
world (any other radios, FIFOs, air, fault list), after each call:
 * it returned normally, or raised `IndexError` (pipe number outside 0..5) having changed nothing;
 * (1) after `listen = True`: CE high, PRIM_RX set, pipe 0 enabled with the user's address as the
   low bytes of RX_ADDR_P0 if the user has opened pipe 0, pipe 0 disabled otherwise;
 * (2) after `open_tx_pipe(t)`: if PRIM_RX = 0 and EN_AA bit 0 is set, pipe 0 is enabled and `t` is
   the low bytes of both RX_ADDR_P0 and TX_ADDR;
 * (3) `listen = v` leaves CE at `v`, no other call changes CE; CE is high exactly in the RX role;
   the radio never logged a PRIM_RX change with CE high;
 * the model's `_pipe0_read_addr` equals the ghost `user0`.
PREFIX-ONLY address clause (weaker than the property text "listens on the address the user last opened it
with … never on the TX address"): `RxEntryOk` / `TxReady` (Spec/Pipe0.lean) require the user's address
`a` only as the LOW `len(a)` bytes of RX_ADDR_P0 (`reg.take a.length = a`).  With a 3-byte
`open_rx_pipe(0, A1A2A3)` at address width 5, after an `open_tx_pipe(0102030405)` round trip the
register is `[A1, A2, A3, 04, 05]`: the 5-byte address the chip matches has changed and ends in
TX-address bytes, yet the invariant holds (the file's own example below).  The clause is the full
statement only for addresses as long as the address width (`aw ≤ |a|`). -/
theorem C08_history (ops : List Op) (s : DrvState) (u : Option Bytes) (hops : ∀ op ∈ ops, op.Valid)
    (hinv : Inv8 s u) (hlog : RoleLogClean s.radio) : Holds8 ops s u :=
  holds8_of_inv ops s u hops hinv hlog

/-- the invariant is an invariant: it holds after every call sequence, with the ghost advanced -/
theorem C08_invariant (ops : List Op) (s : DrvState) (u : Option Bytes) (hops : ∀ op ∈ ops, op.Valid)
    (hinv : Inv8 s u) : Inv8 (runOps ops s) (user0After u ops) := by
  induction ops generalizing s u with
  | nil => exact hinv
  | cons op rest ih =>
    exact ih _ _ (fun o ho => hops o (List.mem_cons_of_mem _ ho))
      (step_ok op s u hinv (hops op List.mem_cons_self)).1.inv

/-- the ghost `user0` coincides with the model's `_pipe0_read_addr` shadow after every sequence -/
theorem C08_user0_is_shadow (ops : List Op) (s : DrvState) (u : Option Bytes) (hops : ∀ op ∈ ops, op.Valid)
    (hinv : Inv8 s u) : (runOps ops s).d.pipe0ReadAddr = user0After u ops :=
  (C08_invariant ops s u hops hinv).user

/-- HYPOTHESES (not "any in-range object"): `htx` — the CONFIG shadow is in the TX role
(`d.config &&& 1 = 0`); an object that left its previous block listening re-enters with PRIM_RX = 1 and
CE low, so `CeMatchesRole` is false and the theorem does not apply; `huser` — `_pipe0_read_addr`, if set,
is 1..5 bytes and pipe 0 is open in the shadow; `hlog` — the radio's role log is clean.
**The start state.**  Right after `__enter__` of ANY object whose shadows are in range, which is
in the TX role and whose `_pipe0_read_addr` is consistent with its open-pipes shadow (in particular
every freshly constructed object: `None`), in ANY world with the object's radio in it: the
invariant holds with `user0 = _pipe0_read_addr`, CE is low, and — if the radio's role log was clean —
`C08_history` applies to every call sequence from there. -/
theorem C08_history_after_enter (ops : List Op) (d : Rf24) (w : World) (hops : ∀ op ∈ ops, op.Valid)
    (hrid : d.rid < w.radios.length) (hr : InRange d) (hshape : RadioShape (w.radio d.rid))
    (htx : d.config &&& 1 = 0)
    (huser : ∀ a, d.pipe0ReadAddr = some a → (1 ≤ a.length ∧ a.length ≤ 5) ∧ d.openPipes &&& 1 ≠ 0)
    (hlog : RoleLogClean (w.radio d.rid)) :
    (exec enter ⟨d, w⟩).1 = .ok () ∧ (exec enter ⟨d, w⟩).2.radio.ce = false ∧
    Inv8 (exec enter ⟨d, w⟩).2 d.pipe0ReadAddr ∧ Holds8 ops (exec enter ⟨d, w⟩).2 d.pipe0ReadAddr := by
  obtain ⟨h1, h2, h3, h4⟩ := inv8_after_enter d w hrid hr hshape htx huser
  refine ⟨h1, h3, h2, C08_history ops _ _ hops h2 ?_⟩
  show roleLog ∉ (exec enter ⟨d, w⟩).2.radio.violations
  rw [h4]
  intro hmem
  rcases List.mem_append.mp hmem with h | h
  · exact hlog h
  · unfold enterLog at h
    split at h
    · simp [roleLog] at h
    · cases h

/-- **CE is not touched outside `listen =`.**  Every other call of the alphabet is, in every world,
a sequence of SPI transactions, shadow updates and sleeps — no CE edge — so CE stays high from the
end of `listen = True` until the next `listen =`. -/
theorem C08_ce_untouched (op : Op) (s : DrvState) (u : Option Bytes) (hv : op.Valid) (hinv : Inv8 s u)
    (hnl : ∀ v, op ≠ .listen v) :
    Reach false s (exec (runOp op) s).2 ∧ (exec (runOp op) s).2.radio.ce = s.radio.ce := by
  have h := (step_ok op s u hinv hv).1.noCE hnl
  exact ⟨h, h.ce_eq hinv.wf⟩

/-- needs `haw : aw ≤ |t|`: with a 3-byte TX address at address width 5, `canHear` is false while `TxReady` holds.
(2) is the ACK-reception condition of the air model (`Air.lean`, `attemptLoop`: pipe 0 enabled and
`RX_ADDR_P0[0:aw] = TX_ADDR[0:aw]`) whenever the address width does not exceed `|t|` -/
theorem C08_txready_canhear (r : Radio) (t : Bytes) (h : TxReady t r) (hrole : r.config &&& 1 = 0)
    (haa : r.enAA &&& 1 ≠ 0) (haw : r.aw ≤ t.length) :
    (Radio.bit r.enRxAddr 0 && r.rxAddr0.take r.aw == r.txAddr.take r.aw) = true :=
  canHear_of_txReady r t h hrole haa haw

example : ∃ (r : Radio) (t : Bytes), TxReady t r ∧ r.config &&& 1 = 0 ∧ r.enAA &&& 1 ≠ 0 ∧ r.aw ≤ t.length ∧ t ≠ r.rxAddr1 :=
  ⟨{ config := 0x0E, enRxAddr := 1, rxAddr0 := [1, 2, 3, 4, 5], txAddr := [1, 2, 3, 4, 5] }, [1, 2, 3, 4, 5], by decide⟩

/-- **C08_ack, air-level core.**  In the loss-free world, a transmitter that can hear
acknowledgements (`canHear`: pipe 0 enabled and RX_ADDR_P0 = TX_ADDR on the address width — what
(2) establishes) gets its packet acknowledged on the first attempt as soon as some other radio
acknowledges it. -/
theorem C08_ack_core (w : World) (a b : Nat) (k : Packet) (left made : Nat) (hf : w.faults = [])
    (hcan : (w.radio a).canHear = true) (hb : b < w.radios.length) (hba : b ≠ a)
    (hack : ((w.radio b).receive k).2.isSome = true) :
    ∃ x, (World.attemptLoop a k (left + 1) made w).2 = (made + 1, some x) := by
  have h := World.attemptLoop_first a k left made w hf hcan (World.deliver_ack w a b k hb hba hack)
  obtain ⟨x, hx⟩ := Option.isSome_iff_exists.mp h.2
  exact ⟨x, by rw [h.1, hx]⟩

/-- HYPOTHESES ("ACKs are received after `open_tx_pipe`" holds only under ALL of them): TX role and
auto-ack on pipe 0; address width `aw ≤ |t|` (full-width TX address); both FIFOs of the sender empty;
ACK payloads off (`feature &&& 2 = 0`); loss-free air (`faults = []`); a payload `write()` accepts; a
listening peer with FIFO room (`PeerListens`).  Outside them (short TX address, pending payloads, ACK
payloads on, lossy air) nothing is claimed.
**C08_ack.**  From any state of the invariant, right after `open_tx_pipe(t)`: if the radio is in
the TX role with auto-ack on pipe 0 (the premise of (2)), the address width does not exceed `|t|`,
the sender is idle (both FIFOs empty) with ACK payloads off, the air is loss-free, the payload is
one `write()` accepts, and some other radio `b` is a listening peer for it (`PeerListens`: RX mode,
same channel / rate / CRC / address width, an enabled auto-ack pipe on the TX address, matching
payload-length rule, FIFO room) — then `send(buf)` returns `True` (not `False`, not an exception,
not a hang) and the caller's buffer is unchanged. -/
theorem C08_ack (s : DrvState) (u : Option Bytes) (t : Bytes) (b : Nat) (buf : Bytes) (m : Bool)
    (hinv : Inv8 s u) (ht : AddrOk t) :
    let s1 := (exec (openTxPipe t) s).2
    s1.radio.config &&& 1 = 0 → s1.radio.enAA &&& 1 ≠ 0 → s1.radio.aw ≤ t.length →
    s1.radio.txFifo = [] → s1.radio.rxFifo = [] → s1.radio.feature &&& 2 = 0 →
    s1.w.faults = [] →
    ¬ (s1.d.dynPl &&& 1 ≠ 0 ∧ (buf.isEmpty ∨ buf.length > 32)) → shapePayload s1.d buf ≠ [] →
    b < s1.w.radios.length → b ≠ s1.d.rid → PeerListens s1.radio (s1.w.radio b) (shapePayload s1.d buf) →
    ∃ s2, exec (send buf m false 0 false) s1 = (.ok (.bool true, buf), s2) := by
  intro s1 hrole haa haw htx hrx hnap hflt hlen hpay hb hbd hpeer
  obtain ⟨hstep, _⟩ := step_openTx t s u hinv ht
  have hs1 : (exec (runOp (.openTx t)) s).2 = s1 := rfl
  rw [hs1] at hstep
  have hready : TxReady t s1.radio := hstep.post
  have hcan := canHear_of_txReady s1.radio t hready hrole haa haw
  have hpwr : s1.radio.config &&& 2 = 2 := hstep.inv.pwr
  exact send_acked s1 b buf m hstep.inv.wf
    (ackWorld_of s1.d s1.radio s1.w b buf hpwr hrole haa hcan hnap htx hrx hflt hlen hpay ⟨hb, hbd⟩ hpeer)

/-! ### non-vacuity -/

/-- a fresh object's shadows, one radio: the hypotheses of `C08_history_after_enter` hold -/
example : ∃ (d : Rf24) (w : World), d.rid < w.radios.length ∧ InRange d ∧ RadioShape (w.radio d.rid) ∧
    d.config &&& 1 = 0 ∧ RoleLogClean (w.radio d.rid) ∧
    (∀ a, d.pipe0ReadAddr = some a → (1 ≤ a.length ∧ a.length ≤ 5) ∧ d.openPipes &&& 1 ≠ 0) :=
  ⟨{ rid := 0, config := 0x0C }, World.fresh 1,
   by decide, by decide, by decide, by decide, by decide, (fun a h => by cases h)⟩

set_option maxRecDepth 100000 in
/-- … and a state with a user address on pipe 0, in the RX role -/
example : ∃ (d : Rf24) (w : World) (ops : List Op), (∀ op ∈ ops, op.Valid) ∧
    (runOps ops (exec enter ⟨d, w⟩).2).radio.ce = true ∧
    user0After d.pipe0ReadAddr ops = some [0xA1, 0xA2, 0xA3] :=
  ⟨{ rid := 0, config := 0x0C }, World.fresh 1,
   [.openRx 0 [0xA1, 0xA2, 0xA3], .openTx [1, 2, 3, 4, 5], .listen true], by decide, by decide, by decide⟩

/-! ## the prefix clause at full address width (review item: "state on `take aw` with `aw ≤ |a|`") -/

/-- **What the chip matches on pipe 0.**  `RxEntryOk` / `TxReady` state the user's (resp. TX) address
    as the LOW `len(a)` bytes of the 5-byte register.  Whenever the address is at least as long as the
    radio's address width (`aw ≤ |a|` — always the case for the library's documented use: addresses of
    `address_length` bytes), the `aw` bytes the chip actually compares are exactly the address's first
    `aw` bytes: right after `listen = True` pipe 0 matches **the user's address and nothing else**
    (no byte of it can stem from an earlier `open_tx_pipe`), and after `open_tx_pipe(t)` in the TX role
    with auto-ack it matches `t`, which is also what TX_ADDR sends.  For a SHORTER address
    (`|a| < aw`) only the prefix statement holds — the remaining `aw − |a|` bytes are whatever the
    register held (the documented partial write; the example of the header). -/
theorem C08_full_width (r : Radio) :
    (∀ a, RxEntryOk (some a) r → r.aw ≤ a.length → (r.rxAddr 0).take r.aw = a.take r.aw) ∧
    (∀ t, TxReady t r → r.config &&& 1 = 0 → r.enAA &&& 1 ≠ 0 → r.aw ≤ t.length →
      (r.rxAddr 0).take r.aw = t.take r.aw ∧ r.txAddr.take r.aw = t.take r.aw) := by
  have key : ∀ (a reg : Bytes) (n : Nat), IsPrefix a reg → n ≤ a.length → reg.take n = a.take n := by
    intro a reg n h hn
    unfold IsPrefix at h
    rw [← h, List.take_take, Nat.min_eq_left hn]
  refine ⟨fun a h haw => ?_, fun t h h0 h1 haw => ?_⟩
  · exact key a _ _ h.2.2.2 haw
  · obtain ⟨_, h2, h3⟩ := h h0 h1
    exact ⟨key t _ _ h2 haw, key t _ _ h3 haw⟩

/-- both hypotheses instantiated: a radio right after `listen = True` on the user's 5-byte address at
    address width 5, and one right after `open_tx_pipe` of a 5-byte address -/
example :
    RxEntryOk (some [1, 2, 3, 4, 5]) { config := 0x0F, ce := true, enRxAddr := 1, rxAddr0 := [1, 2, 3, 4, 5] } ∧
    ({ config := 0x0F, ce := true, enRxAddr := 1, rxAddr0 := [1, 2, 3, 4, 5] } : Radio).aw ≤ 5 ∧
    TxReady [9, 8, 7, 6, 5] { config := 0x0E, enAA := 0x3F, enRxAddr := 1, rxAddr0 := [9, 8, 7, 6, 5],
                              txAddr := [9, 8, 7, 6, 5] } := by decide

/-- … and why the side condition is needed: a 3-byte user address at width 5 after an
    `open_tx_pipe(0102030405)` round trip satisfies `RxEntryOk`, but the chip matches `A1 A2 A3 04 05` -/
example :
    RxEntryOk (some [0xA1, 0xA2, 0xA3])
      { config := 0x0F, ce := true, enRxAddr := 1, rxAddr0 := [0xA1, 0xA2, 0xA3, 4, 5] } ∧
    (({ config := 0x0F, ce := true, enRxAddr := 1, rxAddr0 := [0xA1, 0xA2, 0xA3, 4, 5] } : Radio).rxAddr 0).take 5
      = [0xA1, 0xA2, 0xA3, 4, 5] := by decide

namespace Demo
/-- two radios: the sender's object right after `__enter__` (registers = its default shadows), and a
    peer listening on pipe 1 with the default configuration -/
def t5 : Bytes := [0x31, 0x32, 0x33, 0x34, 0x35]
def senderR : Radio :=
  { config := 0x0E, enAA := 0x3F, enRxAddr := 0, feature := 5, dynpd := 0x3F, rfCh := 76, rfSetup := 7,
    setupRetr := 0x5F, rxAddr0 := [0, 0, 0, 0, 0], txAddr := [0, 0, 0, 0, 0] }
def peerR : Radio :=
  { config := 0x0F, ce := true, enAA := 0x3F, enRxAddr := 2, rxAddr1 := t5, feature := 5, dynpd := 0x3F,
    rfCh := 76, rfSetup := 7, setupRetr := 0x5F }
def s0 : DrvState := ⟨{ rid := 0, config := 0x0E }, { radios := [senderR, peerR], busyUntil := [0, 0] }⟩

/-- the invariant holds in that state -/
example : Inv8 s0 none :=
  ⟨(by unfold DrvState.Wf; decide), by decide, by decide, by decide, by decide, by decide, by decide, by decide,
   by decide, by decide, by decide, by decide, by decide, (fun a h => by cases h), by decide, by decide⟩

set_option maxRecDepth 100000 in
/-- every hypothesis of `C08_ack` holds in this world, for the payload `b"p"` -/
example :
    let s1 := (exec (openTxPipe t5) s0).2
    AddrOk t5 ∧ s1.radio.config &&& 1 = 0 ∧ s1.radio.enAA &&& 1 ≠ 0 ∧ s1.radio.aw ≤ t5.length ∧
    s1.radio.txFifo = [] ∧ s1.radio.rxFifo = [] ∧ s1.radio.feature &&& 2 = 0 ∧ s1.w.faults = [] ∧
    ¬ (s1.d.dynPl &&& 1 ≠ 0 ∧ (([0x70] : Bytes).isEmpty ∨ ([0x70] : Bytes).length > 32)) ∧
    shapePayload s1.d [0x70] ≠ [] ∧ 1 < s1.w.radios.length ∧ 1 ≠ s1.d.rid ∧
    PeerListens s1.radio (s1.w.radio 1) (shapePayload s1.d [0x70]) := by
  refine ⟨by decide, by decide, by decide, by decide, by decide, by decide, by decide, by decide, by decide,
    by decide, by decide, by decide, 1, by decide, by decide, by decide⟩

end Demo

end Nrf.Props.C08
