/-
C06 — "Whatever subset, duplication, reordering or interleaving - from one or from several
senders - of fragment frames a node receives, every message its queue hands to the application is
byte-for-byte one complete message that some node actually sent to it, carrying that message's type
and origin.  Incomplete, out-of-sequence or repeated fragments are discarded rather than spliced
into a message, and one transmitted message is delivered at most once."

Model: `NrfModel/Net/Queue.lean` (`QState.runEv`: a history is any list over
{`deliver f` — `_net_update` unpacked a payload into a frame object and enqueues it —, `read` —
the application dequeues}); spec: `NrfModel/Spec/Reassembly.lean` (`SafeOut`), the frames of a
message: `NrfModel/Spec/Wire.lean` (`refFrames`, tied to the real sender by C11).

The theorems are about `Fixes.all`: the code after the three repairs
  D6 (fragments matched on destination+id only → two senders spliced),
  D7 (LAST exempt from the sequence test → missing middle delivered),
  D8 (cache still valid after delivery → repeated LAST delivers a longer message);
`C06_D6_witness`, `C06_D7_witness`, `C06_D8_witness` show the code as found violating safety.

Hypotheses (all necessary, see `Nrf.Proofs.MsgOk` / `SentOk` / `IsFrameOf`): what arrives are frames
of sent messages (no forged frames) — any of them, any number of times, in any order, from any
number of senders, with frame ids coinciding across senders; two *fragmented* messages of one
origin to one destination do not share a frame id; an origin is never 0o7777; a message has at most
255 fragments; a one-frame message does not use the type codes 148..150.

at-most-once: FULL STATEMENT (false, known finding C06-complete-replay):
  "for every history, every sent message is handed out at most once".
It fails exactly when every fragment of the message arrives a second time as a complete in-order
train after the first copy was dequeued (`C06_replay_residue`; also in TMRh20's RF24Network, also for
plain frames: nothing remembers delivered ids).  Proved instead, `C06_at_most_once_partial`: the number of
times a fragmented message is handed out is bounded by the number of deliveries of *each* of its
fragments — so a message one of whose fragments arrived only once is handed out at most once.
-/
import NrfProofs.ReasmCount

namespace Nrf.Props.C06
open Nrf.Net Nrf.Spec Nrf.Proofs

/-- the frames a history delivered, as they were on the air -/
def received (es : List Ev) : List WFrame := (delivered es).map toW

/-- every delivery of the history is a frame of a sent message -/
def FromSent (sent : List Msg) (es : List Ev) : Prop :=
  ∀ f, Ev.deliver f ∈ es → ∃ w, IsFrameOf sent w ∧ f = ofW w

/-- **safety**: for every history of deliveries (any frames of any sent messages, in any order and
    multiplicity) and reads, every frame handed to the application is (origin, destination, id,
    type, bytes) of a sent message all of whose frames were received -/
theorem C06_safety (sent : List Msg) (hs : SentOk sent) (n : Nat) (es : List Ev) (hes : FromSent sent es) :
    ∀ g ∈ ((QState.init n).runEv Fixes.all es).2, SafeOut sent (received es) (toW g) := by
  have hwf : WF (QState.init n) := by simp [WF, QState.init, Frame.fresh]
  obtain ⟨_, h2, _⟩ := abs_runEv Fixes.all es (QState.init n) hwf
  obtain ⟨_, hout⟩ := vinv_run sent hs es _ [] (vinv_init sent hs n) hes
  intro g hg
  rw [h2] at hg
  obtain ⟨m, hm, hw, hc⟩ := hout g hg
  rw [List.nil_append] at hc
  exact safeOut_of sent hs (delivered es) g m hm hw hc

/-- the same at the moment of a read: what `dequeue()` returns after the history `es` is a sent
    message all of whose frames had been received *by then* -/
theorem C06_safety_at_read (sent : List Msg) (hs : SentOk sent) (n : Nat) (es : List Ev)
    (hes : FromSent sent es) (o : Nat)
    (ho : ((QState.init n).runEv Fixes.all es).1.dequeue.2 = some o) :
    SafeOut sent (received es)
      (toW (((QState.init n).runEv Fixes.all es).1.dequeue.1.heap o)) := by
  have hwf : WF (QState.init n) := by simp [WF, QState.init, Frame.fresh]
  obtain ⟨h1, _, h3⟩ := abs_runEv Fixes.all es (QState.init n) hwf
  obtain ⟨hinv, _⟩ := vinv_run sent hs es _ [] (vinv_init sent hs n) hes
  rw [← h1, List.nil_append] at hinv
  obtain ⟨_, hd⟩ := vinv_dequeue sent (delivered es) _ hinv
  obtain ⟨_, _, d3⟩ := abs_dequeue _ h3
  rw [ho] at d3
  obtain ⟨m, hm, hw, hc⟩ := hd _ d3.symm
  exact safeOut_of sent hs (delivered es) _ m hm hw hc

/-- **at most once, partial**: a fragmented sent message is handed out at most as many times as
    *each* of its fragments was delivered -/
theorem C06_at_most_once_partial (sent : List Msg) (hs : SentOk sent) (n : Nat) (es : List Ev)
    (hes : FromSent sent es) (m : Msg) (hm : m ∈ sent) (hf : Fragd m) (i : Nat) (hi : i < total m) :
    (((QState.init n).runEv Fixes.all es).2.countP fun g => decide (IsWholeOf m g)) ≤
      (delivered es).count (fragF m i) := by
  have hwf : WF (QState.init n) := by simp [WF, QState.init, Frame.fresh]
  obtain ⟨_, h2, _⟩ := abs_runEv Fixes.all es (QState.init n) hwf
  have := count_run sent hs m hm hf i hi es _ [] (vinv_init sent hs n) hes
  rw [load_init sent hs m hm i n] at this
  rw [h2]
  omega

/-- hence: if some fragment of the message arrived only once (the normal case: the radio's own
    duplicate filter and the sender's id counter see to that), it is handed out at most once -/
theorem C06_at_most_once_if_a_fragment_once (sent : List Msg) (hs : SentOk sent) (n : Nat)
    (es : List Ev) (hes : FromSent sent es) (m : Msg) (hm : m ∈ sent) (hf : Fragd m)
    (h1 : ∃ i, i < total m ∧ (delivered es).count (fragF m i) ≤ 1) :
    (((QState.init n).runEv Fixes.all es).2.countP fun g => decide (IsWholeOf m g)) ≤ 1 := by
  obtain ⟨i, hi, hc⟩ := h1
  exact Nat.le_trans (C06_at_most_once_partial sent hs n es hes m hm hf i hi) hc

/-- never two copies at once: at every point of every history the queue holds no two frames with
    the same origin, frame id and type — a repeated train is refused while the first copy waits -/
theorem C06_never_two_copies_queued (sent : List Msg) (hs : SentOk sent) (n : Nat) (es : List Ev)
    (hes : FromSent sent es) :
    ((QState.init n).runEv Fixes.all es).1.contents.Pairwise (fun a b => Net.sameKey a b = false) := by
  have hwf : WF (QState.init n) := by simp [WF, QState.init, Frame.fresh]
  obtain ⟨h1, _, _⟩ := abs_runEv Fixes.all es (QState.init n) hwf
  have h0 : NoDupV (abs (QState.init n)) := by
    simp [NoDupV, abs, QState.init, QState.contents, Frame.fresh]
  have := nodup_run sent hs es _ [] (vinv_init sent hs n) h0 hes
  rw [← h1] at this
  exact this

/-! ### witnesses -/

/-- 25 bytes from node 0o1 (id 5, type 2) and 49 bytes from node 0o2 (same id 5, type 1) -/
def mA : Msg := ⟨1, 0, 5, 2, List.replicate 24 0xA0 ++ [0xA1]⟩
def mB : Msg := ⟨2, 0, 5, 1, List.replicate 24 0xB0 ++ List.replicate 24 0xB1 ++ [0xB2]⟩

/-- non-vacuity: the hypotheses are satisfiable by two senders using the same frame id -/
example : SentOk [mA, mB] := by
  refine ⟨?_, ?_⟩
  · intro m hm
    simp only [List.mem_cons, List.mem_nil_iff, or_false] at hm
    rcases hm with rfl | rfl <;> decide
  · intro m hm m' hm' _ _ h1 _ _
    simp only [List.mem_cons, List.mem_nil_iff, or_false] at hm hm'
    rcases hm with rfl | rfl <;> rcases hm' with rfl | rfl <;> first | rfl | (simp [mA, mB] at h1)

/-- … and `FromSent` by any history made of their fragments -/
example : FromSent [mA, mB] [.deliver (fragF mA 0), .read, .deliver (fragF mB 2), .deliver (fragF mA 0)] := by
  intro f hf
  simp only [List.mem_cons, Ev.deliver.injEq, List.mem_nil_iff, or_false, reduceCtorEq,
    false_or] at hf
  rcases hf with rfl | rfl | rfl
  · exact ⟨_, ⟨mA, by simp, Or.inr ⟨by decide, 0, by decide, rfl⟩⟩, rfl⟩
  · exact ⟨_, ⟨mB, by simp, Or.inr ⟨by decide, 2, by decide, rfl⟩⟩, rfl⟩
  · exact ⟨_, ⟨mA, by simp, Or.inr ⟨by decide, 0, by decide, rfl⟩⟩, rfl⟩

/-- … and a history over them in which the interleaved streams are kept apart: `mA` is handed out
    intact, the fragments of `mB` that arrive in between are dropped (one cache) -/
example : ((QState.init 0).runEv Fixes.all
    [.deliver (fragF mA 0), .deliver (fragF mB 1), .deliver (fragF mB 2), .deliver (fragF mA 1),
     .read, .read]).2.map toW = [⟨1, 0, 5, 2, 2, mA.body⟩] := by decide

/-- D6, code as found: FIRST of `mA` (origin 0o1) then LAST of `mB` (origin 0o2, same id) is handed
    out as a message "from 0o2" made of bytes of both -/
theorem C06_D6_witness :
    ((QState.init 0).runEv Fixes.none [.deliver (fragF mA 0), .deliver (fragF mB 2), .read]).2.map toW
      = [⟨2, 0, 5, 1, 1, List.replicate 24 0xA0 ++ [0xB2]⟩] ∧
    ((QState.init 0).runEv Fixes.all [.deliver (fragF mA 0), .deliver (fragF mB 2), .read]).2 = [] := by
  decide

/-- D7, code as found: FIRST(3 expected) then LAST of `mB`: the middle 24 bytes are missing -/
theorem C06_D7_witness :
    ((QState.init 0).runEv Fixes.none [.deliver (fragF mB 0), .deliver (fragF mB 2), .read]).2.map toW
      = [⟨2, 0, 5, 1, 1, List.replicate 24 0xB0 ++ [0xB2]⟩] ∧
    ((QState.init 0).runEv Fixes.all [.deliver (fragF mB 0), .deliver (fragF mB 2), .read]).2 = [] := by
  decide

/-- D8, code as found: FIRST, LAST of `mA`, read, LAST again, read: a 26-byte message nobody sent -/
theorem C06_D8_witness :
    ((QState.init 0).runEv Fixes.none
      [.deliver (fragF mA 0), .deliver (fragF mA 1), .read, .deliver (fragF mA 1), .read]).2.map toW
      = [⟨1, 0, 5, 2, 2, mA.body⟩, ⟨1, 0, 5, 2, 2, mA.body ++ [0xA1]⟩] ∧
    ((QState.init 0).runEv Fixes.all
      [.deliver (fragF mA 0), .deliver (fragF mA 1), .read, .deliver (fragF mA 1), .read]).2.map toW
      = [⟨1, 0, 5, 2, 2, mA.body⟩] := by
  decide

/-- the residue (known finding C06-complete-replay), repaired code: a complete second train after
    the first copy was read is handed out again; while the first copy is still queued it is not -/
theorem C06_replay_residue :
    ((QState.init 0).runEv Fixes.all
      [.deliver (fragF mA 0), .deliver (fragF mA 1), .read, .deliver (fragF mA 0),
       .deliver (fragF mA 1), .read]).2.length = 2 ∧
    ((QState.init 0).runEv Fixes.all
      [.deliver (fragF mA 0), .deliver (fragF mA 1), .deliver (fragF mA 0),
       .deliver (fragF mA 1), .read, .read]).2.length = 1 := by
  decide

end Nrf.Props.C06
