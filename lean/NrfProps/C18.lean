/-
C18 — "Every advertisement is a well-formed BLE packet for the channel it is sent on."

For any MAC, optional name, optional PA-level field and data chunks that fit, `advertise()` loads a
radio payload that — read as the on-air bit stream of the BLE advertising channel corresponding to
the frequency the radio is tuned to — de-whitens to a non-connectable advertising PDU with the
correct length byte, the configured MAC, the flags field, the optional fields and the caller's
chunks verbatim, followed by the correct BLE CRC-24.  `len_available()` equals the exact number of
bytes still free, and `advertise()` raises `ValueError` exactly when the packet would not fit in 32
bytes.  The whitening channel matches the tuned frequency after any sequence of `hop_channel()`
calls, channel assignments and `with` blocks.

Model: `NrfModel/Ble/*.lean` (transliteration of `fake_ble.py`).  Spec: `NrfModel/Spec/
BleLinkLayer.lean` (bit-serial receiver written from the Bluetooth Core Specification).
-/
import NrfProofs.Ble.Ads
import NrfProofs.Ble.Channel

namespace Nrf.Props.C18
open Nrf.Ble Nrf.Spec.BleLL Nrf.Proofs.Ble

/-- Python `bytes` arguments hold values `< 256` -/
def argWf : AdvArg → Prop
  | .bytes buf _ => buf.wf
  | .list cs => ∀ c ∈ cs, Bytes.wf c
  | .other => True

/-- the PDU payload the property demands: AdvA, the flags structure `02 01 05`, the optional TX
    power structure `02 0A pp`, the optional name structure `len 08 name…`, then the caller's bytes -/
def expectedPayload (s : Ble) (r : Radio) (user : Bytes) : Bytes :=
  s.mac ++ [2, 0x01, 0x05]
    ++ (if s.showDbm then [2, 0x0A, (r.paLevel % 256).toNat] else [])
    ++ (match s.name with
        | some n => [n.length + 1, 0x08] ++ n
        | none => [])
    ++ user

/-- **C18_wellformed.**  For every object state with a 6-byte MAC whose whitening index stands for
    the frequency the radio is tuned to (`BLE_FREQ[_curr_freq] = RF_CH`, see `C18_channel`), every
    name, PA setting (`RF_SETUP` arbitrary, hence every PA level) and every argument of
    `advertise` for which it returns normally: the bytes handed to `send`, followed by whatever the
    radio pads the 32-byte payload with, are received by the bit-serial BLE link-layer receiver on
    the channel of `RF_CH` as the PDU `0x42, len, MAC ‖ flags ‖ [pa] ‖ [name] ‖ user bytes` —
    i.e. the length byte is `len(payload)` and the 24 bits after it are the correct CRC. -/
theorem C18_wellformed (s : Ble) (r : Radio) (a : AdvArg) (sent pad : Bytes)
    (hmac : s.mac.length = 6) (hmacwf : s.mac.wf) (hnamewf : ∀ n, s.name = some n → n.wf)
    (hargwf : argWf a) (hpadwf : pad.wf)
    (htuned : BLE_FREQ[s.currFreq]? = some r.rfCh)
    (hsent : s.advertise r a = .ok sent) :
    ∃ user, userBytes a = some user ∧
      bleReceive r.rfCh (airBits (sent ++ pad)) =
        some ⟨ADV_NONCONN_IND_RANDOM, (expectedPayload s r user).length, expectedPayload s r user⟩ := by
  rw [advertise_char] at hsent
  cases hu : userBytes a with
  | none => rw [hu] at hsent; cases hsent
  | some user =>
    rw [hu] at hsent
    simp only at hsent
    split at hsent
    · cases hsent
    · rename_i hfit
      cases hsent
      have huwf : user.wf := by
        cases a with
        | other => cases hu
        | list cs =>
          simp only [userBytes, Option.some.injEq] at hu; subst hu
          intro x hx
          obtain ⟨c, hc, hxc⟩ := List.mem_flatten.1 hx
          exact hargwf c hc x hxc
        | bytes buf t =>
          simp only [userBytes, Option.some.injEq] at hu; subst hu
          split
          · exact wf_nil
          · rename_i hne
            have hl : buf.length + 1 < 256 := by
              have : ¬ s.lenAvailable ((buf.length + 1) :: (t &&& 0xFF) :: buf) < 0 := by
                simpa [hne] using hfit
              simp [Ble.lenAvailable] at this; omega
            have ht : t &&& 0xFF < 256 := Nat.lt_of_le_of_lt Nat.and_le_right (by decide)
            exact wf_cons.2 ⟨hl, wf_cons.2 ⟨ht, hargwf⟩⟩
      refine ⟨user, rfl, ?_⟩
      have h := (receive_packet s r.rfCh r user pad hmac hmacwf hnamewf huwf hpadwf (by omega)
        htuned).1
      rw [h]
      have e : expectedPayload s r user = advBody s r user := rfl
      rw [e, advBody_length]
      simp only [ADV_NONCONN_IND_RANDOM]
      congr 2; omega

/-- **C18_wellformed_ads.**  … and when the caller's chunks are AD structures (as produced by
    `chunk()`), the PDU parses as AdvA = MAC and the AD structures flags `01:05`, `[0A:pa]` whose
    value decodes to the radio's PA level, `[08:name]`, then the caller's structures verbatim. -/
theorem C18_wellformed_ads (s : Ble) (r : Radio) (uads : List (Nat × Bytes)) (sent pad : Bytes)
    (hmac : s.mac.length = 6) (hmacwf : s.mac.wf) (hnamewf : ∀ n, s.name = some n → n.wf)
    (hargwf : ∀ a ∈ uads, Bytes.wf (encodeAd a)) (hpadwf : pad.wf)
    (htuned : BLE_FREQ[s.currFreq]? = some r.rfCh)
    (hsent : s.advertise r (.list (uads.map encodeAd)) = .ok sent) :
    ∃ pdu, bleReceive r.rfCh (airBits (sent ++ pad)) = some pdu ∧
      pdu.header = ADV_NONCONN_IND_RANDOM ∧ pdu.length = pdu.payload.length ∧
      parseAdv pdu = some ⟨s.mac,
        (0x01, [0x05]) :: ((if s.showDbm then [(0x0A, [(r.paLevel % 256).toNat])] else [])
          ++ (match s.name with | some n => [(0x08, n)] | none => []) ++ uads)⟩ ∧
      txPower [(r.paLevel % 256).toNat] = some r.paLevel := by
  obtain ⟨user, hu, hrecv⟩ := C18_wellformed s r _ sent pad hmac hmacwf hnamewf
    (by intro c hc; obtain ⟨a, ha, rfl⟩ := List.mem_map.1 hc; exact hargwf a ha) hpadwf htuned hsent
  simp only [userBytes, Option.some.injEq] at hu
  subst hu
  refine ⟨_, hrecv, rfl, rfl, ?_, txPower_pa r⟩
  have e : expectedPayload s r (uads.map encodeAd).flatten = advBody s r (encodeAds uads) := rfl
  simp only [parseAdv, e, advBody_ads]
  have hl : ¬ (s.mac ++ encodeAds ((1, [5]) :: (paAd s r ++ nameAd s ++ uads))).length < 6 := by
    simp [hmac]
  simp only [hl, ↓reduceIte]
  rw [show (6 : Nat) = s.mac.length from hmac.symm, List.drop_left, List.take_left, parseAds_encode]
  rfl

/-- bytes of the 32-byte radio payload used by a packet: 2 header + 6 AdvA + 3 flags + [3 PA]
    + [2 + len name] + user bytes + 3 CRC -/
def packetSize (s : Ble) (user : Bytes) : Nat :=
  2 + 6 + 3 + (if s.showDbm then 3 else 0)
    + (match s.name with | some n => 2 + n.length | none => 0) + user.length + 3

/-- **C18_capacity.**  `len_available(x)` is exactly `32 −` the size of the packet that carries
    `x`; `advertise` (for `bytes` and `list`/`tuple` arguments) raises `ValueError` iff that
    packet needs more than 32 bytes, and otherwise hands `send` exactly that many bytes (so it
    raises nothing else). -/
theorem C18_capacity (s : Ble) (r : Radio) (a : AdvArg) (user : Bytes)
    (hmac : s.mac.length = 6) (hu : userBytes a = some user) :
    s.lenAvailable user = 32 - (packetSize s user : Int) ∧
    (s.advertise r a = .error .valueError ↔ 32 < packetSize s user) ∧
    (packetSize s user ≤ 32 →
      ∃ sent, s.advertise r a = .ok sent ∧ sent.length = packetSize s user) := by
  have hlen : s.lenAvailable user = 32 - (packetSize s user : Int) := by
    unfold Ble.lenAvailable packetSize Ble.nameLength showDbm3
    cases s.showDbm <;> cases s.name <;> simp <;> omega
  refine ⟨hlen, ?_, ?_⟩
  · rw [advertise_char, hu]
    simp only
    split
    · constructor
      · intro _; omega
      · intro _; rfl
    · constructor
      · intro h; cases h
      · intro h; omega
  · intro hfit
    rw [advertise_char, hu]
    have : ¬ s.lenAvailable user < 0 := by omega
    simp only [this, ↓reduceIte]
    refine ⟨_, rfl, ?_⟩
    rw [reverseBits_length, Ble.whiten, whitener_length, packet_length, hmac]
    unfold packetSize Ble.nameLength showDbm3
    cases s.showDbm <;> cases s.name <;> simp <;> omega

/-- **C18_channel.**  After **every** history of `hop_channel()`, `channel = v` (valid or not),
    `with`-block exits and entries, other objects reprogramming the shared radio between blocks,
    and name / show_pa_level / mac / pa_level assignments, starting from a freshly constructed
    object: the whitening index stands for the shadowed channel (`BLE_FREQ[_curr_freq] =
    _channel`), and whenever this object was the last to program register 5 (own `hop_channel`,
    valid channel assignment or `__enter__` later than any foreign write) the radio is tuned to it:
    `BLE_FREQ[_curr_freq] = RF_CH`. -/
theorem C18_channel (mac : Bytes) (ops : List ChanOp) :
    let w := runOps (World.init mac) ops
    BLE_FREQ[w.ble.currFreq]? = some w.ble.channel ∧
      (w.owner = true → BLE_FREQ[w.ble.currFreq]? = some w.radio.rfCh) := by
  have h := chanInv_run (World.init mac) ops (chanInv_init mac)
  exact ⟨h.1, fun ho => by rw [h.2 ho]; exact h.1⟩

/-- **C18_channel_total.**  In every reachable state `hop_channel()` and `channel = v` return
    normally (no `IndexError` / `ValueError` from `BLE_FREQ[...]` / `.index`). -/
theorem C18_channel_total (mac : Bytes) (ops : List ChanOp) (v : Nat) :
    let w := runOps (World.init mac) ops
    (∃ x, w.ble.hopChannel w.radio = .ok x) ∧ (∃ x, w.ble.setChannel w.radio v = .ok x) := by
  have h := chanInv_run (World.init mac) ops (chanInv_init mac)
  have hc := chanInv_cases h
  constructor
  · obtain ⟨i, v, _, hs⟩ := hopChannel_ok _ (runOps (World.init mac) ops).radio
      (show (runOps (World.init mac) ops).ble.currFreq < 3 by omega)
    exact ⟨_, hs⟩
  · by_cases hv : v ∈ BLE_FREQ
    · obtain ⟨i, _, hs⟩ := setChannel_valid (runOps (World.init mac) ops).ble
        (runOps (World.init mac) ops).radio v hv
      exact ⟨_, hs⟩
    · exact ⟨_, setChannel_invalid _ _ _ hv⟩

/-! ### non-vacuity -/

/-- a concrete advertisement on channel 39 (RF_CH 80) after `channel = 80`, with a name, the PA
    level and a 2-byte manufacturer chunk: `advertise` returns normally, the hypotheses of
    `C18_wellformed` hold, and the spec receiver indeed decodes it -/
example :
    let w := runOps (World.init (urandom 6)) [.chan 80, .name (.bytes [0x61, 0x62]), .showPa true]
    w.owner = true ∧ w.ble.mac.length = 6 ∧ BLE_FREQ[w.ble.currFreq]? = some w.radio.rfCh ∧
    w.radio.rfCh = 80 ∧
    (match w.ble.advertise w.radio (.bytes [1, 2] 0xFF) with
     | .ok sent => sent.length == 25 &&
        (bleReceive 80 (airBits (sent ++ zeros 7))).map (·.payload) ==
          some ([0xA0, 0xA1, 0xA2, 0xA3, 0xA4, 0xA5, 2, 1, 5, 2, 0x0A, 0, 3, 8, 0x61, 0x62,
                 3, 0xFF, 1, 2])
     | .error _ => false) = true := by
  decide +kernel

/-- the capacity boundary is real: 18 free bytes without name and PA level, 19 do not fit -/
example :
    let s := (Ble.init (urandom 6)).1
    let r := (Ble.init (urandom 6)).2
    s.lenAvailable [] = 18 ∧
    (match s.advertise r (.list [List.replicate 18 7]) with
     | .ok sent => sent.length == 32 | .error _ => false) = true ∧
    (match s.advertise r (.list [List.replicate 19 7]) with
     | .ok _ => false | .error e => e == .valueError) = true := by
  decide +kernel

end Nrf.Props.C18
