/-
C01 — link payload integrity: what send() is given is what the peer's read() returns.

Setting: a driver state `s` (the transmitter's object over its radio `s.d.rid`) in a world with any
number of radios; the receiver is radio `j`; `Compatible s j p dyn` (`Spec/Link.lean`) spells out
"configured compatibly": same channel / rate / packet format / CRC / address width, receiver
listening, `p` the lowest enabled receiver pipe whose address equals the TX address on the address
width, both ends and the transmitter's driver in the same payload-length mode `dyn`, static width
of pipe `p` = the length the driver pads to (1..32), undisturbed air (`faults = []`).
`SendPre` / `AckEnv` are the hypotheses of C02 (PTX, TX FIFO empty or about to be flushed, payload
passes `write()`'s check).  All theorems hold for every payload content and length, both buffer
kinds, every `force_retry : Nat`, `ask_no_ack` / `send_only` on or off, every channel, rate, CRC,
address width and pipe that satisfy `Compatible` — these are universally quantified, not enumerated.
-/
import NrfProofs.C01Write
import NrfProps.C10

namespace Nrf.Props.C01
open Nrf Rf24 Spec.Link

/-- **Delivery.**  After `send(buf)` to a compatible receiver that has room and has not just
    received the very same packet (same PID, address and payload — the chip's duplicate rule, see
    `C01_consecutive_not_dup`), the receiver's RX FIFO has gained **exactly one** entry, at its tail:
    the expected payload (zero-padded / truncated to the static length, or unchanged in dynamic mode),
    attributed to pipe `p`; RX_DR is latched; the receiver's registers are untouched.  For every
    `force_retry`, with or without auto-ack (repetitions of an ESB packet are dropped as duplicates:
    exactly once). -/
theorem C01_delivery (s : DrvState) (buf : Bytes) (m askNoAck : Bool) (n : Nat) (sendOnly : Bool) (j p : Nat) (dyn : Bool)
    (h : SendPre s buf sendOnly) (henv : AckEnv s.rad (s.sendPacket askNoAck buf) s) (hc : Compatible s j p dyn)
    (hroom : (s.w.radio j).rxFifo.length < 3)
    (hnd : (s.w.radio j).isDup (s.sendPacket askNoAck buf) = false) :
    ((exec (send buf m askNoAck (n : Int) sendOnly) s).2.w.radio j).rxFifo =
      (s.w.radio j).rxFifo ++ [⟨p, expectedPayload dyn (s.d.plLen.getD 0 0) buf⟩] ∧
    dataReady ((exec (send buf m askNoAck (n : Int) sendOnly) s).2.w.radio j) = true ∧
    ((exec (send buf m askNoAck (n : Int) sendOnly) s).2.w.radio j).cfgOf = (s.w.radio j).cfgOf := by
  have hlen : dyn = true → buf.length ≤ 32 := by
    intro hd
    have hm := hc.modeDrv
    rw [hd] at hm
    exact (h.lenOk (by simpa using hm)).2
  have hl := compat_listens s j p dyn askNoAck buf hc hlen
  rw [send_receiver s buf m askNoAck n sendOnly h henv hc.faults j hc.lt hc.ne]
  obtain ⟨h1, h2, _⟩ := receive_new_rx _ _ p hl hnd hroom
  refine ⟨?_, ?_, Radio.receive_cfgOf _ _⟩
  · rw [h1]
    have : (s.sendPacket askNoAck buf).data = (s.sendEntry askNoAck buf).data := rfl
    rw [this, sendEntry_data s j p dyn askNoAck buf hc hlen]
  · unfold dataReady
    rw [h2, Nat.and_or_distrib_right]
    have : ((s.w.radio j).flags &&& 0x40 ||| 0x40 &&& 0x40) ≠ 0 := by
      intro hz
      have := (Nat.or_eq_zero_iff.1 hz).2
      simp at this
    simp at this ⊢

/-- a world for the examples: radio 0 a PTX, radio 1 listening on the same address, 32-byte static
    payloads, auto-ack -/
def exState : DrvState :=
  { d := { dynPl := 0 },
    w := { radios := [{ config := 0x0E }, { config := 0x0F, ce := true, rxPw := [32, 0, 0, 0, 0, 0] }],
           busyUntil := [0, 0] } }

example : Compatible exState 1 0 false ∧ SendPre exState [1, 2, 3] false ∧ (exState.w.radio 1).rxFifo.length < 3 ∧
    (exState.w.radio 1).isDup (exState.sendPacket false [1, 2, 3]) = false :=
  ⟨⟨by decide, by decide, by decide, rfl, rfl, rfl, rfl, rfl, by decide, by decide, by decide, by decide, by decide,
    fun _ => by decide, rfl⟩,
   ⟨by decide, by decide, by decide, Or.inr rfl, fun _ => Or.inl rfl, fun h => absurd h (by decide), fun _ => by decide⟩,
   by decide, by decide⟩

example : expectedPayload false 5 [1, 2, 3] = [1, 2, 3, 0, 0] ∧ expectedPayload false 2 [1, 2, 3] = [1, 2] ∧
    expectedPayload true 5 [1, 2, 3] = [1, 2, 3] := by decide

/-- **Delivery through the non-blocking `write()`.**  From a powered-up PTX with an empty TX FIFO —
    CE low (the cycle starts when `write()` raises CE) **or already high** (as `send()` leaves it: the
    cycle starts inside the W_TX_PAYLOAD transaction) — `write(buf)` returns `True` with the caller's
    buffer, and a compatible receiver with room gains exactly the expected payload on pipe `p`, like
    with `send()`. -/
theorem C01_write_delivery (s : DrvState) (buf : Bytes) (m askNoAck : Bool) (j p : Nat) (dyn : Bool)
    (hw : s.Wf) (hp : s.rad.Ptx) (hpi : s.rad.RxPipes) (htx : s.rad.txFifo = [])
    (hlenOk : s.d.dynPl &&& 1 ≠ 0 → buf ≠ [] ∧ buf.length ≤ 32)
    (hc : Compatible s j p dyn)
    (hroom : (s.w.radio j).rxFifo.length < 3)
    (hnd : (s.w.radio j).isDup (s.sendPacket askNoAck buf) = false) :
    (exec (write buf m askNoAck) s).1 = .ok (true, buf) ∧
    ((exec (write buf m askNoAck) s).2.w.radio j).rxFifo =
      (s.w.radio j).rxFifo ++ [⟨p, expectedPayload dyn (s.d.plLen.getD 0 0) buf⟩] ∧
    dataReady ((exec (write buf m askNoAck) s).2.w.radio j) = true := by
  have hpadOk : s.d.dynPl &&& 1 = 0 → 1 ≤ s.d.plLen.getD 0 0 := by
    intro hd
    have hd' : ¬ (s.d.dynPl &&& 1 ≠ 0) := fun hh => hh hd
    have : dyn = false := by rw [← hc.modeDrv]; exact decide_eq_false hd'
    exact (hc.width this).2.1
  have hlen : dyn = true → buf.length ≤ 32 := by
    intro hd
    have hm := hc.modeDrv
    rw [hd] at hm
    exact (hlenOk (by simpa using hm)).2
  obtain ⟨h1, h2⟩ := write_receiver s buf m askNoAck hw hp hpi htx hlenOk hpadOk hc.faults j hc.lt hc.ne
  have hl := compat_listens s j p dyn askNoAck buf hc hlen
  obtain ⟨r1, r2, _⟩ := receive_new_rx _ _ p hl hnd hroom
  refine ⟨h1, ?_, ?_⟩
  · rw [h2, r1]
    have : (s.sendPacket askNoAck buf).data = (s.sendEntry askNoAck buf).data := rfl
    rw [this, sendEntry_data s j p dyn askNoAck buf hc hlen]
  · rw [h2]
    unfold dataReady
    rw [r2, Nat.and_or_distrib_right]
    have : ((s.w.radio j).flags &&& 0x40 ||| 0x40 &&& 0x40) ≠ 0 := by
      intro hz
      have := (Nat.or_eq_zero_iff.1 hz).2
      simp at this
    simp at this ⊢

example : exState.Wf ∧ exState.rad.Ptx ∧ exState.rad.RxPipes ∧ exState.rad.txFifo = [] :=
  ⟨by decide, by decide, by decide, rfl⟩

/-- `p` in `Compatible` in the words of the property: `p ≤ 5` is enabled, its address equals the TX
    address on the address width, and no lower-numbered enabled pipe matches -/
theorem C01_pipe_iff (r : Radio) (a : Bytes) (p : Nat) :
    r.matchPipe a = some p ↔
      (p ≤ 5 ∧ (Radio.bit r.enRxAddr p && (r.rxAddr p).take r.aw == a) = true ∧
       ∀ q, q < p → (Radio.bit r.enRxAddr q && (r.rxAddr q).take r.aw == a) = false) := by
  unfold Radio.matchPipe
  have hr : [0, 1, 2, 3, 4, 5] = List.range 6 := by decide
  rw [hr, find_range]
  constructor
  · rintro ⟨h1, h2, h3⟩; exact ⟨by omega, h2, h3⟩
  · rintro ⟨h1, h2, h3⟩; exact ⟨by omega, h2, h3⟩

/-- **The peer's `read()` returns it, and `pipe` says `p`.**  Any driver object `d2` on the
    receiver's radio `j` (any shadow state), RX FIFO empty before the `send()`: after `send(buf)`,
    `update()` makes `pipe` = `p`, `available()`-style accessors see the payload (`C10_cached`), and
    `read()` returns exactly the expected payload, leaving the RX FIFO empty — so a further `read()`
    returns `None` (`C10_read_empty`): exactly once.  (`hsh`: in static mode the receiver's `_pl_len`
    shadow of pipe `p` mirrors RX_PW — the C03 invariant.) -/
theorem C01_read_back (s : DrvState) (buf : Bytes) (m askNoAck : Bool) (n : Nat) (sendOnly : Bool) (j p : Nat) (dyn : Bool)
    (h : SendPre s buf sendOnly) (henv : AckEnv s.rad (s.sendPacket askNoAck buf) s) (hc : Compatible s j p dyn)
    (hempty : (s.w.radio j).rxFifo = [])
    (hnd : (s.w.radio j).isDup (s.sendPacket askNoAck buf) = false)
    (d2 : Rf24) (hd2 : d2.rid = j)
    (hsh : d2.features &&& 4 = 0 → d2.plLen.getD p 0 = (expectedPayload dyn (s.d.plLen.getD 0 0) buf).length) :
    (exec (Rf24.read none) { d := d2, w := (exec (send buf m askNoAck (n : Int) sendOnly) s).2.w }).1 =
      .ok (some (expectedPayload dyn (s.d.plLen.getD 0 0) buf)) ∧
    (exec (Rf24.read none) { d := d2, w := (exec (send buf m askNoAck (n : Int) sendOnly) s).2.w }).2.rad.rxFifo = [] ∧
    (exec (update >>= fun _ => pipe) { d := d2, w := (exec (send buf m askNoAck (n : Int) sendOnly) s).2.w }).1 =
      .ok (some p) := by
  obtain ⟨hrx, _, hcfg⟩ := C01_delivery s buf m askNoAck n sendOnly j p dyn h henv hc (by rw [hempty]; decide) hnd
  rw [hempty, List.nil_append] at hrx
  generalize hw' : (exec (send buf m askNoAck (n : Int) sendOnly) s).2.w = w' at *
  obtain ⟨_, ⟨att, _, _, _, hrun⟩, _, _⟩ := send_final s buf m askNoAck n sendOnly h henv
  have hlen' : w'.radios.length = s.w.radios.length := by rw [← hw']; exact hrun.sent.len
  let s2 : DrvState := { d := d2, w := w' }
  have hrad2 : s2.rad = w'.radio j := by show w'.radio d2.rid = _; rw [hd2]
  have hwf2 : s2.Wf := by show d2.rid < w'.radios.length; rw [hd2, hlen']; exact hc.lt
  have hp5 : p ≤ 5 := Radio.matchPipe_le _ _ _ hc.pipe
  -- the payload is not empty
  have hne : expectedPayload dyn (s.d.plLen.getD 0 0) buf ≠ [] := by
    unfold expectedPayload
    cases dyn with
    | true =>
      simp only [↓reduceIte]
      have hm := hc.modeDrv
      exact (h.lenOk (by simpa using hm)).1
    | false =>
      simp only [Bool.false_eq_true, ↓reduceIte]
      obtain ⟨_, h1, _⟩ := hc.width rfl
      intro hz
      have := congrArg List.length hz
      simp only [List.length_take, List.length_append, List.length_replicate, List.length_nil] at this
      omega
  have hrxwf : s2.rad.RxWf := by
    rw [hrad2]; intro e he; rw [hrx] at he
    simp only [List.mem_cons, List.not_mem_nil, or_false] at he; subst he; exact ⟨hp5, hne⟩
  have hidle : s2.rad.Idle := by
    rw [hrad2]
    have hc' : (w'.radio j).config = (s.w.radio j).config := by
      have := congrArg Radio.config hcfg; exact this
    have : (w'.radio j).primRx = true := by
      unfold Radio.primRx; rw [hc']
      have := hc.listening
      unfold Radio.rxMode at this
      simp only [Bool.and_eq_true] at this
      exact this.1.2
    exact Radio.idle_of_primRx _ this
  have hfifo : s2.rad.rxFifo = ⟨p, expectedPayload dyn (s.d.plLen.getD 0 0) buf⟩ :: [] := by rw [hrad2, hrx]
  obtain ⟨r1, r2, _⟩ := C10.C10_read s2 hwf2 hrxwf hidle _ [] hfifo hsh
  refine ⟨r1, by rw [r2], ?_⟩
  obtain ⟨_, u2, u3⟩ := C10.C10_update s2 hwf2
  obtain ⟨ur, _, uf⟩ := u3 hidle
  rw [exec_bind, exec_update]
  rw [exec_update] at ur uf
  simp only
  have hrxwf' : (s2.spiStep [0xFF]).rad.RxWf := by rw [ur]; exact hrxwf
  rw [(C10.C10_cached _ hrxwf' uf).1, ur]
  simp only [nextPipe, hfifo]

example : ∃ d2 : Rf24, d2.rid = 1 ∧ (d2.features &&& 4 = 0 → d2.plLen.getD 0 0 = (expectedPayload false 32 [1, 2, 3]).length) :=
  ⟨{ rid := 1 }, rfl, fun _ => by decide⟩

/-- **Consecutive packets are never duplicates of each other**: the PID a new payload gets is the
    transmitter's `nextPid`, which the previous new payload advanced (`takePid`), so it differs from
    the previous packet's PID — in every state.  (This is what keeps a
    receiver from dropping the second of two equal payloads; `isDup` only fires on an equal PID.) -/
theorem C01_consecutive_not_dup (r : Radio) (e e' : TxEntry) (he : e.pid = none) (he' : e'.pid = none) :
    (r.takePid e).pidFor e' ≠ r.pidFor e := by
  unfold Radio.takePid Radio.pidFor
  rw [he, he']
  simp only [Option.isNone_none, ↓reduceIte, Option.getD_none]
  omega

example : (({} : Radio).takePid ⟨.payload, [1], none⟩).pidFor ⟨.payload, [1], none⟩ = 1 := by decide

/-- **Order, exactly once.**  A transmitter object `d1` and a receiver object `d2` over one world
    (`Link`), any list of operations `d1.send(buf, …)` / `d2.read()` (any buffers, buffer kinds,
    `ask_no_ack`, `force_retry`, `send_only` per call).  `orderSpec` is the abstract receiver queue: a
    `send` appends the expected payload provided at most 2 are unread before it (so never more than 3
    are) and the payload is legal; a `read` returns and removes the oldest, or `None`.  Whenever the
    abstract queue is defined on the whole list, the outcomes of the real `read()`s — in order — are
    exactly its outcomes: every payload is read **once, in order, byte for byte**, none is lost or
    duplicated (consecutive packets carry different PIDs, so none is dropped as a duplicate:
    `LinkInv.nodup` is kept by every `send`), and reads of an empty queue return `None`.
    `LinkInv` (`NrfProofs/C01Order.lean`) is the invariant: `Compatible`, the send/resend history
    invariant of C02, receiver's RX FIFO = the unread expected payloads on pipe `p`, no radio holds an
    empty ACK payload, the receiver object's shadows (if it believes in static payloads) mirror the
    static length.  It holds initially in the example below and is re-established by every step
    (`linkInv_send`, `linkInv_read`). -/
theorem C01_order (R : Radio) (j p : Nat) (dyn : Bool) (ops : List LinkOp) (L : Link) (pend : List Bytes)
    (h : LinkInv R j p dyn L pend) (results : List (Option Bytes))
    (hs : orderSpec dyn (L.d1.plLen.getD 0 0) pend ops = some results) :
    (L.run ops).2 = results.map .ok :=
  link_order R j p dyn ops L pend h results hs

/-- the link of the examples: transmitter object on radio 0, receiver object on radio 1 -/
def exLink : Link := { d1 := exState.d, d2 := { rid := 1 }, w := exState.w }

example : LinkInv { config := 0x0E } 1 0 false exLink [] :=
  { hist := Or.inr ⟨by decide, rfl, by decide, rfl, Or.inl rfl⟩
    ptx := by decide
    compat := ⟨by decide, by decide, by decide, rfl, rfl, rfl, rfl, rfl, by decide, by decide, by decide, by decide,
      by decide, fun _ => by decide, rfl⟩
    rid2 := rfl
    rxq := rfl
    pendOk := fun b hb => by cases hb
    pendLen := fun _ b hb => by cases hb
    nodup := fun _ l hl => by cases hl
    acks := by
      intro q hq hqs
      have : q = 1 := by
        have : q < 2 := hq
        have : q ≠ 0 := hqs
        omega
      subst this
      exact ⟨(fun e he => by cases he), (fun d hd => by cases hd)⟩
    feat := fun hc => absurd hc (by decide)
    shadow := fun hf => absurd hf (by decide) }

example : orderSpec false 32 [] [.send [1] false false 0 false, .send [2] true true 3 true, .read, .read, .read]
    = some [some (expectedPayload false 32 [1]), some (expectedPayload false 32 [2]), none] := by decide

/-- **Overflow is not silent.**  The receiver already holds 3 unread payloads: a 4th `send()` (with
    auto-ack, in a world of just these two radios) returns `False` — for every `force_retry` — and
    the receiver is exactly as before: nothing is stored, nothing is dropped. -/
theorem C01_overflow (s : DrvState) (buf : Bytes) (m askNoAck : Bool) (n : Nat) (sendOnly : Bool) (j p : Nat) (dyn : Bool)
    (h : SendPre s buf sendOnly) (henv : AckEnv s.rad (s.sendPacket askNoAck buf) s) (hc : Compatible s j p dyn)
    (htwo : s.w.radios.length = 2) (haw : s.sendAwaits askNoAck buf = true)
    (hfull : (s.w.radio j).rxFifo.length ≥ 3)
    (hnd : (s.w.radio j).isDup (s.sendPacket askNoAck buf) = false) :
    (exec (send buf m askNoAck (n : Int) sendOnly) s).1 = .ok (.bool false, buf) ∧
    (exec (send buf m askNoAck (n : Int) sendOnly) s).2.w.radio j = s.w.radio j := by
  have hlen : dyn = true → buf.length ≤ 32 := by
    intro hd
    have hm := hc.modeDrv
    rw [hd] at hm
    exact (h.lenOk (by simpa using hm)).2
  have hl := compat_listens s j p dyn askNoAck buf hc hlen
  have hrecv := Radio.receive_full _ _ p hl hnd hfull
  constructor
  · rw [(send_final s buf m askNoAck n sendOnly h henv).1]
    have hA : s.sendAcked askNoAck buf = false := by
      unfold DrvState.sendAcked ackedR
      have : (s.w.deliver s.d.rid (s.sendPacket askNoAck buf)).2.isSome = false := by
        cases hh : (s.w.deliver s.d.rid (s.sendPacket askNoAck buf)).2.isSome with
        | false => rfl
        | true =>
          obtain ⟨i, hi, his, hr⟩ := (World.deliver_ack_isSome _ _ _).1 hh
          have hij : i = j := by
            have := hc.ne; have := hc.lt; have hw := h.wf
            unfold DrvState.Wf at hw
            omega
          rw [hij, hrecv] at hr
          cases hr
      rw [this, Bool.and_false]
    unfold sendSucceedsB sendExpected
    rw [haw, hA]
    rfl
  · rw [send_receiver s buf m askNoAck n sendOnly h henv hc.faults j hc.lt hc.ne, hrecv]

/-- **Rejection.**  Dynamic payloads on, a payload of 0 or more than 32 bytes: `write()` raises
    `ValueError` and the state — driver object, every radio, the air log, the clock — is **identical**
    (no SPI transaction at all); `send()` raises `ValueError` after its preamble (CE low and the
    flushes the cached status byte asks for): no W_TX_PAYLOAD is issued, so the TX FIFO is as before or
    flushed, nothing goes on the air, the fault pattern and every other radio (the peer) are
    untouched. -/
theorem C01_reject (s : DrvState) (buf : Bytes) (m askNoAck : Bool) (forceRetry : Int) (sendOnly : Bool) (hw : s.Wf)
    (hd : s.d.dynPl &&& 1 ≠ 0) (hb : buf = [] ∨ buf.length > 32) :
    exec (write buf m askNoAck) s = (.error .valueError, s) ∧
    (exec (send buf m askNoAck forceRetry sendOnly) s).1 = .error .valueError ∧
    ((exec (send buf m askNoAck forceRetry sendOnly) s).2.rad.txFifo = s.rad.txFifo ∨
     (exec (send buf m askNoAck forceRetry sendOnly) s).2.rad.txFifo = []) ∧
    (exec (send buf m askNoAck forceRetry sendOnly) s).2.w.air = s.w.air ∧
    (exec (send buf m askNoAck forceRetry sendOnly) s).2.w.faults = s.w.faults ∧
    (∀ j, j ≠ s.d.rid → (exec (send buf m askNoAck forceRetry sendOnly) s).2.w.radio j = s.w.radio j) :=
  ⟨write_reject s buf m askNoAck hd hb, send_reject s buf m askNoAck forceRetry sendOnly hw hd hb⟩

example : ∃ s : DrvState, s.Wf ∧ s.d.dynPl &&& 1 ≠ 0 := ⟨{ d := {}, w := World.fresh 1 }, by decide, by decide⟩

/-- **The caller's buffer is never modified — MODEL TAUTOLOGY, not evidence for the clause.**  In the
    model `write`/`send` return, next to their result, "the caller's buffer object as it is after the
    call"; but `Rf24.write` ignores the buffer kind (`let _ := mutableBuf`) and literally returns its
    argument, so this theorem holds for every model of that shape and cannot fail: the original
    in-place `buf += …` (defect D1, fixed by a988495: `buf = buf + …`) is not even expressible in it,
    and the `∀ m` is empty.  The clause "the caller's buffer is never modified" is therefore decided
    by the CORRESPONDENCE RUN ONLY (tie-only): the harness compares the caller's real `bytearray` /
    `bytes` object after every call on the real code.  The theorem merely records that the model
    follows the repaired code. -/
theorem C01_buffer_unchanged (s : DrvState) (buf : Bytes) (m askNoAck : Bool) (forceRetry : Int) (sendOnly : Bool) :
    (∀ r, (exec (write buf m askNoAck) s).1 = .ok r → r.2 = buf) ∧
    (∀ r, (exec (send buf m askNoAck forceRetry sendOnly) s).1 = .ok r → r.2 = buf) :=
  ⟨fun r h => write_buffer s buf m askNoAck r h, fun r h => send_buffer buf m askNoAck forceRetry sendOnly s r h⟩

example : (exec (write [1, 2, 3] true false) exState).1 = .ok (true, [1, 2, 3]) := by rfl

end Nrf.Props.C01
