/-
C01 — link payload integrity: what send() is given is what the peer's read() returns.

Setting: a driver state `s` (the transmitter's object over its radio `s.d.rid`) in a world with any
number of radios; the receiver is radio `j`; `Compatible s j p dyn` (`Spec/Link.lean`) spells out
"configured compatibly": same channel / rate / packet format / CRC / address width, receiver
listening, `p` the lowest enabled receiver pipe whose address equals the TX address on the address
width, both ends and the transmitter's driver in the same payload-length mode `dyn`, static width
of pipe `p` = the length the driver pads to (1..32), undisturbed air (`faults = []`).
`SendPre` / `AckEnv` are the hypotheses of C02 (PTX, TX FIFO empty or about to be flushed, payload
passes `write()`'s check).  All theorems hold for every payload content and length, both buffer
kinds, every `force_retry : Nat`, `ask_no_ack` / `send_only` on or off, every channel, rate, CRC,
address width and pipe that satisfy `Compatible` — these are universally quantified, not enumerated.

Added in round 2 (helper files `NrfProofs/C01List.lean`, `C01Stream.lean`, `C01StreamDrv.lean`):
* `C01_send_list` — `send([b₁ … bₙ])` (list / tuple input): results AND delivery, order, exactly once,
  for every list that fits the receiver's three-level RX FIFO (`pend.length + n ≤ 3`).
* `C01_stream` — `k ≤ 3` × `write(…, write_only=True)` into the TX FIFO, then CE high and one
  `update()`: all `k` payloads delivered in order, exactly once (`StreamInv`: the invariant of the
  air between two cycles of one `tryTransmit`).
Both need `AcksWork` (if the transmitter waits for acknowledgements, it can hear them and the
receiver auto-acknowledges the pipe): otherwise the first cycle ends in MAX_RT — `send()` returns
`False` although the payload WAS delivered, and a stream stops after its first payload.
-/
import NrfProofs.C01Write
import NrfProofs.C01List
import NrfProofs.C01StreamDrv
import NrfProofs.C02Calls
import NrfProps.C10

namespace Nrf.Props.C01
open Nrf Rf24 Spec.Link

/-- **Delivery.**  After `send(buf)` to a compatible receiver that has room and has not just
    received the very same packet (same PID, address and payload — the chip's duplicate rule, see
    `C01_consecutive_not_dup`), the receiver's RX FIFO has gained **exactly one** entry, at its tail:
    the expected payload (zero-padded / truncated to the static length, or unchanged in dynamic mode),
    attributed to pipe `p`; RX_DR is latched; the receiver's registers are untouched.  For every
    `force_retry`, with or without auto-ack (repetitions of an ESB packet are dropped as duplicates:
    exactly once). -/
theorem C01_delivery (s : DrvState) (buf : Bytes) (m askNoAck : Bool) (n : Nat) (sendOnly : Bool) (j p : Nat) (dyn : Bool)
    (h : SendPre s buf sendOnly) (henv : AckEnv s.rad (s.sendPacket askNoAck buf) s) (hc : Compatible s j p dyn)
    (hroom : (s.w.radio j).rxFifo.length < 3)
    (hnd : (s.w.radio j).isDup (s.sendPacket askNoAck buf) = false) :
    ((exec (send buf m askNoAck (n : Int) sendOnly) s).2.w.radio j).rxFifo =
      (s.w.radio j).rxFifo ++ [⟨p, expectedPayload dyn (s.d.plLen.getD 0 0) buf⟩] ∧
    dataReady ((exec (send buf m askNoAck (n : Int) sendOnly) s).2.w.radio j) = true ∧
    ((exec (send buf m askNoAck (n : Int) sendOnly) s).2.w.radio j).cfgOf = (s.w.radio j).cfgOf := by
  have hlen : dyn = true → buf.length ≤ 32 := by
    intro hd
    have hm := hc.modeDrv
    rw [hd] at hm
    exact (h.lenOk (by simpa using hm)).2
  have hl := compat_listens s j p dyn askNoAck buf hc hlen
  rw [send_receiver s buf m askNoAck n sendOnly h henv hc.faults j hc.lt hc.ne]
  obtain ⟨h1, h2, _⟩ := receive_new_rx _ _ p hl hnd hroom
  refine ⟨?_, ?_, Radio.receive_cfgOf _ _⟩
  · rw [h1]
    have : (s.sendPacket askNoAck buf).data = (s.sendEntry askNoAck buf).data := rfl
    rw [this, sendEntry_data s j p dyn askNoAck buf hc hlen]
  · unfold dataReady
    rw [h2, Nat.and_or_distrib_right]
    have : ((s.w.radio j).flags &&& 0x40 ||| 0x40 &&& 0x40) ≠ 0 := by
      intro hz
      have := (Nat.or_eq_zero_iff.1 hz).2
      simp at this
    simp at this ⊢

/-- a world for the examples: radio 0 a PTX, radio 1 listening on the same address, 32-byte static
    payloads, auto-ack -/
def exState : DrvState :=
  { d := { dynPl := 0 },
    w := { radios := [{ config := 0x0E }, { config := 0x0F, ce := true, rxPw := [32, 0, 0, 0, 0, 0] }],
           busyUntil := [0, 0] } }

example : Compatible exState 1 0 false ∧ SendPre exState [1, 2, 3] false ∧ (exState.w.radio 1).rxFifo.length < 3 ∧
    (exState.w.radio 1).isDup (exState.sendPacket false [1, 2, 3]) = false :=
  ⟨⟨by decide, by decide, by decide, rfl, rfl, rfl, rfl, rfl, by decide, by decide, by decide, by decide, by decide,
    fun _ => by decide, rfl⟩,
   ⟨by decide, by decide, by decide, Or.inr rfl, fun _ => Or.inl rfl, fun h => absurd h (by decide), fun _ => by decide⟩,
   by decide, by decide⟩

/-- … and the remaining hypothesis of `C01_delivery` on the same state -/
example : AckEnv exState.rad (exState.sendPacket false [1, 2, 3]) exState :=
  ackEnv_of_eval _ _ _ (fun h => absurd h (by decide)) (by decide +kernel)

example : expectedPayload false 5 [1, 2, 3] = [1, 2, 3, 0, 0] ∧ expectedPayload false 2 [1, 2, 3] = [1, 2] ∧
    expectedPayload true 5 [1, 2, 3] = [1, 2, 3] := by decide

/-- **Delivery through the non-blocking `write()`.**  From a powered-up PTX with an empty TX FIFO —
    CE low (the cycle starts when `write()` raises CE) **or already high** (as `send()` leaves it: the
    cycle starts inside the W_TX_PAYLOAD transaction) — `write(buf)` returns `True` with the caller's
    buffer, and a compatible receiver with room gains exactly the expected payload on pipe `p`, like
    with `send()`. -/
theorem C01_write_delivery (s : DrvState) (buf : Bytes) (m askNoAck : Bool) (j p : Nat) (dyn : Bool)
    (hw : s.Wf) (hp : s.rad.Ptx) (hpi : s.rad.RxPipes) (htx : s.rad.txFifo = [])
    (hlenOk : s.d.dynPl &&& 1 ≠ 0 → buf ≠ [] ∧ buf.length ≤ 32)
    (hc : Compatible s j p dyn)
    (hroom : (s.w.radio j).rxFifo.length < 3)
    (hnd : (s.w.radio j).isDup (s.sendPacket askNoAck buf) = false) :
    (exec (write buf m askNoAck) s).1 = .ok (true, buf) ∧
    ((exec (write buf m askNoAck) s).2.w.radio j).rxFifo =
      (s.w.radio j).rxFifo ++ [⟨p, expectedPayload dyn (s.d.plLen.getD 0 0) buf⟩] ∧
    dataReady ((exec (write buf m askNoAck) s).2.w.radio j) = true := by
  have hpadOk : s.d.dynPl &&& 1 = 0 → 1 ≤ s.d.plLen.getD 0 0 := by
    intro hd
    have hd' : ¬ (s.d.dynPl &&& 1 ≠ 0) := fun hh => hh hd
    have : dyn = false := by rw [← hc.modeDrv]; exact decide_eq_false hd'
    exact (hc.width this).2.1
  have hlen : dyn = true → buf.length ≤ 32 := by
    intro hd
    have hm := hc.modeDrv
    rw [hd] at hm
    exact (hlenOk (by simpa using hm)).2
  obtain ⟨h1, h2⟩ := write_receiver s buf m askNoAck hw hp hpi htx hlenOk hpadOk hc.faults j hc.lt hc.ne
  have hl := compat_listens s j p dyn askNoAck buf hc hlen
  obtain ⟨r1, r2, _⟩ := receive_new_rx _ _ p hl hnd hroom
  refine ⟨h1, ?_, ?_⟩
  · rw [h2, r1]
    have : (s.sendPacket askNoAck buf).data = (s.sendEntry askNoAck buf).data := rfl
    rw [this, sendEntry_data s j p dyn askNoAck buf hc hlen]
  · rw [h2]
    unfold dataReady
    rw [r2, Nat.and_or_distrib_right]
    have : ((s.w.radio j).flags &&& 0x40 ||| 0x40 &&& 0x40) ≠ 0 := by
      intro hz
      have := (Nat.or_eq_zero_iff.1 hz).2
      simp at this
    simp at this ⊢

example : exState.Wf ∧ exState.rad.Ptx ∧ exState.rad.RxPipes ∧ exState.rad.txFifo = [] :=
  ⟨by decide, by decide, by decide, rfl⟩

/-- `p` in `Compatible` in the words of the property: `p ≤ 5` is enabled, its address equals the TX
    address on the address width, and no lower-numbered enabled pipe matches -/
theorem C01_pipe_iff (r : Radio) (a : Bytes) (p : Nat) :
    r.matchPipe a = some p ↔
      (p ≤ 5 ∧ (Radio.bit r.enRxAddr p && (r.rxAddr p).take r.aw == a) = true ∧
       ∀ q, q < p → (Radio.bit r.enRxAddr q && (r.rxAddr q).take r.aw == a) = false) := by
  unfold Radio.matchPipe
  have hr : [0, 1, 2, 3, 4, 5] = List.range 6 := by decide
  rw [hr, find_range]
  constructor
  · rintro ⟨h1, h2, h3⟩; exact ⟨by omega, h2, h3⟩
  · rintro ⟨h1, h2, h3⟩; exact ⟨by omega, h2, h3⟩

/-- **The peer's `read()` returns it, and `pipe` says `p`.**  Any driver object `d2` on the
    receiver's radio `j` (any shadow state), RX FIFO empty before the `send()`: after `send(buf)`,
    `update()` makes `pipe` = `p`, `available()`-style accessors see the payload (`C10_cached`), and
    `read()` returns exactly the expected payload, leaving the RX FIFO empty — so a further `read()`
    returns `None` (`C10_read_empty`): exactly once.  (`hsh`: in static mode the receiver's `_pl_len`
    shadow of pipe `p` mirrors RX_PW — the C03 invariant.) -/
theorem C01_read_back (s : DrvState) (buf : Bytes) (m askNoAck : Bool) (n : Nat) (sendOnly : Bool) (j p : Nat) (dyn : Bool)
    (h : SendPre s buf sendOnly) (henv : AckEnv s.rad (s.sendPacket askNoAck buf) s) (hc : Compatible s j p dyn)
    (hempty : (s.w.radio j).rxFifo = [])
    (hnd : (s.w.radio j).isDup (s.sendPacket askNoAck buf) = false)
    (d2 : Rf24) (hd2 : d2.rid = j)
    (hsh : d2.features &&& 4 = 0 → d2.plLen.getD p 0 = (expectedPayload dyn (s.d.plLen.getD 0 0) buf).length) :
    (exec (Rf24.read none) { d := d2, w := (exec (send buf m askNoAck (n : Int) sendOnly) s).2.w }).1 =
      .ok (some (expectedPayload dyn (s.d.plLen.getD 0 0) buf)) ∧
    (exec (Rf24.read none) { d := d2, w := (exec (send buf m askNoAck (n : Int) sendOnly) s).2.w }).2.rad.rxFifo = [] ∧
    (exec (update >>= fun _ => pipe) { d := d2, w := (exec (send buf m askNoAck (n : Int) sendOnly) s).2.w }).1 =
      .ok (some p) := by
  obtain ⟨hrx, _, hcfg⟩ := C01_delivery s buf m askNoAck n sendOnly j p dyn h henv hc (by rw [hempty]; decide) hnd
  rw [hempty, List.nil_append] at hrx
  generalize hw' : (exec (send buf m askNoAck (n : Int) sendOnly) s).2.w = w' at *
  obtain ⟨_, ⟨att, _, _, _, hrun⟩, _, _⟩ := send_final s buf m askNoAck n sendOnly h henv
  have hlen' : w'.radios.length = s.w.radios.length := by rw [← hw']; exact hrun.sent.len
  let s2 : DrvState := { d := d2, w := w' }
  have hrad2 : s2.rad = w'.radio j := by show w'.radio d2.rid = _; rw [hd2]
  have hwf2 : s2.Wf := by show d2.rid < w'.radios.length; rw [hd2, hlen']; exact hc.lt
  have hp5 : p ≤ 5 := Radio.matchPipe_le _ _ _ hc.pipe
  -- the payload is not empty
  have hne : expectedPayload dyn (s.d.plLen.getD 0 0) buf ≠ [] := by
    unfold expectedPayload
    cases dyn with
    | true =>
      simp only [↓reduceIte]
      have hm := hc.modeDrv
      exact (h.lenOk (by simpa using hm)).1
    | false =>
      simp only [Bool.false_eq_true, ↓reduceIte]
      obtain ⟨_, h1, _⟩ := hc.width rfl
      intro hz
      have := congrArg List.length hz
      simp only [List.length_take, List.length_append, List.length_replicate, List.length_nil] at this
      omega
  have hrxwf : s2.rad.RxWf := by
    rw [hrad2]; intro e he; rw [hrx] at he
    simp only [List.mem_cons, List.not_mem_nil, or_false] at he; subst he; exact ⟨hp5, hne⟩
  have hidle : s2.rad.Idle := by
    rw [hrad2]
    have hc' : (w'.radio j).config = (s.w.radio j).config := by
      have := congrArg Radio.config hcfg; exact this
    have : (w'.radio j).primRx = true := by
      unfold Radio.primRx; rw [hc']
      have := hc.listening
      unfold Radio.rxMode at this
      simp only [Bool.and_eq_true] at this
      exact this.1.2
    exact Radio.idle_of_primRx _ this
  have hfifo : s2.rad.rxFifo = ⟨p, expectedPayload dyn (s.d.plLen.getD 0 0) buf⟩ :: [] := by rw [hrad2, hrx]
  obtain ⟨r1, r2, _⟩ := C10.C10_read s2 hwf2 hrxwf hidle _ [] hfifo hsh
  refine ⟨r1, by rw [r2], ?_⟩
  obtain ⟨_, u2, u3⟩ := C10.C10_update s2 hwf2
  obtain ⟨ur, _, uf⟩ := u3 hidle
  rw [exec_bind, exec_update]
  rw [exec_update] at ur uf
  simp only
  have hrxwf' : (s2.spiStep [0xFF]).rad.RxWf := by rw [ur]; exact hrxwf
  rw [(C10.C10_cached _ hrxwf' uf).1, ur]
  simp only [nextPipe, hfifo]

example : ∃ d2 : Rf24, d2.rid = 1 ∧ (d2.features &&& 4 = 0 → d2.plLen.getD 0 0 = (expectedPayload false 32 [1, 2, 3]).length) :=
  ⟨{ rid := 1 }, rfl, fun _ => by decide⟩

/-- **Consecutive packets are never duplicates of each other**: the PID a new payload gets is the
    transmitter's `nextPid`, which the previous new payload advanced (`takePid`), so it differs from
    the previous packet's PID — in every state.  (This is what keeps a
    receiver from dropping the second of two equal payloads; `isDup` only fires on an equal PID.) -/
theorem C01_consecutive_not_dup (r : Radio) (e e' : TxEntry) (he : e.pid = none) (he' : e'.pid = none) :
    (r.takePid e).pidFor e' ≠ r.pidFor e := by
  unfold Radio.takePid Radio.pidFor
  rw [he, he']
  simp only [Option.isNone_none, ↓reduceIte, Option.getD_none]
  omega

example : (({} : Radio).takePid ⟨.payload, [1], none⟩).pidFor ⟨.payload, [1], none⟩ = 1 := by decide

/-- **Order, exactly once.**  A transmitter object `d1` and a receiver object `d2` over one world
    (`Link`), any list of operations `d1.send(buf, …)` / `d2.read()` (any buffers, buffer kinds,
    `ask_no_ack`, `force_retry`, `send_only` per call).  `orderSpec` is the abstract receiver queue: a
    `send` appends the expected payload provided at most 2 are unread before it (so never more than 3
    are) and the payload is legal; a `read` returns and removes the oldest, or `None`.  Whenever the
    abstract queue is defined on the whole list, the outcomes of the real `read()`s — in order — are
    exactly its outcomes: every payload is read **once, in order, byte for byte**, none is lost or
    duplicated (consecutive packets carry different PIDs, so none is dropped as a duplicate:
    `LinkInv.nodup` is kept by every `send`), and reads of an empty queue return `None`.
    `LinkInv` (`NrfProofs/C01Order.lean`) is the invariant: `Compatible`, the send/resend history
    invariant of C02, receiver's RX FIFO = the unread expected payloads on pipe `p`, no radio holds an
    empty ACK payload, the receiver object's shadows (if it believes in static payloads) mirror the
    static length.  It holds initially in the example below and is re-established by every step
    (`linkInv_send`, `linkInv_read`). -/
theorem C01_order (R : Radio) (j p : Nat) (dyn : Bool) (ops : List LinkOp) (L : Link) (pend : List Bytes)
    (h : LinkInv R j p dyn L pend) (results : List (Option Bytes))
    (hs : orderSpec dyn (L.d1.plLen.getD 0 0) pend ops = some results) :
    (L.run ops).2 = results.map .ok :=
  link_order R j p dyn ops L pend h results hs

/-- the link of the examples: transmitter object on radio 0, receiver object on radio 1 -/
def exLink : Link := { d1 := exState.d, d2 := { rid := 1 }, w := exState.w }

example : LinkInv { config := 0x0E } 1 0 false exLink [] :=
  { hist := Or.inr ⟨by decide, rfl, by decide, rfl, Or.inl rfl⟩
    ptx := by decide
    compat := ⟨by decide, by decide, by decide, rfl, rfl, rfl, rfl, rfl, by decide, by decide, by decide, by decide,
      by decide, fun _ => by decide, rfl⟩
    rid2 := rfl
    rxq := rfl
    pendOk := fun b hb => by cases hb
    pendLen := fun _ b hb => by cases hb
    nodup := fun _ l hl => by cases hl
    acks := by
      intro q hq hqs
      have : q = 1 := by
        have : q < 2 := hq
        have : q ≠ 0 := hqs
        omega
      subst this
      exact ⟨(fun e he => by cases he), (fun d hd => by cases hd)⟩
    feat := fun hc => absurd hc (by decide)
    shadow := fun hf => absurd hf (by decide) }

example : orderSpec false 32 [] [.send [1] false false 0 false, .send [2] true true 3 true, .read, .read, .read]
    = some [some (expectedPayload false 32 [1]), some (expectedPayload false 32 [2]), none] := by decide

/-- **Lists of payloads: results, delivery, order, exactly once.**  `d1.send([b₁, …, bₙ], ask_no_ack,
    force_retry, send_only)` (list / tuple input; every `force_retry : Nat`, buffer kinds and flags)
    over a link satisfying the invariant `LinkInv` of `C01_order` (compatible listening receiver
    `j` on pipe `p`, undisturbed air, the receiver holding the unread payloads `pend`), with room for
    all of them at the receiver (`pend.length + n ≤ 3`: nobody can read in the middle of one call),
    every payload legal in dynamic mode, and working acknowledgements (`AcksWork`: if the
    transmitter waits for acknowledgements at all, it can hear them and the receiver auto-acks pipe
    `p`):
    * the call returns one result per payload with the caller's buffers, none of them `False`; all of
      them are `True` when `send_only` is on or the transmitter does not take ACK payloads (otherwise
      a result may be the peer's ACK payload, per C02);
    * the receiver's RX FIFO has gained exactly `b₁ … bₙ`, padded / truncated per the mode, in order,
      on pipe `p`, behind what was unread;
    * the link invariant holds again, so `C01_order` applies to whatever follows; in particular
    * the receiver object's next `pend.length + n + 1` `read()`s return the old unread payloads, then
      `b₁ … bₙ` (expected form), each once, in order, then `None`. -/
theorem C01_send_list (R : Radio) (j p : Nat) (dyn : Bool) (L : Link) (pend : List Bytes)
    (h : LinkInv R j p dyn L pend) (bufs : List (Bool × Bytes)) (a : Bool) (n : Nat) (so : Bool)
    (hlen : pend.length + bufs.length ≤ 3) (hbufs : ∀ mb ∈ bufs, dyn = true → mb.2 ≠ [] ∧ mb.2.length ≤ 32)
    (hack : AcksWork R (L.w.radio j) p) :
    (∃ rs, (exec (Rf24.sendList bufs a (n : Int) so) L.tx).1 = .ok rs ∧
      rs.map (·.2) = bufs.map (·.2) ∧ (∀ r ∈ rs, r.1 ≠ .bool false) ∧
      ((so = true ∨ R.ackPayRx = false) → rs.map (·.1) = List.replicate bufs.length (.bool true))) ∧
    ((L.sendList bufs a n so).w.radio j).rxFifo =
      (L.w.radio j).rxFifo ++ bufs.map (fun mb : Bool × Bytes => (⟨p, expectedPayload dyn (L.d1.plLen.getD 0 0) mb.2⟩ : RxEntry)) ∧
    LinkInv R j p dyn (L.sendList bufs a n so) (pend ++ bufs.map fun mb => expectedPayload dyn (L.d1.plLen.getD 0 0) mb.2) ∧
    ((L.sendList bufs a n so).run (List.replicate (pend.length + bufs.length + 1) .read)).2 =
      ((pend ++ bufs.map fun mb : Bool × Bytes => expectedPayload dyn (L.d1.plLen.getD 0 0) mb.2).map some ++ [none]).map .ok := by
  obtain ⟨rs, r1, r2, r3, r4, hinv⟩ := link_sendList R j p dyn L pend h bufs a n so hlen hbufs hack
  refine ⟨⟨rs, r1, r2, r3, fun hc => ?_⟩, ?_, hinv, ?_⟩
  · rw [List.eq_replicate_iff]
    refine ⟨?_, ?_⟩
    · have := congrArg List.length r2
      simpa using this
    · intro b hb
      obtain ⟨r, hr, rfl⟩ := List.mem_map.1 hb
      exact r4 hc r hr
  · rw [hinv.rxq, h.rxq, List.map_append, List.map_map]
    rfl
  · have hq : (pend ++ bufs.map fun mb : Bool × Bytes => expectedPayload dyn (L.d1.plLen.getD 0 0) mb.2).length = pend.length + bufs.length := by
      simp
    rw [← hq]
    exact link_order R j p dyn _ _ _ hinv _ (orderSpec_reads dyn _ _)

example : AcksWork { config := 0x0E } (exLink.w.radio 1) 0 := fun _ => ⟨by decide, by decide⟩

example : ([] : List Bytes).length + [(false, [1]), (true, [2, 2]), (false, [3, 3, 3])].length ≤ 3 ∧
    ∀ mb ∈ [(false, [1]), (true, [2, 2]), (false, ([3, 3, 3] : Bytes))], false = true → mb.2 ≠ [] ∧ mb.2.length ≤ 32 :=
  ⟨by decide, fun _ _ hd => absurd hd (by decide)⟩

example : ((exLink.sendList [(false, [1]), (true, [2, 2]), (false, [3, 3, 3])] false 0 false).w.radio 1).rxFifo =
    [⟨0, expectedPayload false 32 [1]⟩, ⟨0, expectedPayload false 32 [2, 2]⟩, ⟨0, expectedPayload false 32 [3, 3, 3]⟩] := by
  decide +kernel

/-- **Streaming: several `write(…, write_only=True)`, then CE high — all delivered, in order, exactly
    once.**  The caller's program `streamProg ws` is: for each `(kind, ask_no_ack, buf)` of `ws` one
    `d1.write(buf, ask_no_ack, write_only=True)`; then `d1.ce = True`; then one `d1.update()` (with
    the jump semantics of the environment model the radio has finished all its cycles when the next
    SPI transaction returns, so one poll suffices; `fifo(True, True)` is then true).
    Over a link satisfying `LinkInv` (as in `C01_order`), the transmitter with CE low and an empty TX
    FIFO, `1 ≤ k ≤ 3` payloads with room for all of them at the receiver (`pend.length + k ≤ 3`),
    legal payloads, undisturbed air, working acknowledgements (`AcksWork`):
    * every `write()` returns `True` with the caller's buffer;
    * afterwards the TX FIFO is empty, the cached status byte shows TX_DS and not MAX_RT;
    * the receiver's RX FIFO has gained exactly the `k` expected payloads, in order, on pipe `p`;
    * `LinkInv` holds again, and the receiver object's next `pend.length + k + 1` `read()`s return
      the old unread payloads, then the `k` payloads, each once, in order, then `None`;
    * the caller's loop condition `fifo(True, True)` ("TX FIFO empty") is then true.
    (All of it for every `k ≤ 3` at once — the TX FIFO has three levels, a fourth `write()` returns
    `False`; the variant "last `write()` with `write_only=False` instead of `ce = True`" is
    `C01_stream_last`.) -/
theorem C01_stream (R : Radio) (j p : Nat) (dyn : Bool) (L : Link) (pend : List Bytes)
    (h : LinkInv R j p dyn L pend) (ws : List (Bool × Bool × Bytes)) (hne : ws ≠ [])
    (hce : L.tx.rad.ce = false) (htx : L.tx.rad.txFifo = [])
    (hlen : pend.length + ws.length ≤ 3) (hbufs : ∀ x ∈ ws, dyn = true → x.2.2 ≠ [] ∧ x.2.2.length ≤ 32)
    (hack : AcksWork R (L.w.radio j) p) :
    (exec (streamProg ws) L.tx).1 = .ok (ws.map fun x => (true, x.2.2)) ∧
    (exec (streamProg ws) L.tx).2.rad.txFifo = [] ∧
    (exec (streamProg ws) L.tx).2.d.status &&& 0x20 ≠ 0 ∧ (exec (streamProg ws) L.tx).2.d.status &&& 0x10 = 0 ∧
    ((L.stream ws).w.radio j).rxFifo =
      (L.w.radio j).rxFifo ++ ws.map (fun x : Bool × Bool × Bytes => (⟨p, expectedPayload dyn (L.d1.plLen.getD 0 0) x.2.2⟩ : RxEntry)) ∧
    LinkInv R j p dyn (L.stream ws) (pend ++ ws.map fun x => expectedPayload dyn (L.d1.plLen.getD 0 0) x.2.2) ∧
    ((L.stream ws).run (List.replicate (pend.length + ws.length + 1) .read)).2 =
      ((pend ++ ws.map fun x : Bool × Bool × Bytes => expectedPayload dyn (L.d1.plLen.getD 0 0) x.2.2).map some ++ [none]).map .ok ∧
    (exec (fifo true (some true)) (exec (streamProg ws) L.tx).2).1 = .ok 1 := by
  obtain ⟨r1, r2, r3, r4, hinv⟩ := link_stream R j p dyn L pend h ws hne hce htx hlen hbufs hack
  refine ⟨r1, r2, r3, r4, ?_, hinv, ?_, ?_⟩
  rotate_left 2
  · rw [exec_fifo]
    unfold fifoOf fifoAnswer
    simp [r2]
  · rw [hinv.rxq, h.rxq, List.map_append, List.map_map]
    rfl
  · have hq : (pend ++ ws.map fun x : Bool × Bool × Bytes => expectedPayload dyn (L.d1.plLen.getD 0 0) x.2.2).length =
        pend.length + ws.length := by simp
    rw [← hq]
    exact link_order R j p dyn _ _ _ hinv _ (orderSpec_reads dyn _ _)

example : exLink.tx.rad.ce = false ∧ exLink.tx.rad.txFifo = [] ∧
    ([] : List Bytes).length + [(false, false, [1]), (true, true, [2, 2]), (false, false, ([3, 3, 3] : Bytes))].length ≤ 3 :=
  ⟨rfl, rfl, by decide⟩

example : ((exLink.stream [(false, false, [1]), (true, true, [2, 2]), (false, false, [3, 3, 3])]).w.radio 1).rxFifo =
    [⟨0, expectedPayload false 32 [1]⟩, ⟨0, expectedPayload false 32 [2, 2]⟩, ⟨0, expectedPayload false 32 [3, 3, 3]⟩] := by
  decide +kernel

/-- a second example link, in DYNAMIC payload mode (EN_DPL + EN_DYN_ACK on both radios, DYNPD all pipes): the
    hypotheses of `C01_send_list` / `C01_stream` with non-vacuous payload-legality, `ask_no_ack` honoured for one payload -/
def exDynState : DrvState :=
  { d := {},
    w := { radios := [{ config := 0x0E, feature := 5, dynpd := 0x3F },
                      { config := 0x0F, ce := true, feature := 5, dynpd := 0x3F }],
           busyUntil := [0, 0] } }
def exDynLink : Link := { d1 := exDynState.d, d2 := { rid := 1 }, w := exDynState.w }

example : LinkInv { config := 0x0E, feature := 5, dynpd := 0x3F } 1 0 true exDynLink [] :=
  { hist := Or.inr ⟨by decide, rfl, by decide, rfl, Or.inl rfl⟩
    ptx := by decide
    compat := ⟨by decide, by decide, by decide, rfl, rfl, rfl, rfl, rfl, by decide, by decide, by decide, by decide,
      by decide, fun h => absurd h (by decide), rfl⟩
    rid2 := rfl
    rxq := rfl
    pendOk := fun b hb => by cases hb
    pendLen := fun _ b hb => by cases hb
    nodup := fun _ l hl => by cases hl
    acks := by
      intro q hq hqs
      have : q = 1 := by
        have : q < 2 := hq
        have : q ≠ 0 := hqs
        omega
      subst this
      exact ⟨(fun e he => by cases he), (fun d hd => by cases hd)⟩
    feat := fun _ => by decide
    shadow := fun hf => absurd hf (by decide) }

example : AcksWork { config := 0x0E, feature := 5, dynpd := 0x3F } (exDynLink.w.radio 1) 0 := fun _ => ⟨by decide, by decide⟩

example : ∀ x ∈ [(false, false, [1]), (true, true, [2, 2]), (false, false, ([3, 3, 3] : Bytes))], true = true → x.2.2 ≠ [] ∧ x.2.2.length ≤ 32 := by
  decide

example : ((exDynLink.stream [(false, false, [1]), (true, true, [2, 2]), (false, false, [3, 3, 3])]).w.radio 1).rxFifo =
    [⟨0, [1]⟩, ⟨0, [2, 2]⟩, ⟨0, [3, 3, 3]⟩] := by
  decide +kernel
example : ((exDynLink.sendList [(false, [1]), (true, [2, 2]), (false, [3, 3, 3])] true 1 false).w.radio 1).rxFifo =
    [⟨0, [1]⟩, ⟨0, [2, 2]⟩, ⟨0, [3, 3, 3]⟩] := by
  decide +kernel

/-- **Streaming, the variant with a final normal `write()`.**  `streamProgLast ws last`: the
    `write(…, write_only=True)` of `ws`, then `write(last)` with `write_only=False` (which raises CE
    itself), then one `update()`.  Under the hypotheses of `C01_stream` for the `k + 1` payloads
    `ws ++ [last]` it is THE SAME computation as `streamProg (ws ++ [last])` (same results, same final
    state of driver, radios and air) — so every conclusion of `C01_stream` holds for it verbatim. -/
theorem C01_stream_last (R : Radio) (j p : Nat) (dyn : Bool) (L : Link) (pend : List Bytes)
    (h : LinkInv R j p dyn L pend) (ws : List (Bool × Bool × Bytes)) (last : Bool × Bool × Bytes)
    (hce : L.tx.rad.ce = false) (htx : L.tx.rad.txFifo = [])
    (hlen : pend.length + (ws ++ [last]).length ≤ 3)
    (hbufs : ∀ x ∈ ws ++ [last], dyn = true → x.2.2 ≠ [] ∧ x.2.2.length ≤ 32) :
    exec (streamProgLast ws last) L.tx = exec (streamProg (ws ++ [last])) L.tx :=
  link_streamLast_eq R j p dyn L pend h ws last hce htx hlen hbufs

example : ([] : List Bytes).length + ([(false, false, [1]), (true, true, ([2, 2] : Bytes))] ++ [(false, false, [3, 3, 3])]).length ≤ 3 := by
  decide

example : ((exec (streamProgLast [(false, false, [1]), (true, true, [2, 2])] (false, false, [3, 3, 3])) exLink.tx).2.w.radio 1).rxFifo =
    [⟨0, expectedPayload false 32 [1]⟩, ⟨0, expectedPayload false 32 [2, 2]⟩, ⟨0, expectedPayload false 32 [3, 3, 3]⟩] := by
  decide +kernel

/-- **Overflow is not silent.**  The receiver already holds 3 unread payloads: a 4th `send()` (with
    auto-ack, in a world of just these two radios) returns `False` — for every `force_retry` — and
    the receiver is exactly as before: nothing is stored, nothing is dropped. -/
theorem C01_overflow (s : DrvState) (buf : Bytes) (m askNoAck : Bool) (n : Nat) (sendOnly : Bool) (j p : Nat) (dyn : Bool)
    (h : SendPre s buf sendOnly) (henv : AckEnv s.rad (s.sendPacket askNoAck buf) s) (hc : Compatible s j p dyn)
    (htwo : s.w.radios.length = 2) (haw : s.sendAwaits askNoAck buf = true)
    (hfull : (s.w.radio j).rxFifo.length ≥ 3)
    (hnd : (s.w.radio j).isDup (s.sendPacket askNoAck buf) = false) :
    (exec (send buf m askNoAck (n : Int) sendOnly) s).1 = .ok (.bool false, buf) ∧
    (exec (send buf m askNoAck (n : Int) sendOnly) s).2.w.radio j = s.w.radio j := by
  have hlen : dyn = true → buf.length ≤ 32 := by
    intro hd
    have hm := hc.modeDrv
    rw [hd] at hm
    exact (h.lenOk (by simpa using hm)).2
  have hl := compat_listens s j p dyn askNoAck buf hc hlen
  have hrecv := Radio.receive_full _ _ p hl hnd hfull
  constructor
  · rw [(send_final s buf m askNoAck n sendOnly h henv).1]
    have hA : s.sendAcked askNoAck buf = false := by
      unfold DrvState.sendAcked ackedR
      have : (s.w.deliver s.d.rid (s.sendPacket askNoAck buf)).2.isSome = false := by
        cases hh : (s.w.deliver s.d.rid (s.sendPacket askNoAck buf)).2.isSome with
        | false => rfl
        | true =>
          obtain ⟨i, hi, his, hr⟩ := (World.deliver_ack_isSome _ _ _).1 hh
          have hij : i = j := by
            have := hc.ne; have := hc.lt; have hw := h.wf
            unfold DrvState.Wf at hw
            omega
          rw [hij, hrecv] at hr
          cases hr
      rw [this, Bool.and_false]
    unfold sendSucceedsB sendExpected
    rw [haw, hA]
    rfl
  · rw [send_receiver s buf m askNoAck n sendOnly h henv hc.faults j hc.lt hc.ne, hrecv]

/-- the example world with the receiver's RX FIFO full -/
def exFull : DrvState :=
  { d := { dynPl := 0 },
    w := { radios := [{ config := 0x0E },
                      { config := 0x0F, ce := true, rxPw := [32, 0, 0, 0, 0, 0], rxFifo := [⟨0, [1]⟩, ⟨0, [2]⟩, ⟨0, [3]⟩] }],
           busyUntil := [0, 0] } }

example : SendPre exFull [4] false ∧ AckEnv exFull.rad (exFull.sendPacket false [4]) exFull ∧ Compatible exFull 1 0 false ∧
    exFull.w.radios.length = 2 ∧ exFull.sendAwaits false [4] = true ∧ (exFull.w.radio 1).rxFifo.length ≥ 3 ∧
    (exFull.w.radio 1).isDup (exFull.sendPacket false [4]) = false :=
  ⟨⟨by decide, by decide, by decide, Or.inr rfl, fun _ => Or.inl rfl, fun h => absurd h (by decide), fun _ => by decide⟩,
   ackEnv_of_eval _ _ _ (fun h => absurd h (by decide)) (by decide +kernel),
   ⟨by decide, by decide, by decide, rfl, rfl, rfl, rfl, rfl, by decide, by decide, by decide, by decide, by decide,
    fun _ => by decide, rfl⟩,
   rfl, by decide, by decide, by decide⟩
/-- **Rejection.**  Dynamic payloads on, a payload of 0 or more than 32 bytes: `write()` raises
    `ValueError` and the state — driver object, every radio, the air log, the clock — is **identical**
    (no SPI transaction at all); `send()` raises `ValueError` after its preamble (CE low and the
    flushes the cached status byte asks for): no W_TX_PAYLOAD is issued, so the TX FIFO is as before or
    flushed, nothing goes on the air, the fault pattern and every other radio (the peer) are
    untouched. -/
theorem C01_reject (s : DrvState) (buf : Bytes) (m askNoAck : Bool) (forceRetry : Int) (sendOnly : Bool) (hw : s.Wf)
    (hd : s.d.dynPl &&& 1 ≠ 0) (hb : buf = [] ∨ buf.length > 32) :
    exec (write buf m askNoAck) s = (.error .valueError, s) ∧
    (exec (send buf m askNoAck forceRetry sendOnly) s).1 = .error .valueError ∧
    ((exec (send buf m askNoAck forceRetry sendOnly) s).2.rad.txFifo = s.rad.txFifo ∨
     (exec (send buf m askNoAck forceRetry sendOnly) s).2.rad.txFifo = []) ∧
    (exec (send buf m askNoAck forceRetry sendOnly) s).2.w.air = s.w.air ∧
    (exec (send buf m askNoAck forceRetry sendOnly) s).2.w.faults = s.w.faults ∧
    (∀ j, j ≠ s.d.rid → (exec (send buf m askNoAck forceRetry sendOnly) s).2.w.radio j = s.w.radio j) :=
  ⟨write_reject s buf m askNoAck hd hb, send_reject s buf m askNoAck forceRetry sendOnly hw hd hb⟩

example : ∃ s : DrvState, s.Wf ∧ s.d.dynPl &&& 1 ≠ 0 := ⟨{ d := {}, w := World.fresh 1 }, by decide, by decide⟩

/-- **The caller's buffer is never modified — MODEL TAUTOLOGY, not evidence for the clause.**  In the
    model `write`/`send` return, next to their result, "the caller's buffer object as it is after the
    call"; but `Rf24.write` ignores the buffer kind (`let _ := mutableBuf`) and literally returns its
    argument, so this theorem holds for every model of that shape and cannot fail: the original
    in-place `buf += …` (defect D1, fixed by a988495: `buf = buf + …`) is not even expressible in it,
    and the `∀ m` is empty.  The clause "the caller's buffer is never modified" is therefore decided
    by the CORRESPONDENCE RUN ONLY (tie-only): the harness compares the caller's real `bytearray` /
    `bytes` object after every call on the real code.  The theorem merely records that the model
    follows the repaired code. -/
theorem C01_buffer_unchanged (s : DrvState) (buf : Bytes) (m askNoAck : Bool) (forceRetry : Int) (sendOnly : Bool) :
    (∀ r, (exec (write buf m askNoAck) s).1 = .ok r → r.2 = buf) ∧
    (∀ r, (exec (send buf m askNoAck forceRetry sendOnly) s).1 = .ok r → r.2 = buf) :=
  ⟨fun r h => write_buffer s buf m askNoAck r h, fun r h => send_buffer buf m askNoAck forceRetry sendOnly s r h⟩

example : (exec (write [1, 2, 3] true false) exState).1 = .ok (true, [1, 2, 3]) := by rfl

end Nrf.Props.C01
