/-
C01 — link payload integrity (statements in progress).
-/
import NrfModel.Rf24

namespace Nrf.Props.C01
open Nrf

/-- `R_RX_PAYLOAD` of exactly the head payload's length returns that payload and pops it -/
theorem C01_readPayload_exact (r : Radio) (e : RxEntry) (rest : List RxEntry)
    (h : r.rxFifo = e :: rest) :
    (r.readPayload e.data.length).2 = e.data ∧ (r.readPayload e.data.length).1.rxFifo = rest := by
  unfold Radio.readPayload
  simp [h]

end Nrf.Props.C01
