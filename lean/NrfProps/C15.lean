/-
C15 — "An address is accepted as valid only if it is 0, one of the reserved multicast addresses,
or one to four octal digits each in 1..5.  update() on any node role returns normally for any
received bytes; frames shorter than a header or with an invalid origin/destination are dropped
without being queued or retransmitted."

`C15_valid_iff` (the address predicate), `C15_drop` (discarded frames), `C15_total` /
`C15_total_net_fuel` (`update()` returns, open system, explicit fuel bound, modulo the contracts
`C15Contracts` on `RF24.send` / `RF24.resend`); `C15_contracts` (the contracts are proved) and the
unconditional `C15_total_proved`, `C15_total_net_fuel_proved`, `C15_total_after_begin_proved`,
`C15_history_proved`.  Payloads of length 0 (last section): `C15_len0_refused` (the model's radio
never delivers one), `C15_history_len0` (totality for injected / scripted payloads of 0..32 bytes),
`C15_len0_update` / `C15_len0_blocks` (what the driver code does if a radio does deliver one: `update()`
returns 0, the entry is never removed from the RX FIFO and blocks every later frame).
-/
import NrfProofs.Addr
import NrfProofs.C15Drop
import NrfProofs.C15Master
import NrfProofs.C15Env
import NrfProofs.C15Discharge
import NrfProofs.C15Len0
import NrfProps.C07

namespace Nrf.Props.C15
open Nrf Nrf.Net Nrf.Spec Nrf.Proofs Nrf.Props.C07

/-- for **every** natural number (not only 16-bit values): the implementation's predicate holds
    exactly for the reserved addresses and the values of digit lists of the 781-node tree -/
theorem C15_valid_iff (a : Nat) : isValid a = true ↔ ValidAddr a := by
  unfold isValid ValidAddr IsNode
  by_cases hr : a ∈ reserved
  · have : a = NETWORK_MULTICAST_ADDR ∨ a = NETWORK_MULTICAST_ADDR_LVL_2
        ∨ a = NETWORK_MULTICAST_ADDR_LVL_4 := by
      simpa [reserved, NETWORK_MULTICAST_ADDR, NETWORK_MULTICAST_ADDR_LVL_2,
        NETWORK_MULTICAST_ADDR_LVL_4] using hr
    simp [this, hr]
  · have : ¬ (a = NETWORK_MULTICAST_ADDR ∨ a = NETWORK_MULTICAST_ADDR_LVL_2
        ∨ a = NETWORK_MULTICAST_ADDR_LVL_4) := by
      simpa [reserved, NETWORK_MULTICAST_ADDR, NETWORK_MULTICAST_ADDR_LVL_2,
        NETWORK_MULTICAST_ADDR_LVL_4] using hr
    simp only [this, ↓reduceIte, hr, false_or]
    rw [isValidGo_iff]
    constructor
    · rintro ⟨ds, hok, hv, hl⟩
      refine ⟨ds, ⟨hok, ?_⟩, hv⟩
      rcases hl with rfl | hl
      · simp
      · simp [VALID_DIGIT_LIMIT] at hl; omega
    · rintro ⟨ds, ⟨hok, hl⟩, hv⟩
      exact ⟨ds, hok, hv, Or.inr (by simp [VALID_DIGIT_LIMIT]; omega)⟩

/-- non-vacuity: a four-digit node is valid, and the implementation says so -/
example : ValidAddr 0o4321 ∧ isValid 0o4321 = true :=
  ⟨Or.inr ⟨[1, 2, 3, 4], by decide, by decide⟩, by rw [C15_valid_iff]; exact Or.inr ⟨[1, 2, 3, 4], by decide, by decide⟩⟩

/-! ## "Frames shorter than a header or carrying an invalid origin or destination address are
dropped without being queued or retransmitted." -/

/-- a received payload that `_net_update` discards: shorter than the 8-byte header, or with a
    `to_node` / `from_node` that `is_address_valid` rejects -/
def Discarded (fb : Frame) (b : Bytes) : Prop :=
  b.length < 8 ∨ isValid (fb.unpack b).1.header.toNode = false ∨ isValid (fb.unpack b).1.header.fromNode = false

/-- One iteration of the loop of `_net_update()` on a listening node (PRIM_RX set), open system,
    **every** fuel, every world, every arrival script, every return value `rv` carried in: if the
    payload `b` that `self._rf24.read()` returns is discarded, then — up to and including this
    iteration — nothing was put on the air, the TX FIFO and the frame queue are as before, no
    header id was consumed; `frame_buf` holds what `unpack` left in it (a short payload leaves it
    untouched), and the loop goes on exactly as a fresh `_net_update()` with return value 0 would
    (so a discarded frame cannot make an earlier frame's type the result of `update()`). -/
theorem C15_drop (f rv : Nat) (s s1 : NetState) (b : Bytes) (hopen : s.closed = false)
    (hcur : s.cur < s.nodes.length) (hrx : (s.w.radio s.node.rf.rid).primRx = true)
    (hread : nexec (rfRead (f + 1)) s = (.ok (some b), s1)) (hbad : Discarded s1.node.frameBuf b) :
    s1.w.air = s.w.air ∧
    (s1.w.radio s.node.rf.rid).txFifo = (s.w.radio s.node.rf.rid).txFifo ∧
    s1.node.queue = s.node.queue ∧ s1.nextId = s.nextId ∧
    nexec (netUpdate (f + 2) rv) s
      = nexec (netUpdate (f + 1) 0) (s1.setNode fun n => { n with frameBuf := (s1.node.frameBuf.unpack b).1 }) ∧
    (b.length < 8 → (s1.node.frameBuf.unpack b).1 = s.node.frameBuf) := by
  have hq := (wp_any_iff _ _ _).1 (rfRead_quiet f s hopen hcur hrx) (some b) s1 hread
  refine ⟨hq.air, hq.txf, hq.queue, hq.nextId, ?_, ?_⟩
  · rw [netUpdate, nexec_bind7, hread]
    simp only
    have hc : (!(s1.node.frameBuf.unpack b).2 || !isValid (s1.node.frameBuf.unpack b).1.header.toNode
        || !isValid (s1.node.frameBuf.unpack b).1.header.fromNode) = true := by
      rcases hbad with h | h | h
      · rw [Frame.unpack_ok]
        have : decide (8 ≤ b.length) = false := by simp; omega
        simp [this]
      · simp [h]
      · simp [h]
    simp only [nexec_bind7, nexec_getNode7, nexec_modNode7]
    rw [if_pos hc]
  · intro hlen
    rw [← hq.frameBuf]
    unfold Frame.unpack Header.unpack
    match b, hlen with
    | [], _ => rfl
    | [_], _ => rfl
    | [_, _], _ => rfl
    | [_, _, _], _ => rfl
    | [_, _, _, _], _ => rfl
    | [_, _, _, _, _], _ => rfl
    | [_, _, _, _, _, _], _ => rfl
    | [_, _, _, _, _, _, _], _ => rfl
    | _ :: _ :: _ :: _ :: _ :: _ :: _ :: _ :: t, h => simp at h; omega

/-- non-vacuity: a 3-byte payload and a frame to the invalid address `0o6` are discarded -/
example : Discarded {} [1, 2, 3] ∧ Discarded {} [1, 0, 6, 0, 0, 0, 0, 0] := by
  constructor
  · left; decide
  · right; left
    show isValid 6 = false
    unfold isValid isValidGo
    decide

/-! ## "update() on any node role returns normally for any received bytes"

Open system (the other nodes do not run inside the call), on top of the contracts `C15Contracts`
(`NrfProofs/C15Contract.lean`) on the two `RF24` calls with a polling loop, `send(buf,
send_only=True)` and `resend(send_only=True)`: from an idle transmitter they return and leave the
transmitter idle (the contracts are themselves proved: `C15_contracts`, last section of this
file).  Every other `RF24` call (`listen`, `auto_ack`, `open_tx_pipe`, `open_rx_pipe`,
`set_auto_retries`, `available`, `any`, `read`, `flush_tx`, register reads and writes) is executed,
not assumed.

The sources of exceptions in the model of `update()` and why none fires:
* `.diverge` (fuel of the fuel-recursive functions): the explicit bound `updateFuel` below;
* `_pipe_address(addr, pipe)` → `IndexError` for `pipe > 5` and for a multicast address of more
  than five digits: `logi2phys` on a node of the tree, for a valid destination, yields a pipe
  ≤ 5 and an address of the tree or a reserved one (`NrfProofs/C15Addr.lean: l2p_ok`);
* `frame.pack()` / `is_ack_type()` → `TypeError` for a `str` message type: `unpack` always stores
  an `int` type, and every header write of `update()` keeps it an `int` (`HdrOk`);
* `struct.pack("<h", lookup result)` / `struct.pack("<H", new address)` on the mesh master: the
  lease table only holds ids < 256 (one header byte) and addresses < 32768 (`TabOk`, kept by
  `set_address` / `release_address`; a leased address has at most five octal digits);
* `message[0]`, `struct.unpack("<H", message[:2])` on the master: guarded by the length test of
  the code itself;
* `self._rf24.read()` on a radio without dynamic payloads / with an empty FIFO, `send` with an empty
  or over-long payload: `TI` (shadows of DYNPD / FEATURE on; RX FIFO entries and scripted arrivals of
  0..32 bytes: a 0-byte arrival is refused by the model's radio, a 0-byte FIFO entry makes `read()`
  return `None` — see the last section), and
  fragments are cut to ≤ 24 + 8 bytes;
* the `IndexError` of the master's `_dhcp()` retry (FINDING, fixed — see `C15_finding_dhcp_retry`). -/

/-- the mesh master is not in the middle of `update()`: `_do_dhcp` is clear (it is set and
    cleared within one `update()` call on the object whose `node_id` is 0) -/
def DhcpIdle (s : NetState) : Prop :=
  s.node.kind = .meshMaster → s.node.nodeId = 0 → s.node.doDhcp = false

/-- fuel that suffices for one `update()` with `m` frames still to be read (RX FIFO + arrival
    script), `tx_timeout = tt` ms, `route_timeout = rt` ms, `max_message_length ≤ Lm` bytes: one
    unit per loop iteration / nested call; a `resend()` takes ≥ 10 µs of virtual time, so a
    `_tx_standby(tt)` loop makes ≤ 100·tt iterations -/
def updateFuel (Lm tt rt m : Nat) : Nat := 2 * m + 600 * tt + 3 * (Lm / 24) + 100 * rt + 67

theorem C15_fuel_eq (Lm tt rt m : Nat) : bUP Lm tt rt m = updateFuel Lm tt rt m := by
  unfold bUP bNW bAW bNU bH bNW0 bWP bFL bFR bTS updateFuel
  omega

/-- **`update()` returns**, for EVERY node role (`kind` is arbitrary: RF24NetworkRoutingOnly,
    RF24Network, RF24MeshNoMaster, RF24Mesh as master or not), every address of the 781-node tree
    and multicast level 0..4, every admissible prefix/suffix, every content of the RX FIFO and
    every arrival script (payloads of 0..32 bytes — all a radio with dynamic payloads can deliver —
    of ANY content: short, invalid addresses, any message type, any fragment sequence), every
    lease table (ids / addresses below 2^15), every frame queue, every fault list, every other
    radio, every clock value — from any session state `s` in which

    * the node listens (`NodeListens`, the invariant of C07 that `_begin` establishes), and
    * `TI Lm tt rt s` (`NrfProofs/C15Inv.lean`): open system, the node's radio exists, `CfgBytes`,
      `_addr` is a node of the tree with `_net_lvl ≤ 4`, `tx_timeout = tt`, `route_timeout = rt`,
      the driver's shadows of DYNPD / EN_DPL are on, the transmitter is idle (`TxS`), `frame_buf`
      holds ≤ `Lm` bytes, RX FIFO entries and scripted arrivals have 0..32 bytes (`TI.rx`, `TI.arr`), the lease table
      is bounded, and
    * the master is not half-way through an `update()` (`DhcpIdle`),

    with any fuel `f ≥ updateFuel Lm tt rt (frames still to be read)`:
    the call ends with `.ok`, and the same three facts hold again afterwards (so a later
    `update()` returns as well); no frame reappears (`M` does not grow). -/
theorem C15_total (C : C15Contracts) (Lm tt rt : Nat) (hLm : 24 ≤ Lm) (s : NetState) (hl : NodeListens s)
    (hi : TI Lm tt rt s) (hd : DhcpIdle s) (f : Nat) (hf : updateFuel Lm tt rt s.M ≤ f) :
    ∃ r s', nexec (nodeUpdate f) s = (.ok r, s') ∧ NodeListens s' ∧ TI Lm tt rt s' ∧ DhcpIdle s' ∧
      s'.M ≤ s.M ∧ s'.node.kind = s.node.kind := by
  obtain ⟨p0, a1, aN, ha, hls⟩ := hl
  have hu : UpdInv Lm tt rt s := ⟨p0, a1, aN, ha, ⟨hls, NFr.refl s⟩, hi⟩
  have := t_nodeUpdate C hLm f s hu hd (by rw [C15_fuel_eq]; exact hf)
  obtain ⟨r, s', h1, ⟨q0, q1, qN, ha', hl'⟩, hm, _, hk, _, hdd⟩ := (wp_no_iff _ _ _).1 this
  exact ⟨r, s', h1, ⟨q0, q1, qN, ha', hl'.1.1⟩, hl'.2, hdd, hm, hk⟩

/-- **the fuel of the model's entry point suffices**: `node.update()` of `NrfModel/Net/Api.lean`
    (`NET_FUEL = 200000`) with the default timeouts (25 ms / 75 ms) and `max_message_length = 144`
    returns whenever at most 88000 frames are waiting (RX FIFO + arrival script; a harness session
    has a few dozen) -/
theorem C15_total_net_fuel (C : C15Contracts) (s : NetState) (hl : NodeListens s) (hi : TI 144 25 75 s)
    (hd : DhcpIdle s) (hm : s.M ≤ 88000) :
    ∃ r s', nexec apiUpdate s = (.ok r, s') ∧ NodeListens s' ∧ TI 144 25 75 s' ∧ DhcpIdle s' ∧ s'.M ≤ s.M := by
  obtain ⟨r, s', h1, h2, h3, h4, h5, _⟩ := C15_total C 144 25 75 (by decide) s hl hi hd F (by
    unfold updateFuel F NET_FUEL; omega)
  exact ⟨r, s', h1, h2, h3, h4, h5⟩

/-- a concrete session for the non-vacuity example: an `RF24Mesh` master object after
    `RF24.__init__`, with a lease in its table, a relayed address request in the RX FIFO and
    three scripted arrivals: a 3-byte payload, a frame to the invalid address `0o6`, and the
    NETWORK_ACK-range frame of the finding below -/
def demo15 : NetState :=
  { nodes := [{ kind := .meshMaster, rf := { pipes0 := [0xE7, 0xE7, 0xE7, 0xE7, 0xE7] }, a := nodeOf 0 0,
                dhcp := [(7, 0o5)],
                arrivals := [(0, 1, [1, 2, 3]), (5, 1, [1, 0, 6, 0, 0, 0, 0, 0]),
                             (3000000, 1, [1, 0, 6, 0, 2, 0, 1, 0, 0x78])] }],
    w := { radios := [{ dynpd := 0x3F, feature := 5,
                        rxFifo := [{ pipe := 1, data := [0x0d, 0, 0, 0, 1, 0, 0xc3, 7] }] }], busyUntil := [0] },
    closed := false }

instance (b : Bytes) : Decidable (RxOk b) := by unfold RxOk; infer_instance

theorem C15_demo_ti : TI 144 25 75 demo15 where
  open_ := rfl
  cur := by decide
  good := C07_good_of (by unfold CfgBytes; decide)
  tree := ⟨[], by decide, 0, by decide, by decide⟩
  tt := rfl
  rt := rfl
  dyn := by decide
  feat := by decide
  txs := ⟨⟨Or.inl rfl, fun _ h => (by cases h), Nat.zero_le _⟩, fun h => absurd rfl h, by decide⟩
  msg := by decide
  rx := by decide
  arr := by decide
  tab := by decide

/-- **from `RF24.__init__` to a returning `update()`**: from any session state with the shape
    `RF24.__init__` / the network constructor leave (`Base`, the invariant `TI`, `_do_dhcp` clear),
    for every node `ds` of the tree: `_begin(val ds)` returns (C07) in a state that satisfies every
    hypothesis of `C15_total_net_fuel`; so the `update()` that follows returns, and the node listens
    again. -/
theorem C15_total_after_begin (C : C15Contracts) (s : NetState) (ds : List Nat) (hn : IsNode ds)
    (hw : s.drv.Wf) (hb : Base s.drv.d s.drv.cfg) (hc : CfgBytes s.node.cfg) (hi : TI 144 25 75 s)
    (hd : s.node.doDhcp = false) (hm : s.M ≤ 88000) :
    ∃ s0, nexec (begin (val ds)) s = (.ok (), s0) ∧ s0.M ≤ s.M ∧
      ∃ r s', nexec apiUpdate s0 = (.ok r, s') ∧ NodeListens s' ∧ TI 144 25 75 s' := by
  obtain ⟨s0, h1, h2, _⟩ := Nrf.Props.C07.C07_begin s ds hn hi.cur hw hb hc
  have hti := ti_begin hi hn
  obtain ⟨t0, np0, _⟩ := (wp_any_iff _ _ _).1 hti () s0 h1
  have hd0 : DhcpIdle s0 := fun _ _ => np0.dd hd
  obtain ⟨r, s', h3, h4, h5, _⟩ := C15_total_net_fuel C s0 h2 t0 hd0 (Nat.le_trans np0.m hm)
  exact ⟨s0, h1, np0.m, r, s', h3, h4, h5⟩

/-- non-vacuity of `C15_total_after_begin` (and through it of `C15_total` / `C15_total_net_fuel`,
    whose hypotheses its proof establishes): the concrete master session satisfies every hypothesis
    on the state, with 4 frames waiting -/
example : IsNode [] ∧ demo15.drv.Wf ∧ Base demo15.drv.d demo15.drv.cfg ∧ CfgBytes demo15.node.cfg ∧
    TI 144 25 75 demo15 ∧ demo15.node.doDhcp = false ∧ demo15.M = 4 ∧ demo15.node.kind = .meshMaster := by
  refine ⟨by decide, ?_, ?_, by unfold CfgBytes; decide, C15_demo_ti, rfl, by decide, rfl⟩
  · show demo15.drv.d.rid < demo15.drv.w.radios.length; decide
  · constructor <;> decide

/-! ## any history of `update()` calls and moves of the environment -/

/-- the histories this part is about (calls of `NrfProps/C07.lean: Call`): `update()`, and between
    two calls the environment scripts an arrival, drops a payload into the RX FIFO, or replaces the
    fault list — payloads being what a radio with dynamic payloads can deliver (1..32 bytes) -/
def UpdEnv : Call → Prop
  | .update => True
  | .envArrive _ _ data => RxOk data
  | .envInject _ data => RxOk data
  | .envFaults _ => True
  | _ => False

/-- **Every `update()` of every history returns** (induction over the history; open system, given
    the contracts): from a listening node with the invariant `TI` (default timeouts), whatever the
    environment puts into the RX FIFO or the arrival script and whatever fault pattern it chooses
    between the calls — as long as fewer than 88000 frames are outstanding in total, which is what
    `NET_FUEL` covers — the whole history runs (`Runs`: every call ends with `.ok`), and the node
    listens and satisfies `TI` again at its end. -/
theorem C15_history (C : C15Contracts) (cs : List Call) (s : NetState) (hl : NodeListens s)
    (hi : TI 144 25 75 s) (hd : DhcpIdle s) (hcs : ∀ c ∈ cs, UpdEnv c) (hm : s.M + cs.length ≤ 88000) :
    ∃ s', Runs cs s s' ∧ NodeListens s' ∧ TI 144 25 75 s' ∧ DhcpIdle s' ∧ s'.M ≤ s.M + cs.length := by
  induction cs generalizing s with
  | nil => exact ⟨s, Runs.nil s, hl, hi, hd, Nat.le_refl _⟩
  | cons c cs ih =>
    have hu := hcs c (List.mem_cons_self ..)
    have hrest : ∀ c' ∈ cs, UpdEnv c' := fun c' h' => hcs c' (List.mem_cons_of_mem _ h')
    have hlen : (c :: cs).length = cs.length + 1 := rfl
    -- one step, then the rest
    have step : ∀ s1, nexec c.run s = (.ok (), s1) → NodeListens s1 → TI 144 25 75 s1 → DhcpIdle s1 →
        s1.M ≤ s.M + 1 →
        ∃ s', Runs (c :: cs) s s' ∧ NodeListens s' ∧ TI 144 25 75 s' ∧ DhcpIdle s' ∧
          s'.M ≤ s.M + (c :: cs).length := by
      intro s1 h1 l1 t1 d1 m1
      obtain ⟨s', r, a, b, c', m'⟩ := ih s1 l1 t1 d1 hrest (by omega)
      exact ⟨s', Runs.cons c cs s s1 s' h1 r, a, b, c', by omega⟩
    have hcfg : CfgBytes s.node.cfg := hi.good
    have listens : ∀ s1, nexec c.run s = (.ok (), s1) → c.Admissible → NodeListens s1 :=
      fun s1 h1 ha => (C07_api c s s1 (Or.inl hi.open_) hl hcfg ha h1).1
    cases c with
    | update =>
      obtain ⟨r, s1, h1, l1, t1, d1, m1⟩ := C15_total_net_fuel C s hl hi hd (by omega)
      have h1' : nexec (Call.run .update) s = (.ok (), s1) := by
        show nexec (apiUpdate >>= fun _ => pure ()) s = _
        rw [nexec_bind7, h1]
        rfl
      exact step s1 h1' l1 t1 d1 (by omega)
    | envArrive due pipe data =>
      have h1 : nexec (Call.run (.envArrive due pipe data)) s
          = (.ok (), s.setNode fun n => { n with arrivals := n.arrivals ++ [(due, pipe, data)] }) := rfl
      obtain ⟨t1, m1, n1⟩ := hi.arrive due pipe data hu
      refine step _ h1 (listens _ h1 trivial) t1 ?_ (by omega)
      intro hk hz
      rw [n1] at hk hz ⊢
      exact hd hk hz
    | envInject pipe data =>
      have h1 : nexec (Call.run (.envInject pipe data)) s
          = (.ok (), { s with w := s.w.inject s.node.rf.rid pipe data }) := rfl
      obtain ⟨t1, m1⟩ := hi.inject pipe data hu
      exact step _ h1 (listens _ h1 trivial) t1 hd m1
    | envFaults l =>
      have h1 : nexec (Call.run (.envFaults l)) s = (.ok (), { s with w := { s.w with faults := l } }) := rfl
      obtain ⟨t1, m1⟩ := hi.faults l
      exact step _ h1 (listens _ h1 trivial) t1 hd (by rw [m1]; omega)
    | _ => exact absurd hu (by simp [UpdEnv])

/-- non-vacuity: the history "a 3-byte payload arrives, update(), a frame for `0o6` is injected,
    update()" is one of them, and `demo15`'s outstanding frames are far below the bound -/
example : (∀ c ∈ [Call.envArrive 0 1 [1, 2, 3], .update, .envInject 1 [1, 0, 6, 0, 0, 0, 0, 0], .update], UpdEnv c) ∧
    demo15.M + 4 ≤ 88000 := by
  refine ⟨?_, by decide⟩
  intro c hc
  simp only [List.mem_cons, List.not_mem_nil, or_false] at hc
  rcases hc with rfl | rfl | rfl | rfl
  · show RxOk _; decide
  · trivial
  · show RxOk _; decide
  · trivial

/-! ## FINDING (fixed): the master's `_dhcp()` retry raised `IndexError` out of `update()`

`_dhcp()` answered a relayed MESH_ADDR_REQUEST with `if not self._write(to, TX_NORMAL):
self._write(self.frame_buf.header.to_node, TX_NORMAL)`.  MESH_ADDR_RESPONSE (128) is in the
NETWORK_ACK range, so the first `_write` waits for a NETWORK_ACK and runs `_net_update()`, which
`unpack`s every received payload into `frame_buf` *before* validating it.  After a time-out the retry
therefore transmitted whatever frame arrived last, to its `to_node` — for a discarded frame an
invalid address: `_write(6, TX_NORMAL)` → `_logi_2_phys` → `_pipe_address(6, 5)` →
`address_suffix[6]` → `IndexError` out of `update()`, with the radio left in TX mode.
Witness (replayed on the real code; in the generator of `harness/props/c15.py`):
`net 2 0 new m master 0 0 ; new n5 network 1 5 ; env inject 0 1 0d0000000100c307 ;
 env arrive m 3000000 1 010006000200010078 ; m update`.
Fixed in the repository (`rf24_mesh.py: _dhcp`, the response is packed before the first `_write`
and restored before the retry) and in the model (`NrfModel/Net/Node.lean: masterDhcp`);
`C15_total` is about the fixed code. -/

/-- the crux on the model: the discarded frame's destination `0o6` is not a valid address, the
    master routes it to "its child 6, pipe 5", and that pipe address does not exist -/
theorem C15_finding_dhcp_retry :
    isValid 6 = false ∧ logi2phys (nodeOf 0 0) 6 TX_NORMAL = (6, 5, false) ∧
    pipeAddress {} 6 5 = .error .indexError := by
  refine ⟨by unfold isValid isValidGo; decide, by decide, ?_⟩
  unfold pipeAddress
  simp only []
  unfold pipeAddrLoop
  rfl

/-- non-vacuity: the witness payload is one a radio can deliver, and `_net_update` discards it -/
example : RxOk [1, 0, 6, 0, 2, 0, 1, 0, 0x78] ∧ Discarded {} [1, 0, 6, 0, 2, 0, 1, 0, 0x78] := by
  refine ⟨by decide, Or.inr (Or.inl ?_)⟩
  show isValid 6 = false
  unfold isValid isValidGo
  decide

/-! ## the two `RF24` contracts are proved: the unconditional statements

`NrfProofs/C15Send.lean`, `NrfProofs/C15Discharge.lean`: `send(buf, send_only=True)` and
`resend(send_only=True)` from an idle transmitter (`TxS`) return, leave the transmitter idle and do
not touch the RX FIFO — in every world (any other radios, any fault list, whoever acknowledges or
not).  The theorems above are kept as they were (they take the contracts as a hypothesis); the ones
below are the same statements with the hypothesis supplied. -/

/-- **the contracts hold** (what `send()` / `resend()` owe the network layer): every transmit
    cycle the chip runs ends in TX_DS or MAX_RT, the polling loop sees it after at most one
    `update()`, a failed payload stays queued with MAX_RT latched and visible in the cached status
    byte, a three-level TX FIFO is drained by one CE pulse, and without ACK payloads nothing
    enters the RX FIFO of the transmitter. -/
theorem C15_contracts : C15Contracts := c15contracts

/-- a transmitter with a failed payload pending: PWR_UP, PRIM_RX clear, ACK payloads off, one
    `W_TX_PAYLOAD` entry in the TX FIFO, MAX_RT latched and cached, two payloads waiting in the
    RX FIFO; a receiver that would acknowledge; the next three attempts are lost -/
def demoTx : DrvState :=
  { d := { rid := 0, status := 0x1E },
    w := { radios := [{ config := 0x0E, feature := 5, dynpd := 0x3F, flags := 0x10,
                        txFifo := [{ kind := .payload, data := [1, 2, 3], pid := some 1 }],
                        rxFifo := [{ pipe := 1, data := [7] }, { pipe := 0, data := [8, 9] }] },
                      { config := 0x0F, feature := 5, dynpd := 0x3F, ce := true }],
           busyUntil := [0, 0], faults := [.packetLost, .ackLost, .packetLost] } }

/-- non-vacuity of the contracts: `demoTx` satisfies every precondition of both (with something
    to re-send, so that `resend()` does run transmit cycles) -/
example : demoTx.Wf ∧ demoTx.cfg.config &&& 3 = 2 ∧ demoTx.cfg.feature &&& 2 = 0 ∧
    demoTx.d.dynPl &&& 1 ≠ 0 ∧ TxS demoTx ∧ (demoTx.w.radio demoTx.d.rid).txFifo ≠ [] := by
  refine ⟨?_, by decide, by decide, by decide, ⟨⟨Or.inr (by decide), by decide, by decide⟩, fun _ => by decide,
    by decide⟩, by decide⟩
  show demoTx.d.rid < demoTx.w.radios.length
  decide

/-- **`update()` returns** — `C15_total` without hypotheses on the driver: for every node role,
    tree address, level, RX FIFO content, arrival script, lease table, queue, fault list, set of
    other radios and clock, from any state with `NodeListens`, `TI Lm tt rt`, `DhcpIdle`, with any
    fuel `f ≥ updateFuel Lm tt rt s.M`; the three facts hold again afterwards, `M` does not grow. -/
theorem C15_total_proved (Lm tt rt : Nat) (hLm : 24 ≤ Lm) (s : NetState) (hl : NodeListens s)
    (hi : TI Lm tt rt s) (hd : DhcpIdle s) (f : Nat) (hf : updateFuel Lm tt rt s.M ≤ f) :
    ∃ r s', nexec (nodeUpdate f) s = (.ok r, s') ∧ NodeListens s' ∧ TI Lm tt rt s' ∧ DhcpIdle s' ∧
      s'.M ≤ s.M ∧ s'.node.kind = s.node.kind :=
  C15_total c15contracts Lm tt rt hLm s hl hi hd f hf

/-- non-vacuity: the invariant is satisfiable (a master with a lease, a request in the RX FIFO,
    three scripted arrivals), and the fuel bound is a concrete number for it -/
example : TI 144 25 75 demo15 ∧ updateFuel 144 25 75 demo15.M = 22593 := ⟨C15_demo_ti, by decide⟩

/-- **the fuel of the model's entry point suffices** — `C15_total_net_fuel` without hypotheses on
    the driver -/
theorem C15_total_net_fuel_proved (s : NetState) (hl : NodeListens s) (hi : TI 144 25 75 s)
    (hd : DhcpIdle s) (hm : s.M ≤ 88000) :
    ∃ r s', nexec apiUpdate s = (.ok r, s') ∧ NodeListens s' ∧ TI 144 25 75 s' ∧ DhcpIdle s' ∧ s'.M ≤ s.M :=
  C15_total_net_fuel c15contracts s hl hi hd hm

/-- non-vacuity: `demo15` is within the bound -/
example : TI 144 25 75 demo15 ∧ demo15.M ≤ 88000 := ⟨C15_demo_ti, by decide⟩

/-- **from `RF24.__init__` to a returning `update()`** — `C15_total_after_begin` without hypotheses
    on the driver -/
theorem C15_total_after_begin_proved (s : NetState) (ds : List Nat) (hn : IsNode ds)
    (hw : s.drv.Wf) (hb : Base s.drv.d s.drv.cfg) (hc : CfgBytes s.node.cfg) (hi : TI 144 25 75 s)
    (hd : s.node.doDhcp = false) (hm : s.M ≤ 88000) :
    ∃ s0, nexec (begin (val ds)) s = (.ok (), s0) ∧ s0.M ≤ s.M ∧
      ∃ r s', nexec apiUpdate s0 = (.ok r, s') ∧ NodeListens s' ∧ TI 144 25 75 s' :=
  C15_total_after_begin c15contracts s ds hn hw hb hc hi hd hm

/-- non-vacuity: the concrete master session satisfies every hypothesis (as for
    `C15_total_after_begin`), for the master's own address and for node `0o21` -/
example : IsNode [] ∧ IsNode [2, 1] ∧ demo15.drv.Wf ∧ Base demo15.drv.d demo15.drv.cfg ∧
    CfgBytes demo15.node.cfg ∧ TI 144 25 75 demo15 ∧ demo15.node.doDhcp = false ∧ demo15.M ≤ 88000 := by
  refine ⟨by decide, by decide, ?_, ?_, by unfold CfgBytes; decide, C15_demo_ti, rfl, by decide⟩
  · show demo15.drv.d.rid < demo15.drv.w.radios.length; decide
  · constructor <;> decide

/-- **every `update()` of every history returns** — `C15_history` without hypotheses on the
    driver (open system; fewer than 88000 frames outstanding in total) -/
theorem C15_history_proved (cs : List Call) (s : NetState) (hl : NodeListens s)
    (hi : TI 144 25 75 s) (hd : DhcpIdle s) (hcs : ∀ c ∈ cs, UpdEnv c) (hm : s.M + cs.length ≤ 88000) :
    ∃ s', Runs cs s s' ∧ NodeListens s' ∧ TI 144 25 75 s' ∧ DhcpIdle s' ∧ s'.M ≤ s.M + cs.length :=
  C15_history c15contracts cs s hl hi hd hcs hm

/-- non-vacuity: a history with a fault list chosen by the environment, an arrival, two
    `update()` calls and an injected frame for an invalid address -/
example : (∀ c ∈ [Call.envFaults [.packetLost, .ackLost], .envArrive 0 1 [1, 2, 3], .update,
      .envInject 1 [1, 0, 6, 0, 0, 0, 0, 0], .update], UpdEnv c) ∧ demo15.M + 5 ≤ 88000 := by
  refine ⟨?_, by decide⟩
  intro c hc
  simp only [List.mem_cons, List.not_mem_nil, or_false] at hc
  rcases hc with rfl | rfl | rfl | rfl | rfl
  · trivial
  · show RxOk _; decide
  · trivial
  · show RxOk _; decide
  · trivial

/-! ## payloads of length 0 (review item: "length 0 is excluded")

The property quantifies over "any received bytes", the review over "any length 0..32".  Two facts:

1. **Under the model's radio a 0-byte payload never reaches the RX FIFO** (`C15_len0_refused`):
   `World.inject` — the only way the environment of the open system puts a payload into a FIFO,
   directly or through the arrival script — refuses it on every pipe (dynamic: length must be 1..32;
   static: must equal RX_PW_Px ≠ 0), and no modelled transmitter can queue one (`W_TX_PAYLOAD` with no
   data bytes is ignored; `RF24.write()` itself raises `ValueError` for an empty buffer).  So the
   totality theorems extend to histories whose injected / scripted payloads have **0..32** bytes
   (`C15_history_len0`; `TI.arr` and `TI.rx` now allow 0-byte arrivals / FIFO entries, so
   `C15_total_proved`, `C15_total_net_fuel_proved`, `C15_history_proved` hold for RX FIFO contents and
   arrival scripts of 0..32 bytes at any position: `update()` returns — `C15_len0_demo_ti`).
2. **If a radio does deliver one** (the nRF24L01+ with DPL can: R_RX_PL_WID = 0) the driver's code
   decides what happens, and the model transliterates that code: `any()` returns 0, `read()` returns
   `None` *without issuing R_RX_PAYLOAD*, `_net_update()` takes `None` for "FIFO empty" and returns.
   `C15_len0_update`: `update()` returns 0, nothing is queued or transmitted by the network layer —
   **and the 0-byte entry is still at the head of the RX FIFO**; `C15_len0_blocks`: so is it after
   any further history of `update()` calls and arrivals — every later payload stays unread behind it
   until `flush_rx()`.  "Returns normally": yes.  "Dropped": no — the frame is never removed
   (head-of-line blocking; a finding about the driver on real hardware, not reachable in the model's
   radio and therefore not in the harness; see MERGE_NOTES / known findings). -/

/-- **Under the model's radio a 0-byte payload is never delivered and never sent**: injecting it
    changes nothing, in every world, on every radio and pipe (dynamic or static payload length);
    `W_TX_PAYLOAD` / `W_ACK_PAYLOAD` with no data leave the TX FIFO alone. -/
theorem C15_len0_refused :
    (∀ (w : World) (j p : Nat), w.inject j p [] = w) ∧
    (∀ (r : Radio) (k : TxKind), r.writePayload k [] = r) := by
  refine ⟨World.inject_nil, fun r k => ?_⟩
  unfold Radio.writePayload
  simp

/-- `UpdEnv` with payloads of **0..32** bytes -/
def UpdEnv0 : Call → Prop
  | .update => True
  | .envArrive _ _ data => data = [] ∨ RxOk data
  | .envInject _ data => data = [] ∨ RxOk data
  | .envFaults _ => True
  | _ => False

/-- **Every `update()` of every history returns — payloads of 0..32 bytes.**  `C15_history_proved`
    with the length restriction 1..32 relaxed to 0..32 for injected payloads and scripted arrivals
    (under the model's radio the 0-byte ones are refused when they arrive, `C15_len0_refused`); same
    hypotheses on the state otherwise, open system. -/
theorem C15_history_len0 (cs : List Call) (s : NetState) (hl : NodeListens s)
    (hi : TI 144 25 75 s) (hd : DhcpIdle s) (hcs : ∀ c ∈ cs, UpdEnv0 c) (hm : s.M + cs.length ≤ 88000) :
    ∃ s', Runs cs s s' ∧ NodeListens s' ∧ TI 144 25 75 s' ∧ DhcpIdle s' ∧ s'.M ≤ s.M + cs.length := by
  induction cs generalizing s with
  | nil => exact ⟨s, Runs.nil s, hl, hi, hd, Nat.le_refl _⟩
  | cons c cs ih =>
    have hu := hcs c (List.mem_cons_self ..)
    have hrest : ∀ c' ∈ cs, UpdEnv0 c' := fun c' h' => hcs c' (List.mem_cons_of_mem _ h')
    have hlen : (c :: cs).length = cs.length + 1 := rfl
    have step : ∀ s1, nexec c.run s = (.ok (), s1) → NodeListens s1 → TI 144 25 75 s1 → DhcpIdle s1 →
        s1.M ≤ s.M + 1 →
        ∃ s', Runs (c :: cs) s s' ∧ NodeListens s' ∧ TI 144 25 75 s' ∧ DhcpIdle s' ∧
          s'.M ≤ s.M + (c :: cs).length := by
      intro s1 h1 l1 t1 d1 m1
      obtain ⟨s', r, a, b, c', m'⟩ := ih s1 l1 t1 d1 hrest (by omega)
      exact ⟨s', Runs.cons c cs s s1 s' h1 r, a, b, c', by omega⟩
    have hcfg : CfgBytes s.node.cfg := hi.good
    have listens : ∀ s1, nexec c.run s = (.ok (), s1) → c.Admissible → NodeListens s1 :=
      fun s1 h1 ha => (C07_api c s s1 (Or.inl hi.open_) hl hcfg ha h1).1
    cases c with
    | update =>
      obtain ⟨r, s1, h1, l1, t1, d1, m1⟩ := C15_total_net_fuel c15contracts s hl hi hd (by omega)
      have h1' : nexec (Call.run .update) s = (.ok (), s1) := by
        show nexec (apiUpdate >>= fun _ => pure ()) s = _
        rw [nexec_bind7, h1]
        rfl
      exact step s1 h1' l1 t1 d1 (by omega)
    | envArrive due pipe data =>
      have h1 : nexec (Call.run (.envArrive due pipe data)) s
          = (.ok (), s.setNode fun n => { n with arrivals := n.arrivals ++ [(due, pipe, data)] }) := rfl
      obtain ⟨t1, m1, n1⟩ := hi.arrive0 due pipe data hu
      refine step _ h1 (listens _ h1 trivial) t1 ?_ (by omega)
      intro hk hz
      rw [n1] at hk hz ⊢
      exact hd hk hz
    | envInject pipe data =>
      have h1 : nexec (Call.run (.envInject pipe data)) s
          = (.ok (), { s with w := s.w.inject s.node.rf.rid pipe data }) := rfl
      rcases hu with h0 | hok
      · have hsame : ({ s with w := s.w.inject s.node.rf.rid pipe data } : NetState) = s := by
          rw [h0, World.inject_nil]
        rw [hsame] at h1
        exact step s h1 hl hi hd (by omega)
      · obtain ⟨t1, m1⟩ := hi.inject pipe data hok
        exact step _ h1 (listens _ h1 trivial) t1 hd m1
    | envFaults l =>
      have h1 : nexec (Call.run (.envFaults l)) s = (.ok (), { s with w := { s.w with faults := l } }) := rfl
      obtain ⟨t1, m1⟩ := hi.faults l
      exact step _ h1 (listens _ h1 trivial) t1 hd (by rw [m1]; omega)
    | _ => exact absurd hu (by simp [UpdEnv0])

/-- non-vacuity: a history with a 0-byte arrival and a 0-byte injection among ordinary ones; the state
    hypotheses are those of `C15_history_proved` (`demo15`: `C15_demo_ti`, …) -/
example : (∀ c ∈ [Call.envArrive 0 1 [], .update, .envInject 1 [], .envInject 1 [1, 0, 6, 0, 0, 0, 0, 0], .update],
      UpdEnv0 c) ∧ TI 144 25 75 demo15 ∧ demo15.M + 5 ≤ 88000 := by
  refine ⟨?_, C15_demo_ti, by decide⟩
  intro c hc
  simp only [List.mem_cons, List.not_mem_nil, or_false] at hc
  rcases hc with rfl | rfl | rfl | rfl | rfl
  · exact Or.inl rfl
  · trivial
  · exact Or.inl rfl
  · exact Or.inr (by decide)
  · trivial

/-- **`update()` on a radio that did deliver a 0-byte payload.**  For every node role, in every
    open-system state in which the running node's driver has dynamic payloads on in its shadow, its
    transmitter is idle and the HEAD of its RX FIFO is an entry `e` of 0 bytes (`Len0Head`; anything
    behind it, any arrival script, any world), with the master not half-way through `update()`:
    the model's entry point `node.update()` **returns 0**; afterwards the same situation holds —
    **`e` is still at the head of the RX FIFO**, which only grew at its tail; nothing was queued;
    `frame_buf`, the header-id counter and the lease table are untouched; and if the radio listens
    (PRIM_RX set, the invariant of C07) nothing was put on the air and the TX FIFO is as before. -/
theorem C15_len0_update (s : NetState) (e : RxEntry) (h : Len0Head s e) (hd : DhcpIdle s) :
    ∃ s', nexec apiUpdate s = (.ok 0, s') ∧ Len0Head s' e ∧ DhcpIdle s' ∧
      (∃ add, s'.rxq = s.rxq ++ add) ∧ s'.node.queue = s.node.queue ∧
      s'.node.frameBuf = s.node.frameBuf ∧ s'.nextId = s.nextId ∧ s'.node.dhcp = s.node.dhcp ∧
      ((s.w.radio s.node.rf.rid).primRx = true →
        s'.w.air = s.w.air ∧ (s'.w.radio s.node.rf.rid).txFifo = (s.w.radio s.node.rf.rid).txFifo) := by
  obtain ⟨s', h1, h2, h3, h4, h5, h6, h7, h8, h9, h10, hread⟩ := nodeUpdate_len0 (F - 3) s e h hd
  refine ⟨s', h1, h2, ?_, h3, h4, h5, h6, h8, ?_⟩
  · intro hk hz
    rw [h9]
    exact hd (h7 ▸ hk) (h10 ▸ hz)
  · intro hrx
    have hq := (wp_any_iff _ _ _).1 (rfRead_quiet (F - 3) s h.open_ h.cur hrx) none s' hread
    exact ⟨hq.air, hq.txf⟩

/-- histories for `C15_len0_blocks`: `update()`, and ANY arrival / injection (any length, any pipe,
    any due time) / fault list in between -/
def AnyEnv : Call → Prop
  | .update => True
  | .envArrive _ _ _ => True
  | .envInject _ _ => True
  | .envFaults _ => True
  | _ => False

/-- **Head-of-line blocking by a 0-byte payload.**  From the situation of `C15_len0_update`, after
    ANY history of `update()` calls and environment moves (no length bound; whatever arrives later):
    every call returns, the 0-byte entry is still at the head of the RX FIFO, the FIFO only grew at
    its tail, and the frame queue never received anything — no later frame is ever read. -/
theorem C15_len0_blocks (cs : List Call) (s : NetState) (e : RxEntry) (h : Len0Head s e) (hd : DhcpIdle s)
    (hcs : ∀ c ∈ cs, AnyEnv c) :
    ∃ s', Runs cs s s' ∧ Len0Head s' e ∧ DhcpIdle s' ∧ (∃ add, s'.rxq = s.rxq ++ add) ∧
      s'.node.queue = s.node.queue := by
  induction cs generalizing s with
  | nil => exact ⟨s, Runs.nil s, h, hd, ⟨[], by simp⟩, rfl⟩
  | cons c cs ih =>
    have hu := hcs c (List.mem_cons_self ..)
    have hrest : ∀ c' ∈ cs, AnyEnv c' := fun c' h' => hcs c' (List.mem_cons_of_mem _ h')
    have step : ∀ s1, nexec c.run s = (.ok (), s1) → Len0Head s1 e → DhcpIdle s1 →
        (∃ add, s1.rxq = s.rxq ++ add) → s1.node.queue = s.node.queue →
        ∃ s', Runs (c :: cs) s s' ∧ Len0Head s' e ∧ DhcpIdle s' ∧ (∃ add, s'.rxq = s.rxq ++ add) ∧
          s'.node.queue = s.node.queue := by
      intro s1 h1 l1 d1 ⟨add1, a1⟩ q1
      obtain ⟨s', r, l', d', ⟨add', a'⟩, q'⟩ := ih s1 l1 d1 hrest
      exact ⟨s', Runs.cons c cs s s1 s' h1 r, l', d', ⟨add1 ++ add', by rw [a', a1, List.append_assoc]⟩,
        q'.trans q1⟩
    cases c with
    | update =>
      obtain ⟨s1, h1, l1, d1, a1, q1, _⟩ := C15_len0_update s e h hd
      have h1' : nexec (Call.run .update) s = (.ok (), s1) := by
        show nexec (apiUpdate >>= fun _ => pure ()) s = _
        rw [nexec_bind7, h1]
        rfl
      exact step s1 h1' l1 d1 a1 q1
    | envArrive due pipe data =>
      have h1 : nexec (Call.run (.envArrive due pipe data)) s
          = (.ok (), s.setNode fun n => { n with arrivals := n.arrivals ++ [(due, pipe, data)] }) := rfl
      obtain ⟨l1, n1, r1⟩ := h.arrive due pipe data
      refine step _ h1 l1 ?_ ⟨[], by rw [r1]; simp⟩ (by rw [n1])
      intro hk hz
      rw [n1] at hk hz ⊢
      exact hd hk hz
    | envInject pipe data =>
      have h1 : nexec (Call.run (.envInject pipe data)) s
          = (.ok (), { s with w := s.w.inject s.node.rf.rid pipe data }) := rfl
      obtain ⟨l1, a1⟩ := h.inject pipe data
      exact step _ h1 l1 hd a1 rfl
    | envFaults l =>
      have h1 : nexec (Call.run (.envFaults l)) s = (.ok (), { s with w := { s.w with faults := l } }) := rfl
      exact step _ h1 (h.faults l) hd ⟨[], (List.append_nil _).symm⟩ rfl
    | _ => exact absurd hu (by simp [AnyEnv])

/-- a session in the situation: `demo15`'s master with a 0-byte entry at the head of the RX FIFO, an
    address request behind it and three scripted arrivals -/
def demoLen0 : NetState :=
  { demo15 with
    w := { radios := [{ dynpd := 0x3F, feature := 5,
                        rxFifo := [{ pipe := 1, data := [] },
                                   { pipe := 1, data := [0x0d, 0, 0, 0, 1, 0, 0xc3, 7] }] }], busyUntil := [0] } }

/-- non-vacuity of `C15_len0_update` / `C15_len0_blocks`: every hypothesis on the concrete session -/
theorem C15_len0_demo : Len0Head demoLen0 { pipe := 1, data := [] } ∧ DhcpIdle demoLen0 :=
  ⟨{ open_ := rfl, cur := by decide, feat := by decide,
     txs := ⟨⟨Or.inl rfl, fun _ h => (by cases h), Nat.zero_le _⟩, fun h => absurd rfl h, by decide⟩,
     head := ⟨_, rfl⟩, len0 := rfl }, fun _ _ => rfl⟩

/-- the totality theorems apply to that session too: `TI` holds of it (a 0-byte entry in the RX FIFO is
    within `TI.rx`), so `C15_total_net_fuel_proved` says `update()` returns on it -/
theorem C15_len0_demo_ti : TI 144 25 75 demoLen0 where
  open_ := rfl
  cur := by decide
  good := C07_good_of (by unfold CfgBytes; decide)
  tree := ⟨[], by decide, 0, by decide, by decide⟩
  tt := rfl
  rt := rfl
  dyn := by decide
  feat := by decide
  txs := ⟨⟨Or.inl rfl, fun _ h => (by cases h), Nat.zero_le _⟩, fun h => absurd rfl h, by decide⟩
  msg := by decide
  rx := by decide
  arr := by decide
  tab := by decide

/-- … and what the model's `update()` does there (kernel evaluation): it returns 0 twice, the request
    behind the 0-byte entry is never served (the lease table stays `[(7, 0o5)]`), the FIFO keeps both -/
example :
    (nexec apiUpdate demoLen0).1.toOption = some 0 ∧ (nexec apiUpdate (nexec apiUpdate demoLen0).2).1.toOption = some 0 ∧
    (nexec apiUpdate (nexec apiUpdate demoLen0).2).2.node.dhcp = [(7, 0o5)] ∧
    ((nexec apiUpdate (nexec apiUpdate demoLen0).2).2.rxq.map (·.data.length)).take 2 = [0, 8] := by
  decide +kernel

end Nrf.Props.C15
