/-
C15 — "An address is accepted as valid only if it is 0, one of the reserved multicast addresses,
or one to four octal digits each in 1..5."   (the `update()` totality part follows further down
as the node model grows)
-/
import NrfProofs.Addr

namespace Nrf.Props.C15
open Nrf.Net Nrf.Spec Nrf.Proofs

/-- for **every** natural number (not only 16-bit values): the implementation's predicate holds
    exactly for the reserved addresses and the values of digit lists of the 781-node tree -/
theorem C15_valid_iff (a : Nat) : isValid a = true ↔ ValidAddr a := by
  unfold isValid ValidAddr IsNode
  by_cases hr : a ∈ reserved
  · have : a = NETWORK_MULTICAST_ADDR ∨ a = NETWORK_MULTICAST_ADDR_LVL_2
        ∨ a = NETWORK_MULTICAST_ADDR_LVL_4 := by
      simpa [reserved, NETWORK_MULTICAST_ADDR, NETWORK_MULTICAST_ADDR_LVL_2,
        NETWORK_MULTICAST_ADDR_LVL_4] using hr
    simp [this, hr]
  · have : ¬ (a = NETWORK_MULTICAST_ADDR ∨ a = NETWORK_MULTICAST_ADDR_LVL_2
        ∨ a = NETWORK_MULTICAST_ADDR_LVL_4) := by
      simpa [reserved, NETWORK_MULTICAST_ADDR, NETWORK_MULTICAST_ADDR_LVL_2,
        NETWORK_MULTICAST_ADDR_LVL_4] using hr
    simp only [this, ↓reduceIte, hr, false_or]
    rw [isValidGo_iff]
    constructor
    · rintro ⟨ds, hok, hv, hl⟩
      refine ⟨ds, ⟨hok, ?_⟩, hv⟩
      rcases hl with rfl | hl
      · simp
      · simp [VALID_DIGIT_LIMIT] at hl; omega
    · rintro ⟨ds, ⟨hok, hl⟩, hv⟩
      exact ⟨ds, hok, hv, Or.inr (by simp [VALID_DIGIT_LIMIT]; omega)⟩

/-- non-vacuity: a four-digit node is valid, and the implementation says so -/
example : ValidAddr 0o4321 ∧ isValid 0o4321 = true :=
  ⟨Or.inr ⟨[1, 2, 3, 4], by decide, by decide⟩, by rw [C15_valid_iff]; exact Or.inr ⟨[1, 2, 3, 4], by decide, by decide⟩⟩

end Nrf.Props.C15
