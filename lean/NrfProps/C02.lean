/-
C02 — send()/resend() report the true fate of the payload and always terminate.

Radio level (environment model, `NrfModel/Air.lean`): the Enhanced ShockBurst attempt loop and
transmit cycle in closed form, for **every** fault pattern (`List Outcome`, any length), every
ARC / ARD, in every world (any number of radios in any state).

Driver level (`Rf24.send`, `Rf24.resend` over that radio), for every fault pattern, every ARC 0..15,
every ARD, every `force_retry : Nat`, `ask_no_ack` / `send_only` on or off, static and dynamic
payload modes, ACK payloads on or off, **every world** (any number of other radios, listening or
not, compatible or not): the peer is not assumed — the ground truth `sendAcked` *computes* from the
world whether some radio accepts and acknowledges the packet and whether the sender can hear it.

Hypotheses (all explicit; `SendPre`, `AckEnv`, `Hist`, `FailedSt` are in `NrfProofs/C02*.lean`):
* `SendPre s buf sendOnly`: the radio exists, is a powered-up PTX (PWR_UP ∧ ¬PRIM_RX — in RX mode or
  powered down `send()` spins in code and model alike: outside the property), RX FIFO entries carry
  pipes 0..5, **the TX FIFO is empty or the cached status byte makes `send()` flush it** (what a
  failed `send()` leaves behind: `C02_history`), with `send_only` off the cache is right about the RX
  FIFO, and the payload passes `write()`'s check (dynamic: 1..32 bytes; static: `_pl_len[0] ≥ 1`).
  CE may be high or low.
* `AckEnv`: only used for the *value* of the ACK payload: the EN_DPL shadow agrees with the register
  when the radio takes ACK payloads, and no radio attaches an empty ACK payload (true in every
  reachable world: `ackEnv_of_sane`, `World.Reachable.good`).

Added in round 2:
* `C02_history_calls` (`NrfProofs/C02Calls.lean`) — the induction over an arbitrary LIST of
  `send`/`resend` calls, each with its own fault pattern, carried out (was: one-step preservation
  `C02_history` + prose); `C02_history_calls_closed`: the same from a condition on the start state
  only (`NrfProofs/C02CallsClosed.lean`).
* `C02_send_list_call` — `C02_send_list` composed with the `ce = False` prefix of the real call.
* `C02_negative_force_retry`, `C02_negative_retry_loop` (`NrfProofs/C02Neg.lean`) — negative
  `force_retry`: never `False`; still looping when the fuel is used up, for every fuel; with nobody
  acknowledging: non-termination.  "`send()` always terminates" (`C02_terminates`) is therefore a
  theorem about `force_retry : Nat` ONLY.
-/
import NrfProofs.C02Hist
import NrfProofs.C02Calls
import NrfProofs.C02Neg
import NrfProofs.C02CallsClosed

namespace Nrf.Props.C02
open Nrf Rf24 Spec.Link

/-- an acknowledged cycle makes at most `1 + ARC` attempts, whatever the fault pattern -/
theorem C02_attempts_le (s : Nat) (k : Packet) (n made : Nat) (w : World) :
    (World.attemptLoop s k n made w).2.1 ≤ made + n := World.attemptLoop_made_le s k n made w

example : (World.attemptLoop 0 default 4 0 (World.fresh 2)).2.1 = 4 := by decide

/-- **The attempt loop, for every fault pattern and world.**  With a budget of `n` attempts it
    returns an acknowledgement iff some radio acknowledges the packet, the sender can hear it
    (`World.acked`), and one of the first `n` outcomes of the pattern is `delivered`; the
    acknowledgement returned is the one the first acknowledging radio sends; it makes the attempts
    up to and including the first `delivered` one — all `n` when there is none or nobody to
    acknowledge — and consumes exactly that many outcomes; it never touches the sender. -/
theorem C02_attempt_loop (s : Nat) (k : Packet) (n made : Nat) (w : World) :
    ((World.attemptLoop s k n made w).2.2.isSome = true ↔ w.acked s k = true ∧ hasDelivered w.faults n) ∧
    (∀ a, (World.attemptLoop s k n made w).2.2 = some a → (w.deliver s k).2 = some a) ∧
    (World.attemptLoop s k n made w).2.1 = made + (if w.acked s k then attemptsUsed w.faults n else n) ∧
    (World.attemptLoop s k n made w).1.faults = w.faults.drop (if w.acked s k then attemptsUsed w.faults n else n) ∧
    (World.attemptLoop s k n made w).1.radio s = w.radio s := by
  obtain ⟨h1, h2, h3⟩ := World.attemptLoop_spec s k n made w
  refine ⟨?_, ?_, h2, h3, World.attemptLoop_sender s k n made w⟩
  · rw [h1, ← World.hasDeliveredB_iff]
    constructor
    · intro h
      split at h
      · rename_i hc; simpa using hc
      · cases h
    · rintro ⟨hA, hD⟩
      rw [hA, hD]
      exact acked_isSome _ _ _ hA
  · intro a ha
    rw [h1] at ha
    split at ha
    · exact ha
    · cases ha

example : ∃ fs : List Outcome, hasDelivered fs 3 ∧ ¬ hasDelivered fs 2 :=
  ⟨[.packetLost, .ackLost, .delivered], ⟨2, by decide, rfl⟩, by
    rintro ⟨i, hi, h⟩
    have : i = 0 ∨ i = 1 := by omega
    rcases this with rfl | rfl <;> cases h⟩

/-- **The transmit cycle, for every fault pattern and world**: radio `s` (any state) with head
    entry `e` and `1 + ARC` attempts.  No acknowledgement awaited (auto-ack off, or NO_ACK honoured):
    TX_DS, the head payload popped — always, one attempt.  Acknowledgement awaited and obtained within
    the budget: TX_DS, exactly the head payload popped, ARC_CNT = attempts − 1, the ACK payload (if any,
    if enabled and if there is room) into the RX FIFO on pipe 0 with RX_DR.  Otherwise: MAX_RT,
    exactly that payload kept at the head **with its PID**, ARC_CNT = ARC, PLOS_CNT + 1. -/
theorem C02_cycle (w : World) (s : Nat) (e : TxEntry) (rest : List TxEntry) (hs : s < w.radios.length) :
    ((w.radio s).awaitsAck e = false →
      (w.cycle s e rest).radio s = ((w.radio s).takePid e).txDoneNoAck rest) ∧
    ((w.radio s).awaitsAck e = true → w.acked s ((w.radio s).packetFor e) = true →
      hasDelivered w.faults (World.arcOf (w.radio s) + 1) →
      ∃ a, (w.deliver s ((w.radio s).packetFor e)).2 = some a ∧
        (w.cycle s e rest).radio s =
          ((w.radio s).takePid e).txDoneAcked rest (attemptsUsed w.faults (World.arcOf (w.radio s) + 1)) a) ∧
    ((w.radio s).awaitsAck e = true →
      ¬ (w.acked s ((w.radio s).packetFor e) = true ∧ hasDelivered w.faults (World.arcOf (w.radio s) + 1)) →
      (w.cycle s e rest).radio s = ((w.radio s).takePid e).txFailed e ((w.radio s).pidFor e) rest) := by
  have hself := World.cycle_self w s e rest hs
  obtain ⟨h2, h1⟩ := World.cycleRes_spec w s e hs
  refine ⟨fun haw => ?_, fun haw hA hD => ?_, fun haw hn => ?_⟩
  · rw [hself]; unfold Radio.afterCycle; rw [haw]; rfl
  · have hDB := (World.hasDeliveredB_iff _ _).2 hD
    obtain ⟨a, ha⟩ := Option.isSome_iff_exists.1 (acked_isSome _ _ _ hA)
    refine ⟨a, ha, ?_⟩
    rw [hself]; unfold Radio.afterCycle
    rw [haw, h2, h1, hA, hDB, ha]
    rfl
  · rw [hself]; unfold Radio.afterCycle
    rw [haw, h2]
    have : (w.acked s ((w.radio s).packetFor e) && hasDeliveredB w.faults (World.arcOf (w.radio s) + 1)) = false := by
      cases hA : w.acked s ((w.radio s).packetFor e) with
      | false => rfl
      | true =>
        cases hD : hasDeliveredB w.faults (World.arcOf (w.radio s) + 1) with
        | false => rfl
        | true => exact absurd ⟨hA, (World.hasDeliveredB_iff _ _).1 hD⟩ hn
    rw [this]
    rfl

/-- what the three endings of a cycle mean for the flags, the TX FIFO and ARC_CNT -/
theorem C02_cycle_fields (r : Radio) (e : TxEntry) (rest : List TxEntry) (made pid : Nat) (a : Option Bytes) :
    dataSent (r.txDoneNoAck rest) = true ∧ (r.txDoneNoAck rest).txFifo = rest ∧ (r.txDoneNoAck rest).arcCnt = 0 ∧
    dataSent (r.txDoneAcked rest made a) = true ∧ (r.txDoneAcked rest made a).txFifo = rest ∧
    (r.txDoneAcked rest made a).arcCnt = made - 1 ∧
    dataFail (r.txFailed e pid rest) = true ∧ (r.txFailed e pid rest).txFifo = { e with pid := some pid } :: rest ∧
    (r.txFailed e pid rest).arcCnt = World.arcOf r := by
  have or20 : ∀ f g : Nat, (f ||| 0x20 ||| g) &&& 0x20 ≠ 0 := by
    intro f g
    rw [Nat.and_or_distrib_right, Nat.and_or_distrib_right]
    intro h
    have := (Nat.or_eq_zero_iff.1 (Nat.or_eq_zero_iff.1 h).1).2
    simp at this
  refine ⟨?_, rfl, rfl, ?_, rfl, rfl, ?_, rfl, rfl⟩
  · unfold dataSent Radio.txDoneNoAck
    have := or20 r.flags 0
    simpa using this
  · unfold dataSent Radio.txDoneAcked
    simpa using or20 r.flags _
  · unfold dataFail Radio.txFailed
    simpa using Radio.or10_and10 r.flags

example : ∃ (w : World) (e : TxEntry), (w.radio 0).txFifo = [e] ∧ (w.radio 0).awaitsAck e = true ∧
    w.acked 0 ((w.radio 0).packetFor e) = false :=
  ⟨{ radios := [{ txFifo := [⟨.payload, [1], none⟩], config := 0x0E }], busyUntil := [0] }, _, rfl, by decide, by decide⟩

/-- **`send()` is truthful** — for every fault pattern, ARC, ARD, `force_retry`, mode and world.
    It returns (with the caller's buffer untouched) `False` iff the ground truth says the
    `(1 + ARC) · (1 + force_retry)` budgeted attempts all go unacknowledged while an acknowledgement
    is awaited; otherwise `True`, or — `send_only` off, ACK payloads enabled on this radio, the
    acknowledgement carrying one — that ACK payload.  (`sendExpected`, `sendSucceedsB`: `Spec/Link.lean`;
    `C02_succeeds_iff` relates the executable ground truth to its ∃-form.) -/
theorem C02_send_truth (s : DrvState) (buf : Bytes) (m askNoAck : Bool) (n : Nat) (sendOnly : Bool)
    (h : SendPre s buf sendOnly) (henv : AckEnv s.rad (s.sendPacket askNoAck buf) s) :
    (exec (send buf m askNoAck (n : Int) sendOnly) s).1 =
      .ok (sendExpected (sendSucceedsB (s.sendAwaits askNoAck buf) (s.sendAcked askNoAck buf) s.w.faults
              (World.arcOf s.rad) n) sendOnly (s.sendAckPayload askNoAck buf), buf) :=
  (send_final s buf m askNoAck n sendOnly h henv).1

/-- the ground truth in the words of the property: the transmission completes iff no
    acknowledgement is requested, or a peer acknowledges audibly and some attempt `i` within the
    budget `(1 + arc)(1 + n)` is `delivered` under the fault pattern -/
theorem C02_succeeds_iff (aw A : Bool) (F : List Outcome) (arc n : Nat) :
    sendSucceedsB aw A F arc n = true ↔
      (aw = false ∨ (A = true ∧ ∃ i, i < (1 + arc) * (1 + n) ∧ F.getD i .delivered = .delivered)) :=
  sendSucceedsB_iff aw A F arc n

/-- `send()` returns `False` exactly when the ground truth says the transmission failed; a successful
    result is never `False` -/
theorem C02_false_iff (succeeds sendOnly : Bool) (taken : Option Bytes) :
    sendExpected succeeds sendOnly taken = .bool false ↔ succeeds = false := by
  unfold sendExpected okResult
  cases succeeds <;> cases sendOnly <;> cases taken <;> simp

/-- a concrete world for the examples: radio 0 a powered-up PTX, radio 1 listening on the same
    address with 32-byte static payloads and auto-ack -/
def exWorld (fs : List Outcome) : World :=
  { radios := [{ config := 0x0E }, { config := 0x0F, ce := true, rxPw := [32, 0, 0, 0, 0, 0] }],
    busyUntil := [0, 0], faults := fs }

def exState (fs : List Outcome) : DrvState := { d := { dynPl := 0 }, w := exWorld fs }

example : SendPre (exState [.packetLost, .ackLost]) [1, 2, 3] false :=
  ⟨by decide, by decide, by decide, Or.inr rfl, fun _ => Or.inl rfl, fun h => absurd h (by decide), fun _ => by decide⟩

example : (exState []).sendAwaits false [1, 2, 3] = true ∧ (exState []).sendAcked false [1, 2, 3] = true := by decide

/-- **`send()` terminates** — for every fault pattern: it never runs out of the polling fuel
    (`POLL_FUEL` = 8 polls; with jump semantics the flags are visible at the first poll after the
    trigger) nor of the retry fuel, and raises nothing. -/
theorem C02_terminates (s : DrvState) (buf : Bytes) (m askNoAck : Bool) (n : Nat) (sendOnly : Bool)
    (h : SendPre s buf sendOnly) (henv : AckEnv s.rad (s.sendPacket askNoAck buf) s) :
    (exec (send buf m askNoAck (n : Int) sendOnly) s).1 ≠ .error .diverge ∧
    ∃ r, (exec (send buf m askNoAck (n : Int) sendOnly) s).1 = .ok r := by
  rw [C02_send_truth s buf m askNoAck n sendOnly h henv]
  exact ⟨(by intro hc; cases hc), _, rfl⟩

/-- **Virtual-time bound**: `send()` returns by
    `t₀ + (1 + ARC)(1 + force_retry)·(T_TX + ARD) + (8 + 7·force_retry)·SPI_COST`, where `t₀` is the
    moment the radio is free (`max clock busyUntil`; `= clock` after any completed call) — for every
    fault pattern; and it consumes at most `(1 + ARC)(1 + force_retry)` outcomes of the pattern. -/
theorem C02_time (s : DrvState) (buf : Bytes) (m askNoAck : Bool) (n : Nat) (sendOnly : Bool)
    (h : SendPre s buf sendOnly) (henv : AckEnv s.rad (s.sendPacket askNoAck buf) s) :
    (exec (send buf m askNoAck (n : Int) sendOnly) s).2.w.clock ≤
      max s.w.clock (s.w.busyUntil.getD s.d.rid 0) +
        (1 + World.arcOf s.rad) * (1 + n) * (T_TX_NS + World.ardNs s.rad) + (8 + 7 * n) * SPI_COST_NS ∧
    ∃ att, att ≤ (1 + World.arcOf s.rad) * (1 + n) ∧
      (exec (send buf m askNoAck (n : Int) sendOnly) s).2.w.faults = s.w.faults.drop att := by
  obtain ⟨_, ⟨att, _, hatt, _, hrun⟩, _, _⟩ := send_final s buf m askNoAck n sendOnly h henv
  refine ⟨?_, att, hatt, hrun.sent.faults⟩
  have he := hrun.sent.eff
  unfold World.eff at he
  unfold budget at hatt
  have : att * (T_TX_NS + World.ardNs s.rad) ≤ (1 + World.arcOf s.rad) * (1 + n) * (T_TX_NS + World.ardNs s.rad) :=
    Nat.mul_le_mul_right _ hatt
  omega

example : World.arcOf { setupRetr := 0x5F } = 15 ∧ World.ardNs { setupRetr := 0x5F } = 1500000 := by decide

/-- **A failed payload does not leak, I**: what `send()` leaves behind and what it put on the air.
    Every record it appended to the air log is a transmission of *its own* packet by this radio.
    After a failed `send()` the TX FIFO holds exactly that payload (with the PID it was sent with),
    MAX_RT alone is latched, and the cached status byte shows it — so the next `send()` flushes it
    (`Hist.sendPre`).  After a successful one the TX FIFO is empty. -/
theorem C02_no_leak (s : DrvState) (buf : Bytes) (m askNoAck : Bool) (n : Nat) (sendOnly : Bool)
    (h : SendPre s buf sendOnly) (henv : AckEnv s.rad (s.sendPacket askNoAck buf) s) :
    (∃ L, (exec (send buf m askNoAck (n : Int) sendOnly) s).2.w.air = s.w.air ++ L ∧
          ∀ x ∈ L, x.sender = s.d.rid ∧ x.pkt = s.sendPacket askNoAck buf) ∧
    (sendSucceedsB (s.sendAwaits askNoAck buf) (s.sendAcked askNoAck buf) s.w.faults (World.arcOf s.rad) n = false →
      (exec (send buf m askNoAck (n : Int) sendOnly) s).2.rad.txFifo =
        [(s.sendEntry askNoAck buf).withPid (s.rad.pidFor (s.sendEntry askNoAck buf))] ∧
      (exec (send buf m askNoAck (n : Int) sendOnly) s).2.rad.flags = 0x10 ∧
      (exec (send buf m askNoAck (n : Int) sendOnly) s).2.d.status &&& 0x10 ≠ 0) ∧
    (sendSucceedsB (s.sendAwaits askNoAck buf) (s.sendAcked askNoAck buf) s.w.faults (World.arcOf s.rad) n = true →
      (exec (send buf m askNoAck (n : Int) sendOnly) s).2.rad.txFifo = []) := by
  obtain ⟨_, ⟨att, _, _, _, hrun⟩, h3, h4⟩ := send_final s buf m askNoAck n sendOnly h henv
  refine ⟨hrun.sent.air, fun hok => ?_, fun hok => (h4 hok).tx⟩
  obtain ⟨hf, hfr⟩ := h3 hok
  refine ⟨hf.fifo, hf.flags, ?_⟩
  rw [hfr, (Radio.status_decodeP _ hf.pipes).2.2.2.2.2.1, hf.flags]; decide

/-- **A failed payload does not leak, II — induction over histories.**  `Hist R` ("a failed
    transmission is pending and the cache shows MAX_RT, or the TX FIFO is empty"; it holds after
    `flush_tx(); update()` on a PTX with CE low, and after every `send()`/`resend()`) is kept by every
    `send()` and every `resend()`, whatever their arguments, results and the fault pattern; and in
    every such state `send()`'s precondition holds.  Hence, by induction, along **every sequence of
    consecutive `send()`/`resend()` calls** each `send()` is truthful (`C02_send_truth`) and puts only
    its own packet on the air (`C02_no_leak`). -/
theorem C02_history (R : Radio) (hp : R.Ptx) (s : DrvState) (h : Hist R s) :
    (∀ (buf : Bytes) (m askNoAck : Bool) (n : Nat) (sendOnly : Bool),
      (s.d.dynPl &&& 1 ≠ 0 → buf ≠ [] ∧ buf.length ≤ 32) → (s.d.dynPl &&& 1 = 0 → 1 ≤ s.d.plLen.getD 0 0) →
      AckEnv s.rad (s.sendPacket askNoAck buf) s →
      SendPre s buf sendOnly ∧ Hist R (exec (send buf m askNoAck (n : Int) sendOnly) s).2) ∧
    (∀ sendOnly : Bool, (∀ e k, FailedSt R e k s → AckEnv R k s) → Hist R (exec (resend sendOnly) s).2) :=
  ⟨fun buf m a n so hl hpd henv => ⟨h.sendPre hp buf so hl hpd, hist_send R s h hp buf m a n so hl hpd henv⟩,
   fun so henv => hist_resend R s h hp so henv⟩

example : Hist { config := 0x0E } (exState []) := Or.inr ⟨by decide, rfl, by decide, rfl, Or.inl rfl⟩

/-- **A failed payload does not leak, III — the induction over a list of calls, carried out.**
    `calls` is ANY list of calls drawn from `send(buf, ask_no_ack, force_retry : Nat, send_only)` and
    `resend(send_only)`, each carrying the fault pattern the environment chooses for it (`some F`:
    the pattern is `F` when the call starts; `none`: what the predecessors left of theirs).
    `runCalls` executes them one after the other on the model.  From every state satisfying the
    history invariant `Hist R` (`R` a powered-up PTX), provided every call meets its per-call
    hypotheses when its turn comes (`callsOk`: a `send` payload passes `write()`'s check; `AckEnv` for
    the packet concerned — the same hypotheses as `C02_send_truth` / `C02_resend`):
    * every call returns, and the i-th result is the ground truth of the i-th call in the state its
      predecessors left and under its own fault pattern (`expectedCalls`: `sendExpected` of
      `sendSucceedsB …` for a `send`; for a `resend` `False` on an empty TX FIFO, else one cycle's
      `sendExpected (cycleOkSpec …)` for the pending entry);
    * one result per call;
    * the invariant holds after the whole list;
    * in front of every `send` of the list its precondition `SendPre` holds (so `C02_send_truth`,
      `C02_no_leak`, `C02_time` apply to each of them). -/
theorem C02_history_calls (R : Radio) (hp : R.Ptx) (calls : List Call) (s : DrvState) (h : Hist R s)
    (hok : callsOk calls s) :
    (runCalls calls s).1 = (expectedCalls calls s).map .ok ∧
    (runCalls calls s).1.length = calls.length ∧
    Hist R (runCalls calls s).2 ∧
    (∀ pre F buf m a n so post, calls = pre ++ Call.send F buf m a n so :: post →
      SendPre ((runCalls pre s).2.withFaults F) buf so) := by
  obtain ⟨h1, h2⟩ := calls_hist R hp calls s h hok
  refine ⟨h1, runCalls_length calls s, h2, ?_⟩
  intro pre F buf m a n so post hc
  subst hc
  exact calls_sendPre R hp pre F buf m a n so post s h hok

/-- the calls of the example: a `send` all of whose 4 attempts (ARC = 3) fail, a `resend` that gets
    through at its second attempt, a `resend` on the then empty TX FIFO -/
def exCalls : List Call :=
  [.send (some [.packetLost, .ackLost, .packetLost, .packetLost, .packetLost]) [1, 2, 3] false false 0 false,
   .resend (some [.packetLost, .delivered]) false,
   .resend none true]

example : expectedCalls exCalls (exState []) = [.bool false, .bool true, .bool false] := by decide +kernel

example : callsOk exCalls (exState []) := by
  refine ⟨⟨fun h => absurd h (by decide), fun _ => by decide, ackEnv_of_eval _ _ _ (fun h => absurd h (by decide +kernel))
    (by decide +kernel)⟩, ?_, ?_, trivial⟩
  · intro e rest he
    have hq : ((Call.run (exCalls.getD 0 default) ((exState []).withFaults (exCalls.getD 0 default).faults)).2.withFaults
        (some [.packetLost, .delivered])).rad.txFifo = [⟨.payload, [1, 2, 3] ++ List.replicate 29 0, some 0⟩] := by
      decide +kernel
    have he' := hq.symm.trans he
    injection he' with he1 _
    subst he1
    exact ackEnv_of_eval _ _ _ (fun h => absurd h (by decide +kernel)) (by decide +kernel)
  · intro e rest he
    have hq : (((Call.run (exCalls.getD 1 default) ((Call.run (exCalls.getD 0 default) ((exState []).withFaults
        (exCalls.getD 0 default).faults)).2.withFaults (exCalls.getD 1 default).faults)).2.withFaults none).rad.txFifo = []) := by
      decide +kernel
    have he' := hq.symm.trans he
    cases he'

/-- **The same with hypotheses on the START STATE only.**  `CallsEnv R s`: no radio other than the
    transmitter holds an empty ACK payload (queued or last sent — kept by every reception, true after
    power-up and under `load_ack()`, which rejects empty buffers), the EN_DPL shadow agrees with the
    register if the radio takes ACK payloads, the static payload length is ≥ 1 if the driver is in
    static mode.  `Call.legal`: a `send` payload has 1..32 bytes if the driver is in dynamic mode.
    These imply `callsOk` along the whole run (`callsOk_closed`), hence all of `C02_history_calls`,
    for every list of calls and every choice of fault patterns. -/
theorem C02_history_calls_closed (R : Radio) (hp : R.Ptx) (calls : List Call) (s : DrvState) (h : Hist R s)
    (henv : CallsEnv R s) (hlegal : ∀ c ∈ calls, c.legal s.d) :
    (runCalls calls s).1 = (expectedCalls calls s).map .ok ∧
    (runCalls calls s).1.length = calls.length ∧
    Hist R (runCalls calls s).2 ∧
    (∀ pre F buf m a n so post, calls = pre ++ Call.send F buf m a n so :: post →
      SendPre ((runCalls pre s).2.withFaults F) buf so) :=
  C02_history_calls R hp calls s h (callsOk_closed R hp calls s h henv hlegal)

example : CallsEnv { config := 0x0E } (exState []) ∧ ∀ c ∈ exCalls, c.legal (exState []).d :=
  ⟨⟨by
      intro q hq hqs
      have : q = 1 := by
        have : q < 2 := hq
        have : q ≠ 0 := hqs
        omega
      subst this
      exact ⟨(fun e he => by cases he), (fun d hd => by cases hd)⟩,
    fun hc => absurd hc (by decide), fun _ => by decide⟩,
   fun c hc => by
     simp only [exCalls, List.mem_cons, List.not_mem_nil, or_false] at hc
     rcases hc with rfl | rfl | rfl
     · exact fun hd => absurd hd (by decide)
     · trivial
     · trivial⟩

/-- **Negative `force_retry`, I — `send()` as modelled.**  Python: `while force_retry and not result:
    result = self.resend(send_only); force_retry -= 1` — a negative counter never reaches 0, the loop
    ends only when a `resend()` succeeds.  The model gives that loop `|force_retry| + 1` units of
    fuel and reports `.error .diverge` ("still looping") when they are used up.  For every fault
    pattern, world, ARC, mode: `send(buf, force_retry = -(k+1))` returns exactly what
    `force_retry = k + 1` returns when that is a success, and where `force_retry = k + 1` returns
    `False` it is still looping after `1 + (k + 1)` failed cycles: the result is never `False`.
    (What happens after the fuel: `C02_negative_retry_loop` — for EVERY fuel.) -/
theorem C02_negative_force_retry (s : DrvState) (buf : Bytes) (m askNoAck : Bool) (k : Nat) (sendOnly : Bool)
    (h : SendPre s buf sendOnly) (henv : AckEnv s.rad (s.sendPacket askNoAck buf) s) :
    (exec (send buf m askNoAck (-((k + 1 : Nat) : Int)) sendOnly) s).1 =
      (if sendSucceedsB (s.sendAwaits askNoAck buf) (s.sendAcked askNoAck buf) s.w.faults (World.arcOf s.rad) (k + 1)
       then .ok (okResult sendOnly (s.sendAckPayload askNoAck buf), buf) else .error .diverge) ∧
    (exec (send buf m askNoAck (-((k + 1 : Nat) : Int)) sendOnly) s).1 ≠ .ok (.bool false, buf) := by
  have h1 := send_neg s buf m askNoAck k sendOnly h henv
  refine ⟨h1, ?_⟩
  rw [h1]
  split
  · intro hc
    injection hc with hc
    have hc' := congrArg Prod.fst hc
    simp only at hc'
    generalize s.sendAckPayload askNoAck buf = t at hc'
    unfold okResult at hc'
    cases sendOnly <;> cases t <;> simp at hc'
  · intro hc; cases hc

example : (match (exec (send [1, 2, 3] false false (-2) false) (exState (List.replicate 12 .packetLost))).1 with
      | .error .diverge => true | _ => false) = true ∧
    (match (exec (send [1, 2, 3] false false (-2) false) (exState (List.replicate 11 .packetLost))).1 with
      | .ok (.bool true, [1, 2, 3]) => true | _ => false) = true := by decide +kernel

/-- **Negative `force_retry`, II — the loop for EVERY fuel: non-termination.**  From a pending failed
    transmission (`FailedSt`: what the failed first cycle of `send()` leaves), with a negative
    counter `n`, for every amount `F` of fuel: the loop returns — the success value — iff one of the
    first `F − 1` further cycles succeeds under the fault pattern, and otherwise is still looping
    (`.error .diverge`); it never returns `False`.  Hence, when an acknowledgement is awaited and
    nobody acknowledges audibly (peer absent, not listening, incompatible, or its RX FIFO full and
    never read — no fault pattern helps), it is still looping for EVERY fuel: `send()` with a
    negative `force_retry` does not terminate.  (The real code: an infinite loop of `resend()`s.) -/
theorem C02_negative_retry_loop (R : Radio) (e : TxEntry) (k : Packet) (sendOnly : Bool) (hp : R.Ptx)
    (n : Int) (hn : n < 0) (s : DrvState) (h : FailedSt R e k s) (hfresh : s.d.status = s.rad.status)
    (henv : AckEnv R k s) :
    (∀ F, (exec (forceRetryLoop sendOnly F n (.bool false)) s).1 =
      if retryOk (R.awaitsAck e) (ackedR R s.w s.d.rid k) (World.arcOf R + 1) (F - 1) s.w.faults
      then .ok (okResult sendOnly (ackTaken (R.awaitsAck e) (s.w.deliver s.d.rid k).2 R.ackPayRx true))
      else .error .diverge) ∧
    (R.awaitsAck e = true → ackedR R s.w s.d.rid k = false →
      ∀ F, (exec (forceRetryLoop sendOnly F n (.bool false)) s).1 = .error .diverge) := by
  have key : ∀ F, (exec (forceRetryLoop sendOnly F n (.bool false)) s).1 =
      if retryOk (R.awaitsAck e) (ackedR R s.w s.d.rid k) (World.arcOf R + 1) (F - 1) s.w.faults
      then .ok (okResult sendOnly (ackTaken (R.awaitsAck e) (s.w.deliver s.d.rid k).2 R.ackPayRx true))
      else .error .diverge := by
    intro F
    obtain ⟨g1, g2⟩ := retry_loop_neg R e k sendOnly hp F n hn s h hfresh henv
    cases hro : retryOk (R.awaitsAck e) (ackedR R s.w s.d.rid k) (World.arcOf R + 1) (F - 1) s.w.faults with
    | true =>
      obtain ⟨s', l1, _⟩ := g1 hro
      rw [l1]; rfl
    | false => rw [g2 hro]; rfl
  refine ⟨key, fun haw hA F => ?_⟩
  rw [key F, haw, hA, retryOk_unacked]
  rfl

/-- the state of the examples after a failed `send()` to nobody: radio 0 alone in the world -/
def exLonely : DrvState := { d := { dynPl := 0 }, w := { radios := [{ config := 0x0E }], busyUntil := [0] } }
def exFailed : DrvState := (exec (send [1, 2, 3] false false 0 false) exLonely).2

example : FailedSt { config := 0x0E } ⟨.payload, [1, 2, 3] ++ List.replicate 29 0, some 0⟩
      (exFailed.rad.packetFor ⟨.payload, [1, 2, 3] ++ List.replicate 29 0, some 0⟩) exFailed ∧
    exFailed.d.status = exFailed.rad.status ∧
    Radio.awaitsAck { config := 0x0E } ⟨.payload, [1, 2, 3] ++ List.replicate 29 0, some 0⟩ = true ∧
    ackedR { config := 0x0E } exFailed.w exFailed.d.rid
      (exFailed.rad.packetFor ⟨.payload, [1, 2, 3] ++ List.replicate 29 0, some 0⟩) = false ∧
    AckEnv { config := 0x0E } (exFailed.rad.packetFor ⟨.payload, [1, 2, 3] ++ List.replicate 29 0, some 0⟩) exFailed :=
  ⟨⟨by decide +kernel, by rfl, by decide +kernel, by decide +kernel, by decide +kernel, rfl, by decide +kernel,
     ⟨0, rfl⟩, by decide +kernel⟩,
   by decide +kernel, by decide +kernel, by decide +kernel,
   ackEnv_of_eval _ _ _ (fun h => absurd h (by decide +kernel)) (by decide +kernel)⟩

/-- **`resend()` on a pending failed transmission** (the state `send()` leaves after a failure, by
    `C02_no_leak` / `send_final`): exactly one more cycle for *the same packet* — same payload, same
    PID, nothing else on the air — with the result the ground truth of the fault pattern dictates:
    `False` iff its `1 + ARC` attempts all go unacknowledged; terminates; virtual time bounded. -/
theorem C02_resend (R : Radio) (e : TxEntry) (k : Packet) (s : DrvState) (sendOnly : Bool) (hp : R.Ptx)
    (h : FailedSt R e k s) (henv : AckEnv R k s) :
    (exec (resend sendOnly) s).1 =
      .ok (sendExpected (cycleOkSpec (R.awaitsAck e) (ackedR R s.w s.d.rid k) s.w.faults (World.arcOf R + 1))
             sendOnly (ackTaken (R.awaitsAck e) (s.w.deliver s.d.rid k).2 R.ackPayRx true)) ∧
    (∃ L, (exec (resend sendOnly) s).2.w.air = s.w.air ++ L ∧ ∀ x ∈ L, x.sender = s.d.rid ∧ x.pkt = k) ∧
    (exec (resend sendOnly) s).2.w.clock ≤
      max s.w.clock (s.w.busyUntil.getD s.d.rid 0) + (1 + World.arcOf R) * (T_TX_NS + World.ardNs R) + 7 * SPI_COST_NS := by
  obtain ⟨s', h1, h2, _, _⟩ := resend_spec R e k s sendOnly hp h henv
  rw [h1]
  refine ⟨rfl, h2.sent.air, ?_⟩
  have he := h2.sent.eff
  unfold World.eff at he
  have hle := cycleAttemptsSpec_le (R.awaitsAck e) (ackedR R s.w s.d.rid k) s.w.faults (World.arcOf R + 1) (by omega)
  have : cycleAttemptsSpec (R.awaitsAck e) (ackedR R s.w s.d.rid k) s.w.faults (World.arcOf R + 1) *
      (T_TX_NS + World.ardNs R) ≤ (1 + World.arcOf R) * (T_TX_NS + World.ardNs R) :=
    Nat.mul_le_mul_right _ (by omega)
  simp only at he ⊢
  omega

/-- `cycleOkSpec` (one cycle) in the words of the property -/
theorem C02_cycle_ok_iff (aw A : Bool) (F : List Outcome) (N : Nat) :
    cycleOkSpec aw A F N = true ↔ (aw = false ∨ (A = true ∧ hasDelivered F N)) := by
  unfold cycleOkSpec
  rw [← World.hasDeliveredB_iff]
  cases aw <;> cases A <;> simp

/-- **`resend()` with an empty TX FIFO** returns `False` without transmitting: one register read,
    the radio and the air are untouched. -/
theorem C02_resend_empty (s : DrvState) (sendOnly : Bool) (hw : s.Wf) (htx : s.rad.txFifo = []) :
    (exec (resend sendOnly) s).1 = .ok (.bool false) ∧
    (exec (resend sendOnly) s).2.rad = s.rad ∧
    (exec (resend sendOnly) s).2.w.air = s.w.air ∧ (exec (resend sendOnly) s).2.w.faults = s.w.faults := by
  obtain ⟨r1, r2, r3, _⟩ := resend_empty s sendOnly hw htx
  exact ⟨r1, r2, r3.2.2.1, r3.2.1⟩

example : (exState []).Wf ∧ (exState []).rad.txFifo = [] := ⟨by decide, rfl⟩

/-- **A list / tuple input yields one result per payload, in order.**  `send([b₁, b₂, …])` is CE low
    followed by `List.mapM` of the single-buffer `send` (by definition of the model, which
    transliterates the recursive calls of the Python); and from any state of a send/resend history,
    for every fault pattern, that `mapM` returns exactly `expectedList`: the ground-truth result of
    each payload **in the state its predecessors leave behind**, in order, each with its own buffer
    untouched — and leaves the history invariant in place.  (`listOk`: every payload passes
    `write()`'s check and meets `AckEnv` when its turn comes.) -/
theorem C02_send_list (R : Radio) (hp : R.Ptx) (bufs : List (Bool × Bytes)) (askNoAck : Bool) (n : Nat) (sendOnly : Bool)
    (s : DrvState) (h : Hist R s) (hok : listOk askNoAck n sendOnly s bufs) :
    sendList bufs askNoAck (n : Int) sendOnly =
      (setCE false >>= fun _ => bufs.mapM fun mb => send mb.2 mb.1 askNoAck (n : Int) sendOnly) ∧
    (exec (bufs.mapM fun mb => send mb.2 mb.1 askNoAck (n : Int) sendOnly) s).1 =
      .ok (expectedList askNoAck n sendOnly s bufs) ∧
    (expectedList askNoAck n sendOnly s bufs).length = bufs.length ∧
    Hist R (exec (bufs.mapM fun mb => send mb.2 mb.1 askNoAck (n : Int) sendOnly) s).2 := by
  obtain ⟨h1, h2⟩ := mapM_send R hp askNoAck n sendOnly bufs s h hok
  refine ⟨rfl, h1, ?_, h2⟩
  clear h1 h2 hok h
  induction bufs generalizing s with
  | nil => rfl
  | cons mb rest ih => simp only [expectedList, List.length_cons]; rw [ih]

example : listOk false 0 false (exState []) [(false, [1, 2, 3])] :=
  ⟨fun h => absurd h (by decide), fun _ => by decide,
   ackEnv_of_sane _ _ _ (by
     intro j hj
     have : j = 0 ∨ j = 1 := by
       have : j < 2 := hj
       omega
     rcases this with rfl | rfl
     · exact ⟨(fun e he => by cases he), Nat.zero_le _, Nat.zero_le _, (fun e he => by cases he), Nat.zero_le _,
         (fun d hd => by cases hd)⟩
     · exact ⟨(fun e he => by cases he), Nat.zero_le _, Nat.zero_le _, (fun e he => by cases he), Nat.zero_le _,
         (fun d hd => by cases hd)⟩) (fun hc => absurd hc (by decide)), trivial⟩

/-- **`send([b₁, b₂, …])`, the whole call** (the corollary the review asked for): `C02_send_list`
    composed with the `ce = False` prefix — the call itself, from any state of a send/resend history,
    returns exactly `expectedList` judged from the state after CE went low (same radio registers,
    FIFOs and flags; only the CE pin differs), and leaves the history invariant in place.  `listOk` is
    the per-payload hypothesis of `C02_send_list`, taken at that state. -/
theorem C02_send_list_call (R : Radio) (hp : R.Ptx) (bufs : List (Bool × Bytes)) (askNoAck : Bool) (n : Nat) (sendOnly : Bool)
    (s : DrvState) (h : Hist R s) (hok : listOk askNoAck n sendOnly (s.ceQ false) bufs) :
    (exec (sendList bufs askNoAck (n : Int) sendOnly) s).1 = .ok (expectedList askNoAck n sendOnly (s.ceQ false) bufs) ∧
    (expectedList askNoAck n sendOnly (s.ceQ false) bufs).length = bufs.length ∧
    Hist R (exec (sendList bufs askNoAck (n : Int) sendOnly) s).2 := by
  obtain ⟨h1, h2⟩ := sendList_spec R hp askNoAck n sendOnly bufs s h hok
  exact ⟨h1, (C02_send_list R hp bufs askNoAck n sendOnly _ (hist_ceLow R s h) hok).2.2.1, h2⟩

example : listOk false 0 false ((exState []).ceQ false) [(false, [1, 2, 3])] :=
  ⟨fun h => absurd h (by decide), fun _ => by decide,
   ackEnv_of_eval _ _ _ (fun h => absurd h (by decide +kernel)) (by decide +kernel), trivial⟩

end Nrf.Props.C02
