/-
C02 — send()/resend() truthful and terminating (statements in progress).
-/
import NrfModel.Rf24

namespace Nrf.Props.C02
open Nrf

/-- an acknowledged cycle makes at most `1 + ARC` attempts, whatever the fault pattern -/
theorem C02_attempts_le (s : Nat) (k : Packet) (n made : Nat) (w : World) :
    (World.attemptLoop s k n made w).2.1 ≤ made + n := by
  induction n generalizing made w with
  | zero => simp [World.attemptLoop]
  | succ n ih =>
    unfold World.attemptLoop
    simp only
    split
    · have := ih (made + 1) (w.nextFault).1; omega
    · have := ih (made + 1) ((w.nextFault).1.deliver s k).1; omega
    · split
      · split
        · simp
        · have := ih (made + 1) ((w.nextFault).1.deliver s k).1; omega
      · have := ih (made + 1) ((w.nextFault).1.deliver s k).1; omega

end Nrf.Props.C02
