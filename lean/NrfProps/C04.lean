/-
C04 — "Tree routing connects all 781 addresses; pipe addresses never collide."

For every ordered pair of valid logical addresses, forwarding a frame hop by hop according to each
node's own next-hop choice reaches the destination along the unique tree path (up to the common
ancestor, then down) in at most 8 hops, every hop being the sender's parent or one of its direct
children.  The 5-byte pipe address each hop transmits to is one that the intended next hop listens
on and that no other node in the address space listens on, and pipes 1-5 of a node differ only in
their first byte as the radio hardware requires.  The pipe-0 address of a network level is shared
by exactly the nodes of that level, and a multicast addressed to that level is transmitted to
exactly that address.

Model: `NrfModel/Net/Addr.lean` (`beginAddr`, `logi2phys`, `pipeAddress`, `beginPipes`, `txAddress`,
`multicastTx`, `routeModel`).  Spec: `NrfModel/Spec/Tree.lean` (digit lists, least significant digit
first: `nextHopSpec`, `treePath`, `dist`, `physAddrSpec`, `levelAddrSpec`, `listenSpec`).
All statements are for **every** tree node (`IsNode`: at most four digits, each 1..5) and **every**
address configuration with six pairwise distinct suffix bytes different from the prefix byte
(`CfgOk`), proved structurally — nothing is enumerated.
-/
import NrfProofs.Phys

namespace Nrf.Props.C04
open Nrf.Net Nrf.Spec Nrf.Proofs

/-- the hypothesis the property puts on `address_prefix` / `address_suffix`: six pairwise distinct
    suffix bytes, none equal to the (single) prefix byte -/
def CfgOk (cfg : AddrCfg) : Prop := cfg.sfx.length = 6 ∧ cfg.sfx.Nodup ∧ cfg.pfx ∉ cfg.sfx

instance (cfg : AddrCfg) : Decidable (CfgOk cfg) := by unfold CfgOk; infer_instance

/-- what `_begin` must derive for node `ds` -/
def nodeSpec (ds : List Nat) : NodeAddr :=
  { addr := val ds, netLvl := ds.length, mask := 8 ^ ds.length - 1,
    maskInv := (0xFFFF <<< (3 * ds.length)) &&& 0xFFFF,
    parent := val (parent ds), parentPipe := ds.getLast?.getD 0 }

/-- the pipe of the receiver a hop from `s` towards `d` uses: pipe 5 downwards, upwards the pipe
    numbered like the sender's own last digit (its child number under the parent) -/
def hopPipe (s d : List Nat) : Nat := if s <+: d then 5 else s.getLast?.getD 0

private theorem nodeOf_eq {ds : List Nat} (h : IsNode ds) : nodeOf (val ds) ds.length = nodeSpec ds := by
  unfold nodeOf nodeSpec parent maskInvOf
  rw [val_dropLast (digitsOk_lt8 h.1)]
  by_cases hne : ds = []
  · subst hne; simp [val]
  · rw [getLast?_eq_div (digitsOk_lt8 h.1) hne]; rfl

/-! ## `_begin` -/

/-- For every node the three loops of `_begin` terminate and yield level = number of digits, the
    masks of that level, parent = the address without its most significant digit, parent pipe =
    that digit. -/
theorem C04_begin (ds : List Nat) (h : IsNode ds) : beginAddr (val ds) = some (nodeSpec ds) := by
  rw [begin_node h, nodeOf_eq h]

example : IsNode [3, 2, 1] ∧ beginAddr 0o123 = some (nodeSpec [3, 2, 1]) ∧
    nodeSpec [3, 2, 1] = { addr := 0o123, netLvl := 3, mask := 0o777, maskInv := 0xFE00,
                           parent := 0o23, parentPipe := 1 } :=
  ⟨by decide, C04_begin [3, 2, 1] (by decide), by decide⟩

/-! ## next hop -/

/-- Node `s` (with the constants its own `_begin` derived) sends a frame for `d` to the tree
    neighbour the spec names — its parent, or its child on the way to `d` — for an originated
    (`TX_NORMAL`) as for a forwarded (`TX_ROUTED`) frame, never as a multicast; on pipe 5 when
    descending, on the pipe numbered like its own last digit when ascending. -/
theorem C04_next_hop (s d : List Nat) (hs : IsNode s) (hd : IsNode d) (st : Nat)
    (hst : st = TX_NORMAL ∨ st = TX_ROUTED) :
    (beginAddr (val s)).map (fun n => logi2phys n (val d) st)
      = some (val (nextHopSpec s d), hopPipe s d, false) := by
  have : st ≤ 1 := by rcases hst with h | h <;> simp [h, TX_NORMAL, TX_ROUTED]
  rw [begin_node hs, Option.map_some, l2p_node hs hd this, hopPipe]

example : (beginAddr 0o123).map (fun n => logi2phys n 0o3 TX_NORMAL) = some (0o23, 1, false) ∧
    (beginAddr 0o3).map (fun n => logi2phys n 0o123 TX_ROUTED) = some (0o23, 5, false) :=
  ⟨by decide, by decide⟩

/-- send types above `TX_ROUTED` (physical, logical-direct, multicast) go to the given address on
    pipe 0 with the multicast flag, whatever the node -/
theorem C04_next_hop_direct (n : NodeAddr) (t st : Nat) (hst : st > TX_ROUTED) :
    logi2phys n t st = (t, 0, true) := by
  simp [logi2phys, hst]

example : TX_MULTICAST > TX_ROUTED ∧ TX_PHYSICAL > TX_ROUTED ∧ TX_LOGICAL > TX_ROUTED := by decide

/-! ## the route (pure tree facts, any digit lists) -/

/-- Iterating the next-hop rule from `s` reaches `d` after exactly `dist s d = |s| + |d| − 2·|lcp|`
    hops (not earlier), the nodes visited are exactly the tree path (up to the longest common
    prefix, then down), whatever hop budget `f ≥ dist s d` is allowed. -/
theorem C04_route (s d : List Nat) :
    hops (dist s d) s d = d ∧ (∀ n, n < dist s d → hops n s d ≠ d) ∧
    (∀ f, dist s d ≤ f → routeSpec f s d = treePath s d) ∧
    (treePath s d).length = dist s d + 1 :=
  ⟨hops_dist s d, fun _ h => hops_ne_before h, fun _ h => routeSpec_eq_treePath h, by
    rw [← map_hops_eq_treePath]; simp⟩

example : treePath [4, 2, 1] [3] = [[4, 2, 1], [4, 2], [4], [], [3]] ∧ dist [4, 2, 1] [3] = 4 :=
  ⟨by decide, by decide⟩

/-- every hop goes to the sender's parent or to one of its direct children, and stays inside the
    781-node tree -/
theorem C04_route_step (s d : List Nat) (hsd : s ≠ d) :
    ((s ≠ [] ∧ nextHopSpec s d = parent s) ∨
      (parent (nextHopSpec s d) = s ∧ nextHopSpec s d ≠ [])) ∧
    (IsNode s → IsNode d → IsNode (nextHopSpec s d)) :=
  ⟨nextHop_parent_or_child hsd, isNode_nextHop⟩

/-- between nodes of the 781-address tree: at most 8 hops -/
theorem C04_route_bound (s d : List Nat) (hs : IsNode s) (hd : IsNode d) : dist s d ≤ 8 :=
  dist_le_eight hs hd

example : IsNode [1, 2, 3, 4] ∧ IsNode [5, 5, 5, 5] ∧ dist [1, 2, 3, 4] [5, 5, 5, 5] = 8 := by decide

/-- The composition of the nodes' **own** choices (`routeModel`: every node on the way runs its
    `_begin` constants and `_logi_2_phys`; `TX_NORMAL` at the origin, `TX_ROUTED` afterwards)
    visits exactly the tree path and ends at `d`, for any hop budget of at least `dist s d` (so
    for 8). -/
theorem C04_route_model (s d : List Nat) (hs : IsNode s) (hd : IsNode d) (f : Nat)
    (hf : dist s d ≤ f) (st : Nat) (hst : st = TX_NORMAL ∨ st = TX_ROUTED) :
    routeModel f (val s) (val d) st = some ((treePath s d).map val) := by
  rw [← routeSpec_eq_treePath hf]
  clear hf
  induction f generalizing s st with
  | zero => simp [routeModel, routeSpec]
  | succ f ih =>
    rw [routeModel, routeSpec]
    by_cases hsd : s = d
    · simp [hsd]
    · have hv : val s ≠ val d := fun h => hsd (val_inj hs.1 hd.1 h)
      have hnh := C04_next_hop s d hs hd st hst
      rw [C04_begin s hs, Option.map_some] at hnh
      have h1 : (logi2phys (nodeSpec s) (val d) st).1 = val (nextHopSpec s d) := by
        rw [Option.some.inj hnh]
      simp only [if_neg hv, if_neg hsd, C04_begin s hs, Option.bind_eq_bind, Option.bind_some, h1,
        ih (nextHopSpec s d) (isNode_nextHop hs hd) TX_ROUTED (Or.inr rfl)]
      simp

example : routeModel 8 0o124 0o3 TX_NORMAL = some [0o124, 0o24, 0o4, 0, 0o3] := by decide

/-! ## physical addresses -/

private theorem sfxOk {cfg : AddrCfg} (h : CfgOk cfg) : SfxOk cfg.pfx cfg.sfx := h

private theorem hg {cfg : AddrCfg} (h : CfgOk cfg) : SfxFn cfg.sfx (sfxFn cfg.sfx) := sfxFn_spec h.1

/-- `_pipe_address` never raises for a tree node and a pipe 0..5, returns five bytes, and returns
    what the spec says the node must listen on: for pipes 1..5 (and pipe 0 without multicast, and
    the master's pipe 0) the pipe's suffix byte followed by one suffix byte per digit, padded with
    the prefix; for pipe 0 with multicast allowed the address of the node's level. -/
theorem C04_phys (cfg : AddrCfg) (hc : CfgOk cfg) (ds : List Nat) (hn : IsNode ds) (p : Nat)
    (hp : p ≤ 5) :
    ∃ a, listenSpec cfg.pfx cfg.sfx cfg.allowMulticast ds p = some a ∧
      pipeAddress cfg (val ds) p = .ok a ∧ a.length = 5 ∧
      (p ≠ 0 ∨ cfg.allowMulticast = false → physAddrSpec cfg.pfx cfg.sfx ds p = some a) :=
  ⟨_, listenSpec_eq (hg hc) _ hn hp, pipeAddress_listen (hg hc) hn hp,
    listenFn_length _ _ _ hn.2 p, by
      intro h
      rw [physAddrSpec_eq (hg hc) hn.1 hp, listenFn, if_neg]
      rintro ⟨h0, ham, _⟩
      rcases h with h | h
      · exact h h0
      · rw [ham] at h; cases h⟩

example : CfgOk {} ∧ pipeAddress {} 0o123 1 = .ok [0x3C, 0xCE, 0x33, 0x3C, 0xCC] ∧
    physAddrSpec 0xCC [0xC3, 0x3C, 0x33, 0xCE, 0x3E, 0xE3] [3, 2, 1] 1
      = some [0x3C, 0xCE, 0x33, 0x3C, 0xCC] := by
  refine ⟨by decide, ?_, by decide⟩
  obtain ⟨a, h1, h2, _⟩ := C04_phys {} (by decide) [3, 2, 1] (by decide) 1 (by decide)
  have e : listenSpec 0xCC [0xC3, 0x3C, 0x33, 0xCE, 0x3E, 0xE3] true [3, 2, 1] 1
      = some [0x3C, 0xCE, 0x33, 0x3C, 0xCC] := by decide
  cases e.symm.trans h1
  exact h2

/-- The address of pipe `p` ∈ 1..5 of node `a` is not the address of any other (node, pipe) pair,
    pipe 0 included — for every admissible prefix/suffix choice, with multicast on or off.  (With
    multicast allowed pipe 0 carries the level address, which many nodes share; no pipe 1..5
    address equals it.) -/
theorem C04_unique (cfg : AddrCfg) (hc : CfgOk cfg) (a b : List Nat) (ha : IsNode a)
    (hb : IsNode b) (p q : Nat) (hp1 : 1 ≤ p) (hp : p ≤ 5) (hq : q ≤ 5)
    (he : pipeAddress cfg (val a) p = pipeAddress cfg (val b) q) : a = b ∧ p = q := by
  rw [pipeAddress_listen (hg hc) ha hp, pipeAddress_listen (hg hc) hb hq] at he
  exact listenFn_inj (sfxOk hc) _ ha hb hp1 hp hq (Except.ok.inj he)

/-- without multicast all six pipes of all nodes are pairwise distinct -/
theorem C04_unique_nomc (cfg : AddrCfg) (hc : CfgOk cfg) (ham : cfg.allowMulticast = false)
    (a b : List Nat) (ha : IsNode a) (hb : IsNode b) (p q : Nat) (hp : p ≤ 5) (hq : q ≤ 5)
    (he : pipeAddress cfg (val a) p = pipeAddress cfg (val b) q) : a = b ∧ p = q := by
  rw [pipeAddress_node (hg hc) ha hp (Or.inl ham), pipeAddress_node (hg hc) hb hq (Or.inl ham)] at he
  exact physFn_inj (sfxOk hc) ha hb hp hq (Except.ok.inj he)

/-- a pipe-1..5 address differs from every level address (`_pipe_address(_lvl_2_addr(L), 0)`,
    levels 0..5: 0..4 exist, 5 is what a level-4 relay would address) -/
theorem C04_unique_level (cfg : AddrCfg) (hc : CfgOk cfg) (ham : cfg.allowMulticast = true)
    (a : List Nat) (ha : IsNode a) (p : Nat) (hp1 : 1 ≤ p) (hp : p ≤ 5) (L : Nat) (hL : L ≤ 5) :
    pipeAddress cfg (val a) p ≠ pipeAddress cfg (lvl2addr L) 0 := by
  intro he
  rw [pipeAddress_listen (hg hc) ha hp] at he
  by_cases h0 : L = 0
  · subst h0
    rw [pipeAddress_lvl0 (hg hc)] at he
    have hm : IsNode [] := by decide
    have hp0 : p ≠ 0 := by omega
    rw [listenFn, if_neg (fun h => hp0 h.1)] at he
    have := (physFn_inj (sfxOk hc) ha hm hp (Nat.zero_le 5) (Except.ok.inj he)).2
    omega
  · rw [pipeAddress_lvl (hg hc) (by omega) hL ham] at he
    have hp0 : p ≠ 0 := by omega
    have := sfxFn_ne_pfx (sfxOk hc) hp
    simp [listenFn, physFn, hp0] at he
    exact this he.1

/-- the hypothesis is satisfiable and needed: with a repeated suffix byte two pipes collide -/
example : CfgOk { pfx := 0x11, sfx := [1, 2, 3, 4, 5, 6], allowMulticast := false } ∧
    ¬ CfgOk { sfx := [0xC3, 0x3C, 0x33, 0xCE, 0x3E, 0x3C] } ∧
    pipeAddress { sfx := [0xC3, 0x3C, 0x33, 0xCE, 0x3E, 0x3C] } (val [5]) 1
      = pipeAddress { sfx := [0xC3, 0x3C, 0x33, 0xCE, 0x3E, 0x3C] } (val [1]) 5 := by
  refine ⟨by decide, by decide, ?_⟩
  have g : SfxFn [0xC3, 0x3C, 0x33, 0xCE, 0x3E, 0x3C] (sfxFn [0xC3, 0x3C, 0x33, 0xCE, 0x3E, 0x3C]) :=
    sfxFn_spec rfl
  rw [pipeAddress_node (cfg := { sfx := [0xC3, 0x3C, 0x33, 0xCE, 0x3E, 0x3C] }) g (by decide)
      (by decide) (Or.inr (Or.inl (by decide))),
    pipeAddress_node (cfg := { sfx := [0xC3, 0x3C, 0x33, 0xCE, 0x3E, 0x3C] }) g (by decide)
      (by decide) (Or.inr (Or.inl (by decide)))]
  exact congrArg Except.ok (by decide)

/-! ## the hardware's shared bytes -/

/-- Pipes 1..5 of a node agree on bytes 1..4 and differ (pairwise) in byte 0: the radio keeps only
    byte 0 of pipes 2..5 and takes the rest from pipe 1, so what it matches on (`hwListen`) is
    exactly the six addresses `_begin` asked for. -/
theorem C04_hw (cfg : AddrCfg) (hc : CfgOk cfg) (ds : List Nat) (hn : IsNode ds) :
    ∃ l, beginPipes cfg (val ds) = .ok l ∧ hwListen l = l ∧ l.length = 6 ∧
      (∀ p, p ≤ 5 → (pipeAddress cfg (val ds) p).toOption = l[p]?) ∧
      (∀ p q a b, 1 ≤ p → p ≤ 5 → 1 ≤ q → q ≤ 5 → l[p]? = some a → l[q]? = some b →
        a.drop 1 = b.drop 1 ∧ (a.take 1 = b.take 1 → p = q)) := by
  refine ⟨_, beginPipes_eq (hg hc) hn, ?_, by simp, ?_, ?_⟩
  · have t : ∀ p, 2 ≤ p →
        (listenFn cfg.pfx (sfxFn cfg.sfx) cfg.allowMulticast ds p).take 1 ++
          (listenFn cfg.pfx (sfxFn cfg.sfx) cfg.allowMulticast ds 1).drop 1
        = listenFn cfg.pfx (sfxFn cfg.sfx) cfg.allowMulticast ds p := by
      intro p hp
      rw [← listenFn_tail (p := p) (q := 1) (by omega) (by omega), List.take_append_drop]
    simp only [hwListen, List.map_cons, List.map_nil]
    rw [t 2 (by omega), t 3 (by omega), t 4 (by omega), t 5 (by omega)]
  · intro p hp
    rw [pipeAddress_listen (hg hc) hn hp]
    have h : p = 0 ∨ p = 1 ∨ p = 2 ∨ p = 3 ∨ p = 4 ∨ p = 5 := by omega
    rcases h with rfl | rfl | rfl | rfl | rfl | rfl <;> rfl
  · intro p q a b hp1 hp hq1 hq hpa hqb
    have e : ∀ r, r ≤ 5 → ([0, 1, 2, 3, 4, 5].map
        (listenFn cfg.pfx (sfxFn cfg.sfx) cfg.allowMulticast ds))[r]? =
        some (listenFn cfg.pfx (sfxFn cfg.sfx) cfg.allowMulticast ds r) := by
      intro r hr
      have h : r = 0 ∨ r = 1 ∨ r = 2 ∨ r = 3 ∨ r = 4 ∨ r = 5 := by omega
      rcases h with rfl | rfl | rfl | rfl | rfl | rfl <;> rfl
    rw [e p hp] at hpa
    rw [e q hq] at hqb
    rw [← Option.some.inj hpa, ← Option.some.inj hqb]
    refine ⟨listenFn_tail hp1 hq1, ?_⟩
    rw [listenFn_take hp1, listenFn_take hq1]
    intro h
    exact sfxFn_inj (sfxOk hc) hp hq (List.cons.inj h).1

example : CfgOk {} ∧ IsNode [3, 2, 1] ∧
    beginPipes {} (val [3, 2, 1]) = .ok [[0xCC, 0xCE, 0xCC, 0xCC, 0xCC], [0x3C, 0xCE, 0x33, 0x3C, 0xCC],
      [0x33, 0xCE, 0x33, 0x3C, 0xCC], [0xCE, 0xCE, 0x33, 0x3C, 0xCC], [0x3E, 0xCE, 0x33, 0x3C, 0xCC],
      [0xE3, 0xCE, 0x33, 0x3C, 0xCC]] :=
  ⟨by decide, by decide, (beginPipes_eq (hg (cfg := {}) (by decide)) (by decide)).trans (congrArg Except.ok (by decide))⟩

/-! ## the next hop listens, and nobody else does -/

private theorem hopPipe_range {s d : List Nat} (hs : IsNode s) : 1 ≤ hopPipe s d ∧ hopPipe s d ≤ 5 := by
  unfold hopPipe
  split
  · omega
  · rename_i hp
    have hne : s ≠ [] := by intro h0; subst h0; exact hp List.nil_prefix
    rw [List.getLast?_eq_some_getLast hne]
    exact hs.1 _ (List.getLast_mem hne)

/-- For every unicast hop (`s ≠ d`, originated or forwarded): the receiver's pipe the sender picks is
    one of 1..5; the 5-byte address the sender's `_write_to_pipe` opens for transmission is — both
    nodes using the same admissible prefix/suffix and multicast setting — exactly what the intended
    next hop's radio matches on that pipe after its own `_begin` (`hwListen` of the six addresses
    it opened), and no (node, pipe) of the whole address space other than (next hop, that pipe)
    has this address. -/
theorem C04_listens (cfg : AddrCfg) (hc : CfgOk cfg) (s d : List Nat) (hs : IsNode s)
    (hd : IsNode d) (hsd : s ≠ d) (st : Nat) (hst : st = TX_NORMAL ∨ st = TX_ROUTED) :
    1 ≤ hopPipe s d ∧ hopPipe s d ≤ 5 ∧
    ∃ a l, (beginAddr (val s)).bind (fun n => txAddress cfg n (val d) st) = some (.ok a) ∧
      hwListen <$> beginPipes cfg (val (nextHopSpec s d)) = .ok l ∧
      l[hopPipe s d]? = some a ∧
      ∀ x q, IsNode x → q ≤ 5 → pipeAddress cfg (val x) q = .ok a →
        x = nextHopSpec s d ∧ q = hopPipe s d := by
  obtain ⟨hp1, hp5⟩ := hopPipe_range (d := d) hs
  have hh := isNode_nextHop hs hd
  refine ⟨hp1, hp5, ?_⟩
  obtain ⟨l, hl, hw, _, hget, _⟩ := C04_hw cfg hc (nextHopSpec s d) hh
  have hnh := C04_next_hop s d hs hd st hst
  rw [C04_begin s hs, Option.map_some] at hnh
  have hnh := Option.some.inj hnh
  have hpa := pipeAddress_listen (hg hc) hh hp5
  refine ⟨listenFn cfg.pfx (sfxFn cfg.sfx) cfg.allowMulticast (nextHopSpec s d) (hopPipe s d),
    l, ?_, ?_, ?_, ?_⟩
  · have hv : val (nextHopSpec s d) ≠ val s :=
      fun h => nextHop_ne_self hsd (val_inj hh.1 hs.1 h)
    rw [C04_begin s hs, Option.bind_some, txAddress, hnh]
    have hv' : ¬ (val (nextHopSpec s d) = val s ∧ (!false) = true) := fun h => hv h.1
    simp only [nodeSpec, if_neg hv', hpa]
  · rw [hl]; exact congrArg Except.ok hw
  · rw [← hget _ hp5, hpa]; rfl
  · intro x q hx hq he
    have := C04_unique cfg hc (nextHopSpec s d) x hh hx (hopPipe s d) q hp1 hp5 hq (hpa.trans he.symm)
    exact ⟨this.1.symm, this.2.symm⟩

example : CfgOk {} ∧ IsNode [3, 2, 1] ∧ IsNode [3] ∧ nextHopSpec [3, 2, 1] [3] = [3, 2] ∧
    hopPipe [3, 2, 1] [3] = 1 ∧ hopPipe [3] [3, 2, 1] = 5 := by decide

/-! ## level addresses and multicast -/

/-- With multicast allowed, pipe 0 of a node is the address of its level (`levelAddrSpec`, which is
    also `_pipe_address(_lvl_2_addr(level), 0)`), and two nodes have the same pipe-0 address
    exactly when they are on the same level (0..4). -/
theorem C04_level (cfg : AddrCfg) (hc : CfgOk cfg) (ham : cfg.allowMulticast = true)
    (a b : List Nat) (ha : IsNode a) (hb : IsNode b) :
    (∃ x, levelAddrSpec cfg.pfx cfg.sfx a.length = some x ∧ pipeAddress cfg (val a) 0 = .ok x ∧
      pipeAddress cfg (lvl2addr a.length) 0 = .ok x) ∧
    (pipeAddress cfg (val a) 0 = pipeAddress cfg (val b) 0 ↔ a.length = b.length) := by
  constructor
  · obtain ⟨x, h1, h2⟩ := pipeAddress_level (hg hc) ham (L := a.length) (by have := ha.2; omega)
    exact ⟨x, h1, by rw [pipeAddress_zero_eq_level (hg hc) ham ha, h2], h2⟩
  · rw [pipeAddress_listen (hg hc) ha (Nat.zero_le 5), pipeAddress_listen (hg hc) hb (Nat.zero_le 5),
      ham, ← listenFn0_eq_iff (sfxOk hc) ha hb]
    exact ⟨Except.ok.inj, congrArg _⟩

example : levelAddrSpec 0xCC [0xC3, 0x3C, 0x33, 0xCE, 0x3E, 0xE3] 3 = some [0xCC, 0xCE, 0xCC, 0xCC, 0xCC] ∧
    levelAddrSpec 0xCC [0xC3, 0x3C, 0x33, 0xCE, 0x3E, 0xE3] 0 = some [0xC3, 0xCC, 0xCC, 0xCC, 0xCC] := by
  decide

/-- `multicast_level = lvl` on a network that allows multicast clamps to 0..4 (the identity on
    0..4) and re-opens pipe 0 with the address of that level — whatever the node's own address
    `addr` is -/
theorem C04_level_setter (cfg : AddrCfg) (hc : CfgOk cfg) (ham : cfg.allowMulticast = true)
    (addr : Nat) (lvl : Int) :
    setMulticastLevel lvl ≤ 4 ∧ (0 ≤ lvl → lvl ≤ 4 → (setMulticastLevel lvl : Int) = lvl) ∧
    ∃ x, levelAddrSpec cfg.pfx cfg.sfx (setMulticastLevel lvl) = some x ∧
      multicastLevelAddr cfg addr lvl = .ok x := by
  have h4 : setMulticastLevel lvl ≤ 4 := by unfold setMulticastLevel MULTICAST_LEVEL_MAX; omega
  refine ⟨h4, ?_, ?_⟩
  · intro h0 h1
    unfold setMulticastLevel MULTICAST_LEVEL_MAX
    omega
  · rw [multicastLevelAddr, if_pos ham]
    exact pipeAddress_level (hg hc) ham (by omega)

example : CfgOk {} ∧ ({} : AddrCfg).allowMulticast = true ∧
    multicastLevelAddr {} 0o11 2 = .ok [0xCC, 0x33, 0xCC, 0xCC, 0xCC] := by
  refine ⟨by decide, rfl, ?_⟩
  obtain ⟨_, _, x, h1, h2⟩ := C04_level_setter {} (by decide) rfl 0o11 2
  have e : levelAddrSpec 0xCC [0xC3, 0x3C, 0x33, 0xCE, 0x3E, 0xE3] (setMulticastLevel 2)
      = some [0xCC, 0x33, 0xCC, 0xCC, 0xCC] := by decide
  cases e.symm.trans h1
  exact h2

/-- `multicast_level = lvl` on a network that does NOT allow multicast: the level attribute is
    assigned all the same, and pipe 0 is re-opened on the node's own pipe-0 address — the address
    the spec demands of pipe 0 (`physAddrSpec`, = `listenSpec` without multicast), which is what
    `_begin` had opened there (`_pipe_address(self._addr, 0)`), whatever `lvl` is.  (Since the fix
    "multicast_level setter moved pipe 0 off the node's own address when allow_multicast is
    False", 6a18625; before it the setter programmed the own pipe-0 address of the first node of
    level `lvl`: known finding `C07-mclvl-no-multicast`.) -/
theorem C04_level_setter_own (cfg : AddrCfg) (hc : CfgOk cfg) (ham : cfg.allowMulticast = false)
    (ds : List Nat) (hn : IsNode ds) (lvl : Int) :
    setMulticastLevel lvl ≤ 4 ∧ (0 ≤ lvl → lvl ≤ 4 → (setMulticastLevel lvl : Int) = lvl) ∧
    ∃ x, physAddrSpec cfg.pfx cfg.sfx ds 0 = some x ∧
      listenSpec cfg.pfx cfg.sfx cfg.allowMulticast ds 0 = some x ∧
      multicastLevelAddr cfg (val ds) lvl = .ok x ∧
      pipeAddress cfg (val ds) 0 = .ok x := by
  have h4 : setMulticastLevel lvl ≤ 4 := by unfold setMulticastLevel MULTICAST_LEVEL_MAX; omega
  refine ⟨h4, ?_, ?_⟩
  · intro h0 h1
    unfold setMulticastLevel MULTICAST_LEVEL_MAX
    omega
  · obtain ⟨a, h1, h2, _, h3⟩ := C04_phys cfg hc ds hn 0 (Nat.zero_le 5)
    refine ⟨a, h3 (Or.inr ham), h1, ?_, h2⟩
    rw [multicastLevelAddr, if_neg (by rw [ham]; exact Bool.false_ne_true)]
    exact h2

/-- the finding's witness: node 0o11 without multicast, `multicast_level = 2` keeps pipe 0 on the
    node's own address c33c3ccccc (the unrepaired setter programmed c3c33ccccc, the own pipe-0
    address of the first "node" of level 2, `_lvl_2_addr(2)` = 0o10) -/
example : CfgOk { allowMulticast := false } ∧ IsNode [1, 1] ∧ val [1, 1] = 0o11 ∧
    multicastLevelAddr { allowMulticast := false } 0o11 2 = .ok [0xC3, 0x3C, 0x3C, 0xCC, 0xCC] := by
  refine ⟨by decide, by decide, by decide, ?_⟩
  obtain ⟨_, _, x, h1, _, h2, _⟩ :=
    C04_level_setter_own { allowMulticast := false } (by decide) rfl [1, 1] (by decide) 2
  have e : physAddrSpec 0xCC [0xC3, 0x3C, 0x33, 0xCE, 0x3E, 0xE3] [1, 1] 0
      = some [0xC3, 0x3C, 0x3C, 0xCC, 0xCC] := by decide
  cases e.symm.trans h1
  exact h2

/-- Which address the setter programs, in one statement: for every tree node and every argument
    the call produces a five-byte address, and that address is the address of the (clamped) level
    if the network allows multicast, the node's own pipe-0 address otherwise.  Either way no
    pipe 1..5 of any node listens on it (`C04_unique`, `C04_unique_level`), and without multicast
    no other node's pipe 0 does either (`C04_unique_nomc`). -/
theorem C04_level_setter_addr (cfg : AddrCfg) (hc : CfgOk cfg) (ds : List Nat) (hn : IsNode ds)
    (lvl : Int) :
    ∃ x, multicastLevelAddr cfg (val ds) lvl = .ok x ∧ x.length = 5 ∧
      (if cfg.allowMulticast then levelAddrSpec cfg.pfx cfg.sfx (setMulticastLevel lvl)
        else physAddrSpec cfg.pfx cfg.sfx ds 0) = some x := by
  cases ham : cfg.allowMulticast
  · obtain ⟨_, _, x, h1, _, h2, h3⟩ := C04_level_setter_own cfg hc ham ds hn lvl
    obtain ⟨a, _, h5, h6, _⟩ := C04_phys cfg hc ds hn 0 (Nat.zero_le 5)
    cases h3.symm.trans h5
    exact ⟨x, h2, h6, by simpa using h1⟩
  · obtain ⟨h4, _, x, h1, h2⟩ := C04_level_setter cfg hc ham (val ds) lvl
    refine ⟨x, h2, ?_, by simpa using h1⟩
    rw [multicastLevelAddr, if_pos ham] at h2
    by_cases h0 : setMulticastLevel lvl = 0
    · rw [h0, pipeAddress_lvl0 (hg hc)] at h2
      cases h2; simp [physFn]
    · rw [pipeAddress_lvl (hg hc) (by omega) (by omega) ham] at h2
      cases h2; rfl

example : CfgOk {} ∧ CfgOk { allowMulticast := false } ∧ IsNode [3, 2, 1] := by decide

/-- `multicast()` from node `s` with `level=None` addresses the sender's own level, with an explicit
    level `0 ≤ l ≤ 4` that level: the logical target is `_lvl_2_addr(L)` and the transmission goes
    to exactly the address of level `L` — from every node, the master and node `0o1` included
    (since the fixes "multicast(level=4) was sent to network level 3" and "a multicast to the
    sender's own level address was queued locally instead of sent"). -/
theorem C04_multicast (cfg : AddrCfg) (hc : CfgOk cfg) (ham : cfg.allowMulticast = true)
    (s : List Nat) (hs : IsNode s) (level : Option Int) (L : Nat)
    (hL : (level = none ∧ L = s.length) ∨
          (∃ l : Int, level = some l ∧ 0 ≤ l ∧ l ≤ MULTICAST_ARG_MAX ∧ (L : Int) = l)) :
    ∃ x, levelAddrSpec cfg.pfx cfg.sfx L = some x ∧
      (beginAddr (val s)).map (fun n => multicastTx cfg n level) =
        some (lvl2addr L, some (.ok x)) := by
  have hm : multicastLevel s.length level = L := by
    rcases hL with ⟨rfl, rfl⟩ | ⟨l, rfl, h0, h1, h2⟩
    · rfl
    · simp only [multicastLevel]; omega
  have hL5 : L ≤ 5 := by
    rcases hL with ⟨_, rfl⟩ | ⟨l, _, _, h1, h2⟩
    · have := hs.2; omega
    · unfold MULTICAST_ARG_MAX at h1; omega
  obtain ⟨x, h1, h2⟩ := pipeAddress_level (hg hc) ham hL5
  refine ⟨x, h1, ?_⟩
  rw [C04_begin s hs, Option.map_some, multicastTx, txAddress,
    C04_next_hop_direct _ _ _ (by decide)]
  simp [nodeSpec, hm, h2]

/-- the explicit levels of `multicast()` are all five network levels -/
example : MULTICAST_ARG_MAX = 4 := rfl

example : CfgOk {} ∧ IsNode [3, 2, 1] ∧ (0 : Int) ≤ 2 ∧ (2 : Int) ≤ MULTICAST_ARG_MAX ∧
    levelAddrSpec 0xCC [0xC3, 0x3C, 0x33, 0xCE, 0x3E, 0xE3] 2 = some [0xCC, 0x33, 0xCC, 0xCC, 0xCC] := by
  decide

end Nrf.Props.C04
