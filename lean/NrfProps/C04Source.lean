/-
C04 — the part of the property's theorems that speaks about the CURRENT SOURCE through the translator
(`tools/py2lean.py` → `lean/NrfGen`, DESIGN §0.7).  Kept in its own file so that only this property's check
depends on the generated files: the theorem files of other properties import `NrfProps.C04` (the model-level
theorems), never this one.  Audited together with `NrfProps/C04.lean` by `./check C04`.
-/
import NrfProps.C04
import NrfProofs.GenTieMixins
import NrfProofs.GenTiePipe

namespace Nrf.Props.C04
open Nrf.Net Nrf.Spec Nrf.Proofs

/-- **the address arithmetic of `network/mixins.py`, about the translation of the CURRENT source**
    (`NrfGen/Mixins.lean`, which `tools/py2lean.py` rewrites from `network/mixins.py` on every run; the
    methods' reads of `self.<attr>` are parameters): the translations of `_lvl_2_addr`,
    `NetworkMixin._logi_2_phys` (default `is_multicast=False`) and `NetworkMixin._pipe_address` return, for
    all arguments and all attribute values, what the model functions `lvl2addr`, `logi2phys`,
    `pipeAddress` of every C04 theorem return — including the `IndexError` of a too short
    `address_suffix`; the `while dec:` loop ends within the fuel derived from its measure and the
    subtractions `level - 1`, `count - 1` never go below zero.  Only hypothesis: `address_suffix` is a
    `bytes` (items `< 256`), instantiated below on the default configuration; `address_prefix` is one byte
    (the model's representation).  Trusted: the translator and the semantics it assigns to its Python
    subset; negative `int` arguments are not represented. -/
theorem C04_helpers_source :
    (∀ level, Gen._lvl_2_addr level = .ok (lvl2addr level))
    ∧ (∀ (n : NodeAddr) (toNode sendType : Nat),
        Gen._logi_2_phys n.addr n.mask n.maskInv n.parent n.parentPipe toNode sendType false
          = logi2phys n toNode sendType)
    ∧ (∀ (cfg : AddrCfg), Nrf.Bytes.wf cfg.sfx → ∀ node pipe : Nat,
        GenTie.toPyM (Gen._pipe_address cfg.allowMulticast [cfg.pfx] cfg.sfx node pipe)
          = pipeAddress cfg node pipe) :=
  ⟨GenTie.GenTie_lvl_2_addr, GenTie.GenTie_logi_2_phys, GenTie.GenTie_pipe_address⟩

/-- the hypothesis holds of the default configuration, and the translated source computes the pipe-3
    address of node `0o12` -/
example : Nrf.Bytes.wf ({} : AddrCfg).sfx
    ∧ Gen._pipe_address true [0xCC] [0xC3, 0x3C, 0x33, 0xCE, 0x3E, 0xE3] 0o12 3
        = .ok [0xCE, 0x33, 0x3C, 0xCC, 0xCC] := ⟨by decide, rfl⟩

end Nrf.Props.C04
