/-
C14 — "A multicast reaches exactly the chosen network level, unacknowledged."

multicast() to level L (0..4, by default the sender's own level) is received once by every other
listening node of level L that allows multicast and by no node of any other level, from whichever
node it is sent; it is transmitted without requesting radio acknowledgements and no receiver
acknowledges it.  A receiving node on levels 1..3 with multicast_relay enabled re-broadcasts the
frame once to the next level and still queues it for its own application.  Nodes configured with
allow_multicast off do not listen on the shared level address.

Model: `NrfModel/Net/Api.lean` (`apiMulticast`), `NrfModel/Net/Node.lean` (`nodeWrite`,
`nodeWriteToPipe`, `handleOther`, `enqueueFrameBuf`), `NrfModel/Air.lean` (`Radio.listensTo`,
`Radio.receive`, `World.deliver`, `World.cycle`), `NrfModel/Rf24.lean`.
Spec: `NrfModel/Spec/Multicast.lean` (`targetLevel`, `Listening`, `McPacket`, `Compatible`),
`NrfModel/Spec/Tree.lean` (`levelAddrSpec`, `listenSpec`).

How the clauses of the property are covered
* sender side (`C14_address`, `C14_too_long`, `C14_no_loopback`, `C14_unacknowledged`): for **every**
  node state with an existing radio — any own address, the master and 0o1 included —, every
  admissible prefix/suffix, every level argument (any `int` or `None`), every message;
* medium (`C14_receivers`, `C14_nobody_acks`): for **every** world whose other radios are the radios
  of listening network nodes (the per-node listening predicate `Spec.Multicast.Listening`, which C07
  proves invariant) or are not receiving at all; every packet on the level address;
* receiver side (`C14_queued_once`: RX FIFO → `RF24.read()` → `_net_update()` → queue, open system;
  `C14_handle`, `C14_handle_poll`, `C14_handle_off`, `C14_relay_address`): for every
  state of a receiving node and — for the queue clause — every behaviour of the other nodes in the
  closed system (frame theorem, `NrfProofs/NetFrameAllK.lean`);
* `C14_off`: pure, all 781 nodes, all admissible configurations.

* closed system, composed (`C14_level_closed`; the earlier `C14_level_closed_partial` is kept): a whole tree
  network (`NetOk`), one level, relays off, a single-frame user message: `multicast()` returns True, exactly
  the other nodes of the level hold the packet, nobody acknowledges, **the call appended exactly one record to
  the air log** (the caller's radio, one attempt, no acknowledgement awaited), and at the next scheduling
  point — the `update()` of ANY node, a receiver included — each receiver queues the frame once and **nothing
  more goes on the air**; the sender's EN_AA / TX_ADDR are as programmed when the packet leaves the radio
  (the scheduling point of `send()` lies before the transmission and the network is quiet);
* `C14_receivers_listening`, `C14_nobody_acks_listening`: the medium clauses on C07's predicate
  `Nrf.Spec.Listening` (bridge: NrfProofs/C14Bridge.lean); with C07's history theorem discharged:
  `C14_receivers_after_api` (proof: NrfProofs/C14AfterApi.lean; the C07 proof stack and the closed-system
  stack used here share `Nrf.Net.nexec` & co. through NrfProofs/NetExecCore.lean, so both can be imported).

* closed system, one relay level composed (`C14_relay_closed`): the addressed level (1..3) holds one other
  node, whose `multicast_relay` is on: at its `update()` it queues the frame, re-multicasts it ONCE to the next
  level (second air record: its radio, the next level's address, one attempt, unacknowledged), and exactly the
  other nodes of the next level — the original sender included when it sits there — queue it once.

What is *not* claimed (DESIGN §4.2/§7): collisions of simultaneous relays on real air; in the closed
system: a relay transmitting while OTHER receivers of the same multicast still hold the packet (several nodes
on the addressed level: `multicast_relay_step`, NrfProofs/C14Closed9.lean, needs all other RX FIFOs empty),
chains of relays over several levels, fragmented multicasts (> 24 bytes) in the closed system, mixed
`allow_multicast` settings in one network (`NetOk` has one configuration for all nodes; per radio this is
`C14_receivers` / `C14_off`).
-/
import NrfProofs.McastFrameK
import NrfProofs.McastOpenK
import NrfProofs.McastReadK
import NrfProofs.LeaseJudge
import NrfProps.C04
import NrfProofs.C14Bridge
import NrfProofs.C14Closed4
import NrfProofs.C13HopsExample
import NrfProofs.C14AfterApi
import NrfProofs.C14Closed8
import NrfProofs.C14Closed10

namespace Nrf.Props.C14
open Nrf Nrf.NetK Nrf.Spec Nrf.Spec.Multicast Nrf.Proofs Nrf.Proofs.McastK
-- `Nrf.Net.nexec` (NrfProofs/NetExecJ.lean, the closed-system stack) and `Nrf.NetK.nexec` are the same function;
-- unqualified `nexec` is K's, the closed-system theorems below write `Nrf.Net.nexec`
open Nrf.Net hiding nexec
open Nrf.Props.C04 (CfgOk)

/-! ## the sender -/

/-- what `multicast()` needs of the state it is called in: the call runs as an existing node whose
    radio exists, the driver's shadow of TX_ADDR has its 5 bytes (true from `RF24.__init__` on),
    admissible prefix / suffix bytes, `allow_multicast` on, a level attribute within 0..4 (what
    `_begin` and the `multicast_level` setter produce) -/
structure SenderOk (s : NetState) : Prop where
  cur : HasCur s
  radio : (drvOf s).Wf
  shadow : ShadowOk (curNode s).rf
  cfg : CfgOk (curNode s).cfg
  allow : (curNode s).cfg.allowMulticast = true
  level : (curNode s).a.netLvl ≤ 4

/-- **C14, sender.**  `multicast(msg, type, level)` on any such node, for every `level ∈ ℤ ∪ {None}`
    and every message within `max_message_length`: with `L` = the level clamped to 0..4 / the
    node's own level, the call *is* "transmit `frame_buf`, then listen again" from a state `st` in
    which `frame_buf` holds `to_node = 0o100`, `from_node` = the own address, the type's low byte
    and the message (cut to 24 bytes when fragmentation is off); the node's queue is untouched (no
    loop-back, whatever the own address); the radio has EN_AA = 0x3E — acknowledgements off on pipe
    0 —, TX_ADDR = the address of level `L` of the spec, CE low, PRIM_RX = 0, PWR_UP = 1; no
    configuration register of another radio changed. -/
theorem C14_address (s : NetState) (h : SenderOk s) (msg : Bytes) (ty : Int) (level : Option Int)
    (hlen : msg.length ≤ (curNode s).maxMessageLength) :
    ∃ x st, levelAddrSpec (curNode s).cfg.pfx (curNode s).cfg.sfx
        (targetLevel (curNode s).a.netLvl level) = some x ∧
      nexec (apiMulticast msg ty level) s =
        nexec (do let r ← transmitFrameBuf (F - 2)
                  liftRf (Rf24.setListen true)
                  pure r) st ∧
      (curNode st).frameBuf.header.toNode = MULTICAST_TO ∧
      (curNode st).frameBuf.header.fromNode = (curNode s).a.addr ∧
      (curNode st).frameBuf.header.msgType = .int (maskInt ty 0xFF) ∧
      (curNode st).frameBuf.message = mcMessage (curNode s) msg ∧
      (curNode st).queue = (curNode s).queue ∧
      (drvOf st).Wf ∧ (drvOf st).d.rid = (drvOf s).d.rid ∧
      (drvOf st).cfg.enAA = 0x3E ∧ (drvOf st).cfg.txAddr.take 5 = x ∧
      (drvOf st).cfg.ce = false ∧ (drvOf st).cfg.config &&& 3 = 2 ∧
      (∀ j, j ≠ (drvOf s).d.rid → (drvOf st).cfgAt j = (drvOf s).cfgAt j) := by
  obtain ⟨x, st, h1, h2, h3, h4, h5, h6, h7, h8, h9, h10, h11, h12, h13, h14, -⟩ :=
    multicast_spec msg ty level s h.cur h.radio h.shadow h.cfg h.allow h.level hlen
  exact ⟨x, st, h1, h2, h3, h4, h5, h6, h7, h8, h9, h10, h11, h12, h13, h14⟩

/-- node 0o1 (level 1) of a one-radio world: a sender to which the theorem applies; level 4 is a
    legal explicit level and is not clamped to 3 (fix 5823040) -/
def exSender : NetState :=
  { nodes := [{ a := { addr := 0o1, netLvl := 1, mask := 7, maskInv := 0xFFF8, parent := 0, parentPipe := 1 } }],
    w := World.fresh 1 }

example : SenderOk exSender ∧ targetLevel 1 (some 4) = 4 ∧ targetLevel 1 (some 7) = 4 ∧
    targetLevel 1 (some (-3)) = 0 ∧ targetLevel 1 none = 1 ∧
    levelAddrSpec 0xCC [0xC3, 0x3C, 0x33, 0xCE, 0x3E, 0xE3] 1 = some [0xCC, 0x3C, 0xCC, 0xCC, 0xCC] :=
  ⟨⟨by show (0 : Nat) < 1; omega, by show (0 : Nat) < 1; omega, ⟨by decide⟩, by decide, by decide, by decide⟩,
   by decide, by decide, by decide, by decide, by decide⟩

/-- **C14, on the air (open system, end to end).**  The same call in the open system (no other
    node runs while the sender transmits), the radio using 5-byte addresses: every record that the
    transmission of `frame_buf` — whole or in fragments, with all retries, however it ends —
    appends to the air log is a packet of the sender's radio **to the address of the target level,
    made as one single attempt that awaits no acknowledgement** (`McRec`). -/
theorem C14_air_open (s : NetState) (h : SenderOk s) (msg : Bytes) (ty : Int) (level : Option Int)
    (hlen : msg.length ≤ (curNode s).maxMessageLength)
    (hopen : s.closed = false) (haw : (drvOf s).cfg.aw = 5) :
    ∃ x st, levelAddrSpec (curNode s).cfg.pfx (curNode s).cfg.sfx
        (targetLevel (curNode s).a.netLvl level) = some x ∧
      nexec (apiMulticast msg ty level) s =
        nexec (do let r ← transmitFrameBuf (F - 2)
                  liftRf (Rf24.setListen true)
                  pure r) st ∧
      ∃ news, (nexec (transmitFrameBuf (F - 2)) st).2.w.air = st.w.air ++ news ∧
        ∀ a ∈ news, a.sender = (curNode s).rf.rid ∧ a.attempts = 1 ∧ a.ok = true ∧ a.pkt.addr = x :=
  multicast_air_open msg ty level s h.cur h.radio h.shadow h.cfg h.allow h.level hlen hopen haw

example : ({ exSender with closed := false } : NetState).closed = false ∧
    (drvOf { exSender with closed := false }).cfg.aw = 5 ∧ SenderOk { exSender with closed := false } :=
  ⟨rfl, by decide, ⟨by show (0 : Nat) < 1; omega, by show (0 : Nat) < 1; omega, ⟨by decide⟩, by decide,
    by decide, by decide⟩⟩

/-- a message longer than `max_message_length`: `ValueError`, and nothing at all has happened -/
theorem C14_too_long (s : NetState) (msg : Bytes) (ty : Int) (level : Option Int)
    (hlen : msg.length > (curNode s).maxMessageLength) :
    nexec (apiMulticast msg ty level) s = (.error .valueError, s) := by
  rw [nexec_apiMulticast, if_pos hlen]

example : (List.replicate 145 0 : Bytes).length > (curNode exSender).maxMessageLength := by
  rw [List.length_replicate]; decide

/-- **C14, no loop-back** (fix f24077b), closed system included: whatever the target address —
    also the sender's own logical address, as for node 0o1 multicasting to level 1 and the master
    to level 0 —, whatever other nodes do while the sender transmits, however the call ends: a
    `_write(…, TX_MULTICAST)` leaves the sender's own queue as it was. -/
theorem C14_no_loopback (f tgt : Nat) (s : NetState) (g : Good s) :
    (curNode (nexec (nodeWrite f tgt TX_MULTICAST) s).2).queue = (curNode s).queue :=
  nodeWrite_multicast_queue f tgt s g

example : Good { exSender with active := [0] } ∧ lvl2addr 1 = (curNode exSender).a.addr :=
  ⟨⟨by decide, by decide⟩, by decide⟩

/-- **C14, unacknowledged transmission** (radio, for every world and fault pattern): the transmit
    cycle of a radio whose EN_AA bit 0 is clear — EN_AA = 0x3E as programmed above — awaits no
    acknowledgement: exactly one attempt on the air, to `TX_ADDR[0:aw]`, reported as sent (TX_DS
    latched, payload removed from the TX FIFO). -/
theorem C14_unacknowledged (w : World) (s : Nat) (e : TxEntry) (rest : List TxEntry)
    (hs : s < w.radios.length) (h : (w.radio s).enAA = 0x3E) :
    (w.radio s).awaitsAck e = false ∧
    (w.cycle s e rest).air =
      w.air ++ [{ sender := s, pkt := (w.radio s).packetFor e, attempts := 1, ok := true }] ∧
    ((w.radio s).packetFor e).addr = (w.radio s).txAddr.take (w.radio s).aw ∧
    ((w.cycle s e rest).radio s).txFifo = rest ∧
    ((w.cycle s e rest).radio s).flags &&& 0x20 = 0x20 := by
  have hb : Radio.bit (w.radio s).enAA 0 = false := by rw [h]; decide
  exact ⟨awaitsAck_false _ _ hb, cycle_noAck w s e rest hs hb⟩

example : ((World.fresh 2).setRadio 0 { enAA := 0x3E }).radios.length = 2 ∧
    (((World.fresh 2).setRadio 0 { enAA := 0x3E }).radio 0).enAA = 0x3E := by decide

/-! ## the medium -/

/-- **C14, who receives, and that nobody acknowledges** (one radio).  Let `r` be the radio of a
    listening network node sitting on tree node `ds` with `allow_multicast = am` (`Listening`), `x`
    the address of level `L ≤ 4` (also `L = 5`, which a level-4 relay would address), `k` a packet
    on `x` in Enhanced-ShockBurst format with dynamic length, on the radio's channel / rate / CRC.
    Then

    * `r` takes the packet — on pipe 0 — **iff** the node allows multicast and sits on level `L`
      (or: it does not allow multicast, is the master, and `L = 0`: the master's private pipe-0
      address *is* the level-0 address in this addressing scheme);
    * `r` never acknowledges it;
    * the payload is stored once, on pipe 0, iff moreover the RX FIFO has room and the packet is
      not a repetition of the last accepted one; otherwise the radio is unchanged. -/
theorem C14_receivers {pfx : Nat} {sfx : List Nat} (hc : CfgOk { pfx := pfx, sfx := sfx })
    {am : Bool} {ds : List Nat} (hn : IsNode ds) {r : Radio} (hl : Listening pfx sfx am ds r)
    {L : Nat} (hL : L ≤ 5) {x : Bytes} (hx : levelAddrSpec pfx sfx L = some x)
    {k : Packet} (hk : McPacket x k) (hcomp : Compatible r k) :
    (r.listensTo k = if HoldsLevel am ds L then some 0 else none) ∧
    (r.receive k).2 = none ∧
    (r.receive k).1.rxFifo =
      (if HoldsLevel am ds L ∧ r.rxFifo.length < 3 ∧
          r.lastRx ≠ some { pid := k.pid, addr := k.addr, data := k.data }
        then r.rxFifo ++ [{ pipe := 0, data := k.data }] else r.rxFifo) ∧
    (¬ (HoldsLevel am ds L ∧ r.rxFifo.length < 3 ∧
          r.lastRx ≠ some { pid := k.pid, addr := k.addr, data := k.data }) → (r.receive k).1 = r) := by
  have hc' : SfxOk pfx sfx := hc
  have hx' : x = levelFn pfx (sfxFn sfx) L := by
    rw [levelAddrSpec_fn (sfxFn_spec hc'.1) hL] at hx
    exact (Option.some.inj hx).symm
  subst hx'
  exact ⟨listensTo_level hl hc' hn hL hk hcomp, receive_level hl hc' hn hL hk hcomp⟩

/-- `HoldsLevel` in words -/
example (am : Bool) (ds : List Nat) (L : Nat) :
    HoldsLevel am ds L ↔ (am = true ∧ ds.length = L) ∨ (am = false ∧ ds = [] ∧ L = 0) := Iff.rfl

/-- … and it is the executable spec function the harness' judge evaluates through the driver
    (`spechold`) -/
theorem C14_holds_spec (am : Bool) (ds : List Nat) (L : Nat) :
    holdsLevel am ds L = true ↔ HoldsLevel am ds L := by
  unfold holdsLevel HoldsLevel
  cases am <;> simp [List.isEmpty_iff]

example : holdsLevel true [3, 2] 2 = true ∧ holdsLevel true [3, 2] 1 = false ∧
    holdsLevel false [] 0 = true ∧ holdsLevel false [3] 1 = false := by decide

/-- a radio as `_begin(0o23)` leaves it (default prefix / suffix, `allow_multicast`) satisfies
    `Listening`; so does one of a node that does not allow multicast -/
def exRadio : Radio :=
  { config := 0x0F, enAA := 0x3E, enRxAddr := 0x3F, ce := true, feature := 5, dynpd := 0x3F,
    rxAddr0 := [0xCC, 0x33, 0xCC, 0xCC, 0xCC], rxAddr1 := [0x3C, 0xCE, 0x33, 0xCC, 0xCC],
    rxAddrN := [0x33, 0xCE, 0x3E, 0xE3] }

example : Listening 0xCC [0xC3, 0x3C, 0x33, 0xCE, 0x3E, 0xE3] true [3, 2] exRadio ∧ IsNode [3, 2] ∧
    HoldsLevel true [3, 2] 2 ∧ ¬ HoldsLevel true [3, 2] 1 := by
  refine ⟨⟨by decide, ?_, by decide, ?_, by decide, ?_⟩, by decide, by decide, by decide⟩
  · intro p hp
    have : p = 0 ∨ p = 1 ∨ p = 2 ∨ p = 3 ∨ p = 4 ∨ p = 5 := by omega
    rcases this with rfl | rfl | rfl | rfl | rfl | rfl <;> decide
  · intro p hp
    have : p = 0 ∨ p = 1 ∨ p = 2 ∨ p = 3 ∨ p = 4 ∨ p = 5 := by omega
    rcases this with rfl | rfl | rfl | rfl | rfl | rfl <;> decide
  · intro p hp
    have : p = 0 ∨ p = 1 ∨ p = 2 ∨ p = 3 ∨ p = 4 ∨ p = 5 := by omega
    rcases this with rfl | rfl | rfl | rfl | rfl | rfl <;> decide

/-- every radio other than the sender's is the radio of some listening network node configured
    like the sender, or is not in RX mode (transmitting, powered down) -/
def Populated (pfx : Nat) (sfx : List Nat) (w : World) (s : Nat) (k : Packet) : Prop :=
  ∀ i, i < w.radios.length → i ≠ s →
    (w.radio i).rxMode = false ∨
    ∃ am ds, IsNode ds ∧ Listening pfx sfx am ds (w.radio i) ∧ Compatible (w.radio i) k

/-- **C14, nobody acknowledges** (the world).  A packet on a level address delivered into a
    populated world: no acknowledgement comes back, and every radio ends as its own reception says
    (`C14_receivers`), the sender's untouched. -/
theorem C14_nobody_acks {pfx : Nat} {sfx : List Nat} (hc : CfgOk { pfx := pfx, sfx := sfx })
    {L : Nat} (hL : L ≤ 5) {x : Bytes} (hx : levelAddrSpec pfx sfx L = some x)
    (w : World) (s : Nat) {k : Packet} (hk : McPacket x k) (hp : Populated pfx sfx w s k) :
    (w.deliver s k).2 = none ∧
    ∀ i, i < w.radios.length →
      (w.deliver s k).1.radio i = if i = s then w.radio i else ((w.radio i).receive k).1 := by
  refine ⟨deliver_ack_none w s k ?_, fun i hi => radio_deliver w s k i hi⟩
  intro i hi hne
  rcases hp i hi hne with h | ⟨am, ds, hn, hl, hcomp⟩
  · rw [receive_not_rx h]
  · exact (C14_receivers hc hn hl hL hx hk hcomp).2.1

example : Populated 0xCC [0xC3, 0x3C, 0x33, 0xCE, 0x3E, 0xE3] (World.fresh 3) 0
    { ch := 76, rate := 0, crc := 2, esb := true, dpl := true, addr := [0xCC, 0x33, 0xCC, 0xCC, 0xCC],
      pid := 0, noAck := false, data := [1] } := by
  intro i hi _
  left
  have : i = 0 ∨ i = 1 ∨ i = 2 := by
    have : (World.fresh 3).radios.length = 3 := rfl
    omega
  rcases this with rfl | rfl | rfl <;> decide

/-! ## the receiver -/

/-- **C14, a received multicast is queued once; relayed iff the relay is on; still queued.**
    `frame_buf` holds a frame with `to_node = 0o100` on a node with `allow_multicast` (and the
    frame is not a NETWORK_POLL that the node must answer).  Then `_handle_frame_for_other_node`

    * calls `queue.enqueue(frame_buf)` exactly once, before anything is sent;
    * iff `multicast_relay` is on, re-broadcasts the frame once (`_write(…, TX_MULTICAST)` after the
      two collision-avoidance sleeps) to `(_lvl_2_addr(level) << 3) & 0xFFFF` — the address of the
      next level, `C14_relay_address`;
    * returns `(True, type)`, or `(False, NETWORK_EXT_DATA)` for external data;

    and afterwards — however the call ends, whatever the other nodes of a closed system did
    meanwhile — the node's queue is the old queue with the frame enqueued once. -/
theorem C14_handle (f msgT : Nat) (s : NetState)
    (ham : (curNode s).cfg.allowMulticast = true)
    (hto : (curNode s).frameBuf.header.toNode = MULTICAST_TO)
    (hpoll : ¬ (msgT = NETWORK_POLL ∧ (curNode s).a.addr ≠ NETWORK_DEFAULT_ADDR)) :
    nexec (handleOther (f + 1) msgT) s =
      nexec (do
        let _ ← enqueueFrameBuf
        if (curNode s).relayEnabled then relayMulticast f (curNode s)
        let n' ← getNode
        pure (if n'.frameBuf.header.ty = NETWORK_EXT_DATA then (false, NETWORK_EXT_DATA) else (true, msgT))) s ∧
    (Good s →
      (curNode (nexec (handleOther (f + 1) msgT) s).2).queue =
        ((curNode s).queue.enqueue (curNode s).frameBuf).1 ∧
      (curNode (nexec (handleOther (f + 1) msgT) s).2).a = (curNode s).a) := by
  refine ⟨nexec_handleOther_multicast f msgT s ham hto hpoll, fun g => ?_⟩
  have := handleOther_multicast_queue f msgT s g ham hto hpoll
  exact ⟨this.1, this.2.1⟩

/-- **C14, from the radio to the application queue: received once, queued once** (open system,
    relay off).  The node is between calls (`RxNode`: it runs as an existing node, nothing is
    scripted, its radio is receiving with dynamic payloads); its radio holds exactly one received
    payload (what `C14_receivers` puts there for a packet on the node's level address): a frame for
    `0o100` from a valid address that is not a poll to be answered.  Then `_net_update()` reads it
    (`RF24.read()`: the whole payload, removed from the FIFO), runs `_handle_frame_for_other_node` on
    it, and returns: the frame is in the node's queue **once** (`NetQueue.enqueue`), the RX FIFO is
    empty, nothing was transmitted. -/
theorem C14_queued_once (f rv : Nat) (s : NetState) (h : RxNode s)
    (e : RxEntry) (hf : (s.w.radio (curNode s).rf.rid).rxFifo = [e]) (hp : e.pipe ≤ 5)
    (hl : 1 ≤ e.data.length)
    (hok : ((curNode s).frameBuf.unpack e.data).2 = true)
    (hto : ((curNode s).frameBuf.unpack e.data).1.header.toNode = MULTICAST_TO)
    (hfrom : isValid ((curNode s).frameBuf.unpack e.data).1.header.fromNode = true)
    (hself : (curNode s).a.addr ≠ MULTICAST_TO)
    (ham : (curNode s).cfg.allowMulticast = true) (hrel : (curNode s).relayEnabled = false)
    (hpoll : ¬ (((curNode s).frameBuf.unpack e.data).1.header.ty = NETWORK_POLL ∧
      (curNode s).a.addr ≠ NETWORK_DEFAULT_ADDR)) :
    (curNode (nexec (netUpdate (f + 4) rv) s).2).queue =
      ((curNode s).queue.enqueue ((curNode s).frameBuf.unpack e.data).1).1 ∧
    ((nexec (netUpdate (f + 4) rv) s).2.w.radio (curNode s).rf.rid).rxFifo = [] ∧
    (nexec (netUpdate (f + 4) rv) s).2.w.air = s.w.air ∧
    (∃ v, (nexec (netUpdate (f + 4) rv) s).1 = .ok v) :=
  netUpdate_multicast_once f rv s h e hf hp hl hok hto hfrom hself ham hrel hpoll

/-- a level-2 node (0o23) whose radio has just received a multicast frame from the master -/
def exRxNode : NetState :=
  { nodes := [{ a := { addr := 0o23, netLvl := 2, mask := 0o77, maskInv := 0xFFC0, parent := 0o3, parentPipe := 2 } }],
    active := [0], closed := false,
    w := (World.fresh 1).setRadio 0 { exRadio with
      rxFifo := [{ pipe := 0, data := [0, 0, 0x40, 0, 7, 0, 5, 0, 1, 2, 3] }] } }

example : RxNode exRxNode ∧
    (exRxNode.w.radio (curNode exRxNode).rf.rid).rxFifo = [{ pipe := 0, data := [0, 0, 0x40, 0, 7, 0, 5, 0, 1, 2, 3] }] ∧
    ((curNode exRxNode).frameBuf.unpack [0, 0, 0x40, 0, 7, 0, 5, 0, 1, 2, 3]).2 = true ∧
    ((curNode exRxNode).frameBuf.unpack [0, 0, 0x40, 0, 7, 0, 5, 0, 1, 2, 3]).1.header.toNode = MULTICAST_TO ∧
    isValid ((curNode exRxNode).frameBuf.unpack [0, 0, 0x40, 0, 7, 0, 5, 0, 1, 2, 3]).1.header.fromNode = true ∧
    ((curNode exRxNode).frameBuf.unpack [0, 0, 0x40, 0, 7, 0, 5, 0, 1, 2, 3]).1.message = [1, 2, 3] :=
  ⟨⟨⟨by decide, by decide⟩, rfl, rfl, ⟨by show (0 : Nat) < 1; omega, by decide, by decide⟩⟩, by decide, by decide,
   by decide, Nrf.Proofs.Lease.isValid_of_node (ds := []) (by decide), by decide⟩

/-- the re-broadcast, spelled out -/
example (f : Nat) (n : Node) : relayMulticast f n = (do
    if n.a.addr >>> 3 = 0 then sleepNs 2400000
    sleepNs ((n.a.addr % 4) * 600000)
    let _ ← nodeWrite f ((lvl2addr n.a.netLvl <<< 3) &&& 0xFFFF) TX_MULTICAST) := rfl

/-- a level-1 relay that has just received a multicast frame -/
def exReceiver : NetState :=
  { nodes := [{ a := { addr := 0o3, netLvl := 1, mask := 7, maskInv := 0xFFF8, parent := 0, parentPipe := 3 },
                relayEnabled := true,
                frameBuf := { header := { fromNode := 0, toNode := 0o100, frameId := 7, msgType := .int 5 },
                              message := [1, 2, 3] } }],
    active := [0], w := World.fresh 1 }

example : Good exReceiver ∧ (curNode exReceiver).cfg.allowMulticast = true ∧
    (curNode exReceiver).frameBuf.header.toNode = MULTICAST_TO ∧
    ¬ ((5 : Nat) = NETWORK_POLL ∧ (curNode exReceiver).a.addr ≠ NETWORK_DEFAULT_ADDR) ∧
    (((curNode exReceiver).queue.enqueue (curNode exReceiver).frameBuf).1.frames.map (·.message)) = [[1, 2, 3]] :=
  ⟨⟨by decide, by decide⟩, by decide, by decide, by decide, by decide⟩

/-- **C14, the relay addresses the next level.**  `(_lvl_2_addr(l) << 3) & 0xFFFF = _lvl_2_addr(l + 1)`
    for the levels 1..3 of the property (and for 4: the address of a level 5 on which no node can
    sit, so nobody receives it); for level 0 — a master with the relay on — it is 0 again: the
    master re-broadcasts to its own level, where nobody else is. -/
theorem C14_relay_address :
    (∀ l, 1 ≤ l → l ≤ 4 → (lvl2addr l <<< 3) &&& 0xFFFF = lvl2addr (relayLevel l)) ∧
    (∀ l ∈ relayLevels, 1 ≤ l ∧ l ≤ 4 ∧ relayLevel l ≤ 4) ∧
    (lvl2addr 0 <<< 3) &&& 0xFFFF = lvl2addr 0 :=
  ⟨relay_addr, by decide, relay_addr_zero⟩

example : lvl2addr 2 = 0o10 ∧ lvl2addr 3 = 0o100 ∧ (lvl2addr 2 <<< 3) &&& 0xFFFF = 0o100 := by decide

/-- **C14, a NETWORK_POLL multicast is answered, not queued** (node with an address): no enqueue;
    iff the node accepts children (`allow_children`) the poll is answered with a frame from the
    node's address sent directly (`TX_PHYSICAL`) to the poll's sender after `parent_pipe` ms; the
    queue is untouched, however the call ends (closed system included). -/
theorem C14_handle_poll (f : Nat) (s : NetState)
    (ham : (curNode s).cfg.allowMulticast = true)
    (hto : (curNode s).frameBuf.header.toNode = MULTICAST_TO)
    (haddr : (curNode s).a.addr ≠ NETWORK_DEFAULT_ADDR) :
    nexec (handleOther (f + 1) NETWORK_POLL) s =
      nexec (do
        if (curNode s).parenthood then answerPoll f (curNode s)
        pure (true, 0)) s ∧
    (Good s → (curNode (nexec (handleOther (f + 1) NETWORK_POLL) s).2).queue = (curNode s).queue) :=
  ⟨nexec_handleOther_poll f s ham hto haddr, fun g => handleOther_poll_queue f s g ham hto haddr⟩

example : (curNode exReceiver).a.addr ≠ NETWORK_DEFAULT_ADDR ∧ (curNode exReceiver).parenthood = true := by
  decide

/-- **C14, `allow_multicast` off.**  Such a node never treats a frame for another address as a
    multicast: `_handle_frame_for_other_node` does not enqueue; a node with an address forwards the
    frame like any routed frame (`_write(to_node, TX_ROUTED)`), a node without one ignores it.
    (For the master the routing rule sends a frame for 0o100 to "child 0", i.e. to itself, which
    loops it back into its own queue — the master's private pipe-0 address is the level-0 address,
    see `C14_off`.) -/
theorem C14_handle_off (f msgT : Nat) (s : NetState)
    (ham : (curNode s).cfg.allowMulticast = false) :
    nexec (handleOther (f + 1) msgT) s =
      if (curNode s).a.addr ≠ NETWORK_DEFAULT_ADDR then
        nexec (do let _ ← nodeWrite f (curNode s).frameBuf.header.toNode TX_ROUTED
                  pure (true, 0)) s
      else (.ok (true, msgT), s) :=
  nexec_handleOther_off f msgT s ham

example : ({ nodes := [{ cfg := { allowMulticast := false } }], w := World.fresh 1 } : NetState)
    |> fun s => (curNode s).cfg.allowMulticast = false := by decide

/-! ## `allow_multicast` off: the node does not listen on a level address -/

/-- **C14, private pipe 0.**  With `allow_multicast` off, pipe 0 of every tree node carries the
    node's private address (the spec's unicast address of pipe 0), and this is the address of a
    network level `L ∈ 0..5` — as nodes with `allow_multicast` on compute it — **only** for the master
    and level 0, whose addresses coincide by the addressing scheme. -/
theorem C14_off (cfg : AddrCfg) (hc : CfgOk cfg) (ham : cfg.allowMulticast = false)
    (ds : List Nat) (hn : IsNode ds) :
    ∃ a, physAddrSpec cfg.pfx cfg.sfx ds 0 = some a ∧ pipeAddress cfg (val ds) 0 = .ok a ∧
      ∀ L, L ≤ 5 →
        (pipeAddress cfg (val ds) 0 = pipeAddress { cfg with allowMulticast := true } (lvl2addr L) 0
          ↔ ds = [] ∧ L = 0) := by
  have hg := sfxFn_spec (sfx := cfg.sfx) hc.1
  have hc' : SfxOk cfg.pfx cfg.sfx := hc
  refine ⟨physFn cfg.pfx (sfxFn cfg.sfx) ds 0, physAddrSpec_eq hg hn.1 (Nat.zero_le 5),
    pipeAddress_node hg hn (Nat.zero_le 5) (Or.inl ham), ?_⟩
  intro L hL
  rw [pipeAddress_listen hg hn (Nat.zero_le 5),
    pipeAddress_levelFn (cfg := { cfg with allowMulticast := true }) hg rfl hL, ham]
  constructor
  · intro he
    have := (listenFn_eq_level_iff hc' false hn (Nat.zero_le 5) hL).mp (Except.ok.inj he)
    rcases this.2 with ⟨h, _⟩ | ⟨_, h1, h2⟩
    · cases h
    · exact ⟨h1, h2⟩
  · rintro ⟨rfl, rfl⟩
    exact congrArg Except.ok
      ((listenFn_eq_level_iff hc' false (by decide) (Nat.zero_le 5) hL).mpr ⟨rfl, Or.inr ⟨rfl, rfl, rfl⟩⟩)

example : CfgOk { allowMulticast := false } ∧ IsNode [3, 2] ∧
    physAddrSpec 0xCC [0xC3, 0x3C, 0x33, 0xCE, 0x3E, 0xE3] [3, 2] 0 = some [0xC3, 0xCE, 0x33, 0xCC, 0xCC] ∧
    levelAddrSpec 0xCC [0xC3, 0x3C, 0x33, 0xCE, 0x3E, 0xE3] 2 = some [0xCC, 0x33, 0xCC, 0xCC, 0xCC] ∧
    levelAddrSpec 0xCC [0xC3, 0x3C, 0x33, 0xCE, 0x3E, 0xE3] 0 =
      physAddrSpec 0xCC [0xC3, 0x3C, 0x33, 0xCE, 0x3E, 0xE3] [] 0 := by
  decide

/-! ## the medium, on C07's listening predicate

`C14_receivers` / `C14_nobody_acks` are stated on `Spec.Multicast.Listening` (the radio of tree node
`ds`).  What C07 proves invariant under every API call is `Nrf.Spec.Listening n r` (the radio of the
node object `n`).  `NrfProofs/C14Bridge.lean` (`listening_bridge`) derives the former from the
latter for a node on tree node `ds` whose multicast level is its own tree level; the two theorems
below are the medium clauses on C07's predicate. -/

/-- **C14, who receives, and that nobody acknowledges** (one radio, C07's predicate).  `r` is the
    radio of the listening node `n` (`Nrf.Spec.Listening n r`, what C07 proves of every node after
    every API call), `n` sits on tree node `ds` and its multicast level is its tree level (what
    `_begin` derives; the `multicast_level` setter has not moved it).  Prefix, suffix and
    `allow_multicast` are the node's own.  Conclusion: that of `C14_receivers`. -/
theorem C14_receivers_listening {n : Node} (hc : CfgOk n.cfg) {ds : List Nat} (hn : IsNode ds)
    {r : Radio} (hl : Nrf.Spec.Listening n r) (ha : n.a.addr = val ds)
    (hlv : n.a.netLvl = ds.length)
    {L : Nat} (hL : L ≤ 5) {x : Bytes} (hx : levelAddrSpec n.cfg.pfx n.cfg.sfx L = some x)
    {k : Packet} (hk : McPacket x k) (hcomp : Compatible r k) :
    (r.listensTo k = if HoldsLevel n.cfg.allowMulticast ds L then some 0 else none) ∧
    (r.receive k).2 = none ∧
    (r.receive k).1.rxFifo =
      (if HoldsLevel n.cfg.allowMulticast ds L ∧ r.rxFifo.length < 3 ∧
          r.lastRx ≠ some { pid := k.pid, addr := k.addr, data := k.data }
        then r.rxFifo ++ [{ pipe := 0, data := k.data }] else r.rxFifo) ∧
    (¬ (HoldsLevel n.cfg.allowMulticast ds L ∧ r.rxFifo.length < 3 ∧
          r.lastRx ≠ some { pid := k.pid, addr := k.addr, data := k.data }) → (r.receive k).1 = r) :=
  C14_receivers (pfx := n.cfg.pfx) (sfx := n.cfg.sfx) hc hn
    (Nrf.Proofs.C14Bridge.listening_bridge hl hn ha hlv) hL hx hk hcomp

/-- node 0o23 (level 2, default prefix / suffix, `allow_multicast`) as `_begin(0o23)` leaves its
    address attributes; `exRadio` is its radio -/
def exNode : Node :=
  { a := { addr := 0o23, netLvl := 2, mask := 0o77, maskInv := 0xFFC0, parent := 0o3, parentPipe := 2 } }

/-- `exRadio` is the radio of the listening node `exNode` in the sense of C07 -/
theorem C14_exNode_listening : Nrf.Spec.Listening exNode exRadio := by
  have hd : digitsOf exNode.a.addr = [3, 2] :=
    Nrf.Proofs.C14Bridge.digitsOf_val_ok (ds := [3, 2]) (by decide)
  refine ⟨by decide, by decide, by decide, by decide, by decide, ?_, by decide, by decide, by decide⟩
  intro p hp
  unfold wantAddr
  rw [hd]
  simp only [List.mem_cons, List.not_mem_nil, or_false] at hp
  rcases hp with rfl | rfl | rfl | rfl | rfl | rfl <;> decide

/-- non-vacuity: every hypothesis holds of the concrete node / radio / level-2 packet, and the node
    holds level 2 (so the packet is stored) but not level 1 -/
example : CfgOk exNode.cfg ∧ IsNode [3, 2] ∧ Nrf.Spec.Listening exNode exRadio ∧
    exNode.a.addr = val [3, 2] ∧ exNode.a.netLvl = [3, 2].length ∧
    levelAddrSpec exNode.cfg.pfx exNode.cfg.sfx 2 = some [0xCC, 0x33, 0xCC, 0xCC, 0xCC] ∧
    McPacket [0xCC, 0x33, 0xCC, 0xCC, 0xCC]
      { ch := 2, rate := 1, crc := 2, esb := true, dpl := true, addr := [0xCC, 0x33, 0xCC, 0xCC, 0xCC],
        pid := 0, noAck := false, data := [1] } ∧
    Compatible exRadio
      { ch := 2, rate := 1, crc := 2, esb := true, dpl := true, addr := [0xCC, 0x33, 0xCC, 0xCC, 0xCC],
        pid := 0, noAck := false, data := [1] } ∧
    HoldsLevel exNode.cfg.allowMulticast [3, 2] 2 ∧ ¬ HoldsLevel exNode.cfg.allowMulticast [3, 2] 1 :=
  ⟨by decide, by decide, C14_exNode_listening, by decide, by decide, by decide, ⟨rfl, rfl, rfl⟩,
   ⟨by decide, by decide, by decide⟩, by decide, by decide⟩

/-- every radio other than the sender's is not in RX mode (transmitting, powered down) or is the
    radio of some listening network node — **C07's** `Nrf.Spec.Listening` — with the given prefix /
    suffix, sitting on a tree node, its multicast level its own tree level, configured like the
    sender (channel / rate / CRC) -/
def PopulatedL (pfx : Nat) (sfx : List Nat) (w : World) (s : Nat) (k : Packet) : Prop :=
  ∀ i, i < w.radios.length → i ≠ s →
    (w.radio i).rxMode = false ∨
    ∃ (n : Node) (ds : List Nat), n.cfg.pfx = pfx ∧ n.cfg.sfx = sfx ∧ IsNode ds ∧
      n.a.addr = val ds ∧ n.a.netLvl = ds.length ∧
      Nrf.Spec.Listening n (w.radio i) ∧ Compatible (w.radio i) k

/-- C07's population is a population in the sense of `Populated` -/
theorem C14_populated_of_listening {pfx : Nat} {sfx : List Nat} {w : World} {s : Nat} {k : Packet}
    (hp : PopulatedL pfx sfx w s k) : Populated pfx sfx w s k := by
  intro i hi hne
  rcases hp i hi hne with h | ⟨n, ds, rfl, rfl, hn, ha, hlv, hl, hcomp⟩
  · exact Or.inl h
  · exact Or.inr ⟨n.cfg.allowMulticast, ds, hn,
      Nrf.Proofs.C14Bridge.listening_bridge hl hn ha hlv, hcomp⟩

/-- **C14, nobody acknowledges** (the world, C07's predicate).  A packet on a level address
    delivered into a world whose other radios are not receiving or are the radios of listening
    nodes in the sense of C07: no acknowledgement comes back, and every radio ends as its own
    reception says (`C14_receivers_listening`), the sender's untouched. -/
theorem C14_nobody_acks_listening {pfx : Nat} {sfx : List Nat} (hc : CfgOk { pfx := pfx, sfx := sfx })
    {L : Nat} (hL : L ≤ 5) {x : Bytes} (hx : levelAddrSpec pfx sfx L = some x)
    (w : World) (s : Nat) {k : Packet} (hk : McPacket x k) (hp : PopulatedL pfx sfx w s k) :
    (w.deliver s k).2 = none ∧
    ∀ i, i < w.radios.length →
      (w.deliver s k).1.radio i = if i = s then w.radio i else ((w.radio i).receive k).1 :=
  C14_nobody_acks hc hL hx w s hk (C14_populated_of_listening hp)

/-- non-vacuity: three radios — the sender's (0), the listening node `exNode`'s (1, in RX mode, so
    the second alternative is the one that applies), one powered down (2) -/
example : PopulatedL 0xCC [0xC3, 0x3C, 0x33, 0xCE, 0x3E, 0xE3] ((World.fresh 3).setRadio 1 exRadio) 0
      { ch := 2, rate := 1, crc := 2, esb := true, dpl := true, addr := [0xCC, 0x33, 0xCC, 0xCC, 0xCC],
        pid := 0, noAck := false, data := [1] } ∧
    (((World.fresh 3).setRadio 1 exRadio).radio 1).rxMode = true := by
  refine ⟨?_, by decide⟩
  intro i hi _
  have : i = 0 ∨ i = 1 ∨ i = 2 := by
    have : ((World.fresh 3).setRadio 1 exRadio).radios.length = 3 := rfl
    omega
  rcases this with rfl | rfl | rfl
  · left; decide
  · right
    exact ⟨exNode, [3, 2], rfl, rfl, by decide, by decide, by decide, C14_exNode_listening,
      ⟨by decide, by decide, by decide⟩⟩
  · left; decide

/-! ## the closed system: one level, no relays, composed

`C14_address` … `C14_queued_once` prove the clauses separately, the sender in the open system.  Here
they are composed in the **closed** system (`runOthers`, NrfModel/Net/Node.lean: at every
`read()` / `send()` of the running node every other idle node with received data runs `update()` to
completion) on a whole tree network: `NetOk cfg L tree s` (NrfProofs/C05Net.lean) — node object `i`
is tree node `tree i` on its own radio, every radio in the state `_begin` / every `_write` leaves it
(listening on its six addresses, pipe 0 on the address of its level, EN_AA = 0x3E), the other radios
deaf, loss-free air.  The driver contracts are the proved ones (`l3contracts`; for the multicast path
`l3_send_noack`, `l3_openTx_noack` of NrfProofs/C14Closed1.lean).

What the model does (session `net 4 1 new m network 0 0 ; new a network 1 1 ; new b network 2 2 ;
new c network 3 9 ; m multicast 010203 5 1 ; m update ; a read ; b read ; c read`): `multicast()`
returns `T` with the packet in the RX FIFOs of `a` and `b` (the scheduling point of `send()` lies
*before* the transmission); `a` and `b` run `update()` at the next scheduling point — nested, the
first receiver's first `read()` lets the second one run — here inside `m update`, which returns 0;
`a read`, `b read` give the frame, `c read` and `m read` give `N`. -/

/-- **C14, one level, closed system.**  Tree network, multicast allowed, all RX FIFOs empty, the relay
    off everywhere, at most 400 node objects; node object `s.cur` calls `multicast(msg, ty, level)`
    with a single-frame message (≤ 24 bytes) of a user type; `Lv` = `targetLevel` (the clamped
    argument, by default the sender's level); no radio's last accepted packet is this very frame
    (`hdup`; true e.g. when nothing was received before) and the queues of the nodes of level `Lv`
    accept it (`hacc`: room, no frame with the same origin, id and type).  Then

    * the call returns `True`; the network is the same tree network with the sender listening again
      (`NetOk`), all queues as before (no loop-back);
    * **exactly the other nodes of level `Lv`** hold the packed frame in their RX FIFO (pipe 0, once),
      every other RX FIFO is empty;
    * every radio other than the sender's has `receive`d one packet `k` on the address of level `Lv`,
      and **none acknowledged** (`(receive k).2 = none`);
    * at the next scheduling point — `update()` entered (as the session driver enters calls) as the
      sender or as any node that is not a receiver — every receiver runs `update()` inside it: the
      call returns 0, **exactly the other nodes of level `Lv` have gained exactly one frame** —
      `mcQueued`: origin = the sender's address, `to_node = 0o100`, the type, the message — **and every
      other queue is unchanged**; all RX FIFOs are empty, the network is the same tree network.

    `_partial`: the full statement has two more conjuncts that are not proved —
    (1) the air log: `s1.w.air = s.w.air ++ [{ sender := s.ridAt s.cur, pkt := k, attempts := 1, ok := true }]`
        and `s2.w.air = s1.w.air` (exactly one record, nothing sent by the receivers).  Proved for the
        `send` itself (`Nrf.L3.setCE_transmit_noack`: one unacknowledged cycle, one record) and, per
        record, by `C14_air_open` / `C14_unacknowledged`; missing: that `auto_ack=`, `listen=`,
        `open_tx_pipe`, `read()` leave `World.air` alone — the snapshot triples of NrfProofs/L3Base.lean
        (`Snap`) and the contracts `L3Contracts` do not mention the air log.  What *is* proved here:
        every radio has `receive`d exactly one packet (so no repetition reached anybody), no
        acknowledgement, `True` at the first attempt;
    (2) the last clause for `y` a *receiver* entering `update()` itself (`y ≠ s.cur`, level `Lv`): the
        same induction (`Nrf.Net.mc_update_step`) with the entry `callAs` in place of the scheduler's
        `switchTo`; not done.  Receivers are covered as they run inside another node's call. -/
theorem C14_level_closed_partial (cfg : AddrCfg) (hcfg : CfgOk cfg) (ham : cfg.allowMulticast = true)
    (L : LinkCfg) (tree : Nat → List Nat) (s : NetState) (ty : Int) (msg : Bytes) (level : Option Int)
    (hok : NetOk cfg L tree s) (hcur : s.cur < s.nodes.length) (hsize : s.nodes.length ≤ 400)
    (hquiet : ∀ i, i < s.nodes.length → (s.radioAt i).rxFifo = [])
    (hty : 0 ≤ ty ∧ ty ≤ 127) (hlen : msg.length ≤ MAX_FRAG_SIZE) (hmax : msg.length ≤ s.node.maxMessageLength)
    (hdup : ∀ j, j < s.nodes.length → ∀ l, (s.radioAt j).lastRx = some l →
      (mcCaller s.node ty msg).pack ≠ .ok l.data)
    (hrelay : ∀ j, j < s.nodes.length → (s.nodeAt j).relayEnabled = false)
    (hacc : ∀ j, j < s.nodes.length → j ≠ s.cur →
      (tree j).length = targetLevel (tree s.cur).length level →
      Accepts (s.nodeAt j).queue (mcQueued s.node ty msg)) :
    ∃ (s1 : NetState) (pk : Bytes) (k : Packet),
      Nrf.Net.nexec (apiMulticast msg ty level) s = (.ok true, s1) ∧
      (mcQueued s.node ty msg).pack = .ok pk ∧
      levelAddrSpec cfg.pfx cfg.sfx (targetLevel (tree s.cur).length level) = some k.addr ∧
      k.data = pk ∧
      NetOk cfg L tree s1 ∧
      (∀ j, (s1.nodeAt j).queue = (s.nodeAt j).queue) ∧
      (∀ j, j < s.nodes.length → (s1.radioAt j).rxFifo =
        if j ≠ s.cur ∧ (tree j).length = targetLevel (tree s.cur).length level
        then [{ pipe := 0, data := pk }] else []) ∧
      (∀ r, r ≠ s.ridAt s.cur → s1.w.radio r = ((s.w.radio r).receive k).1 ∧ ((s.w.radio r).receive k).2 = none) ∧
      ∀ y, y < s.nodes.length →
        (y = s.cur ∨ (tree y).length ≠ targetLevel (tree s.cur).length level) →
        ∃ s2, Nrf.Net.nexec apiUpdate ((s1.ret).callAs y) = (.ok 0, s2) ∧ NetOk cfg L tree s2 ∧
          (∀ j, j < s.nodes.length →
            (s2.nodeAt j).queue.frames = (s.nodeAt j).queue.frames ++
              (if j ≠ s.cur ∧ (tree j).length = targetLevel (tree s.cur).length level
               then [mcQueued s.node ty msg] else [])) ∧
          (∀ j, j < s.nodes.length → (s2.radioAt j).rxFifo = []) :=
  multicast_level_closed l3contracts cfg hcfg ham L tree s ty msg level hok hcur hsize hquiet hty hlen hmax hdup
    hrelay hacc

/-- the frame the receivers queue, spelled out -/
example (n : Node) (ty : Int) (msg : Bytes) :
    (mcQueued n ty msg).header.fromNode = n.a.addr &&& 0xFFF ∧
    (mcQueued n ty msg).header.toNode = 0o100 ∧
    (mcQueued n ty msg).header.msgType = .int (maskInt ty 0xFF &&& 0xFF) ∧
    (mcQueued n ty msg).header.frameId = n.frameBuf.header.frameId &&& 0xFFFF ∧
    (mcQueued n ty msg).message = msg :=
  ⟨rfl, by show (0o100 &&& 0xFFF : Nat) = 0o100; decide, rfl, rfl, rfl⟩

/-- non-vacuity: the chain master — 0o1 — 0o11 — 0o111 of NrfProofs/C13HopsExample.lean (four node
    objects on four radios as their constructors leave them, `NetOk`), the great-grandchild (level 3)
    multicasting `[1, 2, 3]`, type 5, to level 1: node object 1 (address 0o1) is the receiver -/
example : CfgOk {} ∧ NetOk {} Nrf.Net.Example.L Nrf.Net.Example.Hops.tree4 Nrf.Net.Example.Hops.four ∧
    Nrf.Net.Example.Hops.four.cur < Nrf.Net.Example.Hops.four.nodes.length ∧
    Nrf.Net.Example.Hops.four.nodes.length ≤ 400 ∧
    (∀ i, i < Nrf.Net.Example.Hops.four.nodes.length → (Nrf.Net.Example.Hops.four.radioAt i).rxFifo = []) ∧
    (∀ j, j < Nrf.Net.Example.Hops.four.nodes.length → ∀ l, (Nrf.Net.Example.Hops.four.radioAt j).lastRx = some l →
      (mcCaller Nrf.Net.Example.Hops.four.node 5 [1, 2, 3]).pack ≠ .ok l.data) ∧
    (∀ j, j < Nrf.Net.Example.Hops.four.nodes.length → (Nrf.Net.Example.Hops.four.nodeAt j).relayEnabled = false) ∧
    (∀ j, j < Nrf.Net.Example.Hops.four.nodes.length → j ≠ Nrf.Net.Example.Hops.four.cur →
      (Nrf.Net.Example.Hops.tree4 j).length =
        targetLevel (Nrf.Net.Example.Hops.tree4 Nrf.Net.Example.Hops.four.cur).length (some 1) →
      Accepts (Nrf.Net.Example.Hops.four.nodeAt j).queue (mcQueued Nrf.Net.Example.Hops.four.node 5 [1, 2, 3])) ∧
    (Nrf.Net.Example.Hops.tree4 1).length =
      targetLevel (Nrf.Net.Example.Hops.tree4 Nrf.Net.Example.Hops.four.cur).length (some 1) := by
  refine ⟨by decide, Nrf.Net.Example.Hops.four_ok, by decide, by decide, ?_, ?_, ?_, ?_, by decide⟩
  · intro i hi
    rcases Nrf.Net.Example.Hops.four_lt i hi with rfl | rfl | rfl | rfl <;> decide
  · intro j hj l hl
    have hnone : ∀ i, i < Nrf.Net.Example.Hops.four.nodes.length → (Nrf.Net.Example.Hops.four.radioAt i).lastRx = none := by
      intro i hi
      rcases Nrf.Net.Example.Hops.four_lt i hi with rfl | rfl | rfl | rfl <;> decide
    rw [hnone j hj] at hl
    cases hl
  · intro j hj
    rcases Nrf.Net.Example.Hops.four_lt j hj with rfl | rfl | rfl | rfl <;> decide
  · intro j hj _ _
    have hempty : ∀ i, i < Nrf.Net.Example.Hops.four.nodes.length →
        (Nrf.Net.Example.Hops.four.nodeAt i).queue.frames = [] ∧ (Nrf.Net.Example.Hops.four.nodeAt i).queue.maxSize = 6 := by
      intro i hi
      rcases Nrf.Net.Example.Hops.four_lt i hi with rfl | rfl | rfl | rfl <;> decide
    obtain ⟨h1, h2⟩ := hempty j hj
    refine ⟨by rw [h1, h2]; decide, fun g hg => ?_⟩
    rw [h1] at hg
    cases hg

/-! ## the medium, after any history of API calls (C14 ∘ C07) -/

/-- **C14, who receives — after every history of admissible API calls.**  From a session in which the
    node listens (`NodeListens`, established by `_begin`: `C07_begin`; `Quiet7`: open system, or closed
    system with well-formed distinct radios — NrfProofs/C07Net.lean), after any sequence `cs` of
    admissible entry points / arrivals / fault patterns that ran to completion
    (`Nrf.Props.C07.Runs cs s s'`), the node being at the tree address `ds` with its multicast level equal
    to its tree level: the node's radio `radioOf s'` takes a packet on the address of level `L` — on pipe
    0 — iff the node holds level `L`, never acknowledges it, and stores it once iff moreover the RX FIFO
    has room and the packet is no repetition.  (`C14_receivers_listening` with its hypothesis
    `Nrf.Spec.Listening` discharged by `C07_history_listening`.) -/
theorem C14_receivers_after_api (cs : List Nrf.Props.C07.Call) (s s' : NetState)
    (hopen : Nrf.Net.Quiet7 s) (h : NodeListens s) (hc : Nrf.Props.C07.CfgBytes s.node.cfg)
    (hadm : ∀ c ∈ cs, c.Admissible) (hr : Nrf.Props.C07.Runs cs s s')
    (ds : List Nat) (hn : IsNode ds) (ha : s'.node.a.addr = val ds)
    (hlv : s'.node.a.netLvl = ds.length)
    {L : Nat} (hL : L ≤ 5) {x : Bytes}
    (hx : levelAddrSpec s'.node.cfg.pfx s'.node.cfg.sfx L = some x)
    {k : Packet} (hk : McPacket x k) (hcomp : Compatible (Nrf.Props.C07.radioOf s') k) :
    ((Nrf.Props.C07.radioOf s').listensTo k =
      if HoldsLevel s'.node.cfg.allowMulticast ds L then some 0 else none) ∧
    ((Nrf.Props.C07.radioOf s').receive k).2 = none ∧
    ((Nrf.Props.C07.radioOf s').receive k).1.rxFifo =
      (if HoldsLevel s'.node.cfg.allowMulticast ds L ∧ (Nrf.Props.C07.radioOf s').rxFifo.length < 3 ∧
          (Nrf.Props.C07.radioOf s').lastRx ≠ some { pid := k.pid, addr := k.addr, data := k.data }
        then (Nrf.Props.C07.radioOf s').rxFifo ++ [{ pipe := 0, data := k.data }]
        else (Nrf.Props.C07.radioOf s').rxFifo) ∧
    (¬ (HoldsLevel s'.node.cfg.allowMulticast ds L ∧ (Nrf.Props.C07.radioOf s').rxFifo.length < 3 ∧
          (Nrf.Props.C07.radioOf s').lastRx ≠ some { pid := k.pid, addr := k.addr, data := k.data }) →
      ((Nrf.Props.C07.radioOf s').receive k).1 = Nrf.Props.C07.radioOf s') :=
  Nrf.Proofs.C14AfterApi.receivers_after_api cs s s' hopen h hc hadm hr ds hn ha hlv hL hx hk hcomp

/-- non-vacuity: a session in which node 0o123 listens after `_begin` (C07's concrete session
    `demo`), a one-step history (an environment move) and the empty one, the node on tree node
    `[3, 2, 1]` with its multicast level 3 = its tree level; a level address exists under the session's
    configuration -/
example : ∃ (s s' : NetState) (ds : List Nat), Nrf.Net.Quiet7 s ∧ NodeListens s ∧
    Nrf.Props.C07.CfgBytes s.node.cfg ∧
    Nrf.Props.C07.Runs [Nrf.Props.C07.Call.envFaults [Nrf.Outcome.ackLost]] s s' ∧
    (∀ c ∈ [Nrf.Props.C07.Call.envFaults [Nrf.Outcome.ackLost]], c.Admissible) ∧
    Nrf.Props.C07.Runs [] s s ∧ IsNode ds ∧ s.node.a.addr = val ds ∧ s.node.a.netLvl = ds.length ∧
    levelAddrSpec s.node.cfg.pfx s.node.cfg.sfx 3 = some [0xCC, 0xCE, 0xCC, 0xCC, 0xCC] :=
  Nrf.Proofs.C14AfterApi.receivers_after_api_example

/-! ## the closed system: one level, no relays, composed — complete

`C14_level_closed_partial` lacked (1) the air log and (2) `update()` entered by a receiver itself.  Both are
proved (NrfProofs/C14Closed5.lean … C14Closed8.lean):

(1) `World.air` grows only in a transmit cycle, and a cycle needs a payload in the TX FIFO: `auto_ack =`,
`listen =`, `open_tx_pipe`, `read()`, `available()` never write the TX FIFO, so from a radio with an empty TX
FIFO they append nothing (`Nrf.L3.AK`, for every state and argument); `send(buf, send_only=True)` with EN_AA =
0x3E appends exactly one record (`Nrf.L3.l3_send_noack_air`).

(2) an entered receiver `y` lets the other receivers run at its first `read()` (a scheduling point), then takes
its own packet and queues it; `update()` returns the type of that frame (what `update()` returns: the type of
the last frame handled) instead of 0.

Replay on the real code (corpus/C14/closed_level.txt): `net 4 1 new m network 0 0 ; new a network 1 1 ;
new b network 2 2 ; new c network 3 9 ; m multicast 010203 5 1 ; a update ; a read ; b read ; c read ; m read`
— the air log after `m multicast` is one record `…/cc3ccccccc/p0/n0/…x1:1` (one attempt, sent), `a update`
returns 5 and adds no record, `a read` and `b read` give the frame, `c read` / `m read` give `N`. -/

/-- **C14, one level, closed system** (the full statement; hypotheses as in `C14_level_closed_partial`).
    Tree network, multicast allowed, all RX FIFOs empty, the relay off everywhere, at most 400 node objects;
    node object `s.cur` calls `multicast(msg, ty, level)` with a single-frame message of a user type;
    `Lv = targetLevel …`.  Then

    * the call returns `True`; the network is the same tree network with the sender listening again, all
      queues as before (no loop-back);
    * **exactly the other nodes of level `Lv`** hold the packed frame in their RX FIFO (pipe 0, once), every
      other RX FIFO is empty; every radio other than the sender's has `receive`d the packet `k` on the address
      of level `Lv`, and **none acknowledged**;
    * **the air log has grown by exactly one record**: the sender's radio, the packet `k`, **one attempt,
      reported sent** — no acknowledgement was awaited, nothing was repeated;
    * at the next scheduling point — `update()` entered (as the session driver enters calls) by **any** node
      `y`, the sender, a node of another level or **a receiver** — every receiver runs `update()` (inside
      `y`'s first `read()`; `y` itself last when it is a receiver): the call returns 0, or the frame's type
      when `y` is a receiver; **exactly the other nodes of level `Lv` have gained exactly one frame**
      (`mcQueued`: origin = the sender's address, `to_node = 0o100`, the type, the message) **and every other
      queue is unchanged**; all RX FIFOs are empty; the network is the same tree network; **the air log is
      as the sender's call left it** (no receiver transmitted anything: no acknowledgement, no relay). -/
theorem C14_level_closed (cfg : AddrCfg) (hcfg : CfgOk cfg) (ham : cfg.allowMulticast = true)
    (L : LinkCfg) (tree : Nat → List Nat) (s : NetState) (ty : Int) (msg : Bytes) (level : Option Int)
    (hok : NetOk cfg L tree s) (hcur : s.cur < s.nodes.length) (hsize : s.nodes.length ≤ 400)
    (hquiet : ∀ i, i < s.nodes.length → (s.radioAt i).rxFifo = [])
    (hty : 0 ≤ ty ∧ ty ≤ 127) (hlen : msg.length ≤ MAX_FRAG_SIZE) (hmax : msg.length ≤ s.node.maxMessageLength)
    (hdup : ∀ j, j < s.nodes.length → ∀ l, (s.radioAt j).lastRx = some l →
      (mcCaller s.node ty msg).pack ≠ .ok l.data)
    (hrelay : ∀ j, j < s.nodes.length → (s.nodeAt j).relayEnabled = false)
    (hacc : ∀ j, j < s.nodes.length → j ≠ s.cur →
      (tree j).length = targetLevel (tree s.cur).length level →
      Accepts (s.nodeAt j).queue (mcQueued s.node ty msg)) :
    ∃ (s1 : NetState) (pk : Bytes) (k : Packet),
      Nrf.Net.nexec (apiMulticast msg ty level) s = (.ok true, s1) ∧
      (mcQueued s.node ty msg).pack = .ok pk ∧
      levelAddrSpec cfg.pfx cfg.sfx (targetLevel (tree s.cur).length level) = some k.addr ∧
      k.data = pk ∧
      NetOk cfg L tree s1 ∧
      (∀ j, (s1.nodeAt j).queue = (s.nodeAt j).queue) ∧
      (∀ j, j < s.nodes.length → (s1.radioAt j).rxFifo =
        if j ≠ s.cur ∧ (tree j).length = targetLevel (tree s.cur).length level
        then [{ pipe := 0, data := pk }] else []) ∧
      (∀ r, r ≠ s.ridAt s.cur → s1.w.radio r = ((s.w.radio r).receive k).1 ∧ ((s.w.radio r).receive k).2 = none) ∧
      s1.w.air = s.w.air ++ [{ sender := s.ridAt s.cur, pkt := k, attempts := 1, ok := true }] ∧
      ∀ y, y < s.nodes.length →
        ∃ s2, Nrf.Net.nexec apiUpdate ((s1.ret).callAs y) =
            (.ok (if y ≠ s.cur ∧ (tree y).length = targetLevel (tree s.cur).length level
                  then ty.toNat else 0), s2) ∧
          NetOk cfg L tree s2 ∧
          (∀ j, j < s.nodes.length →
            (s2.nodeAt j).queue.frames = (s.nodeAt j).queue.frames ++
              (if j ≠ s.cur ∧ (tree j).length = targetLevel (tree s.cur).length level
               then [mcQueued s.node ty msg] else [])) ∧
          (∀ j, j < s.nodes.length → (s2.radioAt j).rxFifo = []) ∧
          s2.w.air = s1.w.air :=
  multicast_level_closed_full l3contracts cfg hcfg ham L tree s ty msg level hok hcur hsize hquiet hty hlen hmax
    hdup hrelay hacc

/-- non-vacuity: the hypotheses are those of `C14_level_closed_partial`, satisfied by the chain network
    `four` (see the example there); here in addition: node object 1 (address 0o1, level 1) **is a receiver**
    of the great-grandchild's multicast to level 1 — the case in which `update()` entered by node 1 returns
    the type 5 —, node object 0 (the master) is not, and the sender is node object 3 -/
example : Nrf.Net.Example.Hops.four.cur = 3 ∧
    ((1 : Nat) ≠ Nrf.Net.Example.Hops.four.cur ∧ (Nrf.Net.Example.Hops.tree4 1).length =
      targetLevel (Nrf.Net.Example.Hops.tree4 Nrf.Net.Example.Hops.four.cur).length (some 1)) ∧
    ¬ ((0 : Nat) ≠ Nrf.Net.Example.Hops.four.cur ∧ (Nrf.Net.Example.Hops.tree4 0).length =
      targetLevel (Nrf.Net.Example.Hops.tree4 Nrf.Net.Example.Hops.four.cur).length (some 1)) ∧
    (5 : Int).toNat = 5 ∧
    NetOk {} Nrf.Net.Example.L Nrf.Net.Example.Hops.tree4 Nrf.Net.Example.Hops.four :=
  ⟨by decide, by decide, by decide, by decide, Nrf.Net.Example.Hops.four_ok⟩

/-! ## the closed system: one relay level, composed

Session on the real code and the model (corpus/C14/closed_level.txt): `net 4 1 new m network 0 0 ;
new a network 1 1 ; new c network 2 9 ; new d network 3 10 ; a set multicast_relay T ; c multicast 0102 5 1 ;
a update ; a read ; c read ; d read ; m read` — `c` (0o11, level 2) multicasts to level 1: air record
`2>…/cc3ccccccc/…x1:1`; `a update` returns 5, queues the frame and puts `1>…/cc33cccccc/…x1:1` (level 2's
address) on the air; `a read`, `d read` **and `c read`** (the original sender sits on level 2) give the frame,
`m read` gives `N`. -/

/-- **C14, one relay level, closed system.**  Tree network as in `C14_level_closed`; the addressed level
    `Lv = targetLevel …` is 1..3 and holds exactly one node object `j` other than the sender; `j` has
    `multicast_relay` on and its queue accepts the frame; every other node of level `Lv + 1` (the sender itself
    when it sits there) has the relay off and accepts the frame.  Then `multicast()` returns `True` and, with
    `update()` entered by `j` next:

    * `update()` returns the frame's type; `j` **has queued the frame once** (still delivered to its own
      application) and **re-broadcast it once to the next level**: the air log has grown by exactly two
      records — the sender's packet `k` on the address of level `Lv`, then `j`'s packet `k'` on the address
      of level `Lv + 1`, same payload, **one attempt each, no acknowledgement awaited**;
    * **exactly `j` and the other nodes of level `Lv + 1` have gained exactly one frame** (`mcQueued`: origin
      = the original sender, `to_node = 0o100`), every other queue is unchanged; all RX FIFOs are empty; the
      network is the same tree network. -/
theorem C14_relay_closed (cfg : AddrCfg) (hcfg : CfgOk cfg) (ham : cfg.allowMulticast = true)
    (L : LinkCfg) (tree : Nat → List Nat) (s : NetState) (ty : Int) (msg : Bytes) (level : Option Int) (j : Nat)
    (hok : NetOk cfg L tree s) (hcur : s.cur < s.nodes.length) (hsize : s.nodes.length ≤ 400)
    (hquiet : ∀ i, i < s.nodes.length → (s.radioAt i).rxFifo = [])
    (hty : 0 ≤ ty ∧ ty ≤ 127) (hlen : msg.length ≤ MAX_FRAG_SIZE) (hmax : msg.length ≤ s.node.maxMessageLength)
    (hdup : ∀ i, i < s.nodes.length → ∀ l, (s.radioAt i).lastRx = some l →
      (mcCaller s.node ty msg).pack ≠ .ok l.data)
    (hj : j < s.nodes.length) (hjc : j ≠ s.cur)
    (hjl : (tree j).length = targetLevel (tree s.cur).length level)
    (hone : ∀ i, i < s.nodes.length → i ≠ s.cur →
      (tree i).length = targetLevel (tree s.cur).length level → i = j)
    (hlvl : 1 ≤ (tree j).length ∧ (tree j).length ≤ 3)
    (hrelj : (s.nodeAt j).relayEnabled = true)
    (haccj : Accepts (s.nodeAt j).queue (mcQueued s.node ty msg))
    (hnext : ∀ i, i < s.nodes.length → i ≠ j → (tree i).length = (tree j).length + 1 →
      Accepts (s.nodeAt i).queue (mcQueued s.node ty msg) ∧ (s.nodeAt i).relayEnabled = false) :
    ∃ (s1 s2 : NetState) (pk : Bytes) (k k' : Packet),
      Nrf.Net.nexec (apiMulticast msg ty level) s = (.ok true, s1) ∧
      Nrf.Net.nexec apiUpdate ((s1.ret).callAs j) = (.ok ty.toNat, s2) ∧
      (mcQueued s.node ty msg).pack = .ok pk ∧
      levelAddrSpec cfg.pfx cfg.sfx (tree j).length = some k.addr ∧ k.data = pk ∧
      levelAddrSpec cfg.pfx cfg.sfx ((tree j).length + 1) = some k'.addr ∧ k'.data = pk ∧
      s2.w.air = s.w.air ++ [{ sender := s.ridAt s.cur, pkt := k, attempts := 1, ok := true },
                             { sender := s.ridAt j, pkt := k', attempts := 1, ok := true }] ∧
      NetOk cfg L tree s2 ∧
      (∀ i, i < s.nodes.length →
        (s2.nodeAt i).queue.frames = (s.nodeAt i).queue.frames ++
          (if i = j ∨ (i ≠ j ∧ (tree i).length = (tree j).length + 1) then [mcQueued s.node ty msg] else [])) ∧
      (∀ i, i < s.nodes.length → (s2.radioAt i).rxFifo = []) :=
  multicast_relay_closed l3contracts cfg hcfg ham L tree s ty msg level j hok hcur hsize hquiet hty hlen hmax hdup
    hj hjc hjl hone hlvl hrelj haccj hnext

/-- non-vacuity: the chain master — 0o1 — 0o11 — 0o111 with `multicast_relay` on at 0o1 (`fourRelay`,
    NrfProofs/C14Closed10.lean), the great-grandchild (node object 3, level 3) multicasting `[1, 2, 3]`, type
    5, to level 1: `j = 1` (0o1) is the one node of level 1 and relays to level 2, where node object 2
    (0o11) sits — all hypotheses hold -/
example : CfgOk {} ∧ NetOk {} Nrf.Net.Example.L Nrf.Net.Example.Hops.tree4 Nrf.Net.Example.Hops.fourRelay ∧
    Nrf.Net.Example.Hops.fourRelay.cur < Nrf.Net.Example.Hops.fourRelay.nodes.length ∧
    Nrf.Net.Example.Hops.fourRelay.nodes.length ≤ 400 ∧
    (∀ i, i < Nrf.Net.Example.Hops.fourRelay.nodes.length → (Nrf.Net.Example.Hops.fourRelay.radioAt i).rxFifo = []) ∧
    (∀ i, i < Nrf.Net.Example.Hops.fourRelay.nodes.length → ∀ l,
      (Nrf.Net.Example.Hops.fourRelay.radioAt i).lastRx = some l →
      (mcCaller Nrf.Net.Example.Hops.fourRelay.node 5 [1, 2, 3]).pack ≠ .ok l.data) ∧
    (1 : Nat) < Nrf.Net.Example.Hops.fourRelay.nodes.length ∧ (1 : Nat) ≠ Nrf.Net.Example.Hops.fourRelay.cur ∧
    (Nrf.Net.Example.Hops.tree4 1).length =
      targetLevel (Nrf.Net.Example.Hops.tree4 Nrf.Net.Example.Hops.fourRelay.cur).length (some 1) ∧
    (∀ i, i < Nrf.Net.Example.Hops.fourRelay.nodes.length → i ≠ Nrf.Net.Example.Hops.fourRelay.cur →
      (Nrf.Net.Example.Hops.tree4 i).length =
        targetLevel (Nrf.Net.Example.Hops.tree4 Nrf.Net.Example.Hops.fourRelay.cur).length (some 1) → i = 1) ∧
    (1 ≤ (Nrf.Net.Example.Hops.tree4 1).length ∧ (Nrf.Net.Example.Hops.tree4 1).length ≤ 3) ∧
    (Nrf.Net.Example.Hops.fourRelay.nodeAt 1).relayEnabled = true ∧
    Accepts (Nrf.Net.Example.Hops.fourRelay.nodeAt 1).queue (mcQueued Nrf.Net.Example.Hops.fourRelay.node 5 [1, 2, 3]) ∧
    (∀ i, i < Nrf.Net.Example.Hops.fourRelay.nodes.length → i ≠ 1 →
      (Nrf.Net.Example.Hops.tree4 i).length = (Nrf.Net.Example.Hops.tree4 1).length + 1 →
      Accepts (Nrf.Net.Example.Hops.fourRelay.nodeAt i).queue (mcQueued Nrf.Net.Example.Hops.fourRelay.node 5 [1, 2, 3]) ∧
        (Nrf.Net.Example.Hops.fourRelay.nodeAt i).relayEnabled = false) ∧
    (Nrf.Net.Example.Hops.tree4 2).length = (Nrf.Net.Example.Hops.tree4 1).length + 1 := by
  have hempty : ∀ i, i < Nrf.Net.Example.Hops.fourRelay.nodes.length →
      (Nrf.Net.Example.Hops.fourRelay.nodeAt i).queue.frames = [] ∧
        (Nrf.Net.Example.Hops.fourRelay.nodeAt i).queue.maxSize = 6 := by
    intro i hi
    rcases Nrf.Net.Example.Hops.fourRelay_lt i hi with rfl | rfl | rfl | rfl <;> decide
  have hacc : ∀ i, i < Nrf.Net.Example.Hops.fourRelay.nodes.length →
      Accepts (Nrf.Net.Example.Hops.fourRelay.nodeAt i).queue (mcQueued Nrf.Net.Example.Hops.fourRelay.node 5 [1, 2, 3]) := by
    intro i hi
    obtain ⟨h1, h2⟩ := hempty i hi
    refine ⟨by rw [h1, h2]; decide, fun g hg => ?_⟩
    rw [h1] at hg
    cases hg
  refine ⟨by decide, Nrf.Net.Example.Hops.fourRelay_ok, by decide, by decide, ?_, ?_, by decide, by decide, by decide,
    ?_, by decide, by decide, hacc 1 (by decide), ?_, by decide⟩
  · intro i hi
    rcases Nrf.Net.Example.Hops.fourRelay_lt i hi with rfl | rfl | rfl | rfl <;> decide
  · intro i hi l hl
    have hnone : ∀ i, i < Nrf.Net.Example.Hops.fourRelay.nodes.length →
        (Nrf.Net.Example.Hops.fourRelay.radioAt i).lastRx = none := by
      intro i hi
      rcases Nrf.Net.Example.Hops.fourRelay_lt i hi with rfl | rfl | rfl | rfl <;> decide
    rw [hnone i hi] at hl
    cases hl
  · intro i hi hic hl
    rcases Nrf.Net.Example.Hops.fourRelay_lt i hi with rfl | rfl | rfl | rfl
    · exact absurd hl (by decide)
    · rfl
    · exact absurd hl (by decide)
    · exact absurd rfl hic
  · intro i hi hi1 hl
    refine ⟨hacc i hi, ?_⟩
    rcases Nrf.Net.Example.Hops.fourRelay_lt i hi with rfl | rfl | rfl | rfl
    · decide
    · exact absurd rfl hi1
    · decide
    · decide

end Nrf.Props.C14
