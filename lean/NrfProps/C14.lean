/-
C14 — a multicast reaches exactly the chosen network level, unacknowledged (statements in progress).
-/
import NrfModel.Net.Api

namespace Nrf.Props.C14
open Nrf Nrf.Net

/-- a multicast is never translated into a routed hop: for every node and target, send type
    TX_MULTICAST goes to the given address on pipe 0 flagged as multicast -/
theorem C14_logi2phys_multicast (n : NodeAddr) (to : Nat) :
    logi2phys n to TX_MULTICAST = (to, 0, true) := by
  simp [logi2phys, TX_MULTICAST, TX_ROUTED]

end Nrf.Props.C14
