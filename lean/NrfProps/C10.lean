/-
C10 — FIFO and status accessors report the radio's true state (statements in progress).
-/
import NrfModel.Rf24

namespace Nrf.Props.C10
open Nrf

/-- FLUSH_RX empties exactly the RX FIFO: the TX FIFO, the latched flags and every configuration
    register are untouched, and the returned status byte is the one from before the command -/
theorem C10_flush_rx (r : Radio) :
    (r.xfer [0xE2]).1 = { r with rxFifo := [] } ∧ (r.xfer [0xE2]).2 = [r.status] := by
  simp [Radio.xfer, Radio.runCmd, Radio.decodeCmd, zeros]

/-- FLUSH_TX likewise -/
theorem C10_flush_tx (r : Radio) :
    (r.xfer [0xE1]).1 = { r with txFifo := [] } ∧ (r.xfer [0xE1]).2 = [r.status] := by
  simp [Radio.xfer, Radio.runCmd, Radio.decodeCmd, zeros]

end Nrf.Props.C10
